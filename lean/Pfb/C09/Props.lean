/-
  Pfb.C09.Props — C09 "No file is modified without the configured go-ahead":
  property theorems over the model `Pfb.C09.Model` of `_cmdline.py`.

  All theorems quantify over every rewriter/decoder `env`, every file system `fs`, every action
  list, every argument list and every answer sequence; there is no bound on any length.
-/
import Pfb.C09.Lemmas
namespace Pfb.C09

/-! ### Vocabulary of the statements -/

/-- Every REPLACE of the list has an action satisfying `g` somewhere before it. -/
def guardedBy (g : Action → Bool) : List Action → Bool
  | [] => true
  | a :: rest => if a = .replace then false else (g a || guardedBy g rest)

def Action.isQuery : Action → Bool
  | .query _ => true
  | _ => false

theorem guardedBy_spec {g : Action → Bool} : ∀ {acts : List Action} {k : Nat},
    guardedBy g acts = true → acts[k]? = some .replace → ∃ a ∈ acts.take k, g a = true
  | [], k, _, h => by simp at h
  | a :: rest, 0, hg, h => by
    simp at h; subst h; simp [guardedBy] at hg
  | a :: rest, k + 1, hg, h => by
    simp only [guardedBy] at hg
    split at hg
    · simp at hg
    · simp only [Bool.or_eq_true] at hg
      rcases hg with hg | hg
      · exact ⟨a, by simp, hg⟩
      · obtain ⟨x, hx, hgx⟩ := guardedBy_spec hg (by simpa using h)
        exact ⟨x, by simp [hx], hgx⟩

theorem finish_fs (s : Run) : (finish s).fs = s.fs := by
  unfold finish; split
  · rfl
  · split <;> rfl

theorem processActions_fs (env : Env) (fs : FS) (acts : List Action) (args : List Path) (ans : List Str) :
    (processActions env fs acts args ans).fs =
      (processFiles env acts (filenameArgs fs args).files (initRun fs (filenameArgs fs args) ans)).fs := by
  simp only [processActions, finish_fs]

/-! ### C09_safety -/

/-- Loop-level safety, from any state of the loop over files. -/
theorem processFiles_change {env : Env} {acts : List Action} {q : Path} :
    ∀ (files : List Path) (s : Run), s.halted = none →
    (processFiles env acts files s).fs q ≠ s.fs q →
    ∃ pre p post, files = pre ++ p :: post ∧ (processFiles env acts pre s).halted = none ∧
      ∃ k, acts[k]? = some .replace ∧
        (runActions env (acts.take k) (processFiles env acts pre s).fs (MState.fresh p)
            (processFiles env acts pre s).ans).oc = .done ∧
        (runActions env (acts.take k) (processFiles env acts pre s).fs (MState.fresh p)
            (processFiles env acts pre s).ans).st.cur = q ∧
        ∃ c o, contentAt (processFiles env acts pre s).fs p = some c ∧ env.readable c = true ∧
          env.rw c = some o ∧ (processFiles env acts files s).fs q = some (.file o false)
  | [], s, _, h => by simp at h
  | p :: ps, s, hs, h => by
    -- what the body of the loop did for `p`
    have own : (processFile env acts s p).fs q ≠ s.fs q →
        ∃ k, acts[k]? = some .replace ∧
          (runActions env (acts.take k) s.fs (MState.fresh p) s.ans).oc = .done ∧
          (runActions env (acts.take k) s.fs (MState.fresh p) s.ans).st.cur = q ∧
          ∃ c o, contentAt s.fs p = some c ∧ env.readable c = true ∧ env.rw c = some o ∧
            (processFile env acts s p).fs q = some (.file o false) := by
      intro hne
      rw [processFile_fs] at hne ⊢
      exact runActions_change acts s.ans (Inv.fresh env s.fs p) hne
    by_cases hh : (processFile env acts s p).halted = none
    · rw [processFiles_cons_go hh] at h ⊢
      by_cases hch : (processFiles env acts ps (processFile env acts s p)).fs q ≠ (processFile env acts s p).fs q
      · obtain ⟨pre, p', post, hfiles, hhalt, hrest⟩ := processFiles_change ps _ hh hch
        refine ⟨p :: pre, p', post, by simp [hfiles], ?_, ?_⟩
        · rw [processFiles_cons_go hh]; exact hhalt
        · rw [processFiles_cons_go hh]; exact hrest
      · have heq := Classical.not_not.mp hch
        rw [heq] at h ⊢
        obtain ⟨k, hk, hd, hc, hrest⟩ := own h
        exact ⟨[], p, ps, rfl, by simpa using hs, k, hk, by simpa using hd, by simpa using hc, by simpa using hrest⟩
    · rw [processFiles_cons_halt hh] at h ⊢
      obtain ⟨k, hk, hd, hc, hrest⟩ := own h
      exact ⟨[], p, ps, rfl, by simpa using hs, k, hk, by simpa using hd, by simpa using hc, by simpa using hrest⟩

/-- **C09_safety.**  If the node of a path `q` differs after `process_actions`, then some file `p` of the
    expanded argument list was reached by the loop (no SystemExit before it), the action list has a
    REPLACE at some index `k`, the actions before it (`acts.take k`), run on `p` from the state the
    earlier files left, all completed (no AbortActions, Exit1, exception or SystemExit) and left
    `m.filename = q`, and the node of `q` is a freshly written regular file holding exactly the
    rewriter's output on the content `p` had when its turn came. -/
theorem C09_safety (env : Env) (fs : FS) (acts : List Action) (args : List Path) (ans : List Str) (q : Path)
    (h : (processActions env fs acts args ans).fs q ≠ fs q) :
    ∃ pre p post, (filenameArgs fs args).files = pre ++ p :: post ∧
      (processFiles env acts pre (initRun fs (filenameArgs fs args) ans)).halted = none ∧
      ∃ k, acts[k]? = some .replace ∧
        (runActions env (acts.take k) (processFiles env acts pre (initRun fs (filenameArgs fs args) ans)).fs
            (MState.fresh p) (processFiles env acts pre (initRun fs (filenameArgs fs args) ans)).ans).oc = .done ∧
        (runActions env (acts.take k) (processFiles env acts pre (initRun fs (filenameArgs fs args) ans)).fs
            (MState.fresh p) (processFiles env acts pre (initRun fs (filenameArgs fs args) ans)).ans).st.cur = q ∧
        ∃ c o, contentAt (processFiles env acts pre (initRun fs (filenameArgs fs args) ans)).fs p = some c ∧
          env.readable c = true ∧ env.rw c = some o ∧
          (processActions env fs acts args ans).fs q = some (.file o false) := by
  rw [processActions_fs] at h ⊢
  exact processFiles_change _ (initRun fs (filenameArgs fs args) ans) rfl h

end Pfb.C09
