/-
  Pfb.C05.Model — vocabulary for the C05 statements: program fragments, D9 family predicates (all decidable),
  the connection between an initial `XState` (reference semantics) and the namespaces given to the analysis.
-/
import Pfb.PyCore.Analyze
import Pfb.PyCore.Exec
namespace Pfb.C05
open Pfb Pfb.PyCore

/-- an identifier: no dot, not the star of `from m import *` -/
def simpleName (n : Str) : Bool := !n.contains '.' && n != ['*']

/-- first component of a dotted name -/
def headOf (d : Str) : Str := (splitDots d).headD []

/-! ### fragment A: straight-line module-level code over names, constants and operators -/

mutual
  def fragAExpr : Expr → Bool
    | .name n => simpleName n
    | .const => true
    | .bool _ => true
    | .str _ => true
    | .binop l r => fragAExpr l && fragAExpr r
    | .ifExp t a b => fragAExpr t && fragAExpr a && fragAExpr b
    | .tuple es => fragAExprs es
    | .list es => fragAExprs es
    | .subscript v i => fragAExpr v && fragAExpr i
    | _ => false
  def fragAExprs : List Expr → Bool
    | [] => true
    | e :: es => fragAExpr e && fragAExprs es
end

mutual
  /-- names read by an expression of fragment A (both branches of a conditional expression) -/
  def namesOf : Expr → List Str
    | .name n => [n]
    | .binop l r => namesOf l ++ namesOf r
    | .ifExp t a b => namesOf t ++ namesOf a ++ namesOf b
    | .tuple es => namesOfs es
    | .list es => namesOfs es
    | .subscript v i => namesOf v ++ namesOf i
    | _ => []
  def namesOfs : List Expr → List Str
    | [] => []
    | e :: es => namesOf e ++ namesOfs es
end

mutual
  def noIfExpr : Expr → Bool
    | .ifExp _ _ _ => false
    | .binop l r => noIfExpr l && noIfExpr r
    | .tuple es => noIfExprs es
    | .list es => noIfExprs es
    | .subscript v i => noIfExpr v && noIfExpr i
    | _ => true
  def noIfExprs : List Expr → Bool
    | [] => true
    | e :: es => noIfExpr e && noIfExprs es
end

theorem singleName_eq {ts : List Expr} {x : Str} (h : singleName ts = some x) : ts = [.name x] := by
  unfold singleName at h
  split at h
  · cases h; rfl
  · cases h

def fragAStmt : Stmt → Bool
  | .expr e => fragAExpr e
  | .assign ts e => (match singleName ts with | some x => simpleName x | none => false) && fragAExpr e
  | .pass => true
  | .located _ s => fragAStmt s
  | _ => false

/-- no conditional expression (every read is executed) and no `__all__ = [...]` (whose entries the analysis
    treats as reads although nothing is looked up at run time) -/
def plainStmt : Stmt → Bool
  | .expr e => noIfExpr e
  | .assign ts e => noIfExpr e && (singleName ts != some "__all__".toList)
  | .located _ s => plainStmt s
  | _ => true

def fragA (prog : List Stmt) : Bool := prog.all fragAStmt

def isOk {α} : Except Exc α → Bool
  | .ok _ => true
  | .error _ => false

/-! ### initial states -/

def boundIn (sc : Scope) (n : Str) : Bool := (sc.get n).isSome

/-- The reference run starts from globals/builtins that bind exactly the (simple) names bound in the builtins scope
    and the namespaces given to the analysis, and nothing has been raised yet. -/
structure Agree (builtins : Scope) (ns : List Scope) (s0 : XState) : Prop where
  names : ∀ n, simpleName n = true →
    (((assocGet n s0.globals).isSome ∨ s0.builtins.contains n = true) ↔
      (boundIn builtins n = true ∨ n = "__file__".toList ∨ ∃ sc ∈ ns, boundIn sc n = true))
  noStar : boundIn builtins ['*'] = false ∧ ∀ sc ∈ ns, boundIn sc ['*'] = false
  noClass : ∀ sc ∈ ns, sc.isClass = false
  ne0 : s0.ne = []

/-! ### D9 families: decidable predicates on (program, name)

The harness (`harness/c05.py`, `FAMILIES`) uses the same predicates on the JSON AST to classify oracle failures;
here they name the hypotheses of the target theorem and are refuted on the witnesses in `Props.lean`. -/

mutual
  /-- all names in load position anywhere inside an expression (lambda bodies and comprehensions included) -/
  def readsE : Expr → List Str
    | .name n => [n]
    | .attr e _ => readsE e
    | .call f args => readsE f ++ readsEs args
    | .binop l r => readsE l ++ readsE r
    | .lambda a b => readsArgs a ++ readsE b
    | .comp _ elts gens => readsEs elts ++ readsGens gens
    | .ifExp t a b => readsE t ++ readsE a ++ readsE b
    | .tuple es => readsEs es
    | .list es => readsEs es
    | .subscript v i => readsE v ++ readsE i
    | _ => []
  def readsEs : List Expr → List Str
    | [] => []
    | e :: es => readsE e ++ readsEs es
  def readsGens : List Gen → List Str
    | [] => []
    | .mk _ it ifs :: gs => readsE it ++ readsEs ifs ++ readsGens gs
  def readsOpts : List (Option Expr) → List Str
    | [] => []
    | none :: r => readsOpts r
    | some e :: r => readsE e ++ readsOpts r
  def readsParams : List Param → List Str
    | [] => []
    | .mk _ none :: ps => readsParams ps
    | .mk _ (some a) :: ps => readsE a ++ readsParams ps
  def readsArgs : Args → List Str
    | .mk args defaults _ kwonly kwdefaults _ => readsParams args ++ readsEs defaults ++ readsParams kwonly ++ readsOpts kwdefaults
end

mutual
  /-- names read inside a comprehension or a lambda somewhere in the expression -/
  def innerReads : Expr → List Str
    | .lambda a b => readsArgs a ++ readsE b
    | .comp _ elts gens => readsEs elts ++ readsGens gens
    | .attr e _ => innerReads e
    | .call f args => innerReads f ++ innerReadss args
    | .binop l r => innerReads l ++ innerReads r
    | .ifExp t a b => innerReads t ++ innerReads a ++ innerReads b
    | .tuple es => innerReadss es
    | .list es => innerReadss es
    | .subscript v i => innerReads v ++ innerReads i
    | _ => []
  def innerReadss : List Expr → List Str
    | [] => []
    | e :: es => innerReads e ++ innerReadss es
end

mutual
  /-- every statement of the program, nested ones included, `located` wrappers removed -/
  def flatStmt : Stmt → List Stmt
    | .located _ s => flatStmt s
    | .funcDef n a b d r => .funcDef n a b d r :: flatStmts b
    | .classDef n bs b d => .classDef n bs b d :: flatStmts b
    | .for_ t i b o => .for_ t i b o :: (flatStmts b ++ flatStmts o)
    | .while_ t b o => .while_ t b o :: (flatStmts b ++ flatStmts o)
    | .if_ t b o => .if_ t b o :: (flatStmts b ++ flatStmts o)
    | .with_ items b => .with_ items b :: flatStmts b
    | .try_ b hs o f => .try_ b hs o f :: (flatStmts b ++ flatHandlers hs ++ flatStmts o ++ flatStmts f)
    | s => [s]
  def flatStmts : List Stmt → List Stmt
    | [] => []
    | s :: ss => flatStmt s ++ flatStmts ss
  def flatHandlers : List Handler → List Stmt
    | [] => []
    | .mk _ _ _ b :: hs => flatStmts b ++ flatHandlers hs
end

mutual
  /-- heads `n` of attribute-chain store targets `n.a.b` -/
  def attrHeads : Expr → List Str
    | .attr e a => match (Expr.attr e a).dotted with
      | some ps => [ps.headD []]
      | none => []
    | .tuple es => attrHeadss es
    | .list es => attrHeadss es
    | _ => []
  def attrHeadss : List Expr → List Str
    | [] => []
    | e :: es => attrHeads e ++ attrHeadss es
end

def withTargetExprs : List WithItem → List Expr
  | [] => []
  | w :: ws => (match w.target with | some t => [t] | none => []) ++ withTargetExprs ws

def handlerNames : List Handler → List Str
  | [] => []
  | .mk _ _ (some n) _ :: hs => n :: handlerNames hs
  | .mk _ _ none _ :: hs => handlerNames hs

/-- the expressions a statement itself evaluates (not those of nested statements) -/
def ownExprs : Stmt → List Expr
  | .expr e => [e]
  | .assign _ v => [v]
  | .augAssign _ v => [v]
  | .annAssign _ a v => a :: (match v with | some e => [e] | none => [])
  | .for_ _ i _ _ => [i]
  | .while_ t _ _ => [t]
  | .if_ t _ _ => [t]
  | .return_ (some e) => [e]
  | _ => []

/-- (a) a comprehension / lambda at the level of a class body reads a name bound in that class body -/
def famA (n : Str) (prog : List Stmt) : Bool :=
  (flatStmts prog).any fun s => match s with
    | .classDef _ _ body _ =>
      (boundStmts body).contains n &&
        (flatStmts body).any (fun t => (ownExprs t).any (fun e => (innerReads e).contains n))
    | _ => false

/-- (b) `n` is the name of an `except … as n` clause -/
def famB (n : Str) (prog : List Stmt) : Bool :=
  (flatStmts prog).any fun s => match s with
    | .try_ _ hs _ _ => (handlerNames hs).contains n
    | _ => false

/-- (c) augmented assignment whose target is the plain name `n` -/
def famC (n : Str) (prog : List Stmt) : Bool :=
  (flatStmts prog).any fun s => match s with
    | .augAssign (.name x) _ => x = n
    | _ => false

/-- (d)/(h) `n` is the name of a class definition (its entries are removed by `_remove_from_missing_imports`) -/
def famD (n : Str) (prog : List Stmt) : Bool :=
  (flatStmts prog).any fun s => match s with
    | .classDef x _ _ _ => x = n
    | _ => false

/-- (e) a binding of `n` sits inside a conditional, loop, `with` or `try` block (static over-approximation of
    "a binding the run does not execute"; the harness uses the dynamic fact) -/
def famE (n : Str) (prog : List Stmt) : Bool :=
  (flatStmts prog).any fun s => match s with
    | .for_ t _ b o => (targetNames t ++ boundStmts b ++ boundStmts o).contains n
    | .while_ _ b o => (boundStmts b ++ boundStmts o).contains n
    | .if_ _ b o => (boundStmts b ++ boundStmts o).contains n
    | .with_ _ b => (boundStmts b).contains n
    | .try_ b hs o f => (boundStmts b ++ boundHandlers hs ++ boundStmts o ++ boundStmts f).contains n
    | _ => false

/-- (f) a `for` whose target binds `n` while its iterable reads `n` -/
def famF (n : Str) (prog : List Stmt) : Bool :=
  (flatStmts prog).any fun s => match s with
    | .for_ t it _ _ => (targetNames t).contains n && (readsE it).contains n
    | _ => false

/-- (g) annotated assignment whose target is the plain name `n` -/
def famG (n : Str) (prog : List Stmt) : Bool :=
  (flatStmts prog).any fun s => match s with
    | .annAssign (.name x) _ _ => x = n
    | _ => false

/-- (i) a store to an attribute chain whose head is `n` -/
def famI (n : Str) (prog : List Stmt) : Bool :=
  (flatStmts prog).any fun s => match s with
    | .assign ts _ => (attrHeadss ts).contains n
    | .augAssign t _ => (attrHeads t).contains n
    | .annAssign t _ _ => (attrHeads t).contains n
    | .for_ t _ _ _ => (attrHeads t).contains n
    | .with_ items _ => (attrHeadss (withTargetExprs items)).contains n
    | _ => false

/-- (j) a parameter / return annotation of a `def` reads one of that `def`'s parameter names -/
def famJ (n : Str) (prog : List Stmt) : Bool :=
  (flatStmts prog).any fun s => match s with
    | .funcDef _ (.mk args d va kwonly kd kw) _ _ returns =>
      (Args.names (.mk args d va kwonly kd kw)).contains n &&
        (readsParams args ++ readsParams kwonly ++ (match returns with | some r => readsE r | none => [])).contains n
    | _ => false

mutual
  /-- some `for n in it` clause of a comprehension inside the expression has a nested comprehension / lambda in `it`
      that reads `n` -/
  def compVarInIter (n : Str) : Expr → Bool
    | .comp _ elts gens => gensVarInIter n gens || compVarInIters n elts
    | .attr e _ => compVarInIter n e
    | .call f args => compVarInIter n f || compVarInIters n args
    | .binop l r => compVarInIter n l || compVarInIter n r
    | .lambda _ b => compVarInIter n b
    | .ifExp t a b => compVarInIter n t || compVarInIter n a || compVarInIter n b
    | .tuple es => compVarInIters n es
    | .list es => compVarInIters n es
    | .subscript v i => compVarInIter n v || compVarInIter n i
    | _ => false
  def compVarInIters (n : Str) : List Expr → Bool
    | [] => false
    | e :: es => compVarInIter n e || compVarInIters n es
  def gensVarInIter (n : Str) : List Gen → Bool
    | [] => false
    | .mk t it ifs :: gs =>
      ((targetNames t).contains n && (innerReads it).contains n) || compVarInIter n it || compVarInIters n ifs
        || gensVarInIter n gs
end

/-- (l) inside a function, a comprehension variable is read by a nested comprehension / lambda in its own iterable -/
def famL (n : Str) (prog : List Stmt) : Bool :=
  (flatStmts prog).any fun s => (ownExprs s).any (compVarInIter n)

/-- `n` falls in none of the known families for `prog` -/
def outsideFamilies (n : Str) (prog : List Stmt) : Bool :=
  !(famA n prog || famB n prog || famC n prog || famD n prog || famE n prog || famF n prog || famG n prog
    || famI n prog || famJ n prog || famL n prog)

/-- the soundness statement for one concrete program, as a decidable check -/
def soundOn (builtins : Scope) (ns : List Scope) (s0 : XState) (fuel : Nat) (body calls : List Stmt) : Bool :=
  (runProgram fuel body calls s0).1.ne.all fun n =>
    (findMissing {} builtins ns (body ++ calls)).any fun d => headOf d = n

end Pfb.C05
