/-
  Pfb.C05.Model — vocabulary for the C05 statements: program fragments, D9 family predicates (all decidable),
  the connection between an initial `XState` (reference semantics) and the namespaces given to the analysis.
-/
import Pfb.PyCore.Analyze
import Pfb.PyCore.Exec
namespace Pfb.C05
open Pfb Pfb.PyCore

/-- an identifier: no dot, not the star of `from m import *` -/
def simpleName (n : Str) : Bool := !n.contains '.' && n != ['*']

/-- first component of a dotted name -/
def headOf (d : Str) : Str := (splitDots d).headD []

/-! ### fragment A: straight-line module-level code over names, constants and operators -/

mutual
  def fragAExpr : Expr → Bool
    | .name n => simpleName n
    | .const => true
    | .bool _ => true
    | .str _ => true
    | .binop l r => fragAExpr l && fragAExpr r
    | .ifExp t a b => fragAExpr t && fragAExpr a && fragAExpr b
    | .tuple es => fragAExprs es
    | .list es => fragAExprs es
    | .subscript v i => fragAExpr v && fragAExpr i
    | _ => false
  def fragAExprs : List Expr → Bool
    | [] => true
    | e :: es => fragAExpr e && fragAExprs es
end

mutual
  /-- names read by an expression of fragment A (both branches of a conditional expression) -/
  def namesOf : Expr → List Str
    | .name n => [n]
    | .binop l r => namesOf l ++ namesOf r
    | .ifExp t a b => namesOf t ++ namesOf a ++ namesOf b
    | .tuple es => namesOfs es
    | .list es => namesOfs es
    | .subscript v i => namesOf v ++ namesOf i
    | _ => []
  def namesOfs : List Expr → List Str
    | [] => []
    | e :: es => namesOf e ++ namesOfs es
end

mutual
  def noIfExpr : Expr → Bool
    | .ifExp _ _ _ => false
    | .binop l r => noIfExpr l && noIfExpr r
    | .tuple es => noIfExprs es
    | .list es => noIfExprs es
    | .subscript v i => noIfExpr v && noIfExpr i
    | _ => true
  def noIfExprs : List Expr → Bool
    | [] => true
    | e :: es => noIfExpr e && noIfExprs es
end

theorem singleName_eq {ts : List Expr} {x : Str} (h : singleName ts = some x) : ts = [.name x] := by
  unfold singleName at h
  split at h
  · cases h; rfl
  · cases h

def fragAStmt : Stmt → Bool
  | .expr e => fragAExpr e
  | .assign ts e => (match singleName ts with | some x => simpleName x | none => false) && fragAExpr e
  | .pass => true
  | .located _ s => fragAStmt s
  | _ => false

/-- no conditional expression (every read is executed) and no `__all__ = [...]` (whose entries the analysis
    treats as reads although nothing is looked up at run time) -/
def plainStmt : Stmt → Bool
  | .expr e => noIfExpr e
  | .assign ts e => noIfExpr e && (singleName ts != some "__all__".toList)
  | .located _ s => plainStmt s
  | _ => true

def fragA (prog : List Stmt) : Bool := prog.all fragAStmt

/-! ### initial states -/

def boundIn (sc : Scope) (n : Str) : Bool := (sc.get n).isSome

/-- The reference run starts from globals/builtins that bind exactly the (simple) names bound in the builtins scope
    and the namespaces given to the analysis, and nothing has been raised yet. -/
structure Agree (builtins : Scope) (ns : List Scope) (s0 : XState) : Prop where
  names : ∀ n, simpleName n = true →
    (((assocGet n s0.globals).isSome ∨ s0.builtins.contains n = true) ↔
      (boundIn builtins n = true ∨ n = "__file__".toList ∨ ∃ sc ∈ ns, boundIn sc n = true))
  noStar : boundIn builtins ['*'] = false ∧ ∀ sc ∈ ns, boundIn sc ['*'] = false
  noClass : ∀ sc ∈ ns, sc.isClass = false
  ne0 : s0.ne = []

end Pfb.C05
