/-
  C05, clause "parameters and defaults, lambda … variables, module-level names defined after a function that reads them"
  — fragment H.

  Fragment H (`Pfb.C05.FragH`) = fragment C (fragment B + module-level `def f(p1, …, pk): <straight-line body>` called
  only by the statements `calls` that follow the last module-level statement) extended by

  (1) DEFAULT values of positional parameters, `def f(p, q=e): …` with `e` a fragment-B expression.
      Reference run (`mkClosure`): the defaults are evaluated once, when the `def` statement runs, in the enclosing
      (module) scope, before the function's own name is bound; the values are stored in the closure.
      Analysis (`cArgs` = `visit_arguments`): `upScope ; visit defaults ; downScope` — the loads of the defaults are
      ordinary module-level loads (`_in_FunctionDef` is still false: checked immediately, not deferred) against the
      stack without the freshly pushed argument scope.
  (2) module-level assignments of lambdas, `g = lambda p1, …, pk=e: <fragment-B expression>`.
      Reference run: a closure whose body expression runs in a frame holding the parameters when (and only when) it is
      called.  Analysis (`cExpr` of `.lambda` = `visit_Lambda`): argument scope, then the body in a further scope with
      `_in_FunctionDef` set — its loads are deferred to the end of the module (`_visit_Load_defered` twice,
      `clone_top`, `_finish_deferred_load_checks`).

  The theorems hold for every `fx` (unchanged tree and every combination of repairs), every registry, builtins scope,
  caller namespaces, fuel and every initial run-time state that agrees with the namespaces.
-/
import Pfb.C05.LemmasH
import Pfb.C05.PropsG
namespace Pfb.C05
open Pfb Pfb.PyCore

/-- **C05_sound_fragH.**  On fragment H every global name whose lookup raises NameError anywhere in the run — at module
    level, in a DEFAULT value when a `def` / lambda is executed, in an argument of a trailing call, inside a called
    function body or inside the body of a called lambda — is the head of a name reported by `findMissingFx` for the whole
    source (the name itself when `D = false`).  Same hypotheses as `C05_sound_fragC`. -/
theorem C05_sound_fragH (fx : Fixes) (reg : Registry) (builtins : Scope) (ns : List Scope) (prog calls : List Stmt)
    (s0 : XState) (fuel : Nat) (D : Bool) (hfr : fragH D prog = true) (hcalls : calls.all (fragCall D) = true)
    (hag : Agree builtins ns s0) (hdf : D = true → nsDotFree builtins ns = true)
    (hb : builtins.isClass = false) (hf : s0.funcs = []) :
    ∀ n ∈ (runProgram fuel prog calls s0).1.ne,
      ∃ d ∈ findMissingFx fx reg builtins ns (prog ++ calls), headOf d = n ∧ (D = false → d = n) := by
  intro n hn
  obtain ⟨m, hm, hmn⟩ := sound_fragH fx reg D prog calls fuel s0 (initState builtins ns) hfr hcalls
    (corrH_init D builtins ns s0 hag hdf hb hf) n hn
  refine ⟨m.name, ?_, hmn⟩
  unfold findMissingFx analyzeFx
  rw [mem_sortedSet, List.mem_map]
  exact ⟨m, hm, rfl⟩

/-- **C05_precise_fragH.**  On fragment H without conditional expressions at module level, in default values and in call
    arguments, and without `__all__` (`plainStmtH`, `plainCall`): if the reference run completes, every reported name is
    read by the body of some closure created by the program (a `def` body or a lambda body: `closLoads`), and its head is
    bound neither in the globals nor in the builtins when the run ends.  In particular nothing is reported for default
    values, parameters, or body reads that the final globals resolve.  Same hypotheses as `C05_precise_fragC`. -/
theorem C05_precise_fragH (fx : Fixes) (reg : Registry) (builtins : Scope) (ns : List Scope) (prog calls : List Stmt)
    (s0 : XState) (fuel : Nat) (D : Bool) (hfr : fragH D prog = true) (hpl : prog.all plainStmtH = true)
    (hcalls : calls.all (fragCall D) = true) (hplc : calls.all plainCall = true)
    (hag : Agree builtins ns s0) (hdf : D = true → nsDotFree builtins ns = true)
    (hrd : D = true → regDisjoint reg builtins ns = true)
    (hb : builtins.isClass = false) (hf : s0.funcs = [])
    (hok : (runProgram fuel prog calls s0).2 = .ok ()) :
    ∀ d ∈ findMissingFx fx reg builtins ns (prog ++ calls),
      ∃ c ∈ (runProgram fuel prog calls s0).1.funcs, d ∈ closLoads c ∧
        unboundX (runProgram fuel prog calls s0).1 (headOf d) := by
  intro d hd
  unfold findMissingFx analyzeFx at hd
  rw [mem_sortedSet, List.mem_map] at hd
  obtain ⟨m, hm, rfl⟩ := hd
  exact precise_fragH fx reg D prog calls fuel s0 (initState builtins ns) hfr hpl hcalls hplc
    (corrH_init D builtins ns s0 hag hdf hb hf) (plainInvH_init D reg builtins ns s0 hag.noClass hrd) hok m hm

/-- a `def` of fragment C is a `def` of fragment H (without default values) -/
theorem fragDef_H (D : Bool) : ∀ (s : Stmt), fragDef D s = true → fragDefH D s = true
  | .located _ s, h => by
    simp only [fragDefH]; exact fragDef_H D s (by simpa [fragDef] using h)
  | .funcDef name a body decos ret, h => by
    obtain ⟨ps, rfl, rfl, rfl, hn, hps, hb⟩ := fragDef_funcDef h
    simp [fragDefH, hn, hps, hb, fragBExprs]
  | .expr _, h => by simp [fragDef] at h
  | .assign _ _, h => by simp [fragDef] at h
  | .pass, h => by simp [fragDef] at h
  | .import_ _, h => by simp [fragDef] at h
  | .importFrom _ _, h => by simp [fragDef] at h
  | .augAssign _ _, h => by simp [fragDef] at h
  | .annAssign _ _ _, h => by simp [fragDef] at h
  | .classDef _ _ _ _, h => by simp [fragDef] at h
  | .for_ _ _ _ _, h => by simp [fragDef] at h
  | .while_ _ _ _, h => by simp [fragDef] at h
  | .if_ _ _ _, h => by simp [fragDef] at h
  | .with_ _ _, h => by simp [fragDef] at h
  | .try_ _ _ _ _, h => by simp [fragDef] at h
  | .return_ _, h => by simp [fragDef] at h
  | .raise_ _, h => by simp [fragDef] at h
  | .delete _, h => by simp [fragDef] at h
  | .global_ _, h => by simp [fragDef] at h
  | .nonlocal_ _, h => by simp [fragDef] at h

/-- **fragC_sub_fragH.**  Every program of fragment C (hence of fragments A and B) is a program of fragment H:
    `C05_sound_fragH` extends `C05_sound_fragC`. -/
theorem fragC_sub_fragH (D : Bool) (prog : List Stmt) (h : fragC D prog = true) : fragH D prog = true := by
  simp only [fragC, fragH, List.all_eq_true] at h ⊢
  intro s hs
  have := h s hs
  simp only [fragCStmt, Bool.or_eq_true] at this
  rcases this with h1 | h1
  · simp [fragHStmt, h1]
  · simp [fragHStmt, fragDef_H D s h1]

/-- the closures of fragment C are the closures of fragment H without default values, and the names the precision
    theorem speaks about are the same -/
theorem closLoads_defClosure (ps : List Param) (body : List Stmt) : closLoads (defClosure ps body) = bodyLoads body := rfl

/-- on fragment C the precision hypothesis of fragment H is the one of fragment C (there are no default values) -/
theorem plainDefaults_fragC (D : Bool) : ∀ (s : Stmt), fragCStmt D s = true → plainDefaults s = true
  | .located _ s, h => by
    simp only [plainDefaults]
    exact plainDefaults_fragC D s (by simpa [fragCStmt, fragBStmt, fragDef] using h)
  | .funcDef name a body decos ret, h => by
    have h' : fragDef D (.funcDef name a body decos ret) = true := by simpa [fragCStmt, fragBStmt] using h
    obtain ⟨ps, rfl, _, _, _, _, _⟩ := fragDef_funcDef h'
    simp [plainDefaults, noIfExprs]
  | .assign ts e, h => by
    cases e with
    | lambda a b => simp [fragCStmt, fragBStmt, fragDef, fragBExpr] at h
    | _ => simp [plainDefaults]
  | .expr _, _ => by simp [plainDefaults]
  | .pass, _ => by simp [plainDefaults]
  | .import_ _, _ => by simp [plainDefaults]
  | .importFrom _ _, _ => by simp [plainDefaults]
  | .augAssign _ _, _ => by simp [plainDefaults]
  | .annAssign _ _ _, _ => by simp [plainDefaults]
  | .classDef _ _ _ _, _ => by simp [plainDefaults]
  | .for_ _ _ _ _, _ => by simp [plainDefaults]
  | .while_ _ _ _, _ => by simp [plainDefaults]
  | .if_ _ _ _, _ => by simp [plainDefaults]
  | .with_ _ _, _ => by simp [plainDefaults]
  | .try_ _ _ _ _, _ => by simp [plainDefaults]
  | .return_ _, _ => by simp [plainDefaults]
  | .raise_ _, _ => by simp [plainDefaults]
  | .delete _, _ => by simp [plainDefaults]
  | .global_ _, _ => by simp [plainDefaults]
  | .nonlocal_ _, _ => by simp [plainDefaults]

theorem plainB_plainH_fragC (D : Bool) (prog : List Stmt) (h : fragC D prog = true) (hpl : prog.all plainStmtB = true) :
    prog.all plainStmtH = true := by
  simp only [fragC, List.all_eq_true] at h hpl ⊢
  intro s hs
  simp [plainStmtH, hpl s hs, plainDefaults_fragC D s (h s hs)]

/-! ### the hypotheses are satisfiable by non-trivial inputs, and the conclusions are not empty there -/
section Example
def argsD (ps : List String) (defaults : List Expr) : Args := .mk (ps.map (fun p => Param.mk p.toList none)) defaults none [] [] none

/-- `import pa` ; `k = _K` ; `def f(a, b=k, c=(pa.m1, k)):` / ` t = (a, b, late)` / ` return (t, c)` ;
    `g = lambda p, q=k: (p, q, f, zz)` ; `late = _K` — then the calls `f(k)` ; `g(k)`.
    The defaults read `k` and `pa` at definition time; `late` is bound after the `def` (deferred load, resolved at the end);
    `zz` is bound nowhere: calling the lambda raises NameError on it. -/
def exProgH : List Stmt :=
  [st 1 (.import_ [⟨"pa".toList, none⟩]),
   st 2 (.assign [nm "k"] .const),
   st 3 (.funcDef "f".toList (argsD ["a", "b", "c"] [nm "k", .tuple [.attr (nm "pa") "m1".toList, nm "k"]])
      [st 4 (.assign [nm "t"] (.tuple [nm "a", nm "b", nm "late"])),
       st 5 (.return_ (some (.tuple [nm "t", nm "c"])))] [] none),
   st 6 (.assign [nm "g"] (.lambda (argsD ["p", "q"] [nm "k"]) (.tuple [nm "p", nm "q", nm "f", nm "zz"]))),
   st 7 (.assign [nm "late"] .const)]
def exCallsH : List Stmt := [st 8 (.expr (.call (nm "f") [nm "k"])), st 9 (.expr (.call (nm "g") [nm "k"]))]
example : fragH true exProgH = true ∧ exCallsH.all (fragCall true) = true := by decide
example : fragC true exProgH = false := by decide
example : Agree exBuiltins exNs (mkState exBuiltins exNs) := agree_mk _ _ (by decide) (by decide)
example : nsDotFree exBuiltins exNs = true ∧ exBuiltins.isClass = false ∧ (mkState exBuiltins exNs).funcs = [] := by decide
example : (runProgram 100 exProgH exCallsH (mkState exBuiltins exNs)).1.ne = ["zz".toList] := by decide +kernel
example : findMissing {} exBuiltins exNs (exProgH ++ exCallsH) = ["zz".toList] := by decide +kernel
example : findMissingFx allFixes {} exBuiltins exNs (exProgH ++ exCallsH) = ["zz".toList] := by decide +kernel

/-- precision: the same program with the lambda `g = lambda p, q=k: (p, q, f)`: the run completes and nothing is reported;
    with an additional, never called, `h = lambda: zz` the run completes and `zz` — a read of the body of a closure,
    unbound when the run ends — is reported -/
def exProgH2 : List Stmt :=
  exProgH.take 3 ++ [st 6 (.assign [nm "g"] (.lambda (argsD ["p", "q"] [nm "k"]) (.tuple [nm "p", nm "q", nm "f"]))),
    st 7 (.assign [nm "late"] .const)]
def exProgH3 : List Stmt := exProgH2 ++ [st 10 (.assign [nm "h"] (.lambda (argsD [] []) (nm "zz")))]
example : fragH true exProgH3 = true ∧ exProgH3.all plainStmtH = true ∧ exCallsH.all plainCall = true ∧
    regDisjoint {} exBuiltins exNs = true := by decide
example : isOk (runProgram 100 exProgH2 exCallsH (mkState exBuiltins exNs)).2 = true := by decide +kernel
example : findMissing {} exBuiltins exNs (exProgH2 ++ exCallsH) = [] := by decide +kernel
example : isOk (runProgram 100 exProgH3 exCallsH (mkState exBuiltins exNs)).2 = true := by decide +kernel
example : findMissing {} exBuiltins exNs (exProgH3 ++ exCallsH) = ["zz".toList] := by decide +kernel
example : fragC true exProgC = true ∧ fragH true exProgC = true := by decide
end Example

/-! ### witnesses: the scoping facts of default values and lambda parameters, on both models -/
section WitnessH
/-- `def f(x, y=x):` / ` pass`  — and the same after `x = _K` -/
def wDefParam : List Stmt := [st 1 (.funcDef "f".toList (argsD ["x", "y"] [nm "x"]) [st 2 .pass] [] none)]
def wDefParam2 : List Stmt := st 0 (.assign [nm "x"] .const) :: wDefParam

/-- **witness_default_not_param.**  A default value does not see the function's own parameters: executing
    `def f(x, y=x): pass` raises NameError on the GLOBAL `x` (both models; the analysis of the unchanged tree and with all
    repairs reports `x`), unless a global `x` exists, in which case the run completes and nothing is reported. -/
theorem witness_default_not_param :
    fragH false wDefParam = true ∧
    (runProgram 100 wDefParam [] (mkState exBuiltins exNs)).1.ne = ["x".toList] ∧
    raisesName (runProgram 100 wDefParam [] (mkState exBuiltins exNs)).2 "x".toList = true ∧
    findMissing {} exBuiltins exNs wDefParam = ["x".toList] ∧
    findMissingFx allFixes {} exBuiltins exNs wDefParam = ["x".toList] ∧
    fragH false wDefParam2 = true ∧
    isOk (runProgram 100 wDefParam2 [] (mkState exBuiltins exNs)).2 = true ∧
    findMissing {} exBuiltins exNs wDefParam2 = [] := by decide +kernel

/-- `def f(b=late):` / ` return b` ; `late = _K` — then `f()`;  `def f():` / ` return late` ; `late = _K` — then `f()` -/
def wOnce : List Stmt :=
  [st 1 (.funcDef "f".toList (argsD ["b"] [nm "late"]) [st 2 (.return_ (some (nm "b")))] [] none),
   st 3 (.assign [nm "late"] .const)]
def wOnceBody : List Stmt :=
  [st 1 (.funcDef "f".toList (argsD [] []) [st 2 (.return_ (some (nm "late")))] [] none),
   st 3 (.assign [nm "late"] .const)]
def wOnceCalls : List Stmt := [st 4 (.expr (.call (nm "f") []))]

/-- **witness_default_evaluated_at_def.**  A default value is evaluated once, when the `def` statement is executed: a
    binding of the name made LATER at module level does not rescue it (`def f(b=late): return b` ; `late = _K` raises
    NameError on `late` at the `def`, and `late` is reported — the default is an immediately checked load, not a deferred
    one), whereas the same name read in the BODY is looked up when the function runs (`def f(): return late` ;
    `late = _K` ; `f()` completes, nothing is reported). -/
theorem witness_default_evaluated_at_def :
    fragH false wOnce = true ∧ wOnceCalls.all (fragCall false) = true ∧
    (runProgram 100 wOnce wOnceCalls (mkState exBuiltins exNs)).1.ne = ["late".toList] ∧
    raisesName (runProgram 100 wOnce wOnceCalls (mkState exBuiltins exNs)).2 "late".toList = true ∧
    (runProgram 100 wOnce wOnceCalls (mkState exBuiltins exNs)).1.funcs.length = 0 ∧
    findMissing {} exBuiltins exNs (wOnce ++ wOnceCalls) = ["late".toList] ∧
    findMissingFx allFixes {} exBuiltins exNs (wOnce ++ wOnceCalls) = ["late".toList] ∧
    fragH false wOnceBody = true ∧
    isOk (runProgram 100 wOnceBody wOnceCalls (mkState exBuiltins exNs)).2 = true ∧
    findMissing {} exBuiltins exNs (wOnceBody ++ wOnceCalls) = [] := by decide +kernel

/-- `f = lambda p: (p, q)` — then `f(_K)`;  `f = lambda p: p` ; `p`;  `g = lambda p, q=p: q` -/
def wLamDefault : List Stmt := [st 1 (.assign [nm "g"] (.lambda (argsD ["p", "q"] [nm "p"]) (nm "q")))]

/-- **witness_lambda_param_local_H.**  The programs of `witness_lambda_param_local` are in fragment H (so the behaviour
    checked there by `decide` is an instance of `C05_sound_fragH`): the parameter of a lambda is local to it; and, as for
    `def`, a default value of a lambda does not see the lambda's parameters (`g = lambda p, q=p: q` raises NameError on
    the global `p` when the lambda expression is evaluated; `p` is reported). -/
theorem witness_lambda_param_local_H :
    fragH false wLam = true ∧ wLamCalls.all (fragCall false) = true ∧ fragH false wLam2 = true ∧
    (runProgram 100 wLam wLamCalls (mkState exBuiltins exNs)).1.ne = ["q".toList] ∧
    findMissing {} exBuiltins exNs (wLam ++ wLamCalls) = ["q".toList] ∧
    (runProgram 100 wLam2 [] (mkState exBuiltins exNs)).1.ne = ["p".toList] ∧
    findMissing {} exBuiltins exNs wLam2 = ["p".toList] ∧
    fragH false wLamDefault = true ∧
    (runProgram 100 wLamDefault [] (mkState exBuiltins exNs)).1.ne = ["p".toList] ∧
    findMissing {} exBuiltins exNs wLamDefault = ["p".toList] ∧
    findMissingFx allFixes {} exBuiltins exNs wLamDefault = ["p".toList] := by decide +kernel

/-- **witness_lambda_late_binding_H.**  `f = lambda: late` ; `late = _K` — then `f()` is a program of fragment H on which
    the run completes and nothing is reported (the deferred load of the lambda body is resolved at the end of the
    module); the program `(lambda: late)()` ; `late = _K` of `witness_lambda_body_deferred`, which calls the lambda BEFORE
    the end of the module, is outside fragment H. -/
theorem witness_lambda_late_binding_H :
    fragH false wLam3 = true ∧ wLam3Calls.all (fragCall false) = true ∧ wLam3.all plainStmtH = true ∧
    isOk (runProgram 100 wLam3 wLam3Calls (mkState exBuiltins exNs)).2 = true ∧
    findMissing {} exBuiltins exNs (wLam3 ++ wLam3Calls) = [] ∧
    fragH false wLam4 = false := by decide +kernel
end WitnessH

end Pfb.C05
