/-
  Pfb.C05.LemmasD — fragment C, reference-semantics side: executing `def`, calling the closures it creates, and the
  lock step with the analysis (`Pfb.C05.LemmasC`).
-/
import Pfb.C05.LemmasC
namespace Pfb.C05
open Pfb Pfb.PyCore

/-! ### executing `def name(params): body` at module level -/

theorem annotExprs_simple : ∀ (ps : List Param), ps.all simpleParam = true → annotExprs ps = []
  | [], _ => rfl
  | .mk x none :: r, h => by
    simp only [List.all_cons, Bool.and_eq_true] at h
    simp only [annotExprs]; exact annotExprs_simple r h.2
  | .mk x (some _) :: r, h => by simp [simpleParam] at h

/-- the closure created by `def f(p1, …, pk): body` of fragment C -/
def defClosure (ps : List Param) (body : List Stmt) : Closure :=
  { params := paramNames ps, ndefaults := 0, defaults := [], vararg := none, kwonly := [], kwarg := none,
    locals := Args.names (.mk ps [] none [] [] none) ++ boundStmts body, body := .stmts body, env := [] }

theorem execDef (f : Nat) (s : XState) (name : Str) (ps : List Param) (body : List Stmt) (hps : ps.all simpleParam = true) :
    (execStmt f {} (.funcDef name (.mk ps [] none [] [] none) body [] none) s).1.ne = s.ne ∧
    ∀ fl, (execStmt f {} (.funcDef name (.mk ps [] none [] [] none) body [] none) s).2 = .ok fl → fl = Flow.normal ∧
      (execStmt f {} (.funcDef name (.mk ps [] none [] [] none) body [] none) s).1 =
        { s with funcs := s.funcs ++ [defClosure ps body], globals := assocSet name (.func s.funcs.length) s.globals,
                 origins := assocDel name s.origins } := by
  have hann := annotExprs_simple ps hps
  match f with
  | 0 => simp [execStmt, X.throw]
  | 1 => simp [execStmt, evalExprs, X.bind_def, X.throw]
  | 2 => simp [execStmt, evalExprs, mkClosure, X.bind_def, X.throw, X.pure_def]
  | f + 3 =>
    simp [execStmt, evalExprs, mkClosure, evalOptExprs, applyDecos, X.bind_def, X.pure_def, addFunc, bindName, X.modify,
      hann, annotExprs, zipOpt, defClosure]

theorem mem_locals (ps : List Param) (body : List Stmt) (x : Str) :
    x ∈ (defClosure ps body).locals ↔ x ∈ paramNames ps ++ boundStmts body := by
  simp [defClosure, Args.names, paramNames]

/-! ### running a function body -/

/-- the parts of the state that function calls of fragment C leave alone -/
structure SameGlob (s s' : XState) : Prop where
  globals : s'.globals = s.globals
  builtins : s'.builtins = s.builtins
  funcs : s'.funcs = s.funcs
  origins : s'.origins = s.origins

theorem SameGlob.refl (s : XState) : SameGlob s s := ⟨rfl, rfl, rfl, rfl⟩

theorem SameGlob.trans {a b c : XState} (h1 : SameGlob a b) (h2 : SameGlob b c) : SameGlob a c :=
  ⟨h2.globals.trans h1.globals, h2.builtins.trans h1.builtins, h2.funcs.trans h1.funcs, h2.origins.trans h1.origins⟩

theorem SameUpToLog.glob {a b : XState} (h : SameUpToLog a b) : SameGlob a b :=
  ⟨h.globals, h.builtins, h.funcs, h.origins⟩

theorem SameGlob.unbound {a b : XState} (h : SameGlob a b) (n : Str) : unboundX b n ↔ unboundX a n := by
  unfold unboundX; rw [h.globals, h.builtins]

/-- what running (part of) a function body does: `L` = the dotted names it may read -/
structure BodyR {α} (ctx : Ctx) (s : XState) (L : List Str) (res : XState × Except Exc α) : Prop where
  same : SameGlob s res.1
  ok : ∀ v, res.2 = .ok v → res.1.ne = s.ne
  ne : ∀ n ∈ res.1.ne, n ∈ s.ne ∨ (n ∈ L.map headOf ∧ isGlobalIn ctx n ∧ unboundX s n)
  uses : ∀ o ∈ res.1.usedImps, o ∈ s.usedImps ∨ ∃ n, (n ∈ L.map headOf ∧ isGlobalIn ctx n) ∧ assocGet n s.origins = some o

theorem BodyR.ofEvalB {α} {ctx : Ctx} {s : XState} {L : List Str} {b : Bool} {res : XState × Except Exc α}
    (h : EvalB ctx s (L.map headOf) b res) : BodyR ctx s L res := by
  refine ⟨h.same.glob, fun v hv => (h.ok v hv).1, fun n hn => ?_, fun o ho => ?_⟩
  · cases hr : res.2 with
    | ok v => rw [(h.ok v hr).1] at hn; exact .inl hn
    | error x =>
      rcases h.err x hr with ⟨n', _, hne, hmem, hu⟩ | ⟨_, hne⟩
      · rw [hne] at hn
        rcases mem_addOnce hn with hn | rfl
        · exact .inl hn
        · exact .inr ⟨hmem, hu.1, hu.2⟩
      · rw [hne] at hn; exact .inl hn
  · rcases h.uses o ho with h1 | ⟨n, h1, h2, h3⟩
    · exact .inl h1
    · exact .inr ⟨n, ⟨h1, h2⟩, h3⟩

theorem BodyR.pure {α} (ctx : Ctx) (s : XState) (a : α) : BodyR ctx s [] ((Pure.pure a : X α) s) :=
  ⟨SameGlob.refl s, fun _ _ => rfl, fun _ h => .inl h, fun _ h => .inl h⟩

theorem BodyR.mono {α} {ctx : Ctx} {s : XState} {L L' : List Str} {res : XState × Except Exc α}
    (h : BodyR ctx s L res) (hsub : ∀ d ∈ L, d ∈ L') : BodyR ctx s L' res := by
  have hsub' : ∀ n, n ∈ L.map headOf → n ∈ L'.map headOf := by
    intro n h1
    simp only [List.mem_map] at h1 ⊢
    obtain ⟨d, hd, rfl⟩ := h1
    exact ⟨d, hsub d hd, rfl⟩
  refine ⟨h.same, h.ok, fun n hn => ?_, fun o ho => ?_⟩
  · rcases h.ne n hn with h1 | ⟨h1, h2⟩
    · exact .inl h1
    · exact .inr ⟨hsub' n h1, h2⟩
  · rcases h.uses o ho with h1 | ⟨n, ⟨h1, h2⟩, h3⟩
    · exact .inl h1
    · exact .inr ⟨n, ⟨hsub' n h1, h2⟩, h3⟩

theorem BodyR.bind {α β} {ctx : Ctx} {s : XState} {L1 L2 : List Str} {m : X α} {f : α → X β}
    (h1 : BodyR ctx s L1 (m s)) (h2 : ∀ a s', SameGlob s s' → s'.ne = s.ne → BodyR ctx s' L2 (f a s')) :
    BodyR ctx s (L1 ++ L2) ((m >>= f) s) := by
  rw [X.bind_def]
  cases hm : m s with
  | mk s' r =>
    rw [hm] at h1
    cases r with
    | ok a =>
      have hs := h1.same
      have hne1 := h1.ok a rfl
      simp only at hs hne1
      have h3 := h2 a s' hs hne1
      simp only
      refine ⟨hs.trans h3.same, fun v hv => (h3.ok v hv).trans hne1, fun n hn => ?_, fun o ho => ?_⟩
      · rcases h3.ne n hn with h | ⟨h, hg, hu⟩
        · exact .inl (by rw [← hne1]; exact h)
        · exact .inr ⟨by rw [List.map_append]; exact List.mem_append_right _ h, hg, (hs.unbound n).mp hu⟩
      · rcases h3.uses o ho with h | ⟨n, ⟨h, hg⟩, hor⟩
        · rcases h1.uses o h with h' | ⟨n, ⟨h', hg⟩, hor⟩
          · exact .inl h'
          · exact .inr ⟨n, ⟨by rw [List.map_append]; exact List.mem_append_left _ h', hg⟩, hor⟩
        · exact .inr ⟨n, ⟨by rw [List.map_append]; exact List.mem_append_right _ h, hg⟩, by rw [← hs.origins]; exact hor⟩
    | error e =>
      simp only
      refine ⟨h1.same, (fun v hv => nomatch hv), fun n hn => ?_, fun o ho => ?_⟩
      · rcases h1.ne n hn with h | ⟨h, hg⟩
        · exact .inl h
        · exact .inr ⟨by rw [List.map_append]; exact List.mem_append_left _ h, hg⟩
      · rcases h1.uses o ho with h | ⟨n, ⟨h, hg⟩, hor⟩
        · exact .inl h
        · exact .inr ⟨n, ⟨by rw [List.map_append]; exact List.mem_append_left _ h, hg⟩, hor⟩

/-- a step that changes nothing the analysis knows about -/
theorem BodyR.silent {α} (ctx : Ctx) (s : XState) (res : XState × Except Exc α) (h : SameGlob s res.1) (hne : res.1.ne = s.ne)
    (hu : res.1.usedImps = s.usedImps) : BodyR ctx s [] res :=
  ⟨h, fun _ _ => hne, fun n hn => .inl (by rw [← hne]; exact hn), fun o ho => .inl (by rw [← hu]; exact ho)⟩

/-- the scope in which the body of a module-level function runs: its own frame only -/
def fctx (fr : Frame) : Ctx := { kind := .func, frames := [fr] }

theorem fctx_ok (fr : Frame) : CtxOK (fctx fr) := by simp [CtxOK, fctx]

theorem assignAll_func (fr : Frame) (f : Nat) (x : Str) (v : RVal) (s : XState) (hx : assocGet x fr ≠ none) :
    SameGlob s (assignAll f (fctx fr) [.name x] v s).1 ∧ (assignAll f (fctx fr) [.name x] v s).1.ne = s.ne ∧
      (assignAll f (fctx fr) [.name x] v s).1.usedImps = s.usedImps := by
  match f with
  | 0 => simp [assignAll, X.throw, SameGlob.refl]
  | 1 => simp [assignAll, bindTarget, X.bind_def, X.throw, SameGlob.refl]
  | f + 2 =>
    cases hg : assocGet x fr with
    | none => exact absurd hg hx
    | some i =>
      simp only [assignAll, bindTarget, bindName, fctx, X.bind_def, List.headD, hg, setCell, X.modify, X.pure_def]
      exact ⟨⟨rfl, rfl, rfl, rfl⟩, trivial, trivial⟩

theorem BodyR.fuel {α} (ctx : Ctx) (s : XState) : BodyR ctx s [] ((X.throw .fuel : X α) s) :=
  BodyR.silent ctx s _ (SameGlob.refl s) rfl rfl

/-- one statement of a function body -/
theorem stmtX (D : Bool) (fr : Frame) : ∀ (stmt : Stmt) (f : Nat) (s : XState), fbodyStmt D stmt = true →
    (∀ x ∈ boundStmt stmt, assocGet x fr ≠ none) →
    BodyR (fctx fr) s (stmtLoads stmt) (execStmt f (fctx fr) stmt s)
  | stmt, 0, s, _, _ => by
    rw [execStmt]
    exact (BodyR.fuel (fctx fr) s).mono (fun d hd => by simp at hd)
  | .expr e, f + 1, s, hfr, _ => by
    have he := (evalB (fctx fr) (fctx_ok fr) D f).1 e s (by simpa [fbodyStmt] using hfr)
    have := BodyR.bind (BodyR.ofEvalB (L := loadsOf e) he) (fun _ s' _ _ => BodyR.pure (fctx fr) s' Flow.normal)
    simpa [execStmt, stmtLoads] using this
  | .assign ts e, f + 1, s, hfr, hfrm => by
    simp only [fbodyStmt, Bool.and_eq_true] at hfr
    cases hsn : singleName ts with
    | none => rw [hsn] at hfr; simp at hfr
    | some x =>
      have hts := singleName_eq hsn; subst hts
      have hx : assocGet x fr ≠ none := hfrm x (by simp [boundStmt, targetsNames, targetNames])
      have he := (evalB (fctx fr) (fctx_ok fr) D f).1 e s hfr.2
      have := BodyR.bind (BodyR.ofEvalB (L := loadsOf e) he) (fun v s' _ _ =>
        BodyR.bind (L1 := []) (L2 := [])
          (BodyR.silent (fctx fr) s' _ (assignAll_func fr f x v s' hx).1 (assignAll_func fr f x v s' hx).2.1
            (assignAll_func fr f x v s' hx).2.2)
          (fun _ s'' _ _ => BodyR.pure (fctx fr) s'' Flow.normal))
      simpa [execStmt, stmtLoads] using this
  | .pass, f + 1, s, _, _ => by
    simp only [execStmt, stmtLoads]; exact BodyR.pure (fctx fr) s Flow.normal
  | .return_ none, f + 1, s, _, _ => by
    simp only [execStmt, stmtLoads]; exact BodyR.pure (fctx fr) s (Flow.ret RVal.none)
  | .return_ (some e), f + 1, s, hfr, _ => by
    have he := (evalB (fctx fr) (fctx_ok fr) D f).1 e s (by simpa [fbodyStmt] using hfr)
    have := BodyR.bind (BodyR.ofEvalB (L := loadsOf e) he) (fun v s' _ _ => BodyR.pure (fctx fr) s' (Flow.ret v))
    simpa [execStmt, stmtLoads] using this
  | .located l s', f + 1, s, hfr, hfrm => by
    have h1 : BodyR (fctx fr) s [] ((X.modify (fun st => { st with line := l })) s) :=
      BodyR.silent (fctx fr) s _ ⟨rfl, rfl, rfl, rfl⟩ rfl rfl
    have := BodyR.bind h1 (fun _ s1 _ _ => stmtX D fr s' f s1 (by simpa [fbodyStmt] using hfr) (by simpa [boundStmt] using hfrm))
    simpa [execStmt, stmtLoads] using this
  | .augAssign _ _, _ + 1, _, hfr, _ => by simp [fbodyStmt] at hfr
  | .annAssign _ _ _, _ + 1, _, hfr, _ => by simp [fbodyStmt] at hfr
  | .import_ _, _ + 1, _, hfr, _ => by simp [fbodyStmt] at hfr
  | .importFrom _ _, _ + 1, _, hfr, _ => by simp [fbodyStmt] at hfr
  | .funcDef _ _ _ _ _, _ + 1, _, hfr, _ => by simp [fbodyStmt] at hfr
  | .classDef _ _ _ _, _ + 1, _, hfr, _ => by simp [fbodyStmt] at hfr
  | .for_ _ _ _ _, _ + 1, _, hfr, _ => by simp [fbodyStmt] at hfr
  | .while_ _ _ _, _ + 1, _, hfr, _ => by simp [fbodyStmt] at hfr
  | .if_ _ _ _, _ + 1, _, hfr, _ => by simp [fbodyStmt] at hfr
  | .with_ _ _, _ + 1, _, hfr, _ => by simp [fbodyStmt] at hfr
  | .try_ _ _ _ _, _ + 1, _, hfr, _ => by simp [fbodyStmt] at hfr
  | .raise_ _, _ + 1, _, hfr, _ => by simp [fbodyStmt] at hfr
  | .delete _, _ + 1, _, hfr, _ => by simp [fbodyStmt] at hfr
  | .global_ _, _ + 1, _, hfr, _ => by simp [fbodyStmt] at hfr
  | .nonlocal_ _, _ + 1, _, hfr, _ => by simp [fbodyStmt] at hfr

theorem stmtsX (D : Bool) (fr : Frame) : ∀ (body : List Stmt) (f : Nat) (s : XState), body.all (fbodyStmt D) = true →
    (∀ x ∈ boundStmts body, assocGet x fr ≠ none) →
    BodyR (fctx fr) s (bodyLoads body) (execStmts f (fctx fr) body s)
  | body, 0, s, _, _ => by
    rw [execStmts]
    exact (BodyR.fuel (fctx fr) s).mono (fun d hd => by simp at hd)
  | [], f + 1, s, _, _ => by
    simp only [execStmts, bodyLoads]; exact BodyR.pure (fctx fr) s Flow.normal
  | st :: r, f + 1, s, hfr, hfrm => by
    simp only [List.all_cons, Bool.and_eq_true] at hfr
    simp only [boundStmts, List.mem_append] at hfrm
    have h1 := stmtX D fr st f s hfr.1 (fun x hx => hfrm x (.inl hx))
    simp only [execStmts, bodyLoads]
    refine BodyR.bind h1 ?_
    intro fl s' _ _
    cases fl with
    | ret v => exact (BodyR.pure (fctx fr) s' (Flow.ret v)).mono (fun d hd => by simp at hd)
    | normal => exact stmtsX D fr r f s' hfr.2 (fun x hx => hfrm x (.inr hx))

/-! ### calling a closure of fragment C -/

/-- like `BodyR`, with an arbitrary description `P` of the names that may be looked up in the globals -/
structure RunR {α} (s : XState) (P : Str → Prop) (res : XState × Except Exc α) : Prop where
  same : SameGlob s res.1
  ok : ∀ v, res.2 = .ok v → res.1.ne = s.ne
  ne : ∀ n ∈ res.1.ne, n ∈ s.ne ∨ (P n ∧ unboundX s n)
  uses : ∀ o ∈ res.1.usedImps, o ∈ s.usedImps ∨ ∃ n, P n ∧ assocGet n s.origins = some o

theorem RunR.silent {α} (s : XState) (P : Str → Prop) (res : XState × Except Exc α) (h : SameGlob s res.1) (hne : res.1.ne = s.ne)
    (hu : res.1.usedImps = s.usedImps) : RunR s P res :=
  ⟨h, fun _ _ => hne, fun n hn => .inl (by rw [← hne]; exact hn), fun o ho => .inl (by rw [← hu]; exact ho)⟩

theorem RunR.bind {α β} {s : XState} {P : Str → Prop} {m : X α} {f : α → X β}
    (h1 : RunR s P (m s)) (h2 : ∀ a s', m s = (s', .ok a) → SameGlob s s' → s'.ne = s.ne → RunR s' P (f a s')) :
    RunR s P ((m >>= f) s) := by
  rw [X.bind_def]
  cases hm : m s with
  | mk s' r =>
    rw [hm] at h1
    cases r with
    | ok a =>
      have hs := h1.same
      have hne1 := h1.ok a rfl
      simp only at hs hne1
      have h3 := h2 a s' hm hs hne1
      simp only
      refine ⟨hs.trans h3.same, fun v hv => (h3.ok v hv).trans hne1, fun n hn => ?_, fun o ho => ?_⟩
      · rcases h3.ne n hn with h | ⟨h, hu⟩
        · exact .inl (by rw [← hne1]; exact h)
        · exact .inr ⟨h, (hs.unbound n).mp hu⟩
      · rcases h3.uses o ho with h | ⟨n, h, hor⟩
        · exact h1.uses o h
        · exact .inr ⟨n, h, by rw [← hs.origins]; exact hor⟩
    | error e =>
      simp only
      exact ⟨h1.same, (fun v hv => nomatch hv), h1.ne, h1.uses⟩

theorem BodyR.run {α} {ctx : Ctx} {s : XState} {L : List Str} {res : XState × Except Exc α} (h : BodyR ctx s L res) :
    RunR s (fun n => n ∈ L.map headOf ∧ isGlobalIn ctx n) res :=
  ⟨h.same, h.ok, fun n hn => (h.ne n hn).imp id (fun ⟨a, b, c⟩ => ⟨⟨a, b⟩, c⟩), h.uses⟩

theorem RunR.mono {α} {s : XState} {P Q : Str → Prop} {res : XState × Except Exc α} (h : RunR s P res) (hpq : ∀ n, P n → Q n) :
    RunR s Q res :=
  ⟨h.same, h.ok, fun n hn => (h.ne n hn).imp id (fun ⟨a, b⟩ => ⟨hpq n a, b⟩),
   fun o ho => (h.uses o ho).imp id (fun ⟨n, a, b⟩ => ⟨n, hpq n a, b⟩)⟩

theorem assocGet_frame (x : Str) (base : Nat) : ∀ (zs : List (Str × Nat)),
    assocGet x (zs.map (fun (n, i) => (n, base + i))) = none ↔ x ∉ zs.map Prod.fst
  | [] => by simp [assocGet]
  | (k, j) :: r => by
    have ih := assocGet_frame x base r
    simp only [List.map_cons, assocGet, List.mem_cons, not_or]
    split
    · rename_i hk; subst hk; simp
    · rename_i hk
      rw [ih]
      constructor
      · intro h; exact ⟨fun hx => hk hx.symm, h⟩
      · intro h; exact h.2

theorem allocCells_spec (names : List Str) (s : XState) : ∃ fr cells,
    allocCells names s = ({ s with cells := cells }, .ok fr) ∧ ∀ x, assocGet x fr = none ↔ x ∉ names := by
  refine ⟨_, _, rfl, fun x => ?_⟩
  rw [assocGet_frame, List.zipIdx_map_fst, List.mem_eraseDups]

theorem bindCells_spec (fr : Frame) : ∀ (l : List (Str × RVal)) (s : XState),
    ∃ cells, bindCells fr l s = ({ s with cells := cells }, .ok ())
  | [], s => ⟨s.cells, rfl⟩
  | (n, v) :: r, s => by
    cases hg : assocGet n fr with
    | none =>
      obtain ⟨c, hc⟩ := bindCells_spec fr r s
      refine ⟨c, ?_⟩
      rw [bindCells]
      simp only [hg]
      exact hc
    | some i =>
      obtain ⟨c, hc⟩ := bindCells_spec fr r { s with cells := s.cells.set i (some v) }
      refine ⟨c, ?_⟩
      rw [bindCells]
      simp only [hg, X.bind_def, setCell, X.modify]
      exact hc

theorem RunR.bindCells (fr : Frame) (l : List (Str × RVal)) (s : XState) (P : Str → Prop) : RunR s P (bindCells fr l s) := by
  obtain ⟨c, hc⟩ := bindCells_spec fr l s
  rw [hc]
  exact RunR.silent s P _ ⟨rfl, rfl, rfl, rfl⟩ rfl rfl

theorem RunR.raiseOther {α} (s : XState) (P : Str → Prop) : RunR s P ((raiseOther : X α) s) :=
  RunR.silent s P _ ⟨rfl, rfl, rfl, rfl⟩ rfl rfl

theorem RunR.pure {α} (s : XState) (P : Str → Prop) (a : α) : RunR s P ((Pure.pure a : X α) s) :=
  RunR.silent s P _ (SameGlob.refl s) rfl rfl

/-- the part of `callFunc` that runs once the closure has been found -/
def callBody (f : Nat) (c : Closure) (avs : List RVal) : X RVal := do
  noteCall
  let np := c.params.length
  let nreq := np - c.ndefaults
  if avs.length < nreq then raiseOther
  else if avs.length > np ∧ c.vararg.isNone then raiseOther
  else do
    let kws ← kwonlyValues c.kwonly
    let fr ← allocCells c.locals
    let pos := (c.params.zipIdx).map (fun (n, i) => (n, if i < avs.length then avs.getD i .none else c.defaults.getD (i - nreq) .none))
    bindCells fr pos
    bindCells fr kws
    (match c.vararg with | some v => bindCells fr [(v, .seq (avs.drop np))] | none => pure ())
    (match c.kwarg with | some v => bindCells fr [(v, .seq [])] | none => pure ())
    let ctx : Ctx := { kind := .func, frames := fr :: c.env }
    match c.body with
    | .expr e => evalExpr f ctx e
    | .stmts b => do
      let fl ← execStmts f ctx b
      match fl with
      | .ret v => pure v
      | .normal => pure .none

theorem callFunc_eq (f id : Nat) (avs : List RVal) (s : XState) :
    callFunc (f + 1) id avs s = match s.funcs[id]? with
      | none => raiseOther s
      | some c => callBody f c avs s := by
  rw [callFunc]
  simp only [X.bind_def, X.get]
  cases s.funcs[id]? with
  | none => rfl
  | some c => rfl

theorem RunR.noteCall (s : XState) (P : Str → Prop) : RunR s P (noteCall s) := by
  unfold Pfb.PyCore.noteCall X.modify
  dsimp only
  split
  · exact RunR.silent s P _ (SameGlob.refl s) rfl rfl
  · exact RunR.silent s P _ ⟨rfl, rfl, rfl, rfl⟩ rfl rfl

theorem isGlobalIn_fctx {fr : Frame} {n : Str} (h : isGlobalIn (fctx fr) n) : assocGet n fr = none := by
  simp only [isGlobalIn, fctx, frameLookup] at h
  cases hg : assocGet n fr with
  | none => rfl
  | some i => rw [hg] at h; cases h

/-- calling a closure made by a `def` of fragment C: a `NameError` can only come from a global read of the body -/
theorem callBody_run (D : Bool) (f : Nat) (ps : List Param) (body : List Stmt) (avs : List RVal) (s : XState)
    (hb : body.all (fbodyStmt D) = true) :
    RunR s (fun n => n ∈ (bodyLoads body).map headOf ∧ n ∉ paramNames ps ++ boundStmts body)
      (callBody f (defClosure ps body) avs s) := by
  unfold callBody
  refine RunR.bind (RunR.noteCall s _) (fun _ s1 _ _ _ => ?_)
  dsimp only
  split
  · exact RunR.raiseOther s1 _
  split
  · exact RunR.raiseOther s1 _
  refine RunR.bind (RunR.pure s1 _ ([] : List (Str × RVal))) (fun kws s2 _ _ _ => ?_)
  obtain ⟨fr0, cells, heq, hspec⟩ := allocCells_spec (defClosure ps body).locals s2
  refine RunR.bind (by rw [heq]; exact RunR.silent s2 _ _ ⟨rfl, rfl, rfl, rfl⟩ rfl rfl) (fun fr s3 hfr _ _ => ?_)
  have hfr0 : fr = fr0 := by
    rw [heq] at hfr
    injection hfr with _ h2
    injection h2 with h3
    exact h3.symm
  subst hfr0
  refine RunR.bind (RunR.bindCells fr _ s3 _) (fun _ s4 _ _ _ => ?_)
  refine RunR.bind (RunR.bindCells fr _ s4 _) (fun _ s5 _ _ _ => ?_)
  refine RunR.bind (RunR.pure s5 _ ()) (fun _ s6 _ _ _ => ?_)
  refine RunR.bind (RunR.pure s6 _ ()) (fun _ s7 _ _ _ => ?_)
  have hfrm : ∀ x ∈ boundStmts body, assocGet x fr ≠ none := by
    intro x hx hc
    exact (hspec x).mp hc ((mem_locals ps body x).mpr (List.mem_append_right _ hx))
  refine RunR.bind ((stmtsX D fr body f s7 hb hfrm).run.mono ?_) (fun fl s8 _ _ _ => ?_)
  · rintro n ⟨h1, h2⟩
    exact ⟨h1, fun hc => (hspec n).mp (isGlobalIn_fctx h2) ((mem_locals ps body n).mpr hc)⟩
  · cases fl with
    | ret v => exact RunR.pure s8 _ v
    | normal => exact RunR.pure s8 _ RVal.none

/-- every closure was made by a `def` of fragment C -/
def FunsShape (D : Bool) (s : XState) : Prop :=
  ∀ c ∈ s.funcs, ∃ ps body, c = defClosure ps body ∧ body.all (fbodyStmt D) = true

/-- `n` is read as a global by the body of some closure -/
def CallP (s : XState) (n : Str) : Prop :=
  ∃ ps body, defClosure ps body ∈ s.funcs ∧ n ∈ (bodyLoads body).map headOf ∧ n ∉ paramNames ps ++ boundStmts body

theorem RunR.fuel {α} (s : XState) (P : Str → Prop) : RunR s P ((X.throw .fuel : X α) s) :=
  RunR.silent s P _ (SameGlob.refl s) rfl rfl

theorem callFunc_run (D : Bool) (f id : Nat) (avs : List RVal) (s : XState) (hfs : FunsShape D s) :
    RunR s (CallP s) (callFunc f id avs s) := by
  match f with
  | 0 => rw [callFunc]; exact RunR.fuel s _
  | f + 1 =>
    rw [callFunc_eq]
    cases hc : s.funcs[id]? with
    | none => exact RunR.raiseOther s _
    | some c =>
      have hmem := List.mem_of_getElem? hc
      obtain ⟨ps, body, rfl, hb⟩ := hfs c hmem
      exact (callBody_run D f ps body avs s hb).mono (fun n hn => ⟨ps, body, hmem, hn⟩)

theorem callVal_run (D : Bool) (f : Nat) (fv : RVal) (avs : List RVal) (s : XState) (hfs : FunsShape D s) :
    RunR s (CallP s) (callVal f fv avs s) := by
  match f with
  | 0 => rw [callVal]; exact RunR.fuel s _
  | f + 1 =>
    cases fv with
    | func id => rw [callVal]; exact callFunc_run D f id avs s hfs
    | opq => rw [callVal]; exact RunR.pure s _ _
    | mod _ => rw [callVal]; exact RunR.pure s _ _
    | rigid => simp only [callVal]; exact RunR.raiseOther s _
    | none => simp only [callVal]; exact RunR.raiseOther s _
    | bool _ => simp only [callVal]; exact RunR.raiseOther s _
    | seq _ => simp only [callVal]; exact RunR.raiseOther s _
    | cls _ => simp only [callVal]; exact RunR.raiseOther s _

/-! ### analysis of fragment-C statements at module level -/

structure ModOK (st : AState) : Prop where
  inv : ModInv st
  top3 : 3 ≤ st.stack.top
  topLt : st.stack.top < st.heap.length

theorem ModOK.step {st st' : AState} (h : ModOK st) (hs : ModStep st st') : ModOK st' := by
  have hok := h.inv.ok
  refine ⟨⟨hs.inFunc.trans h.inv.inFunc, hs.inClass.trans h.inv.inClass, ?_⟩, by rw [hs.stack]; exact h.top3,
    by rw [hs.stack]; exact Nat.lt_of_lt_of_le h.topLt hs.len⟩
  refine ⟨by rw [hs.stack]; exact hok.wf, fun i hi => ?_, fun i hi => ?_, ?_, Nat.le_trans hok.len3 hs.len⟩
  · rw [hs.stack] at hi; exact Nat.lt_of_lt_of_le (hok.idsLt i hi) hs.len
  · rw [hs.stack] at hi
    by_cases hit : i = st.stack.top
    · subst hit; rw [hs.cls]; exact hok.noClass _ hi
    · rw [hs.old i (hok.idsLt i hi) hit]; exact hok.noClass i hi
  · have h3 := h.top3
    have hl := hok.len3
    rw [hs.old delayedId (by unfold delayedId; omega) (by unfold delayedId; omega)]
    exact hok.delayedEmpty

theorem fragDef_funcDef {D : Bool} {name : Str} {a : Args} {body : List Stmt} {decos : List Expr} {ret : Option Expr}
    (h : fragDef D (.funcDef name a body decos ret) = true) :
    ∃ ps, a = .mk ps [] none [] [] none ∧ decos = [] ∧ ret = none ∧ simpleName name = true ∧
      ps.all simpleParam = true ∧ body.all (fbodyStmt D) = true := by
  unfold fragDef at h
  split at h
  · rename_i heq; cases heq
  · rename_i heq
    cases heq
    simp only [Bool.and_eq_true] at h
    exact ⟨_, rfl, rfl, rfl, h.1.1, h.1.2, h.2⟩
  · cases h

/-- the analysis of a `def` of fragment C is a module-level step -/
theorem modStep_def (fx : Fixes) (reg : Registry) (D : Bool) {st : AState} (h : ModOK st) (ln : Nat) (name : Str)
    (ps : List Param) (body : List Stmt)
    (hn : simpleName name = true) (hps : ps.all simpleParam = true) (hb : body.all (fbodyStmt D) = true) :
    ModStep st (runOps reg st (cStmt fx ln (.funcDef name (.mk ps [] none [] [] none) body [] none))) := by
  obtain ⟨a1, a2, a3, a4, a5, a6, a7, a8, a9, _⟩ := defA fx reg D h.inv h.topLt ln name ps body hn hps hb
  refine ⟨a1, a2.trans h.inv.inFunc.symm, a3, a5, a6, ?_, a8, (by obtain ⟨E, hE, _⟩ := a9; exact ⟨E, hE⟩), fun m hm => by rw [a4]; exact hm⟩
  intro k v hv
  rw [a7]
  by_cases hk : k = name
  · exact ⟨Val.none, by simp [hk]⟩
  · exact ⟨v, by simp [hk, hv]⟩

theorem modStep_defL (fx : Fixes) (reg : Registry) (D : Bool) : ∀ (stmt : Stmt) (ln : Nat) (st : AState),
    fragDef D stmt = true → ModOK st → ModStep st (runOps reg st (cStmt fx ln stmt))
  | .located l s, ln, st, hfr, h => by
    simp only [cStmt, runOps_setLine]
    have h0 : ModStep st { st with line := l } := ModStep.of_heap rfl rfl rfl rfl ⟨[], by simp⟩ (fun _ h => h)
    exact h0.trans (modStep_defL fx reg D s l { st with line := l } (by simpa [fragDef] using hfr) (h.step h0))
  | .funcDef name a body decos ret, ln, st, hfr, h => by
    obtain ⟨ps, rfl, rfl, rfl, hn, hps, hb⟩ := fragDef_funcDef hfr
    exact modStep_def fx reg D h ln name ps body hn hps hb
  | .expr _, _, _, hfr, _ => by simp [fragDef] at hfr
  | .assign _ _, _, _, hfr, _ => by simp [fragDef] at hfr
  | .pass, _, _, hfr, _ => by simp [fragDef] at hfr
  | .import_ _, _, _, hfr, _ => by simp [fragDef] at hfr
  | .importFrom _ _, _, _, hfr, _ => by simp [fragDef] at hfr
  | .augAssign _ _, _, _, hfr, _ => by simp [fragDef] at hfr
  | .annAssign _ _ _, _, _, hfr, _ => by simp [fragDef] at hfr
  | .classDef _ _ _ _, _, _, hfr, _ => by simp [fragDef] at hfr
  | .for_ _ _ _ _, _, _, hfr, _ => by simp [fragDef] at hfr
  | .while_ _ _ _, _, _, hfr, _ => by simp [fragDef] at hfr
  | .if_ _ _ _, _, _, hfr, _ => by simp [fragDef] at hfr
  | .with_ _ _, _, _, hfr, _ => by simp [fragDef] at hfr
  | .try_ _ _ _ _, _, _, hfr, _ => by simp [fragDef] at hfr
  | .return_ _, _, _, hfr, _ => by simp [fragDef] at hfr
  | .raise_ _, _, _, hfr, _ => by simp [fragDef] at hfr
  | .delete _, _, _, hfr, _ => by simp [fragDef] at hfr
  | .global_ _, _, _, hfr, _ => by simp [fragDef] at hfr
  | .nonlocal_ _, _, _, hfr, _ => by simp [fragDef] at hfr

theorem modStep_stmtC (fx : Fixes) (reg : Registry) (D : Bool) (stmt : Stmt) (ln : Nat) (st : AState)
    (hfr : fragCStmt D stmt = true) (h : ModOK st) : ModStep st (runOps reg st (cStmt fx ln stmt)) := by
  simp only [fragCStmt, Bool.or_eq_true] at hfr
  rcases hfr with hfr | hfr
  · exact modStep_stmtB fx reg D stmt ln st hfr h.inv.inFunc h.topLt
  · exact modStep_defL fx reg D stmt ln st hfr h

theorem modStep_stmtsC (fx : Fixes) (reg : Registry) (D : Bool) : ∀ (ss : List Stmt) (ln : Nat) (st : AState),
    fragC D ss = true → ModOK st → ModStep st (runOps reg st (cStmts fx ln ss))
  | [], _, st, _, _ => by simp only [cStmts]; exact ModStep.refl st
  | s :: ss, ln, st, hfr, h => by
    simp only [fragC, List.all_cons, Bool.and_eq_true] at hfr
    simp only [cStmts, runOps_append]
    have h1 := modStep_stmtC fx reg D s ln st hfr.1 h
    exact h1.trans (modStep_stmtsC fx reg D ss ln _ (by simpa [fragC] using hfr.2) (h.step h1))

/-! ### coverage of a function body by the analysis, and its stability -/

theorem stmtLoads_good (D : Bool) : ∀ (stmt : Stmt), fbodyStmt D stmt = true →
    ∀ d ∈ stmtLoads stmt, goodDotted d = true ∧ (D = false → dotFree d = true)
  | .expr e, h, d, hd => loads_good D e (by simpa [fbodyStmt] using h) d (by simpa [stmtLoads] using hd)
  | .assign ts e, h, d, hd => by
    simp only [fbodyStmt, Bool.and_eq_true] at h
    exact loads_good D e h.2 d (by simpa [stmtLoads] using hd)
  | .return_ (some e), h, d, hd => loads_good D e (by simpa [fbodyStmt] using h) d (by simpa [stmtLoads] using hd)
  | .return_ none, _, d, hd => by simp [stmtLoads] at hd
  | .pass, _, d, hd => by simp [stmtLoads] at hd
  | .located _ s, h, d, hd => stmtLoads_good D s (by simpa [fbodyStmt] using h) d (by simpa [stmtLoads] using hd)
  | .augAssign _ _, h, _, _ => by simp [fbodyStmt] at h
  | .annAssign _ _ _, h, _, _ => by simp [fbodyStmt] at h
  | .import_ _, h, _, _ => by simp [fbodyStmt] at h
  | .importFrom _ _, h, _, _ => by simp [fbodyStmt] at h
  | .funcDef _ _ _ _ _, h, _, _ => by simp [fbodyStmt] at h
  | .classDef _ _ _ _, h, _, _ => by simp [fbodyStmt] at h
  | .for_ _ _ _ _, h, _, _ => by simp [fbodyStmt] at h
  | .while_ _ _ _, h, _, _ => by simp [fbodyStmt] at h
  | .if_ _ _ _, h, _, _ => by simp [fbodyStmt] at h
  | .with_ _ _, h, _, _ => by simp [fbodyStmt] at h
  | .try_ _ _ _ _, h, _, _ => by simp [fbodyStmt] at h
  | .raise_ _, h, _, _ => by simp [fbodyStmt] at h
  | .delete _, h, _, _ => by simp [fbodyStmt] at h
  | .global_ _, h, _, _ => by simp [fbodyStmt] at h
  | .nonlocal_ _, h, _, _ => by simp [fbodyStmt] at h

theorem bodyLoads_good (D : Bool) : ∀ (body : List Stmt), body.all (fbodyStmt D) = true →
    ∀ d ∈ bodyLoads body, goodDotted d = true ∧ (D = false → dotFree d = true)
  | [], _, d, hd => by simp [bodyLoads] at hd
  | s :: r, h, d, hd => by
    simp only [List.all_cons, Bool.and_eq_true] at h
    simp only [bodyLoads, List.mem_append] at hd
    rcases hd with hd | hd
    · exact stmtLoads_good D s h.1 d hd
    · exact bodyLoads_good D r h.2 d hd

/-- every global read of the body is bound at module level, or waits in the deferred list with frozen scopes -/
def FunCov (st : AState) (pn : List Str) (body : List Stmt) : Prop :=
  ∃ fname, BoundA st fname ∧ ∀ d ∈ bodyLoads body, headOf d ∉ pn ++ boundStmts body →
    BoundA st (headOf d) ∨
      ∃ e ∈ st.deferred, e.name = d ∧ Frozen st (pn ++ boundStmts body ++ [fname]) e

theorem BoundA.mono {st st' : AState} {h : Str} (hb : BoundA st h) (hok : StackOK st) (hs : ModStep st st') : BoundA st' h := by
  obtain ⟨i, hi, w, hw⟩ := hb
  have hilt : i < st.heap.length := hok.idsLt i (by rw [← hok.wf]; exact hi)
  by_cases hit : i = st.stack.top
  · subst hit
    obtain ⟨w', hw'⟩ := hs.grow h w hw
    exact ⟨_, by rw [hs.stack]; exact hi, w', hw'⟩
  · exact ⟨i, by rw [hs.stack]; exact hi, w, by rw [hs.old i hilt hit]; exact hw⟩

theorem Frozen.mono {st st' : AState} {A : List Str} {e : Deferred} (hf : Frozen st A e) (hs : ModStep st st') : Frozen st' A e := by
  obtain ⟨a, c, h1, h2, h3, h4, h5, h6, h7⟩ := hf
  refine ⟨a, c, by rw [hs.stack]; exact h1, Nat.lt_of_lt_of_le h2 hs.len, Nat.lt_of_lt_of_le h3 hs.len,
    by rw [hs.stack]; exact h4, by rw [hs.stack]; exact h5, ?_, ?_⟩
  · intro k v hv; rw [hs.old a h2 h4] at hv; exact h6 k v hv
  · intro k v hv; rw [hs.old c h3 h5] at hv; exact h7 k v hv

theorem FunCov.mono {st st' : AState} {pn : List Str} {body : List Stmt} (h : FunCov st pn body) (hok : StackOK st)
    (hs : ModStep st st') : FunCov st' pn body := by
  obtain ⟨fname, hb, hc⟩ := h
  refine ⟨fname, hb.mono hok hs, fun d hd hnl => ?_⟩
  rcases hc d hd hnl with h1 | ⟨e, he, hen, hfz⟩
  · exact .inl (h1.mono hok hs)
  · obtain ⟨E, hE⟩ := hs.deferred
    exact .inr ⟨e, by rw [hE]; exact List.mem_append_left _ he, hen, hfz.mono hs⟩

/-- a frozen entry whose head is bound nowhere will be reported when the deferred checks run -/
theorem frozen_pend (reg : Registry) {st : AState} {L : List Str} {fname d : Str} {e : Deferred}
    (hok : StackOK st) (hns : noStarA st) (hdk : dotFree d = false → DK st) (hg : goodDotted d = true)
    (hfz : Frozen st (L ++ [fname]) e) (hen : e.name = d) (hnl : headOf d ∉ L) (hfn : BoundA st fname)
    (hu : unboundA st (headOf d)) :
    (symbolNeedsImport reg st.heap e.ids e.name).1 = true ∧ hasStar st.heap e.ids = false := by
  obtain ⟨a, c, h1, h2, h3, h4, h5, h6, h7⟩ := hfz
  have hnf : headOf d ≠ fname := by
    intro hc
    rw [hc] at hu
    exact (not_unboundA.mpr hfn) hu
  have hkeys : ∀ i, i = a ∨ i = c → ∀ k v, (st.heap.get i).get k = some v → k ∈ L ++ [fname] ∧ simpleName k = true := by
    intro i hi k v hv
    rcases hi with rfl | rfl
    · exact ⟨(h6 k v hv).1, (h6 k v hv).2.1⟩
    · exact ⟨(h7 k v hv).1, (h7 k v hv).2.1⟩
  have hmem : ∀ i, i ∈ normIds e.ids ↔ (i ∈ normIds st.stack.ids ∨ i = a ∨ i = c) := by
    intro i
    rw [h1, normIds_idem]
    simp only [mem_normIds_iff, List.mem_append, List.mem_singleton]
    grind
  let st2 : AState := { st with stack := { ids := e.ids } }
  have hu2 : unboundA st2 (headOf d) := by
    intro i hi
    rcases (hmem i).mp hi with h0 | h0
    · exact hu i h0
    · cases hgk : (st.heap.get i).get (headOf d) with
      | none => rfl
      | some v =>
        exfalso
        have := (hkeys i h0 _ v hgk).1
        simp only [List.mem_append, List.mem_singleton] at this
        rcases this with h | h
        · exact hnl h
        · exact hnf h
  have hdk2 : dotFree d = false → DK st2 := by
    intro hdf i hi k v hv
    rcases (hmem i).mp hi with h0 | h0
    · obtain ⟨j, hj, w, hw⟩ := hdk hdf i h0 k v hv
      exact ⟨j, (hmem j).mpr (.inl hj), w, hw⟩
    · have hk := (hkeys i h0 k v hv).2
      exact ⟨i, hi, v, by rw [headOf_simple hk]; exact hv⟩
  refine ⟨by rw [hen]; exact sni_unbound reg st2 hg hu2 hdk2, ?_⟩
  unfold noStarA hasStar at hns
  unfold hasStar
  rw [List.any_eq_false] at hns ⊢
  intro i hi
  have hi' : i ∈ normIds e.ids := mem_normIds_iff.mpr (.inr (.inr hi))
  rcases (hmem i).mp hi' with h0 | h0
  · rw [hok.wf] at h0; exact hns i h0
  · cases hgk : (st.heap.get i).get ['*'] with
    | none => simp
    | some v =>
      exfalso
      have := (hkeys i h0 _ v hgk).2
      exact simpleName_ne_star this rfl

/-- `_finish_deferred_load_checks` reports every entry that still needs import -/
theorem finish_pend (reg : Registry) (st : AState) (e : Deferred) (he : e ∈ st.deferred)
    (h1 : (symbolNeedsImport reg st.heap e.ids e.name).1 = true) (h2 : hasStar st.heap e.ids = false) :
    ∃ m ∈ (finishDeferred reg st).missing, m.name = e.name := by
  unfold finishDeferred
  have hheap : ∀ (st0 : AState) (d : Deferred), (checkLoad reg st0 d.name d.ids d.line).heap = st0.heap := by
    intro st0 d
    unfold checkLoad
    dsimp only
    split
    · split <;> rfl
    · rfl
  have hmono : ∀ (ds : List Deferred) (st0 : AState), ∀ m ∈ st0.missing,
      m ∈ (ds.foldl (fun st d => checkLoad reg st d.name d.ids d.line) st0).missing := by
    intro ds
    induction ds with
    | nil => intro st0 m hm; exact hm
    | cons d r ih =>
      intro st0 m hm
      apply ih
      exact (checkLoad_step reg st0 d.name d.ids d.line).mono m hm
  have : ∀ (ds : List Deferred) (st0 : AState), st0.heap = st.heap → e ∈ ds →
      ∃ m ∈ (ds.foldl (fun st d => checkLoad reg st d.name d.ids d.line) st0).missing, m.name = e.name := by
    intro ds
    induction ds with
    | nil => intro st0 _ hm; simp at hm
    | cons d r ih =>
      intro st0 hh hm
      simp only [List.foldl_cons]
      rcases List.mem_cons.mp hm with rfl | hm
      · have hfound : ∃ m ∈ (checkLoad reg st0 e.name e.ids e.line).missing, m.name = e.name := by
          unfold checkLoad
          dsimp only
          have hcond : ((symbolNeedsImport reg st0.heap e.ids e.name).1 &&
              !hasStar (st0.emit (symbolNeedsImport reg st0.heap e.ids e.name).2).heap e.ids) = true := by
            show ((symbolNeedsImport reg st0.heap e.ids e.name).1 && !hasStar st0.heap e.ids) = true
            rw [hh, h1, h2]; rfl
          rw [if_pos hcond]
          split
          · rename_i hany
            simp only [AState.emit, List.any_eq_true, decide_eq_true_eq] at hany
            obtain ⟨x, hx, _, hxn⟩ := hany
            exact ⟨x, hx, hxn⟩
          · exact ⟨_, List.mem_append_right _ (List.mem_singleton.mpr rfl), rfl⟩
        obtain ⟨m, hm1, hm2⟩ := hfound
        exact ⟨m, hmono r _ m hm1, hm2⟩
      · exact ih _ ((hheap st0 d).trans hh) hm
  exact this st.deferred st rfl he

/-! ### module level: the lock step for fragment C -/

/-- successful module-level statements of fragment B create no closures -/
theorem funcs_stmtB (D : Bool) : ∀ (stmt : Stmt) (f : Nat) (s : XState), fragBStmt D stmt = true →
    ∀ fl, (execStmt f {} stmt s).2 = .ok fl → (execStmt f {} stmt s).1.funcs = s.funcs
  | stmt, 0, s, _ => by rw [execStmt]; intro fl hfl; cases hfl
  | .expr e, f + 1, s, hfr => by
    have he := (evalB {} (by simp [CtxOK]) D f).1 e s (by simpa [fragBStmt] using hfr)
    simp only [execStmt, X.bind_def]
    cases hr : evalExpr f {} e s with
    | mk s' r =>
      rw [hr] at he
      cases r with
      | error x => intro fl hfl; cases hfl
      | ok v => intro fl _; exact he.same.funcs
  | .assign ts e, f + 1, s, hfr => by
    simp only [fragBStmt, Bool.and_eq_true] at hfr
    cases hsn : singleName ts with
    | none => rw [hsn] at hfr; simp at hfr
    | some x =>
      have hts := singleName_eq hsn; subst hts
      have he := (evalB {} (by simp [CtxOK]) D f).1 e s hfr.2
      simp only [execStmt, X.bind_def]
      cases hr : evalExpr f {} e s with
      | mk s' r =>
        rw [hr] at he
        cases r with
        | error x => intro fl hfl; cases hfl
        | ok v =>
          simp only
          rcases assignAll_name f x v s' with ha | ha
          · rw [ha]; intro fl _; exact he.same.funcs
          · rw [ha]; intro fl hfl; cases hfl
  | .pass, f + 1, s, _ => by simp only [execStmt, X.pure_def]; intro _ _; trivial
  | .import_ names, f + 1, s, _ => by
    have := ImpOK.bind (ImpOK.importAliases f 0 names) (fun _ => ImpOK.pure Flow.normal)
    simp only [execStmt]
    intro fl hfl
    exact ((this s).2 fl hfl).funcs
  | .importFrom m names, f + 1, s, _ => by
    have hm : ImpOK (do
        let tl ← importChain (prefixes (splitDots m)) none
        match tl with
          | (_, some leaf) => importFromAliases f {} m leaf 0 names
          | _ => (raiseOther : X Unit)) (names.map aliasBinds) := by
      have := ImpOK.bind (ImpOK.importChain (prefixes (splitDots m)) none) (B2 := names.map aliasBinds)
        (fun tl => (by
          split
          · exact ImpOK.importFromAliases m _ f 0 names
          · exact ImpOK.raiseOther :
          ImpOK (match tl with
            | (_, some leaf) => importFromAliases f {} m leaf 0 names
            | _ => (raiseOther : X Unit)) (names.map aliasBinds)))
      simpa using this
    have hex : execStmt (f + 1) {} (.importFrom m names) s =
        ((do
          let tl ← importChain (prefixes (splitDots m)) none
          match tl with
            | (_, some leaf) => importFromAliases f {} m leaf 0 names
            | _ => (raiseOther : X Unit)) >>= fun _ => (Pure.pure Flow.normal : X Flow)) s := by
      simp only [execStmt, X.bind_def]
      cases importChain (prefixes (splitDots m)) none s with
      | mk s1 r1 =>
        cases r1 with
        | error e => rfl
        | ok tl =>
          obtain ⟨t, l⟩ := tl
          cases l with
          | none => rfl
          | some leaf => rfl
    rw [hex]
    have := ImpOK.bind hm (fun _ => ImpOK.pure Flow.normal)
    intro fl hfl
    exact ((this s).2 fl hfl).funcs
  | .located l s', f + 1, s, hfr => by
    simp only [execStmt, X.bind_def, X.modify]
    exact funcs_stmtB D s' f { s with line := l } (by simpa [fragBStmt] using hfr)
  | .augAssign _ _, _ + 1, _, hfr => by simp [fragBStmt] at hfr
  | .annAssign _ _ _, _ + 1, _, hfr => by simp [fragBStmt] at hfr
  | .funcDef _ _ _ _ _, _ + 1, _, hfr => by simp [fragBStmt] at hfr
  | .classDef _ _ _ _, _ + 1, _, hfr => by simp [fragBStmt] at hfr
  | .for_ _ _ _ _, _ + 1, _, hfr => by simp [fragBStmt] at hfr
  | .while_ _ _ _, _ + 1, _, hfr => by simp [fragBStmt] at hfr
  | .if_ _ _ _, _ + 1, _, hfr => by simp [fragBStmt] at hfr
  | .with_ _ _, _ + 1, _, hfr => by simp [fragBStmt] at hfr
  | .try_ _ _ _ _, _ + 1, _, hfr => by simp [fragBStmt] at hfr
  | .return_ _, _ + 1, _, hfr => by simp [fragBStmt] at hfr
  | .raise_ _, _ + 1, _, hfr => by simp [fragBStmt] at hfr
  | .delete _, _ + 1, _, hfr => by simp [fragBStmt] at hfr
  | .global_ _, _ + 1, _, hfr => by simp [fragBStmt] at hfr
  | .nonlocal_ _, _ + 1, _, hfr => by simp [fragBStmt] at hfr

/-- the module-level invariant of fragment C -/
structure CorrC (D : Bool) (s : XState) (st : AState) : Prop where
  corr : Corr D s st
  ok : ModOK st
  shape : FunsShape D s
  cov : ∀ ps body, defClosure ps body ∈ s.funcs → FunCov st (paramNames ps) body

theorem CorrC.line {D : Bool} {s : XState} {st : AState} (h : CorrC D s st) (l : Nat) :
    CorrC D { s with line := l } { st with line := l } := by
  have h0 : ModStep st { st with line := l } := ModStep.of_heap rfl rfl rfl rfl ⟨[], by simp⟩ (fun _ h => h)
  exact ⟨(h.corr.line l).setLine l, h.ok.step h0, h.shape, fun ps body hm => (h.cov ps body hm).mono h.ok.inv.ok h0⟩

theorem defClosure_inj {ps ps' : List Param} {body body' : List Stmt} (h : defClosure ps' body' = defClosure ps body) :
    paramNames ps' = paramNames ps ∧ body' = body := by
  unfold defClosure at h
  injection h with h1 _ _ _ _ _ _ h8 _
  injection h8 with h9
  exact ⟨h1, h9⟩

theorem stmtC_def (fx : Fixes) (reg : Registry) (D : Bool) : ∀ (stmt : Stmt) (f : Nat) (s : XState) (st : AState) (ln : Nat),
    fragDef D stmt = true → CorrC D s st →
    (∀ n ∈ (execStmt f {} stmt s).1.ne, ∃ m ∈ (runOps reg st (cStmt fx ln stmt)).missing,
        headOf m.name = n ∧ (D = false → m.name = n)) ∧
    (∀ fl, (execStmt f {} stmt s).2 = .ok fl →
      fl = Flow.normal ∧ CorrC D (execStmt f {} stmt s).1 (runOps reg st (cStmt fx ln stmt)))
  | stmt, 0, s, st, ln, hfr, h => by
    have hm := (modStep_defL fx reg D stmt ln st hfr h.ok).mono
    rw [execStmt]
    refine ⟨fun n hn => ?_, fun fl hfl => by cases hfl⟩
    obtain ⟨m, hmm, hmn⟩ := h.corr.ne n hn
    exact ⟨m, hm m hmm, hmn⟩
  | .located l s', f + 1, s, st, ln, hfr, h => by
    simp only [execStmt, cStmt, runOps_setLine, X.bind_def, X.modify]
    exact stmtC_def fx reg D s' f { s with line := l } { st with line := l } l (by simpa [fragDef] using hfr) (h.line l)
  | .funcDef name a body decos ret, f + 1, s, st, ln, hfr, h => by
    obtain ⟨ps, rfl, rfl, rfl, hn, hps, hb⟩ := fragDef_funcDef hfr
    obtain ⟨e1, e2⟩ := execDef (f + 1) s name ps body hps
    obtain ⟨a1, a2, a3, a4, a5, a6, a7, a8, a9, a10⟩ := defA fx reg D h.ok.inv h.ok.topLt ln name ps body hn hps hb
    have hs := modStep_def fx reg D h.ok ln name ps body hn hps hb
    refine ⟨fun n hn' => ?_, fun fl hfl => ?_⟩
    · rw [e1] at hn'
      obtain ⟨m, hmm, hmn⟩ := h.corr.ne n hn'
      exact ⟨m, by rw [a4]; exact hmm, hmn⟩
    · obtain ⟨hfl1, hst⟩ := e2 fl hfl
      refine ⟨hfl1, ?_⟩
      rw [hst]
      have hget : ∀ i ∈ normIds st.stack.ids, ∀ n,
          ((runOps reg st (cStmt fx ln (.funcDef name (.mk ps [] none [] [] none) body [] none))).heap.get i).get n =
            if i = st.stack.top ∧ n ∈ [name] then some Val.none else (st.heap.get i).get n := by
        intro i hi n
        have hilt : i < st.heap.length := h.ok.inv.ok.idsLt i (by rw [← h.ok.inv.ok.wf]; exact hi)
        by_cases hit : i = st.stack.top
        · subst hit; rw [a7]; simp
        · rw [a6 i hilt hit]; simp [hit]
      obtain ⟨hc, _⟩ := corr_storeKeys (reg := reg)
        (s2 := { s with funcs := s.funcs ++ [defClosure ps body], globals := assocSet name (.func s.funcs.length) s.globals,
                        origins := assocDel name s.origins }) h.corr [name] [name]
        (fun n => by
          unfold unboundX
          by_cases hnn : n = name
          · subst hnn; simp [assocGet_assocSet_eq]
          · simp [assocGet_assocSet_ne hnn, hnn])
        rfl (fun _ _ => Iff.rfl)
        (by simp only [List.mem_singleton]; exact fun hc => simpleName_ne_star hn hc.symm)
        (fun _ k hk => by simp only [List.mem_singleton] at hk ⊢; rw [hk, headOf_simple hn])
        a1 a5 a2 a4 hget
      have hbn : BoundA (runOps reg st (cStmt fx ln (.funcDef name (.mk ps [] none [] [] none) body [] none))) name :=
        ⟨st.stack.top, by rw [a1]; exact h.corr.topMem, Val.none, by rw [a7]; simp⟩
      refine ⟨hc, h.ok.step hs, ?_, ?_⟩
      · intro c hcm
        rcases List.mem_append.mp hcm with hcm | hcm
        · exact h.shape c hcm
        · exact ⟨ps, body, by simpa using hcm, hb⟩
      · intro ps' body' hcm
        rcases List.mem_append.mp hcm with hcm | hcm
        · exact (h.cov ps' body' hcm).mono h.ok.inv.ok hs
        · obtain ⟨hp, hbb⟩ := defClosure_inj (List.mem_singleton.mp hcm)
          subst hbb
          rw [hp]
          refine ⟨name, hbn, fun d hd hnl => ?_⟩
          obtain ⟨g1, g2⟩ := bodyLoads_good D body' hb d hd
          refine a10 h.corr.topMem h.corr.dk d hd g1 (fun hdf => ?_) hnl
          cases D with
          | true => rfl
          | false => rw [g2 rfl] at hdf; cases hdf
  | .expr _, _ + 1, _, _, _, hfr, _ => by simp [fragDef] at hfr
  | .assign _ _, _ + 1, _, _, _, hfr, _ => by simp [fragDef] at hfr
  | .pass, _ + 1, _, _, _, hfr, _ => by simp [fragDef] at hfr
  | .import_ _, _ + 1, _, _, _, hfr, _ => by simp [fragDef] at hfr
  | .importFrom _ _, _ + 1, _, _, _, hfr, _ => by simp [fragDef] at hfr
  | .augAssign _ _, _ + 1, _, _, _, hfr, _ => by simp [fragDef] at hfr
  | .annAssign _ _ _, _ + 1, _, _, _, hfr, _ => by simp [fragDef] at hfr
  | .classDef _ _ _ _, _ + 1, _, _, _, hfr, _ => by simp [fragDef] at hfr
  | .for_ _ _ _ _, _ + 1, _, _, _, hfr, _ => by simp [fragDef] at hfr
  | .while_ _ _ _, _ + 1, _, _, _, hfr, _ => by simp [fragDef] at hfr
  | .if_ _ _ _, _ + 1, _, _, _, hfr, _ => by simp [fragDef] at hfr
  | .with_ _ _, _ + 1, _, _, _, hfr, _ => by simp [fragDef] at hfr
  | .try_ _ _ _ _, _ + 1, _, _, _, hfr, _ => by simp [fragDef] at hfr
  | .return_ _, _ + 1, _, _, _, hfr, _ => by simp [fragDef] at hfr
  | .raise_ _, _ + 1, _, _, _, hfr, _ => by simp [fragDef] at hfr
  | .delete _, _ + 1, _, _, _, hfr, _ => by simp [fragDef] at hfr
  | .global_ _, _ + 1, _, _, _, hfr, _ => by simp [fragDef] at hfr
  | .nonlocal_ _, _ + 1, _, _, _, hfr, _ => by simp [fragDef] at hfr

/-- one module-level statement of fragment C, reference semantics and analysis in lock step -/
theorem stmtC (fx : Fixes) (reg : Registry) (D : Bool) (stmt : Stmt) (f : Nat) (s : XState) (st : AState) (ln : Nat)
    (hfr : fragCStmt D stmt = true) (h : CorrC D s st) :
    (∀ n ∈ (execStmt f {} stmt s).1.ne, ∃ m ∈ (runOps reg st (cStmt fx ln stmt)).missing,
        headOf m.name = n ∧ (D = false → m.name = n)) ∧
    (∀ fl, (execStmt f {} stmt s).2 = .ok fl →
      fl = Flow.normal ∧ CorrC D (execStmt f {} stmt s).1 (runOps reg st (cStmt fx ln stmt))) := by
  simp only [fragCStmt, Bool.or_eq_true] at hfr
  rcases hfr with hfr | hfr
  · obtain ⟨h1, h2⟩ := stmtB fx reg D stmt f s st ln hfr h.corr
    refine ⟨h1, fun fl hfl => ?_⟩
    obtain ⟨b1, b2, _, _⟩ := h2 fl hfl
    have hs := modStep_stmtB fx reg D stmt ln st hfr h.ok.inv.inFunc h.ok.topLt
    have hfn := funcs_stmtB D stmt f s hfr fl hfl
    refine ⟨b1, b2, h.ok.step hs, ?_, ?_⟩
    · intro c hc; rw [hfn] at hc; exact h.shape c hc
    · intro ps body hc; rw [hfn] at hc; exact (h.cov ps body hc).mono h.ok.inv.ok hs
  · exact stmtC_def fx reg D stmt f s st ln hfr h

theorem stmtsC (fx : Fixes) (reg : Registry) (D : Bool) : ∀ (ss : List Stmt) (f : Nat) (s : XState) (st : AState) (ln : Nat),
    fragC D ss = true → CorrC D s st →
    (∀ n ∈ (execStmts f {} ss s).1.ne, ∃ m ∈ (runOps reg st (cStmts fx ln ss)).missing,
        headOf m.name = n ∧ (D = false → m.name = n)) ∧
    (∀ fl, (execStmts f {} ss s).2 = .ok fl → CorrC D (execStmts f {} ss s).1 (runOps reg st (cStmts fx ln ss)))
  | ss, 0, s, st, ln, hfr, h => by
    have hm := (modStep_stmtsC fx reg D ss ln st hfr h.ok).mono
    rw [execStmts]
    refine ⟨fun n hn => ?_, fun fl hfl => by cases hfl⟩
    obtain ⟨m, hmm, hmn⟩ := h.corr.ne n hn
    exact ⟨m, hm m hmm, hmn⟩
  | [], f + 1, s, st, ln, _, h => by
    simp only [execStmts, cStmts, X.pure_def]
    exact ⟨h.corr.ne, fun _ _ => h⟩
  | stmt :: ss, f + 1, s, st, ln, hfr, h => by
    simp only [fragC, List.all_cons, Bool.and_eq_true] at hfr
    have hfr2 : fragC D ss = true := by simpa [fragC] using hfr.2
    obtain ⟨h1, h2⟩ := stmtC fx reg D stmt f s st ln hfr.1 h
    simp only [execStmts, cStmts, runOps_append, X.bind_def]
    have hs1 := modStep_stmtC fx reg D stmt ln st hfr.1 h.ok
    cases hr : execStmt f {} stmt s with
    | mk s' r =>
      rw [hr] at h1 h2
      cases r with
      | error x =>
        simp only
        refine ⟨fun n hn => ?_, fun fl hfl => by cases hfl⟩
        obtain ⟨m, hm, hmn⟩ := h1 n hn
        exact ⟨m, (modStep_stmtsC fx reg D ss ln _ hfr2 (h.ok.step hs1)).mono m hm, hmn⟩
      | ok fl0 =>
        obtain ⟨hfl0, hc⟩ := h2 fl0 rfl
        subst hfl0
        simp only
        exact stmtsC fx reg D ss f s' _ ln hfr2 hc

/-! ### the calls after the last module-level statement -/

/-- a deferred entry that the final `_finish_deferred_load_checks` will report for `n` -/
def Pend (D : Bool) (reg : Registry) (st : AState) (n : Str) : Prop :=
  ∃ e ∈ st.deferred, headOf e.name = n ∧ (D = false → e.name = n) ∧
    (symbolNeedsImport reg st.heap e.ids e.name).1 = true ∧ hasStar st.heap e.ids = false

/-- `n` is reported already, or will be when the deferred checks run -/
def Cover (D : Bool) (reg : Registry) (st : AState) (n : Str) : Prop :=
  (∃ m ∈ st.missing, headOf m.name = n ∧ (D = false → m.name = n)) ∨ Pend D reg st n

/-- what the analysis of the trailing calls does: loads at module level only -/
structure CallAna (st st' : AState) : Prop where
  heap : st'.heap = st.heap
  stack : st'.stack = st.stack
  inFunc : st'.inFunc = st.inFunc
  inClass : st'.inClass = st.inClass
  deferred : st'.deferred = st.deferred
  mono : ∀ m ∈ st.missing, m ∈ st'.missing

theorem CallAna.refl (st : AState) : CallAna st st := ⟨rfl, rfl, rfl, rfl, rfl, fun _ h => h⟩

theorem CallAna.trans {a b c : AState} (h1 : CallAna a b) (h2 : CallAna b c) : CallAna a c :=
  ⟨h2.heap.trans h1.heap, h2.stack.trans h1.stack, h2.inFunc.trans h1.inFunc, h2.inClass.trans h1.inClass,
   h2.deferred.trans h1.deferred, fun m hm => h2.mono m (h1.mono m hm)⟩

theorem CallAna.step {st st' : AState} (h : CallAna st st') : ModStep st st' :=
  ModStep.of_heap h.heap h.stack h.inFunc h.inClass ⟨[], by rw [h.deferred]; simp⟩ h.mono

theorem Cover.mono {D : Bool} {reg : Registry} {st st' : AState} {n : Str} (h : Cover D reg st n) (ha : CallAna st st') :
    Cover D reg st' n := by
  rcases h with ⟨m, hm, hmn⟩ | ⟨e, he, h1, h2, h3, h4⟩
  · exact .inl ⟨m, ha.mono m hm, hmn⟩
  · exact .inr ⟨e, by rw [ha.deferred]; exact he, h1, h2, by rw [ha.heap]; exact h3, by rw [ha.heap]; exact h4⟩

theorem AnaL.callAna {reg : Registry} {st st' : AState} {L : List Str} (h : AnaL reg st st' L) (hc : st'.inClass = st.inClass) :
    CallAna st st' := ⟨h.heap, h.stack, h.inFunc, hc, h.deferred, h.mono⟩

theorem Corr.glob {D : Bool} {s s' : XState} {st : AState} (h : Corr D s st) (hs : SameGlob s s') (hne : s'.ne = s.ne) :
    Corr D s' st :=
  ⟨fun n hn => by rw [hs.unbound]; exact h.names n hn, h.noStar, by rw [hne]; exact h.ne, h.inFunc, h.topMem, h.topLt, h.dk⟩

theorem CorrC.callAna {D : Bool} {s s' : XState} {st st' : AState} (h : CorrC D s st) (ha : CallAna st st')
    (hs : SameGlob s s') (hne : s'.ne = s.ne) : CorrC D s' st' := by
  have hst := ha.step
  refine ⟨?_, h.ok.step hst, ?_, ?_⟩
  · have hc := h.corr.glob hs hne
    refine ⟨?_, ?_, ?_, by rw [ha.inFunc]; exact hc.inFunc, by rw [ha.stack]; exact hc.topMem,
      by rw [ha.stack, ha.heap]; exact hc.topLt, fun hD => ?_⟩
    · intro n hn; rw [hc.names n hn]; unfold unboundA; rw [ha.heap, ha.stack]
    · unfold noStarA; rw [ha.heap, ha.stack]; exact hc.noStar
    · intro n hn; obtain ⟨m, hm, hmn⟩ := hc.ne n hn; exact ⟨m, ha.mono m hm, hmn⟩
    · have := hc.dk hD; unfold DK at *; rw [ha.heap, ha.stack]; exact this
  · intro c hc; rw [hs.funcs] at hc; exact h.shape c hc
  · intro ps body hc; rw [hs.funcs] at hc; exact (h.cov ps body hc).mono h.ok.inv.ok hst

/-- a module-level computation that reads the dotted names `L`, against the analysis of the loads of `L` -/
theorem corr_evalB {α} {reg : Registry} {D : Bool} {s : XState} {st st' : AState} (h : Corr D s st) {L : List Str} {b : Bool}
    {res : XState × Except Exc α} (hA : AnaL reg st st' L)
    (hgood : ∀ d ∈ L, goodDotted d = true ∧ (D = false → dotFree d = true))
    (hE : EvalB {} s (L.map headOf) b res) :
    ∀ n ∈ res.1.ne, ∃ m ∈ st'.missing, headOf m.name = n ∧ (D = false → m.name = n) := by
  have hdk : ∀ d ∈ L, dotFree d = false → DK st := by
    intro d hd hdf
    apply h.dk
    cases D with
    | true => rfl
    | false => have := (hgood d hd).2 rfl; rw [this] at hdf; cases hdf
  intro n hn
  cases hr : res.2 with
  | ok v =>
    rw [(hE.ok v hr).1] at hn
    obtain ⟨m, hm, hmn⟩ := h.ne n hn
    exact ⟨m, hA.mono m hm, hmn⟩
  | error x =>
    rcases hE.err x hr with ⟨n', _, hne, hmem, hu⟩ | ⟨_, hne⟩
    · rw [hne] at hn
      rcases mem_addOnce hn with hn | rfl
      · obtain ⟨m, hm, hmn⟩ := h.ne n hn
        exact ⟨m, hA.mono m hm, hmn⟩
      · simp only [List.mem_map] at hmem
        obtain ⟨d, hd, rfl⟩ := hmem
        have hg := (hgood d hd).1
        obtain ⟨m, hm, hmn⟩ := hA.found d hd hg ((h.names _ (headOf_good hg)).mp hu.2) (hdk d hd) h.noStar
        refine ⟨m, hm, by rw [hmn], fun hD => ?_⟩
        have hdf := (hgood d hd).2 hD
        rw [hmn]; unfold headOf; rw [splitDots_simple (by simpa [dotFree] using hdf)]; rfl
    · rw [hne] at hn
      obtain ⟨m, hm, hmn⟩ := h.ne n hn
      exact ⟨m, hA.mono m hm, hmn⟩

theorem runOps_loads_inClass (reg : Registry) (L : List Str) (st : AState) (hf : st.inFunc = false) :
    (runOps reg st (L.map Op.load)).inClass = st.inClass := (modStep_loads reg L st hf).inClass

theorem headOf_dotFree {d : Str} (h : dotFree d = true) : headOf d = d := by
  unfold headOf; rw [splitDots_simple (by simpa [dotFree] using h)]; rfl

/-- a global read by a closure body that is unbound when the calls run waits in the deferred list -/
theorem call_pend (reg : Registry) {D : Bool} {s : XState} {st : AState} (h : CorrC D s st) {n : Str}
    (hp : CallP s n) (hu : unboundX s n) : Pend D reg st n := by
  obtain ⟨ps, body, hmem, hhead, hnl⟩ := hp
  obtain ⟨ps0, body0, hceq, hb0⟩ := h.shape _ hmem
  have hb : body.all (fbodyStmt D) = true := by rw [(defClosure_inj hceq).2]; exact hb0
  simp only [List.mem_map] at hhead
  obtain ⟨d, hd, rfl⟩ := hhead
  obtain ⟨g1, g2⟩ := bodyLoads_good D body hb d hd
  obtain ⟨fname, hbn, hcv⟩ := h.cov ps body hmem
  have hua : unboundA st (headOf d) := (h.corr.names _ (headOf_good g1)).mp hu
  have hdk : dotFree d = false → DK st := by
    intro hdf
    apply h.corr.dk
    cases D with
    | true => rfl
    | false => rw [g2 rfl] at hdf; cases hdf
  rcases hcv d hd hnl with hb' | ⟨e, he, hen, hfz⟩
  · exact absurd hua (not_unboundA.mpr hb')
  · obtain ⟨p1, p2⟩ := frozen_pend reg h.ok.inv.ok h.corr.noStar hdk g1 hfz hen hnl hbn hua
    exact ⟨e, he, by rw [hen], fun hD => by rw [hen, headOf_dotFree (g2 hD)], p1, p2⟩

theorem callC_core (fx : Fixes) (reg : Registry) (D : Bool) (g : Str) (args : List Expr) (f : Nat) (s : XState) (st : AState)
    (ln : Nat) (hg : simpleName g = true) (hargs : fragBExprs D args = true) (h : CorrC D s st) :
    CallAna st (runOps reg st (cStmt fx ln (.expr (.call (.name g) args)))) ∧
    (∀ n ∈ (execStmt f {} (.expr (.call (.name g) args)) s).1.ne,
      Cover D reg (runOps reg st (cStmt fx ln (.expr (.call (.name g) args)))) n) ∧
    (∀ fl, (execStmt f {} (.expr (.call (.name g) args)) s).2 = .ok fl → fl = Flow.normal ∧
      CorrC D (execStmt f {} (.expr (.call (.name g) args)) s).1 (runOps reg st (cStmt fx ln (.expr (.call (.name g) args)))) ∧
      (execStmt f {} (.expr (.call (.name g) args)) s).1.funcs = s.funcs ∧
      (noIfExprs args = true → RD D reg st →
        (runOps reg st (cStmt fx ln (.expr (.call (.name g) args)))).missing = st.missing)) := by
  have hops : cStmt fx ln (.expr (.call (.name g) args)) = (g :: loadsOfs args).map Op.load := by
    simp [cStmt, cExpr, cExprs_loads fx D args hargs]
  rw [hops]
  have hA : AnaL reg st (runOps reg st ((g :: loadsOfs args).map Op.load)) (g :: loadsOfs args) :=
    anaL_loads reg _ st h.corr.inFunc
  have ha : CallAna st (runOps reg st ((g :: loadsOfs args).map Op.load)) :=
    hA.callAna (runOps_loads_inClass reg _ st h.corr.inFunc)
  have hgood : ∀ d ∈ g :: loadsOfs args, goodDotted d = true ∧ (D = false → dotFree d = true) := by
    intro d hd
    rcases List.mem_cons.mp hd with rfl | hd
    · exact ⟨by simp [goodDotted, simpleName_split hg, hg], fun _ => by simpa [dotFree] using simpleName_dotFree hg⟩
    · exact loadss_good D args hargs d hd
  have hold : ∀ (s' : XState), s'.ne = s.ne → ∀ n ∈ s'.ne, Cover D reg (runOps reg st ((g :: loadsOfs args).map Op.load)) n := by
    intro s' hne n hn
    rw [hne] at hn
    obtain ⟨m, hm, hmn⟩ := h.corr.ne n hn
    exact .inl ⟨m, ha.mono m hm, hmn⟩
  refine ⟨ha, ?_⟩
  match f with
  | 0 =>
    rw [execStmt]
    exact ⟨hold s rfl, fun fl hfl => by cases hfl⟩
  | 1 =>
    simp only [execStmt, evalExpr, X.bind_def, X.throw]
    exact ⟨hold s rfl, fun fl hfl => by cases hfl⟩
  | f + 2 =>
    -- evaluate the callee name and the arguments at module level
    let pre : X (RVal × List RVal) :=
      evalExpr f {} (.name g) >>= fun fv => evalExprs f {} args >>= fun avs => (Pure.pure (fv, avs) : X (RVal × List RVal))
    have hpre : EvalB {} s ((g :: loadsOfs args).map headOf) (true && (noIfExprs args && true)) (pre s) := by
      have h1 := (evalB {} (by simp [CtxOK]) D f).1 (.name g) s (by simpa [fragBExpr] using hg)
      have := EvalB.bind h1 (fun fv s1 _ => EvalB.bind ((evalB {} (by simp [CtxOK]) D f).2 args s1 hargs)
        (fun avs s2 _ => EvalB.pure {} s2 (fv, avs)))
      simpa [headsOf, headsOfs, loadsOf, noIfExpr] using this
    have hex : execStmt (f + 2) {} (.expr (.call (.name g) args)) s =
        (pre >>= fun p => callVal f p.1 p.2 >>= fun _ => (Pure.pure Flow.normal : X Flow)) s := by
      simp only [execStmt, evalExpr, X.bind_def, pre, X.pure_def]
      cases evalExpr f {} (Expr.name g) s with
      | mk s1 r1 =>
        cases r1 with
        | error x => rfl
        | ok fv =>
          simp only
          cases evalExprs f {} args s1 with
          | mk s2 r2 =>
            cases r2 with
            | error x => rfl
            | ok avs => rfl
    rw [hex, X.bind_def]
    have hcov := corr_evalB h.corr hA hgood hpre
    cases hp : pre s with
    | mk s1 r1 =>
      rw [hp] at hpre hcov
      cases r1 with
      | error x =>
        simp only
        exact ⟨fun n hn => .inl (hcov n hn), fun fl hfl => by cases hfl⟩
      | ok p =>
        simp only
        have hsame : SameUpToLog s s1 := hpre.same
        have hne1 : s1.ne = s.ne := (hpre.ok p rfl).1
        have hshape1 : FunsShape D s1 := by intro c hc; rw [hsame.funcs] at hc; exact h.shape c hc
        have hrun := callVal_run D f p.1 p.2 s1 hshape1
        rw [X.bind_def]
        cases hc : callVal f p.1 p.2 s1 with
        | mk s2 r2 =>
          rw [hc] at hrun
          have hne2 : ∀ n ∈ s2.ne, Cover D reg (runOps reg st ((g :: loadsOfs args).map Op.load)) n := by
            intro n hn
            rcases hrun.ne n hn with h1 | ⟨hcp, hu⟩
            · exact hold s1 hne1 n h1
            · have hc1 : CorrC D s1 st := h.callAna (CallAna.refl st) hsame.glob hne1
              exact Cover.mono (Or.inr (call_pend reg hc1 hcp hu)) ha
          cases r2 with
          | error x =>
            simp only
            exact ⟨hne2, fun fl hfl => by cases hfl⟩
          | ok v =>
            simp only [X.pure_def]
            refine ⟨hne2, fun fl hfl => ⟨by cases hfl; rfl, ?_, (hsame.glob.trans hrun.same).funcs, fun hno hrd => ?_⟩⟩
            · exact h.callAna ha (hsame.glob.trans hrun.same) ((hrun.ok v rfl).trans hne1)
            · apply hA.same
              intro d hd
              have hgd := (hgood d hd).1
              refine ⟨hgd, fun hun => ?_, fun hdf => ?_⟩
              · refine (hpre.ok p rfl).2 (by simp [hno]) (headOf d) (List.mem_map.mpr ⟨d, hd, rfl⟩) ⟨by simp [isGlobalIn], ?_⟩
                exact (h.corr.names _ (headOf_good hgd)).mpr hun
              · apply (hrd _).1
                cases D with
                | true => rfl
                | false => have := (hgood d hd).2 rfl; rw [this] at hdf; cases hdf

theorem fragCall_expr {D : Bool} {e : Expr} (h : fragCall D (.expr e) = true) :
    ∃ g args, e = .call (.name g) args ∧ simpleName g = true ∧ fragBExprs D args = true := by
  unfold fragCall at h
  split at h
  · rename_i heq; cases heq
  · rename_i heq
    cases heq
    simp only [Bool.and_eq_true] at h
    exact ⟨_, _, rfl, h.1, h.2⟩
  · cases h

theorem callAna_setLine (st : AState) (l : Nat) : CallAna st { st with line := l } := ⟨rfl, rfl, rfl, rfl, rfl, fun _ h => h⟩

/-- analysis of one trailing call -/
theorem anaCall (fx : Fixes) (reg : Registry) (D : Bool) : ∀ (stmt : Stmt) (ln : Nat) (st : AState),
    fragCall D stmt = true → st.inFunc = false → CallAna st (runOps reg st (cStmt fx ln stmt))
  | .located l s', ln, st, hfr, hf => by
    simp only [cStmt, runOps_setLine]
    exact (callAna_setLine st l).trans (anaCall fx reg D s' l { st with line := l } (by simpa [fragCall] using hfr) hf)
  | .expr e, ln, st, hfr, hf => by
    obtain ⟨g, args, rfl, hg, hargs⟩ := fragCall_expr hfr
    have hops : cStmt fx ln (.expr (.call (.name g) args)) = (g :: loadsOfs args).map Op.load := by
      simp [cStmt, cExpr, cExprs_loads fx D args hargs]
    rw [hops]
    exact (anaL_loads reg _ st hf).callAna (runOps_loads_inClass reg _ st hf)
  | .assign _ _, _, _, hfr, _ => by simp [fragCall] at hfr
  | .pass, _, _, hfr, _ => by simp [fragCall] at hfr
  | .import_ _, _, _, hfr, _ => by simp [fragCall] at hfr
  | .importFrom _ _, _, _, hfr, _ => by simp [fragCall] at hfr
  | .augAssign _ _, _, _, hfr, _ => by simp [fragCall] at hfr
  | .annAssign _ _ _, _, _, hfr, _ => by simp [fragCall] at hfr
  | .funcDef _ _ _ _ _, _, _, hfr, _ => by simp [fragCall] at hfr
  | .classDef _ _ _ _, _, _, hfr, _ => by simp [fragCall] at hfr
  | .for_ _ _ _ _, _, _, hfr, _ => by simp [fragCall] at hfr
  | .while_ _ _ _, _, _, hfr, _ => by simp [fragCall] at hfr
  | .if_ _ _ _, _, _, hfr, _ => by simp [fragCall] at hfr
  | .with_ _ _, _, _, hfr, _ => by simp [fragCall] at hfr
  | .try_ _ _ _ _, _, _, hfr, _ => by simp [fragCall] at hfr
  | .return_ _, _, _, hfr, _ => by simp [fragCall] at hfr
  | .raise_ _, _, _, hfr, _ => by simp [fragCall] at hfr
  | .delete _, _, _, hfr, _ => by simp [fragCall] at hfr
  | .global_ _, _, _, hfr, _ => by simp [fragCall] at hfr
  | .nonlocal_ _, _, _, hfr, _ => by simp [fragCall] at hfr

theorem anaCalls (fx : Fixes) (reg : Registry) (D : Bool) : ∀ (ss : List Stmt) (ln : Nat) (st : AState),
    ss.all (fragCall D) = true → st.inFunc = false → CallAna st (runOps reg st (cStmts fx ln ss))
  | [], _, st, _, _ => by simp only [cStmts]; exact CallAna.refl st
  | s :: ss, ln, st, hfr, hf => by
    simp only [List.all_cons, Bool.and_eq_true] at hfr
    simp only [cStmts, runOps_append]
    have h1 := anaCall fx reg D s ln st hfr.1 hf
    exact h1.trans (anaCalls fx reg D ss ln _ hfr.2 (by rw [h1.inFunc]; exact hf))

/-- one trailing call, reference semantics and analysis in lock step -/
theorem callC (fx : Fixes) (reg : Registry) (D : Bool) : ∀ (stmt : Stmt) (f : Nat) (s : XState) (st : AState) (ln : Nat),
    fragCall D stmt = true → CorrC D s st →
    (∀ n ∈ (execStmt f {} stmt s).1.ne, Cover D reg (runOps reg st (cStmt fx ln stmt)) n) ∧
    (∀ fl, (execStmt f {} stmt s).2 = .ok fl → fl = Flow.normal ∧
      CorrC D (execStmt f {} stmt s).1 (runOps reg st (cStmt fx ln stmt)) ∧
      (execStmt f {} stmt s).1.funcs = s.funcs ∧
      (plainCall stmt = true → RD D reg st → (runOps reg st (cStmt fx ln stmt)).missing = st.missing))
  | stmt, 0, s, st, ln, hfr, h => by
    have ha := anaCall fx reg D stmt ln st hfr h.corr.inFunc
    rw [execStmt]
    refine ⟨fun n hn => ?_, fun fl hfl => by cases hfl⟩
    obtain ⟨m, hm, hmn⟩ := h.corr.ne n hn
    exact .inl ⟨m, ha.mono m hm, hmn⟩
  | .located l s', f + 1, s, st, ln, hfr, h => by
    simp only [execStmt, cStmt, runOps_setLine, X.bind_def, X.modify]
    obtain ⟨r1, r2⟩ := callC fx reg D s' f { s with line := l } { st with line := l } l (by simpa [fragCall] using hfr) (h.line l)
    refine ⟨r1, fun fl hfl => ?_⟩
    obtain ⟨q1, q2, q4, q3⟩ := r2 fl hfl
    exact ⟨q1, q2, q4, fun hp hrd => q3 (by simpa [plainCall] using hp) hrd⟩
  | .expr e, f + 1, s, st, ln, hfr, h => by
    obtain ⟨g, args, rfl, hg, hargs⟩ := fragCall_expr hfr
    obtain ⟨_, r1, r2⟩ := callC_core fx reg D g args (f + 1) s st ln hg hargs h
    refine ⟨r1, fun fl hfl => ?_⟩
    obtain ⟨q1, q2, q4, q3⟩ := r2 fl hfl
    exact ⟨q1, q2, q4, fun hp hrd => q3 (by simpa [plainCall] using hp) hrd⟩
  | .assign _ _, _ + 1, _, _, _, hfr, _ => by simp [fragCall] at hfr
  | .pass, _ + 1, _, _, _, hfr, _ => by simp [fragCall] at hfr
  | .import_ _, _ + 1, _, _, _, hfr, _ => by simp [fragCall] at hfr
  | .importFrom _ _, _ + 1, _, _, _, hfr, _ => by simp [fragCall] at hfr
  | .augAssign _ _, _ + 1, _, _, _, hfr, _ => by simp [fragCall] at hfr
  | .annAssign _ _ _, _ + 1, _, _, _, hfr, _ => by simp [fragCall] at hfr
  | .funcDef _ _ _ _ _, _ + 1, _, _, _, hfr, _ => by simp [fragCall] at hfr
  | .classDef _ _ _ _, _ + 1, _, _, _, hfr, _ => by simp [fragCall] at hfr
  | .for_ _ _ _ _, _ + 1, _, _, _, hfr, _ => by simp [fragCall] at hfr
  | .while_ _ _ _, _ + 1, _, _, _, hfr, _ => by simp [fragCall] at hfr
  | .if_ _ _ _, _ + 1, _, _, _, hfr, _ => by simp [fragCall] at hfr
  | .with_ _ _, _ + 1, _, _, _, hfr, _ => by simp [fragCall] at hfr
  | .try_ _ _ _ _, _ + 1, _, _, _, hfr, _ => by simp [fragCall] at hfr
  | .return_ _, _ + 1, _, _, _, hfr, _ => by simp [fragCall] at hfr
  | .raise_ _, _ + 1, _, _, _, hfr, _ => by simp [fragCall] at hfr
  | .delete _, _ + 1, _, _, _, hfr, _ => by simp [fragCall] at hfr
  | .global_ _, _ + 1, _, _, _, hfr, _ => by simp [fragCall] at hfr
  | .nonlocal_ _, _ + 1, _, _, _, hfr, _ => by simp [fragCall] at hfr

theorem callsC (fx : Fixes) (reg : Registry) (D : Bool) : ∀ (ss : List Stmt) (f : Nat) (s : XState) (st : AState) (ln : Nat),
    ss.all (fragCall D) = true → CorrC D s st →
    ∀ n ∈ (execStmts f {} ss s).1.ne, Cover D reg (runOps reg st (cStmts fx ln ss)) n
  | ss, 0, s, st, ln, hfr, h => by
    have ha := anaCalls fx reg D ss ln st hfr h.corr.inFunc
    rw [execStmts]
    intro n hn
    obtain ⟨m, hm, hmn⟩ := h.corr.ne n hn
    exact .inl ⟨m, ha.mono m hm, hmn⟩
  | [], f + 1, s, st, ln, _, h => by
    simp only [execStmts, cStmts, X.pure_def]
    intro n hn
    exact .inl (h.corr.ne n hn)
  | stmt :: ss, f + 1, s, st, ln, hfr, h => by
    simp only [List.all_cons, Bool.and_eq_true] at hfr
    obtain ⟨h1, h2⟩ := callC fx reg D stmt f s st ln hfr.1 h
    have ha1 := anaCall fx reg D stmt ln st hfr.1 h.corr.inFunc
    simp only [execStmts, cStmts, runOps_append, X.bind_def]
    cases hr : execStmt f {} stmt s with
    | mk s' r =>
      rw [hr] at h1 h2
      cases r with
      | error x =>
        simp only
        intro n hn
        exact (h1 n hn).mono (anaCalls fx reg D ss ln _ hfr.2 (by rw [ha1.inFunc]; exact h.corr.inFunc))
      | ok fl0 =>
        obtain ⟨hfl0, hc, _⟩ := h2 fl0 rfl
        subst hfl0
        simp only
        exact callsC fx reg D ss f s' _ ln hfr.2 hc

/-! ### initial state and the final answer -/

theorem modOK_init (builtins : Scope) (ns : List Scope) (hnc : ∀ sc ∈ ns, sc.isClass = false) (hb : builtins.isClass = false) :
    ModOK (initState builtins ns) := by
  have hlen : (initState builtins ns).heap.length = 3 + ns.length + 1 := by simp [initState]; omega
  have hwf := (inv_init {} builtins ns).wf
  have hmem := init_ids_mem builtins ns hnc
  refine ⟨⟨rfl, rfl, hwf, fun i hi => ?_, fun i hi => ?_, ?_, by rw [hlen]; omega⟩, by rw [init_top]; omega,
    by rw [init_top, hlen]; omega⟩
  · rw [← hwf] at hi
    rw [hlen]
    rcases (hmem i).mp hi with rfl | rfl | ⟨a, ha, rfl⟩ | rfl <;> omega
  · rw [← hwf] at hi
    rcases init_cell builtins ns hnc hi with hc | hc | ⟨sc, hsc, hc⟩ | hc
    · rw [hc]; exact hb
    · rw [hc]
    · rw [hc]; exact hnc sc hsc
    · rw [hc]
  · rfl

theorem corrC_init (D : Bool) (builtins : Scope) (ns : List Scope) (s0 : XState) (h : Agree builtins ns s0)
    (hdf : D = true → nsDotFree builtins ns = true) (hb : builtins.isClass = false) (hf : s0.funcs = []) :
    CorrC D s0 (initState builtins ns) :=
  ⟨corr_init D builtins ns s0 h hdf, modOK_init builtins ns h.noClass hb,
   (fun c hc => by rw [hf] at hc; cases hc), (fun ps body hc => by rw [hf] at hc; cases hc)⟩

theorem cStmts_append (fx : Fixes) (ln : Nat) : ∀ (a b : List Stmt), cStmts fx ln (a ++ b) = cStmts fx ln a ++ cStmts fx ln b
  | [], b => by simp [cStmts]
  | s :: a, b => by simp [cStmts, cStmts_append fx ln a b]

theorem cover_finish {D : Bool} {reg : Registry} {st : AState} {n : Str} (h : Cover D reg st n) :
    ∃ m ∈ (finishDeferred reg st).missing, headOf m.name = n ∧ (D = false → m.name = n) := by
  rcases h with ⟨m, hm, hmn⟩ | ⟨e, he, h1, h2, h3, h4⟩
  · exact ⟨m, finishDeferred_mono reg st m hm, hmn⟩
  · obtain ⟨m, hm, hmn⟩ := finish_pend reg st e he h3 h4
    exact ⟨m, hm, by rw [hmn]; exact h1, fun hD => by rw [hmn]; exact h2 hD⟩

/-- soundness on fragment C, in terms of the analysis state -/
theorem sound_fragC (fx : Fixes) (reg : Registry) (D : Bool) (prog calls : List Stmt) (fuel : Nat) (s0 : XState) (st0 : AState)
    (hfr : fragC D prog = true) (hcalls : calls.all (fragCall D) = true) (h : CorrC D s0 st0) :
    ∀ n ∈ (runProgram fuel prog calls s0).1.ne,
      ∃ m ∈ (finishDeferred reg (runOps reg st0 (cStmts fx 0 (prog ++ calls)))).missing,
        headOf m.name = n ∧ (D = false → m.name = n) := by
  intro n hn
  apply cover_finish
  rw [cStmts_append, runOps_append]
  obtain ⟨h1, h2⟩ := stmtsC fx reg D prog fuel s0 st0 0 hfr h
  have hs1 := modStep_stmtsC fx reg D prog 0 st0 hfr h.ok
  have hinF : (runOps reg st0 (cStmts fx 0 prog)).inFunc = false := by rw [hs1.inFunc]; exact h.corr.inFunc
  have ha2 := anaCalls fx reg D calls 0 _ hcalls hinF
  unfold runProgram at hn
  rw [X.bind_def] at hn
  cases hr : execStmts fuel {} prog s0 with
  | mk s1 r1 =>
    rw [hr] at hn h1 h2
    cases r1 with
    | error x =>
      simp only at hn
      exact Cover.mono (.inl (h1 n hn)) ha2
    | ok fl =>
      have hc := h2 fl rfl
      simp only [X.bind_def, X.modify] at hn
      have hc' : CorrC D { s1 with atEnd := true } (runOps reg st0 (cStmts fx 0 prog)) :=
        hc.callAna (CallAna.refl _) ⟨rfl, rfl, rfl, rfl⟩ rfl
      have hcov := callsC fx reg D calls fuel { s1 with atEnd := true } _ 0 hcalls hc'
      cases hr2 : execStmts fuel {} calls { s1 with atEnd := true } with
      | mk s2 r2 =>
        rw [hr2] at hn hcov
        cases r2 with
        | error x => exact hcov n hn
        | ok fl2 => exact hcov n hn

end Pfb.C05
