/-
  Pfb.C05.LemmasB — simulation between the reference semantics (`Pfb.PyCore.Exec`) and the analysis model
  (`Pfb.PyCore.Analyze`) on fragment B.
-/
import Pfb.C05.FragB
import Pfb.PyCore.AnalyzeLemmas
namespace Pfb.C05
open Pfb Pfb.PyCore

/-! ### the `X` monad -/

theorem X.bind_def {α β} (m : X α) (f : α → X β) (s : XState) :
    (m >>= f) s = match m s with
      | (s', .ok a) => f a s'
      | (s', .error e) => (s', .error e) := rfl

theorem X.pure_def {α} (a : α) (s : XState) : (pure a : X α) s = (s, .ok a) := rfl

/-! ### states that differ only in what has been recorded -/

def unboundX (s : XState) (n : Str) : Prop := assocGet n s.globals = none ∧ s.builtins.contains n = false

/-- `s'` differs from `s` at most in the records of raised exceptions and of used imports -/
def SameUpToLog (s s' : XState) : Prop :=
  s' = { s with ne := s'.ne, ae := s'.ae, lne := s'.lne, otherRaised := s'.otherRaised, usedImps := s'.usedImps }

theorem SameUpToLog.refl (s : XState) : SameUpToLog s s := rfl

theorem SameUpToLog.trans {a b c : XState} (h1 : SameUpToLog a b) (h2 : SameUpToLog b c) : SameUpToLog a c := by
  unfold SameUpToLog at *
  rw [h2, h1]

theorem SameUpToLog.globals {a b : XState} (h : SameUpToLog a b) : b.globals = a.globals := by rw [h]
theorem SameUpToLog.builtins {a b : XState} (h : SameUpToLog a b) : b.builtins = a.builtins := by rw [h]
theorem SameUpToLog.origins {a b : XState} (h : SameUpToLog a b) : b.origins = a.origins := by rw [h]
theorem SameUpToLog.cells {a b : XState} (h : SameUpToLog a b) : b.cells = a.cells := by rw [h]
theorem SameUpToLog.funcs {a b : XState} (h : SameUpToLog a b) : b.funcs = a.funcs := by rw [h]
theorem SameUpToLog.line {a b : XState} (h : SameUpToLog a b) : b.line = a.line := by rw [h]
theorem SameUpToLog.atEnd {a b : XState} (h : SameUpToLog a b) : b.atEnd = a.atEnd := by rw [h]
theorem SameUpToLog.early {a b : XState} (h : SameUpToLog a b) : b.early = a.early := by rw [h]

theorem SameUpToLog.unbound {a b : XState} (h : SameUpToLog a b) (n : Str) : unboundX b n ↔ unboundX a n := by
  unfold unboundX; rw [h.globals, h.builtins]

/-! ### evaluation of fragment-B expressions -/

/-- the scope kinds of fragment B: module level, or a function body with frames `ctx.frames` -/
def CtxOK (ctx : Ctx) : Prop := match ctx.kind with | .cls _ => False | _ => True

/-- reading `n` in `ctx` goes to the globals -/
def isGlobalIn (ctx : Ctx) (n : Str) : Prop :=
  match ctx.kind with
  | .module => True
  | .func => frameLookup n ctx.frames = none
  | .cls _ => False

def unboundIn (ctx : Ctx) (s : XState) (n : Str) : Prop := isGlobalIn ctx n ∧ unboundX s n

/-- what evaluating (part of) a fragment-B expression can do; `names` = heads of the dotted names it may read -/
structure EvalB {α} (ctx : Ctx) (s : XState) (names : List Str) (noIf : Bool) (res : XState × Except Exc α) : Prop where
  same : SameUpToLog s res.1
  uses : ∀ i ∈ res.1.usedImps, i ∈ s.usedImps ∨ ∃ n ∈ names, isGlobalIn ctx n ∧ assocGet n s.origins = some i
  ok : ∀ v, res.2 = .ok v → res.1.ne = s.ne ∧ (noIf = true → ∀ n ∈ names, ¬ unboundIn ctx s n)
  err : ∀ x, res.2 = .error x →
    (∃ n, x = .nameError n ∧ res.1.ne = addOnce n s.ne ∧ n ∈ names ∧ unboundIn ctx s n) ∨
    ((∀ n, x ≠ .nameError n) ∧ res.1.ne = s.ne)

theorem EvalB.pure {α} (ctx : Ctx) (s : XState) (a : α) : EvalB ctx s [] true ((Pure.pure a : X α) s) :=
  ⟨rfl, fun _ h => .inl h, fun _ _ => ⟨rfl, fun _ n hn => by simp at hn⟩, fun x hx => by cases hx⟩

theorem EvalB.mono {α} {ctx : Ctx} {s : XState} {N N' : List Str} {b : Bool} {res : XState × Except Exc α}
    (h : EvalB ctx s N b res) (hsub : ∀ n ∈ N, n ∈ N') (b' : Bool) (hsup : b' = true → b = true ∧ ∀ n ∈ N', n ∈ N) :
    EvalB ctx s N' b' res := by
  refine ⟨h.same, ?_, ?_, ?_⟩
  · intro i hi
    rcases h.uses i hi with h1 | ⟨n, hn, h2⟩
    · exact .inl h1
    · exact .inr ⟨n, hsub n hn, h2⟩
  · intro v hv
    refine ⟨(h.ok v hv).1, fun hb n hn => ?_⟩
    obtain ⟨hb1, hb2⟩ := hsup hb
    exact (h.ok v hv).2 hb1 n (hb2 n hn)
  · intro x hx
    rcases h.err x hx with ⟨n, hn, hne, hmem, hu⟩ | h2
    · exact .inl ⟨n, hn, hne, hsub n hmem, hu⟩
    · exact .inr h2

theorem unboundIn_same {ctx : Ctx} {a b : XState} (h : SameUpToLog a b) (n : Str) : unboundIn ctx b n ↔ unboundIn ctx a n := by
  unfold unboundIn; rw [h.unbound]

/-- sequencing: the continuation runs from a state that differs only in the records -/
theorem EvalB.bind {α β} {ctx : Ctx} {s : XState} {N1 N2 : List Str} {b1 b2 : Bool} {m : X α} {f : α → X β}
    (h1 : EvalB ctx s N1 b1 (m s)) (h2 : ∀ a s', SameUpToLog s s' → EvalB ctx s' N2 b2 (f a s')) :
    EvalB ctx s (N1 ++ N2) (b1 && b2) ((m >>= f) s) := by
  rw [X.bind_def]
  cases hm : m s with
  | mk s' r =>
    rw [hm] at h1
    cases r with
    | ok a =>
      have hs := h1.same
      simp only at hs
      obtain ⟨hne1, hn1⟩ := h1.ok a rfl
      simp only at hne1
      have h3 := h2 a s' hs
      simp only
      refine ⟨hs.trans h3.same, ?_, ?_, ?_⟩
      · intro i hi
        rcases h3.uses i hi with hu | ⟨n, hn, hg, ho⟩
        · rcases h1.uses i hu with hu1 | ⟨n, hn, hg⟩
          · exact .inl hu1
          · exact .inr ⟨n, List.mem_append_left _ hn, hg⟩
        · exact .inr ⟨n, List.mem_append_right _ hn, hg, by rw [← hs.origins]; exact ho⟩
      · intro v hv
        obtain ⟨hne2, hn2⟩ := h3.ok v hv
        refine ⟨hne2.trans hne1, fun hb n hn => ?_⟩
        simp only [Bool.and_eq_true] at hb
        rcases List.mem_append.mp hn with hn | hn
        · exact hn1 hb.1 n hn
        · intro hc; exact hn2 hb.2 n hn ((unboundIn_same hs n).mpr hc)
      · intro x hx
        rcases h3.err x hx with ⟨n, hn, hne, hmem, hu⟩ | ⟨hnn, hne⟩
        · exact .inl ⟨n, hn, by rw [hne, hne1], List.mem_append_right _ hmem, (unboundIn_same hs n).mp hu⟩
        · exact .inr ⟨hnn, hne.trans hne1⟩
    | error e =>
      simp only
      refine ⟨h1.same, ?_, (fun v hv => nomatch hv), ?_⟩
      · intro i hi
        rcases h1.uses i hi with hu1 | ⟨n, hn, hg⟩
        · exact .inl hu1
        · exact .inr ⟨n, List.mem_append_left _ hn, hg⟩
      · intro x hx
        have hex : e = x := by simpa using hx
        subst hex
        rcases h1.err e rfl with ⟨n, hn, hne, hmem, hu⟩ | h3
        · exact .inl ⟨n, hn, hne, List.mem_append_left _ hmem, hu⟩
        · exact .inr h3

theorem EvalB.errOnly {α} (ctx : Ctx) (s : XState) (N : List Str) (b : Bool) (m : X α) (s' : XState) (x : Exc)
    (hm : m s = (s', .error x)) (hs : SameUpToLog s s') (hu : s'.usedImps = s.usedImps) (hne : s'.ne = s.ne)
    (hx : ∀ n, x ≠ .nameError n) : EvalB ctx s N b (m s) := by
  rw [hm]
  refine ⟨hs, fun i hi => .inl (by rw [← hu]; exact hi), (fun v hv => nomatch hv), fun y hy => ?_⟩
  have : x = y := by simpa using hy
  subst this
  exact .inr ⟨hx, hne⟩

theorem EvalB.raiseOther {α} (ctx : Ctx) (s : XState) (N : List Str) (b : Bool) : EvalB ctx s N b ((raiseOther : X α) s) :=
  EvalB.errOnly ctx s N b _ _ .other rfl rfl rfl rfl (fun n hn => nomatch hn)

theorem EvalB.fuel {α} (ctx : Ctx) (s : XState) (N : List Str) (b : Bool) : EvalB ctx s N b ((X.throw .fuel : X α) s) :=
  EvalB.errOnly ctx s N b _ _ .fuel rfl rfl rfl rfl (fun n hn => nomatch hn)

theorem mem_addOnceP {x y : Nat × Nat} {l : List (Nat × Nat)} (h : y ∈ addOnceP x l) : y ∈ l ∨ y = x := by
  unfold addOnceP at h
  split at h
  · exact .inl h
  · rcases List.mem_append.mp h with h | h
    · exact .inl h
    · exact .inr (by simpa using h)

theorem EvalB.globalLookup (ctx : Ctx) (s : XState) (n : Str) (hg : isGlobalIn ctx n) :
    EvalB ctx s [n] true (globalLookup n s) := by
  simp only [Pfb.PyCore.globalLookup]
  cases hgl : assocGet n s.globals with
  | some v =>
    simp only
    refine ⟨?_, ?_, ?_, fun x hx => by cases hx⟩
    · unfold noteUse; split <;> rfl
    · intro i hi
      unfold noteUse at hi
      split at hi
      · rename_i o ho
        rcases mem_addOnceP hi with h | h
        · exact .inl h
        · exact .inr ⟨n, List.mem_singleton.mpr rfl, hg, by rw [ho, h]⟩
      · exact .inl hi
    · intro _ _
      refine ⟨by unfold noteUse; split <;> rfl, fun _ m hm => ?_⟩
      simp only [List.mem_singleton] at hm; subst hm
      intro hu; rw [hu.2.1] at hgl; cases hgl
  | none =>
    simp only
    split
    · rename_i hb
      refine ⟨rfl, fun _ h => .inl h, fun _ _ => ⟨rfl, fun _ m hm => ?_⟩, fun x hx => by cases hx⟩
      simp only [List.mem_singleton] at hm; subst hm
      intro hu; rw [hu.2.2] at hb; cases hb
    · rename_i hb
      refine ⟨rfl, fun _ h => .inl h, (fun v hv => nomatch hv), fun x hx => ?_⟩
      have : x = .nameError n := by simpa [raiseName] using hx.symm
      subst this
      exact .inl ⟨n, rfl, rfl, List.mem_singleton.mpr rfl, hg, hgl, by simpa using hb⟩

theorem EvalB.readName (ctx : Ctx) (hc : CtxOK ctx) (s : XState) (n : Str) : EvalB ctx s [n] true (readName ctx n s) := by
  unfold Pfb.PyCore.readName
  cases hk : ctx.kind with
  | module => simp only; exact EvalB.globalLookup ctx s n (by simp [isGlobalIn, hk])
  | cls l => simp [CtxOK, hk] at hc
  | func =>
    simp only
    cases hf : frameLookup n ctx.frames with
    | none => simp only; exact EvalB.globalLookup ctx s n (by simp [isGlobalIn, hk, hf])
    | some i =>
      simp only [cellLookup]
      have hng : ¬ isGlobalIn ctx n := by simp [isGlobalIn, hk, hf]
      cases hcell : s.cells.getD i none with
      | some v =>
        simp only
        exact ⟨rfl, fun _ h => .inl h, fun _ _ => ⟨rfl, fun _ m hm => by
          simp only [List.mem_singleton] at hm; subst hm; exact fun hu => hng hu.1⟩, fun x hx => by cases hx⟩
      | none =>
        simp only
        refine ⟨rfl, fun _ h => .inl h, (fun v hv => nomatch hv), fun x hx => ?_⟩
        have : x = .localError n := by simpa [raiseLocal] using hx.symm
        subst this
        exact .inr ⟨(fun m hm => nomatch hm), rfl⟩

theorem EvalB.binop (ctx : Ctx) (s : XState) (a b : RVal) : EvalB ctx s [] true (binop a b s) := by
  unfold Pfb.PyCore.binop
  split <;> first | exact EvalB.pure ctx s _ | exact EvalB.raiseOther ctx s _ _

theorem EvalB.subscriptGet (ctx : Ctx) (s : XState) (a : RVal) : EvalB ctx s [] true (subscriptGet a s) := by
  unfold Pfb.PyCore.subscriptGet
  split <;> first | exact EvalB.pure ctx s _ | exact EvalB.raiseOther ctx s _ _

theorem EvalB.getModAttr (ctx : Ctx) (s : XState) (id : Nat) (a : Str) : EvalB ctx s [] true (getModAttr id a s) := by
  unfold Pfb.PyCore.getModAttr
  split
  · exact EvalB.raiseOther ctx s _ _
  · split
    · exact EvalB.pure ctx s _
    · split
      · exact EvalB.errOnly ctx s _ _ _ _ (.attrError _) rfl rfl rfl rfl (fun n hn => nomatch hn)
      · exact EvalB.raiseOther ctx s _ _

theorem EvalB.getAttr (ctx : Ctx) (s : XState) (v : RVal) (a : Str) : EvalB ctx s [] true (getAttr v a s) := by
  cases v with
  | opq => exact EvalB.pure ctx s RVal.opq
  | mod id => exact EvalB.getModAttr ctx s id a
  | cls id =>
    show EvalB ctx s [] true (match assocGet a (s.classes.getD id []) with
        | some v => (s, .ok v)
        | none => Pfb.PyCore.raiseOther s)
    split
    · exact EvalB.pure ctx s _
    · exact EvalB.raiseOther ctx s _ _
  | rigid => exact EvalB.raiseOther (α := RVal) ctx s _ _
  | none => exact EvalB.raiseOther (α := RVal) ctx s _ _
  | bool _ => exact EvalB.raiseOther (α := RVal) ctx s _ _
  | seq _ => exact EvalB.raiseOther (α := RVal) ctx s _ _
  | func _ => exact EvalB.raiseOther (α := RVal) ctx s _ _

/-! ### dotted names -/

theorem splitDots_simple {n : Str} (h : n.contains '.' = false) : splitDots n = [n] := by
  induction n with
  | nil => rfl
  | cons c cs ih =>
    simp only [List.contains_cons, Bool.or_eq_false_iff, beq_eq_false_iff_ne, ne_eq] at h
    unfold splitDots
    have hc : ¬ c = '.' := fun hh => h.1 hh.symm
    rw [if_neg hc, ih h.2]

theorem simpleName_dotFree {n : Str} (h : simpleName n = true) : n.contains '.' = false := by
  simp only [simpleName, Bool.and_eq_true, Bool.not_eq_true'] at h
  exact h.1

theorem simpleName_split {n : Str} (h : simpleName n = true) : splitDots n = [n] :=
  splitDots_simple (simpleName_dotFree h)

theorem simpleName_ne_star {x : Str} (h : simpleName x = true) : x ≠ ['*'] := by
  simp only [simpleName, Bool.and_eq_true, bne_iff_ne, ne_eq] at h
  exact h.2

theorem headOf_simple {n : Str} (h : simpleName n = true) : headOf n = n := by
  unfold headOf; rw [simpleName_split h]; rfl

theorem splitDots_append_dot {p : Str} (hp : p.contains '.' = false) (rest : Str) :
    splitDots (p ++ '.' :: rest) = p :: splitDots rest := by
  induction p with
  | nil => simp [splitDots]
  | cons c cs ih =>
    simp only [List.contains_cons, Bool.or_eq_false_iff, beq_eq_false_iff_ne, ne_eq] at hp
    have hc : ¬ c = '.' := fun hh => hp.1 hh.symm
    simp only [List.cons_append]
    rw [splitDots, if_neg hc, ih hp.2]

theorem splitDots_joinDots : ∀ (ps : List Str), ps ≠ [] → (∀ p ∈ ps, p.contains '.' = false) → splitDots (joinDots ps) = ps
  | [], h, _ => absurd rfl h
  | [p], _, hp => by simp only [joinDots]; exact splitDots_simple (hp p (List.mem_singleton.mpr rfl))
  | p :: q :: r, _, hp => by
    simp only [joinDots]
    rw [splitDots_append_dot (hp p (List.mem_cons_self ..)),
        splitDots_joinDots (q :: r) (by simp) (fun x hx => hp x (List.mem_cons_of_mem _ hx))]

/-- the head name of an attribute chain -/
def chainHead : Expr → Option Str
  | .name n => some n
  | .attr e _ => chainHead e
  | _ => none

theorem dotted_chainHead : ∀ (e : Expr) (ps : List Str), e.dotted = some ps → ∃ h rest, ps = h :: rest ∧ chainHead e = some h
  | .name n, ps, h => by simp only [Expr.dotted, Option.some.injEq] at h; subst h; exact ⟨n, [], rfl, rfl⟩
  | .attr e a, ps, h => by
    simp only [Expr.dotted] at h
    cases he : e.dotted with
    | none => rw [he] at h; cases h
    | some ps' =>
      rw [he] at h
      simp only [Option.some.injEq] at h
      obtain ⟨h', rest, rfl, hc⟩ := dotted_chainHead e ps' he
      subst h
      exact ⟨h', rest ++ [a], rfl, hc⟩
  | .call _ _, _, h => by simp [Expr.dotted] at h
  | .const, _, h => by simp [Expr.dotted] at h
  | .bool _, _, h => by simp [Expr.dotted] at h
  | .str _, _, h => by simp [Expr.dotted] at h
  | .binop _ _, _, h => by simp [Expr.dotted] at h
  | .lambda _ _, _, h => by simp [Expr.dotted] at h
  | .comp _ _ _, _, h => by simp [Expr.dotted] at h
  | .ifExp _ _ _, _, h => by simp [Expr.dotted] at h
  | .tuple _, _, h => by simp [Expr.dotted] at h
  | .list _, _, h => by simp [Expr.dotted] at h
  | .subscript _ _, _, h => by simp [Expr.dotted] at h

theorem headOf_joinDots {h : Str} {rest : List Str} (hp : ∀ p ∈ h :: rest, simpleName p = true) :
    headOf (joinDots (h :: rest)) = h := by
  unfold headOf
  rw [splitDots_joinDots (h :: rest) (by simp) (fun p hp' => simpleName_dotFree (hp p hp'))]
  rfl

/-- evaluating an attribute chain reads its head name, then only attributes -/
theorem evalChain (ctx : Ctx) (hc : CtxOK ctx) : ∀ (e : Expr) (h : Str), chainHead e = some h →
    ∀ (f : Nat) (s : XState), EvalB ctx s [h] true (evalExpr f ctx e s)
  | .name n, h, hh, f, s => by
    simp only [chainHead, Option.some.injEq] at hh; subst hh
    cases f with
    | zero => rw [evalExpr]; exact EvalB.fuel ctx s _ _
    | succ f => simp only [evalExpr]; exact EvalB.readName ctx hc s n
  | .attr e a, h, hh, f, s => by
    simp only [chainHead] at hh
    cases f with
    | zero => rw [evalExpr]; exact EvalB.fuel ctx s _ _
    | succ f =>
      simp only [evalExpr]
      have := EvalB.bind (evalChain ctx hc e h hh f s) (fun v s' _ => EvalB.getAttr ctx s' v a)
      simpa using this
  | .call _ _, _, hh, _, _ => by simp [chainHead] at hh
  | .const, _, hh, _, _ => by simp [chainHead] at hh
  | .bool _, _, hh, _, _ => by simp [chainHead] at hh
  | .str _, _, hh, _, _ => by simp [chainHead] at hh
  | .binop _ _, _, hh, _, _ => by simp [chainHead] at hh
  | .lambda _ _, _, hh, _, _ => by simp [chainHead] at hh
  | .comp _ _ _, _, hh, _, _ => by simp [chainHead] at hh
  | .ifExp _ _ _, _, hh, _, _ => by simp [chainHead] at hh
  | .tuple _, _, hh, _, _ => by simp [chainHead] at hh
  | .list _, _, hh, _, _ => by simp [chainHead] at hh
  | .subscript _ _, _, hh, _, _ => by simp [chainHead] at hh

/-- heads of the dotted names an expression loads -/
def headsOf (e : Expr) : List Str := (loadsOf e).map headOf
def headsOfs (es : List Expr) : List Str := (loadsOfs es).map headOf

theorem evalB (ctx : Ctx) (hc : CtxOK ctx) (D : Bool) (f : Nat) :
    (∀ e s, fragBExpr D e = true → EvalB ctx s (headsOf e) (noIfExpr e) (evalExpr f ctx e s)) ∧
    (∀ es s, fragBExprs D es = true → EvalB ctx s (headsOfs es) (noIfExprs es) (evalExprs f ctx es s)) := by
  induction f with
  | zero =>
    constructor
    · intro e s _; rw [evalExpr]; exact EvalB.fuel ctx s _ _
    · intro es s _; rw [evalExprs]; exact EvalB.fuel ctx s _ _
  | succ f ih =>
    obtain ⟨ihe, ihes⟩ := ih
    constructor
    · intro e s hfr
      cases e with
      | name n =>
        simp only [evalExpr, headsOf, loadsOf, noIfExpr, List.map_cons, List.map_nil]
        rw [headOf_simple (by simpa [fragBExpr] using hfr)]
        exact EvalB.readName ctx hc s n
      | attr e a =>
        simp only [fragBExpr, Bool.and_eq_true] at hfr
        cases hd : (Expr.attr e a).dotted with
        | none => rw [hd] at hfr; simp at hfr
        | some ps =>
          rw [hd] at hfr
          obtain ⟨h, rest, rfl, hch⟩ := dotted_chainHead _ _ hd
          have hps : ∀ p ∈ h :: rest, simpleName p = true := by simpa [List.all_eq_true] using hfr.2
          simp only [headsOf, loadsOf, hd, noIfExpr, List.map_cons, List.map_nil, headOf_joinDots hps]
          exact evalChain ctx hc _ h hch (f + 1) s
      | const => simp only [evalExpr, headsOf, loadsOf, noIfExpr, List.map_nil]; exact EvalB.pure ctx s _
      | bool b => simp only [evalExpr, headsOf, loadsOf, noIfExpr, List.map_nil]; exact EvalB.pure ctx s _
      | str _ => simp only [evalExpr, headsOf, loadsOf, noIfExpr, List.map_nil]; exact EvalB.pure ctx s _
      | binop l r =>
        simp only [fragBExpr, Bool.and_eq_true] at hfr
        simp only [evalExpr, headsOf, loadsOf, noIfExpr, List.map_append]
        have h := EvalB.bind (ihe l s hfr.1) (fun a s' _ => EvalB.bind (ihe r s' hfr.2) (fun b s'' _ => EvalB.binop ctx s'' a b))
        simpa [headsOf] using h
      | subscript v i =>
        simp only [fragBExpr, Bool.and_eq_true] at hfr
        simp only [evalExpr, headsOf, loadsOf, noIfExpr, List.map_append]
        have h := EvalB.bind (ihe v s hfr.1) (fun a s' _ => EvalB.bind (ihe i s' hfr.2) (fun _ s'' _ => EvalB.subscriptGet ctx s'' a))
        simpa [headsOf] using h
      | tuple es =>
        simp only [fragBExpr] at hfr
        simp only [evalExpr, headsOf, loadsOf, noIfExpr]
        have h := EvalB.bind (ihes es s hfr) (fun vs s' _ => EvalB.pure ctx s' (RVal.seq vs))
        simpa [headsOfs] using h
      | list es =>
        simp only [fragBExpr] at hfr
        simp only [evalExpr, headsOf, loadsOf, noIfExpr]
        have h := EvalB.bind (ihes es s hfr) (fun vs s' _ => EvalB.pure ctx s' (RVal.seq vs))
        simpa [headsOfs] using h
      | ifExp t a b =>
        simp only [fragBExpr, Bool.and_eq_true] at hfr
        simp only [evalExpr, headsOf, loadsOf, noIfExpr, List.map_append]
        have hbr : ∀ (tv : RVal) (s' : XState), SameUpToLog s s' → EvalB ctx s' (headsOf a ++ headsOf b) false
            ((if truthy tv = true then evalExpr f ctx a else evalExpr f ctx b) s') := by
          intro tv s' _
          split
          · exact (ihe a s' hfr.1.2).mono (fun n hn => List.mem_append_left _ hn) false (fun h => by cases h)
          · exact (ihe b s' hfr.2).mono (fun n hn => List.mem_append_right _ hn) false (fun h => by cases h)
        have h := EvalB.bind (ihe t s hfr.1.1) hbr
        simpa [headsOf, List.append_assoc] using h
      | call _ _ => simp [fragBExpr] at hfr
      | lambda _ _ => simp [fragBExpr] at hfr
      | comp _ _ _ => simp [fragBExpr] at hfr
    · intro es s hfr
      cases es with
      | nil => simp only [evalExprs, headsOfs, loadsOfs, noIfExprs, List.map_nil]; exact EvalB.pure ctx s _
      | cons e es =>
        simp only [fragBExprs, Bool.and_eq_true] at hfr
        simp only [evalExprs, headsOfs, loadsOfs, noIfExprs, List.map_append]
        have h := EvalB.bind (ihe e s hfr.1) (fun v s' _ => EvalB.bind (ihes es s' hfr.2) (fun vs s'' _ => EvalB.pure ctx s'' (v :: vs)))
        simpa [headsOf, headsOfs] using h

/-! ### the needs-import decision on fragment-B names -/

def unboundA (st : AState) (n : Str) : Prop := ∀ i ∈ normIds st.stack.ids, (st.heap.get i).get n = none

def noStarA (st : AState) : Prop := hasStar st.heap st.stack.ids = false

/-- every (dotted) key bound somewhere in the stack has its head bound somewhere in the stack -/
def DK (st : AState) : Prop :=
  ∀ i ∈ normIds st.stack.ids, ∀ k v, (st.heap.get i).get k = some v →
    ∃ j ∈ normIds st.stack.ids, ∃ w, (st.heap.get j).get (headOf k) = some w

/-- no value bound in the stack is a registry entry -/
def RegDisjointS (reg : Registry) (st : AState) : Prop :=
  ∀ i ∈ normIds st.stack.ids, ∀ k v, (st.heap.get i).get k = some v → ∀ p, reg.get p ≠ some v

theorem splitDots_ne_nil (n : Str) : splitDots n ≠ [] := by
  cases n with
  | nil => simp [splitDots]
  | cons c cs =>
    unfold splitDots
    split
    · simp
    · split <;> simp

theorem prefixes_head {ps p : List Str} (h : p ∈ prefixes ps) : ∃ x r r', ps = x :: r ∧ p = x :: r' := by
  cases ps with
  | nil => simp [prefixes] at h
  | cons x r =>
    simp only [prefixes, List.mem_cons, List.mem_map] at h
    rcases h with rfl | ⟨q, _, rfl⟩
    · exact ⟨x, r, [], rfl, rfl⟩
    · exact ⟨x, r, q, rfl, rfl⟩

theorem prefixes_sub {ps p : List Str} (h : p ∈ prefixes ps) : ∀ x ∈ p, x ∈ ps := by
  obtain ⟨k, _, _, rfl⟩ := prefixes_mem h
  intro x hx; exact List.mem_of_mem_take hx

/-- a good dotted name whose head is bound nowhere needs import (given that dotted keys have bound heads) -/
theorem sni_unbound (reg : Registry) (st : AState) {d : Str} (hd : goodDotted d = true)
    (hu : unboundA st (headOf d)) (hdk : dotFree d = false → DK st) :
    (symbolNeedsImport reg st.heap st.stack.ids d).1 = true := by
  rw [symbolNeedsImport_spec]
  intro i hi p hp var hv
  exfalso
  have hall : ∀ x ∈ splitDots d, simpleName x = true := by simpa [goodDotted, List.all_eq_true] using hd
  obtain ⟨x, r, r', hps, hpx⟩ := prefixes_head hp
  have hhead : headOf d = x := by unfold headOf; rw [hps]; rfl
  have hpall : ∀ y ∈ x :: r', simpleName y = true := by
    intro y hy; rw [← hpx] at hy; exact hall y (prefixes_sub hp y hy)
  have hk : headOf (joinDots p) = x := by rw [hpx]; exact headOf_joinDots hpall
  by_cases hdf : dotFree d = true
  · -- `d` is a single identifier: the only prefix is `d` itself
    have hsd : splitDots d = [d] := splitDots_simple (by simpa [dotFree] using hdf)
    rw [hsd] at hp hps
    simp only [prefixes, List.map_nil, List.mem_singleton] at hp
    subst hp
    simp only [joinDots] at hv
    have hxd : x = d := by simp only [List.cons.injEq] at hps; exact hps.1.symm
    rw [hhead, hxd] at hu
    rw [hu i hi] at hv; cases hv
  · obtain ⟨j, hj, w, hw⟩ := hdk (by simpa using hdf) i hi _ var hv
    rw [hk, ← hhead] at hw
    rw [hu j hj] at hw; cases hw

/-- a good dotted name whose head is bound does not need import (given that bound values are not registry entries,
    which only matters when the name has more than one component) -/
theorem sni_bound (reg : Registry) (st : AState) {d : Str} (hd : goodDotted d = true)
    (hb : ¬ unboundA st (headOf d)) (hrd : dotFree d = false → RegDisjointS reg st) :
    (symbolNeedsImport reg st.heap st.stack.ids d).1 = false := by
  cases hsn : (symbolNeedsImport reg st.heap st.stack.ids d).1 with
  | false => rfl
  | true =>
    exfalso
    rw [symbolNeedsImport_spec] at hsn
    apply hb
    intro i hi
    cases hg : (st.heap.get i).get (headOf d) with
    | none => rfl
    | some var =>
      exfalso
      obtain ⟨x, r, hps⟩ : ∃ x r, splitDots d = x :: r := by
        cases h : splitDots d with
        | nil => exact absurd h (splitDots_ne_nil d)
        | cons x r => exact ⟨x, r, rfl⟩
      have hhead : headOf d = x := by unfold headOf; rw [hps]; rfl
      have hmem : [x] ∈ prefixes (splitDots d) := by rw [hps]; simp [prefixes]
      obtain ⟨pre, part, post, var', pname', hdrop, hf, hreg, _⟩ :=
        hsn i hi [x] hmem var (by simpa [joinDots, hhead] using hg)
      by_cases hdf : dotFree d = true
      · have hsd : splitDots d = [d] := splitDots_simple (by simpa [dotFree] using hdf)
        rw [hsd] at hdrop; simp at hdrop
      · have hrd' := hrd (by simpa using hdf) i hi _ var hg
        cases hf with
        | nil => exact hrd' _ hreg
        | cons h1 _ _ => exact hrd' _ h1

/-! ### the analysis of fragment-B expressions is a sequence of loads -/

mutual
  theorem cExpr_loads (fx : Fixes) (D : Bool) : ∀ e : Expr, fragBExpr D e = true → cExpr fx e = (loadsOf e).map Op.load
    | .name n, _ => by simp [cExpr, loadsOf]
    | .attr e a, h => by
      simp only [fragBExpr, Bool.and_eq_true] at h
      cases hd : (Expr.attr e a).dotted with
      | none => rw [hd] at h; simp at h
      | some ps => simp only [cExpr, loadsOf, hd, List.map_cons, List.map_nil]
    | .const, _ => by simp [cExpr, loadsOf]
    | .bool _, _ => by simp [cExpr, loadsOf]
    | .str _, _ => by simp [cExpr, loadsOf]
    | .binop l r, h => by
      simp only [fragBExpr, Bool.and_eq_true] at h
      simp only [cExpr, loadsOf, List.map_append, cExpr_loads fx D l h.1, cExpr_loads fx D r h.2]
    | .ifExp t a b, h => by
      simp only [fragBExpr, Bool.and_eq_true] at h
      simp only [cExpr, loadsOf, List.map_append, cExpr_loads fx D t h.1.1, cExpr_loads fx D a h.1.2, cExpr_loads fx D b h.2]
    | .tuple es, h => by simp only [fragBExpr] at h; simp only [cExpr, loadsOf, cExprs_loads fx D es h]
    | .list es, h => by simp only [fragBExpr] at h; simp only [cExpr, loadsOf, cExprs_loads fx D es h]
    | .subscript v i, h => by
      simp only [fragBExpr, Bool.and_eq_true] at h
      simp only [cExpr, loadsOf, List.map_append, cExpr_loads fx D v h.1, cExpr_loads fx D i h.2]
    | .call _ _, h => by simp [fragBExpr] at h
    | .lambda _ _, h => by simp [fragBExpr] at h
    | .comp _ _ _, h => by simp [fragBExpr] at h
  theorem cExprs_loads (fx : Fixes) (D : Bool) : ∀ es : List Expr, fragBExprs D es = true → cExprs fx es = (loadsOfs es).map Op.load
    | [], _ => by simp [cExprs, loadsOfs]
    | e :: es, h => by
      simp only [fragBExprs, Bool.and_eq_true] at h
      simp only [cExprs, loadsOfs, List.map_append, cExpr_loads fx D e h.1, cExprs_loads fx D es h.2]
end

mutual
  /-- every name loaded by a fragment-B expression is a good dotted name, dot-free unless `D` -/
  theorem loads_good (D : Bool) : ∀ e : Expr, fragBExpr D e = true →
      ∀ d ∈ loadsOf e, goodDotted d = true ∧ (D = false → dotFree d = true)
    | .name n, h, d, hd => by
      simp only [loadsOf, List.mem_singleton] at hd; subst hd
      have hs : simpleName d = true := by simpa [fragBExpr] using h
      refine ⟨by simp [goodDotted, simpleName_split hs, hs], fun _ => by simpa [dotFree] using simpleName_dotFree hs⟩
    | .attr e a, h, d, hd => by
      simp only [fragBExpr, Bool.and_eq_true] at h
      cases hdt : (Expr.attr e a).dotted with
      | none => rw [hdt] at h; simp at h
      | some ps =>
        rw [hdt] at h
        simp only [loadsOf, hdt, List.mem_singleton] at hd; subst hd
        obtain ⟨x, rest, rfl, _⟩ := dotted_chainHead _ _ hdt
        have hps : ∀ p ∈ x :: rest, simpleName p = true := by simpa [List.all_eq_true] using h.2
        refine ⟨?_, fun hD => by rw [hD] at h; simp at h⟩
        unfold goodDotted
        rw [splitDots_joinDots (x :: rest) (by simp) (fun p hp => simpleName_dotFree (hps p hp))]
        simpa [List.all_eq_true] using hps
    | .const, _, d, hd => by simp [loadsOf] at hd
    | .bool _, _, d, hd => by simp [loadsOf] at hd
    | .str _, _, d, hd => by simp [loadsOf] at hd
    | .binop l r, h, d, hd => by
      simp only [fragBExpr, Bool.and_eq_true] at h
      simp only [loadsOf, List.mem_append] at hd
      rcases hd with hd | hd
      · exact loads_good D l h.1 d hd
      · exact loads_good D r h.2 d hd
    | .ifExp t a b, h, d, hd => by
      simp only [fragBExpr, Bool.and_eq_true] at h
      simp only [loadsOf, List.mem_append] at hd
      rcases hd with (hd | hd) | hd
      · exact loads_good D t h.1.1 d hd
      · exact loads_good D a h.1.2 d hd
      · exact loads_good D b h.2 d hd
    | .tuple es, h, d, hd => by simp only [fragBExpr] at h; simp only [loadsOf] at hd; exact loadss_good D es h d hd
    | .list es, h, d, hd => by simp only [fragBExpr] at h; simp only [loadsOf] at hd; exact loadss_good D es h d hd
    | .subscript v i, h, d, hd => by
      simp only [fragBExpr, Bool.and_eq_true] at h
      simp only [loadsOf, List.mem_append] at hd
      rcases hd with hd | hd
      · exact loads_good D v h.1 d hd
      · exact loads_good D i h.2 d hd
    | .call _ _, h, _, _ => by simp [fragBExpr] at h
    | .lambda _ _, h, _, _ => by simp [fragBExpr] at h
    | .comp _ _ _, h, _, _ => by simp [fragBExpr] at h
  theorem loadss_good (D : Bool) : ∀ es : List Expr, fragBExprs D es = true →
      ∀ d ∈ loadsOfs es, goodDotted d = true ∧ (D = false → dotFree d = true)
    | [], _, d, hd => by simp [loadsOfs] at hd
    | e :: es, h, d, hd => by
      simp only [fragBExprs, Bool.and_eq_true] at h
      simp only [loadsOfs, List.mem_append] at hd
      rcases hd with hd | hd
      · exact loads_good D e h.1 d hd
      · exact loadss_good D es h.2 d hd
end

/-- what the module-level analysis of a list of loads does -/
structure AnaL (reg : Registry) (st st' : AState) (L : List Str) : Prop where
  heap : st'.heap = st.heap
  stack : st'.stack = st.stack
  inFunc : st'.inFunc = st.inFunc
  deferred : st'.deferred = st.deferred
  mono : ∀ m ∈ st.missing, m ∈ st'.missing
  found : ∀ d ∈ L, goodDotted d = true → unboundA st (headOf d) → (dotFree d = false → DK st) → noStarA st →
    ∃ m ∈ st'.missing, m.name = d
  same : (∀ d ∈ L, goodDotted d = true ∧ ¬ unboundA st (headOf d) ∧ (dotFree d = false → RegDisjointS reg st)) →
    st'.missing = st.missing

theorem AnaL.refl (reg : Registry) (st : AState) : AnaL reg st st [] :=
  ⟨rfl, rfl, rfl, rfl, fun _ h => h, fun _ h => by simp at h, fun _ => rfl⟩

theorem runOps_append (reg : Registry) (st : AState) (a b : List Op) :
    runOps reg st (a ++ b) = runOps reg (runOps reg st a) b := by
  simp [runOps, List.foldl_append]

theorem AnaL.trans {reg : Registry} {a b c : AState} {L1 L2 : List Str} (h1 : AnaL reg a b L1) (h2 : AnaL reg b c L2) :
    AnaL reg a c (L1 ++ L2) := by
  have hu : ∀ n, unboundA b n ↔ unboundA a n := by intro n; unfold unboundA; rw [h1.heap, h1.stack]
  have hs : noStarA b ↔ noStarA a := by unfold noStarA; rw [h1.heap, h1.stack]
  have hk : DK b ↔ DK a := by unfold DK; rw [h1.heap, h1.stack]
  have hr : RegDisjointS reg b ↔ RegDisjointS reg a := by unfold RegDisjointS; rw [h1.heap, h1.stack]
  refine ⟨by rw [h2.heap, h1.heap], by rw [h2.stack, h1.stack], by rw [h2.inFunc, h1.inFunc],
    by rw [h2.deferred, h1.deferred], fun m hm => h2.mono m (h1.mono m hm), ?_, ?_⟩
  · intro d hd hg hun hdk hns
    rcases List.mem_append.mp hd with hd | hd
    · obtain ⟨m, hm, hmn⟩ := h1.found d hd hg hun hdk hns
      exact ⟨m, h2.mono m hm, hmn⟩
    · exact h2.found d hd hg ((hu _).mpr hun) (fun h => hk.mpr (hdk h)) (hs.mpr hns)
  · intro hall
    rw [h2.same (fun d hd => by
          obtain ⟨g, hb, hr'⟩ := hall d (List.mem_append_right _ hd)
          exact ⟨g, fun hc => hb ((hu _).mp hc), fun h => hr.mpr (hr' h)⟩),
        h1.same (fun d hd => hall d (List.mem_append_left _ hd))]

theorem anaL_load (reg : Registry) (st : AState) (d : Str) (hf : st.inFunc = false) :
    AnaL reg st (runOps reg st [.load d]) [d] := by
  have hrun : runOps reg st [.load d] = checkLoad reg st d st.stack.ids st.line := by
    simp [runOps, step, hf]
  rw [hrun]
  unfold checkLoad
  dsimp only
  by_cases hneed : ((symbolNeedsImport reg st.heap st.stack.ids d).1 &&
      !hasStar (st.emit (symbolNeedsImport reg st.heap st.stack.ids d).2).heap st.stack.ids) = true
  · rw [if_pos hneed]
    split
    · rename_i hany
      refine ⟨rfl, rfl, rfl, rfl, fun _ h => h, ?_, fun _ => rfl⟩
      intro m hm _ _ _ _
      simp only [List.mem_singleton] at hm; subst hm
      simp only [AState.emit, List.any_eq_true, decide_eq_true_eq] at hany
      obtain ⟨x, hx, _, hxn⟩ := hany
      exact ⟨x, hx, hxn⟩
    · refine ⟨rfl, rfl, rfl, rfl, fun m h => List.mem_append_left _ h, ?_, ?_⟩
      · intro m hm _ _ _ _
        simp only [List.mem_singleton] at hm; subst hm
        exact ⟨_, List.mem_append_right _ (List.mem_singleton.mpr rfl), rfl⟩
      · intro hall
        exfalso
        obtain ⟨hg, hb, hr⟩ := hall d (List.mem_singleton.mpr rfl)
        simp only [Bool.and_eq_true] at hneed
        rw [sni_bound reg st hg hb hr] at hneed
        exact absurd hneed.1 (by simp)
  · rw [if_neg hneed]
    refine ⟨rfl, rfl, rfl, rfl, fun _ h => h, ?_, fun _ => rfl⟩
    intro m hm hg hun hdk hns
    simp only [List.mem_singleton] at hm; subst hm
    exfalso
    apply hneed
    simp only [Bool.and_eq_true, Bool.not_eq_true']
    exact ⟨sni_unbound reg st hg hun hdk, hns⟩

theorem anaL_loads (reg : Registry) : ∀ (L : List Str) (st : AState), st.inFunc = false →
    AnaL reg st (runOps reg st (L.map Op.load)) L
  | [], st, _ => AnaL.refl reg st
  | d :: L, st, hf => by
    have h1 := anaL_load reg st d hf
    have h2 := anaL_loads reg L (runOps reg st [.load d]) (by rw [h1.inFunc, hf])
    have : runOps reg st ((d :: L).map Op.load) = runOps reg (runOps reg st [.load d]) (L.map Op.load) := by
      rw [← runOps_append]; rfl
    rw [this]
    exact (h1.trans h2 : AnaL reg st _ ([d] ++ L))

/-! ### stores into the top scope -/

theorem assocGet_assocSet_eq {β} (k : Str) (v : β) (l : List (Str × β)) : assocGet k (assocSet k v l) = some v := by
  induction l with
  | nil => simp [assocSet, assocGet]
  | cons a r ih =>
    obtain ⟨k', v'⟩ := a
    unfold assocSet
    split
    · simp [assocGet]
    · rename_i hne; simp [assocGet, hne, ih]

theorem assocGet_assocSet_ne {β} {k n : Str} (h : n ≠ k) (v : β) (l : List (Str × β)) :
    assocGet n (assocSet k v l) = assocGet n l := by
  induction l with
  | nil => simp [assocSet, assocGet, Ne.symm h]
  | cons a r ih =>
    obtain ⟨k', v'⟩ := a
    unfold assocSet
    split
    · rename_i hk; subst hk; simp [assocGet, Ne.symm h]
    · simp only [assocGet]; split
      · rfl
      · exact ih

theorem scope_get_set_eq (sc : Scope) (x : Str) (v : Val) : (sc.set x v).get x = some v := by
  simp [Scope.get, Scope.set, assocGet_assocSet_eq]

theorem scope_get_set_ne (sc : Scope) {x n : Str} (h : n ≠ x) (v : Val) : (sc.set x v).get n = sc.get n := by
  simp [Scope.get, Scope.set, assocGet_assocSet_ne h]

/-- `keys.foldl storeTop st`: only the top cell changes, it gains exactly `keys` (bound to `None`) -/
theorem storeTop_get (st : AState) (htl : st.stack.top < st.heap.length) (k : Str) (i : Nat) (n : Str) :
    ((storeTop st k).heap.get i).get n = if i = st.stack.top ∧ n = k then some Val.none else (st.heap.get i).get n := by
  simp only [storeTop, Heap.get_update]
  by_cases hi : i = st.stack.top
  · subst hi
    simp only [htl, and_self, ↓reduceIte, true_and]
    by_cases hn : n = k
    · subst hn; simp [scope_get_set_eq]
    · rw [scope_get_set_ne _ hn]; simp [hn]
  · simp [hi]

theorem storeKeys_get : ∀ (keys : List Str) (st : AState), st.stack.top < st.heap.length →
    (keys.foldl storeTop st).stack = st.stack ∧ (keys.foldl storeTop st).heap.length = st.heap.length ∧
    (keys.foldl storeTop st).inFunc = st.inFunc ∧ (keys.foldl storeTop st).missing = st.missing ∧
    (keys.foldl storeTop st).deferred = st.deferred ∧
    ∀ i n, ((keys.foldl storeTop st).heap.get i).get n =
      if i = st.stack.top ∧ n ∈ keys then some Val.none else (st.heap.get i).get n
  | [], st, _ => ⟨rfl, rfl, rfl, rfl, rfl, fun i n => by simp⟩
  | k :: ks, st, htl => by
    have hl : (storeTop st k).heap.length = st.heap.length := by simp [storeTop, Heap.length_update]
    obtain ⟨h1, h2, h3, h4, h5, h6⟩ := storeKeys_get ks (storeTop st k) (by rw [hl]; exact htl)
    simp only [List.foldl_cons]
    refine ⟨h1, h2.trans hl, h3, h4, h5, fun i n => ?_⟩
    rw [h6, storeTop_get st htl]
    have ht : (storeTop st k).stack.top = st.stack.top := rfl
    rw [ht]
    by_cases hi : i = st.stack.top
    · by_cases hn : n ∈ ks
      · simp [hi, hn]
      · by_cases hk : n = k
        · simp [hi, hk]
        · simp [hi, hn, hk]
    · simp [hi]

/-! ### the correspondence between a run-time state and an analysis state at module level -/

structure Corr (D : Bool) (s : XState) (st : AState) : Prop where
  names : ∀ n, simpleName n = true → (unboundX s n ↔ unboundA st n)
  noStar : noStarA st
  ne : ∀ n ∈ s.ne, ∃ m ∈ st.missing, headOf m.name = n ∧ (D = false → m.name = n)
  inFunc : st.inFunc = false
  topMem : st.stack.top ∈ normIds st.stack.ids
  topLt : st.stack.top < st.heap.length
  dk : D = true → DK st

/-- for precision of dotted reads: bound values are not registry entries, and `None` is not a registry entry -/
def RD (D : Bool) (reg : Registry) (st : AState) : Prop :=
  D = true → (RegDisjointS reg st ∧ ∀ p, reg.get p ≠ some Val.none)

theorem Corr.ana {D : Bool} {reg : Registry} {s : XState} {st st' : AState} {L : List Str}
    (h : Corr D s st) (a : AnaL reg st st' L) : Corr D s st' := by
  refine ⟨?_, ?_, ?_, by rw [a.inFunc]; exact h.inFunc, by rw [a.stack]; exact h.topMem,
    by rw [a.stack, a.heap]; exact h.topLt, fun hD => ?_⟩
  · intro n hn; rw [h.names n hn]; unfold unboundA; rw [a.heap, a.stack]
  · unfold noStarA; rw [a.heap, a.stack]; exact h.noStar
  · intro n hn; obtain ⟨m, hm, hmn⟩ := h.ne n hn; exact ⟨m, a.mono m hm, hmn⟩
  · have := h.dk hD; unfold DK at *; rw [a.heap, a.stack]; exact this

theorem Corr.same {D : Bool} {s s' : XState} {st : AState} (h : Corr D s st) (hs : SameUpToLog s s') (hne : s'.ne = s.ne) :
    Corr D s' st :=
  ⟨fun n hn => by rw [hs.unbound]; exact h.names n hn, h.noStar, by rw [hne]; exact h.ne, h.inFunc, h.topMem, h.topLt, h.dk⟩

theorem RD.ana {D : Bool} {reg : Registry} {st st' : AState} {L : List Str} (h : RD D reg st) (a : AnaL reg st st' L) :
    RD D reg st' := by
  intro hD; obtain ⟨h1, h2⟩ := h hD
  refine ⟨?_, h2⟩
  unfold RegDisjointS at *; rw [a.heap, a.stack]; exact h1

theorem mem_addOnce {n m : Str} {l : List Str} (h : m ∈ addOnce n l) : m ∈ l ∨ m = n := by
  unfold addOnce at h
  split at h
  · exact .inl h
  · rcases List.mem_append.mp h with h | h
    · exact .inl h
    · exact .inr (by simpa using h)

theorem headOf_good {d : Str} (h : goodDotted d = true) : simpleName (headOf d) = true := by
  unfold goodDotted at h
  unfold headOf
  cases hs : splitDots d with
  | nil => exact absurd hs (splitDots_ne_nil d)
  | cons x r => rw [hs] at h; simp only [List.all_cons, Bool.and_eq_true] at h; exact h.1

/-- evaluating and analysing one fragment-B expression at module level, in lock step -/
theorem corr_expr (fx : Fixes) (reg : Registry) {D : Bool} {s : XState} {st : AState} (h : Corr D s st) (f : Nat) (e : Expr)
    (hfr : fragBExpr D e = true) :
    AnaL reg st (runOps reg st (cExpr fx e)) (loadsOf e) ∧
    SameUpToLog s (evalExpr f {} e s).1 ∧
    (∀ n ∈ (evalExpr f {} e s).1.ne, ∃ m ∈ (runOps reg st (cExpr fx e)).missing,
        headOf m.name = n ∧ (D = false → m.name = n)) ∧
    (∀ v, (evalExpr f {} e s).2 = .ok v → (evalExpr f {} e s).1.ne = s.ne ∧
        (noIfExpr e = true → RD D reg st → (runOps reg st (cExpr fx e)).missing = st.missing)) := by
  have hA : AnaL reg st (runOps reg st (cExpr fx e)) (loadsOf e) := by
    rw [cExpr_loads fx D e hfr]; exact anaL_loads reg _ st h.inFunc
  have hE := (evalB {} (by simp [CtxOK]) D f).1 e s hfr
  have hgood := loads_good D e hfr
  have hdk : ∀ d ∈ loadsOf e, dotFree d = false → DK st := by
    intro d hd hdf
    apply h.dk
    cases D with
    | true => rfl
    | false => have := (hgood d hd).2 rfl; rw [this] at hdf; cases hdf
  refine ⟨hA, hE.same, ?_, ?_⟩
  · intro n hn
    cases hr : (evalExpr f {} e s).2 with
    | ok v =>
      rw [(hE.ok v hr).1] at hn
      obtain ⟨m, hm, hmn⟩ := h.ne n hn
      exact ⟨m, hA.mono m hm, hmn⟩
    | error x =>
      rcases hE.err x hr with ⟨n', _, hne, hmem, hu⟩ | ⟨_, hne⟩
      · rw [hne] at hn
        rcases mem_addOnce hn with hn | rfl
        · obtain ⟨m, hm, hmn⟩ := h.ne n hn
          exact ⟨m, hA.mono m hm, hmn⟩
        · simp only [headsOf, List.mem_map] at hmem
          obtain ⟨d, hd, rfl⟩ := hmem
          have hg := (hgood d hd).1
          obtain ⟨m, hm, hmn⟩ := hA.found d hd hg ((h.names _ (headOf_good hg)).mp hu.2) (hdk d hd) h.noStar
          refine ⟨m, hm, by rw [hmn], fun hD => ?_⟩
          have hdf := (hgood d hd).2 hD
          rw [hmn]; unfold headOf; rw [splitDots_simple (by simpa [dotFree] using hdf)]; rfl
      · rw [hne] at hn
        obtain ⟨m, hm, hmn⟩ := h.ne n hn
        exact ⟨m, hA.mono m hm, hmn⟩
  · intro v hv
    refine ⟨(hE.ok v hv).1, fun hno hrd => ?_⟩
    apply hA.same
    intro d hd
    have hg := (hgood d hd).1
    refine ⟨hg, fun hun => ?_, fun hdf => ?_⟩
    · refine (hE.ok v hv).2 hno (headOf d) (by simp only [headsOf, List.mem_map]; exact ⟨d, hd, rfl⟩) ⟨by simp [isGlobalIn], ?_⟩
      exact (h.names _ (headOf_good hg)).mpr hun
    · apply (hrd _).1
      cases D with
      | true => rfl
      | false => have := (hgood d hd).2 rfl; rw [this] at hdf; cases hdf

/-! ### import statements in the reference semantics (module level) -/

/-- `s'` = `s` with the names `B` (additionally) bound in the globals; records of exceptions unchanged -/
structure GlobExt (s s' : XState) (B : List Str) : Prop where
  builtins : s'.builtins = s.builtins
  glob : ∀ n, assocGet n s'.globals = none ↔ (assocGet n s.globals = none ∧ n ∉ B)
  funcs : s'.funcs = s.funcs
  cells : s'.cells = s.cells
  usedImps : s'.usedImps = s.usedImps
  line : s'.line = s.line
  atEnd : s'.atEnd = s.atEnd
  early : s'.early = s.early

theorem GlobExt.refl (s : XState) : GlobExt s s [] :=
  ⟨rfl, fun n => by simp, rfl, rfl, rfl, rfl, rfl, rfl⟩

theorem GlobExt.trans {a b c : XState} {B1 B2 : List Str} (h1 : GlobExt a b B1) (h2 : GlobExt b c B2) : GlobExt a c (B1 ++ B2) :=
  ⟨h2.builtins.trans h1.builtins, fun n => by rw [h2.glob, h1.glob]; simp [and_assoc], h2.funcs.trans h1.funcs,
   h2.cells.trans h1.cells, h2.usedImps.trans h1.usedImps, h2.line.trans h1.line, h2.atEnd.trans h1.atEnd,
   h2.early.trans h1.early⟩

theorem GlobExt.unbound {s s' : XState} {B : List Str} (h : GlobExt s s' B) (n : Str) :
    unboundX s' n ↔ (unboundX s n ∧ n ∉ B) := by
  unfold unboundX; rw [h.glob, h.builtins]
  constructor
  · rintro ⟨⟨a, b⟩, c⟩; exact ⟨⟨a, c⟩, b⟩
  · rintro ⟨⟨a, c⟩, b⟩; exact ⟨⟨a, b⟩, c⟩

/-- a computation that never touches the record of NameErrors and, when it succeeds, binds exactly `B` -/
def ImpOK {α} (m : X α) (B : List Str) : Prop :=
  ∀ s, (m s).1.ne = s.ne ∧ (∀ a, (m s).2 = .ok a → GlobExt s (m s).1 B)

theorem ImpOK.pure {α} (a : α) : ImpOK (Pure.pure a : X α) [] := fun s => ⟨rfl, fun _ _ => GlobExt.refl s⟩

theorem ImpOK.bind {α β} {m : X α} {f : α → X β} {B1 B2 : List Str} (h1 : ImpOK m B1) (h2 : ∀ a, ImpOK (f a) B2) :
    ImpOK (m >>= f) (B1 ++ B2) := by
  intro s
  rw [X.bind_def]
  obtain ⟨hne, hok⟩ := h1 s
  cases hm : m s with
  | mk s' r =>
    rw [hm] at hne hok
    cases r with
    | error e => exact ⟨hne, fun a ha => by cases ha⟩
    | ok a =>
      simp only
      obtain ⟨hne2, hok2⟩ := h2 a s'
      exact ⟨hne2.trans hne, fun b hb => (hok a rfl).trans (hok2 b hb)⟩

theorem ImpOK.mono {α} {m : X α} {B B' : List Str} (h : ImpOK m B) (hb : ∀ n, n ∈ B ↔ n ∈ B') : ImpOK m B' := by
  intro s
  obtain ⟨h1, h2⟩ := h s
  refine ⟨h1, fun a ha => ?_⟩
  have g := h2 a ha
  exact { g with glob := fun n => by rw [g.glob, hb] }

theorem ImpOK.raiseOther {α} {B : List Str} : ImpOK (raiseOther : X α) B := fun _ => ⟨rfl, fun _ h => by cases h⟩
theorem ImpOK.fuel {α} {B : List Str} : ImpOK (X.throw .fuel : X α) B := fun _ => ⟨rfl, fun _ h => by cases h⟩
theorem ImpOK.get : ImpOK X.get [] := fun s => ⟨rfl, fun _ _ => GlobExt.refl s⟩

theorem ImpOK.loadModule (d : Str) : ImpOK (loadModule d) [] := by
  intro s
  unfold Pfb.PyCore.loadModule
  split
  · exact ⟨rfl, fun _ _ => GlobExt.refl s⟩
  · dsimp only
    split
    · exact ⟨rfl, fun _ h => by cases h⟩
    · split
      · exact ⟨rfl, fun _ _ => ⟨rfl, fun n => by simp, rfl, rfl, rfl, rfl, rfl, rfl⟩⟩
      · split
        · exact ⟨rfl, fun _ _ => ⟨rfl, fun n => by simp, rfl, rfl, rfl, rfl, rfl, rfl⟩⟩
        · exact ⟨rfl, fun _ _ => ⟨rfl, fun n => by simp, rfl, rfl, rfl, rfl, rfl, rfl⟩⟩

theorem ImpOK.importChain : ∀ (ps : List (List Str)) (top : Option Nat), ImpOK (importChain ps top) []
  | [], top => by simp only [Pfb.PyCore.importChain]; exact ImpOK.pure _
  | [p], top => by
    simp only [Pfb.PyCore.importChain]
    exact (ImpOK.bind (ImpOK.loadModule _) (fun _ => ImpOK.pure _) : ImpOK _ ([] ++ []))
  | p :: q :: r, top => by
    simp only [Pfb.PyCore.importChain]
    exact (ImpOK.bind (ImpOK.loadModule _) (fun _ => ImpOK.importChain (q :: r) _) : ImpOK _ ([] ++ []))

theorem ImpOK.bindImport (n : Str) (v : RVal) (idx : Nat) : ImpOK (bindImport {} n v idx) [n] := by
  intro s
  refine ⟨rfl, fun _ _ => ⟨rfl, fun m => ?_, rfl, rfl, rfl, rfl, rfl, rfl⟩⟩
  show assocGet m (assocSet n v s.globals) = none ↔ _
  by_cases hm : m = n
  · subst hm; simp [assocGet_assocSet_eq]
  · rw [assocGet_assocSet_ne hm]; simp [hm]

theorem ImpOK.bindAlias (a : Alias) (tl : Option Nat × Option Nat) (idx : Nat) :
    ImpOK (Pfb.PyCore.bindAlias {} a tl idx) [aliasBinds a] := by
  unfold Pfb.PyCore.bindAlias
  split
  · rename_i n _ _ hn
    have : aliasBinds a = n := by simp [aliasBinds, hn]
    rw [this]; exact ImpOK.bindImport _ _ _
  · exact ImpOK.bindImport _ _ _
  · exact fun s => ⟨rfl, fun _ h => by cases h⟩

theorem ImpOK.fromValue (s0 : XState) (m : Str) (leaf : Nat) (a : Alias) : ImpOK (Pfb.PyCore.fromValue s0 m leaf a) [] := by
  unfold Pfb.PyCore.fromValue
  split
  · exact ImpOK.pure _
  · split
    · exact (ImpOK.bind (ImpOK.loadModule _) (fun _ => ImpOK.pure _) : ImpOK _ ([] ++ []))
    · exact ImpOK.raiseOther

theorem ImpOK.importAliases : ∀ (f idx : Nat) (names : List Alias),
    ImpOK (importAliases f {} idx names) (names.map aliasBinds)
  | 0, _, _ => by
    rw [Pfb.PyCore.importAliases]
    exact fun s => ⟨rfl, fun _ h => by cases h⟩
  | _ + 1, _, [] => by simp only [Pfb.PyCore.importAliases, List.map_nil]; exact ImpOK.pure _
  | f + 1, idx, a :: r => by
    simp only [Pfb.PyCore.importAliases, List.map_cons]
    have := ImpOK.bind (ImpOK.importChain (prefixes (splitDots a.name)) none)
      (fun tl => ImpOK.bind (ImpOK.bindAlias a tl idx) (fun _ => ImpOK.importAliases f (idx + 1) r))
    simpa using this

theorem ImpOK.importFromAliases (m : Str) (leaf : Nat) : ∀ (f idx : Nat) (names : List Alias),
    ImpOK (importFromAliases f {} m leaf idx names) (names.map aliasBinds)
  | 0, _, _ => by
    rw [Pfb.PyCore.importFromAliases]
    exact fun s => ⟨rfl, fun _ h => by cases h⟩
  | _ + 1, _, [] => by simp only [Pfb.PyCore.importFromAliases, List.map_nil]; exact ImpOK.pure _
  | f + 1, idx, a :: r => by
    simp only [Pfb.PyCore.importFromAliases, List.map_cons]
    have := ImpOK.bind ImpOK.get (fun s0 => ImpOK.bind (ImpOK.fromValue s0 m leaf a)
      (fun v => ImpOK.bind (ImpOK.bindImport (aliasBinds a) v idx) (fun _ => ImpOK.importFromAliases m leaf f (idx + 1) r)))
    simpa using this

/-! ### keys stored by an import alias -/

theorem joinDots_cons_head (c : Char) (l : Str) (ls : List Str) : joinDots ((c :: l) :: ls) = c :: joinDots (l :: ls) := by
  cases ls <;> simp [joinDots]

theorem joinDots_splitDots : ∀ d : Str, joinDots (splitDots d) = d
  | [] => rfl
  | c :: cs => by
    have ih := joinDots_splitDots cs
    unfold splitDots
    split
    · rename_i hc
      have hne := splitDots_ne_nil cs
      cases hsd : splitDots cs with
      | nil => exact absurd hsd hne
      | cons l ls => rw [hsd] at ih; simp only [joinDots, List.nil_append, ih, hc]
    · cases hsd : splitDots cs with
      | nil => exact absurd hsd (splitDots_ne_nil cs)
      | cons l ls => rw [hsd] at ih; simp only [joinDots_cons_head, ih]

theorem prefixes_last : ∀ (ps : List Str), ps ≠ [] → prefixes ps = (prefixes ps).dropLast ++ [ps]
  | [], h => absurd rfl h
  | [p], _ => by simp [prefixes]
  | p :: q :: r, _ => by
    have ih := prefixes_last (q :: r) (by simp)
    have hne : (prefixes (q :: r)).map (fun x => p :: x) ≠ [] := by simp [prefixes]
    have h2 := congrArg (List.map (fun x => p :: x)) ih
    rw [List.map_append, List.map_dropLast] at h2
    show [p] :: (prefixes (q :: r)).map (fun x => p :: x) = ([p] :: (prefixes (q :: r)).map (fun x => p :: x)).dropLast ++ [p :: q :: r]
    rw [List.dropLast_cons_of_ne_nil hne, List.cons_append]
    simp only [List.map_cons, List.map_nil] at h2
    rw [← h2]

/-- the keys `_visit_StoreImport` stores for one alias -/
def keysOf (a : Alias) : List Str :=
  (if a.asname.isNone ∧ a.name ≠ ['*'] then ((prefixes (splitDots a.name)).dropLast).map joinDots else [])
    ++ [a.asname.getD a.name]

theorem keysOf_noAs {a : Alias} (has : a.asname = none) (hstar : a.name ≠ ['*']) :
    keysOf a = (prefixes (splitDots a.name)).map joinDots := by
  unfold keysOf
  simp only [has, Option.isNone_none, hstar, ne_eq, not_false_eq_true, and_self, ↓reduceIte, Option.getD_none]
  have h := congrArg (List.map joinDots) (prefixes_last _ (splitDots_ne_nil a.name))
  rw [List.map_append, List.map_dropLast] at h
  rw [h]
  simp [joinDots_splitDots, List.map_dropLast]

/-- the three facts about the keys of an admissible alias -/
theorem keysOf_facts {a : Alias} (hparts : ∀ p ∈ splitDots a.name, simpleName p = true)
    (has : ∀ n, a.asname = some n → simpleName n = true) :
    (∀ n, simpleName n = true → (n ∈ keysOf a ↔ n = aliasBinds a)) ∧ ['*'] ∉ keysOf a ∧
    (∀ k ∈ keysOf a, headOf k ∈ keysOf a) ∧ ((dotFree a.name = true ∨ a.asname.isSome) → ∀ k ∈ keysOf a, dotFree k = true) := by
  cases hasn : a.asname with
  | some n =>
    have hn := has n hasn
    have hk : keysOf a = [n] := by simp [keysOf, hasn]
    have hb : aliasBinds a = n := by simp [aliasBinds, hasn]
    rw [hk, hb]
    refine ⟨fun m _ => by simp, ?_, ?_, ?_⟩
    · simp only [List.mem_singleton]; exact fun h => simpleName_ne_star hn h.symm
    · intro k hk'; simp only [List.mem_singleton] at hk'; subst hk'; simp [headOf_simple hn]
    · intro _ k hk'; simp only [List.mem_singleton] at hk'; subst hk'; simpa [dotFree] using simpleName_dotFree hn
  | none =>
    obtain ⟨x, rest, hps⟩ : ∃ x rest, splitDots a.name = x :: rest := by
      cases h : splitDots a.name with
      | nil => exact absurd h (splitDots_ne_nil _)
      | cons x r => exact ⟨x, r, rfl⟩
    have hx : simpleName x = true := hparts x (by rw [hps]; simp)
    have hstar : a.name ≠ ['*'] := by
      intro hc
      have : splitDots a.name = [['*']] := by rw [hc]; decide
      rw [this] at hps
      simp only [List.cons.injEq] at hps
      rw [← hps.1] at hx
      exact absurd hx (by decide)
    rw [keysOf_noAs hasn hstar]
    have hb : aliasBinds a = x := by simp [aliasBinds, hasn, hps]
    have hpk : ∀ p ∈ prefixes (splitDots a.name), ∃ r', p = x :: r' ∧ ∀ y ∈ x :: r', simpleName y = true := by
      intro p hp
      obtain ⟨x', r, r', h1, h2⟩ := prefixes_head hp
      rw [hps] at h1
      simp only [List.cons.injEq] at h1
      refine ⟨r', by rw [h2, h1.1], fun y hy => hparts y (prefixes_sub hp y (by rw [h2, ← h1.1]; exact hy))⟩
    have hxmem : x ∈ (prefixes (splitDots a.name)).map joinDots := by
      rw [hps]; simp only [prefixes, List.map_cons, List.mem_cons]; exact .inl (by simp [joinDots])
    refine ⟨fun n hn => ?_, ?_, ?_, ?_⟩
    · rw [hb]
      constructor
      · intro hm
        simp only [List.mem_map] at hm
        obtain ⟨p, hp, rfl⟩ := hm
        obtain ⟨r', rfl, hall⟩ := hpk p hp
        have h1 := splitDots_joinDots (x :: r') (by simp) (fun y hy => simpleName_dotFree (hall y hy))
        rw [simpleName_split hn] at h1
        simp only [List.cons.injEq] at h1
        rw [← h1.2] ; simp [joinDots]
      · intro h; rw [h]; exact hxmem
    · intro hm
      simp only [List.mem_map] at hm
      obtain ⟨p, hp, hj⟩ := hm
      obtain ⟨r', rfl, hall⟩ := hpk p hp
      have h1 := splitDots_joinDots (x :: r') (by simp) (fun y hy => simpleName_dotFree (hall y hy))
      rw [hj] at h1
      have : splitDots ['*'] = [['*']] := by decide
      rw [this] at h1
      simp only [List.cons.injEq] at h1
      rw [← h1.1] at hx
      exact absurd hx (by decide)
    · intro k hk
      simp only [List.mem_map] at hk
      obtain ⟨p, hp, rfl⟩ := hk
      obtain ⟨r', rfl, hall⟩ := hpk p hp
      rw [headOf_joinDots hall]; exact hxmem
    · intro hd k hk
      rcases hd with hd | hd
      · have hsd : splitDots a.name = [a.name] := splitDots_simple (by simpa [dotFree] using hd)
        rw [hsd] at hk
        simp only [prefixes, List.map_nil, List.map_cons, joinDots, List.mem_singleton] at hk
        rw [hk]; exact hd
      · simp [hasn] at hd

def aliasKeys : List Alias → List Str
  | [] => []
  | a :: r => keysOf a ++ aliasKeys r

theorem runOps_cAliases (reg : Registry) (m : Option Str) : ∀ (names : List Alias) (idx : Nat) (st : AState),
    runOps reg st (cAliases m idx names) = (aliasKeys names).foldl storeTop st
  | [], _, st => rfl
  | a :: r, idx, st => by
    simp only [cAliases, aliasKeys, List.foldl_append]
    rw [PyCore.runOps_cons]
    rw [runOps_cAliases reg m r (idx + 1)]
    rfl

/-! ### binding names on both sides keeps the correspondence -/

theorem corr_storeKeys {D : Bool} {reg : Registry} {s s2 : XState} {st1 st2 : AState} (h : Corr D s st1)
    (keys B : List Str)
    (hX : ∀ n, unboundX s2 n ↔ (unboundX s n ∧ n ∉ B)) (hne : s2.ne = s.ne)
    (hkeys : ∀ n, simpleName n = true → (n ∈ keys ↔ n ∈ B))
    (hstar : ['*'] ∉ keys)
    (hheads : D = true → ∀ k ∈ keys, headOf k ∈ keys)
    (hstack : st2.stack = st1.stack) (hlen : st1.heap.length ≤ st2.heap.length) (hf : st2.inFunc = false)
    (hmiss : st2.missing = st1.missing)
    (hget : ∀ i ∈ normIds st1.stack.ids, ∀ n, (st2.heap.get i).get n =
      if i = st1.stack.top ∧ n ∈ keys then some Val.none else (st1.heap.get i).get n) :
    Corr D s2 st2 ∧ (RD D reg st1 → RD D reg st2) := by
  have hunb : ∀ n, unboundA st2 n ↔ (unboundA st1 n ∧ n ∉ keys) := by
    intro n
    unfold unboundA
    rw [hstack]
    constructor
    · intro hu
      have hnk : n ∉ keys := by
        intro hk
        have := hu st1.stack.top h.topMem
        rw [hget _ h.topMem] at this; simp [hk] at this
      refine ⟨fun i hi => ?_, hnk⟩
      have := hu i hi
      rw [hget i hi] at this; simpa [hnk] using this
    · rintro ⟨hu, hnk⟩ i hi
      rw [hget i hi]; simp [hnk, hu i hi]
  constructor
  · refine ⟨?_, ?_, ?_, hf, by rw [hstack]; exact h.topMem, by rw [hstack]; exact Nat.lt_of_lt_of_le h.topLt hlen, fun hD => ?_⟩
    · intro n hn
      rw [hX, hunb, h.names n hn, hkeys n hn]
    · have hstar0 := h.noStar
      unfold noStarA hasStar at hstar0 ⊢
      rw [hstack]
      rw [List.any_eq_false] at hstar0 ⊢
      intro i hi
      have := hstar0 i hi
      rw [hget i (mem_normIds_iff.mpr (.inr (.inr hi)))]; simpa [hstar] using this
    · intro n hn; rw [hmiss]; rw [hne] at hn; exact h.ne n hn
    · have hdk := h.dk hD
      intro i hi k v hv
      rw [hstack] at hi
      rw [hget i hi] at hv
      by_cases hc : i = st1.stack.top ∧ k ∈ keys
      · refine ⟨st1.stack.top, by rw [hstack]; exact h.topMem, Val.none, ?_⟩
        rw [hget _ h.topMem]; simp [hheads hD k hc.2]
      · rw [if_neg hc] at hv
        obtain ⟨j, hj, w, hw⟩ := hdk i hi k v hv
        refine ⟨j, by rw [hstack]; exact hj, ?_⟩
        rw [hget j hj]
        by_cases hc2 : j = st1.stack.top ∧ headOf k ∈ keys
        · exact ⟨Val.none, by simp [hc2]⟩
        · exact ⟨w, by rw [if_neg hc2]; exact hw⟩
  · intro hrd hD
    obtain ⟨h1, h2⟩ := hrd hD
    refine ⟨?_, h2⟩
    intro i hi k v hv p
    rw [hstack] at hi
    rw [hget i hi] at hv
    by_cases hc : i = st1.stack.top ∧ k ∈ keys
    · rw [if_pos hc] at hv; cases hv; exact h2 p
    · rw [if_neg hc] at hv; exact h1 i hi k v hv p

theorem Corr.setLine {D : Bool} {s : XState} {st : AState} (h : Corr D s st) (l : Nat) : Corr D s { st with line := l } :=
  ⟨h.names, h.noStar, h.ne, h.inFunc, h.topMem, h.topLt, h.dk⟩

/-! ### statements -/

theorem runOps_setLine (reg : Registry) (st : AState) (l : Nat) (ops : List Op) :
    runOps reg st (.setLine l :: ops) = runOps reg { st with line := l } ops := rfl

theorem foldl_deferGlobal_shape (reg : Registry) : ∀ (ns : List Str) (st : AState),
    (ns.foldl (deferGlobal reg) st).heap = st.heap ∧ (ns.foldl (deferGlobal reg) st).stack = st.stack ∧
    (ns.foldl (deferGlobal reg) st).inFunc = st.inFunc ∧ (ns.foldl (deferGlobal reg) st).missing = st.missing
  | [], _ => ⟨rfl, rfl, rfl, rfl⟩
  | a :: r, st => by
    simp only [List.foldl_cons]
    have h1 : (deferGlobal reg st a).heap = st.heap ∧ (deferGlobal reg st a).stack = st.stack ∧
        (deferGlobal reg st a).inFunc = st.inFunc ∧ (deferGlobal reg st a).missing = st.missing := by
      unfold deferGlobal; dsimp only; split <;> exact ⟨rfl, rfl, rfl, rfl⟩
    obtain ⟨i1, i2, i3, i4⟩ := foldl_deferGlobal_shape reg r (deferGlobal reg st a)
    exact ⟨i1.trans h1.1, i2.trans h1.2.1, i3.trans h1.2.2.1, i4.trans h1.2.2.2⟩

theorem cAll_cases (x : Str) (e : Expr) :
    cAll [Expr.name x] e = [] ∨ (x = "__all__".toList ∧ ∃ ns, cAll [Expr.name x] e = [Op.allNames ns]) := by
  unfold cAll
  simp only [singleName]
  split
  · rename_i n es h1 _
    cases h1
    split
    · rename_i hx
      split
      · exact .inr ⟨hx, _, rfl⟩
      · exact .inl rfl
    · exact .inl rfl
  · exact .inl rfl

/-- the analysis of `x = e` after the value has been visited: store, then possibly `__all__` bookkeeping -/
theorem assign_tail (fx : Fixes) (reg : Registry) (st : AState) (x : Str) (e : Expr) (hf : st.inFunc = false) :
    let tail := cTargets fx [Expr.name x] ++ cAll [Expr.name x] e
    (runOps reg st tail).heap = (storeTop st x).heap ∧ (runOps reg st tail).stack = st.stack ∧
    (runOps reg st tail).inFunc = false ∧ (runOps reg st tail).missing = st.missing ∧
    (x ≠ "__all__".toList → (runOps reg st tail).deferred = st.deferred) := by
  intro tail
  have hst : runOps reg st (cTargets fx [Expr.name x]) = storeTop st x := by
    simp [cTargets, cTarget, runOps, step]
  rcases cAll_cases x e with h0 | ⟨hx, ns, h1⟩
  · have : tail = cTargets fx [Expr.name x] := by simp only [tail, h0, List.append_nil]
    rw [this, hst]
    exact ⟨rfl, rfl, hf, rfl, fun _ => rfl⟩
  · have : tail = cTargets fx [Expr.name x] ++ [Op.allNames ns] := by simp only [tail, h1]
    rw [this, runOps_append, hst]
    have hrun : runOps reg (storeTop st x) [.allNames ns] = ns.foldl (deferGlobal reg) (storeTop st x) := by
      have : (storeTop st x).inFunc = false := hf
      simp [runOps, step, this]
    rw [hrun]
    obtain ⟨a1, a2, a3, a4⟩ := foldl_deferGlobal_shape reg ns (storeTop st x)
    exact ⟨a1, a2, a3.trans hf, a4, fun hne => absurd hx hne⟩

/-- `x = v` in the reference semantics at module level: binds `x` in the globals, or runs out of fuel -/
theorem assignAll_name (f : Nat) (x : Str) (v : RVal) (s : XState) :
    (assignAll f {} [.name x] v s =
      ({ s with globals := assocSet x v s.globals, origins := assocDel x s.origins }, .ok ())) ∨
    (assignAll f {} [.name x] v s = (s, .error .fuel)) := by
  match f with
  | 0 => right; rfl
  | 1 => right; rfl
  | f + 2 =>
    left
    simp only [assignAll, bindTarget, bindName, X.bind_def, X.modify]
    rfl

/-- analysis only: missing names are never dropped on fragment B and we stay outside function bodies -/
theorem anaStmt (fx : Fixes) (reg : Registry) (D : Bool) : ∀ (stmt : Stmt) (ln : Nat) (st : AState),
    fragBStmt D stmt = true → st.inFunc = false → st.stack.top < st.heap.length →
    (∀ m ∈ st.missing, m ∈ (runOps reg st (cStmt fx ln stmt)).missing) ∧ (runOps reg st (cStmt fx ln stmt)).inFunc = false ∧
    (runOps reg st (cStmt fx ln stmt)).stack = st.stack ∧ (runOps reg st (cStmt fx ln stmt)).heap.length = st.heap.length
  | .expr e, ln, st, hfr, hf, _ => by
    simp only [cStmt]
    have h : AnaL reg st (runOps reg st (cExpr fx e)) (loadsOf e) := by
      rw [cExpr_loads fx D e (by simpa [fragBStmt] using hfr)]; exact anaL_loads reg _ st hf
    exact ⟨h.mono, by rw [h.inFunc, hf], h.stack, by rw [h.heap]⟩
  | .assign ts e, ln, st, hfr, hf, _ => by
    simp only [fragBStmt, Bool.and_eq_true] at hfr
    cases hsn : singleName ts with
    | none => rw [hsn] at hfr; simp at hfr
    | some x =>
      have hts := singleName_eq hsn
      subst hts
      simp only [cStmt, List.append_assoc]
      rw [runOps_append]
      have h : AnaL reg st (runOps reg st (cExpr fx e)) (loadsOf e) := by
        rw [cExpr_loads fx D e hfr.2]; exact anaL_loads reg _ st hf
      obtain ⟨t1, t2, t3, t4, _⟩ := assign_tail fx reg (runOps reg st (cExpr fx e)) x e (by rw [h.inFunc, hf])
      refine ⟨fun m hm => by rw [t4]; exact h.mono m hm, t3, t2.trans h.stack, ?_⟩
      rw [t1]; simp [storeTop, Heap.length_update, h.heap]
  | .pass, ln, st, _, hf, _ => by simp only [cStmt]; exact ⟨fun _ h => h, hf, rfl, rfl⟩
  | .import_ names, ln, st, _, hf, htl => by
    simp only [cStmt, runOps_cAliases]
    obtain ⟨h1, h2, h3, h4, _, _⟩ := storeKeys_get (aliasKeys names) st htl
    exact ⟨fun m hm => by rw [h4]; exact hm, h3.trans hf, h1, h2⟩
  | .importFrom _ names, ln, st, _, hf, htl => by
    simp only [cStmt, runOps_cAliases]
    obtain ⟨h1, h2, h3, h4, _, _⟩ := storeKeys_get (aliasKeys names) st htl
    exact ⟨fun m hm => by rw [h4]; exact hm, h3.trans hf, h1, h2⟩
  | .located l s, ln, st, hfr, hf, htl => by
    simp only [cStmt, runOps_setLine]
    exact anaStmt fx reg D s l { st with line := l } (by simpa [fragBStmt] using hfr) hf htl
  | .augAssign _ _, _, _, hfr, _, _ => by simp [fragBStmt] at hfr
  | .annAssign _ _ _, _, _, hfr, _, _ => by simp [fragBStmt] at hfr
  | .funcDef _ _ _ _ _, _, _, hfr, _, _ => by simp [fragBStmt] at hfr
  | .classDef _ _ _ _, _, _, hfr, _, _ => by simp [fragBStmt] at hfr
  | .for_ _ _ _ _, _, _, hfr, _, _ => by simp [fragBStmt] at hfr
  | .while_ _ _ _, _, _, hfr, _, _ => by simp [fragBStmt] at hfr
  | .if_ _ _ _, _, _, hfr, _, _ => by simp [fragBStmt] at hfr
  | .with_ _ _, _, _, hfr, _, _ => by simp [fragBStmt] at hfr
  | .try_ _ _ _ _, _, _, hfr, _, _ => by simp [fragBStmt] at hfr
  | .return_ _, _, _, hfr, _, _ => by simp [fragBStmt] at hfr
  | .raise_ _, _, _, hfr, _, _ => by simp [fragBStmt] at hfr
  | .delete _, _, _, hfr, _, _ => by simp [fragBStmt] at hfr
  | .global_ _, _, _, hfr, _, _ => by simp [fragBStmt] at hfr
  | .nonlocal_ _, _, _, hfr, _, _ => by simp [fragBStmt] at hfr

theorem anaStmts (fx : Fixes) (reg : Registry) (D : Bool) : ∀ (ss : List Stmt) (ln : Nat) (st : AState),
    fragB D ss = true → st.inFunc = false → st.stack.top < st.heap.length →
    (∀ m ∈ st.missing, m ∈ (runOps reg st (cStmts fx ln ss)).missing) ∧ (runOps reg st (cStmts fx ln ss)).inFunc = false
  | [], _, st, _, hf, _ => by simp only [cStmts]; exact ⟨fun _ h => h, hf⟩
  | s :: ss, ln, st, hfr, hf, htl => by
    simp only [fragB, List.all_cons, Bool.and_eq_true] at hfr
    simp only [cStmts, runOps_append]
    obtain ⟨h1, h2, h3, h4⟩ := anaStmt fx reg D s ln st hfr.1 hf htl
    obtain ⟨h5, h6⟩ := anaStmts fx reg D ss ln _ (by simpa [fragB] using hfr.2) h2 (by rw [h3, h4]; exact htl)
    exact ⟨fun m hm => h5 m (h1 m hm), h6⟩

theorem aliasKeys_facts (names : List Alias)
    (hok : ∀ a ∈ names, (∀ p ∈ splitDots a.name, simpleName p = true) ∧ (∀ n, a.asname = some n → simpleName n = true)) :
    (∀ n, simpleName n = true → (n ∈ aliasKeys names ↔ n ∈ names.map aliasBinds)) ∧ ['*'] ∉ aliasKeys names ∧
    (∀ k ∈ aliasKeys names, headOf k ∈ aliasKeys names) := by
  induction names with
  | nil => simp [aliasKeys]
  | cons a r ih =>
    obtain ⟨i1, i2, i3⟩ := ih (fun b hb => hok b (List.mem_cons_of_mem _ hb))
    obtain ⟨k1, k2, k3, _⟩ := keysOf_facts (hok a (List.mem_cons_self ..)).1 (hok a (List.mem_cons_self ..)).2
    simp only [aliasKeys, List.mem_append, List.map_cons, List.mem_cons]
    refine ⟨fun n hn => by rw [k1 n hn, i1 n hn], fun h => h.elim k2 i2, fun k hk => ?_⟩
    rcases hk with hk | hk
    · exact .inl (k3 k hk)
    · exact .inr (i3 k hk)

theorem importAliasOK_parts {D : Bool} {a : Alias} (h : importAliasOK D a = true) :
    (∀ p ∈ splitDots a.name, simpleName p = true) ∧ (∀ n, a.asname = some n → simpleName n = true) := by
  simp only [importAliasOK, Bool.and_eq_true, List.all_eq_true] at h
  refine ⟨h.1.1, fun n hn => ?_⟩
  have := h.2; rw [hn] at this; exact this

theorem fromAliasOK_parts {a : Alias} (h : fromAliasOK a = true) :
    (∀ p ∈ splitDots a.name, simpleName p = true) ∧ (∀ n, a.asname = some n → simpleName n = true) := by
  simp only [fromAliasOK, Bool.and_eq_true] at h
  refine ⟨fun p hp => ?_, fun n hn => ?_⟩
  · rw [simpleName_split h.1] at hp; simp only [List.mem_singleton] at hp; rw [hp]; exact h.1
  · have := h.2; rw [hn] at this; exact this

theorem Corr.line {D : Bool} {s : XState} {st : AState} (h : Corr D s st) (l : Nat) : Corr D { s with line := l } st :=
  ⟨h.names, h.noStar, h.ne, h.inFunc, h.topMem, h.topLt, h.dk⟩

/-- the import part of `stmtB`: an `ImpOK` computation followed by `pure normal`, against the stores of its keys -/
theorem corr_import {D : Bool} {reg : Registry} {s : XState} {st : AState} (h : Corr D s st) (names : List Alias)
    (hok : ∀ a ∈ names, (∀ p ∈ splitDots a.name, simpleName p = true) ∧ (∀ n, a.asname = some n → simpleName n = true))
    (m : X Unit) (hm : ImpOK m (names.map aliasBinds)) :
    let res := (m >>= fun _ => (Pure.pure Flow.normal : X Flow)) s
    let st' := (aliasKeys names).foldl storeTop st
    (∀ n ∈ res.1.ne, ∃ x ∈ st'.missing, headOf x.name = n ∧ (D = false → x.name = n)) ∧
    (∀ fl, res.2 = .ok fl → fl = Flow.normal ∧ Corr D res.1 st' ∧ (RD D reg st → RD D reg st') ∧
      st'.missing = st.missing ∧ st'.deferred = st.deferred) := by
  intro res st'
  obtain ⟨h1, h2, h3, h4, h5, h6⟩ := storeKeys_get (aliasKeys names) st h.topLt
  obtain ⟨hne, hokk⟩ := hm s
  cases hms : m s with
  | mk s' r =>
    rw [hms] at hne hokk
    cases r with
    | error e =>
      have hres : res = (s', .error e) := by simp only [res, X.bind_def, hms]
      rw [hres]
      refine ⟨fun n hn => ?_, fun fl hfl => by cases hfl⟩
      simp only at hn hne
      rw [hne] at hn
      obtain ⟨x, hx, hxn⟩ := h.ne n hn
      exact ⟨x, by rw [h4]; exact hx, hxn⟩
    | ok u =>
      have hres : res = (s', .ok Flow.normal) := by simp only [res, X.bind_def, hms, X.pure_def]
      rw [hres]
      have g := hokk u rfl
      simp only at g hne
      obtain ⟨k1, k2, k3⟩ := aliasKeys_facts names hok
      obtain ⟨hc, hrd⟩ := corr_storeKeys (reg := reg) (s2 := s') (st2 := st') h (aliasKeys names) (names.map aliasBinds)
        (g.unbound) hne k1 k2 (fun _ => k3) h1 (Nat.le_of_eq h2.symm) (h3.trans h.inFunc) h4 (fun i _ n => h6 i n)
      exact ⟨fun n hn => hc.ne n hn, fun fl hfl => ⟨by cases hfl; rfl, hc, hrd, h4, h5⟩⟩

/-- one module-level statement of fragment B, reference semantics and analysis in lock step -/
theorem stmtB (fx : Fixes) (reg : Registry) (D : Bool) : ∀ (stmt : Stmt) (f : Nat) (s : XState) (st : AState) (ln : Nat),
    fragBStmt D stmt = true → Corr D s st →
    (∀ n ∈ (execStmt f {} stmt s).1.ne, ∃ m ∈ (runOps reg st (cStmt fx ln stmt)).missing,
        headOf m.name = n ∧ (D = false → m.name = n)) ∧
    (∀ fl, (execStmt f {} stmt s).2 = .ok fl →
      fl = Flow.normal ∧ Corr D (execStmt f {} stmt s).1 (runOps reg st (cStmt fx ln stmt)) ∧
      (RD D reg st → RD D reg (runOps reg st (cStmt fx ln stmt))) ∧
      (plainStmtB stmt = true → RD D reg st → (runOps reg st (cStmt fx ln stmt)).missing = st.missing ∧
        (runOps reg st (cStmt fx ln stmt)).deferred = st.deferred))
  | stmt, 0, s, st, ln, hfr, h => by
    have hm := (anaStmt fx reg D stmt ln st hfr h.inFunc h.topLt).1
    rw [execStmt]
    refine ⟨fun n hn => ?_, fun fl hfl => by cases hfl⟩
    obtain ⟨m, hmm, hmn⟩ := h.ne n hn
    exact ⟨m, hm m hmm, hmn⟩
  | .expr e, f + 1, s, st, ln, hfr, h => by
    have hfe : fragBExpr D e = true := by simpa [fragBStmt] using hfr
    obtain ⟨hA, hsame, hne, hok⟩ := corr_expr fx reg h f e hfe
    simp only [execStmt, cStmt, X.bind_def]
    cases hr : evalExpr f {} e s with
    | mk s' r =>
      rw [hr] at hne hok hsame
      cases r with
      | error x => exact ⟨hne, fun fl hfl => by cases hfl⟩
      | ok v =>
        obtain ⟨hnes, hno⟩ := hok v rfl
        refine ⟨hne, fun fl hfl => ?_⟩
        have : fl = Flow.normal := by
          have := hfl; simp only [X.pure_def] at this; cases this; rfl
        exact ⟨this, (h.ana hA).same hsame hnes, fun hrd => hrd.ana hA,
          fun hp hrd => ⟨hno (by simpa [plainStmtB] using hp) hrd, hA.deferred⟩⟩
  | .assign ts e, f + 1, s, st, ln, hfr, h => by
    simp only [fragBStmt, Bool.and_eq_true] at hfr
    cases hsn : singleName ts with
    | none => rw [hsn] at hfr; simp at hfr
    | some x =>
      have hts := singleName_eq hsn
      subst hts
      rw [hsn] at hfr
      have hx : simpleName x = true := hfr.1
      obtain ⟨hA, hsame, hne, hok⟩ := corr_expr fx reg h f e hfr.2
      have hf1 : (runOps reg st (cExpr fx e)).inFunc = false := by rw [hA.inFunc, h.inFunc]
      obtain ⟨t1, t2, t3, t4, t5⟩ := assign_tail fx reg (runOps reg st (cExpr fx e)) x e hf1
      simp only [execStmt, cStmt, List.append_assoc, X.bind_def]
      rw [runOps_append]
      cases hr : evalExpr f {} e s with
      | mk s' r =>
        rw [hr] at hne hok hsame
        cases r with
        | error err =>
          refine ⟨fun n hn => ?_, fun fl hfl => by cases hfl⟩
          obtain ⟨m, hm, hmn⟩ := hne n hn
          exact ⟨m, by rw [t4]; exact hm, hmn⟩
        | ok v =>
          obtain ⟨hnes, hno⟩ := hok v rfl
          simp only at hnes hsame
          have hc1 : Corr D s' (runOps reg st (cExpr fx e)) := (h.ana hA).same hsame hnes
          simp only
          rcases assignAll_name f x v s' with ha | ha
          · rw [ha]
            simp only [X.pure_def]
            have hget : ∀ i n, ((runOps reg (runOps reg st (cExpr fx e)) (cTargets fx [Expr.name x] ++ cAll [Expr.name x] e)).heap.get i).get n =
                if i = (runOps reg st (cExpr fx e)).stack.top ∧ n ∈ [x] then some Val.none
                else ((runOps reg st (cExpr fx e)).heap.get i).get n := by
              intro i n
              rw [t1, storeTop_get _ hc1.topLt]
              simp
            obtain ⟨hc, hrd⟩ := corr_storeKeys (reg := reg)
              (s2 := { s' with globals := assocSet x v s'.globals, origins := assocDel x s'.origins }) hc1 [x] [x]
              (fun n => by
                unfold unboundX
                by_cases hn : n = x
                · subst hn; simp [assocGet_assocSet_eq]
                · simp [assocGet_assocSet_ne hn, hn])
              rfl (fun _ _ => Iff.rfl)
              (by simp only [List.mem_singleton]; exact fun hc => simpleName_ne_star hx hc.symm)
              (fun _ k hk => by simp only [List.mem_singleton] at hk ⊢; rw [hk, headOf_simple hx])
              t2 (by rw [t1]; simp [storeTop, Heap.length_update]) t3 t4 (fun i _ n => hget i n)
            refine ⟨fun n hn => hc.ne n hn, fun fl hfl => ?_⟩
            have : fl = Flow.normal := by cases hfl; rfl
            refine ⟨this, hc, fun hrd0 => hrd (hrd0.ana hA), fun hp hrd0 => ?_⟩
            simp only [plainStmtB, hsn, Bool.and_eq_true, bne_iff_ne, ne_eq, Option.some.injEq] at hp
            exact ⟨by rw [t4]; exact hno hp.1 hrd0, by rw [t5 hp.2]; exact hA.deferred⟩
          · rw [ha]
            refine ⟨fun n hn => ?_, fun fl hfl => by cases hfl⟩
            obtain ⟨m, hm, hmn⟩ := hc1.ne n hn
            exact ⟨m, by rw [t4]; exact hm, hmn⟩
  | .pass, f + 1, s, st, ln, _, h => by
    simp only [execStmt, cStmt, X.pure_def]
    exact ⟨h.ne, fun fl hfl => ⟨by cases hfl; rfl, h, fun x => x, fun _ _ => ⟨rfl, rfl⟩⟩⟩
  | .import_ names, f + 1, s, st, ln, hfr, h => by
    have hok : ∀ a ∈ names, (∀ p ∈ splitDots a.name, simpleName p = true) ∧ (∀ n, a.asname = some n → simpleName n = true) := by
      intro a ha
      simp only [fragBStmt, List.all_eq_true] at hfr
      exact importAliasOK_parts (hfr a ha)
    have := corr_import (reg := reg) h names hok _ (ImpOK.importAliases f 0 names)
    simp only [execStmt, cStmt, runOps_cAliases]
    refine ⟨this.1, fun fl hfl => ?_⟩
    obtain ⟨a, b, c, d, e⟩ := this.2 fl hfl
    exact ⟨a, b, c, fun _ _ => ⟨d, e⟩⟩
  | .importFrom m names, f + 1, s, st, ln, hfr, h => by
    have hok : ∀ a ∈ names, (∀ p ∈ splitDots a.name, simpleName p = true) ∧ (∀ n, a.asname = some n → simpleName n = true) := by
      intro a ha
      simp only [fragBStmt, List.all_eq_true] at hfr
      exact fromAliasOK_parts (hfr a ha)
    have hm : ImpOK (do
        let tl ← importChain (prefixes (splitDots m)) none
        match tl with
          | (_, some leaf) => importFromAliases f {} m leaf 0 names
          | _ => (raiseOther : X Unit)) (names.map aliasBinds) := by
      have := ImpOK.bind (ImpOK.importChain (prefixes (splitDots m)) none) (B2 := names.map aliasBinds)
        (fun tl => (by
          split
          · exact ImpOK.importFromAliases m _ f 0 names
          · exact ImpOK.raiseOther :
          ImpOK (match tl with
            | (_, some leaf) => importFromAliases f {} m leaf 0 names
            | _ => (raiseOther : X Unit)) (names.map aliasBinds)))
      simpa using this
    have := corr_import (reg := reg) h names hok _ hm
    simp only [cStmt, runOps_cAliases]
    have hex : execStmt (f + 1) {} (.importFrom m names) s =
        ((do
          let tl ← importChain (prefixes (splitDots m)) none
          match tl with
            | (_, some leaf) => importFromAliases f {} m leaf 0 names
            | _ => (raiseOther : X Unit)) >>= fun _ => (Pure.pure Flow.normal : X Flow)) s := by
      simp only [execStmt, X.bind_def]
      cases importChain (prefixes (splitDots m)) none s with
      | mk s1 r1 =>
        cases r1 with
        | error e => rfl
        | ok tl =>
          obtain ⟨t, l⟩ := tl
          cases l with
          | none => rfl
          | some leaf => rfl
    rw [hex]
    refine ⟨this.1, fun fl hfl => ?_⟩
    obtain ⟨a, b, c, d, e⟩ := this.2 fl hfl
    exact ⟨a, b, c, fun _ _ => ⟨d, e⟩⟩
  | .located l s', f + 1, s, st, ln, hfr, h => by
    simp only [execStmt, cStmt, runOps_setLine, X.bind_def, X.modify]
    have := stmtB fx reg D s' f { s with line := l } { st with line := l } l (by simpa [fragBStmt] using hfr) ((h.line l).setLine l)
    refine ⟨this.1, fun fl hfl => ?_⟩
    obtain ⟨a, b, c, d⟩ := this.2 fl hfl
    exact ⟨a, b, c, fun hp => d (by simpa [plainStmtB] using hp)⟩
  | .augAssign _ _, _ + 1, _, _, _, hfr, _ => by simp [fragBStmt] at hfr
  | .annAssign _ _ _, _ + 1, _, _, _, hfr, _ => by simp [fragBStmt] at hfr
  | .funcDef _ _ _ _ _, _ + 1, _, _, _, hfr, _ => by simp [fragBStmt] at hfr
  | .classDef _ _ _ _, _ + 1, _, _, _, hfr, _ => by simp [fragBStmt] at hfr
  | .for_ _ _ _ _, _ + 1, _, _, _, hfr, _ => by simp [fragBStmt] at hfr
  | .while_ _ _ _, _ + 1, _, _, _, hfr, _ => by simp [fragBStmt] at hfr
  | .if_ _ _ _, _ + 1, _, _, _, hfr, _ => by simp [fragBStmt] at hfr
  | .with_ _ _, _ + 1, _, _, _, hfr, _ => by simp [fragBStmt] at hfr
  | .try_ _ _ _ _, _ + 1, _, _, _, hfr, _ => by simp [fragBStmt] at hfr
  | .return_ _, _ + 1, _, _, _, hfr, _ => by simp [fragBStmt] at hfr
  | .raise_ _, _ + 1, _, _, _, hfr, _ => by simp [fragBStmt] at hfr
  | .delete _, _ + 1, _, _, _, hfr, _ => by simp [fragBStmt] at hfr
  | .global_ _, _ + 1, _, _, _, hfr, _ => by simp [fragBStmt] at hfr
  | .nonlocal_ _, _ + 1, _, _, _, hfr, _ => by simp [fragBStmt] at hfr

theorem stmtsB (fx : Fixes) (reg : Registry) (D : Bool) : ∀ (ss : List Stmt) (f : Nat) (s : XState) (st : AState) (ln : Nat),
    fragB D ss = true → Corr D s st →
    (∀ n ∈ (execStmts f {} ss s).1.ne, ∃ m ∈ (runOps reg st (cStmts fx ln ss)).missing,
        headOf m.name = n ∧ (D = false → m.name = n)) ∧
    (∀ fl, (execStmts f {} ss s).2 = .ok fl →
      Corr D (execStmts f {} ss s).1 (runOps reg st (cStmts fx ln ss)) ∧
      (RD D reg st → RD D reg (runOps reg st (cStmts fx ln ss))) ∧
      (ss.all plainStmtB = true → RD D reg st → (runOps reg st (cStmts fx ln ss)).missing = st.missing ∧
        (runOps reg st (cStmts fx ln ss)).deferred = st.deferred))
  | ss, 0, s, st, ln, hfr, h => by
    have hm := (anaStmts fx reg D ss ln st hfr h.inFunc h.topLt).1
    rw [execStmts]
    refine ⟨fun n hn => ?_, fun fl hfl => by cases hfl⟩
    obtain ⟨m, hmm, hmn⟩ := h.ne n hn
    exact ⟨m, hm m hmm, hmn⟩
  | [], f + 1, s, st, ln, _, h => by
    simp only [execStmts, cStmts, X.pure_def]
    exact ⟨h.ne, fun fl _ => ⟨h, fun x => x, fun _ _ => ⟨rfl, rfl⟩⟩⟩
  | stmt :: ss, f + 1, s, st, ln, hfr, h => by
    simp only [fragB, List.all_cons, Bool.and_eq_true] at hfr
    have hfr2 : fragB D ss = true := by simpa [fragB] using hfr.2
    obtain ⟨h1, h2⟩ := stmtB fx reg D stmt f s st ln hfr.1 h
    simp only [execStmts, cStmts, runOps_append, X.bind_def]
    have hAna := anaStmt fx reg D stmt ln st hfr.1 h.inFunc h.topLt
    cases hr : execStmt f {} stmt s with
    | mk s' r =>
      rw [hr] at h1 h2
      cases r with
      | error x =>
        simp only
        refine ⟨fun n hn => ?_, fun fl hfl => by cases hfl⟩
        obtain ⟨m, hm, hmn⟩ := h1 n hn
        exact ⟨m, (anaStmts fx reg D ss ln _ hfr2 hAna.2.1 (by rw [hAna.2.2.1, hAna.2.2.2]; exact h.topLt)).1 m hm, hmn⟩
      | ok fl0 =>
        obtain ⟨hfl0, hc, hrd, hp⟩ := h2 fl0 rfl
        subst hfl0
        simp only
        obtain ⟨r1, r2⟩ := stmtsB fx reg D ss f s' _ ln hfr2 hc
        refine ⟨r1, fun fl hfl => ?_⟩
        obtain ⟨c2, rd2, p2⟩ := r2 fl hfl
        refine ⟨c2, fun h0 => rd2 (hrd h0), fun hall h0 => ?_⟩
        simp only [List.all_cons, Bool.and_eq_true] at hall
        obtain ⟨p1a, p1b⟩ := hp hall.1 h0
        obtain ⟨p2a, p2b⟩ := p2 hall.2 (hrd h0)
        exact ⟨p2a.trans p1a, p2b.trans p1b⟩

/-! ### initial states, final answer -/

theorem mem_insertSorted {x y : Str} {l : List Str} : y ∈ insertSorted x l ↔ y = x ∨ y ∈ l := by
  induction l with
  | nil => simp [insertSorted]
  | cons a r ih =>
    unfold insertSorted
    split
    · rename_i hxa; subst hxa; simp
    · split
      · simp
      · simp only [List.mem_cons, ih]
        constructor
        · rintro (h | h | h)
          · exact .inr (.inl h)
          · exact .inl h
          · exact .inr (.inr h)
        · rintro (h | h | h)
          · exact .inr (.inl h)
          · exact .inl h
          · exact .inr (.inr h)

theorem mem_sortedSet {y : Str} {l : List Str} : y ∈ sortedSet l ↔ y ∈ l := by
  unfold sortedSet
  induction l with
  | nil => simp
  | cons a r ih => simp only [List.foldr_cons, mem_insertSorted, ih, List.mem_cons]

theorem finishDeferred_mono (reg : Registry) (st : AState) :
    ∀ m ∈ st.missing, m ∈ (finishDeferred reg st).missing := by
  unfold finishDeferred
  have : ∀ (ds : List Deferred) (st : AState), ∀ m ∈ st.missing,
      m ∈ (ds.foldl (fun st d => checkLoad reg st d.name d.ids d.line) st).missing := by
    intro ds
    induction ds with
    | nil => intro st m hm; exact hm
    | cons d r ih =>
      intro st m hm
      apply ih
      unfold checkLoad
      dsimp only
      split
      · split
        · exact hm
        · exact List.mem_append_left _ hm
      · exact hm
  intro m hm
  exact this _ _ m hm

theorem finishDeferred_nil (reg : Registry) (st : AState) (h : st.deferred = []) :
    (finishDeferred reg st).missing = st.missing := by
  unfold finishDeferred
  rw [h]; rfl

theorem runProgram_ne (fuel : Nat) (body : List Stmt) (s0 : XState) :
    (runProgram fuel body [] s0).1.ne = (execStmts fuel {} body s0).1.ne := by
  simp only [runProgram, X.bind_def]
  cases hr : execStmts fuel {} body s0 with
  | mk s1 r =>
    cases r with
    | error e => rfl
    | ok fl =>
      simp only [X.modify]
      cases fuel with
      | zero => simp only [execStmts, X.throw]
      | succ f => simp only [execStmts, X.pure_def]

theorem runProgram_ok (fuel : Nat) (body : List Stmt) (s0 : XState) (h : (runProgram fuel body [] s0).2 = .ok ()) :
    ∃ fl, (execStmts fuel {} body s0).2 = .ok fl := by
  simp only [runProgram, X.bind_def] at h
  cases hr : execStmts fuel {} body s0 with
  | mk s1 r =>
    cases r with
    | error e => rw [hr] at h; cases h
    | ok fl => exact ⟨fl, rfl⟩

theorem initHeap_user' (builtins : Scope) (ns : List Scope) (a : Nat) (ha : a < ns.length) :
    (initState builtins ns).heap.get (3 + a) = ns[a] := by
  rw [initHeap_user builtins ns a ha]; simp [List.getD_eq_getElem?_getD, ha]

theorem init_top (builtins : Scope) (ns : List Scope) : (initState builtins ns).stack.top = 3 + ns.length := by
  obtain ⟨scopes, hids, _⟩ := initState_ids builtins ns
  unfold StackRef.top; rw [hids, getLastD_snoc]

theorem init_ids_mem (builtins : Scope) (ns : List Scope) (hnc : ∀ sc ∈ ns, sc.isClass = false) (i : Nat) :
    i ∈ normIds (initState builtins ns).stack.ids ↔ i = 0 ∨ i = 1 ∨ (∃ a, a < ns.length ∧ i = 3 + a) ∨ i = 3 + ns.length := by
  rw [(inv_init {} builtins ns).wf]
  obtain ⟨scopes, hids, hsc⟩ := initState_ids builtins ns
  rw [hids, List.mem_append, mem_normIds_iff, hsc]
  simp only [List.mem_filter, mem_normIds_iff, List.mem_map, List.mem_range, List.mem_singleton]
  constructor
  · rintro ((h | h | ⟨h, _⟩) | h)
    · exact .inl h
    · exact .inr (.inl h)
    · rcases h with h | h | ⟨a, ha, rfl⟩
      · exact .inl h
      · exact .inr (.inl h)
      · exact .inr (.inr (.inl ⟨a, ha, by omega⟩))
    · exact .inr (.inr (.inr h))
  · rintro (h | h | ⟨a, ha, rfl⟩ | h)
    · exact .inl (.inl h)
    · exact .inl (.inr (.inl h))
    · refine .inl (.inr (.inr ⟨.inr (.inr ⟨a, ha, by omega⟩), ?_⟩))
      rw [initHeap_user' builtins ns a ha]
      simp [hnc _ (List.getElem_mem ha)]
    · exact .inr h

theorem assocGet_mem {β} {k : Str} {v : β} {l : List (Str × β)} (h : assocGet k l = some v) : (k, v) ∈ l := by
  induction l with
  | nil => simp [assocGet] at h
  | cons a r ih =>
    obtain ⟨k', v'⟩ := a
    simp only [assocGet] at h
    split at h
    · rename_i hk; cases h; subst hk; exact List.mem_cons_self ..
    · exact List.mem_cons_of_mem _ (ih h)

/-- the cells on the initial stack -/
theorem init_cell (builtins : Scope) (ns : List Scope) (hnc : ∀ sc ∈ ns, sc.isClass = false) {i : Nat}
    (hi : i ∈ normIds (initState builtins ns).stack.ids) :
    (initState builtins ns).heap.get i = builtins ∨
    (initState builtins ns).heap.get i = { items := [("__file__".toList, Val.none)] } ∨
    (∃ sc ∈ ns, (initState builtins ns).heap.get i = sc) ∨ (initState builtins ns).heap.get i = {} := by
  rcases (init_ids_mem builtins ns hnc i).mp hi with rfl | rfl | ⟨a, ha, rfl⟩ | rfl
  · exact .inl rfl
  · exact .inr (.inl rfl)
  · exact .inr (.inr (.inl ⟨_, List.getElem_mem ha, initHeap_user' builtins ns a ha⟩))
  · exact .inr (.inr (.inr (initHeap_priv builtins ns)))

theorem DK_init (builtins : Scope) (ns : List Scope) (hnc : ∀ sc ∈ ns, sc.isClass = false)
    (hdf : nsDotFree builtins ns = true) : DK (initState builtins ns) := by
  simp only [nsDotFree, Bool.and_eq_true, List.all_eq_true] at hdf
  intro i hi k v hv
  refine ⟨i, hi, v, ?_⟩
  have hk : dotFree k = true := by
    rcases init_cell builtins ns hnc hi with hc | hc | ⟨sc, hsc, hc⟩ | hc
    · rw [hc] at hv; exact hdf.1 _ (assocGet_mem hv)
    · rw [hc] at hv
      have := assocGet_mem hv
      simp only [List.mem_singleton, Prod.mk.injEq] at this
      rw [this.1]; decide
    · rw [hc] at hv; exact hdf.2 sc hsc _ (assocGet_mem hv)
    · rw [hc] at hv; simp [Scope.get, assocGet] at hv
  have : headOf k = k := by unfold headOf; rw [splitDots_simple (by simpa [dotFree] using hk)]; rfl
  rw [this]; exact hv

theorem RD_init (reg : Registry) (builtins : Scope) (ns : List Scope) (hnc : ∀ sc ∈ ns, sc.isClass = false)
    (hrd : regDisjoint reg builtins ns = true) :
    RegDisjointS reg (initState builtins ns) ∧ ∀ p, reg.get p ≠ some Val.none := by
  simp only [regDisjoint, Bool.and_eq_true, List.all_eq_true, bne_iff_ne, ne_eq] at hrd
  have hreg : ∀ p v, reg.get p = some v → ∃ m ∈ reg.mods, m.2 = v := fun p v h => ⟨_, assocGet_mem h, rfl⟩
  refine ⟨?_, fun p hp => ?_⟩
  · intro i hi k v hv p hp
    obtain ⟨m, hm, hmv⟩ := hreg p v hp
    rcases init_cell builtins ns hnc hi with hc | hc | ⟨sc, hsc, hc⟩ | hc
    · rw [hc] at hv; exact hrd.1.2 _ (assocGet_mem hv) m hm hmv
    · rw [hc] at hv
      have := assocGet_mem hv
      simp only [List.mem_singleton, Prod.mk.injEq] at this
      exact hrd.1.1 m hm (by rw [hmv, this.2])
    · rw [hc] at hv; exact hrd.2 sc hsc _ (assocGet_mem hv) m hm hmv
    · rw [hc] at hv; simp [Scope.get, assocGet] at hv
  · obtain ⟨m, hm, hmv⟩ := hreg p _ hp
    exact hrd.1.1 m hm hmv

theorem corr_init (D : Bool) (builtins : Scope) (ns : List Scope) (s0 : XState) (h : Agree builtins ns s0)
    (hdf : D = true → nsDotFree builtins ns = true) :
    Corr D s0 (initState builtins ns) := by
  have hmem := init_ids_mem builtins ns h.noClass
  have hget0 : (initState builtins ns).heap.get 0 = builtins := rfl
  have hget1 : (initState builtins ns).heap.get 1 = { items := [("__file__".toList, Val.none)] } := rfl
  have hb2 : ∀ n : Str, (({ items := [("__file__".toList, Val.none)] } : Scope).get n = none) ↔ n ≠ "__file__".toList := by
    intro n
    simp only [Scope.get, assocGet]
    constructor
    · intro hh hc; subst hc; simp at hh
    · intro hh; rw [if_neg (Ne.symm hh)]
  constructor
  · intro n hn
    have hA := h.names n hn
    constructor
    · intro hu i hi
      have hnotR : ¬ (boundIn builtins n = true ∨ n = "__file__".toList ∨ ∃ sc ∈ ns, boundIn sc n = true) := by
        intro hR
        rcases hA.mpr hR with hg | hb
        · rw [hu.1] at hg; cases hg
        · rw [hu.2] at hb; cases hb
      rcases (hmem i).mp hi with rfl | rfl | ⟨a, ha, rfl⟩ | rfl
      · rw [hget0]
        cases hg : builtins.get n with
        | none => rfl
        | some v => exact absurd (.inl (by simp [boundIn, hg])) hnotR
      · rw [hget1, hb2]
        intro hc; exact hnotR (.inr (.inl hc))
      · rw [initHeap_user' builtins ns a ha]
        cases hg : (ns[a]).get n with
        | none => rfl
        | some v => exact absurd (.inr (.inr ⟨_, List.getElem_mem ha, by simp [boundIn, hg]⟩)) hnotR
      · rw [initHeap_priv]; rfl
    · intro hu
      have hnotR : ¬ (boundIn builtins n = true ∨ n = "__file__".toList ∨ ∃ sc ∈ ns, boundIn sc n = true) := by
        rintro (hR | hR | ⟨sc, hsc, hR⟩)
        · have := hu 0 ((hmem 0).mpr (.inl rfl))
          rw [hget0] at this
          simp [boundIn, this] at hR
        · have := hu 1 ((hmem 1).mpr (.inr (.inl rfl)))
          rw [hget1, hb2] at this
          exact this hR
        · obtain ⟨a, ha, hsa⟩ := List.getElem_of_mem hsc
          have := hu (3 + a) ((hmem _).mpr (.inr (.inr (.inl ⟨a, ha, rfl⟩))))
          rw [initHeap_user' builtins ns a ha, hsa] at this
          simp [boundIn, this] at hR
      constructor
      · cases hg : assocGet n s0.globals with
        | none => rfl
        | some v => exact absurd (hA.mp (.inl (by simp [hg]))) hnotR
      · cases hb : s0.builtins.contains n with
        | false => rfl
        | true => exact absurd (hA.mp (.inr hb)) hnotR
  · unfold noStarA hasStar
    rw [List.any_eq_false]
    intro i hi
    have hi' : i ∈ normIds (initState builtins ns).stack.ids := by
      rw [(inv_init {} builtins ns).wf]; exact hi
    rcases (hmem i).mp hi' with rfl | rfl | ⟨a, ha, rfl⟩ | rfl
    · rw [hget0]; have := h.noStar.1; simpa [boundIn] using this
    · rw [hget1]; simp [Scope.get, assocGet]
    · rw [initHeap_user' builtins ns a ha]
      have := h.noStar.2 _ (List.getElem_mem ha); simpa [boundIn] using this
    · rw [initHeap_priv]; simp [Scope.get, assocGet]
  · intro n hn; rw [h.ne0] at hn; simp at hn
  · rfl
  · rw [init_top]; exact (hmem _).mpr (.inr (.inr (.inr rfl)))
  · exact (inv_init {} builtins ns).top_lt
  · intro hD; exact DK_init builtins ns h.noClass (hdf hD)


end Pfb.C05
