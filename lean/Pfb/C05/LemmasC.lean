/-
  Pfb.C05.LemmasC — fragment C: module-level function definitions whose bodies are analysed in deferred mode
  (`_visit_Load_defered`, `clone_top`, `_finish_deferred_load_checks`) and executed only after the last module-level
  statement.
-/
import Pfb.C05.LemmasB
namespace Pfb.C05
open Pfb Pfb.PyCore

/-! ### the analysis of a function body (`_in_FunctionDef = True`) -/

/-- a state reached while (or after) analysing a function body that was entered in state `st`:
    only the body scope `B = st.stack.top` and freshly appended clones of it differ -/
structure During (A : List Str) (st stt : AState) : Prop where
  stack : stt.stack = st.stack
  saved : stt.saved = st.saved
  inFunc : stt.inFunc = st.inFunc
  savedFunc : stt.savedFunc = st.savedFunc
  inClass : stt.inClass = st.inClass
  missing : stt.missing = st.missing
  len : st.heap.length ≤ stt.heap.length
  old : ∀ i, i < st.heap.length → i ≠ st.stack.top → stt.heap.get i = st.heap.get i
  /-- the body scope only grows -/
  grow : ∀ k v, (st.heap.get st.stack.top).get k = some v → ∃ w, (stt.heap.get st.stack.top).get k = some w
  /-- clones hold keys of the body scope as it is now (or was) -/
  clones : ∀ i, st.heap.length ≤ i → ∀ k v, (stt.heap.get i).get k = some v → ∃ w, (stt.heap.get st.stack.top).get k = some w
  /-- what the body scope and the clones hold: what was there, or a local bound to `None` -/
  vals : ∀ i, (i = st.stack.top ∨ st.heap.length ≤ i) → ∀ k v, (stt.heap.get i).get k = some v →
    (st.heap.get st.stack.top).get k = some v ∨ (simpleName k = true ∧ v = Val.none ∧ k ∈ A)
  /-- deferred entries are only appended, each with a fresh clone as its top scope -/
  deferred : ∃ E, stt.deferred = st.deferred ++ E ∧
    ∀ e ∈ E, ∃ c, st.heap.length ≤ c ∧ c < stt.heap.length ∧ e.ids = normIds (st.stack.ids.dropLast ++ [c])

theorem During.refl {A : List Str} (st : AState) : During A st st :=
  ⟨rfl, rfl, rfl, rfl, rfl, rfl, Nat.le_refl _, fun _ _ _ => rfl, fun k v h => ⟨v, h⟩,
   fun i hi k v h => by rw [Heap.get_ge _ hi] at h; simp [Scope.get, assocGet] at h,
   fun i hi k v h => by
     rcases hi with rfl | hi
     · exact .inl h
     · rw [Heap.get_ge _ hi] at h; simp [Scope.get, assocGet] at h,
   ⟨[], by simp, fun e he => by simp at he⟩⟩

theorem During.trans {A : List Str} {a b c : AState} (h1 : During A a b) (h2 : During A b c) : During A a c := by
  have htop : b.stack.top = a.stack.top := by rw [h1.stack]
  refine ⟨h2.stack.trans h1.stack, h2.saved.trans h1.saved, h2.inFunc.trans h1.inFunc, h2.savedFunc.trans h1.savedFunc,
    h2.inClass.trans h1.inClass, h2.missing.trans h1.missing, Nat.le_trans h1.len h2.len, ?_, ?_, ?_, ?_, ?_⟩
  · intro i hi hne
    rw [h2.old i (Nat.lt_of_lt_of_le hi h1.len) (by rw [htop]; exact hne), h1.old i hi hne]
  · intro k v hv
    obtain ⟨w, hw⟩ := h1.grow k v hv
    rw [← htop]; exact h2.grow k w (by rw [htop]; exact hw)
  · intro i hi k v hv
    by_cases hib : b.heap.length ≤ i
    · have := h2.clones i hib k v hv; rw [htop] at this; exact this
    · have hlt : i < b.heap.length := by omega
      by_cases hit : i = a.stack.top
      · subst hit; exact ⟨v, hv⟩
      · rw [h2.old i hlt (by rw [htop]; exact hit)] at hv
        obtain ⟨w, hw⟩ := h1.clones i hi k v hv
        have := h2.grow k w (by rw [htop]; exact hw)
        rw [htop] at this; exact this
  · intro i hi k v hv
    have hcase : i = b.stack.top ∨ b.heap.length ≤ i ∨ (i ≠ a.stack.top ∧ i < b.heap.length ∧ a.heap.length ≤ i) := by
      rcases hi with hi | hi
      · exact .inl (by rw [htop]; exact hi)
      · by_cases hib : b.heap.length ≤ i
        · exact .inr (.inl hib)
        · by_cases hit : i = a.stack.top
          · exact .inl (by rw [htop]; exact hit)
          · exact .inr (.inr ⟨hit, by omega, hi⟩)
    rcases hcase with hc | hc | ⟨hc1, hc2, hc3⟩
    · rcases h2.vals i (.inl hc) k v hv with h | h
      · rw [htop] at h; exact h1.vals _ (.inl rfl) k v h
      · exact .inr h
    · rcases h2.vals i (.inr hc) k v hv with h | h
      · rw [htop] at h; exact h1.vals _ (.inl rfl) k v h
      · exact .inr h
    · rw [h2.old i hc2 (by rw [htop]; exact hc1)] at hv
      exact h1.vals i (.inr hc3) k v hv
  · obtain ⟨E1, he1, hf1⟩ := h1.deferred
    obtain ⟨E2, he2, hf2⟩ := h2.deferred
    refine ⟨E1 ++ E2, by rw [he2, he1, List.append_assoc], fun e he => ?_⟩
    rcases List.mem_append.mp he with he | he
    · obtain ⟨c, hc1, hc2, hc3⟩ := hf1 e he
      exact ⟨c, hc1, Nat.lt_of_lt_of_le hc2 h2.len, hc3⟩
    · obtain ⟨c, hc1, hc2, hc3⟩ := hf2 e he
      exact ⟨c, Nat.le_trans h1.len hc1, hc2, by rw [hc3, h1.stack]⟩

/-- one `_visit_Load_defered` -/
theorem during_deferLoad {A : List Str} (reg : Registry) (st : AState) (d : Str) (htl : st.stack.top < st.heap.length) :
    During A st (deferLoad reg st d) ∧
    ((symbolNeedsImport reg st.heap st.stack.ids d).1 = true →
      ∃ e ∈ (deferLoad reg st d).deferred, e.name = d ∧ e.ids = normIds (st.stack.ids.dropLast ++ [st.heap.length]) ∧
        st.heap.length < (deferLoad reg st d).heap.length) := by
  unfold deferLoad
  dsimp only
  split
  · rename_i hneed
    refine ⟨⟨rfl, rfl, rfl, rfl, rfl, rfl, by simp [AState.emit], ?_, ?_, ?_, ?_, ?_⟩, fun _ => ?_⟩
    · intro i hi _
      show Heap.get (st.heap ++ [_]) i = _
      exact Heap.get_append_left _ _ hi
    · intro k v hv
      refine ⟨v, ?_⟩
      show (Heap.get (st.heap ++ [_]) st.stack.top).get k = _
      rw [Heap.get_append_left _ _ htl]; exact hv
    · intro i hi k v hv
      change (Heap.get (st.heap ++ [st.heap.get st.stack.top]) i).get k = some v at hv
      show ∃ w, (Heap.get (st.heap ++ [st.heap.get st.stack.top]) st.stack.top).get k = some w
      rw [Heap.get_append_left _ _ htl]
      by_cases hie : i = st.heap.length
      · subst hie; rw [Heap.get_append_new] at hv; exact ⟨v, hv⟩
      · rw [Heap.get_ge _ (by simp; omega)] at hv; simp [Scope.get, assocGet] at hv
    · intro i hi k v hv
      change (Heap.get (st.heap ++ [st.heap.get st.stack.top]) i).get k = some v at hv
      left
      rcases hi with rfl | hi
      · rw [Heap.get_append_left _ _ htl] at hv; exact hv
      · by_cases hie : i = st.heap.length
        · subst hie; rw [Heap.get_append_new] at hv; exact hv
        · rw [Heap.get_ge _ (by simp; omega)] at hv; simp [Scope.get, assocGet] at hv
    · refine ⟨[⟨d, normIds (st.stack.ids.dropLast ++ [st.heap.length]), st.line⟩], rfl, fun e he => ?_⟩
      simp only [List.mem_singleton] at he; subst he
      exact ⟨st.heap.length, Nat.le_refl _, by simp [AState.emit], rfl⟩
    · exact ⟨_, List.mem_append_right _ (List.mem_singleton.mpr rfl), rfl, rfl, by simp [AState.emit]⟩
  · rename_i hneed
    refine ⟨⟨rfl, rfl, rfl, rfl, rfl, rfl, Nat.le_refl _, fun _ _ _ => rfl, fun k v h => ⟨v, h⟩, ?_, ?_, ⟨[], by simp [AState.emit], fun e he => by simp at he⟩⟩,
      fun h => absurd h hneed⟩
    · intro i hi k v hv
      change (st.heap.get i).get k = some v at hv
      rw [Heap.get_ge _ hi] at hv; simp [Scope.get, assocGet] at hv
    · intro i hi k v hv
      change (st.heap.get i).get k = some v at hv
      rcases hi with rfl | hi
      · exact .inl hv
      · rw [Heap.get_ge _ hi] at hv; simp [Scope.get, assocGet] at hv

/-- `_visit_Store(x)` inside a function body -/
theorem during_store {A : List Str} (st : AState) (x : Str) (hx : simpleName x = true) (hxL : x ∈ A) (htl : st.stack.top < st.heap.length) :
    During A st (storeTop st x) := by
  have hget := storeTop_get st htl x
  refine ⟨rfl, rfl, rfl, rfl, rfl, rfl, by simp [storeTop, Heap.length_update], ?_, ?_, ?_, ?_,
    ⟨[], by simp [storeTop], fun e he => by simp at he⟩⟩
  · intro i _ hne
    simp only [storeTop, Heap.get_update]
    rw [if_neg (fun h => hne h.1)]
  · intro k v hv
    rw [hget]
    by_cases hk : k = x
    · exact ⟨Val.none, by simp [hk]⟩
    · exact ⟨v, by simp [hk, hv]⟩
  · intro i hi k v hv
    have : (storeTop st x).heap.get i = {} := Heap.get_ge _ (by simp [storeTop, Heap.length_update]; exact hi)
    rw [this] at hv; simp [Scope.get, assocGet] at hv
  · intro i hi k v hv
    rcases hi with rfl | hi
    · rw [hget] at hv
      by_cases hk : k = x
      · simp only [hk, and_self, ↓reduceIte, Option.some.injEq] at hv
        exact .inr ⟨by rw [hk]; exact hx, hv.symm, by rw [hk]; exact hxL⟩
      · simp only [hk, and_false, ↓reduceIte] at hv; exact .inl hv
    · have : (storeTop st x).heap.get i = {} := Heap.get_ge _ (by simp [storeTop, Heap.length_update]; exact hi)
      rw [this] at hv; simp [Scope.get, assocGet] at hv

/-- the load of `d` was visited (twice) at some moment `stt` of the body analysis; if the name needed import then,
    a deferred entry for it, with a fresh clone as top scope, is in the final list -/
def Cov (A : List Str) (reg : Registry) (st0 st' : AState) (d : Str) : Prop :=
  ∃ stt, During A st0 stt ∧ During A stt st' ∧
    ((symbolNeedsImport reg stt.heap stt.stack.ids d).1 = true →
      ∃ e ∈ st'.deferred, e.name = d ∧ ∃ c, st0.heap.length ≤ c ∧ c < st'.heap.length ∧
        e.ids = normIds (st0.stack.ids.dropLast ++ [c]))

theorem Cov.mono {A : List Str} {reg : Registry} {st0 st st' : AState} {d : Str} (h : Cov A reg st0 st d) (hd : During A st st') : Cov A reg st0 st' d := by
  obtain ⟨stt, h1, h2, h3⟩ := h
  refine ⟨stt, h1, h2.trans hd, fun hn => ?_⟩
  obtain ⟨e, he, hen, c, hc1, hc2, hc3⟩ := h3 hn
  obtain ⟨E, hE, _⟩ := hd.deferred
  exact ⟨e, by rw [hE]; exact List.mem_append_left _ he, hen, c, hc1, Nat.lt_of_lt_of_le hc2 hd.len, hc3⟩

theorem During.topLt {A : List Str} {st0 st : AState} (h : During A st0 st) (htl : st0.stack.top < st0.heap.length) :
    st.stack.top < st.heap.length := by rw [h.stack]; exact Nat.lt_of_lt_of_le htl h.len

/-- a load inside a function body: `_visit_Load_defered` twice -/
theorem loadF {A : List Str} (reg : Registry) {st0 st : AState} (d : Str) (h0 : During A st0 st) (htl : st0.stack.top < st0.heap.length)
    (hf : st.inFunc = true) :
    During A st0 (runOps reg st [.load d]) ∧ During A st (runOps reg st [.load d]) ∧ Cov A reg st0 (runOps reg st [.load d]) d := by
  have hrun : runOps reg st [.load d] = deferLoad reg (deferLoad reg st d) d := by simp [runOps, step, hf]
  rw [hrun]
  obtain ⟨d1, c1⟩ := during_deferLoad reg st d (h0.topLt htl)
  obtain ⟨d2, _⟩ := during_deferLoad reg (deferLoad reg st d) d ((h0.trans d1).topLt htl)
  refine ⟨(h0.trans d1).trans d2, d1.trans d2, st, h0, d1.trans d2, fun hn => ?_⟩
  obtain ⟨e, he, hen, hids, hlen⟩ := c1 hn
  obtain ⟨E, hE, _⟩ := d2.deferred
  refine ⟨e, by rw [hE]; exact List.mem_append_left _ he, hen, st.heap.length, h0.len, Nat.lt_of_lt_of_le hlen d2.len, ?_⟩
  rw [hids, h0.stack]

theorem loadsF {A : List Str} (reg : Registry) {st0 : AState} (htl : st0.stack.top < st0.heap.length) : ∀ (L : List Str) (st : AState),
    During A st0 st → st.inFunc = true →
    During A st0 (runOps reg st (L.map Op.load)) ∧ During A st (runOps reg st (L.map Op.load)) ∧
    ∀ d ∈ L, Cov A reg st0 (runOps reg st (L.map Op.load)) d
  | [], st, h0, _ => ⟨h0, During.refl st, fun d hd => by simp at hd⟩
  | d :: L, st, h0, hf => by
    have hsplit : runOps reg st ((d :: L).map Op.load) = runOps reg (runOps reg st [.load d]) (L.map Op.load) := by
      rw [← runOps_append]; rfl
    rw [hsplit]
    obtain ⟨a1, a2, a3⟩ := loadF reg d h0 htl hf
    obtain ⟨b1, b2, b3⟩ := loadsF reg htl L _ a1 (by rw [a2.inFunc]; exact hf)
    refine ⟨b1, a2.trans b2, fun x hx => ?_⟩
    rcases List.mem_cons.mp hx with rfl | hx
    · exact a3.mono b2
    · exact b3 x hx

/-- the dotted names loaded by the statements of a function body -/
def stmtLoads : Stmt → List Str
  | .expr e => loadsOf e
  | .assign _ e => loadsOf e
  | .return_ (some e) => loadsOf e
  | .located _ s => stmtLoads s
  | _ => []

def bodyLoads : List Stmt → List Str
  | [] => []
  | s :: r => stmtLoads s ++ bodyLoads r

theorem During.setLine {A : List Str} (st : AState) (l : Nat) : During A st { st with line := l } :=
  ⟨rfl, rfl, rfl, rfl, rfl, rfl, Nat.le_refl _, fun _ _ _ => rfl, fun k v h => ⟨v, h⟩,
   fun i hi k v h => by
     change (st.heap.get i).get k = some v at h
     rw [Heap.get_ge _ hi] at h; simp [Scope.get, assocGet] at h,
   fun i hi k v h => by
     change (st.heap.get i).get k = some v at h
     rcases hi with rfl | hi
     · exact .inl h
     · rw [Heap.get_ge _ hi] at h; simp [Scope.get, assocGet] at h,
   ⟨[], by simp, fun e he => by simp at he⟩⟩

theorem allNames_inFunc (reg : Registry) (st : AState) (ns : List Str) (hf : st.inFunc = true) :
    runOps reg st [.allNames ns] = st := by simp [runOps, step, hf]

/-- one statement of a function body -/
theorem stmtF {A : List Str} (fx : Fixes) (reg : Registry) (D : Bool) {st0 : AState} (htl : st0.stack.top < st0.heap.length) :
    ∀ (stmt : Stmt) (ln : Nat) (st : AState), fbodyStmt D stmt = true → (∀ x ∈ boundStmt stmt, x ∈ A) →
    During A st0 st → st.inFunc = true →
    During A st0 (runOps reg st (cStmt fx ln stmt)) ∧ During A st (runOps reg st (cStmt fx ln stmt)) ∧
    ∀ d ∈ stmtLoads stmt, Cov A reg st0 (runOps reg st (cStmt fx ln stmt)) d
  | .expr e, ln, st, hfr, _, h0, hf => by
    simp only [cStmt, stmtLoads, cExpr_loads fx D e (by simpa [fbodyStmt] using hfr)]
    exact loadsF reg htl _ st h0 hf
  | .assign ts e, ln, st, hfr, hA, h0, hf => by
    simp only [fbodyStmt, Bool.and_eq_true] at hfr
    cases hsn : singleName ts with
    | none => rw [hsn] at hfr; simp at hfr
    | some x =>
      have hts := singleName_eq hsn; subst hts
      rw [hsn] at hfr
      obtain ⟨a1, a2, a3⟩ := loadsF reg htl (loadsOf e) st h0 hf
      have hf1 : (runOps reg st ((loadsOf e).map Op.load)).inFunc = true := by rw [a2.inFunc]; exact hf
      have hst : runOps reg (runOps reg st ((loadsOf e).map Op.load)) (cTargets fx [Expr.name x]) =
          storeTop (runOps reg st ((loadsOf e).map Op.load)) x := by simp [cTargets, cTarget, runOps, step]
      have b := during_store (A := A) (runOps reg st ((loadsOf e).map Op.load)) x hfr.1
        (hA x (by simp [boundStmt, targetsNames, targetNames])) (a1.topLt htl)
      have hall : runOps reg (storeTop (runOps reg st ((loadsOf e).map Op.load)) x) (cAll [Expr.name x] e) =
          storeTop (runOps reg st ((loadsOf e).map Op.load)) x := by
        rcases cAll_cases x e with h | ⟨_, ns, h⟩
        · rw [h]; rfl
        · rw [h]; exact allNames_inFunc reg _ ns hf1
      simp only [cStmt, stmtLoads, runOps_append, cExpr_loads fx D e hfr.2, hst, hall]
      exact ⟨a1.trans b, a2.trans b, fun d hd => (a3 d hd).mono b⟩
  | .pass, ln, st, _, _, h0, _ => by
    simp only [cStmt, stmtLoads]
    exact ⟨h0, During.refl st, fun d hd => by simp at hd⟩
  | .return_ none, ln, st, _, _, h0, _ => by
    simp only [cStmt, cOptExpr, stmtLoads]
    exact ⟨h0, During.refl st, fun d hd => by simp at hd⟩
  | .return_ (some e), ln, st, hfr, _, h0, hf => by
    simp only [cStmt, cOptExpr, stmtLoads, cExpr_loads fx D e (by simpa [fbodyStmt] using hfr)]
    exact loadsF reg htl _ st h0 hf
  | .located l s', ln, st, hfr, hA, h0, hf => by
    simp only [cStmt, stmtLoads, runOps_setLine]
    have hl := During.setLine (A := A) st l
    obtain ⟨a1, a2, a3⟩ := stmtF fx reg D htl s' l { st with line := l } (by simpa [fbodyStmt] using hfr)
      (by simpa [boundStmt] using hA) (h0.trans hl) hf
    exact ⟨a1, hl.trans a2, a3⟩
  | .augAssign _ _, _, _, hfr, _, _, _ => by simp [fbodyStmt] at hfr
  | .annAssign _ _ _, _, _, hfr, _, _, _ => by simp [fbodyStmt] at hfr
  | .import_ _, _, _, hfr, _, _, _ => by simp [fbodyStmt] at hfr
  | .importFrom _ _, _, _, hfr, _, _, _ => by simp [fbodyStmt] at hfr
  | .funcDef _ _ _ _ _, _, _, hfr, _, _, _ => by simp [fbodyStmt] at hfr
  | .classDef _ _ _ _, _, _, hfr, _, _, _ => by simp [fbodyStmt] at hfr
  | .for_ _ _ _ _, _, _, hfr, _, _, _ => by simp [fbodyStmt] at hfr
  | .while_ _ _ _, _, _, hfr, _, _, _ => by simp [fbodyStmt] at hfr
  | .if_ _ _ _, _, _, hfr, _, _, _ => by simp [fbodyStmt] at hfr
  | .with_ _ _, _, _, hfr, _, _, _ => by simp [fbodyStmt] at hfr
  | .try_ _ _ _ _, _, _, hfr, _, _, _ => by simp [fbodyStmt] at hfr
  | .raise_ _, _, _, hfr, _, _, _ => by simp [fbodyStmt] at hfr
  | .delete _, _, _, hfr, _, _, _ => by simp [fbodyStmt] at hfr
  | .global_ _, _, _, hfr, _, _, _ => by simp [fbodyStmt] at hfr
  | .nonlocal_ _, _, _, hfr, _, _, _ => by simp [fbodyStmt] at hfr

theorem bodyF {A : List Str} (fx : Fixes) (reg : Registry) (D : Bool) {st0 : AState} (htl : st0.stack.top < st0.heap.length) :
    ∀ (body : List Stmt) (ln : Nat) (st : AState), body.all (fbodyStmt D) = true → (∀ x ∈ boundStmts body, x ∈ A) →
    During A st0 st → st.inFunc = true →
    During A st0 (runOps reg st (cStmts fx ln body)) ∧ During A st (runOps reg st (cStmts fx ln body)) ∧
    ∀ d ∈ bodyLoads body, Cov A reg st0 (runOps reg st (cStmts fx ln body)) d
  | [], _, st, _, _, h0, _ => by
    simp only [cStmts, bodyLoads]; exact ⟨h0, During.refl st, fun d hd => by simp at hd⟩
  | s :: r, ln, st, hfr, hA, h0, hf => by
    simp only [List.all_cons, Bool.and_eq_true] at hfr
    simp only [cStmts, bodyLoads, runOps_append]
    simp only [boundStmts, List.mem_append] at hA
    obtain ⟨a1, a2, a3⟩ := stmtF fx reg D htl s ln st hfr.1 (fun x hx => hA x (.inl hx)) h0 hf
    obtain ⟨b1, b2, b3⟩ := bodyF fx reg D htl r ln _ hfr.2 (fun x hx => hA x (.inr hx)) a1 (by rw [a2.inFunc]; exact hf)
    refine ⟨b1, a2.trans b2, fun d hd => ?_⟩
    rcases List.mem_append.mp hd with hd | hd
    · exact (a3 d hd).mono b2
    · exact b3 d hd

/-- the deferred entries added between two states carry names of `N` -/
def DN (N : List Str) (st stt : AState) : Prop := ∃ E, stt.deferred = st.deferred ++ E ∧ ∀ e ∈ E, e.name ∈ N

theorem DN.refl (N : List Str) (st : AState) : DN N st st := ⟨[], by simp, fun e he => by simp at he⟩

theorem DN.trans {N1 N2 N : List Str} {a b c : AState} (h1 : DN N1 a b) (h2 : DN N2 b c) (s1 : ∀ x ∈ N1, x ∈ N)
    (s2 : ∀ x ∈ N2, x ∈ N) : DN N a c := by
  obtain ⟨E1, e1, f1⟩ := h1
  obtain ⟨E2, e2, f2⟩ := h2
  refine ⟨E1 ++ E2, by rw [e2, e1, List.append_assoc], fun e he => ?_⟩
  rcases List.mem_append.mp he with he | he
  · exact s1 _ (f1 e he)
  · exact s2 _ (f2 e he)

theorem dn_deferLoad (reg : Registry) (st : AState) (d : Str) : DN [d] st (deferLoad reg st d) := by
  unfold deferLoad
  dsimp only
  split
  · exact ⟨[⟨d, _, st.line⟩], rfl, fun e he => by simp only [List.mem_singleton] at he; subst he; simp⟩
  · exact ⟨[], by simp [AState.emit], fun e he => by simp at he⟩

theorem dn_loads (reg : Registry) : ∀ (L : List Str) (st : AState), st.inFunc = true →
    DN L st (runOps reg st (L.map Op.load)) ∧ (runOps reg st (L.map Op.load)).inFunc = true
  | [], st, hf => ⟨DN.refl _ st, hf⟩
  | d :: L, st, hf => by
    have hrun : runOps reg st ((d :: L).map Op.load) =
        runOps reg (deferLoad reg (deferLoad reg st d) d) (L.map Op.load) := by simp [runOps, step, hf]
    rw [hrun]
    have hinf : ∀ s0 : AState, (deferLoad reg s0 d).inFunc = s0.inFunc := by
      intro s0; unfold deferLoad; dsimp only; split <;> rfl
    have h1 := dn_deferLoad reg st d
    have h2 := dn_deferLoad reg (deferLoad reg st d) d
    obtain ⟨h3, h4⟩ := dn_loads reg L (deferLoad reg (deferLoad reg st d) d) (by rw [hinf, hinf]; exact hf)
    refine ⟨?_, h4⟩
    have h12 : DN [d] st (deferLoad reg (deferLoad reg st d) d) := h1.trans h2 (fun x hx => hx) (fun x hx => hx)
    exact h12.trans h3 (fun x hx => by simp only [List.mem_singleton] at hx; subst hx; exact List.mem_cons_self ..)
      (fun x hx => List.mem_cons_of_mem _ hx)

theorem dn_of_deferred_eq {N : List Str} {st stt : AState} (h : stt.deferred = st.deferred) : DN N st stt :=
  ⟨[], by rw [h]; simp, fun e he => by simp at he⟩

/-- the names of the entries deferred by a function body are loads of the body -/
theorem dn_stmt (fx : Fixes) (reg : Registry) (D : Bool) : ∀ (stmt : Stmt) (ln : Nat) (st : AState), fbodyStmt D stmt = true →
    st.inFunc = true → DN (stmtLoads stmt) st (runOps reg st (cStmt fx ln stmt)) ∧ (runOps reg st (cStmt fx ln stmt)).inFunc = true
  | .expr e, ln, st, hfr, hf => by
    simp only [cStmt, stmtLoads, cExpr_loads fx D e (by simpa [fbodyStmt] using hfr)]
    exact dn_loads reg _ st hf
  | .assign ts e, ln, st, hfr, hf => by
    simp only [fbodyStmt, Bool.and_eq_true] at hfr
    cases hsn : singleName ts with
    | none => rw [hsn] at hfr; simp at hfr
    | some x =>
      have hts := singleName_eq hsn; subst hts
      obtain ⟨a1, a2⟩ := dn_loads reg (loadsOf e) st hf
      have hst : runOps reg (runOps reg st ((loadsOf e).map Op.load)) (cTargets fx [Expr.name x]) =
          storeTop (runOps reg st ((loadsOf e).map Op.load)) x := by simp [cTargets, cTarget, runOps, step]
      have hall : runOps reg (storeTop (runOps reg st ((loadsOf e).map Op.load)) x) (cAll [Expr.name x] e) =
          storeTop (runOps reg st ((loadsOf e).map Op.load)) x := by
        rcases cAll_cases x e with h | ⟨_, ns, h⟩
        · rw [h]; rfl
        · rw [h]; exact allNames_inFunc reg _ ns a2
      simp only [cStmt, stmtLoads, runOps_append, cExpr_loads fx D e hfr.2, hst, hall]
      exact ⟨a1.trans (dn_of_deferred_eq (N := []) rfl) (fun x hx => hx) (fun x hx => by simp at hx), a2⟩
  | .pass, ln, st, _, hf => by simp only [cStmt, stmtLoads]; exact ⟨DN.refl _ st, hf⟩
  | .return_ none, ln, st, _, hf => by simp only [cStmt, cOptExpr, stmtLoads]; exact ⟨DN.refl _ st, hf⟩
  | .return_ (some e), ln, st, hfr, hf => by
    simp only [cStmt, cOptExpr, stmtLoads, cExpr_loads fx D e (by simpa [fbodyStmt] using hfr)]
    exact dn_loads reg _ st hf
  | .located l s', ln, st, hfr, hf => by
    simp only [cStmt, stmtLoads, runOps_setLine]
    obtain ⟨a1, a2⟩ := dn_stmt fx reg D s' l { st with line := l } (by simpa [fbodyStmt] using hfr) hf
    exact ⟨(dn_of_deferred_eq (N := []) (st := st) (stt := { st with line := l }) rfl).trans a1 (fun x hx => by simp at hx)
      (fun x hx => hx), a2⟩
  | .augAssign _ _, _, _, hfr, _ => by simp [fbodyStmt] at hfr
  | .annAssign _ _ _, _, _, hfr, _ => by simp [fbodyStmt] at hfr
  | .import_ _, _, _, hfr, _ => by simp [fbodyStmt] at hfr
  | .importFrom _ _, _, _, hfr, _ => by simp [fbodyStmt] at hfr
  | .funcDef _ _ _ _ _, _, _, hfr, _ => by simp [fbodyStmt] at hfr
  | .classDef _ _ _ _, _, _, hfr, _ => by simp [fbodyStmt] at hfr
  | .for_ _ _ _ _, _, _, hfr, _ => by simp [fbodyStmt] at hfr
  | .while_ _ _ _, _, _, hfr, _ => by simp [fbodyStmt] at hfr
  | .if_ _ _ _, _, _, hfr, _ => by simp [fbodyStmt] at hfr
  | .with_ _ _, _, _, hfr, _ => by simp [fbodyStmt] at hfr
  | .try_ _ _ _ _, _, _, hfr, _ => by simp [fbodyStmt] at hfr
  | .raise_ _, _, _, hfr, _ => by simp [fbodyStmt] at hfr
  | .delete _, _, _, hfr, _ => by simp [fbodyStmt] at hfr
  | .global_ _, _, _, hfr, _ => by simp [fbodyStmt] at hfr
  | .nonlocal_ _, _, _, hfr, _ => by simp [fbodyStmt] at hfr

theorem dn_body (fx : Fixes) (reg : Registry) (D : Bool) : ∀ (body : List Stmt) (ln : Nat) (st : AState),
    body.all (fbodyStmt D) = true → st.inFunc = true →
    DN (bodyLoads body) st (runOps reg st (cStmts fx ln body)) ∧ (runOps reg st (cStmts fx ln body)).inFunc = true
  | [], _, st, _, hf => by simp only [cStmts, bodyLoads]; exact ⟨DN.refl _ st, hf⟩
  | s :: r, ln, st, hfr, hf => by
    simp only [List.all_cons, Bool.and_eq_true] at hfr
    simp only [cStmts, bodyLoads, runOps_append]
    obtain ⟨a1, a2⟩ := dn_stmt fx reg D s ln st hfr.1 hf
    obtain ⟨b1, b2⟩ := dn_body fx reg D r ln _ hfr.2 a2
    exact ⟨a1.trans b1 (fun x hx => List.mem_append_left _ hx) (fun x hx => List.mem_append_right _ hx), b2⟩

/-! ### the module-level shape that function definitions rely on -/

structure StackOK (st : AState) : Prop where
  wf : normIds st.stack.ids = st.stack.ids
  idsLt : ∀ i ∈ st.stack.ids, i < st.heap.length
  noClass : ∀ i ∈ st.stack.ids, (st.heap.get i).isClass = false
  delayedEmpty : (st.heap.get delayedId).items = []
  len3 : 3 ≤ st.heap.length

structure ModInv (st : AState) : Prop where
  inFunc : st.inFunc = false
  inClass : st.inClass = 0
  ok : StackOK st

theorem withNewScope_ids {st : AState} (h : StackOK st) (ic uh : Bool) :
    (st.stack.withNewScope st.heap ic uh st.heap.length).ids = st.stack.ids ++ [st.heap.length] := by
  unfold StackRef.withNewScope
  dsimp only
  have hfilter : (if ic = true then st.stack.ids else st.stack.ids.filter (fun i => !(st.heap.get i).isClass)) = st.stack.ids := by
    split
    · rfl
    · apply List.filter_eq_self.mpr
      intro i hi; simp [h.noClass i hi]
  have hdel : ¬ (uh = true ∧ st.stack.sharedDelayed = true ∧ (st.heap.get delayedId).items ≠ []) := by
    intro hc; exact hc.2.2 h.delayedEmpty
  rw [hfilter, if_neg hdel]
  have hfresh : st.heap.length ∉ st.stack.ids := fun hm => Nat.lt_irrefl _ (h.idsLt _ hm)
  have := h.len3
  rw [normIds_snoc_fresh (by omega) (by omega) hfresh, h.wf]

theorem step_push {reg : Registry} {st : AState} (h : StackOK st) (ic nc uh : Bool) :
    step reg st (.pushScope ic nc uh) =
      { st with heap := st.heap ++ [{ isClass := nc }], saved := st.stack :: st.saved,
                stack := { ids := st.stack.ids ++ [st.heap.length], sharedDelayed := st.stack.sharedDelayed } } := by
  simp only [step]
  congr 1
  have := withNewScope_ids h ic uh
  cases hw : st.stack.withNewScope st.heap ic uh st.heap.length with
  | mk ids sd =>
    rw [hw] at this
    simp only at this
    subst this
    simp only [StackRef.mk.injEq, true_and]
    unfold StackRef.withNewScope at hw
    simp only [StackRef.mk.injEq] at hw
    exact hw.2.symm

/-- the state right after `pushScope` is again a well-shaped stack (if the new scope is not a class scope) -/
theorem stackOK_push {st : AState} (h : StackOK st) :
    StackOK { st with heap := st.heap ++ [({} : Scope)],
                      stack := { ids := st.stack.ids ++ [st.heap.length], sharedDelayed := st.stack.sharedDelayed } } := by
  have hfresh : st.heap.length ∉ st.stack.ids := fun hm => Nat.lt_irrefl _ (h.idsLt _ hm)
  have h3 := h.len3
  refine ⟨?_, ?_, ?_, ?_, by simp; omega⟩
  · show normIds (st.stack.ids ++ [st.heap.length]) = _
    rw [normIds_snoc_fresh (by omega) (by omega) hfresh, h.wf]
  · intro i hi
    simp only [List.mem_append, List.mem_singleton] at hi
    simp only [List.length_append, List.length_singleton]
    rcases hi with hi | rfl
    · have := h.idsLt i hi; omega
    · omega
  · intro i hi
    simp only [List.mem_append, List.mem_singleton] at hi
    rcases hi with hi | rfl
    · show (Heap.get (st.heap ++ [_]) i).isClass = false
      rw [Heap.get_append_left _ _ (h.idsLt i hi)]; exact h.noClass i hi
    · show (Heap.get (st.heap ++ [_]) st.heap.length).isClass = false
      rw [Heap.get_append_new]
  · show (Heap.get (st.heap ++ [_]) delayedId).items = []
    rw [Heap.get_append_left _ _ (by unfold delayedId; omega)]; exact h.delayedEmpty

/-! ### the analysis of `def name(params): body` at module level -/

def pushed (st : AState) : AState :=
  { st with heap := st.heap ++ [({} : Scope)], saved := st.stack :: st.saved,
            stack := { ids := st.stack.ids ++ [st.heap.length], sharedDelayed := st.stack.sharedDelayed } }

theorem runOps_cons' (reg : Registry) (st : AState) (o : Op) (ops : List Op) :
    runOps reg st (o :: ops) = runOps reg (step reg st o) ops := rfl

theorem up_pushed (st : AState) (h : StackOK st) : (pushed st).stack.up = { ids := st.stack.ids, sharedDelayed := false } := by
  unfold StackRef.up pushed
  simp only [List.dropLast_concat, h.wf]

theorem paramNames_simple : ∀ (ps : List Param), ps.all simpleParam = true → ∀ n ∈ paramNames ps, simpleName n = true
  | [], _, n, hn => by simp [paramNames] at hn
  | .mk x none :: r, h, n, hn => by
    simp only [List.all_cons, Bool.and_eq_true, simpleParam] at h
    simp only [paramNames, List.mem_cons] at hn
    rcases hn with rfl | hn
    · exact h.1
    · exact paramNames_simple r h.2 n hn
  | .mk x (some _) :: r, h, _, _ => by simp [simpleParam] at h

theorem cParams_simple (fx : Fixes) : ∀ (ps : List Param), ps.all simpleParam = true → cParams fx ps = (paramNames ps).map Op.store
  | [], _ => rfl
  | .mk x none :: r, h => by
    simp only [List.all_cons, Bool.and_eq_true] at h
    simp only [cParams, paramNames, List.map_cons, cParams_simple fx r h.2]
  | .mk x (some _) :: r, h => by simp [simpleParam] at h

theorem cParamAnns_simple (fx : Fixes) : ∀ (ps : List Param), ps.all simpleParam = true → cParamAnns fx ps = []
  | [], _ => rfl
  | .mk x none :: r, h => by
    simp only [List.all_cons, Bool.and_eq_true] at h
    simp only [cParamAnns, cParamAnns_simple fx r h.2]
  | .mk x (some _) :: r, h => by simp [simpleParam] at h

theorem runOps_stores (reg : Registry) (names : List Str) (st : AState) :
    runOps reg st (names.map Op.store) = names.foldl storeTop st := by
  induction names generalizing st with
  | nil => rfl
  | cons n r ih => simp only [List.map_cons, runOps_cons', List.foldl_cons]; exact ih _

/-- the state in which the analysis of the body of `def name(params)` starts -/
def bodyStart (st : AState) (ln : Nat) (name : Str) (params : List Str) : AState :=
  let s1 := params.foldl storeTop { pushed st with line := ln }
  let s2 : AState := { s1 with savedFunc := s1.inFunc :: s1.savedFunc, inFunc := true }
  storeTop (pushed s2) name

theorem def_prefix (fx : Fixes) (reg : Registry) {st : AState} (h : ModInv st) (ln : Nat) (name : Str) (ps : List Param)
    (hps : ps.all simpleParam = true) :
    runOps reg st ([.pushScope true false false, .dunderClass] ++ cDecos fx ln [] ++ [.setLine ln] ++
        cArgs fx (.mk ps [] none [] [] none) ++ cRet fx none ++
        [.enterFunc, .pushScope false false true, .storeIfNotInClass name]) = bodyStart st ln name (paramNames ps) := by
  have hst1 : ∀ s1 : AState, s1.stack = (pushed st).stack → s1.heap.length = (pushed st).heap.length →
      (∀ i, i < st.heap.length → s1.heap.get i = st.heap.get i) → (s1.heap.get st.heap.length).isClass = false → StackOK s1 := by
    intro s1 hs hl hold hc
    have hp := stackOK_push h.ok
    refine ⟨by rw [hs]; exact hp.wf, fun i hi => by rw [hs] at hi; rw [hl]; exact hp.idsLt i hi, ?_, ?_, by rw [hl]; exact hp.len3⟩
    · intro i hi
      rw [hs] at hi
      change i ∈ st.stack.ids ++ [st.heap.length] at hi
      simp only [List.mem_append, List.mem_singleton] at hi
      rcases hi with hi | rfl
      · rw [hold i (h.ok.idsLt i hi)]; exact h.ok.noClass i hi
      · exact hc
    · have : delayedId < st.heap.length := by unfold delayedId; have := h.ok.len3; omega
      rw [hold _ this]; exact h.ok.delayedEmpty
  simp only [cDecos, cArgs, cRet, cOptExpr, cExprs, cOptExprs, cParamAnns, cParamAnns_simple fx ps hps, ite_self,
    List.append_nil, List.nil_append, List.cons_append, List.append_assoc, cParams_simple fx ps hps]
  rw [runOps_cons', step_push h.ok]
  -- dunderClass (not in a class), setLine, upScope, downScope
  have e2 : step reg (pushed st) .dunderClass = pushed st := by
    have : (pushed st).inClass = 0 := h.inClass
    simp [step, this]
  show runOps reg (pushed st) _ = _
  rw [runOps_cons', e2, runOps_cons']
  show runOps reg { pushed st with line := ln } _ = _
  rw [runOps_cons']
  let sL : AState := { pushed st with line := ln }
  let sU : AState := { sL with saved := sL.stack :: sL.saved, stack := { ids := st.stack.ids, sharedDelayed := false } }
  have e3 : step reg sL .upScope = sU := by
    simp only [step, sU]
    rw [show sL.stack = (pushed st).stack from rfl, up_pushed st h.ok]
  have e4 : step reg sU .downScope = sL := by
    simp [step, sU, sL]
  show runOps reg (step reg sL .upScope) _ = _
  rw [e3, runOps_cons', e4, runOps_append, runOps_stores]
  -- parameters are stored in the argument scope; then enterFunc, push the body scope, store the function's own name
  have htopL : sL.stack.top = st.heap.length := by
    show (pushed st).stack.top = _
    unfold pushed StackRef.top; simp [List.getLastD_eq_getLast?]
  have hk := storeKeys_get (paramNames ps) sL (by rw [htopL]; show st.heap.length < (st.heap ++ [_]).length; simp)
  have hcellOld : ∀ (names : List Str) (s0 : AState) (i : Nat), s0.stack.top = st.heap.length → i ≠ st.heap.length →
      (names.foldl storeTop s0).heap.get i = s0.heap.get i := by
    intro names
    induction names with
    | nil => intro s0 i _ _; rfl
    | cons n r ih =>
      intro s0 i ht hi
      simp only [List.foldl_cons]
      rw [ih (storeTop s0 n) i ht hi]
      simp only [storeTop, Heap.get_update, ht]
      simp [hi]
  have hclassA : ∀ (names : List Str) (s0 : AState),
      ((names.foldl storeTop s0).heap.get st.heap.length).isClass = (s0.heap.get st.heap.length).isClass := by
    intro names
    induction names with
    | nil => intro s0; rfl
    | cons n r ih =>
      intro s0
      simp only [List.foldl_cons]
      rw [ih]
      simp only [storeTop, Heap.get_update]
      split
      · rename_i hc; rw [← hc.1]; rfl
      · rfl
  have hinClass : ∀ (names : List Str) (s0 : AState), (names.foldl storeTop s0).inClass = s0.inClass := by
    intro names
    induction names with
    | nil => intro s0; rfl
    | cons n r ih => intro s0; simp only [List.foldl_cons]; rw [ih]; rfl
  obtain ⟨k1, k2, _, _, _, _⟩ := hk
  have hok2 : StackOK { (paramNames ps).foldl storeTop sL with
      savedFunc := ((paramNames ps).foldl storeTop sL).inFunc :: ((paramNames ps).foldl storeTop sL).savedFunc, inFunc := true } := by
    apply hst1
    · exact k1
    · exact k2
    · intro i hi
      show ((paramNames ps).foldl storeTop sL).heap.get i = _
      rw [hcellOld _ sL i htopL (by omega)]
      show Heap.get (st.heap ++ [_]) i = _
      exact Heap.get_append_left _ _ hi
    · show (((paramNames ps).foldl storeTop sL).heap.get st.heap.length).isClass = false
      rw [hclassA]
      show (Heap.get (st.heap ++ [_]) st.heap.length).isClass = false
      rw [Heap.get_append_new]
  simp only [cParams, List.nil_append]
  rw [runOps_cons']
  show runOps reg { (paramNames ps).foldl storeTop sL with
      savedFunc := ((paramNames ps).foldl storeTop sL).inFunc :: ((paramNames ps).foldl storeTop sL).savedFunc, inFunc := true } _ = _
  rw [runOps_cons', step_push hok2]
  have e7 : ∀ s2 : AState, s2.inClass = 0 → step reg s2 (.storeIfNotInClass name) = storeTop s2 name := by
    intro s2 h2; simp [step, h2]
  rw [runOps_cons', e7 _ (by show ((paramNames ps).foldl storeTop sL).inClass = 0; rw [hinClass]; exact h.inClass)]
  rfl

theorem pushed_top (st : AState) : (pushed st).stack.top = st.heap.length := by
  unfold pushed StackRef.top; simp [List.getLastD_eq_getLast?]

theorem pushed_get_old (st : AState) {i : Nat} (hi : i < st.heap.length) : (pushed st).heap.get i = st.heap.get i :=
  Heap.get_append_left _ _ hi

theorem pushed_get_new (st : AState) : (pushed st).heap.get st.heap.length = {} := Heap.get_append_new _ _

/-- the state in which the body of `def name(params)` is analysed -/
theorem bodyStart_facts (st : AState) (hf : st.inFunc = false) (ln : Nat) (name : Str) (pn : List Str) :
    let sB := bodyStart st ln name pn
    sB.inFunc = true ∧ sB.inClass = st.inClass ∧ sB.missing = st.missing ∧ sB.deferred = st.deferred ∧
    sB.heap.length = st.heap.length + 2 ∧ sB.stack.ids = st.stack.ids ++ [st.heap.length] ++ [st.heap.length + 1] ∧
    sB.saved = { ids := st.stack.ids ++ [st.heap.length], sharedDelayed := st.stack.sharedDelayed } :: st.stack :: st.saved ∧
    sB.savedFunc = false :: st.savedFunc ∧
    (∀ i, i < st.heap.length → sB.heap.get i = st.heap.get i) ∧
    (∀ k, (sB.heap.get st.heap.length).get k = if k ∈ pn then some Val.none else none) ∧
    (∀ k, (sB.heap.get (st.heap.length + 1)).get k = if k = name then some Val.none else none) := by
  intro sB
  -- the argument scope after the parameters
  have hk := storeKeys_get pn { pushed st with line := ln }
    (by show (pushed st).stack.top < (pushed st).heap.length
        rw [pushed_top]; show st.heap.length < (st.heap ++ [_]).length; simp)
  obtain ⟨k1, k2, k3, k4, k5, k6⟩ := hk
  let s1 := pn.foldl storeTop { pushed st with line := ln }
  let s2 : AState := { s1 with savedFunc := s1.inFunc :: s1.savedFunc, inFunc := true }
  have hsB : sB = storeTop (pushed s2) name := rfl
  have hlen1 : s1.heap.length = st.heap.length + 1 := by
    show (pn.foldl storeTop { pushed st with line := ln }).heap.length = _
    rw [k2]; show (st.heap ++ [_]).length = _; simp
  have hstack1 : s1.stack = (pushed st).stack := k1
  have htop2 : (pushed s2).stack.top = st.heap.length + 1 := by rw [pushed_top]; exact hlen1
  have hgetB : ∀ i n, (sB.heap.get i).get n = if i = st.heap.length + 1 ∧ n = name then some Val.none
      else ((pushed s2).heap.get i).get n := by
    intro i n
    have hlt : (pushed s2).stack.top < (pushed s2).heap.length := by
      rw [htop2]
      show st.heap.length + 1 < (s1.heap ++ [_]).length
      rw [List.length_append, hlen1]; simp
    rw [hsB, storeTop_get (pushed s2) hlt, htop2]
  have hinF1 : s1.inFunc = false := by
    show (pn.foldl storeTop { pushed st with line := ln }).inFunc = false
    rw [k3]; exact hf
  have hinClass : ∀ (names : List Str) (s0 : AState), (names.foldl storeTop s0).inClass = s0.inClass := by
    intro names
    induction names with
    | nil => intro s0; rfl
    | cons n r ih => intro s0; simp only [List.foldl_cons]; rw [ih]; rfl
  have hsaved : ∀ (names : List Str) (s0 : AState), (names.foldl storeTop s0).saved = s0.saved ∧
      (names.foldl storeTop s0).savedFunc = s0.savedFunc := by
    intro names
    induction names with
    | nil => intro s0; exact ⟨rfl, rfl⟩
    | cons n r ih => intro s0; simp only [List.foldl_cons]; exact ih _
  refine ⟨rfl, ?_, ?_, ?_, ?_, ?_, ?_, ?_, ?_, ?_, ?_⟩
  · show s1.inClass = st.inClass
    exact hinClass pn _
  · show s1.missing = st.missing
    exact k4
  · show s1.deferred = st.deferred
    exact k5
  · rw [hsB]; simp only [storeTop, Heap.length_update]
    show (s2.heap ++ [_]).length = _
    simp; exact hlen1
  · show s1.stack.ids ++ [s1.heap.length] = _
    rw [hstack1, hlen1]; rfl
  · show ({ ids := s1.stack.ids, sharedDelayed := s1.stack.sharedDelayed } : StackRef) :: s1.saved = _
    rw [hstack1, (hsaved pn _).1]; rfl
  · show s1.inFunc :: s1.savedFunc = _
    rw [hinF1, (hsaved pn _).2]; rfl
  · intro i hi
    -- compare cells through `Heap.get_update` / append
    rw [hsB]
    simp only [storeTop, Heap.get_update, htop2]
    have : i ≠ st.heap.length + 1 := by omega
    simp only [this, false_and, ↓reduceIte]
    show Heap.get (s1.heap ++ [_]) i = _
    rw [Heap.get_append_left _ _ (by omega)]
    have hgen : ∀ (names : List Str) (s0 : AState), s0.stack.top = st.heap.length →
        (names.foldl storeTop s0).heap.get i = s0.heap.get i := by
      intro names
      induction names with
      | nil => intro s0 _; rfl
      | cons n r ih =>
        intro s0 ht
        simp only [List.foldl_cons]
        rw [ih (storeTop s0 n) ht]
        simp only [storeTop, Heap.get_update, ht]
        have : i ≠ st.heap.length := by omega
        simp [this]
    show (pn.foldl storeTop { pushed st with line := ln }).heap.get i = _
    exact (hgen pn { pushed st with line := ln } (pushed_top st)).trans (pushed_get_old st hi)
  · intro k
    rw [hgetB]
    have : ¬ (st.heap.length = st.heap.length + 1 ∧ k = name) := by omega
    rw [if_neg this]
    show ((Heap.get (s1.heap ++ [_]) st.heap.length)).get k = _
    rw [Heap.get_append_left _ _ (by omega)]
    show ((pn.foldl storeTop { pushed st with line := ln }).heap.get st.heap.length).get k = _
    rw [k6]
    have ht : ({ pushed st with line := ln } : AState).stack.top = st.heap.length := pushed_top st
    rw [ht]
    by_cases hk : k ∈ pn
    · simp [hk]
    · simp only [hk, and_false, ↓reduceIte]
      show ((pushed st).heap.get st.heap.length).get k = none
      rw [pushed_get_new]; rfl
  · intro k
    rw [hgetB]
    by_cases hk : k = name
    · simp [hk]
    · simp only [hk, and_false, ↓reduceIte]
      show (Heap.get (s1.heap ++ [_]) (st.heap.length + 1)).get k = none
      rw [← hlen1, Heap.get_append_new]; rfl

theorem def_suffix (reg : Registry) (sE : AState) (S P : StackRef) (R : List StackRef) (b : Bool) (F : List Bool) (name : Str)
    (h1 : sE.saved = S :: P :: R) (h2 : sE.savedFunc = b :: F) :
    ∃ lg, runOps reg sE [.popScope, .exitFunc, .popScope, .store name] =
      storeTop { sE with stack := P, saved := R, inFunc := b, savedFunc := F, log := lg } name := by
  simp only [runOps, List.foldl_cons, List.foldl_nil, step, AState.emit, h1, h2]
  exact ⟨_, rfl⟩

/-- `h` is bound somewhere in the current stack -/
def BoundA (st : AState) (h : Str) : Prop := ∃ i ∈ normIds st.stack.ids, ∃ w, (st.heap.get i).get h = some w

theorem not_unboundA {st : AState} {h : Str} : ¬ unboundA st h ↔ BoundA st h := by
  constructor
  · intro hn
    apply Classical.byContradiction
    intro hc
    apply hn
    intro i hi
    cases hg : (st.heap.get i).get h with
    | none => rfl
    | some w => exact absurd ⟨i, hi, w, hg⟩ hc
  · rintro ⟨i, hi, w, hw⟩ hu
    rw [hu i hi] at hw; cases hw

/-- a deferred entry of a finished function body: its scopes are the module-level stack, the (frozen) argument scope
    `a` and the (frozen) clone `c` of the body scope; the two hold only names of `A` -/
def Frozen (st : AState) (A : List Str) (e : Deferred) : Prop :=
  ∃ a c, e.ids = normIds (st.stack.ids ++ [a] ++ [c]) ∧ a < st.heap.length ∧ c < st.heap.length ∧
    a ≠ st.stack.top ∧ c ≠ st.stack.top ∧
    (∀ k v, (st.heap.get a).get k = some v → k ∈ A ∧ simpleName k = true ∧ v = Val.none) ∧
    (∀ k v, (st.heap.get c).get k = some v → k ∈ A ∧ simpleName k = true ∧ v = Val.none)

theorem bodyStart_top (st : AState) (hf : st.inFunc = false) (ln : Nat) (name : Str) (pn : List Str) :
    (bodyStart st ln name pn).stack.top = st.heap.length + 1 := by
  have := (bodyStart_facts st hf ln name pn).2.2.2.2.2.1
  unfold StackRef.top; rw [this]; simp [List.getLastD_eq_getLast?]

theorem scope_set_isClass (sc : Scope) (k : Str) (v : Val) : (sc.set k v).isClass = sc.isClass := rfl

/-- the analysis of `def name(params): body` at module level -/
theorem defA (fx : Fixes) (reg : Registry) (D : Bool) {st : AState} (h : ModInv st) (htl : st.stack.top < st.heap.length)
    (ln : Nat) (name : Str) (ps : List Param) (body : List Stmt)
    (hn : simpleName name = true) (hps : ps.all simpleParam = true) (hb : body.all (fbodyStmt D) = true) :
    let st' := runOps reg st (cStmt fx ln (.funcDef name (.mk ps [] none [] [] none) body [] none))
    st'.stack = st.stack ∧ st'.inFunc = false ∧ st'.inClass = st.inClass ∧ st'.missing = st.missing ∧
    st.heap.length ≤ st'.heap.length ∧
    (∀ i, i < st.heap.length → i ≠ st.stack.top → st'.heap.get i = st.heap.get i) ∧
    (∀ n, (st'.heap.get st.stack.top).get n = if n = name then some Val.none else (st.heap.get st.stack.top).get n) ∧
    (st'.heap.get st.stack.top).isClass = (st.heap.get st.stack.top).isClass ∧
    (∃ E, st'.deferred = st.deferred ++ E ∧
      ∀ e ∈ E, e.name ∈ bodyLoads body ∧ Frozen st' (paramNames ps ++ boundStmts body ++ [name]) e) ∧
    (st.stack.top ∈ normIds st.stack.ids → (D = true → DK st) → ∀ d ∈ bodyLoads body, goodDotted d = true → (dotFree d = false → D = true) →
      headOf d ∉ paramNames ps ++ boundStmts body →
      BoundA st' (headOf d) ∨
        ∃ e ∈ st'.deferred, e.name = d ∧ Frozen st' (paramNames ps ++ boundStmts body ++ [name]) e) := by
  intro st'
  have hf := h.inFunc
  obtain ⟨b1, b2, b3, b4, b5, b6, b7, b8, b9, b10, b11⟩ := bodyStart_facts st hf ln name (paramNames ps)
  have htopB := bodyStart_top st hf ln name (paramNames ps)
  have htlB : (bodyStart st ln name (paramNames ps)).stack.top < (bodyStart st ln name (paramNames ps)).heap.length := by
    rw [htopB, b5]; omega
  obtain ⟨d1, _, d3⟩ := bodyF (A := boundStmts body) fx reg D htlB body ln _ hb (fun x hx => hx) (During.refl _) b1
  obtain ⟨lg, hsuf⟩ := def_suffix reg (runOps reg (bodyStart st ln name (paramNames ps)) (cStmts fx ln body)) _ _ _ _ _ name
    (d1.saved.trans b7) (d1.savedFunc.trans b8)
  have hst' : st' = storeTop { runOps reg (bodyStart st ln name (paramNames ps)) (cStmts fx ln body) with
      stack := st.stack, saved := st.saved, inFunc := false, savedFunc := st.savedFunc, log := lg } name := by
    show runOps reg st (cStmt fx ln (.funcDef name (.mk ps [] none [] [] none) body [] none)) = _
    simp only [cStmt]
    rw [runOps_append, runOps_append, def_prefix fx reg h ln name ps hps]
    exact hsuf
  -- names for the intermediate states
  have hlenE := d1.len
  have htopE : ∀ (lg' : List Effect), ({ runOps reg (bodyStart st ln name (paramNames ps)) (cStmts fx ln body) with
      stack := st.stack, saved := st.saved, inFunc := false, savedFunc := st.savedFunc, log := lg' } : AState).stack.top
        = st.stack.top := fun _ => rfl
  have htl' : st.stack.top < (runOps reg (bodyStart st ln name (paramNames ps)) (cStmts fx ln body)).heap.length := by
    rw [b5] at hlenE; omega
  have hget : ∀ i n, (st'.heap.get i).get n = if i = st.stack.top ∧ n = name then some Val.none
      else ((runOps reg (bodyStart st ln name (paramNames ps)) (cStmts fx ln body)).heap.get i).get n := by
    intro i n; rw [hst']; exact storeTop_get _ htl' name i n
  have hcell : ∀ i, i ≠ st.stack.top →
      st'.heap.get i = (runOps reg (bodyStart st ln name (paramNames ps)) (cStmts fx ln body)).heap.get i := by
    intro i hi
    rw [hst']
    simp only [storeTop, Heap.get_update]
    rw [if_neg (fun hc => hi hc.1)]
  have holdE : ∀ i, i < st.heap.length →
      (runOps reg (bodyStart st ln name (paramNames ps)) (cStmts fx ln body)).heap.get i = st.heap.get i := by
    intro i hi
    rw [d1.old i (by rw [b5]; omega) (by rw [htopB]; omega), b9 i hi]
  have hlen' : st'.heap.length = (runOps reg (bodyStart st ln name (paramNames ps)) (cStmts fx ln body)).heap.length := by
    rw [hst']; simp [storeTop, Heap.length_update]
  have hdef' : st'.deferred = (runOps reg (bodyStart st ln name (paramNames ps)) (cStmts fx ln body)).deferred := by
    rw [hst']; rfl
  have htopget : ∀ n, (st'.heap.get st.stack.top).get n = if n = name then some Val.none else (st.heap.get st.stack.top).get n := by
    intro n; rw [hget, holdE _ htl]; simp
  have hmono : ∀ i ∈ normIds st.stack.ids, ∀ k w, (st.heap.get i).get k = some w → ∃ w', (st'.heap.get i).get k = some w' := by
    intro i hi k w hw
    have hilt : i < st.heap.length := h.ok.idsLt i (by rw [← h.ok.wf]; exact hi)
    by_cases hit : i = st.stack.top
    · subst hit
      rw [htopget]
      by_cases hk : k = name
      · exact ⟨Val.none, by simp [hk]⟩
      · exact ⟨w, by simp [hk, hw]⟩
    · exact ⟨w, by rw [hcell i hit, holdE i hilt]; exact hw⟩
  have hfroz : ∀ (e : Deferred) (c : Nat), (bodyStart st ln name (paramNames ps)).heap.length ≤ c →
      c < (runOps reg (bodyStart st ln name (paramNames ps)) (cStmts fx ln body)).heap.length →
      e.ids = normIds ((bodyStart st ln name (paramNames ps)).stack.ids.dropLast ++ [c]) →
      Frozen st' (paramNames ps ++ boundStmts body ++ [name]) e := by
    intro e c hc1 hc2 hc3
    refine ⟨st.heap.length, c, ?_, ?_, ?_, ?_, ?_, ?_, ?_⟩
    · rw [hc3, b6, List.dropLast_concat]
      show _ = normIds (st'.stack.ids ++ _ ++ _)
      rw [hst']
      rfl
    · rw [hlen']; rw [b5] at hlenE; omega
    · rw [hlen']; exact hc2
    · show st.heap.length ≠ st'.stack.top
      rw [hst']; show st.heap.length ≠ st.stack.top; omega
    · show c ≠ st'.stack.top
      rw [hst']; show c ≠ st.stack.top; rw [b5] at hc1; omega
    · intro k v hv
      rw [hcell _ (by omega), d1.old _ (by rw [b5]; omega) (by rw [htopB]; omega), b10] at hv
      by_cases hk : k ∈ paramNames ps
      · simp only [hk, ↓reduceIte, Option.some.injEq] at hv
        exact ⟨by simp [hk], paramNames_simple ps hps k hk, hv.symm⟩
      · simp [hk] at hv
    · intro k v hv
      rw [hcell _ (by rw [b5] at hc1; omega)] at hv
      rcases d1.vals c (.inr hc1) k v hv with h1 | ⟨h1, h2, h3⟩
      · rw [htopB, b11] at h1
        by_cases hk : k = name
        · simp only [hk, ↓reduceIte, Option.some.injEq] at h1
          exact ⟨by simp [hk], by rw [hk]; exact hn, h1.symm⟩
        · simp [hk] at h1
      · exact ⟨by simp [h3], h1, h2⟩
  refine ⟨by rw [hst']; rfl, by rw [hst']; rfl, ?_, ?_, ?_, ?_, htopget, ?_, ?_, ?_⟩
  · rw [hst']; show (runOps reg _ _).inClass = _; rw [d1.inClass, b2]
  · rw [hst']; show (runOps reg _ _).missing = _; rw [d1.missing, b3]
  · rw [hlen']; rw [b5] at hlenE; omega
  · intro i hi hne; rw [hcell i hne, holdE i hi]
  · rw [hst']
    simp only [storeTop, Heap.get_update]
    split
    · rw [scope_set_isClass]
      show ((runOps reg _ _).heap.get st.stack.top).isClass = _
      rw [holdE _ htl]
    · show ((runOps reg _ _).heap.get st.stack.top).isClass = _
      rw [holdE _ htl]
  · obtain ⟨E, hE, hEf⟩ := d1.deferred
    obtain ⟨E2, hE2, hEn⟩ := (dn_body fx reg D body ln _ hb b1).1
    have hEE : E2 = E := List.append_cancel_left (hE2.symm.trans hE)
    subst hEE
    refine ⟨E2, by rw [hdef', hE, b4], fun e he => ⟨hEn e he, ?_⟩⟩
    obtain ⟨c, hc1, hc2, hc3⟩ := hEf e he
    exact hfroz e c hc1 hc2 hc3
  · intro htm hdk d hd hg hDd hnl
    obtain ⟨stt, c1, c2, c3⟩ := d3 d hd
    -- the cells of the stack at the moment of the load
    have hidsB : stt.stack.ids = st.stack.ids ++ [st.heap.length] ++ [st.heap.length + 1] := by rw [c1.stack, b6]
    have hids : ∀ i, i ∈ normIds stt.stack.ids ↔ (i ∈ normIds st.stack.ids ∨ i = st.heap.length ∨ i = st.heap.length + 1) := by
      intro i
      rw [hidsB]
      simp only [mem_normIds_iff, List.mem_append, List.mem_singleton]
      grind
    have hsttOld : ∀ i, i < st.heap.length → stt.heap.get i = st.heap.get i := by
      intro i hi
      rw [c1.old i (by rw [b5]; omega) (by rw [htopB]; omega), b9 i hi]
    have hsttA : ∀ k v, (stt.heap.get st.heap.length).get k = some v → k ∈ paramNames ps := by
      intro k v hv
      rw [c1.old _ (by rw [b5]; omega) (by rw [htopB]; omega), b10] at hv
      by_cases hk : k ∈ paramNames ps
      · exact hk
      · simp [hk] at hv
    have hsttB : ∀ k v, (stt.heap.get (st.heap.length + 1)).get k = some v →
        k = name ∨ (simpleName k = true ∧ k ∈ boundStmts body) := by
      intro k v hv
      rcases c1.vals (st.heap.length + 1) (.inl htopB.symm) k v hv with h1 | ⟨h1, _, h3⟩
      · rw [htopB, b11] at h1
        by_cases hk : k = name
        · exact .inl hk
        · simp [hk] at h1
      · exact .inr ⟨h1, h3⟩
    by_cases hs : (symbolNeedsImport reg stt.heap stt.stack.ids d).1 = true
    · right
      obtain ⟨e, he, hen, c, hc1, hc2, hc3⟩ := c3 hs
      exact ⟨e, by rw [hdef']; exact he, hen, hfroz e c hc1 hc2 hc3⟩
    · left
      have hdkstt : dotFree d = false → DK stt := by
        intro hdf
        have hdk0 := hdk (hDd hdf)
        intro i hi k v hv
        rcases (hids i).mp hi with hi0 | rfl | rfl
        · have hilt : i < st.heap.length := h.ok.idsLt i (by rw [← h.ok.wf]; exact hi0)
          rw [hsttOld i hilt] at hv
          obtain ⟨j, hj, w, hw⟩ := hdk0 i hi0 k v hv
          have hjlt : j < st.heap.length := h.ok.idsLt j (by rw [← h.ok.wf]; exact hj)
          exact ⟨j, (hids j).mpr (.inl hj), w, by rw [hsttOld j hjlt]; exact hw⟩
        · have hk := paramNames_simple ps hps k (hsttA k v hv)
          exact ⟨_, hi, v, by rw [headOf_simple hk]; exact hv⟩
        · have hk : simpleName k = true := by
            rcases hsttB k v hv with rfl | ⟨h1, _⟩
            · exact hn
            · exact h1
          exact ⟨_, hi, v, by rw [headOf_simple hk]; exact hv⟩
      have hbnd : ¬ unboundA stt (headOf d) := fun hu => hs (sni_unbound reg stt hg hu hdkstt)
      obtain ⟨i, hi, w, hw⟩ := not_unboundA.mp hbnd
      rcases (hids i).mp hi with hi0 | rfl | rfl
      · have hilt : i < st.heap.length := h.ok.idsLt i (by rw [← h.ok.wf]; exact hi0)
        rw [hsttOld i hilt] at hw
        obtain ⟨w', hw'⟩ := hmono i hi0 _ w hw
        exact ⟨i, by rw [hst']; exact hi0, w', hw'⟩
      · exact absurd (List.mem_append_left _ (hsttA _ w hw)) hnl
      · rcases hsttB _ w hw with h1 | ⟨_, h1⟩
        · refine ⟨st.stack.top, by rw [hst']; exact htm, Val.none, ?_⟩
          rw [htopget, h1]; simp
        · exact absurd (List.mem_append_right _ h1) hnl

/-! ### module-level steps as seen by the finished function bodies -/

/-- what a module-level statement of fragment C does to the analysis state: only the top scope of the (unchanged) stack
    grows, fresh cells and deferred entries may be appended -/
structure ModStep (st st' : AState) : Prop where
  stack : st'.stack = st.stack
  inFunc : st'.inFunc = st.inFunc
  inClass : st'.inClass = st.inClass
  len : st.heap.length ≤ st'.heap.length
  old : ∀ i, i < st.heap.length → i ≠ st.stack.top → st'.heap.get i = st.heap.get i
  grow : ∀ k v, (st.heap.get st.stack.top).get k = some v → ∃ w, (st'.heap.get st.stack.top).get k = some w
  cls : (st'.heap.get st.stack.top).isClass = (st.heap.get st.stack.top).isClass
  deferred : ∃ E, st'.deferred = st.deferred ++ E
  mono : ∀ m ∈ st.missing, m ∈ st'.missing

theorem ModStep.refl (st : AState) : ModStep st st :=
  ⟨rfl, rfl, rfl, Nat.le_refl _, fun _ _ _ => rfl, fun _ v h => ⟨v, h⟩, rfl, ⟨[], by simp⟩, fun _ h => h⟩

theorem ModStep.trans {a b c : AState} (h1 : ModStep a b) (h2 : ModStep b c) : ModStep a c := by
  have htop : b.stack.top = a.stack.top := by rw [h1.stack]
  refine ⟨h2.stack.trans h1.stack, h2.inFunc.trans h1.inFunc, h2.inClass.trans h1.inClass, Nat.le_trans h1.len h2.len,
    ?_, ?_, ?_, ?_, fun m hm => h2.mono m (h1.mono m hm)⟩
  · intro i hi hne
    rw [h2.old i (Nat.lt_of_lt_of_le hi h1.len) (by rw [htop]; exact hne), h1.old i hi hne]
  · intro k v hv
    obtain ⟨w, hw⟩ := h1.grow k v hv
    rw [← htop]; exact h2.grow k w (by rw [htop]; exact hw)
  · rw [← htop, h2.cls, htop, h1.cls]
  · obtain ⟨E1, e1⟩ := h1.deferred
    obtain ⟨E2, e2⟩ := h2.deferred
    exact ⟨E1 ++ E2, by rw [e2, e1, List.append_assoc]⟩

/-- the heap did not change at all -/
theorem ModStep.of_heap {st st' : AState} (hh : st'.heap = st.heap) (hs : st'.stack = st.stack) (hf : st'.inFunc = st.inFunc)
    (hc : st'.inClass = st.inClass) (hd : ∃ E, st'.deferred = st.deferred ++ E) (hm : ∀ m ∈ st.missing, m ∈ st'.missing) :
    ModStep st st' :=
  ⟨hs, hf, hc, by rw [hh]; exact Nat.le_refl _, fun _ _ _ => by rw [hh], fun _ v h => ⟨v, by rw [hh]; exact h⟩, by rw [hh],
   hd, hm⟩

theorem modStep_storeTop (st : AState) (x : Str) (htl : st.stack.top < st.heap.length) : ModStep st (storeTop st x) := by
  have hget := storeTop_get st htl x
  refine ⟨rfl, rfl, rfl, by simp [storeTop, Heap.length_update], ?_, ?_, ?_, ⟨[], by simp [storeTop]⟩, fun _ h => h⟩
  · intro i _ hne
    simp only [storeTop, Heap.get_update]
    rw [if_neg (fun h => hne h.1)]
  · intro k v hv
    rw [hget]
    by_cases hk : k = x
    · exact ⟨Val.none, by simp [hk]⟩
    · exact ⟨v, by simp [hk, hv]⟩
  · simp only [storeTop, Heap.get_update]
    split
    · rfl
    · rfl

theorem modStep_stores : ∀ (keys : List Str) (st : AState), st.stack.top < st.heap.length → ModStep st (keys.foldl storeTop st)
  | [], st, _ => ModStep.refl st
  | k :: ks, st, htl => by
    have h1 := modStep_storeTop st k htl
    have h2 := modStep_stores ks (storeTop st k) (by
      show st.stack.top < (storeTop st k).heap.length
      simp [storeTop, Heap.length_update]; exact htl)
    exact h1.trans h2

theorem checkLoad_step (reg : Registry) (st : AState) (n : Str) (ids : List Nat) (l : Nat) :
    ModStep st (checkLoad reg st n ids l) := by
  unfold checkLoad
  dsimp only
  split
  · split
    · exact ModStep.of_heap rfl rfl rfl rfl ⟨[], by simp [AState.emit]⟩ (fun _ h => h)
    · exact ModStep.of_heap rfl rfl rfl rfl ⟨[], by simp [AState.emit]⟩ (fun _ h => List.mem_append_left _ h)
  · exact ModStep.of_heap rfl rfl rfl rfl ⟨[], by simp [AState.emit]⟩ (fun _ h => h)

theorem modStep_loads (reg : Registry) : ∀ (L : List Str) (st : AState), st.inFunc = false →
    ModStep st (runOps reg st (L.map Op.load))
  | [], st, _ => ModStep.refl st
  | d :: L, st, hf => by
    have hrun : runOps reg st ((d :: L).map Op.load) =
        runOps reg (checkLoad reg st d st.stack.ids st.line) (L.map Op.load) := by
      simp [runOps, step, hf]
    rw [hrun]
    have h1 := checkLoad_step reg st d st.stack.ids st.line
    exact h1.trans (modStep_loads reg L _ (by rw [h1.inFunc]; exact hf))

theorem deferGlobal_step (reg : Registry) (st : AState) (n : Str) : ModStep st (deferGlobal reg st n) := by
  unfold deferGlobal
  dsimp only
  split
  · exact ModStep.of_heap rfl rfl rfl rfl ⟨[⟨n, st.stack.ids, st.line⟩], by simp [AState.emit]⟩ (fun _ h => h)
  · exact ModStep.of_heap rfl rfl rfl rfl ⟨[], by simp [AState.emit]⟩ (fun _ h => h)

theorem modStep_deferGlobals (reg : Registry) : ∀ (ns : List Str) (st : AState), ModStep st (ns.foldl (deferGlobal reg) st)
  | [], st => ModStep.refl st
  | n :: ns, st => (deferGlobal_step reg st n).trans (modStep_deferGlobals reg ns _)

/-- module-level statements of fragment B -/
theorem modStep_stmtB (fx : Fixes) (reg : Registry) (D : Bool) : ∀ (stmt : Stmt) (ln : Nat) (st : AState),
    fragBStmt D stmt = true → st.inFunc = false → st.stack.top < st.heap.length →
    ModStep st (runOps reg st (cStmt fx ln stmt))
  | .expr e, ln, st, hfr, hf, _ => by
    simp only [cStmt, cExpr_loads fx D e (by simpa [fragBStmt] using hfr)]
    exact modStep_loads reg _ st hf
  | .assign ts e, ln, st, hfr, hf, htl => by
    simp only [fragBStmt, Bool.and_eq_true] at hfr
    cases hsn : singleName ts with
    | none => rw [hsn] at hfr; simp at hfr
    | some x =>
      have hts := singleName_eq hsn
      subst hts
      simp only [cStmt, runOps_append, cExpr_loads fx D e hfr.2]
      have h1 := modStep_loads reg (loadsOf e) st hf
      have hst : runOps reg (runOps reg st ((loadsOf e).map Op.load)) (cTargets fx [Expr.name x]) =
          storeTop (runOps reg st ((loadsOf e).map Op.load)) x := by simp [cTargets, cTarget, runOps, step]
      rw [hst]
      have h2 := modStep_storeTop (runOps reg st ((loadsOf e).map Op.load)) x (by
        rw [h1.stack]; exact Nat.lt_of_lt_of_le htl h1.len)
      rcases cAll_cases x e with h | ⟨_, ns, h⟩
      · rw [h]; exact h1.trans h2
      · rw [h]
        have hf2 : (storeTop (runOps reg st ((loadsOf e).map Op.load)) x).inFunc = false := by
          show (runOps reg st ((loadsOf e).map Op.load)).inFunc = false
          rw [h1.inFunc]; exact hf
        have hrun : runOps reg (storeTop (runOps reg st ((loadsOf e).map Op.load)) x) [.allNames ns] =
            ns.foldl (deferGlobal reg) (storeTop (runOps reg st ((loadsOf e).map Op.load)) x) := by
          show step reg _ (.allNames ns) = _
          simp only [step, hf2]
          rfl
        rw [hrun]
        exact (h1.trans h2).trans (modStep_deferGlobals reg ns _)
  | .pass, ln, st, _, _, _ => by simp only [cStmt]; exact ModStep.refl st
  | .import_ names, ln, st, _, _, htl => by
    simp only [cStmt, runOps_cAliases]; exact modStep_stores _ st htl
  | .importFrom _ names, ln, st, _, _, htl => by
    simp only [cStmt, runOps_cAliases]; exact modStep_stores _ st htl
  | .located l s, ln, st, hfr, hf, htl => by
    simp only [cStmt, runOps_setLine]
    have h0 : ModStep st { st with line := l } := ModStep.of_heap rfl rfl rfl rfl ⟨[], by simp⟩ (fun _ h => h)
    exact h0.trans (modStep_stmtB fx reg D s l { st with line := l } (by simpa [fragBStmt] using hfr) hf htl)
  | .augAssign _ _, _, _, hfr, _, _ => by simp [fragBStmt] at hfr
  | .annAssign _ _ _, _, _, hfr, _, _ => by simp [fragBStmt] at hfr
  | .funcDef _ _ _ _ _, _, _, hfr, _, _ => by simp [fragBStmt] at hfr
  | .classDef _ _ _ _, _, _, hfr, _, _ => by simp [fragBStmt] at hfr
  | .for_ _ _ _ _, _, _, hfr, _, _ => by simp [fragBStmt] at hfr
  | .while_ _ _ _, _, _, hfr, _, _ => by simp [fragBStmt] at hfr
  | .if_ _ _ _, _, _, hfr, _, _ => by simp [fragBStmt] at hfr
  | .with_ _ _, _, _, hfr, _, _ => by simp [fragBStmt] at hfr
  | .try_ _ _ _ _, _, _, hfr, _, _ => by simp [fragBStmt] at hfr
  | .return_ _, _, _, hfr, _, _ => by simp [fragBStmt] at hfr
  | .raise_ _, _, _, hfr, _, _ => by simp [fragBStmt] at hfr
  | .delete _, _, _, hfr, _, _ => by simp [fragBStmt] at hfr
  | .global_ _, _, _, hfr, _, _ => by simp [fragBStmt] at hfr
  | .nonlocal_ _, _, _, hfr, _, _ => by simp [fragBStmt] at hfr

end Pfb.C05
