/-
  Pfb.C05.LemmasG — simulation between the reference semantics (`Pfb.PyCore.Exec`) and the analysis model
  (`Pfb.PyCore.Analyze`) on fragment G (fragment B without dots + one-generator comprehensions, with conditions).

  Run side: `EvalG` (like `EvalB`, but the state may change in its cells: the comprehension frame), `compLoop_G`,
  `evalComp_G`, `evalG`.  Analysis side: `AnaG` (like `AnaL`, but fresh heap cells may be appended: the comprehension
  scope), `anaG_bracket` (push ; loads ; store x ; loads ; pop), `anaG_expr`.  Simulation: `stmtG`, `stmtsG`.
-/
import Pfb.C05.FragG
import Pfb.C05.LemmasD
namespace Pfb.C05
open Pfb Pfb.PyCore

/-! ### what an evaluation of fragment G can do to the run-time state -/

def kOf (b : Bool) (L : List Str) : List Str := if b then L else []

theorem mem_kOf {b : Bool} {L : List Str} {n : Str} : n ∈ kOf b L ↔ b = true ∧ n ∈ L := by
  cases b <;> simp [kOf]

/-- `E`: the global names whose lookup may raise NameError; `K`: global names that are certainly looked up (hence
    bound) when the computation succeeds.  Unlike `EvalB` the state may change in its cells (comprehension frames). -/
structure EvalG {α} (s : XState) (E K : List Str) (res : XState × Except Exc α) : Prop where
  same : SameGlob s res.1
  ok : ∀ v, res.2 = .ok v → res.1.ne = s.ne ∧ ∀ n ∈ K, ¬ unboundX s n
  err : ∀ x, res.2 = .error x →
    (∃ n, x = .nameError n ∧ res.1.ne = addOnce n s.ne ∧ n ∈ E ∧ unboundX s n) ∨
    ((∀ n, x ≠ .nameError n) ∧ res.1.ne = s.ne)

theorem EvalG.ofEvalB {α} {ctx : Ctx} {s : XState} {N : List Str} {b : Bool} {res : XState × Except Exc α}
    (G : Str → Bool) (hG : ∀ n, isGlobalIn ctx n ↔ G n = true) (h : EvalB ctx s N b res) :
    EvalG s (N.filter G) (kOf b (N.filter G)) res := by
  refine ⟨h.same.glob, fun v hv => ⟨(h.ok v hv).1, fun n hn hu => ?_⟩, fun x hx => ?_⟩
  · obtain ⟨hb, hn⟩ := mem_kOf.mp hn
    obtain ⟨hnN, hg⟩ := List.mem_filter.mp hn
    exact (h.ok v hv).2 hb n hnN ⟨(hG n).mpr hg, hu⟩
  · rcases h.err x hx with ⟨n, hn, hne, hmem, hu⟩ | h2
    · exact .inl ⟨n, hn, hne, List.mem_filter.mpr ⟨hmem, (hG n).mp hu.1⟩, hu.2⟩
    · exact .inr h2

theorem EvalG.ofEvalB0 {α} {s : XState} {N : List Str} {b : Bool} {res : XState × Except Exc α}
    (h : EvalB {} s N b res) : EvalG s N (kOf b N) res := by
  refine ⟨h.same.glob, fun v hv => ⟨(h.ok v hv).1, fun n hn hu => ?_⟩, fun x hx => ?_⟩
  · obtain ⟨hb, hn⟩ := mem_kOf.mp hn
    exact (h.ok v hv).2 hb n hn ⟨by simp [isGlobalIn], hu⟩
  · rcases h.err x hx with ⟨n, hn, hne, hmem, hu⟩ | h2
    · exact .inl ⟨n, hn, hne, hmem, hu.2⟩
    · exact .inr h2

theorem EvalG.mono {α} {s : XState} {E K E' K' : List Str} {res : XState × Except Exc α}
    (h : EvalG s E K res) (hE : ∀ n ∈ E, n ∈ E') (hK : ∀ n ∈ K', n ∈ K) : EvalG s E' K' res := by
  refine ⟨h.same, fun v hv => ⟨(h.ok v hv).1, fun n hn => (h.ok v hv).2 n (hK n hn)⟩, fun x hx => ?_⟩
  rcases h.err x hx with ⟨n, hn, hne, hmem, hu⟩ | h2
  · exact .inl ⟨n, hn, hne, hE n hmem, hu⟩
  · exact .inr h2

theorem EvalG.bind {α β} {s : XState} {E1 K1 E2 K2 : List Str} {m : X α} {f : α → X β}
    (h1 : EvalG s E1 K1 (m s))
    (h2 : ∀ a s', m s = (s', .ok a) → SameGlob s s' → EvalG s' E2 K2 (f a s')) :
    EvalG s (E1 ++ E2) (K1 ++ K2) ((m >>= f) s) := by
  rw [X.bind_def]
  cases hm : m s with
  | mk s' r =>
    rw [hm] at h1
    cases r with
    | ok a =>
      have hs := h1.same
      simp only at hs
      obtain ⟨hne1, hn1⟩ := h1.ok a rfl
      simp only at hne1
      have h3 := h2 a s' hm hs
      simp only
      refine ⟨hs.trans h3.same, ?_, ?_⟩
      · intro v hv
        obtain ⟨hne2, hn2⟩ := h3.ok v hv
        refine ⟨hne2.trans hne1, fun n hn => ?_⟩
        rcases List.mem_append.mp hn with hn | hn
        · exact hn1 n hn
        · intro hc; exact hn2 n hn ((hs.unbound n).mpr hc)
      · intro x hx
        rcases h3.err x hx with ⟨n, hn, hne, hmem, hu⟩ | ⟨hnn, hne⟩
        · exact .inl ⟨n, hn, by rw [hne, hne1], List.mem_append_right _ hmem, (hs.unbound n).mp hu⟩
        · exact .inr ⟨hnn, hne.trans hne1⟩
    | error e =>
      simp only
      refine ⟨h1.same, (fun v hv => nomatch hv), ?_⟩
      intro x hx
      have hex : e = x := by simpa using hx
      subst hex
      rcases h1.err e rfl with ⟨n, hn, hne, hmem, hu⟩ | h3
      · exact .inl ⟨n, hn, hne, List.mem_append_left _ hmem, hu⟩
      · exact .inr h3

theorem EvalG.silentOk {α} (s s' : XState) (a : α) (h : SameGlob s s') (hne : s'.ne = s.ne) :
    EvalG s [] [] ((s', Except.ok a) : XState × Except Exc α) :=
  ⟨h, fun _ _ => ⟨hne, fun _ hn => by simp at hn⟩, fun x hx => by cases hx⟩

theorem EvalG.silentErr {α} {E K : List Str} (s s' : XState) (x : Exc) (h : SameGlob s s') (hne : s'.ne = s.ne)
    (hx : ∀ n, x ≠ .nameError n) : EvalG s E K ((s', Except.error x) : XState × Except Exc α) := by
  refine ⟨h, (fun v hv => nomatch hv), fun y hy => ?_⟩
  have : x = y := by simpa using hy
  subst this
  exact .inr ⟨hx, hne⟩

theorem EvalG.pure {α} (s : XState) (a : α) : EvalG s [] [] ((Pure.pure a : X α) s) :=
  EvalG.silentOk s s a (SameGlob.refl s) rfl

theorem EvalG.fuel {α} {E K : List Str} (s : XState) : EvalG s E K ((X.throw .fuel : X α) s) :=
  EvalG.silentErr s s .fuel (SameGlob.refl s) rfl (fun _ hn => nomatch hn)

theorem EvalG.raiseOther {α} {E K : List Str} (s : XState) : EvalG s E K ((raiseOther : X α) s) :=
  EvalG.silentErr s _ .other ⟨rfl, rfl, rfl, rfl⟩ rfl (fun _ hn => nomatch hn)

theorem EvalG.nil {α} {s : XState} {E : List Str} {res : XState × Except Exc α} (h : EvalG s [] [] res) :
    EvalG s E [] res := h.mono (fun _ hn => by simp at hn) (fun _ hn => by simp at hn)

theorem EvalG.iterate (s : XState) (v : RVal) : EvalG s [] [] (iterate v s) := by
  unfold Pfb.PyCore.iterate
  split <;> first | exact EvalG.pure s _ | exact EvalG.raiseOther s

/-! ### the comprehension frame -/

theorem isGlobalIn_fctx_iff (fr : Frame) (n : Str) : isGlobalIn (fctx fr) n ↔ assocGet n fr = none := by
  simp only [isGlobalIn, fctx, frameLookup]
  cases assocGet n fr <;> simp

theorem notVar_iff (x n : Str) : notVar x n = true ↔ n ≠ x := by simp [notVar]

/-- heads = names when there are no dots -/
theorem headsOf_eq {e : Expr} (h : fragBExpr false e = true) : headsOf e = loadsOf e := by
  unfold headsOf
  have : ∀ d ∈ loadsOf e, headOf d = d := fun d hd => headOf_dotFree ((loads_good false e h d hd).2 rfl)
  calc (loadsOf e).map headOf = (loadsOf e).map id := List.map_congr_left this
    _ = loadsOf e := List.map_id _

theorem headsOfs_eq {es : List Expr} (h : fragBExprs false es = true) : headsOfs es = loadsOfs es := by
  unfold headsOfs
  have : ∀ d ∈ loadsOfs es, headOf d = d := fun d hd => headOf_dotFree ((loadss_good false es h d hd).2 rfl)
  calc (loadsOfs es).map headOf = (loadsOfs es).map id := List.map_congr_left this
    _ = loadsOfs es := List.map_id _

/-- binding the comprehension variable in its frame -/
theorem bindTarget_var (fr : Frame) (x : Str) (i : Nat) (hx : assocGet x fr = some i) (f : Nat) (v : RVal) (s : XState) :
    bindTarget (f + 1) (fctx fr) (.name x) v s = ({ s with cells := s.cells.set i (some v) }, .ok ()) := by
  simp only [bindTarget, bindName, fctx, List.headD, hx, setCell, X.modify]

/-- the loop of a one-generator comprehension without conditions: reads the element names other than the variable;
    when it succeeds on a non-empty list of items, all of them have been looked up -/
theorem compLoop_G (x : Str) (fr : Frame) (i : Nat) (hx : assocGet x fr = some i) (hfr : ∀ n, assocGet n fr = none ↔ n ≠ x)
    (elts : List Expr) (hel : fragBExprs false elts = true) :
    ∀ (items : List RVal) (f : Nat) (s : XState),
      EvalG s ((loadsOfs elts).filter (notVar x))
        (kOf (noIfExprs elts && !items.isEmpty) ((loadsOfs elts).filter (notVar x)))
        (compLoop f (fctx fr) elts (.name x) [] [] items s)
  | items, 0, s => by rw [compLoop]; exact EvalG.fuel s
  | [], f + 1, s => by
    simp only [compLoop]
    exact (EvalG.pure s _).mono (fun _ hn => by simp at hn) (fun n hn => by simp [kOf] at hn)
  | v :: xs, 1, s => by
    simp only [compLoop, bindTarget, X.bind_def, X.throw]
    exact EvalG.fuel (α := List RVal) s
  | v :: xs, f + 2, s => by
    have hG : ∀ n, isGlobalIn (fctx fr) n ↔ notVar x n = true := by
      intro n; rw [isGlobalIn_fctx_iff, hfr, notVar_iff]
    have hbody : ∀ s1, EvalG s1 ((loadsOfs elts).filter (notVar x)) (kOf (noIfExprs elts) ((loadsOfs elts).filter (notVar x)))
        (compRest (f + 1) (fctx fr) elts [] s1) := by
      intro s1
      simp only [compRest]
      have hE := (evalB (fctx fr) (fctx_ok fr) false f).2 elts s1 hel
      rw [headsOfs_eq hel] at hE
      have := EvalG.bind (EvalG.ofEvalB (notVar x) hG hE) (fun _ s2 _ _ => EvalG.pure s2 [RVal.opq])
      simpa using this
    simp only [compLoop, bindTarget_var fr x i hx, evalConds, X.bind_def, X.pure_def, if_true]
    have := EvalG.bind (hbody { s with cells := s.cells.set i (some v) })
      (fun r1 s2 _ _ => EvalG.bind (compLoop_G x fr i hx hfr elts hel xs (f + 1) s2) (fun r2 s3 _ _ => EvalG.pure s3 (r1 ++ r2)))
    have h2 : EvalG { s with cells := s.cells.set i (some v) } ((loadsOfs elts).filter (notVar x))
        (kOf (noIfExprs elts && !(v :: xs).isEmpty) ((loadsOfs elts).filter (notVar x))) _ :=
      this.mono (fun n hn => by simpa using hn) (fun n hn => by
        obtain ⟨hb, hn⟩ := mem_kOf.mp hn
        simp only [List.isEmpty_cons, Bool.not_false, Bool.and_true] at hb
        exact List.mem_append_left _ (mem_kOf.mpr ⟨hb, hn⟩))
    refine ⟨⟨h2.same.globals, h2.same.builtins, h2.same.funcs, h2.same.origins⟩, ?_, ?_⟩
    · intro w hw
      obtain ⟨a, b⟩ := h2.ok w hw
      exact ⟨a, b⟩
    · intro e he
      exact h2.err e he

theorem EvalG.ofCells {α} {s : XState} {c : List (Option RVal)} {E K : List Str} {res : XState × Except Exc α}
    (h : EvalG { s with cells := c } E K res) : EvalG s E K res :=
  ⟨⟨h.same.globals, h.same.builtins, h.same.funcs, h.same.origins⟩, h.ok, h.err⟩

theorem genParts_eq {gens : List Gen} {x : Str} {it : Expr} {ifs : List Expr} (h : genParts gens = some (x, it, ifs)) :
    gens = [.mk (.name x) it ifs] := by
  unfold genParts at h
  split at h
  · simp only [Option.some.injEq, Prod.mk.injEq] at h
    obtain ⟨rfl, rfl, rfl⟩ := h
    rfl
  · cases h

theorem genParts_mk (x : Str) (it : Expr) (ifs : List Expr) : genParts [.mk (.name x) it ifs] = some (x, it, ifs) := rfl

/-- a non-empty display (or the dummy) yields at least one item -/
theorem nonEmpty_items (it : Expr) (h : nonEmptyLit it = true) (f : Nat) (s s1 s2 : XState) (itv : RVal) (items : List RVal)
    (h1 : evalExpr f {} it s = (s1, .ok itv)) (h2 : iterate itv s1 = (s2, .ok items)) : items ≠ [] := by
  have key : (∃ v vs, itv = .seq (v :: vs)) ∨ itv = .opq := by
    match f, it, h with
    | 0, _, _ => rw [evalExpr] at h1; cases h1
    | 1, .list (e :: es), _ => simp [evalExpr, evalExprs, X.bind_def, X.throw] at h1
    | 1, .tuple (e :: es), _ => simp [evalExpr, evalExprs, X.bind_def, X.throw] at h1
    | f + 2, .list (e :: es), _ =>
      left
      simp only [evalExpr, evalExprs, X.bind_def, X.pure_def] at h1
      split at h1
      · rename_i s' vs hvs
        split at hvs
        · split at hvs
          · cases hvs; cases h1; exact ⟨_, _, rfl⟩
          · cases hvs
        · cases hvs
      · cases h1
    | f + 2, .tuple (e :: es), _ =>
      left
      simp only [evalExpr, evalExprs, X.bind_def, X.pure_def] at h1
      split at h1
      · rename_i s' vs hvs
        split at hvs
        · split at hvs
          · cases hvs; cases h1; exact ⟨_, _, rfl⟩
          · cases hvs
        · cases hvs
      · cases h1
    | f + 1, .const, _ =>
      right
      simp only [evalExpr, X.pure_def] at h1
      cases h1; rfl
  rcases key with ⟨v, vs, rfl⟩ | rfl
  · simp only [iterate, X.pure_def] at h2; cases h2; simp
  · simp only [iterate, X.pure_def] at h2; cases h2; simp

/-- one comprehension of fragment G at module level -/
theorem evalComp_G (k : CompKind) (elts : List Expr) (x : Str) (it : Expr) (hit : fragBExpr false it = true)
    (hel : fragBExprs false elts = true) (f : Nat) (s : XState) :
    EvalG s (loadsOf it ++ (loadsOfs elts).filter (notVar x))
      (kOf (noIfExpr it && noIfExprs elts && nonEmptyLit it) (loadsOf it ++ (loadsOfs elts).filter (notVar x)))
      (evalComp f {} k elts [.mk (.name x) it []] s) := by
  cases f with
  | zero => rw [evalComp]; exact EvalG.fuel s
  | succ f =>
    simp only [evalComp, gensTargets, targetNames, List.append_nil]
    have hE := EvalG.ofEvalB0 ((evalB {} (by simp [CtxOK]) false f).1 it s hit)
    rw [headsOf_eq hit] at hE
    refine (EvalG.bind hE (E2 := [] ++ (loadsOfs elts).filter (notVar x))
      (K2 := [] ++ kOf (noIfExprs elts && nonEmptyLit it) ((loadsOfs elts).filter (notVar x)))
      (fun itv s1 h1 _ => EvalG.bind (EvalG.iterate s1 itv) (fun items s2 h2 _ => ?_))).mono
      (fun n hn => by simpa using hn) (fun n hn => ?_)
    · obtain ⟨fr, cells, heq, hspec⟩ := allocCells_spec [x] s2
      rw [X.bind_def, heq]
      simp only
      apply EvalG.ofCells (c := cells)
      have hfr : ∀ n, assocGet n fr = none ↔ n ≠ x := fun n => by rw [hspec]; simp
      obtain ⟨i, hi⟩ : ∃ i, assocGet x fr = some i := by
        cases hg : assocGet x fr with
        | none => exact absurd rfl ((hfr x).mp hg)
        | some i => exact ⟨i, rfl⟩
      have hL := compLoop_G x fr i hi hfr elts hel items f { s2 with cells := cells }
      have := EvalG.bind hL (fun vs s4 _ _ => EvalG.pure s4 (match k with | .list => RVal.seq vs | _ => RVal.opq))
      refine this.mono (fun n hn => by simpa using hn) (fun n hn => ?_)
      obtain ⟨hb, hn⟩ := mem_kOf.mp hn
      simp only [Bool.and_eq_true] at hb
      have hne := nonEmpty_items it hb.2 f s s1 s2 itv items h1 h2
      apply List.mem_append_left
      refine mem_kOf.mpr ⟨?_, hn⟩
      cases items with
      | nil => exact absurd rfl hne
      | cons _ _ => simp [hb.1]
    · obtain ⟨hb, hn⟩ := mem_kOf.mp hn
      simp only [Bool.and_eq_true] at hb
      rcases List.mem_append.mp hn with hn | hn
      · exact List.mem_append_left _ (mem_kOf.mpr ⟨hb.1.1, hn⟩)
      · exact List.mem_append_right _ (by simpa using mem_kOf.mpr ⟨by simp [hb.1.2, hb.2], hn⟩)

/-- the conditions of a comprehension read names other than the variable in the module scope -/
theorem evalConds_G (x : Str) (fr : Frame) (hfr : ∀ n, assocGet n fr = none ↔ n ≠ x) :
    ∀ (ifs : List Expr) (f : Nat) (s : XState), fragBExprs false ifs = true →
      EvalG s ((loadsOfs ifs).filter (notVar x)) [] (evalConds f (fctx fr) ifs s)
  | _, 0, s, _ => by rw [evalConds]; exact EvalG.fuel s
  | [], f + 1, s, _ => by simp only [evalConds]; exact (EvalG.pure s true).nil
  | c :: cs, f + 1, s, h => by
    simp only [fragBExprs, Bool.and_eq_true] at h
    simp only [evalConds]
    have hG : ∀ n, isGlobalIn (fctx fr) n ↔ notVar x n = true := by
      intro n; rw [isGlobalIn_fctx_iff, hfr, notVar_iff]
    have hE := (evalB (fctx fr) (fctx_ok fr) false f).1 c s h.1
    rw [headsOf_eq h.1] at hE
    have hbr : ∀ (v : RVal) (s' : XState), EvalG s' ((loadsOfs cs).filter (notVar x)) []
        ((if truthy v = true then evalConds f (fctx fr) cs else Pure.pure false) s') := by
      intro v s'
      split
      · exact evalConds_G x fr hfr cs f s' h.2
      · exact (EvalG.pure s' false).nil
    have := EvalG.bind (EvalG.ofEvalB (notVar x) hG hE) (fun v s' _ _ => hbr v s')
    exact this.mono (fun n hn => by simpa [loadsOfs, List.filter_append] using hn) (fun n hn => by simp at hn)

/-- the loop of a one-generator comprehension with conditions: a NameError can only come from a name of the
    conditions / elements other than the variable (soundness part only: nothing is certainly evaluated) -/
theorem compLoop_S (x : Str) (fr : Frame) (i : Nat) (hx : assocGet x fr = some i) (hfr : ∀ n, assocGet n fr = none ↔ n ≠ x)
    (elts ifs : List Expr) (hel : fragBExprs false elts = true) (hifs : fragBExprs false ifs = true) :
    ∀ (items : List RVal) (f : Nat) (s : XState),
      EvalG s ((loadsOfs ifs ++ loadsOfs elts).filter (notVar x)) []
        (compLoop f (fctx fr) elts (.name x) ifs [] items s)
  | items, 0, s => by rw [compLoop]; exact EvalG.fuel s
  | [], f + 1, s => by simp only [compLoop]; exact (EvalG.pure s _).nil
  | v :: xs, 1, s => by
    simp only [compLoop, bindTarget, X.bind_def, X.throw]
    exact EvalG.fuel (α := List RVal) s
  | v :: xs, f + 2, s => by
    have hG : ∀ n, isGlobalIn (fctx fr) n ↔ notVar x n = true := by
      intro n; rw [isGlobalIn_fctx_iff, hfr, notVar_iff]
    have hrest : ∀ s1, EvalG s1 ((loadsOfs elts).filter (notVar x)) [] (compRest (f + 1) (fctx fr) elts [] s1) := by
      intro s1
      simp only [compRest]
      have hE := (evalB (fctx fr) (fctx_ok fr) false f).2 elts s1 hel
      rw [headsOfs_eq hel] at hE
      have := EvalG.bind (EvalG.ofEvalB (notVar x) hG hE) (fun _ s2 _ _ => EvalG.pure s2 [RVal.opq])
      exact this.mono (fun n hn => by simpa using hn) (fun n hn => by simp at hn)
    have hsub : ∀ n, n ∈ (loadsOfs elts).filter (notVar x) ++ ((loadsOfs ifs ++ loadsOfs elts).filter (notVar x) ++ []) →
        n ∈ (loadsOfs ifs ++ loadsOfs elts).filter (notVar x) := by
      intro n hn
      simp only [List.filter_append, List.mem_append, List.append_nil, List.mem_filter] at hn ⊢
      rcases hn with ⟨h1, h2⟩ | ⟨h1, h2⟩ | ⟨h1, h2⟩
      · exact .inr ⟨h1, h2⟩
      · exact .inl ⟨h1, h2⟩
      · exact .inr ⟨h1, h2⟩
    have htail : ∀ (r1 : List RVal) (s3 : XState), EvalG s3 ((loadsOfs ifs ++ loadsOfs elts).filter (notVar x) ++ []) ([] ++ [])
        ((compLoop (f + 1) (fctx fr) elts (.name x) ifs [] xs >>= fun r2 => Pure.pure (r1 ++ r2)) s3) := fun r1 s3 =>
      EvalG.bind (compLoop_S x fr i hx hfr elts ifs hel hifs xs (f + 1) s3) (fun r2 s4 _ _ => EvalG.pure s4 (r1 ++ r2))
    rw [compLoop, X.bind_def, bindTarget_var fr x i hx]
    dsimp only
    apply EvalG.ofCells (c := s.cells.set i (some v))
    refine (EvalG.bind (E2 := (loadsOfs ifs ++ loadsOfs elts).filter (notVar x)) (K2 := [])
      (evalConds_G x fr hfr ifs (f + 1) { s with cells := s.cells.set i (some v) } hifs)
      (fun ok s2 _ _ => ?_)).mono ?_ ?_
    · split
      · exact (EvalG.bind (hrest s2) (fun r1 s3 _ _ => htail r1 s3)).mono hsub (fun n hn => by simp at hn)
      · exact (EvalG.bind (EvalG.pure s2 ([] : List RVal)) (fun r1 s3 _ _ => htail r1 s3)).mono
          (fun n hn => by simpa using hn) (fun n hn => by simp at hn)
    · intro n hn
      simp only [List.filter_append, List.mem_append, List.mem_filter] at hn ⊢
      rcases hn with ⟨h1, h2⟩ | ⟨h1, h2⟩ | ⟨h1, h2⟩
      · exact .inl ⟨h1, h2⟩
      · exact .inl ⟨h1, h2⟩
      · exact .inr ⟨h1, h2⟩
    · intro n hn; simp at hn

/-- one comprehension of fragment G with conditions at module level (soundness part) -/
theorem evalComp_S (k : CompKind) (elts : List Expr) (x : Str) (it : Expr) (ifs : List Expr)
    (hit : fragBExpr false it = true) (hifs : fragBExprs false ifs = true) (hel : fragBExprs false elts = true)
    (f : Nat) (s : XState) :
    EvalG s (loadsOf it ++ (loadsOfs ifs ++ loadsOfs elts).filter (notVar x)) []
      (evalComp f {} k elts [.mk (.name x) it ifs] s) := by
  cases f with
  | zero => rw [evalComp]; exact EvalG.fuel s
  | succ f =>
    simp only [evalComp, gensTargets, targetNames, List.append_nil]
    have hE := EvalG.ofEvalB0 ((evalB {} (by simp [CtxOK]) false f).1 it s hit)
    rw [headsOf_eq hit] at hE
    refine (EvalG.bind hE (E2 := [] ++ (loadsOfs ifs ++ loadsOfs elts).filter (notVar x)) (K2 := [] ++ [])
      (fun itv s1 _ _ => EvalG.bind (EvalG.iterate s1 itv) (fun items s2 _ _ => ?_))).mono
      (fun n hn => by simpa using hn) (fun n hn => by simp at hn)
    obtain ⟨fr, cells, heq, hspec⟩ := allocCells_spec [x] s2
    rw [X.bind_def, heq]
    simp only
    apply EvalG.ofCells (c := cells)
    have hfr : ∀ n, assocGet n fr = none ↔ n ≠ x := fun n => by rw [hspec]; simp
    obtain ⟨i, hi⟩ : ∃ i, assocGet x fr = some i := by
      cases hg : assocGet x fr with
      | none => exact absurd rfl ((hfr x).mp hg)
      | some i => exact ⟨i, rfl⟩
    have hL := compLoop_S x fr i hi hfr elts ifs hel hifs items f { s2 with cells := cells }
    have := EvalG.bind hL (fun vs s4 _ _ => EvalG.pure s4 (match k with | .list => RVal.seq vs | _ => RVal.opq))
    exact this.mono (fun n hn => by simpa using hn) (fun n hn => by simp at hn)

theorem kOf_and_append (b1 b2 : Bool) (L1 L2 : List Str) :
    ∀ n ∈ kOf (b1 && b2) (L1 ++ L2), n ∈ kOf b1 L1 ++ kOf b2 L2 := by
  intro n hn; cases b1 <;> cases b2 <;> simp_all [kOf]

theorem compOK_parts {k : CompKind} {elts : List Expr} {gens : List Gen} (h : compOK k elts gens = true) :
    ∃ x it ifs, gens = [.mk (.name x) it ifs] ∧ simpleName x = true ∧ fragBExpr false it = true ∧
      fragBExprs false ifs = true ∧ fragBExprs false elts = true := by
  unfold compOK at h
  split at h
  · rename_i x it ifs hg
    simp only [Bool.and_eq_true] at h
    exact ⟨x, it, ifs, genParts_eq hg, h.1.1.1.1, h.1.1.1.2, h.1.1.2, h.1.2⟩
  · cases h

/-- evaluating an expression of fragment G at module level -/
theorem evalG (f : Nat) :
    (∀ e s, fragGExpr e = true → EvalG s (globalsOf e) (kOf (plainG e) (globalsOf e)) (evalExpr f {} e s)) ∧
    (∀ es s, fragGExprs es = true → EvalG s (globalsOfs es) (kOf (plainGs es) (globalsOfs es)) (evalExprs f {} es s)) := by
  induction f with
  | zero =>
    constructor
    · intro e s _; rw [evalExpr]; exact EvalG.fuel s
    · intro es s _; rw [evalExprs]; exact EvalG.fuel s
  | succ f ih =>
    obtain ⟨ihe, ihes⟩ := ih
    constructor
    · intro e s hfr
      cases e with
      | name n =>
        simp only [evalExpr, globalsOf, plainG]
        exact EvalG.ofEvalB0 (EvalB.readName {} (by simp [CtxOK]) s n)
      | const => simp only [evalExpr, globalsOf, plainG]; exact (EvalG.pure s _).mono (fun _ h => h) (fun n hn => by simp [kOf] at hn)
      | bool b => simp only [evalExpr, globalsOf, plainG]; exact (EvalG.pure s _).mono (fun _ h => h) (fun n hn => by simp [kOf] at hn)
      | str _ => simp only [evalExpr, globalsOf, plainG]; exact (EvalG.pure s _).mono (fun _ h => h) (fun n hn => by simp [kOf] at hn)
      | binop l r =>
        simp only [fragGExpr, Bool.and_eq_true] at hfr
        simp only [evalExpr, globalsOf, plainG]
        have h := EvalG.bind (ihe l s hfr.1) (fun a s' _ _ => EvalG.bind (ihe r s' hfr.2)
          (fun b s'' _ _ => EvalG.ofEvalB0 (EvalB.binop {} s'' a b)))
        exact h.mono (fun n hn => by simpa using hn) (fun n hn => by
          have := kOf_and_append _ _ _ _ n hn
          simpa [kOf] using this)
      | subscript v i =>
        simp only [fragGExpr, Bool.and_eq_true] at hfr
        simp only [evalExpr, globalsOf, plainG]
        have h := EvalG.bind (ihe v s hfr.1) (fun a s' _ _ => EvalG.bind (ihe i s' hfr.2)
          (fun _ s'' _ _ => EvalG.ofEvalB0 (EvalB.subscriptGet {} s'' a)))
        exact h.mono (fun n hn => by simpa using hn) (fun n hn => by
          have := kOf_and_append _ _ _ _ n hn
          simpa [kOf] using this)
      | tuple es =>
        simp only [fragGExpr] at hfr
        simp only [evalExpr, globalsOf, plainG]
        have h := EvalG.bind (ihes es s hfr) (fun vs s' _ _ => EvalG.pure s' (RVal.seq vs))
        exact h.mono (fun n hn => by simpa using hn) (fun n hn => by simpa using hn)
      | list es =>
        simp only [fragGExpr] at hfr
        simp only [evalExpr, globalsOf, plainG]
        have h := EvalG.bind (ihes es s hfr) (fun vs s' _ _ => EvalG.pure s' (RVal.seq vs))
        exact h.mono (fun n hn => by simpa using hn) (fun n hn => by simpa using hn)
      | ifExp t a b =>
        simp only [fragGExpr, Bool.and_eq_true] at hfr
        simp only [evalExpr, globalsOf, plainG]
        have hbr : ∀ (tv : RVal) (s' : XState), EvalG s' (globalsOf a ++ globalsOf b) []
            ((if truthy tv = true then evalExpr f {} a else evalExpr f {} b) s') := by
          intro tv s'
          split
          · exact (ihe a s' hfr.1.2).mono (fun n hn => List.mem_append_left _ hn) (fun n hn => by simp at hn)
          · exact (ihe b s' hfr.2).mono (fun n hn => List.mem_append_right _ hn) (fun n hn => by simp at hn)
        have h := EvalG.bind (ihe t s hfr.1.1) (fun tv s' _ _ => hbr tv s')
        exact h.mono (fun n hn => by simpa [List.append_assoc] using hn) (fun n hn => by simp [kOf] at hn)
      | comp k elts gens =>
        simp only [fragGExpr] at hfr
        obtain ⟨x, it, ifs, rfl, _, hit, hifs, hel⟩ := compOK_parts hfr
        simp only [evalExpr, globalsOf, plainG, compGlobals, compPlain, genParts_mk]
        cases ifs with
        | nil =>
          simp only [loadsOfs, List.nil_append, List.isEmpty_nil, Bool.true_and]
          exact evalComp_G k elts x it hit hel f s
        | cons c cs =>
          simp only [List.isEmpty_cons, Bool.false_and]
          exact (evalComp_S k elts x it (c :: cs) hit hifs hel f s).mono (fun _ h => h) (fun n hn => by simp [kOf] at hn)
      | attr _ _ => simp [fragGExpr] at hfr
      | call _ _ => simp [fragGExpr] at hfr
      | lambda _ _ => simp [fragGExpr] at hfr
    · intro es s hfr
      cases es with
      | nil => simp only [evalExprs, globalsOfs, plainGs]; exact (EvalG.pure s _).mono (fun _ h => h) (fun n hn => by simp [kOf] at hn)
      | cons e es =>
        simp only [fragGExprs, Bool.and_eq_true] at hfr
        simp only [evalExprs, globalsOfs, plainGs]
        have h := EvalG.bind (ihe e s hfr.1) (fun v s' _ _ => EvalG.bind (ihes es s' hfr.2) (fun vs s'' _ _ => EvalG.pure s'' (v :: vs)))
        exact h.mono (fun n hn => by simpa using hn) (fun n hn => by
          have := kOf_and_append _ _ _ _ n hn
          simpa [kOf] using this)


/-! ### the analysis of an expression of fragment G -/

theorem checkLoad_saved (reg : Registry) (st : AState) (n : Str) (ids : List Nat) (l : Nat) :
    (checkLoad reg st n ids l).saved = st.saved ∧ (checkLoad reg st n ids l).inClass = st.inClass := by
  unfold checkLoad
  dsimp only
  split
  · split <;> exact ⟨rfl, rfl⟩
  · exact ⟨rfl, rfl⟩

theorem loads_saved (reg : Registry) : ∀ (L : List Str) (st : AState), st.inFunc = false →
    (runOps reg st (L.map Op.load)).saved = st.saved ∧ (runOps reg st (L.map Op.load)).inClass = st.inClass
  | [], st, _ => ⟨rfl, rfl⟩
  | d :: L, st, hf => by
    have hrun : runOps reg st ((d :: L).map Op.load) =
        runOps reg (checkLoad reg st d st.stack.ids st.line) (L.map Op.load) := by
      simp [runOps, step, hf]
    rw [hrun]
    have h1 := checkLoad_saved reg st d st.stack.ids st.line
    have h2 := loads_saved reg L (checkLoad reg st d st.stack.ids st.line)
      (by rw [(checkLoad_step reg st d st.stack.ids st.line).inFunc]; exact hf)
    exact ⟨h2.1.trans h1.1, h2.2.trans h1.2⟩

/-- what the module-level analysis of an expression of fragment G does: `L` = the names it looks up in the module
    scope.  Cells that existed before are unchanged; fresh cells (comprehension scopes) may have been appended. -/
structure AnaG (reg : Registry) (st st' : AState) (L : List Str) : Prop where
  old : ∀ i, i < st.heap.length → st'.heap.get i = st.heap.get i
  len : st.heap.length ≤ st'.heap.length
  stack : st'.stack = st.stack
  saved : st'.saved = st.saved
  inFunc : st'.inFunc = st.inFunc
  inClass : st'.inClass = st.inClass
  deferred : st'.deferred = st.deferred
  mono : ∀ m ∈ st.missing, m ∈ st'.missing
  found : ∀ d ∈ L, simpleName d = true → unboundA st d → noStarA st → ∃ m ∈ st'.missing, m.name = d
  same : (∀ d ∈ L, simpleName d = true ∧ ¬ unboundA st d) → st'.missing = st.missing

theorem AnaG.refl (reg : Registry) (st : AState) : AnaG reg st st [] :=
  ⟨fun _ _ => rfl, Nat.le_refl _, rfl, rfl, rfl, rfl, rfl, fun _ h => h, fun _ h => by simp at h, fun _ => rfl⟩

theorem simple_good {d : Str} (h : simpleName d = true) : goodDotted d = true := by
  simp [goodDotted, simpleName_split h, h]

theorem simple_dotFree {d : Str} (h : simpleName d = true) : dotFree d = true := by
  simpa [dotFree] using simpleName_dotFree h

theorem AnaG.ofAnaL {reg : Registry} {st st' : AState} {L : List Str} (h : AnaL reg st st' L)
    (hs : st'.saved = st.saved) (hc : st'.inClass = st.inClass) : AnaG reg st st' L := by
  refine ⟨fun _ _ => by rw [h.heap], by rw [h.heap]; exact Nat.le_refl _, h.stack, hs, h.inFunc, hc, h.deferred, h.mono, ?_, ?_⟩
  · intro d hd hsd hun hns
    exact h.found d hd (simple_good hsd) (by rw [headOf_simple hsd]; exact hun)
      (fun hdf => by rw [simple_dotFree hsd] at hdf; cases hdf) hns
  · intro hall
    apply h.same
    intro d hd
    obtain ⟨hsd, hb⟩ := hall d hd
    exact ⟨simple_good hsd, by rw [headOf_simple hsd]; exact hb, fun hdf => by rw [simple_dotFree hsd] at hdf; cases hdf⟩

theorem StackOK.normLt {st : AState} (h : StackOK st) : ∀ i ∈ normIds st.stack.ids, i < st.heap.length := by
  rw [h.wf]; exact h.idsLt

/-- lookups through the stack only see cells that existed -/
theorem lookups_old {st st' : AState} (hok : StackOK st) (hs : st'.stack = st.stack)
    (hold : ∀ i, i < st.heap.length → st'.heap.get i = st.heap.get i) :
    (∀ n, unboundA st' n ↔ unboundA st n) ∧ (noStarA st' ↔ noStarA st) := by
  constructor
  · intro n
    unfold unboundA
    rw [hs]
    constructor
    · intro h i hi; rw [← hold i (hok.normLt i hi)]; exact h i hi
    · intro h i hi; rw [hold i (hok.normLt i hi)]; exact h i hi
  · unfold noStarA hasStar
    rw [hs, List.any_eq_false, List.any_eq_false]
    constructor
    · intro h i hi; rw [← hold i (hok.idsLt i hi)]; exact h i hi
    · intro h i hi; rw [hold i (hok.idsLt i hi)]; exact h i hi

theorem AnaG.stackOK {reg : Registry} {st st' : AState} {L : List Str} (h : AnaG reg st st' L) (hok : StackOK st) :
    StackOK st' := by
  refine ⟨by rw [h.stack]; exact hok.wf, fun i hi => ?_, fun i hi => ?_, ?_, Nat.le_trans hok.len3 h.len⟩
  · rw [h.stack] at hi; exact Nat.lt_of_lt_of_le (hok.idsLt i hi) h.len
  · rw [h.stack] at hi; rw [h.old i (hok.idsLt i hi)]; exact hok.noClass i hi
  · have := hok.len3
    rw [h.old delayedId (by unfold delayedId; omega)]; exact hok.delayedEmpty

theorem AnaG.trans {reg : Registry} {a b c : AState} {L1 L2 : List Str} (hok : StackOK a)
    (h1 : AnaG reg a b L1) (h2 : AnaG reg b c L2) : AnaG reg a c (L1 ++ L2) := by
  obtain ⟨hu, hs⟩ := lookups_old hok h1.stack h1.old
  refine ⟨fun i hi => by rw [h2.old i (Nat.lt_of_lt_of_le hi h1.len), h1.old i hi], Nat.le_trans h1.len h2.len,
    h2.stack.trans h1.stack, h2.saved.trans h1.saved, h2.inFunc.trans h1.inFunc, h2.inClass.trans h1.inClass,
    h2.deferred.trans h1.deferred, fun m hm => h2.mono m (h1.mono m hm), ?_, ?_⟩
  · intro d hd hsd hun hns
    rcases List.mem_append.mp hd with hd | hd
    · obtain ⟨m, hm, hmn⟩ := h1.found d hd hsd hun hns
      exact ⟨m, h2.mono m hm, hmn⟩
    · exact h2.found d hd hsd ((hu d).mpr hun) (hs.mpr hns)
  · intro hall
    rw [h2.same (fun d hd => by
          obtain ⟨g, hb⟩ := hall d (List.mem_append_right _ hd)
          exact ⟨g, fun hc => hb ((hu d).mp hc)⟩),
        h1.same (fun d hd => hall d (List.mem_append_left _ hd))]

theorem AnaG.modStep {reg : Registry} {st st' : AState} {L : List Str} (h : AnaG reg st st' L)
    (htl : st.stack.top < st.heap.length) : ModStep st st' :=
  ⟨h.stack, h.inFunc, h.inClass, h.len, fun i hi _ => h.old i hi, fun k v hv => ⟨v, by rw [h.old _ htl]; exact hv⟩,
   by rw [h.old _ htl], ⟨[], by rw [h.deferred]; simp⟩, h.mono⟩

theorem AnaG.mono' {reg : Registry} {st st' : AState} {L L' : List Str} (h : AnaG reg st st' L)
    (h1 : ∀ d, d ∈ L ↔ d ∈ L') : AnaG reg st st' L' :=
  ⟨h.old, h.len, h.stack, h.saved, h.inFunc, h.inClass, h.deferred, h.mono,
   fun d hd => h.found d ((h1 d).mpr hd), fun hall => h.same (fun d hd => hall d ((h1 d).mp hd))⟩

theorem stackOK_pushed {st : AState} (h : StackOK st) : StackOK (pushed st) :=
  ⟨(stackOK_push h).wf, (stackOK_push h).idsLt, (stackOK_push h).noClass, (stackOK_push h).delayedEmpty, (stackOK_push h).len3⟩

theorem empty_get (n : Str) : (({} : Scope)).get n = none := rfl

theorem storeTop_old (st : AState) (x : Str) (i : Nat) (hi : i ≠ st.stack.top) :
    (storeTop st x).heap.get i = st.heap.get i := by
  simp only [storeTop, Heap.get_update]
  rw [if_neg (fun h => hi h.1)]

/-- `push ; loads L1 ; store x ; loads L2 ; pop` at module level: the shape of a one-generator comprehension
    (`L1` = the iterable when it is visited inside the new scope, `L2` = the elements) -/
theorem anaG_bracket (reg : Registry) (st : AState) (hok : StackOK st) (hf : st.inFunc = false) (ic : Bool)
    (x : Str) (hx : simpleName x = true) (L1 L2 : List Str) (hL2 : ∀ d ∈ L2, simpleName d = true) :
    AnaG reg st
      (runOps reg st ([Op.pushScope ic false false] ++ L1.map Op.load ++ [Op.store x] ++ L2.map Op.load ++ [Op.popScope]))
      (L1 ++ L2.filter (notVar x)) := by
  have hP : runOps reg st [Op.pushScope ic false false] = pushed st := by
    show step reg st (.pushScope ic false false) = _
    rw [step_push hok]; rfl
  simp only [runOps_append, hP]
  have hokP := stackOK_pushed hok
  have hfP : (pushed st).inFunc = false := hf
  have hLlt : st.heap.length < (pushed st).heap.length := by simp [pushed]
  -- lookups in the pushed state
  have hidsP : (pushed st).stack.ids = st.stack.ids ++ [st.heap.length] := rfl
  have hmemP : ∀ i, i ∈ normIds (pushed st).stack.ids ↔ (i ∈ normIds st.stack.ids ∨ i = st.heap.length) := by
    intro i; rw [hokP.wf, hok.wf, hidsP]; simp
  have hunP : ∀ n, unboundA (pushed st) n ↔ unboundA st n := by
    intro n
    unfold unboundA
    constructor
    · intro h i hi
      rw [← pushed_get_old st (hok.normLt i hi)]; exact h i ((hmemP i).mpr (.inl hi))
    · intro h i hi
      rcases (hmemP i).mp hi with hi | rfl
      · rw [pushed_get_old st (hok.normLt i hi)]; exact h i hi
      · rw [pushed_get_new]; rfl
  have hnsP : noStarA (pushed st) ↔ noStarA st := by
    unfold noStarA hasStar
    rw [hidsP, List.any_append, Bool.or_eq_false_iff, List.any_eq_false, List.any_eq_false, List.any_eq_false]
    constructor
    · intro h i hi; rw [← pushed_get_old st (hok.idsLt i hi)]; exact h.1 i hi
    · intro h
      refine ⟨fun i hi => by rw [pushed_get_old st (hok.idsLt i hi)]; exact h i hi, fun i hi => ?_⟩
      simp only [List.mem_singleton] at hi; subst hi
      rw [pushed_get_new]; simp [empty_get]
  -- loads of L1
  have hA1 := anaL_loads reg L1 (pushed st) hfP
  obtain ⟨hsv1, _⟩ := loads_saved reg L1 (pushed st) hfP
  generalize hP1 : runOps reg (pushed st) (L1.map Op.load) = P1 at hA1 hsv1
  have htop1 : P1.stack.top = st.heap.length := by rw [hA1.stack]; exact pushed_top st
  have htl1 : P1.stack.top < P1.heap.length := by rw [htop1, hA1.heap]; exact hLlt
  -- store x
  have hP2 : runOps reg P1 [Op.store x] = storeTop P1 x := rfl
  rw [hP2]
  have hget2 := storeTop_get P1 htl1 x
  have hunP2 : ∀ n, unboundA (storeTop P1 x) n ↔ (unboundA st n ∧ n ≠ x) := by
    intro n
    rw [← hunP n]
    unfold unboundA
    have hst : (storeTop P1 x).stack = (pushed st).stack := hA1.stack
    rw [hst]
    constructor
    · intro h
      have hnx : n ≠ x := by
        intro hc
        have := h st.heap.length ((hmemP _).mpr (.inr rfl))
        rw [hget2, htop1] at this
        simp [hc] at this
      refine ⟨fun i hi => ?_, hnx⟩
      have := h i hi
      rw [hget2, if_neg (fun hc => hnx hc.2), hA1.heap] at this
      exact this
    · rintro ⟨h, hnx⟩ i hi
      rw [hget2, if_neg (fun hc => hnx hc.2), hA1.heap]
      exact h i hi
  have hnsP2 : noStarA (storeTop P1 x) ↔ noStarA st := by
    rw [← hnsP]
    unfold noStarA hasStar
    have hst : (storeTop P1 x).stack = (pushed st).stack := hA1.stack
    rw [hst, List.any_eq_false, List.any_eq_false]
    have hxs : ¬ (['*'] : Str) = x := fun hc => simpleName_ne_star hx hc.symm
    constructor
    · intro h i hi
      have := h i hi
      rw [hget2, if_neg (fun hc => hxs hc.2), hA1.heap] at this
      exact this
    · intro h i hi
      rw [hget2, if_neg (fun hc => hxs hc.2), hA1.heap]
      exact h i hi
  have hf2 : (storeTop P1 x).inFunc = false := by show P1.inFunc = false; rw [hA1.inFunc]; exact hfP
  -- loads of L2
  have hA2 := anaL_loads reg L2 (storeTop P1 x) hf2
  obtain ⟨hsv2, hcl2⟩ := loads_saved reg L2 (storeTop P1 x) hf2
  generalize hP3 : runOps reg (storeTop P1 x) (L2.map Op.load) = P3 at hA2 hsv2 hcl2
  -- pop
  have hsaved3 : P3.saved = st.stack :: st.saved := by
    rw [hsv2]; show P1.saved = _; rw [hsv1]; rfl
  have hP4 : runOps reg P3 [Op.popScope] =
      { P3.emit ((P3.heap.get P3.stack.top).items.map (fun kv => Effect.truth kv.2)) with stack := st.stack, saved := st.saved } := by
    show step reg P3 .popScope = _
    simp only [step, AState.emit, hsaved3]
  rw [hP4]
  have hheap3 : P3.heap = (storeTop P1 x).heap := hA2.heap
  have hmiss2 : (storeTop P1 x).missing = P1.missing := rfl
  refine ⟨?_, ?_, rfl, rfl, ?_, ?_, ?_, ?_, ?_, ?_⟩
  · intro i hi
    show P3.heap.get i = _
    rw [hheap3, storeTop_old P1 x i (by rw [htop1]; omega), hA1.heap]
    exact pushed_get_old st hi
  · show st.heap.length ≤ P3.heap.length
    rw [hheap3]
    simp only [storeTop, Heap.length_update, hA1.heap]
    omega
  · show P3.inFunc = st.inFunc
    rw [hA2.inFunc, hf2, hf]
  · show P3.inClass = st.inClass
    rw [hcl2]
    show P1.inClass = st.inClass
    rw [← hP1, (loads_saved reg L1 (pushed st) hfP).2]; rfl
  · show P3.deferred = st.deferred
    rw [hA2.deferred]; show P1.deferred = _; rw [hA1.deferred]; rfl
  · intro m hm
    show m ∈ P3.missing
    exact hA2.mono m (hA1.mono m hm)
  · intro d hd hsd hun hns
    show ∃ m ∈ P3.missing, m.name = d
    rcases List.mem_append.mp hd with hd | hd
    · obtain ⟨m, hm, hmn⟩ := hA1.found d hd (simple_good hsd) (by rw [headOf_simple hsd]; exact (hunP d).mpr hun)
        (fun hdf => by rw [simple_dotFree hsd] at hdf; cases hdf) (hnsP.mpr hns)
      exact ⟨m, hA2.mono m hm, hmn⟩
    · obtain ⟨hd2, hnv⟩ := List.mem_filter.mp hd
      have hnx : d ≠ x := by simpa [notVar] using hnv
      exact hA2.found d hd2 (simple_good hsd) (by rw [headOf_simple hsd]; exact (hunP2 d).mpr ⟨hun, hnx⟩)
        (fun hdf => by rw [simple_dotFree hsd] at hdf; cases hdf) (hnsP2.mpr hns)
  · intro hall
    show P3.missing = st.missing
    rw [hA2.same, hmiss2, hA1.same]
    · rfl
    · intro d hd
      obtain ⟨hsd, hb⟩ := hall d (List.mem_append_left _ hd)
      exact ⟨simple_good hsd, by rw [headOf_simple hsd, hunP]; exact hb,
        fun hdf => by rw [simple_dotFree hsd] at hdf; cases hdf⟩
    · intro d hd
      have hsd := hL2 d hd
      refine ⟨simple_good hsd, ?_, fun hdf => by rw [simple_dotFree hsd] at hdf; cases hdf⟩
      rw [headOf_simple hsd, hunP2]
      rintro ⟨hun, hnx⟩
      exact (hall d (List.mem_append_right _ (List.mem_filter.mpr ⟨hd, by simpa [notVar] using hnx⟩))).2 hun


/-! ### the visitor on expressions of fragment G -/

theorem loads_simple {e : Expr} (h : fragBExpr false e = true) : ∀ d ∈ loadsOf e, simpleName d = true := by
  intro d hd
  obtain ⟨hg, hdf⟩ := loads_good false e h d hd
  have := headOf_good hg
  rwa [headOf_dotFree (hdf rfl)] at this

theorem loadss_simple {es : List Expr} (h : fragBExprs false es = true) : ∀ d ∈ loadsOfs es, simpleName d = true := by
  intro d hd
  obtain ⟨hg, hdf⟩ := loadss_good false es h d hd
  have := headOf_good hg
  rwa [headOf_dotFree (hdf rfl)] at this

mutual
  theorem globals_simple : ∀ e : Expr, fragGExpr e = true → ∀ d ∈ globalsOf e, simpleName d = true
    | .name n, h, d, hd => by
      simp only [globalsOf, List.mem_singleton] at hd; subst hd; simpa [fragGExpr] using h
    | .const, _, d, hd => by simp [globalsOf] at hd
    | .bool _, _, d, hd => by simp [globalsOf] at hd
    | .str _, _, d, hd => by simp [globalsOf] at hd
    | .binop l r, h, d, hd => by
      simp only [fragGExpr, Bool.and_eq_true] at h
      simp only [globalsOf, List.mem_append] at hd
      rcases hd with hd | hd
      · exact globals_simple l h.1 d hd
      · exact globals_simple r h.2 d hd
    | .ifExp t a b, h, d, hd => by
      simp only [fragGExpr, Bool.and_eq_true] at h
      simp only [globalsOf, List.mem_append] at hd
      rcases hd with (hd | hd) | hd
      · exact globals_simple t h.1.1 d hd
      · exact globals_simple a h.1.2 d hd
      · exact globals_simple b h.2 d hd
    | .tuple es, h, d, hd => by simp only [fragGExpr] at h; simp only [globalsOf] at hd; exact globalss_simple es h d hd
    | .list es, h, d, hd => by simp only [fragGExpr] at h; simp only [globalsOf] at hd; exact globalss_simple es h d hd
    | .subscript v i, h, d, hd => by
      simp only [fragGExpr, Bool.and_eq_true] at h
      simp only [globalsOf, List.mem_append] at hd
      rcases hd with hd | hd
      · exact globals_simple v h.1 d hd
      · exact globals_simple i h.2 d hd
    | .comp k elts gens, h, d, hd => by
      simp only [fragGExpr] at h
      obtain ⟨x, it, ifs, rfl, _, hit, hifs, hel⟩ := compOK_parts h
      simp only [globalsOf, compGlobals, genParts_mk, List.mem_append, List.mem_filter] at hd
      rcases hd with hd | ⟨hd | hd, _⟩
      · exact loads_simple hit d hd
      · exact loadss_simple hifs d hd
      · exact loadss_simple hel d hd
    | .attr _ _, h, _, _ => by simp [fragGExpr] at h
    | .call _ _, h, _, _ => by simp [fragGExpr] at h
    | .lambda _ _, h, _, _ => by simp [fragGExpr] at h
  theorem globalss_simple : ∀ es : List Expr, fragGExprs es = true → ∀ d ∈ globalsOfs es, simpleName d = true
    | [], _, d, hd => by simp [globalsOfs] at hd
    | e :: es, h, d, hd => by
      simp only [fragGExprs, Bool.and_eq_true] at h
      simp only [globalsOfs, List.mem_append] at hd
      rcases hd with hd | hd
      · exact globals_simple e h.1 d hd
      · exact globalss_simple es h.2 d hd
end

theorem AnaG.modOK {reg : Registry} {st st' : AState} {L : List Str} (h : AnaG reg st st' L) (hok : ModOK st) : ModOK st' :=
  hok.step (h.modStep hok.topLt)

/-- the visit of one comprehension of fragment G, with or without the `compScope` repair -/
theorem anaG_comp (fx : Fixes) (reg : Registry) (k : CompKind) (elts : List Expr) (x : Str) (it : Expr) (ifs : List Expr)
    (hx : simpleName x = true) (hit : fragBExpr false it = true) (hifs : fragBExprs false ifs = true)
    (hel : fragBExprs false elts = true) (st : AState) (hok : ModOK st) :
    AnaG reg st (runOps reg st (cExpr fx (.comp k elts [.mk (.name x) it ifs])))
      (loadsOf it ++ (loadsOfs ifs ++ loadsOfs elts).filter (notVar x)) := by
  have hf := hok.inv.inFunc
  have hL2 : ∀ d ∈ loadsOfs ifs ++ loadsOfs elts, simpleName d = true := by
    intro d hd
    rcases List.mem_append.mp hd with hd | hd
    · exact loadss_simple hifs d hd
    · exact loadss_simple hel d hd
  cases hcs : fx.compScope with
  | false =>
    have hops : cExpr fx (.comp k elts [.mk (.name x) it ifs]) =
        [Op.pushScope true false false] ++ (loadsOf it).map Op.load ++ [Op.store x]
          ++ (loadsOfs ifs ++ loadsOfs elts).map Op.load ++ [Op.popScope] := by
      simp only [cExpr, hcs, cGens, cTarget, cExpr_loads fx false it hit, cExprs_loads fx false elts hel,
        cExprs_loads fx false ifs hifs, List.append_nil, List.append_assoc, Bool.false_eq_true, if_false, List.map_append]
    rw [hops]
    exact anaG_bracket reg st hok.inv.ok hf true x hx _ _ hL2
  | true =>
    have hops : cExpr fx (.comp k elts [.mk (.name x) it ifs]) =
        (loadsOf it).map Op.load ++ ([Op.pushScope false false false] ++ ([] : List Str).map Op.load ++ [Op.store x]
          ++ (loadsOfs ifs ++ loadsOfs elts).map Op.load ++ [Op.popScope]) := by
      simp only [cExpr, hcs, cGens, cTarget, cExpr_loads fx false it hit, cExprs_loads fx false elts hel,
        cExprs_loads fx false ifs hifs, List.append_nil, List.append_assoc, if_true, List.map_nil, List.map_append]
    rw [hops, runOps_append]
    have hA1 := anaL_loads reg (loadsOf it) st hf
    obtain ⟨hs1, hc1⟩ := loads_saved reg (loadsOf it) st hf
    have hG1 := AnaG.ofAnaL hA1 hs1 hc1
    have hok1 := hG1.modOK hok
    have hG2 := anaG_bracket reg _ hok1.inv.ok hok1.inv.inFunc false x hx [] _ hL2
    exact (AnaG.trans hok.inv.ok hG1 hG2).mono' (fun d => by simp)

mutual
  theorem anaG_expr (fx : Fixes) (reg : Registry) : ∀ (e : Expr), fragGExpr e = true → ∀ (st : AState), ModOK st →
      AnaG reg st (runOps reg st (cExpr fx e)) (globalsOf e)
    | .name n, _, st, hok => by
      simp only [cExpr, globalsOf]
      have hA := anaL_load reg st n hok.inv.inFunc
      have hs := loads_saved reg [n] st hok.inv.inFunc
      exact AnaG.ofAnaL hA hs.1 hs.2
    | .const, _, st, _ => by simp only [cExpr, globalsOf]; exact AnaG.refl reg st
    | .bool _, _, st, _ => by simp only [cExpr, globalsOf]; exact AnaG.refl reg st
    | .str _, _, st, _ => by simp only [cExpr, globalsOf]; exact AnaG.refl reg st
    | .binop l r, h, st, hok => by
      simp only [fragGExpr, Bool.and_eq_true] at h
      simp only [cExpr, globalsOf, runOps_append]
      have h1 := anaG_expr fx reg l h.1 st hok
      exact AnaG.trans hok.inv.ok h1 (anaG_expr fx reg r h.2 _ (h1.modOK hok))
    | .subscript v i, h, st, hok => by
      simp only [fragGExpr, Bool.and_eq_true] at h
      simp only [cExpr, globalsOf, runOps_append]
      have h1 := anaG_expr fx reg v h.1 st hok
      exact AnaG.trans hok.inv.ok h1 (anaG_expr fx reg i h.2 _ (h1.modOK hok))
    | .ifExp t a b, h, st, hok => by
      simp only [fragGExpr, Bool.and_eq_true] at h
      simp only [cExpr, globalsOf, runOps_append]
      have h1 := anaG_expr fx reg t h.1.1 st hok
      have h2 := anaG_expr fx reg a h.1.2 _ (h1.modOK hok)
      have h12 := AnaG.trans hok.inv.ok h1 h2
      exact AnaG.trans hok.inv.ok h12 (anaG_expr fx reg b h.2 _ (h12.modOK hok))
    | .tuple es, h, st, hok => by
      simp only [fragGExpr] at h
      simp only [cExpr, globalsOf]
      exact anaG_exprs fx reg es h st hok
    | .list es, h, st, hok => by
      simp only [fragGExpr] at h
      simp only [cExpr, globalsOf]
      exact anaG_exprs fx reg es h st hok
    | .comp k elts gens, h, st, hok => by
      simp only [fragGExpr] at h
      obtain ⟨x, it, ifs, rfl, hx, hit, hifs, hel⟩ := compOK_parts h
      simp only [globalsOf, compGlobals, genParts_mk]
      exact anaG_comp fx reg k elts x it ifs hx hit hifs hel st hok
    | .attr _ _, h, _, _ => by simp [fragGExpr] at h
    | .call _ _, h, _, _ => by simp [fragGExpr] at h
    | .lambda _ _, h, _, _ => by simp [fragGExpr] at h
  theorem anaG_exprs (fx : Fixes) (reg : Registry) : ∀ (es : List Expr), fragGExprs es = true → ∀ (st : AState), ModOK st →
      AnaG reg st (runOps reg st (cExprs fx es)) (globalsOfs es)
    | [], _, st, _ => by simp only [cExprs, globalsOfs]; exact AnaG.refl reg st
    | e :: es, h, st, hok => by
      simp only [fragGExprs, Bool.and_eq_true] at h
      simp only [cExprs, globalsOfs, runOps_append]
      have h1 := anaG_expr fx reg e h.1 st hok
      exact AnaG.trans hok.inv.ok h1 (anaG_exprs fx reg es h.2 _ (h1.modOK hok))
end

/-! ### the correspondence on fragment G -/

structure CorrG (s : XState) (st : AState) : Prop where
  corr : Corr false s st
  ok : ModOK st

theorem Corr.anaG {reg : Registry} {s : XState} {st st' : AState} {L : List Str}
    (h : Corr false s st) (hok : ModOK st) (a : AnaG reg st st' L) : Corr false s st' := by
  obtain ⟨hu, hs⟩ := lookups_old hok.inv.ok a.stack a.old
  refine ⟨fun n hn => by rw [h.names n hn, hu], hs.mpr h.noStar, ?_, by rw [a.inFunc]; exact h.inFunc,
    by rw [a.stack]; exact h.topMem, by rw [a.stack]; exact Nat.lt_of_lt_of_le h.topLt a.len, fun hD => by cases hD⟩
  intro n hn
  obtain ⟨m, hm, hmn⟩ := h.ne n hn
  exact ⟨m, a.mono m hm, hmn⟩

theorem Corr.neG {s : XState} {st : AState} (h : Corr false s st) : ∀ n ∈ s.ne, ∃ m ∈ st.missing, m.name = n := by
  intro n hn
  obtain ⟨m, hm, hmn⟩ := h.ne n hn
  exact ⟨m, hm, hmn.2 rfl⟩

/-- evaluating and analysing one expression of fragment G at module level, in lock step -/
theorem corr_exprG (fx : Fixes) (reg : Registry) {s : XState} {st : AState} (h : CorrG s st) (f : Nat) (e : Expr)
    (hfr : fragGExpr e = true) :
    AnaG reg st (runOps reg st (cExpr fx e)) (globalsOf e) ∧
    SameGlob s (evalExpr f {} e s).1 ∧
    (∀ n ∈ (evalExpr f {} e s).1.ne, ∃ m ∈ (runOps reg st (cExpr fx e)).missing,
        m.name = n) ∧
    (∀ v, (evalExpr f {} e s).2 = .ok v → (evalExpr f {} e s).1.ne = s.ne ∧
        (plainG e = true → (runOps reg st (cExpr fx e)).missing = st.missing)) := by
  have hA := anaG_expr fx reg e hfr st h.ok
  have hE := (evalG f).1 e s hfr
  have hsimple := globals_simple e hfr
  refine ⟨hA, hE.same, ?_, ?_⟩
  · intro n hn
    cases hr : (evalExpr f {} e s).2 with
    | ok v =>
      rw [(hE.ok v hr).1] at hn
      obtain ⟨m, hm, hmn⟩ := h.corr.neG n hn
      exact ⟨m, hA.mono m hm, hmn⟩
    | error x =>
      rcases hE.err x hr with ⟨n', _, hne, hmem, hu⟩ | ⟨_, hne⟩
      · rw [hne] at hn
        rcases mem_addOnce hn with hn | rfl
        · obtain ⟨m, hm, hmn⟩ := h.corr.neG n hn
          exact ⟨m, hA.mono m hm, hmn⟩
        · have hs := hsimple n hmem
          exact hA.found n hmem hs ((h.corr.names n hs).mp hu) h.corr.noStar
      · rw [hne] at hn
        obtain ⟨m, hm, hmn⟩ := h.corr.neG n hn
        exact ⟨m, hA.mono m hm, hmn⟩
  · intro v hv
    refine ⟨(hE.ok v hv).1, fun hp => ?_⟩
    apply hA.same
    intro d hd
    have hs := hsimple d hd
    refine ⟨hs, fun hun => ?_⟩
    exact (hE.ok v hv).2 d (mem_kOf.mpr ⟨hp, hd⟩) ((h.corr.names d hs).mpr hun)

/-! ### statements -/

/-- the statements of fragment G that are statements of fragment B as they stand -/
def isLeafG : Stmt → Bool
  | .pass => true
  | .import_ _ => true
  | .importFrom _ _ => true
  | _ => false

theorem fragG_B_leaf {stmt : Stmt} (h : fragGStmt stmt = true) (hk : isLeafG stmt = true) :
    fragBStmt false stmt = true := by
  cases stmt <;> first | (simp [isLeafG] at hk; done) | rfl | (simpa [fragGStmt, fragBStmt] using h)

/-- the analysis of `x = e` after the value has been visited, as a module-level step -/
theorem modStep_assign_tail (fx : Fixes) (reg : Registry) (st : AState) (x : Str) (e : Expr) (hf : st.inFunc = false)
    (htl : st.stack.top < st.heap.length) :
    ModStep st (runOps reg st (cTargets fx [Expr.name x] ++ cAll [Expr.name x] e)) := by
  rw [runOps_append]
  have hst : runOps reg st (cTargets fx [Expr.name x]) = storeTop st x := by simp [cTargets, cTarget, runOps, step]
  rw [hst]
  have h2 := modStep_storeTop st x htl
  rcases cAll_cases x e with h | ⟨_, ns, h⟩
  · rw [h]; exact h2
  · rw [h]
    have hf2 : (storeTop st x).inFunc = false := hf
    have hrun : runOps reg (storeTop st x) [.allNames ns] = ns.foldl (deferGlobal reg) (storeTop st x) := by
      show step reg _ (.allNames ns) = _
      simp only [step, hf2]
      rfl
    rw [hrun]
    exact h2.trans (modStep_deferGlobals reg ns _)

/-- analysis only: a statement of fragment G is a module-level step (nothing reported is dropped, the stack is restored) -/
theorem modStep_stmtG (fx : Fixes) (reg : Registry) : ∀ (stmt : Stmt) (ln : Nat) (st : AState),
    fragGStmt stmt = true → ModOK st → ModStep st (runOps reg st (cStmt fx ln stmt))
  | .expr e, ln, st, hfr, hok => by
    simp only [cStmt]
    exact (anaG_expr fx reg e (by simpa [fragGStmt] using hfr) st hok).modStep hok.topLt
  | .assign ts e, ln, st, hfr, hok => by
    simp only [fragGStmt, Bool.and_eq_true] at hfr
    cases hsn : singleName ts with
    | none => rw [hsn] at hfr; simp at hfr
    | some x =>
      have hts := singleName_eq hsn
      subst hts
      simp only [cStmt, List.append_assoc]
      rw [runOps_append]
      have hA := anaG_expr fx reg e hfr.2 st hok
      have hok1 := hA.modOK hok
      exact (hA.modStep hok.topLt).trans (modStep_assign_tail fx reg _ x e hok1.inv.inFunc hok1.topLt)
  | .pass, ln, st, hfr, hok => modStep_stmtB fx reg false .pass ln st (fragG_B_leaf hfr rfl) hok.inv.inFunc hok.topLt
  | .import_ names, ln, st, hfr, hok =>
    modStep_stmtB fx reg false (.import_ names) ln st (fragG_B_leaf hfr rfl) hok.inv.inFunc hok.topLt
  | .importFrom m names, ln, st, hfr, hok =>
    modStep_stmtB fx reg false (.importFrom m names) ln st (fragG_B_leaf hfr rfl) hok.inv.inFunc hok.topLt
  | .located l s, ln, st, hfr, hok => by
    simp only [cStmt, runOps_setLine]
    have h0 : ModStep st { st with line := l } := ModStep.of_heap rfl rfl rfl rfl ⟨[], by simp⟩ (fun _ h => h)
    exact h0.trans (modStep_stmtG fx reg s l { st with line := l } (by simpa [fragGStmt] using hfr) (hok.step h0))
  | .augAssign _ _, _, _, hfr, _ => by simp [fragGStmt] at hfr
  | .annAssign _ _ _, _, _, hfr, _ => by simp [fragGStmt] at hfr
  | .funcDef _ _ _ _ _, _, _, hfr, _ => by simp [fragGStmt] at hfr
  | .classDef _ _ _ _, _, _, hfr, _ => by simp [fragGStmt] at hfr
  | .for_ _ _ _ _, _, _, hfr, _ => by simp [fragGStmt] at hfr
  | .while_ _ _ _, _, _, hfr, _ => by simp [fragGStmt] at hfr
  | .if_ _ _ _, _, _, hfr, _ => by simp [fragGStmt] at hfr
  | .with_ _ _, _, _, hfr, _ => by simp [fragGStmt] at hfr
  | .try_ _ _ _ _, _, _, hfr, _ => by simp [fragGStmt] at hfr
  | .return_ _, _, _, hfr, _ => by simp [fragGStmt] at hfr
  | .raise_ _, _, _, hfr, _ => by simp [fragGStmt] at hfr
  | .delete _, _, _, hfr, _ => by simp [fragGStmt] at hfr
  | .global_ _, _, _, hfr, _ => by simp [fragGStmt] at hfr
  | .nonlocal_ _, _, _, hfr, _ => by simp [fragGStmt] at hfr

theorem modStep_stmtsG (fx : Fixes) (reg : Registry) : ∀ (ss : List Stmt) (ln : Nat) (st : AState),
    fragG ss = true → ModOK st → ModStep st (runOps reg st (cStmts fx ln ss))
  | [], _, st, _, _ => by simp only [cStmts]; exact ModStep.refl st
  | s :: ss, ln, st, hfr, hok => by
    simp only [fragG, List.all_cons, Bool.and_eq_true] at hfr
    simp only [cStmts, runOps_append]
    have h1 := modStep_stmtG fx reg s ln st hfr.1 hok
    exact h1.trans (modStep_stmtsG fx reg ss ln _ (by simpa [fragG] using hfr.2) (hok.step h1))

theorem CorrG.line {s : XState} {st : AState} (h : CorrG s st) (l : Nat) :
    CorrG { s with line := l } { st with line := l } :=
  ⟨(h.corr.line l).setLine l, h.ok.step (ModStep.of_heap rfl rfl rfl rfl ⟨[], by simp⟩ (fun _ h => h))⟩

theorem RD_false (reg : Registry) (st : AState) : RD false reg st := fun hD => by cases hD

theorem plainStmtB_leaf {stmt : Stmt} (hk : isLeafG stmt = true) : plainStmtB stmt = true := by
  cases stmt <;> first | (simp [isLeafG] at hk; done) | rfl

/-- the leaf statements shared with fragment B (`pass`, imports): the fragment-B simulation applies -/
theorem stmtG_leaf (fx : Fixes) (reg : Registry) (stmt : Stmt) (f : Nat) (s : XState) (st : AState) (ln : Nat)
    (hfr : fragGStmt stmt = true) (hk : isLeafG stmt = true) (h : CorrG s st) :
    (∀ n ∈ (execStmt f {} stmt s).1.ne, ∃ m ∈ (runOps reg st (cStmt fx ln stmt)).missing,
        m.name = n) ∧
    (∀ fl, (execStmt f {} stmt s).2 = .ok fl →
      fl = Flow.normal ∧ CorrG (execStmt f {} stmt s).1 (runOps reg st (cStmt fx ln stmt)) ∧
      (plainStmtG stmt = true → (runOps reg st (cStmt fx ln stmt)).missing = st.missing ∧
        (runOps reg st (cStmt fx ln stmt)).deferred = st.deferred)) := by
  have hB := fragG_B_leaf hfr hk
  obtain ⟨h1, h2⟩ := stmtB fx reg false stmt f s st ln hB h.corr
  refine ⟨fun n hn => (h1 n hn).imp (fun m hm => ⟨hm.1, hm.2.2 rfl⟩), fun fl hfl => ?_⟩
  obtain ⟨a, b, _, d⟩ := h2 fl hfl
  exact ⟨a, ⟨b, h.ok.step (modStep_stmtB fx reg false stmt ln st hB h.ok.inv.inFunc h.ok.topLt)⟩,
    fun _ => d (plainStmtB_leaf hk) (RD_false reg st)⟩

/-- one module-level statement of fragment G, reference semantics and analysis in lock step -/
theorem stmtG (fx : Fixes) (reg : Registry) : ∀ (stmt : Stmt) (f : Nat) (s : XState) (st : AState) (ln : Nat),
    fragGStmt stmt = true → CorrG s st →
    (∀ n ∈ (execStmt f {} stmt s).1.ne, ∃ m ∈ (runOps reg st (cStmt fx ln stmt)).missing,
        m.name = n) ∧
    (∀ fl, (execStmt f {} stmt s).2 = .ok fl →
      fl = Flow.normal ∧ CorrG (execStmt f {} stmt s).1 (runOps reg st (cStmt fx ln stmt)) ∧
      (plainStmtG stmt = true → (runOps reg st (cStmt fx ln stmt)).missing = st.missing ∧
        (runOps reg st (cStmt fx ln stmt)).deferred = st.deferred))
  | stmt, 0, s, st, ln, hfr, h => by
    have hm := (modStep_stmtG fx reg stmt ln st hfr h.ok).mono
    rw [execStmt]
    refine ⟨fun n hn => ?_, fun fl hfl => by cases hfl⟩
    obtain ⟨m, hmm, hmn⟩ := h.corr.neG n hn
    exact ⟨m, hm m hmm, hmn⟩
  | .expr e, f + 1, s, st, ln, hfr, h => by
    have hfe : fragGExpr e = true := by simpa [fragGStmt] using hfr
    obtain ⟨hA, hsame, hne, hok⟩ := corr_exprG fx reg h f e hfe
    simp only [execStmt, cStmt, X.bind_def]
    cases hr : evalExpr f {} e s with
    | mk s' r =>
      rw [hr] at hne hok hsame
      cases r with
      | error x => exact ⟨hne, fun fl hfl => by cases hfl⟩
      | ok v =>
        obtain ⟨hnes, hno⟩ := hok v rfl
        refine ⟨hne, fun fl hfl => ?_⟩
        have : fl = Flow.normal := by
          have := hfl; simp only [X.pure_def] at this; cases this; rfl
        exact ⟨this, ⟨(h.corr.anaG h.ok hA).glob hsame hnes, hA.modOK h.ok⟩,
          fun hp => ⟨hno (by simpa [plainStmtG] using hp), hA.deferred⟩⟩
  | .assign ts e, f + 1, s, st, ln, hfr, h => by
    simp only [fragGStmt, Bool.and_eq_true] at hfr
    cases hsn : singleName ts with
    | none => rw [hsn] at hfr; simp at hfr
    | some x =>
      have hts := singleName_eq hsn
      subst hts
      rw [hsn] at hfr
      have hx : simpleName x = true := hfr.1
      obtain ⟨hA, hsame, hne, hok⟩ := corr_exprG fx reg h f e hfr.2
      have hok1 := hA.modOK h.ok
      have hf1 : (runOps reg st (cExpr fx e)).inFunc = false := hok1.inv.inFunc
      obtain ⟨t1, t2, t3, t4, t5⟩ := assign_tail fx reg (runOps reg st (cExpr fx e)) x e hf1
      have hms := modStep_assign_tail fx reg (runOps reg st (cExpr fx e)) x e hf1 hok1.topLt
      simp only [execStmt, cStmt, List.append_assoc, X.bind_def]
      rw [runOps_append]
      cases hr : evalExpr f {} e s with
      | mk s' r =>
        rw [hr] at hne hok hsame
        cases r with
        | error err =>
          refine ⟨fun n hn => ?_, fun fl hfl => by cases hfl⟩
          obtain ⟨m, hm, hmn⟩ := hne n hn
          exact ⟨m, by rw [t4]; exact hm, hmn⟩
        | ok v =>
          obtain ⟨hnes, hno⟩ := hok v rfl
          simp only at hnes hsame
          have hc1 : Corr false s' (runOps reg st (cExpr fx e)) := (h.corr.anaG h.ok hA).glob hsame hnes
          simp only
          rcases assignAll_name f x v s' with ha | ha
          · rw [ha]
            simp only [X.pure_def]
            have hget : ∀ i n, ((runOps reg (runOps reg st (cExpr fx e)) (cTargets fx [Expr.name x] ++ cAll [Expr.name x] e)).heap.get i).get n =
                if i = (runOps reg st (cExpr fx e)).stack.top ∧ n ∈ [x] then some Val.none
                else ((runOps reg st (cExpr fx e)).heap.get i).get n := by
              intro i n
              rw [t1, storeTop_get _ hc1.topLt]
              simp
            obtain ⟨hc, _⟩ := corr_storeKeys (reg := reg)
              (s2 := { s' with globals := assocSet x v s'.globals, origins := assocDel x s'.origins }) hc1 [x] [x]
              (fun n => by
                unfold unboundX
                by_cases hn : n = x
                · subst hn; simp [assocGet_assocSet_eq]
                · simp [assocGet_assocSet_ne hn, hn])
              rfl (fun _ _ => Iff.rfl)
              (by simp only [List.mem_singleton]; exact fun hc => simpleName_ne_star hx hc.symm)
              (fun hD => by cases hD)
              t2 (by rw [t1]; simp [storeTop, Heap.length_update]) t3 t4 (fun i _ n => hget i n)
            refine ⟨fun n hn => hc.neG n hn, fun fl hfl => ?_⟩
            have : fl = Flow.normal := by cases hfl; rfl
            refine ⟨this, ⟨hc, hok1.step hms⟩, fun hp => ?_⟩
            simp only [plainStmtG, hsn, Bool.and_eq_true, bne_iff_ne, ne_eq, Option.some.injEq] at hp
            exact ⟨by rw [t4]; exact hno hp.1, by rw [t5 hp.2]; exact hA.deferred⟩
          · rw [ha]
            refine ⟨fun n hn => ?_, fun fl hfl => by cases hfl⟩
            obtain ⟨m, hm, hmn⟩ := hc1.neG n hn
            exact ⟨m, by rw [t4]; exact hm, hmn⟩
  | .pass, f + 1, s, st, ln, hfr, h => stmtG_leaf fx reg .pass (f + 1) s st ln hfr rfl h
  | .import_ names, f + 1, s, st, ln, hfr, h => stmtG_leaf fx reg (.import_ names) (f + 1) s st ln hfr rfl h
  | .importFrom m names, f + 1, s, st, ln, hfr, h => stmtG_leaf fx reg (.importFrom m names) (f + 1) s st ln hfr rfl h
  | .located l s', f + 1, s, st, ln, hfr, h => by
    simp only [execStmt, cStmt, runOps_setLine, X.bind_def, X.modify]
    have := stmtG fx reg s' f { s with line := l } { st with line := l } l (by simpa [fragGStmt] using hfr) (h.line l)
    refine ⟨this.1, fun fl hfl => ?_⟩
    obtain ⟨a, b, d⟩ := this.2 fl hfl
    exact ⟨a, b, fun hp => d (by simpa [plainStmtG] using hp)⟩
  | .augAssign _ _, _ + 1, _, _, _, hfr, _ => by simp [fragGStmt] at hfr
  | .annAssign _ _ _, _ + 1, _, _, _, hfr, _ => by simp [fragGStmt] at hfr
  | .funcDef _ _ _ _ _, _ + 1, _, _, _, hfr, _ => by simp [fragGStmt] at hfr
  | .classDef _ _ _ _, _ + 1, _, _, _, hfr, _ => by simp [fragGStmt] at hfr
  | .for_ _ _ _ _, _ + 1, _, _, _, hfr, _ => by simp [fragGStmt] at hfr
  | .while_ _ _ _, _ + 1, _, _, _, hfr, _ => by simp [fragGStmt] at hfr
  | .if_ _ _ _, _ + 1, _, _, _, hfr, _ => by simp [fragGStmt] at hfr
  | .with_ _ _, _ + 1, _, _, _, hfr, _ => by simp [fragGStmt] at hfr
  | .try_ _ _ _ _, _ + 1, _, _, _, hfr, _ => by simp [fragGStmt] at hfr
  | .return_ _, _ + 1, _, _, _, hfr, _ => by simp [fragGStmt] at hfr
  | .raise_ _, _ + 1, _, _, _, hfr, _ => by simp [fragGStmt] at hfr
  | .delete _, _ + 1, _, _, _, hfr, _ => by simp [fragGStmt] at hfr
  | .global_ _, _ + 1, _, _, _, hfr, _ => by simp [fragGStmt] at hfr
  | .nonlocal_ _, _ + 1, _, _, _, hfr, _ => by simp [fragGStmt] at hfr

theorem stmtsG (fx : Fixes) (reg : Registry) : ∀ (ss : List Stmt) (f : Nat) (s : XState) (st : AState) (ln : Nat),
    fragG ss = true → CorrG s st →
    (∀ n ∈ (execStmts f {} ss s).1.ne, ∃ m ∈ (runOps reg st (cStmts fx ln ss)).missing,
        m.name = n) ∧
    (∀ fl, (execStmts f {} ss s).2 = .ok fl →
      CorrG (execStmts f {} ss s).1 (runOps reg st (cStmts fx ln ss)) ∧
      (ss.all plainStmtG = true → (runOps reg st (cStmts fx ln ss)).missing = st.missing ∧
        (runOps reg st (cStmts fx ln ss)).deferred = st.deferred))
  | ss, 0, s, st, ln, hfr, h => by
    have hm := (modStep_stmtsG fx reg ss ln st hfr h.ok).mono
    rw [execStmts]
    refine ⟨fun n hn => ?_, fun fl hfl => by cases hfl⟩
    obtain ⟨m, hmm, hmn⟩ := h.corr.neG n hn
    exact ⟨m, hm m hmm, hmn⟩
  | [], f + 1, s, st, ln, _, h => by
    simp only [execStmts, cStmts, X.pure_def]
    exact ⟨h.corr.neG, fun fl _ => ⟨h, fun _ => ⟨rfl, rfl⟩⟩⟩
  | stmt :: ss, f + 1, s, st, ln, hfr, h => by
    simp only [fragG, List.all_cons, Bool.and_eq_true] at hfr
    have hfr2 : fragG ss = true := by simpa [fragG] using hfr.2
    obtain ⟨h1, h2⟩ := stmtG fx reg stmt f s st ln hfr.1 h
    simp only [execStmts, cStmts, runOps_append, X.bind_def]
    have hAna := modStep_stmtG fx reg stmt ln st hfr.1 h.ok
    cases hr : execStmt f {} stmt s with
    | mk s' r =>
      rw [hr] at h1 h2
      cases r with
      | error x =>
        simp only
        refine ⟨fun n hn => ?_, fun fl hfl => by cases hfl⟩
        obtain ⟨m, hm, hmn⟩ := h1 n hn
        exact ⟨m, (modStep_stmtsG fx reg ss ln _ hfr2 (h.ok.step hAna)).mono m hm, hmn⟩
      | ok fl0 =>
        obtain ⟨hfl0, hc, hp⟩ := h2 fl0 rfl
        subst hfl0
        simp only
        obtain ⟨r1, r2⟩ := stmtsG fx reg ss f s' _ ln hfr2 hc
        refine ⟨r1, fun fl hfl => ?_⟩
        obtain ⟨c2, p2⟩ := r2 fl hfl
        refine ⟨c2, fun hall => ?_⟩
        simp only [List.all_cons, Bool.and_eq_true] at hall
        obtain ⟨p1a, p1b⟩ := hp hall.1
        obtain ⟨p2a, p2b⟩ := p2 hall.2
        exact ⟨p2a.trans p1a, p2b.trans p1b⟩

theorem corrG_init (builtins : Scope) (ns : List Scope) (s0 : XState) (h : Agree builtins ns s0)
    (hb : builtins.isClass = false) : CorrG s0 (initState builtins ns) :=
  ⟨corr_init false builtins ns s0 h (fun hD => by cases hD), modOK_init builtins ns h.noClass hb⟩


/-! ### fragment G extends fragment B without dots -/

mutual
  theorem fragB_G_expr : ∀ e : Expr, fragBExpr false e = true → fragGExpr e = true
    | .name n, h => by simpa [fragBExpr, fragGExpr] using h
    | .const, _ => rfl
    | .bool _, _ => rfl
    | .str _, _ => rfl
    | .binop l r, h => by
      simp only [fragBExpr, Bool.and_eq_true] at h
      simp only [fragGExpr, Bool.and_eq_true]; exact ⟨fragB_G_expr l h.1, fragB_G_expr r h.2⟩
    | .ifExp t a b, h => by
      simp only [fragBExpr, Bool.and_eq_true] at h
      simp only [fragGExpr, Bool.and_eq_true]; exact ⟨⟨fragB_G_expr t h.1.1, fragB_G_expr a h.1.2⟩, fragB_G_expr b h.2⟩
    | .tuple es, h => by simp only [fragBExpr] at h; simp only [fragGExpr]; exact fragB_G_exprs es h
    | .list es, h => by simp only [fragBExpr] at h; simp only [fragGExpr]; exact fragB_G_exprs es h
    | .subscript v i, h => by
      simp only [fragBExpr, Bool.and_eq_true] at h
      simp only [fragGExpr, Bool.and_eq_true]; exact ⟨fragB_G_expr v h.1, fragB_G_expr i h.2⟩
    | .attr _ _, h => by simp [fragBExpr] at h
    | .call _ _, h => by simp [fragBExpr] at h
    | .lambda _ _, h => by simp [fragBExpr] at h
    | .comp _ _ _, h => by simp [fragBExpr] at h
  theorem fragB_G_exprs : ∀ es : List Expr, fragBExprs false es = true → fragGExprs es = true
    | [], _ => rfl
    | e :: es, h => by
      simp only [fragBExprs, Bool.and_eq_true] at h
      simp only [fragGExprs, Bool.and_eq_true]; exact ⟨fragB_G_expr e h.1, fragB_G_exprs es h.2⟩
end

theorem fragB_G_stmt : ∀ s : Stmt, fragBStmt false s = true → fragGStmt s = true
  | .expr e, h => by simp only [fragBStmt] at h; simp only [fragGStmt]; exact fragB_G_expr e h
  | .assign ts e, h => by
    simp only [fragBStmt, Bool.and_eq_true] at h
    simp only [fragGStmt, Bool.and_eq_true]; exact ⟨h.1, fragB_G_expr e h.2⟩
  | .pass, _ => rfl
  | .import_ _, h => by simpa [fragBStmt, fragGStmt] using h
  | .importFrom _ _, h => by simpa [fragBStmt, fragGStmt] using h
  | .located _ s, h => by simp only [fragBStmt] at h; simp only [fragGStmt]; exact fragB_G_stmt s h
  | .augAssign _ _, h => by simp [fragBStmt] at h
  | .annAssign _ _ _, h => by simp [fragBStmt] at h
  | .funcDef _ _ _ _ _, h => by simp [fragBStmt] at h
  | .classDef _ _ _ _, h => by simp [fragBStmt] at h
  | .for_ _ _ _ _, h => by simp [fragBStmt] at h
  | .while_ _ _ _, h => by simp [fragBStmt] at h
  | .if_ _ _ _, h => by simp [fragBStmt] at h
  | .with_ _ _, h => by simp [fragBStmt] at h
  | .try_ _ _ _ _, h => by simp [fragBStmt] at h
  | .return_ _, h => by simp [fragBStmt] at h
  | .raise_ _, h => by simp [fragBStmt] at h
  | .delete _, h => by simp [fragBStmt] at h
  | .global_ _, h => by simp [fragBStmt] at h
  | .nonlocal_ _, h => by simp [fragBStmt] at h

/-- every program of fragment B without dotted names is a program of fragment G -/
theorem fragB_G {prog : List Stmt} (h : fragB false prog = true) : fragG prog = true := by
  simp only [fragB, fragG, List.all_eq_true] at h ⊢
  exact fun s hs => fragB_G_stmt s (h s hs)

end Pfb.C05
