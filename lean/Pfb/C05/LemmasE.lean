/-
  Pfb.C05.LemmasE — fragment C, precision: when the run completes, every name reported by the analysis is a read of some
  function body whose head is not bound at module level when the run ends.
-/
import Pfb.C05.LemmasD
namespace Pfb.C05
open Pfb Pfb.PyCore

/-- nothing reported so far; every deferred entry belongs to a function body and has frozen scopes -/
structure PlainInv (D : Bool) (reg : Registry) (s : XState) (st : AState) : Prop where
  missing : st.missing = []
  entries : ∀ e ∈ st.deferred, ∃ ps body fname, defClosure ps body ∈ s.funcs ∧ body.all (fbodyStmt D) = true ∧
    e.name ∈ bodyLoads body ∧ Frozen st (paramNames ps ++ boundStmts body ++ [fname]) e
  rd : RD D reg st

theorem RD.congr {D : Bool} {reg : Registry} {st st' : AState} (h : RD D reg st) (hh : st'.heap = st.heap)
    (hs : st'.stack = st.stack) : RD D reg st' := by
  intro hD; obtain ⟨h1, h2⟩ := h hD
  refine ⟨?_, h2⟩
  unfold RegDisjointS at *; rw [hh, hs]; exact h1

theorem PlainInv.step {D : Bool} {reg : Registry} {s s' : XState} {st st' : AState} (h : PlainInv D reg s st)
    (hm : st'.missing = st.missing) (hd : st'.deferred = st.deferred) (hs : ModStep st st') (hf : s'.funcs = s.funcs)
    (hrd : RD D reg st') : PlainInv D reg s' st' := by
  refine ⟨hm.trans h.missing, fun e he => ?_, hrd⟩
  rw [hd] at he
  obtain ⟨ps, body, fname, h1, h2, h3, h4⟩ := h.entries e he
  exact ⟨ps, body, fname, by rw [hf]; exact h1, h2, h3, h4.mono hs⟩

theorem PlainInv.line {D : Bool} {reg : Registry} {s : XState} {st : AState} (h : PlainInv D reg s st) (l : Nat) :
    PlainInv D reg { s with line := l } { st with line := l } :=
  h.step rfl rfl (ModStep.of_heap rfl rfl rfl rfl ⟨[], by simp⟩ (fun _ h => h)) rfl (h.rd.congr rfl rfl)

theorem stmtC_def_plain (fx : Fixes) (reg : Registry) (D : Bool) : ∀ (stmt : Stmt) (f : Nat) (s : XState) (st : AState) (ln : Nat),
    fragDef D stmt = true → CorrC D s st → PlainInv D reg s st →
    ∀ fl, (execStmt f {} stmt s).2 = .ok fl → PlainInv D reg (execStmt f {} stmt s).1 (runOps reg st (cStmt fx ln stmt))
  | stmt, 0, s, st, ln, _, _, _ => by rw [execStmt]; intro fl hfl; cases hfl
  | .located l s', f + 1, s, st, ln, hfr, h, hp => by
    simp only [execStmt, cStmt, runOps_setLine, X.bind_def, X.modify]
    exact stmtC_def_plain fx reg D s' f { s with line := l } { st with line := l } l (by simpa [fragDef] using hfr)
      (h.line l) (hp.line l)
  | .funcDef name a body decos ret, f + 1, s, st, ln, hfr, h, hp => by
    obtain ⟨ps, rfl, rfl, rfl, hn, hps, hb⟩ := fragDef_funcDef hfr
    obtain ⟨_, e2⟩ := execDef (f + 1) s name ps body hps
    obtain ⟨a1, a2, a3, a4, a5, a6, a7, a8, a9, _⟩ := defA fx reg D h.ok.inv h.ok.topLt ln name ps body hn hps hb
    have hs := modStep_def fx reg D h.ok ln name ps body hn hps hb
    intro fl hfl
    obtain ⟨_, hst⟩ := e2 fl hfl
    rw [hst]
    have hget : ∀ i ∈ normIds st.stack.ids, ∀ n,
        ((runOps reg st (cStmt fx ln (.funcDef name (.mk ps [] none [] [] none) body [] none))).heap.get i).get n =
          if i = st.stack.top ∧ n ∈ [name] then some Val.none else (st.heap.get i).get n := by
      intro i hi n
      have hilt : i < st.heap.length := h.ok.inv.ok.idsLt i (by rw [← h.ok.inv.ok.wf]; exact hi)
      by_cases hit : i = st.stack.top
      · subst hit; rw [a7]; simp
      · rw [a6 i hilt hit]; simp [hit]
    obtain ⟨_, hrd⟩ := corr_storeKeys (reg := reg)
      (s2 := { s with funcs := s.funcs ++ [defClosure ps body], globals := assocSet name (.func s.funcs.length) s.globals,
                      origins := assocDel name s.origins }) h.corr [name] [name]
      (fun n => by
        unfold unboundX
        by_cases hnn : n = name
        · subst hnn; simp [assocGet_assocSet_eq]
        · simp [assocGet_assocSet_ne hnn, hnn])
      rfl (fun _ _ => Iff.rfl)
      (by simp only [List.mem_singleton]; exact fun hc => simpleName_ne_star hn hc.symm)
      (fun _ k hk => by simp only [List.mem_singleton] at hk ⊢; rw [hk, headOf_simple hn])
      a1 a5 a2 a4 hget
    obtain ⟨E, hE, hEf⟩ := a9
    refine ⟨a4.trans hp.missing, fun e he => ?_, hrd hp.rd⟩
    rw [hE] at he
    rcases List.mem_append.mp he with he | he
    · obtain ⟨ps', body', fname, h1, h2, h3, h4⟩ := hp.entries e he
      exact ⟨ps', body', fname, List.mem_append_left _ h1, h2, h3, h4.mono hs⟩
    · obtain ⟨g1, g2⟩ := hEf e he
      exact ⟨ps, body, name, List.mem_append_right _ (List.mem_singleton.mpr rfl), hb, g1, g2⟩
  | .expr _, _ + 1, _, _, _, hfr, _, _ => by simp [fragDef] at hfr
  | .assign _ _, _ + 1, _, _, _, hfr, _, _ => by simp [fragDef] at hfr
  | .pass, _ + 1, _, _, _, hfr, _, _ => by simp [fragDef] at hfr
  | .import_ _, _ + 1, _, _, _, hfr, _, _ => by simp [fragDef] at hfr
  | .importFrom _ _, _ + 1, _, _, _, hfr, _, _ => by simp [fragDef] at hfr
  | .augAssign _ _, _ + 1, _, _, _, hfr, _, _ => by simp [fragDef] at hfr
  | .annAssign _ _ _, _ + 1, _, _, _, hfr, _, _ => by simp [fragDef] at hfr
  | .classDef _ _ _ _, _ + 1, _, _, _, hfr, _, _ => by simp [fragDef] at hfr
  | .for_ _ _ _ _, _ + 1, _, _, _, hfr, _, _ => by simp [fragDef] at hfr
  | .while_ _ _ _, _ + 1, _, _, _, hfr, _, _ => by simp [fragDef] at hfr
  | .if_ _ _ _, _ + 1, _, _, _, hfr, _, _ => by simp [fragDef] at hfr
  | .with_ _ _, _ + 1, _, _, _, hfr, _, _ => by simp [fragDef] at hfr
  | .try_ _ _ _ _, _ + 1, _, _, _, hfr, _, _ => by simp [fragDef] at hfr
  | .return_ _, _ + 1, _, _, _, hfr, _, _ => by simp [fragDef] at hfr
  | .raise_ _, _ + 1, _, _, _, hfr, _, _ => by simp [fragDef] at hfr
  | .delete _, _ + 1, _, _, _, hfr, _, _ => by simp [fragDef] at hfr
  | .global_ _, _ + 1, _, _, _, hfr, _, _ => by simp [fragDef] at hfr
  | .nonlocal_ _, _ + 1, _, _, _, hfr, _, _ => by simp [fragDef] at hfr

theorem stmtC_plain (fx : Fixes) (reg : Registry) (D : Bool) (stmt : Stmt) (f : Nat) (s : XState) (st : AState) (ln : Nat)
    (hfr : fragCStmt D stmt = true) (hpl : plainStmtB stmt = true) (h : CorrC D s st) (hp : PlainInv D reg s st) :
    ∀ fl, (execStmt f {} stmt s).2 = .ok fl → PlainInv D reg (execStmt f {} stmt s).1 (runOps reg st (cStmt fx ln stmt)) := by
  simp only [fragCStmt, Bool.or_eq_true] at hfr
  rcases hfr with hfr | hfr
  · intro fl hfl
    obtain ⟨_, h2⟩ := stmtB fx reg D stmt f s st ln hfr h.corr
    obtain ⟨_, _, b3, b4⟩ := h2 fl hfl
    obtain ⟨m1, m2⟩ := b4 hpl hp.rd
    exact hp.step m1 m2 (modStep_stmtB fx reg D stmt ln st hfr h.ok.inv.inFunc h.ok.topLt)
      (funcs_stmtB D stmt f s hfr fl hfl) (b3 hp.rd)
  · exact stmtC_def_plain fx reg D stmt f s st ln hfr h hp

theorem stmtsC_plain (fx : Fixes) (reg : Registry) (D : Bool) : ∀ (ss : List Stmt) (f : Nat) (s : XState) (st : AState) (ln : Nat),
    fragC D ss = true → ss.all plainStmtB = true → CorrC D s st → PlainInv D reg s st →
    ∀ fl, (execStmts f {} ss s).2 = .ok fl → PlainInv D reg (execStmts f {} ss s).1 (runOps reg st (cStmts fx ln ss))
  | ss, 0, s, st, ln, _, _, _, _ => by rw [execStmts]; intro fl hfl; cases hfl
  | [], f + 1, s, st, ln, _, _, _, hp => by
    simp only [execStmts, cStmts, X.pure_def]; intro _ _; exact hp
  | stmt :: ss, f + 1, s, st, ln, hfr, hpl, h, hp => by
    simp only [fragC, List.all_cons, Bool.and_eq_true] at hfr hpl
    have hfr2 : fragC D ss = true := by simpa [fragC] using hfr.2
    obtain ⟨_, h2⟩ := stmtC fx reg D stmt f s st ln hfr.1 h
    have h3 := stmtC_plain fx reg D stmt f s st ln hfr.1 hpl.1 h hp
    simp only [execStmts, cStmts, runOps_append, X.bind_def]
    cases hr : execStmt f {} stmt s with
    | mk s' r =>
      rw [hr] at h2 h3
      cases r with
      | error x => intro fl hfl; cases hfl
      | ok fl0 =>
        obtain ⟨hfl0, hc⟩ := h2 fl0 rfl
        subst hfl0
        exact stmtsC_plain fx reg D ss f s' _ ln hfr2 hpl.2 hc (h3 _ rfl)

/-- the trailing calls, when they all succeed -/
theorem callsC_plain (fx : Fixes) (reg : Registry) (D : Bool) : ∀ (ss : List Stmt) (f : Nat) (s : XState) (st : AState) (ln : Nat),
    ss.all (fragCall D) = true → ss.all plainCall = true → CorrC D s st → PlainInv D reg s st →
    ∀ fl, (execStmts f {} ss s).2 = .ok fl →
      CorrC D (execStmts f {} ss s).1 (runOps reg st (cStmts fx ln ss)) ∧
      PlainInv D reg (execStmts f {} ss s).1 (runOps reg st (cStmts fx ln ss))
  | ss, 0, s, st, ln, _, _, _, _ => by rw [execStmts]; intro fl hfl; cases hfl
  | [], f + 1, s, st, ln, _, _, h, hp => by
    simp only [execStmts, cStmts, X.pure_def]; intro _ _; exact ⟨h, hp⟩
  | stmt :: ss, f + 1, s, st, ln, hfr, hpl, h, hp => by
    simp only [List.all_cons, Bool.and_eq_true] at hfr hpl
    obtain ⟨_, h2⟩ := callC fx reg D stmt f s st ln hfr.1 h
    have ha1 := anaCall fx reg D stmt ln st hfr.1 h.corr.inFunc
    simp only [execStmts, cStmts, runOps_append, X.bind_def]
    cases hr : execStmt f {} stmt s with
    | mk s' r =>
      rw [hr] at h2
      cases r with
      | error x => intro fl hfl; cases hfl
      | ok fl0 =>
        obtain ⟨hfl0, hc, hfn, hm⟩ := h2 fl0 rfl
        subst hfl0
        have hp' : PlainInv D reg s' (runOps reg st (cStmt fx ln stmt)) :=
          hp.step (hm hpl.1 hp.rd) ha1.deferred ha1.step hfn (hp.rd.congr ha1.heap ha1.stack)
        exact callsC_plain fx reg D ss f s' _ ln hfr.2 hpl.2 hc hp'

/-- what `_finish_deferred_load_checks` reports was deferred and needs import on the final heap -/
theorem finish_from (reg : Registry) (st : AState) : ∀ m ∈ (finishDeferred reg st).missing,
    m ∈ st.missing ∨ ∃ e ∈ st.deferred, e.name = m.name ∧ (symbolNeedsImport reg st.heap e.ids e.name).1 = true := by
  unfold finishDeferred
  have hheap : ∀ (st0 : AState) (d : Deferred), (checkLoad reg st0 d.name d.ids d.line).heap = st0.heap := by
    intro st0 d
    unfold checkLoad
    dsimp only
    split
    · split <;> rfl
    · rfl
  have : ∀ (ds : List Deferred) (st0 : AState), st0.heap = st.heap →
      ∀ m ∈ (ds.foldl (fun st d => checkLoad reg st d.name d.ids d.line) st0).missing,
        m ∈ st0.missing ∨ ∃ e ∈ ds, e.name = m.name ∧ (symbolNeedsImport reg st.heap e.ids e.name).1 = true := by
    intro ds
    induction ds with
    | nil => intro st0 _ m hm; exact .inl hm
    | cons d r ih =>
      intro st0 hh m hm
      simp only [List.foldl_cons] at hm
      rcases ih _ ((hheap st0 d).trans hh) m hm with h1 | ⟨e, he, h2⟩
      · unfold checkLoad at h1
        dsimp only at h1
        split at h1
        · rename_i hcond
          split at h1
          · exact .inl h1
          · rcases List.mem_append.mp h1 with h1 | h1
            · exact .inl h1
            · simp only [List.mem_singleton] at h1
              subst h1
              simp only [Bool.and_eq_true] at hcond
              exact .inr ⟨d, List.mem_cons_self .., rfl, by rw [← hh]; exact hcond.1⟩
        · exact .inl h1
      · exact .inr ⟨e, List.mem_cons_of_mem _ he, h2⟩
  intro m hm
  exact this st.deferred st rfl m hm

/-- a frozen entry that needs import on the current heap has a head that is bound nowhere in the module-level stack -/
theorem frozen_unbound (reg : Registry) {st : AState} {A : List Str} {e : Deferred} (hok : StackOK st)
    (hfz : Frozen st A e) (hg : goodDotted e.name = true)
    (hrd : dotFree e.name = false → RegDisjointS reg st ∧ ∀ p, reg.get p ≠ some Val.none)
    (hs : (symbolNeedsImport reg st.heap e.ids e.name).1 = true) : unboundA st (headOf e.name) := by
  obtain ⟨a, c, h1, h2, h3, h4, h5, h6, h7⟩ := hfz
  apply Classical.byContradiction
  intro hnu
  obtain ⟨i, hi, w, hw⟩ := not_unboundA.mp hnu
  have hmem : ∀ i, i ∈ normIds e.ids ↔ (i ∈ normIds st.stack.ids ∨ i = a ∨ i = c) := by
    intro i
    rw [h1, normIds_idem]
    simp only [mem_normIds_iff, List.mem_append, List.mem_singleton]
    grind
  let st2 : AState := { st with stack := { ids := e.ids } }
  have hb2 : ¬ unboundA st2 (headOf e.name) := by
    intro hu
    have := hu i ((hmem i).mpr (.inl hi))
    change (st.heap.get i).get (headOf e.name) = none at this
    rw [hw] at this; cases this
  have hrd2 : dotFree e.name = false → RegDisjointS reg st2 := by
    intro hdf j hj k v hv p
    obtain ⟨r1, r2⟩ := hrd hdf
    rcases (hmem j).mp hj with h0 | rfl | rfl
    · exact r1 j h0 k v hv p
    · have := (h6 k v hv).2.2; rw [this]; exact r2 p
    · have := (h7 k v hv).2.2; rw [this]; exact r2 p
  have := sni_bound reg st2 hg hb2 hrd2
  change (symbolNeedsImport reg st.heap e.ids e.name).1 = false at this
  rw [this] at hs; cases hs

/-- precision on fragment C, in terms of the analysis state -/
theorem precise_fragC (fx : Fixes) (reg : Registry) (D : Bool) (prog calls : List Stmt) (fuel : Nat) (s0 : XState) (st0 : AState)
    (hfr : fragC D prog = true) (hpl : prog.all plainStmtB = true) (hcalls : calls.all (fragCall D) = true)
    (hplc : calls.all plainCall = true) (h : CorrC D s0 st0) (hp : PlainInv D reg s0 st0)
    (hok : (runProgram fuel prog calls s0).2 = .ok ()) :
    ∀ m ∈ (finishDeferred reg (runOps reg st0 (cStmts fx 0 (prog ++ calls)))).missing,
      ∃ ps body, defClosure ps body ∈ (runProgram fuel prog calls s0).1.funcs ∧ m.name ∈ bodyLoads body ∧
        unboundX (runProgram fuel prog calls s0).1 (headOf m.name) := by
  rw [cStmts_append, runOps_append]
  unfold runProgram at hok ⊢
  rw [X.bind_def] at hok ⊢
  cases hr : execStmts fuel {} prog s0 with
  | mk s1 r1 =>
    rw [hr] at hok
    cases r1 with
    | error x => cases hok
    | ok fl =>
      have hc1 := (stmtsC fx reg D prog fuel s0 st0 0 hfr h).2 fl (by rw [hr])
      have hp1 := stmtsC_plain fx reg D prog fuel s0 st0 0 hfr hpl h hp fl (by rw [hr])
      rw [hr] at hc1 hp1
      simp only [X.bind_def, X.modify] at hok ⊢
      have hc1' : CorrC D { s1 with atEnd := true } (runOps reg st0 (cStmts fx 0 prog)) :=
        hc1.callAna (CallAna.refl _) ⟨rfl, rfl, rfl, rfl⟩ rfl
      have hp1' : PlainInv D reg { s1 with atEnd := true } (runOps reg st0 (cStmts fx 0 prog)) :=
        hp1.step rfl rfl (ModStep.refl _) rfl hp1.rd
      cases hr2 : execStmts fuel {} calls { s1 with atEnd := true } with
      | mk s2 r2 =>
        rw [hr2] at hok
        cases r2 with
        | error x => cases hok
        | ok fl2 =>
          obtain ⟨hc2, hp2⟩ := callsC_plain fx reg D calls fuel _ _ 0 hcalls hplc hc1' hp1' fl2 (by rw [hr2])
          rw [hr2] at hc2 hp2
          simp only [X.pure_def]
          intro m hm
          rcases finish_from reg _ m hm with hm0 | ⟨e, he, hen, hsni⟩
          · rw [hp2.missing] at hm0; cases hm0
          · obtain ⟨ps, body, fname, g1, g2, g3, g4⟩ := hp2.entries e he
            obtain ⟨q1, q2⟩ := bodyLoads_good D body g2 e.name g3
            have hua := frozen_unbound reg hc2.ok.inv.ok g4 q1 (fun hdf => by
              apply hp2.rd
              cases D with
              | true => rfl
              | false => rw [q2 rfl] at hdf; cases hdf) hsni
            refine ⟨ps, body, g1, by rw [← hen]; exact g3, ?_⟩
            rw [← hen]
            exact (hc2.corr.names _ (headOf_good q1)).mpr hua

theorem plainInv_init (D : Bool) (reg : Registry) (builtins : Scope) (ns : List Scope) (s0 : XState)
    (hnc : ∀ sc ∈ ns, sc.isClass = false) (hrd : D = true → regDisjoint reg builtins ns = true) :
    PlainInv D reg s0 (initState builtins ns) :=
  ⟨rfl, (fun e he => by simp [initState] at he), fun hD => RD_init reg builtins ns hnc (hrd hD)⟩

end Pfb.C05
