/-
  Pfb.C05.Unused — the C02 clause "no import whose binding is read is ever reported unused", proved on fragment B.

  `Pfb.PyCore.Unused.findUnused` models pyflyby's unused-import list (tied to `scan_for_import_issues` by the C05
  correspondence check, op `unused`).  The reference semantics records, for every successful read of a global, the
  import statement (line, alias index) whose execution created the binding that the read resolved to
  (`XState.usedImps`).  `C02_read_import_not_unused`: those imports are not in `findUnused`.
-/
import Pfb.C05.LemmasB
import Pfb.PyCore.Unused
namespace Pfb.C05
open Pfb Pfb.PyCore

/-! ### the fragment of the theorem -/

def isImportStmt : Stmt → Bool
  | .import_ _ => true
  | .importFrom _ _ => true
  | _ => false

/-- imports that store exactly one key, the bound name: `import m` (dot-free), `import a.b as n`, `from m import x [as y]`
    (not `from __future__`, which creates no `_UseChecker`) -/
def simpleImportStmt : Stmt → Bool
  | .import_ names => names.all (fun a => dotFree a.name || a.asname.isSome)
  | .importFrom m _ => m != "__future__".toList
  | .located _ s => simpleImportStmt s
  | _ => true

/-- every module-level statement is `located l s` with `s` not itself located, and import statements sit on pairwise
    distinct lines (so that (line, alias index) identifies an import) -/
def linesOK : List Nat → List Stmt → Bool
  | _, [] => true
  | seen, .located l s :: r =>
    (match s with | .located _ _ => false | _ => true) &&
      (if isImportStmt s then !seen.contains l && linesOK (l :: seen) r else linesOK seen r)
  | _, _ :: _ => false

/-- the scope values of the builtins namespace are not `_UseChecker`s -/
def builtinsPlain (builtins : Scope) : Bool := builtins.items.all (fun kv => kv.2 == Val.none)

/-! ### `symbol_needs_import` in unused-import mode -/

theorem findInScope_some {sc : Scope} {ps : List (List Str)} {v : Val} (h : findInScope sc ps = some v) :
    ∃ p ∈ ps, sc.get (joinDots p) = some v := by
  induction ps with
  | nil => simp [findInScope] at h
  | cons p r ih =>
    simp only [findInScope] at h
    cases hg : sc.get (joinDots p) with
    | some w => rw [hg] at h; simp only [Option.some.injEq] at h; subst h; exact ⟨p, List.mem_cons_self .., hg⟩
    | none => rw [hg] at h; obtain ⟨q, hq, hv⟩ := ih h; exact ⟨q, List.mem_cons_of_mem _ hq, hv⟩

theorem findBinding_some {heap : Heap} {parts : List Str} {l : List Nat} {v : Val} (h : findBinding heap parts l = some v) :
    ∃ i ∈ l, ∃ key, (heap.get i).get key = some v := by
  induction l with
  | nil => simp [findBinding] at h
  | cons i r ih =>
    simp only [findBinding] at h
    cases hg : findInScope (heap.get i) (prefixesRev parts) with
    | some w =>
      rw [hg] at h; simp only [Option.some.injEq] at h; subst h
      obtain ⟨p, _, hp⟩ := findInScope_some hg
      exact ⟨i, List.mem_cons_self .., _, hp⟩
    | none => rw [hg] at h; obtain ⟨j, hj, k, hk⟩ := ih h; exact ⟨j, List.mem_cons_of_mem _ hj, k, hk⟩

/-- a lookup changes nothing but (possibly) the `used` flag of one checker that is bound somewhere in the stack -/
theorem sniU_weak (u : UState) (ids : List Nat) (d : Str) :
    (sniU u ids d).2 = u ∨
    ∃ i key k, (u.heap.get i).get key = some (.obj k) ∧ (sniU u ids d).2 = { u with checkers := markUsed u.checkers k } := by
  unfold sniU
  cases hf : findBinding u.heap (splitDots d) (normIds ids).reverse with
  | none => exact .inl rfl
  | some v =>
    cases v with
    | none => exact .inl rfl
    | obj k =>
      obtain ⟨i, _, key, hk⟩ := findBinding_some hf
      exact .inr ⟨i, key, k, hk, rfl⟩

theorem findInScope_append (sc : Scope) (A B : List (List Str)) (hA : ∀ p ∈ A, sc.get (joinDots p) = none) :
    findInScope sc (A ++ B) = findInScope sc B := by
  induction A with
  | nil => rfl
  | cons p r ih =>
    simp only [List.cons_append, findInScope]
    rw [hA p (List.mem_cons_self ..)]
    exact ih (fun q hq => hA q (List.mem_cons_of_mem _ hq))

theorem joinDots_not_simple {x y : Str} {r : List Str} : simpleName (joinDots (x :: y :: r)) = false := by
  have : (joinDots (x :: y :: r)).contains '.' = true := by
    simp only [joinDots]
    rw [List.contains_iff_mem]
    exact List.mem_append_right _ (List.mem_cons_self ..)
  simp only [simpleName, this, Bool.not_true, Bool.false_and]

/-- in a scope whose keys are all identifiers, the first bound prefix of `h.r1.r2…` is `h` -/
theorem findInScope_simpleKeys (sc : Scope) (hk : ∀ key v, sc.get key = some v → simpleName key = true)
    (h : Str) (rest : List Str) : findInScope sc (prefixesRev (h :: rest)) = sc.get h := by
  unfold prefixesRev
  simp only [prefixes, List.reverse_cons]
  rw [findInScope_append]
  · simp [findInScope, joinDots]
    cases sc.get h <;> rfl
  · intro p hp
    simp only [List.mem_reverse, List.mem_map] at hp
    obtain ⟨q, hq, rfl⟩ := hp
    cases hg : sc.get (joinDots (h :: q)) with
    | none => rfl
    | some v =>
      exfalso
      have := hk _ v hg
      obtain ⟨y, _, r', _, hq'⟩ := prefixes_head hq
      rw [hq', joinDots_not_simple] at this; cases this

/-! ### invariants of the unused-import analysis at module level -/

/-- the private top scope of the module-level stack `[builtins, _builtins2, {}, private]` -/
def topScope (u : UState) : Scope := u.heap.get 4

structure UInv (u : UState) (seen : List Nat) : Prop where
  stack : u.stack.ids = [0, 1, 3, 4]
  len : 5 ≤ u.heap.length
  inFunc : u.inFunc = false
  simpleKeys : ∀ key v, (topScope u).get key = some v → simpleName key = true
  /-- reported checkers are imports (not anonymous carriers) and no scope holds them any more -/
  unusedOK : ∀ k ∈ u.unused, (∃ c : Checker, u.checkers[k]? = some c ∧ c.anon = false) ∧
    ∀ i key, (u.heap.get i).get key ≠ some (.obj k)
  /-- shadowed checkers are imports and no scope holds them -/
  shOK : ∀ (k : Nat) (c : Checker), u.checkers[k]? = some c → ∀ j ∈ c.shadowed,
    (∃ d : Checker, u.checkers[j]? = some d ∧ d.anon = false) ∧ ∀ i key, (u.heap.get i).get key ≠ some (.obj j)
  uniq : ∀ (k k' : Nat) (c c' : Checker), u.checkers[k]? = some c → u.checkers[k']? = some c' → c.anon = false → c'.anon = false →
    (c.line, c.idx) = (c'.line, c'.idx) → k = k'
  seenLines : ∀ (k : Nat) (c : Checker), u.checkers[k]? = some c → c.anon = false → c.line ∈ seen
  valid : ∀ i key k, (u.heap.get i).get key = some (.obj k) → i = 4 ∧ k < u.checkers.length
  bindKey : ∀ (key : Str) (k : Nat) (c : Checker), (topScope u).get key = some (.obj k) → u.checkers[k]? = some c →
    c.anon = true ∨ c.bind = key

def KeysNodup {β} (l : List (Str × β)) : Prop := (l.map (·.1)).Nodup

/-- every recorded use has a used import checker that has not been reported -/
def UsedLink (s : XState) (u : UState) : Prop :=
  ∀ o ∈ s.usedImps, ∃ (k : Nat) (c : Checker), u.checkers[k]? = some c ∧ (c.line, c.idx) = o ∧ c.used = true ∧ c.anon = false ∧
    k ∉ u.unused

structure CorrU (s : XState) (u : UState) : Prop where
  okeys : KeysNodup s.origins
  origin : ∀ n o, assocGet n s.origins = some o →
    ∃ (k : Nat) (c : Checker), (topScope u).get n = some (.obj k) ∧ u.checkers[k]? = some c ∧ (c.line, c.idx) = o ∧ c.anon = false
  line : u.line = s.line
  used : UsedLink s u

/-- `u'` = `u` with the `used` flag of some checkers set (lookups only mark) -/
structure Marks (u u' : UState) : Prop where
  heap : u'.heap = u.heap
  stackEq : u'.stack = u.stack
  unusedEq : u'.unused = u.unused
  lineEq : u'.line = u.line
  inFuncEq : u'.inFunc = u.inFunc
  len : u'.checkers.length = u.checkers.length
  each : ∀ (k : Nat) (c : Checker), u.checkers[k]? = some c →
    u'.checkers[k]? = some c ∨ u'.checkers[k]? = some { c with used := true }

theorem Marks.refl (u : UState) : Marks u u := ⟨rfl, rfl, rfl, rfl, rfl, rfl, fun _ _ h => .inl h⟩

theorem Marks.get {u u' : UState} (h : Marks u u') {k : Nat} {c' : Checker} (hc : u'.checkers[k]? = Option.some c') :
    ∃ c, u.checkers[k]? = Option.some c ∧ c.bind = c'.bind ∧ c.line = c'.line ∧ c.idx = c'.idx ∧ (c.used = true → c'.used = true) ∧
      c.anon = c'.anon ∧ c.shadowed = c'.shadowed := by
  have hk : k < u.checkers.length := by
    rw [← h.len]; exact (List.getElem?_eq_some_iff.mp hc).1
  have hcu : u.checkers[k]? = Option.some u.checkers[k] := List.getElem?_eq_getElem hk
  rcases h.each k _ hcu with h1 | h1
  · have := Option.some.inj (h1.symm.trans hc)
    rw [← this]; exact ⟨_, hcu, rfl, rfl, rfl, fun x => x, rfl, rfl⟩
  · have := Option.some.inj (h1.symm.trans hc)
    rw [← this]; exact ⟨_, hcu, rfl, rfl, rfl, fun _ => rfl, rfl, rfl⟩

theorem Marks.trans {a b c : UState} (h1 : Marks a b) (h2 : Marks b c) : Marks a c := by
  refine ⟨h2.heap.trans h1.heap, h2.stackEq.trans h1.stackEq, h2.unusedEq.trans h1.unusedEq, h2.lineEq.trans h1.lineEq,
    h2.inFuncEq.trans h1.inFuncEq, h2.len.trans h1.len, fun k x hx => ?_⟩
  rcases h1.each k x hx with hb | hb
  · exact h2.each k x hb
  · rcases h2.each k _ hb with hc | hc
    · exact .inr hc
    · exact .inr hc

theorem UInv.marks {u u' : UState} {seen : List Nat} (h : UInv u seen) (m : Marks u u') : UInv u' seen := by
  have hts : topScope u' = topScope u := by unfold topScope; rw [m.heap]
  have hex : ∀ (j : Nat) (d : Checker), u.checkers[j]? = some d → ∃ d', u'.checkers[j]? = some d' ∧ d'.anon = d.anon := by
    intro j d hd
    rcases m.each j d hd with h1 | h1
    · exact ⟨d, h1, rfl⟩
    · exact ⟨_, h1, rfl⟩
  refine ⟨by rw [m.stackEq]; exact h.stack, by rw [m.heap]; exact h.len, by rw [m.inFuncEq]; exact h.inFunc,
    by rw [hts]; exact h.simpleKeys, ?_, ?_, ?_, ?_, ?_, ?_⟩
  · intro k hk
    rw [m.unusedEq] at hk
    obtain ⟨⟨c, hc, hca⟩, hr⟩ := h.unusedOK k hk
    obtain ⟨c', hc', ha'⟩ := hex k c hc
    exact ⟨⟨c', hc', by rw [ha']; exact hca⟩, by rw [m.heap]; exact hr⟩
  · intro k c hc j hj
    obtain ⟨d, hd, _, _, _, _, _, hsh⟩ := m.get hc
    rw [← hsh] at hj
    obtain ⟨⟨e, he, hea⟩, hr⟩ := h.shOK k d hd j hj
    obtain ⟨e', he', ha'⟩ := hex j e he
    exact ⟨⟨e', he', by rw [ha']; exact hea⟩, by rw [m.heap]; exact hr⟩
  · intro k k' c c' hc hc' ha ha' hid
    obtain ⟨d, hd, _, hl, hi, _, hda, _⟩ := m.get hc
    obtain ⟨d', hd', _, hl', hi', _, hda', _⟩ := m.get hc'
    exact h.uniq k k' d d' hd hd' (by rw [hda]; exact ha) (by rw [hda']; exact ha') (by rw [hl, hi, hl', hi']; exact hid)
  · intro k c hc ha
    obtain ⟨d, hd, _, hl, _, _, hda, _⟩ := m.get hc
    rw [← hl]; exact h.seenLines k d hd (by rw [hda]; exact ha)
  · intro i key k hk
    rw [m.heap] at hk
    rw [m.len]; exact h.valid i key k hk
  · intro key k c hk hc
    rw [hts] at hk
    obtain ⟨d, hd, hb, _, _, _, hda, _⟩ := m.get hc
    rw [← hb, ← hda]; exact h.bindKey key k d hk hd

/-- once used, always used (the identity of a checker never changes), and whatever is reported was unused when it was
    reported -/
structure UsedPersist (u u' : UState) : Prop where
  used : ∀ (k : Nat) (c : Checker), u.checkers[k]? = some c → c.used = true →
    ∃ c', u'.checkers[k]? = some c' ∧ c'.used = true ∧ c'.line = c.line ∧ c'.idx = c.idx ∧ c'.anon = c.anon
  rep : ∀ k ∈ u'.unused, k ∈ u.unused ∨ ∀ c, u.checkers[k]? = some c → c.used = false

theorem UsedPersist.refl (u : UState) : UsedPersist u u :=
  ⟨fun _ c hc hu => ⟨c, hc, hu, rfl, rfl, rfl⟩, fun _ hk => .inl hk⟩

theorem UsedPersist.trans {a b c : UState} (h1 : UsedPersist a b) (h2 : UsedPersist b c) : UsedPersist a c := by
  refine ⟨fun k x hx hu => ?_, fun k hk => ?_⟩
  · obtain ⟨y, hy, hyu, hl, hi, ha⟩ := h1.used k x hx hu
    obtain ⟨z, hz, hzu, hl2, hi2, ha2⟩ := h2.used k y hy hyu
    exact ⟨z, hz, hzu, hl2.trans hl, hi2.trans hi, ha2.trans ha⟩
  · rcases h2.rep k hk with hb | hb
    · exact h1.rep k hb
    · right
      intro x hx
      cases hxu : x.used with
      | false => rfl
      | true =>
        obtain ⟨y, hy, hyu, _⟩ := h1.used k x hx hxu
        rw [hb y hy] at hyu; cases hyu

theorem Marks.usedStays {u u' : UState} (m : Marks u u') {k : Nat} {c : Checker} (hc : u.checkers[k]? = some c)
    (hu : c.used = true) : ∃ c', u'.checkers[k]? = some c' ∧ c'.used = true ∧ c'.line = c.line ∧ c'.idx = c.idx ∧ c'.anon = c.anon := by
  rcases m.each k c hc with h | h
  · exact ⟨c, h, hu, rfl, rfl, rfl⟩
  · exact ⟨_, h, rfl, rfl, rfl, rfl⟩

theorem Marks.persist {u u' : UState} (m : Marks u u') : UsedPersist u u' :=
  ⟨fun _ _ hc hu => m.usedStays hc hu, fun k hk => .inl (by rw [← m.unusedEq]; exact hk)⟩

theorem UsedPersist.ofEq {u u' : UState} (h : u'.checkers = u.checkers) (hu : u'.unused = u.unused) : UsedPersist u u' :=
  ⟨fun _ c hc hu => ⟨c, by rw [h]; exact hc, hu, rfl, rfl, rfl⟩, fun k hk => .inl (by rw [← hu]; exact hk)⟩

theorem UsedLink.persist {s : XState} {u u' : UState} (h : UsedLink s u) (p : UsedPersist u u') : UsedLink s u' := by
  intro o ho
  obtain ⟨k, c, hc, hid, hu, ha, hnu⟩ := h o ho
  obtain ⟨c', hc', hu', hl, hi, ha'⟩ := p.used k c hc hu
  refine ⟨k, c', hc', by rw [hl, hi]; exact hid, hu', by rw [ha']; exact ha, fun hk => ?_⟩
  rcases p.rep k hk with h1 | h1
  · exact hnu h1
  · rw [h1 c hc] at hu; cases hu

theorem CorrU.marks {s : XState} {u u' : UState} (h : CorrU s u) (m : Marks u u') : CorrU s u' := by
  have hts : topScope u' = topScope u := by unfold topScope; rw [m.heap]
  refine ⟨h.okeys, ?_, by rw [m.lineEq]; exact h.line, h.used.persist m.persist⟩
  intro n o ho
  obtain ⟨k, c, hk, hc, hid, ha⟩ := h.origin n o ho
  rcases m.each k c hc with h1 | h1
  · exact ⟨k, c, by rw [hts]; exact hk, h1, hid, ha⟩
  · exact ⟨k, _, by rw [hts]; exact hk, h1, hid, ha⟩

/-! ### marking through the `used` setter -/

/-- `cs'` = `cs` with the `used` flag of some checkers set -/
def MarkRel (cs cs' : List Checker) : Prop :=
  cs'.length = cs.length ∧ ∀ (j : Nat) (c : Checker), cs[j]? = some c → cs'[j]? = some c ∨ cs'[j]? = some { c with used := true }

theorem MarkRel.refl (cs : List Checker) : MarkRel cs cs := ⟨rfl, fun _ _ h => .inl h⟩

theorem MarkRel.trans {a b c : List Checker} (h1 : MarkRel a b) (h2 : MarkRel b c) : MarkRel a c := by
  refine ⟨h2.1.trans h1.1, fun j x hx => ?_⟩
  rcases h1.2 j x hx with hb | hb
  · exact h2.2 j x hb
  · rcases h2.2 j _ hb with hc | hc
    · exact .inr hc
    · exact .inr hc

theorem MarkRel.get {cs cs' : List Checker} (h : MarkRel cs cs') {k : Nat} {c' : Checker} (hc : cs'[k]? = Option.some c') :
    ∃ c, cs[k]? = Option.some c ∧ c.bind = c'.bind ∧ c.line = c'.line ∧ c.idx = c'.idx ∧ (c.used = true → c'.used = true) ∧
      c.anon = c'.anon ∧ c.shadowed = c'.shadowed := by
  have hk : k < cs.length := by
    rw [← h.1]; exact (List.getElem?_eq_some_iff.mp hc).1
  have hcu : cs[k]? = Option.some cs[k] := List.getElem?_eq_getElem hk
  rcases h.2 k _ hcu with h1 | h1
  · have := Option.some.inj (h1.symm.trans hc)
    rw [← this]; exact ⟨_, hcu, rfl, rfl, rfl, fun x => x, rfl, rfl⟩
  · have := Option.some.inj (h1.symm.trans hc)
    rw [← this]; exact ⟨_, hcu, rfl, rfl, rfl, fun _ => rfl, rfl, rfl⟩

theorem markRel_modify (cs : List Checker) (k : Nat) : MarkRel cs (cs.modify k (fun c => { c with used := true })) := by
  refine ⟨by simp, fun j c hc => ?_⟩
  rw [List.getElem?_modify]
  by_cases hkj : k = j
  · subst hkj; right; simp [hc]
  · left; simp [hkj, hc]

theorem markRel_foldl (f : List Checker → Nat → List Checker) (hf : ∀ cs j, MarkRel cs (f cs j)) :
    ∀ (l : List Nat) (cs : List Checker), MarkRel cs (l.foldl f cs)
  | [], cs => MarkRel.refl cs
  | j :: r, cs => (hf cs j).trans (markRel_foldl f hf r _)

theorem markRec_rel : ∀ (f : Nat) (cs : List Checker) (k : Nat), MarkRel cs (markRec f cs k)
  | 0, cs, _ => MarkRel.refl cs
  | f + 1, cs, k => by
    unfold markRec
    cases hk : cs[k]? with
    | none => exact MarkRel.refl cs
    | some c =>
      simp only
      exact (markRel_modify cs k).trans (markRel_foldl _ (fun cs j => markRec_rel f cs j) c.shadowed _)

theorem markUsed_rel (cs : List Checker) (k : Nat) : MarkRel cs (markUsed cs k) := markRec_rel _ cs k

/-- the checker itself is marked -/
theorem markUsed_self (cs : List Checker) (k : Nat) (c : Checker) (hc : cs[k]? = some c) :
    (markUsed cs k)[k]? = some { c with used := true } := by
  unfold markUsed markRec
  rw [hc]
  simp only
  have h0 : (cs.modify k (fun c => { c with used := true }))[k]? = some { c with used := true } := by
    rw [List.getElem?_modify]; simp [hc]
  have hr := markRel_foldl (fun cs' j => markRec cs.length cs' j) (fun cs' j => markRec_rel _ cs' j) c.shadowed
    (cs.modify k (fun c => { c with used := true }))
  rcases hr.2 k _ h0 with h1 | h1
  · exact h1
  · exact h1

/-- a lookup only marks -/
theorem sniU_marks (u : UState) (ids : List Nat) (d : Str) : Marks u (sniU u ids d).2 := by
  rcases sniU_weak u ids d with h | ⟨i, key, k, hk, h⟩
  · rw [h]; exact Marks.refl u
  · rw [h]
    have hr := markUsed_rel u.checkers k
    exact ⟨rfl, rfl, rfl, rfl, rfl, hr.1, hr.2⟩

/-- at module level a lookup of `d` marks the checker that the head of `d` is bound to in the top scope -/
theorem sniU_head {u : UState} {seen : List Nat} (h : UInv u seen) {d : Str} (hd : goodDotted d = true) {k : Nat} {c : Checker}
    (hk : (topScope u).get (headOf d) = some (.obj k)) (hc : u.checkers[k]? = some c) :
    (sniU u u.stack.ids d).2.checkers[k]? = some { c with used := true } := by
  obtain ⟨x, rest, hps⟩ : ∃ x rest, splitDots d = x :: rest := by
    cases hh : splitDots d with
    | nil => exact absurd hh (splitDots_ne_nil d)
    | cons x r => exact ⟨x, r, rfl⟩
  have hhead : headOf d = x := by unfold headOf; rw [hps]; rfl
  have hfind : findBinding u.heap (splitDots d) (normIds u.stack.ids).reverse = some (.obj k) := by
    rw [h.stack]
    have : (normIds [0, 1, 3, 4]).reverse = [4, 3, 1, 0] := by decide
    rw [this, hps]
    simp only [findBinding]
    have := findInScope_simpleKeys (u.heap.get 4) h.simpleKeys x rest
    rw [this, ← hhead]
    unfold topScope at hk
    rw [hk]
  unfold sniU
  rw [hfind]
  show (markUsed u.checkers k)[k]? = _
  exact markUsed_self u.checkers k c hc

/-! ### module-level visitor actions in unused-import mode -/

theorem runOpsU_append (u : UState) (a b : List Op) : runOpsU u (a ++ b) = runOpsU (runOpsU u a) b := by
  simp [runOpsU, List.foldl_append]

/-- the loads of an expression, at module level: only marks, and every head bound to a checker gets that checker marked -/
theorem loadsU {seen : List Nat} : ∀ (L : List Str) (u : UState), UInv u seen →
    Marks u (runOpsU u (L.map Op.load)) ∧
    ∀ d ∈ L, goodDotted d = true → ∀ (k : Nat) (c : Checker), (topScope u).get (headOf d) = some (.obj k) →
      u.checkers[k]? = some c → ∃ c', (runOpsU u (L.map Op.load)).checkers[k]? = some c' ∧ c'.used = true
  | [], u, _ => ⟨Marks.refl u, fun d hd => by simp at hd⟩
  | d0 :: L, u, h => by
    have hstep : runOpsU u ((d0 :: L).map Op.load) = runOpsU (sniU u u.stack.ids d0).2 (L.map Op.load) := by
      simp [runOpsU, stepU, h.inFunc]
    rw [hstep]
    have m1 := sniU_marks u u.stack.ids d0
    have h1 := h.marks m1
    obtain ⟨m2, f2⟩ := loadsU L _ h1
    refine ⟨m1.trans m2, fun d hd hg k c hk hc => ?_⟩
    rcases List.mem_cons.mp hd with rfl | hd
    · have := sniU_head h hg hk hc
      obtain ⟨c', hc', hu', _, _⟩ := m2.usedStays this rfl
      exact ⟨c', hc', hu'⟩
    · have hts : topScope (sniU u u.stack.ids d0).2 = topScope u := by unfold topScope; rw [m1.heap]
      rcases m1.each k c hc with hc1 | hc1
      · exact f2 d hd hg k c (by rw [hts]; exact hk) hc1
      · exact f2 d hd hg k _ (by rw [hts]; exact hk) hc1

theorem prefixes_simple {x : Str} (hx : simpleName x = true) : (prefixes (splitDots x)).dropLast = [] := by
  rw [simpleName_split hx]; rfl

theorem getElem?_append_new {α} (l : List α) (x : α) : (l ++ [x])[l.length]? = some x := by simp

/-- the anonymous carrier that stands for the unused imports `P` -/
def carrierOf (line : Nat) (P : List Nat) : Checker := { bind := [], line := line, idx := 0, anon := true, shadowed := P }

/-- the ways a store can go (`P` = the pending list, `v'` = the value that ends up in the scope) -/
inductive StoreCase (u u' : UState) (x : Str) (v : Val) (P : List Nat) : Val → Prop
  /-- unconditional: the pending checkers are reported -/
  | report : shadowing u x = false → u'.checkers = u.checkers → u'.unused = u.unused ++ P → StoreCase u u' x v P v
  /-- conditional, nothing pending -/
  | plain : shadowing u x = true → P = [] → u'.checkers = u.checkers → u'.unused = u.unused → StoreCase u u' x v P v
  /-- conditional, the new import checker shadows the pending ones -/
  | attach (kv : Nat) : shadowing u x = true → P ≠ [] → v = .obj kv →
      u'.checkers = u.checkers.modify kv (fun c => { c with shadowed := P ++ c.shadowed }) → u'.unused = u.unused →
      StoreCase u u' x v P v
  /-- conditional, a non-import value: an anonymous carrier is stored instead -/
  | carrier : shadowing u x = true → P ≠ [] → v = .none → u'.checkers = u.checkers ++ [carrierOf u.line P] →
      u'.unused = u.unused → StoreCase u u' x v P (.obj u.checkers.length)

theorem writeTop_fields (u : UState) (key : Str) (v : Val) :
    (writeTop u key v).stack = u.stack ∧ (writeTop u key v).heap.length = u.heap.length ∧ (writeTop u key v).inFunc = u.inFunc ∧
    (writeTop u key v).line = u.line ∧ (writeTop u key v).deferred = u.deferred ∧ (writeTop u key v).useMarks = u.useMarks ∧
    (writeTop u key v).inClass = u.inClass ∧ (writeTop u key v).checkers = u.checkers ∧ (writeTop u key v).unused = u.unused := by
  refine ⟨rfl, by simp [writeTop, Heap.length_update], rfl, rfl, rfl, rfl, rfl, rfl, rfl⟩

theorem writeTop_get (u : UState) (htop : u.stack.top = 4) (h5 : 5 ≤ u.heap.length) (x : Str) (v : Val) (i : Nat) (key : Str) :
    ((writeTop u x v).heap.get i).get key = if i = 4 ∧ key = x then some v else (u.heap.get i).get key := by
  show ((u.heap.update u.stack.top (·.set x v)).get i).get key = _
  rw [htop, Heap.get_update]
  by_cases hi : i = 4
  · subst hi
    have : 4 < u.heap.length := by omega
    simp only [this, and_self, ↓reduceIte, true_and]
    by_cases hkx : key = x
    · subst hkx; simp [scope_get_set_eq]
    · rw [scope_get_set_ne _ hkx]; simp [hkx]
  · simp [hi]

/-- `_visit_Store(x, value)` of a simple key at module level -/
theorem storeU_simple {seen : List Nat} {u : UState} (h : UInv u seen) {x : Str} (hx : simpleName x = true) (v : Val) :
    (storeU u x v).stack = u.stack ∧ (storeU u x v).heap.length = u.heap.length ∧ (storeU u x v).inFunc = u.inFunc ∧
    (storeU u x v).line = u.line ∧ (storeU u x v).deferred = u.deferred ∧ (storeU u x v).useMarks = u.useMarks ∧
    (storeU u x v).inClass = u.inClass ∧
    ∃ v', StoreCase u (storeU u x v) x v (pendingOf u.checkers x ((topScope u).get x)) v' ∧
      ∀ i key, ((storeU u x v).heap.get i).get key = if i = 4 ∧ key = x then some v' else (u.heap.get i).get key := by
  have htop : u.stack.top = 4 := by unfold StackRef.top; rw [h.stack]; rfl
  have hla : lookupAncestors u x = u := by unfold lookupAncestors; rw [prefixes_simple hx]; rfl
  have hP : pendingOf u.checkers x ((u.heap.get u.stack.top).get x) = pendingOf u.checkers x ((topScope u).get x) := by
    unfold topScope; rw [htop]
  unfold storeU
  simp only [hla, hP]
  cases hsh : shadowing u x with
  | false =>
    simp only [Bool.false_eq_true, ↓reduceIte]
    obtain ⟨w1, w2, w3, w4, w5, w6, w7, w8, w9⟩ := writeTop_fields { u with unused := u.unused ++ pendingOf u.checkers x ((topScope u).get x) } x v
    exact ⟨w1, w2, w3, w4, w5, w6, w7, v, .report hsh w8 w9, fun i key => writeTop_get _ htop h.len x v i key⟩
  | true =>
    simp only [↓reduceIte]
    cases hpe : (pendingOf u.checkers x ((topScope u).get x)).isEmpty with
    | true =>
      simp only [↓reduceIte]
      obtain ⟨w1, w2, w3, w4, w5, w6, w7, w8, w9⟩ := writeTop_fields u x v
      exact ⟨w1, w2, w3, w4, w5, w6, w7, v, .plain hsh (List.isEmpty_iff.mp hpe) w8 w9, fun i key => writeTop_get _ htop h.len x v i key⟩
    | false =>
      simp only [Bool.false_eq_true, ↓reduceIte]
      have hne : pendingOf u.checkers x ((topScope u).get x) ≠ [] := by
        intro hc; rw [hc] at hpe; simp at hpe
      cases v with
      | obj kv =>
        simp only
        obtain ⟨w1, w2, w3, w4, w5, w6, w7, w8, w9⟩ := writeTop_fields
          { u with checkers := u.checkers.modify kv (fun c => { c with shadowed := pendingOf u.checkers x ((topScope u).get x) ++ c.shadowed }) } x (.obj kv)
        exact ⟨w1, w2, w3, w4, w5, w6, w7, .obj kv, .attach kv hsh hne rfl w8 w9,
          fun i key => writeTop_get _ htop h.len x (.obj kv) i key⟩
      | none =>
        simp only
        obtain ⟨w1, w2, w3, w4, w5, w6, w7, w8, w9⟩ := writeTop_fields
          { u with checkers := u.checkers ++ [{ bind := [], line := u.line, idx := 0, anon := true,
                                                 shadowed := pendingOf u.checkers x ((topScope u).get x) }] } x (.obj u.checkers.length)
        exact ⟨w1, w2, w3, w4, w5, w6, w7, .obj u.checkers.length, .carrier hsh hne rfl w8 w9,
          fun i key => writeTop_get _ htop h.len x (.obj u.checkers.length) i key⟩

/-- pending checkers are unused imports: the value being overwritten (stored under its own name), or shadowed by it -/
theorem pendingOf_facts {seen : List Nat} {u : UState} (h : UInv u seen) (x : Str) :
    ∀ p ∈ pendingOf u.checkers x ((topScope u).get x),
      (∃ d : Checker, u.checkers[p]? = some d ∧ d.used = false ∧ d.anon = false) ∧
      (((topScope u).get x = some (.obj p) ∧ ∃ d : Checker, u.checkers[p]? = some d ∧ d.bind = x) ∨
       ((∃ (k : Nat) (c : Checker), u.checkers[k]? = some c ∧ p ∈ c.shadowed) ∧ ∀ i key, (u.heap.get i).get key ≠ some (.obj p))) := by
  intro p hp
  unfold pendingOf at hp
  cases hold : (topScope u).get x with
  | none => rw [hold] at hp; simp at hp
  | some old =>
    rw [hold] at hp
    cases old with
    | none => simp at hp
    | obj k =>
      simp only at hp
      cases hc : u.checkers[k]? with
      | none => rw [hc] at hp; simp at hp
      | some c =>
        rw [hc] at hp
        simp only [List.mem_append] at hp
        rcases hp with hp | hp
        · unfold unusedShadowed at hp
          rw [hc] at hp
          simp only [List.mem_filter] at hp
          obtain ⟨hmem, hun⟩ := hp
          obtain ⟨⟨d, hd, hda⟩, hr⟩ := h.shOK k c hc p hmem
          rw [hd] at hun
          exact ⟨⟨d, hd, by simpa using hun, hda⟩, .inr ⟨⟨k, c, hc, hmem⟩, hr⟩⟩
        · split at hp
          · rename_i hcond
            simp only [List.mem_singleton] at hp
            subst hp
            simp only [Bool.and_eq_true, Bool.not_eq_true', nameIs, decide_eq_true_eq] at hcond
            exact ⟨⟨c, hc, hcond.1, hcond.2.1⟩, .inl ⟨rfl, c, hc, hcond.2.2⟩⟩
          · simp at hp

/-! ### where the reference semantics records the origin of import bindings -/

/-- the origins map after the aliases `names` of an import statement on line `line`, starting at alias index `idx` -/
def aliasOrigins (line : Nat) : Nat → List Alias → List (Str × Nat × Nat) → List (Str × Nat × Nat)
  | _, [], o => o
  | idx, a :: r, o => aliasOrigins line (idx + 1) r (assocSet (aliasBinds a) (line, idx) o)

/-- when `m` succeeds, the origins map becomes `F line origins` and the current line is unchanged -/
def OrigOK {α} (m : X α) (F : Nat → List (Str × Nat × Nat) → List (Str × Nat × Nat)) : Prop :=
  ∀ s a, (m s).2 = .ok a → (m s).1.origins = F s.line s.origins ∧ (m s).1.line = s.line

theorem OrigOK.pure {α} (a : α) : OrigOK (Pure.pure a : X α) (fun _ o => o) := fun _ _ _ => ⟨rfl, rfl⟩

theorem OrigOK.bind {α β} {m : X α} {f : α → X β} {F1 F2 : Nat → List (Str × Nat × Nat) → List (Str × Nat × Nat)}
    (h1 : OrigOK m F1) (h2 : ∀ a, OrigOK (f a) F2) : OrigOK (m >>= f) (fun l o => F2 l (F1 l o)) := by
  intro s b hb
  rw [X.bind_def] at hb ⊢
  cases hm : m s with
  | mk s' r =>
    rw [hm] at hb
    cases r with
    | error e => cases hb
    | ok a =>
      simp only at hb ⊢
      obtain ⟨ho, hl⟩ := h1 s a (by rw [hm])
      rw [hm] at ho hl
      obtain ⟨ho2, hl2⟩ := h2 a s' b hb
      exact ⟨by rw [ho2, ho, hl], hl2.trans hl⟩

theorem OrigOK.fail {α} {m : X α} {F : Nat → List (Str × Nat × Nat) → List (Str × Nat × Nat)}
    (h : ∀ s a, (m s).2 ≠ .ok a) : OrigOK m F := fun s a ha => absurd ha (h s a)

theorem OrigOK.congr {α} {m : X α} {F G : Nat → List (Str × Nat × Nat) → List (Str × Nat × Nat)}
    (h : OrigOK m F) (hF : ∀ l o, F l o = G l o) : OrigOK m G := by
  intro s a ha
  obtain ⟨h1, h2⟩ := h s a ha
  exact ⟨by rw [h1, hF], h2⟩

theorem OrigOK.get : OrigOK X.get (fun _ o => o) := fun _ _ _ => ⟨rfl, rfl⟩

theorem OrigOK.loadModule (d : Str) : OrigOK (Pfb.PyCore.loadModule d) (fun _ o => o) := by
  intro s a _
  unfold Pfb.PyCore.loadModule
  split
  · exact ⟨rfl, rfl⟩
  · dsimp only
    split
    · exact ⟨rfl, rfl⟩
    · split
      · exact ⟨rfl, rfl⟩
      · split <;> exact ⟨rfl, rfl⟩

theorem OrigOK.importChain : ∀ (ps : List (List Str)) (top : Option Nat), OrigOK (Pfb.PyCore.importChain ps top) (fun _ o => o)
  | [], top => by simp only [Pfb.PyCore.importChain]; exact OrigOK.pure _
  | [p], top => by
    simp only [Pfb.PyCore.importChain]
    exact OrigOK.bind (OrigOK.loadModule _) (fun _ => OrigOK.pure _)
  | p :: q :: r, top => by
    simp only [Pfb.PyCore.importChain]
    exact OrigOK.bind (OrigOK.loadModule _) (fun _ => OrigOK.importChain (q :: r) _)

theorem OrigOK.bindImport (n : Str) (v : RVal) (idx : Nat) :
    OrigOK (Pfb.PyCore.bindImport {} n v idx) (fun l o => assocSet n (l, idx) o) := fun _ _ _ => ⟨rfl, rfl⟩

theorem OrigOK.bindAlias (a : Alias) (tl : Option Nat × Option Nat) (idx : Nat) :
    OrigOK (Pfb.PyCore.bindAlias {} a tl idx) (fun l o => assocSet (aliasBinds a) (l, idx) o) := by
  unfold Pfb.PyCore.bindAlias
  split
  · rename_i n _ _ hn
    have : aliasBinds a = n := by simp [aliasBinds, hn]
    rw [this]; exact OrigOK.bindImport _ _ _
  · exact OrigOK.bindImport _ _ _
  · exact OrigOK.fail (fun s a h => by cases h)

theorem OrigOK.fromValue (s0 : XState) (m : Str) (leaf : Nat) (a : Alias) :
    OrigOK (Pfb.PyCore.fromValue s0 m leaf a) (fun _ o => o) := by
  unfold Pfb.PyCore.fromValue
  split
  · exact OrigOK.pure _
  · split
    · exact OrigOK.bind (OrigOK.loadModule _) (fun _ => OrigOK.pure _)
    · exact OrigOK.fail (fun s a h => by cases h)

theorem OrigOK.importAliases : ∀ (f idx : Nat) (names : List Alias),
    OrigOK (Pfb.PyCore.importAliases f {} idx names) (fun l o => aliasOrigins l idx names o)
  | 0, _, _ => by rw [Pfb.PyCore.importAliases]; exact OrigOK.fail (fun s a h => by cases h)
  | _ + 1, _, [] => by simp only [Pfb.PyCore.importAliases, aliasOrigins]; exact OrigOK.pure _
  | f + 1, idx, a :: r => by
    simp only [Pfb.PyCore.importAliases]
    have := OrigOK.bind (OrigOK.importChain (prefixes (splitDots a.name)) none)
      (fun tl => OrigOK.bind (OrigOK.bindAlias a tl idx) (fun _ => OrigOK.importAliases f (idx + 1) r))
    exact this.congr (fun l o => rfl)

theorem OrigOK.importFromAliases (m : Str) (leaf : Nat) : ∀ (f idx : Nat) (names : List Alias),
    OrigOK (Pfb.PyCore.importFromAliases f {} m leaf idx names) (fun l o => aliasOrigins l idx names o)
  | 0, _, _ => by rw [Pfb.PyCore.importFromAliases]; exact OrigOK.fail (fun s a h => by cases h)
  | _ + 1, _, [] => by simp only [Pfb.PyCore.importFromAliases, aliasOrigins]; exact OrigOK.pure _
  | f + 1, idx, a :: r => by
    simp only [Pfb.PyCore.importFromAliases]
    have := OrigOK.bind OrigOK.get (fun s0 => OrigOK.bind (OrigOK.fromValue s0 m leaf a)
      (fun v => OrigOK.bind (OrigOK.bindImport (aliasBinds a) v idx) (fun _ => OrigOK.importFromAliases m leaf f (idx + 1) r)))
    exact this.congr (fun l o => rfl)

/-! ### stores keep the invariants -/

def OLink (o : List (Str × Nat × Nat)) (u : UState) : Prop :=
  ∀ n x, assocGet n o = some x →
    ∃ (k : Nat) (c : Checker), (topScope u).get n = some (.obj k) ∧ u.checkers[k]? = some c ∧ (c.line, c.idx) = x ∧ c.anon = false

theorem assocGet_assocDel_ne {β} {k n : Str} (h : n ≠ k) (l : List (Str × β)) (v : β) :
    assocGet n (assocDel k l) = some v → assocGet n l = some v := by
  induction l with
  | nil => simp [assocDel, assocGet]
  | cons a r ih =>
    obtain ⟨k', v'⟩ := a
    unfold assocDel
    split
    · rename_i hk; subst hk
      intro hh; simp only [assocGet]; rw [if_neg (Ne.symm h)]; exact hh
    · simp only [assocGet]
      split
      · exact fun hh => hh
      · exact ih

theorem assocGet_none_of_not_mem {β} {k : Str} {l : List (Str × β)} (h : k ∉ l.map (·.1)) : assocGet k l = none := by
  induction l with
  | nil => rfl
  | cons a r ih =>
    obtain ⟨k', v'⟩ := a
    simp only [List.map_cons, List.mem_cons, not_or] at h
    simp only [assocGet]
    rw [if_neg (fun hh => h.1 hh.symm)]
    exact ih h.2

theorem assocDel_keys_sub {β} (k : Str) (l : List (Str × β)) : ∀ x ∈ (assocDel k l).map (·.1), x ∈ l.map (·.1) := by
  induction l with
  | nil => simp [assocDel]
  | cons a r ih =>
    obtain ⟨k', v'⟩ := a
    unfold assocDel
    split
    · intro x hx; exact List.mem_cons_of_mem _ hx
    · intro x hx
      simp only [List.map_cons, List.mem_cons] at hx ⊢
      rcases hx with hx | hx
      · exact .inl hx
      · exact .inr (ih x hx)

theorem assocGet_assocDel_self {β} (k : Str) (l : List (Str × β)) (hn : KeysNodup l) : assocGet k (assocDel k l) = none := by
  induction l with
  | nil => rfl
  | cons a r ih =>
    obtain ⟨k', v'⟩ := a
    unfold KeysNodup at hn
    simp only [List.map_cons, List.nodup_cons] at hn
    unfold assocDel
    split
    · rename_i hk; subst hk; exact assocGet_none_of_not_mem hn.1
    · rename_i hk
      simp only [assocGet, if_neg hk]
      exact ih hn.2

theorem KeysNodup.assocDel {β} (k : Str) {l : List (Str × β)} (hn : KeysNodup l) : KeysNodup (assocDel k l) := by
  induction l with
  | nil => exact hn
  | cons a r ih =>
    obtain ⟨k', v'⟩ := a
    unfold KeysNodup at hn ⊢
    simp only [List.map_cons, List.nodup_cons] at hn
    unfold Pfb.PyCore.assocDel
    split
    · exact hn.2
    · simp only [List.map_cons, List.nodup_cons]
      exact ⟨fun hm => hn.1 (assocDel_keys_sub k r _ hm), ih hn.2⟩

theorem assocSet_keys {β} (k : Str) (v : β) (l : List (Str × β)) :
    ∀ x ∈ (assocSet k v l).map (·.1), x = k ∨ x ∈ l.map (·.1) := by
  induction l with
  | nil => simp [assocSet]
  | cons a r ih =>
    obtain ⟨k', v'⟩ := a
    unfold assocSet
    split
    · rename_i hk; subst hk
      intro x hx; simp only [List.map_cons, List.mem_cons] at hx ⊢
      rcases hx with hx | hx
      · exact .inl hx
      · exact .inr (.inr hx)
    · intro x hx
      simp only [List.map_cons, List.mem_cons] at hx ⊢
      rcases hx with hx | hx
      · exact .inr (.inl hx)
      · rcases ih x hx with h | h
        · exact .inl h
        · exact .inr (.inr h)

theorem KeysNodup.assocSet {β} (k : Str) (v : β) {l : List (Str × β)} (hn : KeysNodup l) : KeysNodup (assocSet k v l) := by
  induction l with
  | nil => simp [KeysNodup, Pfb.PyCore.assocSet]
  | cons a r ih =>
    obtain ⟨k', v'⟩ := a
    unfold KeysNodup at hn ⊢
    simp only [List.map_cons, List.nodup_cons] at hn
    unfold Pfb.PyCore.assocSet
    split
    · rename_i hk; subst hk
      simp only [List.map_cons, List.nodup_cons]; exact hn
    · rename_i hk
      simp only [List.map_cons, List.nodup_cons]
      refine ⟨fun hm => ?_, ih hn.2⟩
      rcases assocSet_keys k v r _ hm with h | h
      · exact hk h
      · exact hn.1 h

/-- how the checkers of the state after a store (pending list `P`) relate to those before -/
structure StoreCk (P : List Nat) (u u' : UState) : Prop where
  /-- old checkers keep everything but (for the freshly stored import checker) their `shadowed` list -/
  fwd : ∀ (k : Nat) (c : Checker), u.checkers[k]? = some c →
    ∃ c', u'.checkers[k]? = some c' ∧ c'.bind = c.bind ∧ c'.line = c.line ∧ c'.idx = c.idx ∧ c'.used = c.used ∧ c'.anon = c.anon
  bwd : ∀ (k : Nat) (c' : Checker), u'.checkers[k]? = some c' →
    (∃ c, u.checkers[k]? = some c ∧ c'.bind = c.bind ∧ c'.line = c.line ∧ c'.idx = c.idx ∧ c'.used = c.used ∧ c'.anon = c.anon ∧
      (c'.shadowed = c.shadowed ∨ c'.shadowed = P ++ c.shadowed)) ∨
    (k = u.checkers.length ∧ c'.anon = true ∧ c'.shadowed = P)
  len : u.checkers.length ≤ u'.checkers.length

theorem getElem?_modify_eq {α} (l : List α) (k : Nat) (f : α → α) (j : Nat) :
    (l.modify k f)[j]? = if k = j then l[j]?.map f else l[j]? := by
  rw [List.getElem?_modify]
  by_cases h : k = j <;> simp [h]

theorem storeCase_ck {u u' : UState} {x : Str} {v v' : Val} {P : List Nat} (hc : StoreCase u u' x v P v') : StoreCk P u u' := by
  cases hc with
  | report _ h1 _ => exact ⟨fun k c hk => ⟨c, by rw [h1]; exact hk, rfl, rfl, rfl, rfl, rfl⟩,
      fun k c' hk => .inl ⟨c', by rw [h1] at hk; exact hk, rfl, rfl, rfl, rfl, rfl, .inl rfl⟩, by rw [h1]; exact Nat.le_refl _⟩
  | plain _ _ h1 _ => exact ⟨fun k c hk => ⟨c, by rw [h1]; exact hk, rfl, rfl, rfl, rfl, rfl⟩,
      fun k c' hk => .inl ⟨c', by rw [h1] at hk; exact hk, rfl, rfl, rfl, rfl, rfl, .inl rfl⟩, by rw [h1]; exact Nat.le_refl _⟩
  | attach kv _ _ _ h1 _ =>
    refine ⟨fun k c hk => ?_, fun k c' hk => ?_, by rw [h1]; simp⟩
    · rw [h1, getElem?_modify_eq]
      by_cases hkk : kv = k
      · simp only [hkk, ↓reduceIte, hk, Option.map_some]; exact ⟨_, rfl, rfl, rfl, rfl, rfl, rfl⟩
      · simp only [hkk, ↓reduceIte]; exact ⟨c, hk, rfl, rfl, rfl, rfl, rfl⟩
    · rw [h1, getElem?_modify_eq] at hk
      by_cases hkk : kv = k
      · simp only [hkk, ↓reduceIte] at hk
        cases hck : u.checkers[k]? with
        | none => rw [hck] at hk; simp at hk
        | some c =>
          rw [hck] at hk
          simp only [Option.map_some, Option.some.injEq] at hk
          subst hk
          exact .inl ⟨c, rfl, rfl, rfl, rfl, rfl, rfl, .inr rfl⟩
      · simp only [hkk, ↓reduceIte] at hk; exact .inl ⟨c', hk, rfl, rfl, rfl, rfl, rfl, .inl rfl⟩
  | carrier _ _ _ h1 _ =>
    refine ⟨fun k c hk => ⟨c, ?_, rfl, rfl, rfl, rfl, rfl⟩, fun k c' hk => ?_, by rw [h1]; simp⟩
    · rw [h1, List.getElem?_append_left (List.getElem?_eq_some_iff.mp hk).1]; exact hk
    · rw [h1] at hk
      by_cases hlt : k < u.checkers.length
      · rw [List.getElem?_append_left hlt] at hk; exact .inl ⟨c', hk, rfl, rfl, rfl, rfl, rfl, .inl rfl⟩
      · have hl := (List.getElem?_eq_some_iff.mp hk).1
        simp only [List.length_append, List.length_singleton] at hl
        have hke : k = u.checkers.length := by omega
        subst hke
        rw [getElem?_append_new] at hk
        exact .inr ⟨rfl, by rw [← Option.some.inj hk]; rfl, by rw [← Option.some.inj hk]; rfl⟩

/-- the value that a store puts into the scope: `None`, or a checker that no scope held, that was not reported, that no
    checker shadows, and that is anonymous or named like the key -/
def StoredOK (u u' : UState) (x : Str) (v' : Val) : Prop :=
  v' = .none ∨ ∃ k1, v' = .obj k1 ∧ k1 < u'.checkers.length ∧ k1 ∉ u.unused ∧
    (∀ i key, (u.heap.get i).get key ≠ some (.obj k1)) ∧ (∀ (k : Nat) (c : Checker), u.checkers[k]? = some c → k1 ∉ c.shadowed) ∧
    (∀ c1, u'.checkers[k1]? = some c1 → c1.anon = true ∨ c1.bind = x)

/-- the hypothesis on a stored value: `None` or a fresh import checker named like the key -/
def FreshVal (u : UState) (x : Str) (v : Val) : Prop :=
  v = .none ∨ ∃ k0 c0, v = .obj k0 ∧ u.checkers[k0]? = some c0 ∧ c0.bind = x ∧ c0.anon = false ∧ c0.shadowed = [] ∧
    k0 ∉ u.unused ∧ (∀ i key, (u.heap.get i).get key ≠ some (.obj k0)) ∧
    (∀ (k : Nat) (c : Checker), u.checkers[k]? = some c → k0 ∉ c.shadowed)

theorem storedOK_of {seen : List Nat} {u u' : UState} (h : UInv u seen) {x : Str} {v v' : Val} {P : List Nat}
    (hv : FreshVal u x v) (hcase : StoreCase u u' x v P v') : StoredOK u u' x v' := by
  have ck := storeCase_ck hcase
  have hvobj : ∀ k0, v = .obj k0 → v' = v → StoredOK u u' x v' := by
    intro k0 hk0 hvv
    rcases hv with hv | ⟨k0', c0, hv, hc0, hb0, _, _, hnu, hnr, hns⟩
    · rw [hv] at hk0; cases hk0
    · rw [hv] at hk0; cases hk0
      refine .inr ⟨k0, by rw [hvv, hv], Nat.lt_of_lt_of_le (List.getElem?_eq_some_iff.mp hc0).1 ck.len, hnu, hnr, hns, fun c1 hc1 => ?_⟩
      obtain ⟨c', hc', hb', _, _, _, _⟩ := ck.fwd k0 c0 hc0
      rw [hc1] at hc'; cases hc'
      exact .inr (hb'.trans hb0)
  cases hcase with
  | report _ _ _ => cases v with
    | none => exact .inl rfl
    | obj k0 => exact hvobj k0 rfl rfl
  | plain _ _ _ _ => cases v with
    | none => exact .inl rfl
    | obj k0 => exact hvobj k0 rfl rfl
  | attach kv _ _ hvv _ _ => exact hvobj kv hvv rfl
  | carrier _ _ _ h1 _ =>
    refine .inr ⟨_, rfl, by rw [h1]; simp, fun hm => ?_, fun i key hc => ?_, fun k c hc hm => ?_, fun c1 hc1 => ?_⟩
    · obtain ⟨⟨c, hc, _⟩, _⟩ := h.unusedOK _ hm
      have := (List.getElem?_eq_some_iff.mp hc).1; omega
    · have := (h.valid i key _ hc).2; omega
    · obtain ⟨⟨d, hd, _⟩, _⟩ := h.shOK k c hc _ hm
      have := (List.getElem?_eq_some_iff.mp hd).1; omega
    · rw [h1, getElem?_append_new] at hc1
      left; rw [← Option.some.inj hc1]; rfl

theorem uinv_store {seen : List Nat} {u : UState} (h : UInv u seen) {x : Str} (hx : simpleName x = true) (v : Val)
    (hv : FreshVal u x v) : UInv (storeU u x v) seen := by
  obtain ⟨s1, s2, s3, _, _, _, _, v', hcase, hget⟩ := storeU_simple h hx v
  have hP := pendingOf_facts h x
  have ck := storeCase_ck hcase
  have hv' := storedOK_of h hv hcase
  have hts : ∀ key, (topScope (storeU u x v)).get key = if key = x then some v' else (topScope u).get key := by
    intro key; unfold topScope; rw [hget]; simp
  -- the shadowed list of the import checker that is being stored is empty before the store
  have hsh0 : ∀ (k : Nat) (c : Checker) (c' : Checker), u.checkers[k]? = some c → (storeU u x v).checkers[k]? = some c' →
      c'.shadowed = pendingOf u.checkers x ((topScope u).get x) ++ c.shadowed → c'.shadowed ≠ c.shadowed → c.shadowed = [] := by
    intro k c c' hc hc' _ hne
    cases hcase with
    | report _ h1 _ => rw [h1, hc] at hc'; cases hc'; exact absurd rfl hne
    | plain _ _ h1 _ => rw [h1, hc] at hc'; cases hc'; exact absurd rfl hne
    | carrier _ _ _ h1 _ =>
      rw [h1, List.getElem?_append_left (List.getElem?_eq_some_iff.mp hc).1, hc] at hc'; cases hc'; exact absurd rfl hne
    | attach kv _ _ hvv h1 _ =>
      rw [h1, getElem?_modify_eq] at hc'
      by_cases hkk : kv = k
      · subst hkk
        rcases hv with hv | ⟨k0, c0, hv, hc0, _, _, hs0, _⟩
        · rw [hv] at hvv; cases hvv
        · rw [hv] at hvv; cases hvv
          rw [hc] at hc0; cases hc0; exact hs0
      · simp only [hkk, ↓reduceIte] at hc'
        rw [hc] at hc'; cases hc'; exact absurd rfl hne
  -- no pending checker is held by a scope after the store
  have hPfree : ∀ p ∈ pendingOf u.checkers x ((topScope u).get x), ∀ i key, ((storeU u x v).heap.get i).get key ≠ some (.obj p) := by
    intro p hp i key
    obtain ⟨⟨d, hd, _, hda⟩, hroot⟩ := hP p hp
    rw [hget]
    split
    · rcases hv' with hv' | ⟨k1, hv', _, _, hnr, hns, _⟩
      · rw [hv']; simp
      · rw [hv']
        intro hc
        simp only [Option.some.injEq, Val.obj.injEq] at hc
        subst hc
        rcases hroot with ⟨hr, _⟩ | ⟨⟨k, c, hkc, hm⟩, _⟩
        · exact hnr 4 x (by unfold topScope at hr; exact hr)
        · exact hns k c hkc hm
    · rename_i hne
      rcases hroot with ⟨hr, d2, hd2, hb2⟩ | ⟨_, hr⟩
      · intro hc
        obtain ⟨hi4, _⟩ := h.valid i key p hc
        subst hi4
        rw [hd] at hd2; cases hd2
        rcases h.bindKey key p d (by unfold topScope; exact hc) hd with hb | hb
        · rw [hda] at hb; cases hb
        · exact hne ⟨rfl, by rw [← hb, hb2]⟩
      · exact hr i key
  refine ⟨by rw [s1]; exact h.stack, by rw [s2]; exact h.len, by rw [s3]; exact h.inFunc, ?_, ?_, ?_, ?_, ?_, ?_, ?_⟩
  · intro key w hw
    rw [hts] at hw
    by_cases hk : key = x
    · rw [hk]; exact hx
    · rw [if_neg hk] at hw; exact h.simpleKeys key w hw
  · -- reported checkers
    have hold : ∀ k ∈ u.unused, (∃ c, (storeU u x v).checkers[k]? = some c ∧ c.anon = false) ∧
        ∀ i key, ((storeU u x v).heap.get i).get key ≠ some (.obj k) := by
      intro k hk
      obtain ⟨⟨c, hc, hca⟩, hr⟩ := h.unusedOK k hk
      obtain ⟨c', hc', _, _, _, _, ha'⟩ := ck.fwd k c hc
      refine ⟨⟨c', hc', by rw [ha']; exact hca⟩, fun i key => ?_⟩
      rw [hget]
      split
      · rcases hv' with hv' | ⟨k1, hv', _, hnu, _⟩
        · rw [hv']; simp
        · rw [hv']; intro hcon; simp only [Option.some.injEq, Val.obj.injEq] at hcon; exact hnu (hcon ▸ hk)
      · exact hr i key
    have hpend : ∀ k ∈ pendingOf u.checkers x ((topScope u).get x), (∃ c, (storeU u x v).checkers[k]? = some c ∧ c.anon = false) ∧
        ∀ i key, ((storeU u x v).heap.get i).get key ≠ some (.obj k) := by
      intro k hk
      obtain ⟨⟨d, hd, _, hda⟩, _⟩ := hP k hk
      obtain ⟨d', hd', _, _, _, _, ha'⟩ := ck.fwd k d hd
      exact ⟨⟨d', hd', by rw [ha']; exact hda⟩, hPfree k hk⟩
    intro k hk
    cases hcase with
    | report _ _ h2 =>
      rw [h2] at hk
      rcases List.mem_append.mp hk with hk | hk
      · exact hold k hk
      · exact hpend k hk
    | plain _ _ _ h2 => rw [h2] at hk; exact hold k hk
    | attach _ _ _ _ _ h2 => rw [h2] at hk; exact hold k hk
    | carrier _ _ _ _ h2 => rw [h2] at hk; exact hold k hk
  · -- shadowed checkers
    intro k c' hc' j hj
    have hjold : ∀ (k0 : Nat) (c0 : Checker), u.checkers[k0]? = some c0 → j ∈ c0.shadowed →
        (∃ d, (storeU u x v).checkers[j]? = some d ∧ d.anon = false) ∧ ∀ i key, ((storeU u x v).heap.get i).get key ≠ some (.obj j) := by
      intro k0 c0 hc0 hj0
      obtain ⟨⟨d, hd, hda⟩, hr⟩ := h.shOK k0 c0 hc0 j hj0
      obtain ⟨d', hd', _, _, _, _, ha'⟩ := ck.fwd j d hd
      refine ⟨⟨d', hd', by rw [ha']; exact hda⟩, fun i key => ?_⟩
      rw [hget]
      split
      · rcases hv' with hv' | ⟨k1, hv', _, _, _, hns, _⟩
        · rw [hv']; simp
        · rw [hv']; intro hcon; simp only [Option.some.injEq, Val.obj.injEq] at hcon
          exact hns k0 c0 hc0 (hcon ▸ hj0)
      · exact hr i key
    have hjP : j ∈ pendingOf u.checkers x ((topScope u).get x) →
        (∃ d, (storeU u x v).checkers[j]? = some d ∧ d.anon = false) ∧ ∀ i key, ((storeU u x v).heap.get i).get key ≠ some (.obj j) := by
      intro hjp
      obtain ⟨⟨d, hd, _, hda⟩, _⟩ := hP j hjp
      obtain ⟨d', hd', _, _, _, _, ha'⟩ := ck.fwd j d hd
      exact ⟨⟨d', hd', by rw [ha']; exact hda⟩, hPfree j hjp⟩
    rcases ck.bwd k c' hc' with ⟨c, hc, _, _, _, _, _, hsh⟩ | ⟨_, _, hsh⟩
    · rcases hsh with hsh | hsh
      · rw [hsh] at hj; exact hjold k c hc hj
      · rw [hsh] at hj
        rcases List.mem_append.mp hj with hj | hj
        · exact hjP hj
        · exact hjold k c hc hj
    · rw [hsh] at hj; exact hjP hj
  · intro k k' c c' hc hc' ha ha' hid
    rcases ck.bwd k c hc with ⟨d, hd, _, hl, hi, _, hda, _⟩ | ⟨_, hanon, _⟩
    · rcases ck.bwd k' c' hc' with ⟨d', hd', _, hl', hi', _, hda', _⟩ | ⟨_, hanon', _⟩
      · exact h.uniq k k' d d' hd hd' (by rw [← hda]; exact ha) (by rw [← hda']; exact ha') (by rw [← hl, ← hi, ← hl', ← hi']; exact hid)
      · rw [hanon'] at ha'; cases ha'
    · rw [hanon] at ha; cases ha
  · intro k c hc ha
    rcases ck.bwd k c hc with ⟨d, hd, _, hl, _, _, hda, _⟩ | ⟨_, hanon, _⟩
    · rw [hl]; exact h.seenLines k d hd (by rw [← hda]; exact ha)
    · rw [hanon] at ha; cases ha
  · intro i key k hk
    rw [hget] at hk
    split at hk
    · rename_i hc
      rcases hv' with hv' | ⟨k1, hv', hlt, _⟩
      · rw [hv'] at hk; cases hk
      · rw [hv'] at hk
        simp only [Option.some.injEq, Val.obj.injEq] at hk
        subst hk
        exact ⟨hc.1, hlt⟩
    · obtain ⟨a, b⟩ := h.valid i key k hk
      exact ⟨a, Nat.lt_of_lt_of_le b ck.len⟩
  · intro key k c hk hc
    rw [hts] at hk
    by_cases hkx : key = x
    · rw [if_pos hkx] at hk
      rcases hv' with hv' | ⟨k1, hv', _, _, _, _, hb1⟩
      · rw [hv'] at hk; cases hk
      · rw [hv'] at hk
        simp only [Option.some.injEq, Val.obj.injEq] at hk
        subst hk
        rw [hkx]; exact hb1 c hc
    · rw [if_neg hkx] at hk
      rcases ck.bwd k c hc with ⟨d, hd, hb, _, _, _, hda, _⟩ | ⟨hke, _, _⟩
      · rw [hb, hda]; exact h.bindKey key k d hk hd
      · have := (h.valid 4 key k (by unfold topScope at hk; exact hk)).2
        omega

/-- assignment to a simple name: the origin of `x` is forgotten on the run-time side; on the analysis side `x` is bound to
    `None` or to an anonymous carrier -/
theorem olink_store_none {seen : List Nat} {u : UState} (h : UInv u seen) {x : Str} (hx : simpleName x = true)
    {o : List (Str × Nat × Nat)} (ho : OLink o u) (hnd : KeysNodup o) : OLink (assocDel x o) (storeU u x .none) := by
  obtain ⟨_, _, _, _, _, _, _, v', hcase, hget⟩ := storeU_simple h hx .none
  have ck := storeCase_ck hcase
  intro n y hy
  by_cases hn : n = x
  · subst hn
    rw [assocGet_assocDel_self n o hnd] at hy; cases hy
  · obtain ⟨k, c, hk, hc, hid, ha⟩ := ho n y (assocGet_assocDel_ne hn o y hy)
    obtain ⟨c', hc', _, hl, hi, _, ha'⟩ := ck.fwd k c hc
    refine ⟨k, c', ?_, hc', by rw [hl, hi]; exact hid, by rw [ha']; exact ha⟩
    unfold topScope at hk ⊢
    rw [hget]; simp [hn, hk]

theorem pendingOf_ne_nil {cs : List Checker} {key : Str} {old : Option Val} (h : pendingOf cs key old ≠ []) :
    ∃ k, old = some (.obj k) := by
  unfold pendingOf at h
  cases old with
  | none => exact absurd rfl h
  | some v => cases v with
    | none => exact absurd rfl h
    | obj k => exact ⟨k, rfl⟩

theorem writeTop_eq (st : UState) (x : Str) (v : Val) (htop : st.stack.top = 4) :
    writeTop st x v = { st with heap := st.heap.update 4 (·.set x v) } := by
  unfold writeTop; rw [htop]

/-- the shape of the state after a store of a simple key while the top scope is cell 4: only cell 4, the checkers and the
    report change; the value written is the given one, or an anonymous carrier in place of `None` over an old checker -/
theorem storeU_shape (u : UState) (x : Str) (hx : simpleName x = true) (v : Val) (htop : u.stack.top = 4) :
    ∃ (v' : Val) (cs' : List Checker) (un' : List Nat),
      storeU u x v = { u with heap := u.heap.update 4 (·.set x v'), checkers := cs', unused := un' } ∧
      (v' = v ∨ (v = .none ∧ ∃ k k', v' = .obj k ∧ (u.heap.get 4).get x = some (.obj k'))) := by
  have hla : lookupAncestors u x = u := by unfold lookupAncestors; rw [prefixes_simple hx]; rfl
  unfold storeU
  simp only [hla, htop]
  split
  · split
    · exact ⟨v, u.checkers, u.unused, writeTop_eq u x v htop, .inl rfl⟩
    · rename_i hpe
      have hne : pendingOf u.checkers x ((u.heap.get 4).get x) ≠ [] := by
        intro hc; rw [hc] at hpe; simp at hpe
      obtain ⟨k', hk'⟩ := pendingOf_ne_nil hne
      cases v with
      | obj kv => exact ⟨.obj kv, _, u.unused, writeTop_eq _ x _ htop, .inl rfl⟩
      | none => exact ⟨.obj u.checkers.length, _, u.unused, writeTop_eq _ x _ htop, .inr ⟨rfl, _, k', rfl, hk'⟩⟩
  · exact ⟨v, u.checkers, _, writeTop_eq _ x v htop, .inl rfl⟩

/-- a store never un-uses a checker, and what it reports was unused -/
theorem storeU_persist {seen : List Nat} {u : UState} (h : UInv u seen) {x : Str} (hx : simpleName x = true) (v : Val) :
    UsedPersist u (storeU u x v) := by
  obtain ⟨_, _, _, _, _, _, _, v', hcase, _⟩ := storeU_simple h hx v
  have ck := storeCase_ck hcase
  have hP := pendingOf_facts h x
  refine ⟨fun k c hc hu => ?_, fun k hk => ?_⟩
  · obtain ⟨c', hc', _, hl, hi, hu', ha⟩ := ck.fwd k c hc
    exact ⟨c', hc', by rw [hu']; exact hu, hl, hi, ha⟩
  · cases hcase with
    | report _ _ e2 =>
      rw [e2] at hk
      rcases List.mem_append.mp hk with hk | hk
      · exact .inl hk
      · right
        intro c hc
        obtain ⟨⟨e, he, heu, _⟩, _⟩ := hP k hk
        rw [hc] at he; cases he; exact heu
    | plain _ _ _ e2 => rw [e2] at hk; exact .inl hk
    | attach _ _ _ _ _ e2 => rw [e2] at hk; exact .inl hk
    | carrier _ _ _ _ e2 => rw [e2] at hk; exact .inl hk

theorem modify_append_last {α} (l : List α) (x : α) (f : α → α) : (l ++ [x]).modify l.length f = l ++ [f x] := by
  induction l with
  | nil => rfl
  | cons a r ih => simp only [List.cons_append, List.length_cons, List.modify_succ_cons, ih]

theorem modify_id_of {α} (l : List α) (k : Nat) (f : α → α) (h : ∀ a, l[k]? = some a → f a = a) : l.modify k f = l := by
  apply List.ext_getElem?
  intro j
  rw [getElem?_modify_eq]
  by_cases hk : k = j
  · subst hk
    simp only [↓reduceIte]
    cases hl : l[k]? with
    | none => rfl
    | some a => simp [h a hl]
  · simp [hk]

theorem unuse_id (d : Checker) (h : d.used = false) : { d with used := false } = d := by
  cases d; simp_all

/-- resetting the `used` flags of checkers that are unused anyway changes nothing -/
theorem resetUsed_id (cs : List Checker) (k : Nat) (c : Checker) (hc : cs[k]? = some c) (hu : c.used = false)
    (hs : ∀ j ∈ c.shadowed, ∀ d, cs[j]? = some d → d.used = false) : resetUsed cs k = cs := by
  unfold resetUsed
  have h1 : cs.modify k (fun c => { c with used := false }) = cs :=
    modify_id_of cs k _ (fun a ha => by rw [hc] at ha; cases ha; exact unuse_id c hu)
  simp only [h1, hc]
  have : ∀ (l : List Nat), (∀ j ∈ l, ∀ d, cs[j]? = some d → d.used = false) →
      l.foldl (fun cs j => cs.modify j (fun d => { d with used := false })) cs = cs := by
    intro l
    induction l with
    | nil => intro _; rfl
    | cons j r ih =>
      intro hl
      simp only [List.foldl_cons]
      rw [modify_id_of cs j _ (fun a ha => unuse_id a (hl j (List.mem_cons_self ..) a ha))]
      exact ih (fun j' hj' => hl j' (List.mem_cons_of_mem _ hj'))
  exact this c.shadowed hs

/-- one alias of a simple import (`import m`, `import a.b as n`, `from m import x [as y]`) at module level -/
theorem alias_step {seen : List Nat} {u : UState} (h : UInv u seen) {b : Str} (hb : simpleName b = true) (idx : Nat)
    (hfresh : ∀ (k : Nat) (c : Checker), u.checkers[k]? = some c → c.anon = false → c.line = u.line → c.idx < idx)
    (hseen : u.line ∈ seen) {o : List (Str × Nat × Nat)} (ho : OLink o u) :
    let u' := stepU u (.importAlias [b] b idx false)
    UInv u' seen ∧ OLink (assocSet b (u.line, idx) o) u' ∧ u'.line = u.line ∧
    (∀ (k : Nat) (c : Checker), u.checkers[k]? = some c → u'.checkers[k]? = some c) ∧
    (∀ (k : Nat) (c : Checker), u'.checkers[k]? = some c → c.anon = false → c.line = u'.line → c.idx < idx + 1) ∧
    (∀ k ∈ u'.unused, k ∈ u.unused ∨ ∀ c, u.checkers[k]? = some c → c.used = false) := by
  intro u'
  let new : Checker := { bind := b, line := u.line, idx := idx }
  let u1 : UState := { u with checkers := u.checkers ++ [new] }
  have hnew : u1.checkers[u.checkers.length]? = some new := getElem?_append_new _ _
  have hold : ∀ (k : Nat) (c : Checker), u.checkers[k]? = some c → u1.checkers[k]? = some c := by
    intro k c hc
    show (u.checkers ++ [new])[k]? = some c
    rw [List.getElem?_append_left (List.getElem?_eq_some_iff.mp hc).1]; exact hc
  have hsplit : ∀ (k : Nat) (c : Checker), u1.checkers[k]? = some c → u.checkers[k]? = some c ∨ (k = u.checkers.length ∧ c = new) := by
    intro k c hc
    by_cases hk : k < u.checkers.length
    · left
      have : (u.checkers ++ [new])[k]? = some c := hc
      rw [List.getElem?_append_left hk] at this; exact this
    · right
      have hlt := (List.getElem?_eq_some_iff.mp hc).1
      have hlen : u1.checkers.length = u.checkers.length + 1 := by simp [u1]
      have hke : k = u.checkers.length := by omega
      subst hke
      rw [hnew] at hc; exact ⟨rfl, (Option.some.inj hc).symm⟩
  have h1 : UInv u1 seen := by
    refine ⟨h.stack, h.len, h.inFunc, h.simpleKeys, ?_, ?_, ?_, ?_, ?_, ?_⟩
    · intro k hk
      obtain ⟨⟨c, hc, hca⟩, hr⟩ := h.unusedOK k hk
      exact ⟨⟨c, hold k c hc, hca⟩, hr⟩
    · intro k c hc j hj
      rcases hsplit k c hc with hc0 | ⟨_, hcn⟩
      · obtain ⟨⟨d, hd, hda⟩, hr⟩ := h.shOK k c hc0 j hj
        exact ⟨⟨d, hold j d hd, hda⟩, hr⟩
      · rw [hcn] at hj; simp [new] at hj
    · intro k k' c c' hc hc' ha ha' hid
      rcases hsplit k c hc with hc0 | ⟨hk, hcn⟩ <;> rcases hsplit k' c' hc' with hc0' | ⟨hk', hcn'⟩
      · exact h.uniq k k' c c' hc0 hc0' ha ha' hid
      · subst hcn'
        simp only [Prod.mk.injEq] at hid
        have := hfresh k c hc0 ha hid.1
        have h2 : c.idx = idx := hid.2
        omega
      · subst hcn
        simp only [Prod.mk.injEq] at hid
        have := hfresh k' c' hc0' ha' hid.1.symm
        have h2 : idx = c'.idx := hid.2
        omega
      · rw [hk, hk']
    · intro k c hc ha
      rcases hsplit k c hc with hc0 | ⟨_, hcn⟩
      · exact h.seenLines k c hc0 ha
      · rw [hcn]; exact hseen
    · intro i key k hk
      obtain ⟨a, b'⟩ := h.valid i key k hk
      exact ⟨a, by show k < (u.checkers ++ [new]).length; simp; omega⟩
    · intro key k c hk hc
      obtain ⟨_, hlt⟩ := h.valid 4 key k (by unfold topScope at hk; exact hk)
      rcases hsplit k c hc with hc0 | ⟨hke, _⟩
      · exact h.bindKey key k c hk hc0
      · omega
  have hfv : FreshVal u1 b (.obj u.checkers.length) := by
    refine .inr ⟨_, new, rfl, hnew, rfl, rfl, rfl, fun hm => ?_, fun i key hc => ?_, fun k c hc hm => ?_⟩
    · obtain ⟨⟨c, hc, _⟩, _⟩ := h.unusedOK _ hm
      have := (List.getElem?_eq_some_iff.mp hc).1; omega
    · have := (h.valid i key _ hc).2; omega
    · obtain ⟨⟨d, hd, _⟩, _⟩ := h1.shOK k c hc _ hm
      rcases hsplit _ d hd with hd0 | ⟨_, _⟩
      · have := (List.getElem?_eq_some_iff.mp hd0).1; omega
      · rcases hsplit k c hc with hc0 | ⟨_, hcn⟩
        · obtain ⟨⟨e, he, _⟩, _⟩ := h.shOK k c hc0 _ hm
          have := (List.getElem?_eq_some_iff.mp he).1; omega
        · rw [hcn] at hm; simp [new] at hm
  have h2 := uinv_store h1 hb (.obj u.checkers.length) hfv
  obtain ⟨s1, s2, s3, s4, _, _, _, v', hcase, hget⟩ := storeU_simple h1 hb (.obj u.checkers.length)
  have ck := storeCase_ck hcase
  have hP := pendingOf_facts h1 b
  -- the value stored is the new checker, unused, shadowing only unused checkers
  have hv' : v' = .obj u.checkers.length := by
    cases hcase with
    | report _ _ _ => rfl
    | plain _ _ _ _ => rfl
    | attach _ _ _ _ _ _ => rfl
    | carrier _ _ hvn _ _ => cases hvn
  obtain ⟨c2, hc2, hb2, hl2, hi2, hu2, ha2⟩ := ck.fwd _ new hnew
  have hsh2 : ∀ j ∈ c2.shadowed, ∀ d, (storeU u1 b (.obj u.checkers.length)).checkers[j]? = some d → d.used = false := by
    intro j hj d hd
    rcases ck.bwd _ c2 hc2 with ⟨c, hc, _, _, _, _, _, hsh⟩ | ⟨_, han, _⟩
    · rw [hnew] at hc; cases hc
      have hjP : j ∈ pendingOf u1.checkers b ((topScope u1).get b) := by
        rcases hsh with hsh | hsh
        · rw [hsh] at hj; simp [new] at hj
        · rw [hsh] at hj; simpa [new] using hj
      obtain ⟨⟨e, he, heu, _⟩, _⟩ := hP j hjP
      obtain ⟨e', he', _, _, _, hu', _⟩ := ck.fwd j e he
      rw [hd] at he'; cases he'
      rw [hu']; exact heu
    · rw [ha2] at han; cases han
  have hreset : resetUsed (storeU u1 b (.obj u.checkers.length)).checkers u.checkers.length =
      (storeU u1 b (.obj u.checkers.length)).checkers := resetUsed_id _ _ c2 hc2 (by rw [hu2]) hsh2
  have heq : u' = storeU u1 b (.obj u.checkers.length) := by
    have hu' : u' = { storeU u1 b (.obj u.checkers.length) with
        checkers := resetUsed (storeU u1 b (.obj u.checkers.length)).checkers u.checkers.length } := by
      simp only [u', stepU, Bool.false_eq_true, ↓reduceIte, List.foldl_cons, List.foldl_nil]
      rfl
    rw [hu', hreset]
  rw [heq]
  -- old checkers are untouched
  have hkeep : ∀ (k : Nat) (c : Checker), u.checkers[k]? = some c →
      (storeU u1 b (.obj u.checkers.length)).checkers[k]? = some c := by
    intro k c hc
    have hk := (List.getElem?_eq_some_iff.mp hc).1
    cases hcase with
    | report _ e1 _ => rw [e1]; exact hold k c hc
    | plain _ _ e1 _ => rw [e1]; exact hold k c hc
    | attach kv _ _ hvv e1 _ =>
      cases hvv
      rw [e1, getElem?_modify_eq, if_neg (by omega)]; exact hold k c hc
    | carrier _ _ hvn _ _ => cases hvn
  refine ⟨h2, ?_, s4, hkeep, ?_, ?_⟩
  · intro n y hy
    by_cases hn : n = b
    · subst hn
      rw [assocGet_assocSet_eq] at hy
      refine ⟨u.checkers.length, c2, ?_, hc2, by rw [hl2, hi2]; simpa [new] using hy, by rw [ha2]⟩
      unfold topScope; rw [hget, hv']; simp
    · rw [assocGet_assocSet_ne hn] at hy
      obtain ⟨k, c, hk, hc, hid, ha⟩ := ho n y hy
      refine ⟨k, c, ?_, hkeep k c hc, hid, ha⟩
      unfold topScope at hk ⊢
      rw [hget]; simp [hn]; exact hk
  · intro k c hc ha hl
    rw [s4] at hl
    rcases ck.bwd k c hc with ⟨d, hd, _, hl', hi', _, hda, _⟩ | ⟨_, han, _⟩
    · rcases hsplit k d hd with hd0 | ⟨_, hdn⟩
      · have := hfresh k d hd0 (by rw [← hda]; exact ha) (by rw [← hl']; exact hl)
        rw [hi']; omega
      · rw [hi', hdn]; show idx < idx + 1; omega
    · rw [han] at ha; cases ha
  · intro k hk
    cases hcase with
    | report _ _ e2 =>
      rw [e2] at hk
      rcases List.mem_append.mp hk with hk | hk
      · exact .inl hk
      · right
        intro c hc
        obtain ⟨⟨e, he, heu, _⟩, _⟩ := hP k hk
        rw [hold k c hc] at he; cases he; exact heu
    | plain _ _ _ e2 => rw [e2] at hk; exact .inl hk
    | attach _ _ _ _ _ e2 => rw [e2] at hk; exact .inl hk
    | carrier _ _ hvn _ _ => cases hvn

/-! ### statements, analysis side -/

theorem UInv.seenMono {u : UState} {seen seen' : List Nat} (h : UInv u seen) (hs : ∀ l ∈ seen, l ∈ seen') : UInv u seen' :=
  { h with seenLines := fun k c hc ha => hs _ (h.seenLines k c hc ha) }

theorem UInv.setLine {u : UState} {seen : List Nat} (h : UInv u seen) (l : Nat) : UInv { u with line := l } seen :=
  ⟨h.stack, h.len, h.inFunc, h.simpleKeys, h.unusedOK, h.shOK, h.uniq, h.seenLines, h.valid, h.bindKey⟩

/-- `_visit__all__` at module level only marks (and defers) -/
theorem allNamesU (names : List Str) : ∀ (u : UState), u.inFunc = false →
    Marks u (runOpsU u [.allNames names]) := by
  intro u hf
  have hrun : runOpsU u [.allNames names] = names.foldl (fun st n =>
      let r := sniU st st.stack.ids n
      if r.1 then { r.2 with deferred := r.2.deferred ++ [(n, r.2.stack.ids)] }
      else if r.2.allMark then { r.2 with useMarks := r.2.useMarks ++ [(n, r.2.stack.ids)] } else r.2) u := by
    simp [runOpsU, stepU, hf]
  rw [hrun]
  clear hrun hf
  induction names generalizing u with
  | nil => exact Marks.refl u
  | cons n r ih =>
    simp only [List.foldl_cons]
    have m1 := sniU_marks u u.stack.ids n
    have m1' : Marks u (if (sniU u u.stack.ids n).1 = true
        then { (sniU u u.stack.ids n).2 with deferred := (sniU u u.stack.ids n).2.deferred ++ [(n, (sniU u u.stack.ids n).2.stack.ids)] }
        else if (sniU u u.stack.ids n).2.allMark = true
          then { (sniU u u.stack.ids n).2 with useMarks := (sniU u u.stack.ids n).2.useMarks ++ [(n, (sniU u u.stack.ids n).2.stack.ids)] }
          else (sniU u u.stack.ids n).2) := by
      split
      · exact ⟨m1.heap, m1.stackEq, m1.unusedEq, m1.lineEq, m1.inFuncEq, m1.len, m1.each⟩
      · split
        · exact ⟨m1.heap, m1.stackEq, m1.unusedEq, m1.lineEq, m1.inFuncEq, m1.len, m1.each⟩
        · exact m1
    exact m1'.trans (ih _)

theorem cAll_ops (x : Str) (e : Expr) : cAll [Expr.name x] e = [] ∨ ∃ ns, cAll [Expr.name x] e = [Op.allNames ns] := by
  rcases cAll_cases x e with h | ⟨_, ns, h⟩
  · exact .inl h
  · exact .inr ⟨ns, h⟩

theorem cAlias_simple_import {D : Bool} {a : Alias} (idx : Nat) (hok : importAliasOK D a = true)
    (hs : (dotFree a.name || a.asname.isSome) = true) :
    cAlias none idx a = .importAlias [aliasBinds a] (aliasBinds a) idx false ∧ simpleName (aliasBinds a) = true := by
  obtain ⟨hparts, has⟩ := importAliasOK_parts hok
  have hstar : a.name ≠ ['*'] := by
    intro hc
    have h1 : splitDots a.name = [['*']] := by rw [hc]; decide
    have := hparts ['*'] (by rw [h1]; simp)
    exact absurd this (by decide)
  cases hasn : a.asname with
  | some n =>
    have hb : aliasBinds a = n := by simp [aliasBinds, hasn]
    refine ⟨?_, by rw [hb]; exact has n hasn⟩
    simp [cAlias, hasn, hb, hstar]
  | none =>
    have hdf : dotFree a.name = true := by simpa [hasn] using hs
    have hsd : splitDots a.name = [a.name] := splitDots_simple (by simpa [dotFree] using hdf)
    have hb : aliasBinds a = a.name := by simp [aliasBinds, hasn, hsd]
    refine ⟨?_, by rw [hb]; exact hparts a.name (by rw [hsd]; simp)⟩
    simp [cAlias, hasn, hb, hstar, hsd, prefixes]

theorem cAlias_simple_from {a : Alias} {m : Str} (idx : Nat) (hok : fromAliasOK a = true) (hm : m ≠ "__future__".toList) :
    cAlias (some m) idx a = .importAlias [aliasBinds a] (aliasBinds a) idx false ∧ simpleName (aliasBinds a) = true := by
  simp only [fromAliasOK, Bool.and_eq_true] at hok
  have hm' : ¬ m = ['_', '_', 'f', 'u', 't', 'u', 'r', 'e', '_', '_'] := hm
  have hstar : a.name ≠ ['*'] := simpleName_ne_star hok.1
  have hsd : splitDots a.name = [a.name] := simpleName_split hok.1
  cases hasn : a.asname with
  | some n =>
    have hb : aliasBinds a = n := by simp [aliasBinds, hasn]
    have hn : simpleName n = true := by have := hok.2; rw [hasn] at this; exact this
    refine ⟨?_, by rw [hb]; exact hn⟩
    simp [cAlias, hasn, hb, hstar, hm']
  | none =>
    have hb : aliasBinds a = a.name := by simp [aliasBinds, hasn, hsd]
    refine ⟨?_, by rw [hb]; exact hok.1⟩
    simp [cAlias, hasn, hb, hstar, hsd, prefixes, hm']

/-- all aliases of a simple import statement -/
theorem aliasesU {seen : List Nat} (m : Option Str) : ∀ (names : List Alias) (idx : Nat) (u : UState), UInv u seen →
    (∀ a ∈ names, ∀ i, cAlias m i a = .importAlias [aliasBinds a] (aliasBinds a) i false ∧ simpleName (aliasBinds a) = true) →
    (∀ (k : Nat) (c : Checker), u.checkers[k]? = some c → c.anon = false → c.line = u.line → c.idx < idx) → u.line ∈ seen →
    ∀ (o : List (Str × Nat × Nat)), OLink o u →
    UInv (runOpsU u (cAliases m idx names)) seen ∧ OLink (aliasOrigins u.line idx names o) (runOpsU u (cAliases m idx names)) ∧
    (runOpsU u (cAliases m idx names)).line = u.line ∧ UsedPersist u (runOpsU u (cAliases m idx names))
  | [], _, u, h, _, _, _, o, ho => ⟨h, ho, rfl, UsedPersist.refl u⟩
  | a :: r, idx, u, h, hal, hfresh, hseen, o, ho => by
    obtain ⟨hca, hsn⟩ := hal a (List.mem_cons_self ..) idx
    have hrun : runOpsU u (cAliases m idx (a :: r)) = runOpsU (stepU u (.importAlias [aliasBinds a] (aliasBinds a) idx false)) (cAliases m (idx + 1) r) := by
      simp only [cAliases, hca]; rfl
    rw [hrun]
    obtain ⟨h1, o1, l1, p1, f1, r1⟩ := alias_step h hsn idx hfresh hseen ho
    obtain ⟨h2, o2, l2, p2⟩ := aliasesU m r (idx + 1) _ h1 (fun b hb => hal b (List.mem_cons_of_mem _ hb)) f1 (by rw [l1]; exact hseen) _ o1
    have pa : UsedPersist u (stepU u (.importAlias [aliasBinds a] (aliasBinds a) idx false)) :=
      ⟨fun k c hc hu => ⟨c, p1 k c hc, hu, rfl, rfl, rfl⟩, r1⟩
    refine ⟨h2, ?_, l2.trans l1, pa.trans p2⟩
    simp only [aliasOrigins]
    rw [l1] at o2; exact o2

/-! ### imports do not touch the record of used imports -/

def UsedSame {α} (m : X α) : Prop := ∀ s, (m s).1.usedImps = s.usedImps

theorem UsedSame.pure {α} (a : α) : UsedSame (Pure.pure a : X α) := fun _ => rfl
theorem UsedSame.bind {α β} {m : X α} {f : α → X β} (h1 : UsedSame m) (h2 : ∀ a, UsedSame (f a)) : UsedSame (m >>= f) := by
  intro s
  rw [X.bind_def]
  have := h1 s
  cases hm : m s with
  | mk s' r =>
    rw [hm] at this
    cases r with
    | error e => exact this
    | ok a => simp only; exact (h2 a s').trans this
theorem UsedSame.raiseOther {α} : UsedSame (Pfb.PyCore.raiseOther : X α) := fun _ => rfl
theorem UsedSame.fuel {α} : UsedSame (X.throw .fuel : X α) := fun _ => rfl
theorem UsedSame.get : UsedSame X.get := fun _ => rfl
theorem UsedSame.loadModule (d : Str) : UsedSame (Pfb.PyCore.loadModule d) := by
  intro s
  unfold Pfb.PyCore.loadModule
  split
  · rfl
  · dsimp only
    split
    · rfl
    · split
      · rfl
      · split <;> rfl
theorem UsedSame.importChain : ∀ (ps : List (List Str)) (top : Option Nat), UsedSame (Pfb.PyCore.importChain ps top)
  | [], _ => by simp only [Pfb.PyCore.importChain]; exact UsedSame.pure _
  | [p], _ => by
    simp only [Pfb.PyCore.importChain]
    exact UsedSame.bind (UsedSame.loadModule _) (fun _ => UsedSame.pure _)
  | p :: q :: r, _ => by
    simp only [Pfb.PyCore.importChain]
    exact UsedSame.bind (UsedSame.loadModule _) (fun _ => UsedSame.importChain (q :: r) _)
theorem UsedSame.bindImport (n : Str) (v : RVal) (idx : Nat) : UsedSame (Pfb.PyCore.bindImport {} n v idx) := fun _ => rfl
theorem UsedSame.bindAlias (a : Alias) (tl : Option Nat × Option Nat) (idx : Nat) : UsedSame (Pfb.PyCore.bindAlias {} a tl idx) := by
  unfold Pfb.PyCore.bindAlias
  split
  · exact UsedSame.bindImport _ _ _
  · exact UsedSame.bindImport _ _ _
  · exact UsedSame.raiseOther
theorem UsedSame.fromValue (s0 : XState) (m : Str) (leaf : Nat) (a : Alias) : UsedSame (Pfb.PyCore.fromValue s0 m leaf a) := by
  unfold Pfb.PyCore.fromValue
  split
  · exact UsedSame.pure _
  · split
    · exact UsedSame.bind (UsedSame.loadModule _) (fun _ => UsedSame.pure _)
    · exact UsedSame.raiseOther
theorem UsedSame.importAliases : ∀ (f idx : Nat) (names : List Alias), UsedSame (Pfb.PyCore.importAliases f {} idx names)
  | 0, _, _ => by rw [Pfb.PyCore.importAliases]; exact UsedSame.fuel
  | _ + 1, _, [] => by simp only [Pfb.PyCore.importAliases]; exact UsedSame.pure _
  | f + 1, idx, a :: r => by
    simp only [Pfb.PyCore.importAliases]
    exact UsedSame.bind (UsedSame.importChain _ none)
      (fun tl => UsedSame.bind (UsedSame.bindAlias a tl idx) (fun _ => UsedSame.importAliases f (idx + 1) r))
theorem UsedSame.importFromAliases (m : Str) (leaf : Nat) : ∀ (f idx : Nat) (names : List Alias),
    UsedSame (Pfb.PyCore.importFromAliases f {} m leaf idx names)
  | 0, _, _ => by rw [Pfb.PyCore.importFromAliases]; exact UsedSame.fuel
  | _ + 1, _, [] => by simp only [Pfb.PyCore.importFromAliases]; exact UsedSame.pure _
  | f + 1, idx, a :: r => by
    simp only [Pfb.PyCore.importFromAliases]
    exact UsedSame.bind UsedSame.get (fun s0 => UsedSame.bind (UsedSame.fromValue s0 m leaf a)
      (fun v => UsedSame.bind (UsedSame.bindImport (aliasBinds a) v idx) (fun _ => UsedSame.importFromAliases m leaf f (idx + 1) r)))

theorem aliasOrigins_nodup (line : Nat) : ∀ (names : List Alias) (idx : Nat) (o : List (Str × Nat × Nat)),
    KeysNodup o → KeysNodup (aliasOrigins line idx names o)
  | [], _, _, h => h
  | a :: r, idx, o, h => by
    simp only [aliasOrigins]
    exact aliasOrigins_nodup line r (idx + 1) _ (KeysNodup.assocSet _ _ h)

/-! ### statements, both sides in lock step -/

/-- reads of an expression at module level: whatever the run recorded as used is marked by the analysis -/
theorem exprU {seen : List Nat} {D : Bool} {s : XState} {u : UState} (h : UInv u seen) (hc : CorrU s u)
    (f : Nat) (e : Expr) (hfr : fragBExpr D e = true) :
    Marks u (runOpsU u ((loadsOf e).map Op.load)) ∧ SameUpToLog s (evalExpr f {} e s).1 ∧
    UsedLink (evalExpr f {} e s).1 (runOpsU u ((loadsOf e).map Op.load)) := by
  obtain ⟨m, fm⟩ := loadsU (loadsOf e) u h
  have hE := (evalB {} (by simp [CtxOK]) D f).1 e s hfr
  refine ⟨m, hE.same, fun o ho => ?_⟩
  rcases hE.uses o ho with hold | ⟨n, hn, _, horig⟩
  · exact (UsedLink.persist hc.used m.persist) o hold
  · simp only [headsOf, List.mem_map] at hn
    obtain ⟨d, hd, rfl⟩ := hn
    obtain ⟨k, c, hk, hck, hid, hca⟩ := hc.origin _ o horig
    obtain ⟨c', hc', hu'⟩ := fm d hd (loads_good D e hfr d hd).1 k c hk hck
    obtain ⟨c0, hc0, _, hl, hi, _, han, _⟩ := m.get hc'
    rw [hck] at hc0
    have := Option.some.inj hc0
    subst this
    refine ⟨k, c', hc', by rw [← hl, ← hi]; exact hid, hu', by rw [← han]; exact hca, fun hm => ?_⟩
    rw [m.unusedEq] at hm
    exact (h.unusedOK k hm).2 4 _ (by unfold topScope at hk; exact hk)

theorem CorrU.same {s s' : XState} {u : UState} (h : CorrU s u) (hs : SameUpToLog s s') (hl : UsedLink s' u) : CorrU s' u :=
  ⟨by rw [hs.origins]; exact h.okeys, by rw [hs.origins]; exact h.origin, by rw [hs.line]; exact h.line, hl⟩

theorem runOpsU_cons (u : UState) (o : Op) (ops : List Op) : runOpsU u (o :: ops) = runOpsU (stepU u o) ops := rfl

/-- what one non-`located` module-level statement of the fragment does on both sides -/
def StepU (fx : Fixes) (ln f : Nat) (stmt : Stmt) (s : XState) (u : UState) (seen : List Nat) : Prop :=
  UInv (runOpsU u (cStmt fx ln stmt)) seen ∧
  UsedPersist u (runOpsU u (cStmt fx ln stmt)) ∧
  (runOpsU u (cStmt fx ln stmt)).line = u.line ∧
  UsedLink (execStmt f {} stmt s).1 (runOpsU u (cStmt fx ln stmt)) ∧
  ∀ fl, (execStmt f {} stmt s).2 = .ok fl → fl = Flow.normal ∧ CorrU (execStmt f {} stmt s).1 (runOpsU u (cStmt fx ln stmt))

theorem importStmtU {seen : List Nat} {s : XState} {u : UState} (h : UInv u seen) (hc : CorrU s u)
    (m : Option Str) (names : List Alias)
    (hal : ∀ a ∈ names, ∀ i, cAlias m i a = .importAlias [aliasBinds a] (aliasBinds a) i false ∧ simpleName (aliasBinds a) = true)
    (hfresh : ∀ (k : Nat) (c : Checker), u.checkers[k]? = some c → c.anon = false → c.line ≠ u.line) (hseen : u.line ∈ seen)
    (mx : X Unit) (hus : UsedSame mx) (hor : OrigOK mx (fun l o => aliasOrigins l 0 names o)) :
    let res := (mx >>= fun _ => (Pure.pure Flow.normal : X Flow)) s
    let u' := runOpsU u (cAliases m 0 names)
    UInv u' seen ∧ UsedPersist u u' ∧ u'.line = u.line ∧ UsedLink res.1 u' ∧
    (∀ fl, res.2 = .ok fl → fl = Flow.normal ∧ CorrU res.1 u') := by
  intro res u'
  obtain ⟨h1, o1, l1, p1⟩ := aliasesU m names 0 u h hal (fun k c hk ha hl => absurd hl (hfresh k c hk ha)) hseen s.origins hc.origin
  have hp : UsedPersist u u' := p1
  have hused : res.1.usedImps = s.usedImps := by
    have := hus s
    simp only [res, X.bind_def]
    cases hm : mx s with
    | mk s' r =>
      rw [hm] at this
      cases r with
      | error e => exact this
      | ok a => exact this
  have hlink : UsedLink res.1 u' := by
    intro o ho; rw [hused] at ho; exact (UsedLink.persist hc.used hp) o ho
  refine ⟨h1, hp, l1, hlink, fun fl hfl => ?_⟩
  cases hm : mx s with
  | mk s' r =>
    cases r with
    | error e =>
      have : res = (s', .error e) := by simp only [res, X.bind_def, hm]
      rw [this] at hfl; cases hfl
    | ok a =>
      have hres : res = (s', .ok Flow.normal) := by simp only [res, X.bind_def, hm, X.pure_def]
      obtain ⟨ho, hl⟩ := hor s a (by rw [hm])
      rw [hm] at ho hl
      simp only at ho hl
      rw [hres] at hfl hlink ⊢
      refine ⟨by cases hfl; rfl, ?_, ?_, ?_, hlink⟩
      · show KeysNodup s'.origins
        rw [ho]; exact aliasOrigins_nodup _ _ _ _ hc.okeys
      · show OLink s'.origins u'
        rw [ho, ← hc.line]; exact o1
      · show u'.line = s'.line
        rw [l1, hl]; exact hc.line

theorem cExprU_loads (fx : Fixes) (D : Bool) (e : Expr) (h : fragBExpr D e = true) (u : UState) :
    runOpsU u (cExpr fx e) = runOpsU u ((loadsOf e).map Op.load) := by rw [cExpr_loads fx D e h]

theorem stepU_store (u : UState) (x : Str) : runOpsU u [.store x] = storeU u x .none := rfl

/-- a non-`located` module-level statement of the fragment -/
theorem coreU (fx : Fixes) (D : Bool) {seen : List Nat} (stmt : Stmt) (f ln : Nat) (s : XState) (u : UState)
    (hfr : fragBStmt D stmt = true) (hsi : simpleImportStmt stmt = true) (hnl : ∀ l s', stmt ≠ .located l s')
    (h : UInv u seen) (hc : CorrU s u)
    (hfresh : isImportStmt stmt = true → ∀ (k : Nat) (c : Checker), u.checkers[k]? = some c → c.anon = false → c.line ≠ u.line)
    (hseen : isImportStmt stmt = true → u.line ∈ seen) :
    StepU fx ln f stmt s u seen := by
  unfold StepU
  cases f with
  | zero =>
    -- out of fuel: nothing was executed; the analysis side still keeps its invariants (shown below for `f + 1`, reused here)
    have hex : execStmt 0 {} stmt s = (s, .error .fuel) := by rw [execStmt]; rfl
    cases stmt with
    | expr e =>
      have hfe : fragBExpr D e = true := by simpa [fragBStmt] using hfr
      obtain ⟨m, _, _⟩ := exprU h hc 0 e hfe
      simp only [cStmt, cExprU_loads fx D e hfe]
      exact ⟨h.marks m, m.persist, m.lineEq, by rw [hex]; exact UsedLink.persist hc.used m.persist, fun fl hfl => by rw [hex] at hfl; cases hfl⟩
    | assign ts e =>
      simp only [fragBStmt, Bool.and_eq_true] at hfr
      cases hsn : singleName ts with
      | none => rw [hsn] at hfr; simp at hfr
      | some x =>
        have hts := singleName_eq hsn; subst hts
        rw [hsn] at hfr
        obtain ⟨m, _, _⟩ := exprU h hc 0 e hfr.2
        have h1 := h.marks m
        have h2 := uinv_store h1 hfr.1 .none (.inl rfl)
        obtain ⟨s1, s2, s3, s4, s5, _⟩ := storeU_simple h1 hfr.1 .none
        have hops : runOpsU u (cStmt fx ln (.assign [.name x] e)) =
            runOpsU (storeU (runOpsU u ((loadsOf e).map Op.load)) x .none) (cAll [Expr.name x] e) := by
          simp only [cStmt, cTargets, cTarget, List.append_nil, runOpsU_append, cExprU_loads fx D e hfr.2]; rfl
        rw [hops]
        have p12 : UsedPersist u (storeU (runOpsU u ((loadsOf e).map Op.load)) x .none) := m.persist.trans (storeU_persist h1 hfr.1 .none)
        rcases cAll_ops x e with h0 | ⟨ns, h0⟩
        · rw [h0]
          exact ⟨h2, p12, s4.trans m.lineEq, by rw [hex]; exact UsedLink.persist hc.used p12, fun fl hfl => by rw [hex] at hfl; cases hfl⟩
        · rw [h0]
          have m3 := allNamesU ns _ (s3.trans h1.inFunc)
          exact ⟨h2.marks m3, p12.trans m3.persist, (m3.lineEq.trans s4).trans m.lineEq,
            by rw [hex]; exact UsedLink.persist hc.used (p12.trans m3.persist), fun fl hfl => by rw [hex] at hfl; cases hfl⟩
    | pass => exact ⟨h, UsedPersist.refl u, rfl, by rw [hex]; exact hc.used, fun fl hfl => by rw [hex] at hfl; cases hfl⟩
    | import_ names =>
      have hal : ∀ a ∈ names, ∀ i, cAlias none i a = .importAlias [aliasBinds a] (aliasBinds a) i false ∧ simpleName (aliasBinds a) = true := by
        intro a ha i
        simp only [fragBStmt, List.all_eq_true] at hfr
        simp only [simpleImportStmt, List.all_eq_true] at hsi
        exact cAlias_simple_import i (hfr a ha) (hsi a ha)
      obtain ⟨h1, o1, l1, p1⟩ := aliasesU none names 0 u h hal (fun k c hk ha hl => absurd hl (hfresh rfl k c hk ha)) (hseen rfl) s.origins hc.origin
      have hp : UsedPersist u (runOpsU u (cAliases none 0 names)) := p1
      exact ⟨h1, hp, l1, by rw [hex]; exact UsedLink.persist hc.used hp, fun fl hfl => by rw [hex] at hfl; cases hfl⟩
    | importFrom mname names =>
      have hm : mname ≠ "__future__".toList := by simpa [simpleImportStmt] using hsi
      have hal : ∀ a ∈ names, ∀ i, cAlias (some mname) i a = .importAlias [aliasBinds a] (aliasBinds a) i false ∧ simpleName (aliasBinds a) = true := by
        intro a ha i
        simp only [fragBStmt, List.all_eq_true] at hfr
        exact cAlias_simple_from i (hfr a ha) hm
      obtain ⟨h1, o1, l1, p1⟩ := aliasesU (some mname) names 0 u h hal (fun k c hk ha hl => absurd hl (hfresh rfl k c hk ha)) (hseen rfl) s.origins hc.origin
      have hp : UsedPersist u (runOpsU u (cAliases (some mname) 0 names)) := p1
      exact ⟨h1, hp, l1, by rw [hex]; exact UsedLink.persist hc.used hp, fun fl hfl => by rw [hex] at hfl; cases hfl⟩
    | located l s' => exact absurd rfl (hnl l s')
    | augAssign _ _ => simp [fragBStmt] at hfr
    | annAssign _ _ _ => simp [fragBStmt] at hfr
    | funcDef _ _ _ _ _ => simp [fragBStmt] at hfr
    | classDef _ _ _ _ => simp [fragBStmt] at hfr
    | for_ _ _ _ _ => simp [fragBStmt] at hfr
    | while_ _ _ _ => simp [fragBStmt] at hfr
    | if_ _ _ _ => simp [fragBStmt] at hfr
    | with_ _ _ => simp [fragBStmt] at hfr
    | try_ _ _ _ _ => simp [fragBStmt] at hfr
    | return_ _ => simp [fragBStmt] at hfr
    | raise_ _ => simp [fragBStmt] at hfr
    | delete _ => simp [fragBStmt] at hfr
    | global_ _ => simp [fragBStmt] at hfr
    | nonlocal_ _ => simp [fragBStmt] at hfr
  | succ f =>
    cases stmt with
    | expr e =>
      have hfe : fragBExpr D e = true := by simpa [fragBStmt] using hfr
      obtain ⟨m, hsame, hlink⟩ := exprU h hc f e hfe
      simp only [cStmt, cExprU_loads fx D e hfe]
      have hex : (execStmt (f + 1) {} (.expr e) s).1 = (evalExpr f {} e s).1 ∧
          ∀ fl, (execStmt (f + 1) {} (.expr e) s).2 = .ok fl → fl = Flow.normal := by
        simp only [execStmt, X.bind_def]
        cases evalExpr f {} e s with
        | mk s' r => cases r with
          | error x => exact ⟨rfl, fun fl hfl => by cases hfl⟩
          | ok v => exact ⟨rfl, fun fl hfl => by simp only [X.pure_def] at hfl; cases hfl; rfl⟩
      refine ⟨h.marks m, m.persist, m.lineEq, by rw [hex.1]; exact hlink, fun fl hfl => ⟨hex.2 fl hfl, ?_⟩⟩
      rw [hex.1]
      exact (hc.marks m).same hsame hlink
    | assign ts e =>
      simp only [fragBStmt, Bool.and_eq_true] at hfr
      cases hsn : singleName ts with
      | none => rw [hsn] at hfr; simp at hfr
      | some x =>
        have hts := singleName_eq hsn; subst hts
        rw [hsn] at hfr
        obtain ⟨m, hsame, hlink⟩ := exprU h hc f e hfr.2
        have h1 := h.marks m
        have h2 := uinv_store h1 hfr.1 .none (.inl rfl)
        obtain ⟨s1, s2, s3, s4, s5, _⟩ := storeU_simple h1 hfr.1 .none
        have hops : runOpsU u (cStmt fx ln (.assign [.name x] e)) =
            runOpsU (storeU (runOpsU u ((loadsOf e).map Op.load)) x .none) (cAll [Expr.name x] e) := by
          simp only [cStmt, cTargets, cTarget, List.append_nil, runOpsU_append, cExprU_loads fx D e hfr.2]; rfl
        rw [hops]
        have p12 : UsedPersist (runOpsU u ((loadsOf e).map Op.load)) (storeU (runOpsU u ((loadsOf e).map Op.load)) x .none) :=
          storeU_persist h1 hfr.1 .none
        -- the run-time side
        have hexec : ∀ (uF : UState), UsedPersist (storeU (runOpsU u ((loadsOf e).map Op.load)) x .none) uF →
            (CorrU { (evalExpr f {} e s).1 with globals := assocSet x RVal.opq (evalExpr f {} e s).1.globals } uF → True) →
            UsedLink (execStmt (f + 1) {} (.assign [.name x] e) s).1 uF := by
          intro uF hpF _
          have hu : (execStmt (f + 1) {} (.assign [.name x] e) s).1.usedImps = (evalExpr f {} e s).1.usedImps := by
            simp only [execStmt, X.bind_def]
            cases hr : evalExpr f {} e s with
            | mk s' r => cases r with
              | error err => rfl
              | ok v =>
                simp only
                rcases assignAll_name f x v s' with ha | ha <;> rw [ha] <;> rfl
          intro o ho
          rw [hu] at ho
          exact (UsedLink.persist (UsedLink.persist hlink p12) hpF) o ho
        have hok : ∀ (uF : UState), Marks (storeU (runOpsU u ((loadsOf e).map Op.load)) x .none) uF →
            ∀ fl, (execStmt (f + 1) {} (.assign [.name x] e) s).2 = .ok fl →
              fl = Flow.normal ∧ CorrU (execStmt (f + 1) {} (.assign [.name x] e) s).1 uF := by
          intro uF mF fl hfl
          have hlk := hexec uF mF.persist (fun _ => trivial)
          simp only [execStmt, X.bind_def] at hfl hlk ⊢
          cases hr : evalExpr f {} e s with
          | mk s' r =>
            rw [hr] at hfl hlk hsame
            cases r with
            | error err => cases hfl
            | ok v =>
              simp only at hfl hlk hsame ⊢
              rcases assignAll_name f x v s' with ha | ha
              · rw [ha] at hfl hlk ⊢
                simp only [X.pure_def] at hfl hlk ⊢
                refine ⟨by cases hfl; rfl, ?_⟩
                have hc1 : CorrU s' (runOpsU u ((loadsOf e).map Op.load)) := by
                  have := (hc.marks m).same hsame (by rw [hr] at hlink; exact hlink)
                  exact this
                have ol := olink_store_none h1 hfr.1 hc1.origin hc1.okeys
                have c2 : CorrU { s' with globals := assocSet x v s'.globals, origins := assocDel x s'.origins }
                    (storeU (runOpsU u ((loadsOf e).map Op.load)) x .none) :=
                  ⟨KeysNodup.assocDel x hc1.okeys, ol, s4.trans hc1.line, UsedLink.persist hc1.used p12⟩
                have c3 := c2.marks mF
                exact ⟨c3.okeys, c3.origin, c3.line, hlk⟩
              · rw [ha] at hfl; cases hfl
        rcases cAll_ops x e with h0 | ⟨ns, h0⟩
        · rw [h0]
          refine ⟨h2, m.persist.trans p12, s4.trans m.lineEq, hexec _ (UsedPersist.refl _) (fun _ => trivial), hok _ (Marks.refl _)⟩
        · rw [h0]
          have m3 := allNamesU ns _ (s3.trans h1.inFunc)
          exact ⟨h2.marks m3, (m.persist.trans p12).trans m3.persist, (m3.lineEq.trans s4).trans m.lineEq,
            hexec _ m3.persist (fun _ => trivial), hok _ m3⟩
    | pass =>
      simp only [execStmt, cStmt, X.pure_def]
      exact ⟨h, UsedPersist.refl u, rfl, hc.used, fun fl hfl => ⟨by cases hfl; rfl, hc⟩⟩
    | import_ names =>
      have hal : ∀ a ∈ names, ∀ i, cAlias none i a = .importAlias [aliasBinds a] (aliasBinds a) i false ∧ simpleName (aliasBinds a) = true := by
        intro a ha i
        simp only [fragBStmt, List.all_eq_true] at hfr
        simp only [simpleImportStmt, List.all_eq_true] at hsi
        exact cAlias_simple_import i (hfr a ha) (hsi a ha)
      have := importStmtU h hc none names hal (hfresh rfl) (hseen rfl) _ (UsedSame.importAliases f 0 names)
        ((OrigOK.importAliases f 0 names).congr (fun _ _ => rfl))
      simp only [execStmt, cStmt]
      obtain ⟨a1, a2, a3, a4, a5⟩ := this
      exact ⟨a1, a2, a3, a4, a5⟩
    | importFrom mname names =>
      have hm : mname ≠ "__future__".toList := by simpa [simpleImportStmt] using hsi
      have hal : ∀ a ∈ names, ∀ i, cAlias (some mname) i a = .importAlias [aliasBinds a] (aliasBinds a) i false ∧ simpleName (aliasBinds a) = true := by
        intro a ha i
        simp only [fragBStmt, List.all_eq_true] at hfr
        exact cAlias_simple_from i (hfr a ha) hm
      have hus : UsedSame (do
          let tl ← importChain (prefixes (splitDots mname)) none
          match tl with
            | (_, some leaf) => importFromAliases f {} mname leaf 0 names
            | _ => (raiseOther : X Unit)) := by
        apply UsedSame.bind (UsedSame.importChain _ none)
        intro tl
        split
        · exact UsedSame.importFromAliases mname _ f 0 names
        · exact UsedSame.raiseOther
      have hor : OrigOK (do
          let tl ← importChain (prefixes (splitDots mname)) none
          match tl with
            | (_, some leaf) => importFromAliases f {} mname leaf 0 names
            | _ => (raiseOther : X Unit)) (fun l o => aliasOrigins l 0 names o) := by
        have := OrigOK.bind (OrigOK.importChain (prefixes (splitDots mname)) none) (F2 := fun l o => aliasOrigins l 0 names o)
          (fun tl => (by
            split
            · exact OrigOK.importFromAliases mname _ f 0 names
            · exact OrigOK.fail (fun s a hh => by cases hh) :
            OrigOK (match tl with
              | (_, some leaf) => importFromAliases f {} mname leaf 0 names
              | _ => (raiseOther : X Unit)) (fun l o => aliasOrigins l 0 names o)))
        exact this.congr (fun _ _ => rfl)
      have := importStmtU h hc (some mname) names hal (hfresh rfl) (hseen rfl) _ hus hor
      have hex : execStmt (f + 1) {} (.importFrom mname names) s =
          ((do
            let tl ← importChain (prefixes (splitDots mname)) none
            match tl with
              | (_, some leaf) => importFromAliases f {} mname leaf 0 names
              | _ => (raiseOther : X Unit)) >>= fun _ => (Pure.pure Flow.normal : X Flow)) s := by
        simp only [execStmt, X.bind_def]
        cases importChain (prefixes (splitDots mname)) none s with
        | mk s1 r1 =>
          cases r1 with
          | error e => rfl
          | ok tl =>
            obtain ⟨t, l⟩ := tl
            cases l with
            | none => rfl
            | some leaf => rfl
      simp only [cStmt]
      obtain ⟨a1, a2, a3, a4, a5⟩ := this
      exact ⟨a1, a2, a3, by rw [hex]; exact a4, fun fl hfl => by rw [hex] at hfl ⊢; exact a5 fl hfl⟩
    | located l s' => exact absurd rfl (hnl l s')
    | augAssign _ _ => simp [fragBStmt] at hfr
    | annAssign _ _ _ => simp [fragBStmt] at hfr
    | funcDef _ _ _ _ _ => simp [fragBStmt] at hfr
    | classDef _ _ _ _ => simp [fragBStmt] at hfr
    | for_ _ _ _ _ => simp [fragBStmt] at hfr
    | while_ _ _ _ => simp [fragBStmt] at hfr
    | if_ _ _ _ => simp [fragBStmt] at hfr
    | with_ _ _ => simp [fragBStmt] at hfr
    | try_ _ _ _ _ => simp [fragBStmt] at hfr
    | return_ _ => simp [fragBStmt] at hfr
    | raise_ _ => simp [fragBStmt] at hfr
    | delete _ => simp [fragBStmt] at hfr
    | global_ _ => simp [fragBStmt] at hfr
    | nonlocal_ _ => simp [fragBStmt] at hfr

/-! ### statement lists -/

theorem CorrU.dummy (u : UState) : CorrU { line := u.line } u :=
  ⟨by simp [KeysNodup], fun n o h => by simp [assocGet] at h, rfl, fun o h => by simp at h⟩

theorem CorrU.setLine {s : XState} {u : UState} (h : CorrU s u) (l : Nat) : CorrU { s with line := l } { u with line := l } :=
  ⟨h.okeys, h.origin, rfl, h.used⟩

theorem runOpsU_setLine (u : UState) (l : Nat) (ops : List Op) :
    runOpsU u (.setLine l :: ops) = runOpsU { u with line := l } ops := rfl

/-- one `located l core` statement: the hypotheses of `coreU` follow from `linesOK` -/
theorem locatedU (fx : Fixes) (D : Bool) {seen : List Nat} (l : Nat) (core : Stmt) (f ln : Nat) (s : XState) (u : UState)
    (hfr : fragBStmt D core = true) (hsi : simpleImportStmt core = true) (hnl : ∀ l' s', core ≠ .located l' s')
    (hl : isImportStmt core = true → seen.contains l = false)
    (h : UInv u seen) (hc : CorrU s u) :
    StepU fx l f core { s with line := l } { u with line := l } (if isImportStmt core then l :: seen else seen) := by
  have hmono : ∀ x ∈ seen, x ∈ (if isImportStmt core then l :: seen else seen) := by
    intro x hx; split
    · exact List.mem_cons_of_mem _ hx
    · exact hx
  apply coreU fx D core f l _ _ hfr hsi hnl ((h.setLine l).seenMono hmono) (hc.setLine l)
  · intro hi k c hk ha
    have hns := hl hi
    intro hcl
    have := h.seenLines k c hk ha
    show False
    have hcl' : c.line = l := hcl
    rw [hcl'] at this
    have : seen.contains l = true := by simpa using this
    rw [hns] at this; cases this
  · intro hi
    show l ∈ _
    rw [if_pos hi]; exact List.mem_cons_self ..

/-- analysis only: the invariants survive any list of statements of the fragment -/
theorem stmtsU_ana (fx : Fixes) (D : Bool) : ∀ (ss : List Stmt) (seen : List Nat) (u : UState) (ln : Nat),
    linesOK seen ss = true → fragB D ss = true → ss.all simpleImportStmt = true → UInv u seen →
    ∃ seen', UInv (runOpsU u (cStmts fx ln ss)) seen' ∧ UsedPersist u (runOpsU u (cStmts fx ln ss))
  | [], seen, u, _, _, _, _, h => ⟨seen, h, UsedPersist.refl u⟩
  | stmt :: ss, seen, u, ln, hl, hfr, hsi, h => by
    simp only [fragB, List.all_cons, Bool.and_eq_true] at hfr hsi
    cases stmt with
    | located l core =>
      simp only [linesOK, Bool.and_eq_true] at hl
      have hnl : ∀ l' s', core ≠ .located l' s' := by
        intro l' s' hc; rw [hc] at hl; simp at hl
      have hfc : fragBStmt D core = true := by simpa [fragBStmt] using hfr.1
      have hsc : simpleImportStmt core = true := by simpa [simpleImportStmt] using hsi.1
      have hlc : isImportStmt core = true → seen.contains l = false := by
        intro hi; have := hl.2; rw [if_pos hi] at this; simp only [Bool.and_eq_true, Bool.not_eq_true'] at this; exact this.1
      have hlr : linesOK (if isImportStmt core then l :: seen else seen) ss = true := by
        have := hl.2
        split
        · rename_i hi; rw [if_pos hi] at this; simp only [Bool.and_eq_true] at this; exact this.2
        · rename_i hi; rw [if_neg hi] at this; exact this
      obtain ⟨a1, a2, _, _, _⟩ := locatedU fx D l core 0 ln { line := u.line } u hfc hsc hnl hlc h (CorrU.dummy u)
      simp only [cStmts, cStmt, runOpsU_append, runOpsU_setLine]
      obtain ⟨seen', b1, b2⟩ := stmtsU_ana fx D ss _ _ ln hlr (by simpa [fragB] using hfr.2) hsi.2 a1
      have p0 : UsedPersist u { u with line := l } := UsedPersist.ofEq rfl rfl
      exact ⟨seen', b1, (p0.trans a2).trans b2⟩
    | _ => simp [linesOK] at hl

theorem stmtsU (fx : Fixes) (D : Bool) : ∀ (ss : List Stmt) (f : Nat) (s : XState) (u : UState) (seen : List Nat) (ln : Nat),
    linesOK seen ss = true → fragB D ss = true → ss.all simpleImportStmt = true → UInv u seen → CorrU s u →
    ∃ seen', UInv (runOpsU u (cStmts fx ln ss)) seen' ∧ UsedPersist u (runOpsU u (cStmts fx ln ss)) ∧
      UsedLink (execStmts f {} ss s).1 (runOpsU u (cStmts fx ln ss))
  | ss, 0, s, u, seen, ln, hl, hfr, hsi, h, hc => by
    obtain ⟨seen', a, b⟩ := stmtsU_ana fx D ss seen u ln hl hfr hsi h
    have : execStmts 0 {} ss s = (s, .error .fuel) := by rw [execStmts]; rfl
    exact ⟨seen', a, b, by rw [this]; exact UsedLink.persist hc.used b⟩
  | [], f + 1, s, u, seen, ln, _, _, _, h, hc => by
    simp only [execStmts, cStmts, X.pure_def]
    exact ⟨seen, h, UsedPersist.refl u, hc.used⟩
  | stmt :: ss, f + 1, s, u, seen, ln, hl, hfr, hsi, h, hc => by
    have hfr0 := hfr
    have hsi0 := hsi
    simp only [fragB, List.all_cons, Bool.and_eq_true] at hfr hsi
    cases stmt with
    | located l core =>
      have hl0 := hl
      simp only [linesOK, Bool.and_eq_true] at hl
      have hnl : ∀ l' s', core ≠ .located l' s' := by
        intro l' s' hc'; rw [hc'] at hl; simp at hl
      have hfc : fragBStmt D core = true := by simpa [fragBStmt] using hfr.1
      have hsc : simpleImportStmt core = true := by simpa [simpleImportStmt] using hsi.1
      have hlc : isImportStmt core = true → seen.contains l = false := by
        intro hi; have := hl.2; rw [if_pos hi] at this; simp only [Bool.and_eq_true, Bool.not_eq_true'] at this; exact this.1
      have hlr : linesOK (if isImportStmt core then l :: seen else seen) ss = true := by
        have := hl.2
        split
        · rename_i hi; rw [if_pos hi] at this; simp only [Bool.and_eq_true] at this; exact this.2
        · rename_i hi; rw [if_neg hi] at this; exact this
      have hfr2 : fragB D ss = true := by simpa [fragB] using hfr.2
      cases f with
      | zero =>
        -- the statement itself runs out of fuel
        obtain ⟨seen', a, b⟩ := stmtsU_ana fx D (.located l core :: ss) seen u ln hl0 hfr0 hsi0 h
        have : execStmts 1 {} (.located l core :: ss) s = (s, .error .fuel) := by
          simp only [execStmts, X.bind_def]; rw [execStmt]; rfl
        exact ⟨seen', a, b, by rw [this]; exact UsedLink.persist hc.used b⟩
      | succ f =>
        obtain ⟨a1, a2, a3, a4, a5⟩ := locatedU fx D l core f ln s u hfc hsc hnl hlc h hc
        have p0 : UsedPersist u { u with line := l } := UsedPersist.ofEq rfl rfl
        have hexs : execStmt (f + 1) {} (.located l core) s = execStmt f {} core { s with line := l } := by
          simp only [execStmt, X.bind_def, X.modify]
        simp only [cStmts, cStmt, runOpsU_append, runOpsU_setLine, execStmts, X.bind_def, hexs]
        cases hr : execStmt f {} core { s with line := l } with
        | mk s1 r =>
          rw [hr] at a4 a5
          cases r with
          | error e =>
            simp only
            obtain ⟨seen', b1, b2⟩ := stmtsU_ana fx D ss _ _ ln hlr hfr2 hsi.2 a1
            exact ⟨seen', b1, (p0.trans a2).trans b2, UsedLink.persist a4 b2⟩
          | ok fl =>
            obtain ⟨hfl, hc1⟩ := a5 fl rfl
            subst hfl
            simp only
            obtain ⟨seen', b1, b2, b3⟩ := stmtsU fx D ss (f + 1) s1 _ _ ln hlr hfr2 hsi.2 a1 hc1
            exact ⟨seen', b1, (p0.trans a2).trans b2, b3⟩
    | _ => simp [linesOK] at hl

/-! ### the end of the analysis and the theorem -/

theorem mem_unusedShadowed {cs : List Checker} {k j : Nat} (h : j ∈ unusedShadowed cs k) :
    ∃ c d, cs[k]? = some c ∧ j ∈ c.shadowed ∧ cs[j]? = some d ∧ d.used = false := by
  unfold unusedShadowed at h
  cases hc : cs[k]? with
  | none => rw [hc] at h; simp at h
  | some c =>
    rw [hc] at h
    simp only [List.mem_filter] at h
    cases hd : cs[j]? with
    | none => rw [hd] at h; simp at h
    | some d =>
      rw [hd] at h
      exact ⟨c, d, rfl, h.1, rfl, by simpa using h.2⟩

/-- what `_scan_unused_imports` may report: a checker that is unused now, an import or something an existing checker shadows -/
def Reportable (cs : List Checker) (k : Nat) : Prop :=
  ∃ c : Checker, cs[k]? = some c ∧ c.used = false ∧ (c.anon = false ∨ ∃ (k1 : Nat) (c1 : Checker), cs[k1]? = some c1 ∧ k ∈ c1.shadowed)

theorem scanItems_facts : ∀ (items : List (Str × Val)) (u : UState),
    (scanItems u items).checkers = u.checkers ∧
    ∀ k ∈ (scanItems u items).unused, k ∈ u.unused ∨ Reportable u.checkers k
  | [], u => ⟨rfl, fun k hk => .inl hk⟩
  | kv :: r, u => by
    have hstep : ∀ u1 : UState, u1.checkers = u.checkers → (∀ k ∈ u1.unused, k ∈ u.unused ∨ Reportable u.checkers k) →
        (scanItems u1 r).checkers = u.checkers ∧ ∀ k ∈ (scanItems u1 r).unused, k ∈ u.unused ∨ Reportable u.checkers k := by
      intro u1 e1 e2
      obtain ⟨i1, i2⟩ := scanItems_facts r u1
      refine ⟨i1.trans e1, fun k hk => ?_⟩
      rcases i2 k hk with h | h
      · exact e2 k h
      · rw [e1] at h; exact .inr h
    have hunf : scanItems u (kv :: r) = scanItems (match kv.2 with
        | .obj k =>
          match u.checkers[k]? with
          | some c =>
            let st := if nameIs c kv.1 || c.anon then { u with unused := u.unused ++ unusedShadowed u.checkers k } else u
            if c.used || c.anon then st
            else if nameIs c kv.1 then { st with unused := st.unused ++ [k] } else st
          | none => u
        | .none => u) r := rfl
    rw [hunf]
    apply hstep
    · cases kv.2 with
      | none => rfl
      | obj k =>
        simp only
        cases hc : u.checkers[k]? with
        | none => rfl
        | some c =>
          simp only
          split <;> split <;> (try split) <;> rfl
    · intro j hj
      cases hv : kv.2 with
      | none => rw [hv] at hj; exact .inl hj
      | obj k =>
        rw [hv] at hj
        simp only at hj
        cases hc : u.checkers[k]? with
        | none => rw [hc] at hj; exact .inl hj
        | some c =>
          rw [hc] at hj
          simp only at hj
          have hA : ∀ j ∈ (if (nameIs c kv.1 || c.anon) = true then { u with unused := u.unused ++ unusedShadowed u.checkers k } else u).unused,
              j ∈ u.unused ∨ Reportable u.checkers j := by
            intro j hj
            split at hj
            · rcases List.mem_append.mp hj with hj | hj
              · exact .inl hj
              · obtain ⟨c1, d, hc1, hm, hd, hdu⟩ := mem_unusedShadowed hj
                exact .inr ⟨d, hd, hdu, .inr ⟨k, c1, hc1, hm⟩⟩
            · exact .inl hj
          split at hj
          · exact hA j hj
          · rename_i hua
            split at hj
            · rename_i hn
              rcases List.mem_append.mp hj with hj | hj
              · exact hA j hj
              · simp only [List.mem_singleton] at hj; subst hj
                simp only [Bool.or_eq_true, not_or, Bool.not_eq_true] at hua
                exact .inr ⟨c, hc, hua.1, .inl hua.2⟩
            · exact hA j hj

theorem foldl_sniU_marks : ∀ (l : List (Str × List Nat)) (u : UState),
    Marks u (l.foldl (fun st d => (sniU st d.2 d.1).2) u)
  | [], u => Marks.refl u
  | d :: r, u => by
    simp only [List.foldl_cons]
    exact (sniU_marks u d.2 d.1).trans (foldl_sniU_marks r _)

theorem finishU_facts {u : UState} {seen : List Nat} (h : UInv u seen) :
    UInv (finishU u) seen ∧ UsedPersist u (finishU u) := by
  unfold finishU
  dsimp only
  have m1 := foldl_sniU_marks u.deferred u
  have m2 := foldl_sniU_marks (u.deferred.foldl (fun st d => (sniU st d.2 d.1).2) u).useMarks
    (u.deferred.foldl (fun st d => (sniU st d.2 d.1).2) u)
  have m := m1.trans m2
  have hi := h.marks m
  exact ⟨⟨hi.stack, hi.len, hi.inFunc, hi.simpleKeys, hi.unusedOK, hi.shOK, hi.uniq, hi.seenLines, hi.valid, hi.bindKey⟩,
    ⟨m.persist.used, m.persist.rep⟩⟩

theorem runProgram_used (fuel : Nat) (body : List Stmt) (s0 : XState) :
    (runProgram fuel body [] s0).1.usedImps = (execStmts fuel {} body s0).1.usedImps := by
  simp only [runProgram, X.bind_def]
  cases hr : execStmts fuel {} body s0 with
  | mk s1 r =>
    cases r with
    | error e => rfl
    | ok fl =>
      simp only [X.modify]
      cases fuel with
      | zero => simp only [execStmts, X.throw]
      | succ f => simp only [execStmts, X.pure_def]

theorem uinv_init (builtins : Scope) (am dn : Bool) (hb : builtinsPlain builtins = true) : UInv (initU builtins am dn) [] := by
  have hcells : ∀ i key k, ((initU builtins am dn).heap.get i).get key ≠ some (.obj k) := by
    intro i key k hk
    simp only [builtinsPlain, List.all_eq_true, beq_iff_eq] at hb
    match i with
    | 0 =>
      have : (initU builtins am dn).heap.get 0 = builtins := rfl
      rw [this] at hk
      have := hb _ (assocGet_mem hk)
      simp at this
    | 1 =>
      have : (initU builtins am dn).heap.get 1 = { items := [("__file__".toList, Val.none)] } := rfl
      rw [this] at hk
      have := assocGet_mem hk
      simp at this
    | 2 => have : (initU builtins am dn).heap.get 2 = {} := rfl; rw [this] at hk; simp [Scope.get, assocGet] at hk
    | 3 => have : (initU builtins am dn).heap.get 3 = {} := rfl; rw [this] at hk; simp [Scope.get, assocGet] at hk
    | 4 => have : (initU builtins am dn).heap.get 4 = {} := rfl; rw [this] at hk; simp [Scope.get, assocGet] at hk
    | n + 5 =>
      have : (initU builtins am dn).heap.get (n + 5) = {} := Heap.get_ge _ (by simp [initU])
      rw [this] at hk; simp [Scope.get, assocGet] at hk
  have hnock : ∀ (k : Nat) (c : Checker), (initU builtins am dn).checkers[k]? = some c → False := by
    intro k c hc
    have : (initU builtins am dn).checkers = [] := rfl
    rw [this] at hc; simp at hc
  refine ⟨by simp only [initU]; decide, by simp [initU], rfl, ?_, fun k hk => by simp [initU] at hk, ?_, ?_, ?_, ?_, ?_⟩
  · intro key v hv; exact absurd hv (by unfold topScope; have : (initU builtins am dn).heap.get 4 = {} := rfl; rw [this]; simp [Scope.get, assocGet])
  · intro k c hc; exact (hnock k c hc).elim
  · intro k k' c c' hc; exact (hnock k c hc).elim
  · intro k c hc; exact (hnock k c hc).elim
  · intro i key k hk; exact absurd hk (hcells i key k)
  · intro key k c hk; exact absurd hk (by unfold topScope; exact hcells 4 key k)

/-- a used import checker that has not been reported is not in the final report -/
theorem scan_not_reported {u : UState} {seen : List Nat} (h2 : UInv u seen) {k : Nat} {c : Checker}
    (hc : u.checkers[k]? = some c) (hu : c.used = true) (ha : c.anon = false) (hnu : k ∉ u.unused) :
    (c.line, c.idx) ∉ (scanUnusedU u).unused.filterMap (fun k => ((scanUnusedU u).checkers[k]?).map (fun c => (c.line, c.idx))) := by
  intro hmem
  obtain ⟨cs, hun⟩ := scanItems_facts (u.heap.get u.stack.top).items u
  unfold scanUnusedU at hmem
  simp only [List.mem_filterMap] at hmem
  obtain ⟨k', hk', hck'⟩ := hmem
  rw [cs] at hck'
  cases hc' : u.checkers[k']? with
  | none => rw [hc'] at hck'; simp at hck'
  | some c' =>
    rw [hc'] at hck'
    simp only [Option.map_some, Option.some.injEq] at hck'
    have hrep := hun k' hk'
    have ha' : c'.anon = false := by
      rcases hrep with hold | ⟨c2, hc2, _, hc2a | ⟨k1, c1, hc1, hm⟩⟩
      · obtain ⟨⟨c3, hc3, hca3⟩, _⟩ := h2.unusedOK k' hold
        rw [hc'] at hc3; cases hc3; exact hca3
      · rw [hc'] at hc2; cases hc2; exact hc2a
      · obtain ⟨⟨d, hd, hda⟩, _⟩ := h2.shOK k1 c1 hc1 k' hm
        rw [hc'] at hd; cases hd; exact hda
    have hkk : k' = k := h2.uniq k' k c' c hc' hc ha' ha hck'
    subst hkk
    rw [hc] at hc'
    have hcc : c = c' := Option.some.inj hc'
    subst hcc
    rcases hrep with hold | ⟨c2, hc2, hcu2, _⟩
    · exact hnu hold
    · rw [hc] at hc2
      have : c = c2 := Option.some.inj hc2
      subst this
      rw [hu] at hcu2; cases hcu2

/-- the initial run-time state of the theorem: nothing imported, nothing read yet, line 0 -/
structure AgreeU (s0 : XState) : Prop where
  origins : s0.origins = []
  usedImps : s0.usedImps = []
  line : s0.line = 0

/-- **C02_read_import_not_unused.**  For the unchanged analysis and for every combination of the proposed repairs, for
    every program of fragment B (step (i): straight-line module-level code with imports and dotted reads) whose imports
    each store one key (`import m`, `import a.b as n`, `from m import x [as y]`; not `from __future__`) and sit on
    pairwise distinct lines, every builtins namespace without `_UseChecker` values, every fuel and every initial
    run-time state without recorded origins: if the reference run performs a successful read of a global name whose
    current binding was created by alias `idx` of the import statement on line `l`, then `(l, idx)` is not among the
    imports that the unused-import analysis reports (`findUnused`).  -/
theorem C02_read_import_not_unused (fx : Fixes) (builtins : Scope) (prog : List Stmt) (s0 : XState) (fuel : Nat) (D : Bool)
    (hfr : fragB D prog = true) (hsi : prog.all simpleImportStmt = true) (hl : linesOK [] prog = true)
    (hb : builtinsPlain builtins = true) (h0 : AgreeU s0) :
    ∀ i ∈ (runProgram fuel prog [] s0).1.usedImps, i ∉ findUnused fx builtins prog := by
  intro o ho hmem
  rw [runProgram_used] at ho
  have hc0 : CorrU s0 (initU builtins fx.allUseMark fx.deferredNames) :=
    ⟨by rw [h0.origins]; simp [KeysNodup], fun n x hx => by rw [h0.origins] at hx; simp [assocGet] at hx,
     by rw [h0.line]; rfl, fun x hx => by rw [h0.usedImps] at hx; simp at hx⟩
  obtain ⟨seen', h1, _, l1⟩ := stmtsU fx D prog fuel s0 (initU builtins fx.allUseMark fx.deferredNames) [] 0 hl hfr hsi (uinv_init builtins fx.allUseMark fx.deferredNames hb) hc0
  obtain ⟨h2, p2⟩ := finishU_facts h1
  obtain ⟨k, c, hc, hid, hu, ha, hnu⟩ := UsedLink.persist l1 p2 o ho
  -- the final scan only reports checkers that are still unused
  have := scan_not_reported h2 hc hu ha hnu
  rw [hid] at this
  exact this hmem

end Pfb.C05
