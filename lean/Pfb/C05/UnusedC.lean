/-
  Pfb.C05.UnusedC — the clause "no import whose binding is read is reported unused" on fragment C: reads inside the
  bodies of module-level functions that are called after the last module-level statement.  In unused-import mode every
  load of a function body is looked up twice when it is visited (marking what it finds) and once more when the module
  is complete (`_deferred_load_checks` / `_deferred_use_marks`), against a clone of the body scope.
-/
import Pfb.C05.Unused
import Pfb.C05.LemmasE
namespace Pfb.C05
open Pfb Pfb.PyCore

/-! ### the heap while (and after) a function definition is analysed -/

theorem mem_assocSet {β} {k : Str} {v : β} {l : List (Str × β)} {kv : Str × β} (h : kv ∈ assocSet k v l) :
    kv ∈ l ∨ kv = (k, v) := by
  induction l with
  | nil => simp only [assocSet, List.mem_singleton] at h; exact .inr h
  | cons a r ih =>
    obtain ⟨k', v'⟩ := a
    unfold assocSet at h
    split at h
    · rcases List.mem_cons.mp h with h | h
      · exact .inr h
      · exact .inl (List.mem_cons_of_mem _ h)
    · rcases List.mem_cons.mp h with h | h
      · exact .inl (h ▸ List.mem_cons_self ..)
      · exact (ih h).imp (fun x => List.mem_cons_of_mem _ x) id

/-- `u` was reached from the module-level state `u0` (heap length `n0`) while analysing a `def`: the cells of `u0` are
    untouched, the fresh cells hold names of `A` bound to `None`, checkers were only marked, entries only added -/
structure GU (n0 : Nat) (A : List Str) (u0 u : UState) : Prop where
  len : n0 ≤ u.heap.length
  old : ∀ i, i < n0 → u.heap.get i = u0.heap.get i
  fresh : ∀ i, n0 ≤ i → ∀ k v, (u.heap.get i).get k = some v → k ∈ A ∧ simpleName k = true ∧ v = Val.none
  freshCls : ∀ i, n0 ≤ i → (u.heap.get i).isClass = false
  freshItems : ∀ i, n0 ≤ i → ∀ kv ∈ (u.heap.get i).items, kv.2 = Val.none
  unusedEq : u.unused = u0.unused
  inClassEq : u.inClass = u0.inClass
  allMarkEq : u.allMark = u0.allMark
  clen : u.checkers.length = u0.checkers.length
  each : ∀ (k : Nat) (c : Checker), u0.checkers[k]? = some c →
    u.checkers[k]? = some c ∨ u.checkers[k]? = some { c with used := true }
  ents : ∀ x, (x ∈ u0.deferred ∨ x ∈ u0.useMarks) → (x ∈ u.deferred ∨ x ∈ u.useMarks)

theorem GU.init (A : List Str) (u : UState) : GU u.heap.length A u u :=
  ⟨Nat.le_refl _, fun _ _ => rfl,
   fun i hi k v hv => by rw [Heap.get_ge _ hi] at hv; simp [Scope.get, assocGet] at hv,
   fun i hi => by rw [Heap.get_ge _ hi],
   fun i hi kv hkv => by rw [Heap.get_ge _ hi] at hkv; simp at hkv,
   rfl, rfl, rfl, rfl, fun _ _ h => .inl h, fun _ h => h⟩

/-- steps that do not touch heap, checkers, reports or entries -/
theorem GU.congr {n0 : Nat} {A : List Str} {u0 u u' : UState} (h : GU n0 A u0 u) (hh : u'.heap = u.heap)
    (hc : u'.checkers = u.checkers) (hu : u'.unused = u.unused) (hi : u'.inClass = u.inClass) (ha : u'.allMark = u.allMark)
    (hd : u'.deferred = u.deferred) (hm : u'.useMarks = u.useMarks) : GU n0 A u0 u' :=
  ⟨by rw [hh]; exact h.len, by rw [hh]; exact h.old, by rw [hh]; exact h.fresh, by rw [hh]; exact h.freshCls,
   by rw [hh]; exact h.freshItems, hu.trans h.unusedEq, hi.trans h.inClassEq,
   ha.trans h.allMarkEq, by rw [hc]; exact h.clen, by rw [hc]; exact h.each, by rw [hd, hm]; exact h.ents⟩

/-- the values stored in scopes are `None` or checkers reachable only through the module's private scope (cell 4) -/
def ValidU (u : UState) : Prop := ∀ i key k, (u.heap.get i).get key = some (.obj k) → i = 4

theorem GU.valid {n0 : Nat} {A : List Str} {u0 u : UState} (h : GU n0 A u0 u) (hv : ValidU u0) : ValidU u := by
  intro i key k hk
  by_cases hi : i < n0
  · rw [h.old i hi] at hk; exact hv i key k hk
  · have := (h.fresh i (by omega) key _ hk).2.2
    cases this

theorem GU.cell4 {n0 : Nat} {A : List Str} {u0 u : UState} (h : GU n0 A u0 u) (h5 : 5 ≤ n0) : u.heap.get 4 = u0.heap.get 4 :=
  h.old 4 (by omega)

/-- a lookup inside the definition -/
theorem GU.sniU {n0 : Nat} {A : List Str} {u0 u : UState} (h : GU n0 A u0 u) (hv : ValidU u0) (h5 : 5 ≤ n0)
    (ids : List Nat) (d : Str) : GU n0 A u0 (Pfb.PyCore.sniU u ids d).2 := by
  rcases sniU_weak u ids d with he | ⟨i, key, k, hk, he⟩
  · rw [he]; exact h
  · rw [he]
    have hr : MarkRel u0.checkers (markUsed u.checkers k) := MarkRel.trans ⟨h.clen, h.each⟩ (markUsed_rel u.checkers k)
    exact ⟨h.len, h.old, h.fresh, h.freshCls, h.freshItems, h.unusedEq, h.inClassEq, h.allMarkEq, hr.1, hr.2, h.ents⟩

theorem storeU_plain (u : UState) (x : Str) (hx : simpleName x = true)
    (hv : ∀ v, (u.heap.get u.stack.top).get x = some v → v = Val.none) :
    storeU u x .none = { u with heap := u.heap.update u.stack.top (·.set x .none) } := by
  have hla : lookupAncestors u x = u := by unfold lookupAncestors; rw [prefixes_simple hx]; rfl
  have hp : pendingOf u.checkers x ((u.heap.get u.stack.top).get x) = [] := by
    cases hold : (u.heap.get u.stack.top).get x with
    | none => rfl
    | some old => rw [hv old hold]; rfl
  unfold storeU
  simp only [hla, hp, List.isEmpty_nil, ↓reduceIte, List.append_nil, ite_self]
  rfl

/-- a store into a fresh cell (argument scope or body scope) -/
theorem GU.store {n0 : Nat} {A : List Str} {u0 u : UState} (h : GU n0 A u0 u) (x : Str) (hx : simpleName x = true) (hxA : x ∈ A)
    (ht : n0 ≤ u.stack.top) (htl : u.stack.top < u.heap.length) :
    storeU u x .none = { u with heap := u.heap.update u.stack.top (·.set x .none) } ∧ GU n0 A u0 (storeU u x .none) := by
  have hp := storeU_plain u x hx (fun v hv => (h.fresh _ ht x v hv).2.2)
  refine ⟨hp, ?_⟩
  rw [hp]
  refine ⟨by simp [Heap.length_update]; exact h.len, fun i hi => ?_, fun i hi k v hv => ?_, fun i hi => ?_, fun i hi kv hkv => ?_,
    h.unusedEq, h.inClassEq, h.allMarkEq, h.clen, h.each, h.ents⟩
  · show (u.heap.update u.stack.top (·.set x .none)).get i = _
    rw [Heap.get_update, if_neg (by omega)]
    exact h.old i hi
  · change ((u.heap.update u.stack.top (·.set x .none)).get i).get k = some v at hv
    rw [Heap.get_update] at hv
    split at hv
    · rename_i hc
      by_cases hk : k = x
      · subst hk
        rw [scope_get_set_eq] at hv
        exact ⟨hxA, hx, by cases hv; rfl⟩
      · rw [scope_get_set_ne _ hk] at hv
        exact h.fresh _ ht k v hv
    · exact h.fresh i hi k v hv
  · show ((u.heap.update u.stack.top (·.set x .none)).get i).isClass = false
    rw [Heap.get_update]
    split
    · exact h.freshCls _ ht
    · exact h.freshCls i hi
  · change kv ∈ ((u.heap.update u.stack.top (·.set x .none)).get i).items at hkv
    rw [Heap.get_update] at hkv
    split at hkv
    · rcases mem_assocSet hkv with h1 | h1
      · exact h.freshItems _ ht kv h1
      · rw [h1]
    · exact h.freshItems i hi kv hkv

/-- pushing a fresh empty scope -/
theorem GU.push {n0 : Nat} {A : List Str} {u0 u : UState} (h : GU n0 A u0 u) (sc : Scope) (hsc : sc.items = [])
    (hcl : sc.isClass = false) : GU n0 A u0 { u with heap := u.heap ++ [sc] } := by
  refine ⟨by simp; have := h.len; omega, fun i hi => ?_, fun i hi k v hv => ?_, fun i hi => ?_, fun i hi kv hkv => ?_,
    h.unusedEq, h.inClassEq, h.allMarkEq, h.clen, h.each, h.ents⟩
  · show Heap.get (u.heap ++ [sc]) i = _
    rw [Heap.get_append_left _ _ (Nat.lt_of_lt_of_le hi h.len)]; exact h.old i hi
  · change (Heap.get (u.heap ++ [sc]) i).get k = some v at hv
    by_cases hil : i < u.heap.length
    · rw [Heap.get_append_left _ _ hil] at hv; exact h.fresh i hi k v hv
    · by_cases hie : i = u.heap.length
      · subst hie
        rw [Heap.get_append_new] at hv
        simp [Scope.get, hsc, assocGet] at hv
      · rw [Heap.get_ge _ (by simp; omega)] at hv; simp [Scope.get, assocGet] at hv
  · show (Heap.get (u.heap ++ [sc]) i).isClass = false
    by_cases hil : i < u.heap.length
    · rw [Heap.get_append_left _ _ hil]; exact h.freshCls i hi
    · by_cases hie : i = u.heap.length
      · subst hie; rw [Heap.get_append_new]; exact hcl
      · rw [Heap.get_ge _ (by simp; omega)]
  · change kv ∈ (Heap.get (u.heap ++ [sc]) i).items at hkv
    by_cases hil : i < u.heap.length
    · rw [Heap.get_append_left _ _ hil] at hkv; exact h.freshItems i hi kv hkv
    · by_cases hie : i = u.heap.length
      · subst hie; rw [Heap.get_append_new, hsc] at hkv; simp at hkv
      · rw [Heap.get_ge _ (by simp; omega)] at hkv; simp at hkv

/-- `clone_top` of a fresh cell -/
theorem GU.clone {n0 : Nat} {A : List Str} {u0 u : UState} (h : GU n0 A u0 u) (ht : n0 ≤ u.stack.top) :
    GU n0 A u0 (cloneTopU u).1 := by
  unfold cloneTopU
  refine ⟨by simp; have := h.len; omega, fun i hi => ?_, fun i hi k v hv => ?_, fun i hi => ?_, fun i hi kv hkv => ?_,
    h.unusedEq, h.inClassEq, h.allMarkEq, h.clen, h.each, h.ents⟩
  · show Heap.get (u.heap ++ [_]) i = _
    rw [Heap.get_append_left _ _ (Nat.lt_of_lt_of_le hi h.len)]; exact h.old i hi
  · change (Heap.get (u.heap ++ [u.heap.get u.stack.top]) i).get k = some v at hv
    by_cases hil : i < u.heap.length
    · rw [Heap.get_append_left _ _ hil] at hv; exact h.fresh i hi k v hv
    · by_cases hie : i = u.heap.length
      · subst hie
        rw [Heap.get_append_new] at hv
        exact h.fresh _ ht k v hv
      · rw [Heap.get_ge _ (by simp; omega)] at hv; simp [Scope.get, assocGet] at hv
  · show (Heap.get (u.heap ++ [u.heap.get u.stack.top]) i).isClass = false
    by_cases hil : i < u.heap.length
    · rw [Heap.get_append_left _ _ hil]; exact h.freshCls i hi
    · by_cases hie : i = u.heap.length
      · subst hie; rw [Heap.get_append_new]; exact h.freshCls _ ht
      · rw [Heap.get_ge _ (by simp; omega)]
  · change kv ∈ (Heap.get (u.heap ++ [u.heap.get u.stack.top]) i).items at hkv
    by_cases hil : i < u.heap.length
    · rw [Heap.get_append_left _ _ hil] at hkv; exact h.freshItems i hi kv hkv
    · by_cases hie : i = u.heap.length
      · subst hie; rw [Heap.get_append_new] at hkv; exact h.freshItems _ ht kv hkv
      · rw [Heap.get_ge _ (by simp; omega)] at hkv; simp at hkv

theorem sniU_fields (u : UState) (ids : List Nat) (d : Str) :
    (sniU u ids d).2.heap = u.heap ∧ (sniU u ids d).2.stack = u.stack ∧ (sniU u ids d).2.saved = u.saved ∧
    (sniU u ids d).2.inFunc = u.inFunc ∧ (sniU u ids d).2.savedFunc = u.savedFunc ∧ (sniU u ids d).2.deferred = u.deferred ∧
    (sniU u ids d).2.useMarks = u.useMarks ∧ (sniU u ids d).2.line = u.line := by
  rcases sniU_weak u ids d with he | ⟨i, key, k, _, he⟩ <;> rw [he] <;> exact ⟨rfl, rfl, rfl, rfl, rfl, rfl, rfl, rfl⟩

/-- inside the body of the `def` that started at the module-level state `u0` -/
structure InDef (n0 : Nat) (A : List Str) (u0 u : UState) : Prop where
  grow : GU n0 A u0 u
  stack : u.stack.ids = [0, 1, 3, 4, n0, n0 + 1]
  saved : ∃ S : StackRef, S.ids = [0, 1, 3, 4, n0] ∧ u.saved = S :: u0.stack :: u0.saved
  inFunc : u.inFunc = true
  savedFunc : u.savedFunc = false :: u0.savedFunc
  lenB : n0 + 2 ≤ u.heap.length

theorem InDef.top {n0 : Nat} {A : List Str} {u0 u : UState} (h : InDef n0 A u0 u) : u.stack.top = n0 + 1 := by
  unfold StackRef.top; rw [h.stack]; rfl

/-- entries and heap only grow -/
def EntMono (u u' : UState) : Prop :=
  u.heap.length ≤ u'.heap.length ∧ ∀ x, (x ∈ u.deferred ∨ x ∈ u.useMarks) → (x ∈ u'.deferred ∨ x ∈ u'.useMarks)

theorem EntMono.refl (u : UState) : EntMono u u := ⟨Nat.le_refl _, fun _ h => h⟩
theorem EntMono.trans {a b c : UState} (h1 : EntMono a b) (h2 : EntMono b c) : EntMono a c :=
  ⟨Nat.le_trans h1.1 h2.1, fun x hx => h2.2 x (h1.2 x hx)⟩

/-- the load of `d` has an entry whose scopes are the module-level stack, the argument scope and a clone -/
def CovU (n0 : Nat) (u : UState) (d : Str) : Prop :=
  ∃ c, n0 + 2 ≤ c ∧ c < u.heap.length ∧
    ((d, normIds ([0, 1, 3, 4, n0] ++ [c])) ∈ u.deferred ∨ (d, normIds ([0, 1, 3, 4, n0] ++ [c])) ∈ u.useMarks)

theorem CovU.mono {n0 : Nat} {u u' : UState} {d : Str} (h : CovU n0 u d) (hm : EntMono u u') : CovU n0 u' d := by
  obtain ⟨c, h1, h2, h3⟩ := h
  exact ⟨c, h1, Nat.lt_of_lt_of_le h2 hm.1, hm.2 _ h3⟩

/-- one `_visit_Load_defered`, after the head of the name has been noted -/
theorem deferCore_in {n0 : Nat} {A : List Str} {u0 u : UState} (h : InDef n0 A u0 u) (hv : ValidU u0) (h5 : 5 ≤ n0) (d : Str) :
    InDef n0 A u0 (deferCore u d) ∧ EntMono u (deferCore u d) ∧ CovU n0 (deferCore u d) d := by
  obtain ⟨f1, f2, f3, f4, f5, f6, f7, f8⟩ := sniU_fields u u.stack.ids d
  have g1 := h.grow.sniU hv h5 u.stack.ids d
  have htop : (sniU u u.stack.ids d).2.stack.top = n0 + 1 := by rw [f2]; exact h.top
  have g2 := g1.clone (by rw [htop]; omega)
  -- the clone and the scope ids of the entry
  let w : UState := (cloneTopU (sniU u u.stack.ids d).2).1
  let ids : List Nat := (cloneTopU (sniU u u.stack.ids d).2).2
  have hids : ids = normIds ([0, 1, 3, 4, n0] ++ [u.heap.length]) := by
    show normIds ((sniU u u.stack.ids d).2.stack.ids.dropLast ++ [(sniU u u.stack.ids d).2.heap.length]) = _
    rw [f1, f2, h.stack]; rfl
  have hwheap : w.heap = u.heap ++ [u.heap.get u.stack.top] := by
    show (sniU u u.stack.ids d).2.heap ++ [(sniU u u.stack.ids d).2.heap.get (sniU u u.stack.ids d).2.stack.top] = _
    rw [f1, f2]
  have hwlen : w.heap.length = u.heap.length + 1 := by rw [hwheap]; simp
  have hwd : w.deferred = u.deferred := f6
  have hwm : w.useMarks = u.useMarks := f7
  have hwstack : w.stack = u.stack := f2
  have hwsaved : w.saved = u.saved := f3
  have hwinF : w.inFunc = u.inFunc := f4
  have hwsF : w.savedFunc = u.savedFunc := f5
  have hlenB := h.lenB
  have hdef : deferCore u d = if (sniU u u.stack.ids d).1 = true then { w with deferred := w.deferred ++ [(d, ids)] }
      else { w with useMarks := w.useMarks ++ [(d, ids)] } := rfl
  rw [hdef]
  split
  · refine ⟨⟨?_, by show w.stack.ids = _; rw [hwstack]; exact h.stack, by show ∃ S : StackRef, _ ∧ w.saved = _; rw [hwsaved]; exact h.saved,
      by show w.inFunc = true; rw [hwinF]; exact h.inFunc, by show w.savedFunc = _; rw [hwsF]; exact h.savedFunc,
      by show n0 + 2 ≤ w.heap.length; omega⟩, ⟨by show u.heap.length ≤ w.heap.length; omega, fun x hx => ?_⟩,
      ⟨u.heap.length, hlenB, by show u.heap.length < w.heap.length; omega, .inl ?_⟩⟩
    · exact ⟨g2.len, g2.old, g2.fresh, g2.freshCls, g2.freshItems, g2.unusedEq, g2.inClassEq, g2.allMarkEq, g2.clen, g2.each,
        fun x hx => (g2.ents x hx).imp (fun h1 => List.mem_append_left _ h1) id⟩
    · show x ∈ w.deferred ++ [(d, ids)] ∨ x ∈ w.useMarks
      rw [hwd, hwm]; exact hx.imp (fun h1 => List.mem_append_left _ h1) id
    · show (d, normIds ([0, 1, 3, 4, n0] ++ [u.heap.length])) ∈ w.deferred ++ [(d, ids)]
      rw [hids]; exact List.mem_append_right _ (List.mem_singleton.mpr rfl)
  · refine ⟨⟨?_, by show w.stack.ids = _; rw [hwstack]; exact h.stack, by show ∃ S : StackRef, _ ∧ w.saved = _; rw [hwsaved]; exact h.saved,
      by show w.inFunc = true; rw [hwinF]; exact h.inFunc, by show w.savedFunc = _; rw [hwsF]; exact h.savedFunc,
      by show n0 + 2 ≤ w.heap.length; omega⟩, ⟨by show u.heap.length ≤ w.heap.length; omega, fun x hx => ?_⟩,
      ⟨u.heap.length, hlenB, by show u.heap.length < w.heap.length; omega, .inr ?_⟩⟩
    · exact ⟨g2.len, g2.old, g2.fresh, g2.freshCls, g2.freshItems, g2.unusedEq, g2.inClassEq, g2.allMarkEq, g2.clen, g2.each,
        fun x hx => (g2.ents x hx).imp id (fun h1 => List.mem_append_left _ h1)⟩
    · show x ∈ w.deferred ∨ x ∈ w.useMarks ++ [(d, ids)]
      rw [hwd, hwm]; exact hx.imp id (fun h1 => List.mem_append_left _ h1)
    · show (d, normIds ([0, 1, 3, 4, n0] ++ [u.heap.length])) ∈ w.useMarks ++ [(d, ids)]
      rw [hids]; exact List.mem_append_right _ (List.mem_singleton.mpr rfl)

theorem InDef.noteName {n0 : Nat} {A : List Str} {u0 u : UState} (h : InDef n0 A u0 u) (x : Str) :
    InDef n0 A u0 { u with deferredNames := x :: u.deferredNames } :=
  ⟨h.grow.congr rfl rfl rfl rfl rfl rfl rfl, h.stack, h.saved, h.inFunc, h.savedFunc, h.lenB⟩

/-- one `_visit_Load_defered` -/
theorem deferU_in {n0 : Nat} {A : List Str} {u0 u : UState} (h : InDef n0 A u0 u) (hv : ValidU u0) (h5 : 5 ≤ n0) (d : Str) :
    InDef n0 A u0 (deferU u d) ∧ EntMono u (deferU u d) ∧ CovU n0 (deferU u d) d := by
  obtain ⟨a1, a2, a3⟩ := deferCore_in (h.noteName ((splitDots d).headD [])) hv h5 d
  exact ⟨a1, ⟨a2.1, a2.2⟩, a3⟩

theorem runOpsU_loadF (u : UState) (d : Str) (hf : u.inFunc = true) :
    runOpsU u [.load d] = deferU (deferU u d) d := by simp [runOpsU, stepU, hf]

theorem loadsFU {n0 : Nat} {A : List Str} {u0 : UState} (hv : ValidU u0) (h5 : 5 ≤ n0) : ∀ (L : List Str) (u : UState),
    InDef n0 A u0 u → InDef n0 A u0 (runOpsU u (L.map Op.load)) ∧ EntMono u (runOpsU u (L.map Op.load)) ∧
      ∀ d ∈ L, CovU n0 (runOpsU u (L.map Op.load)) d
  | [], u, h => ⟨h, EntMono.refl u, fun d hd => by simp at hd⟩
  | d :: L, u, h => by
    have hsplit : runOpsU u ((d :: L).map Op.load) = runOpsU (runOpsU u [.load d]) (L.map Op.load) := by
      rw [← runOpsU_append]; rfl
    rw [hsplit, runOpsU_loadF u d h.inFunc]
    obtain ⟨a1, a2, _⟩ := deferU_in h hv h5 d
    obtain ⟨b1, b2, b3⟩ := deferU_in a1 hv h5 d
    obtain ⟨c1, c2, c3⟩ := loadsFU hv h5 L _ b1
    refine ⟨c1, (a2.trans b2).trans c2, fun x hx => ?_⟩
    rcases List.mem_cons.mp hx with rfl | hx
    · exact b3.mono c2
    · exact c3 x hx

theorem InDef.setLine {n0 : Nat} {A : List Str} {u0 u : UState} (h : InDef n0 A u0 u) (l : Nat) : InDef n0 A u0 { u with line := l } :=
  ⟨h.grow.congr rfl rfl rfl rfl rfl rfl rfl, h.stack, h.saved, h.inFunc, h.savedFunc, h.lenB⟩

theorem InDef.store {n0 : Nat} {A : List Str} {u0 u : UState} (h : InDef n0 A u0 u) (x : Str) (hx : simpleName x = true) (hxA : x ∈ A) :
    InDef n0 A u0 (storeU u x .none) ∧ EntMono u (storeU u x .none) := by
  have hlenB := h.lenB
  obtain ⟨e1, e2⟩ := h.grow.store x hx hxA (by rw [h.top]; omega) (by rw [h.top]; omega)
  refine ⟨⟨e2, ?_, ?_, ?_, ?_, ?_⟩, ?_⟩ <;> rw [e1]
  · exact h.stack
  · exact h.saved
  · exact h.inFunc
  · exact h.savedFunc
  · simp [Heap.length_update]; exact h.lenB
  · exact ⟨by simp [Heap.length_update], fun x hx => hx⟩

theorem allNamesU_inFunc (u : UState) (ns : List Str) (hf : u.inFunc = true) : runOpsU u [.allNames ns] = u := by
  simp [runOpsU, stepU, hf]

/-- one statement of a function body, unused-import mode -/
theorem stmtFU (fx : Fixes) (D : Bool) {n0 : Nat} {A : List Str} {u0 : UState} (hv : ValidU u0) (h5 : 5 ≤ n0) :
    ∀ (stmt : Stmt) (ln : Nat) (u : UState), fbodyStmt D stmt = true → (∀ x ∈ boundStmt stmt, x ∈ A) → InDef n0 A u0 u →
    InDef n0 A u0 (runOpsU u (cStmt fx ln stmt)) ∧ EntMono u (runOpsU u (cStmt fx ln stmt)) ∧
    ∀ d ∈ stmtLoads stmt, CovU n0 (runOpsU u (cStmt fx ln stmt)) d
  | .expr e, ln, u, hfr, _, h => by
    simp only [cStmt, stmtLoads, cExpr_loads fx D e (by simpa [fbodyStmt] using hfr)]
    exact loadsFU hv h5 _ u h
  | .assign ts e, ln, u, hfr, hA, h => by
    simp only [fbodyStmt, Bool.and_eq_true] at hfr
    cases hsn : singleName ts with
    | none => rw [hsn] at hfr; simp at hfr
    | some x =>
      have hts := singleName_eq hsn; subst hts
      rw [hsn] at hfr
      obtain ⟨a1, a2, a3⟩ := loadsFU hv h5 (loadsOf e) u h
      obtain ⟨b1, b2⟩ := a1.store x hfr.1 (hA x (by simp [boundStmt, targetsNames, targetNames]))
      have hst : runOpsU (runOpsU u ((loadsOf e).map Op.load)) (cTargets fx [Expr.name x]) =
          storeU (runOpsU u ((loadsOf e).map Op.load)) x .none := by simp [cTargets, cTarget, runOpsU, stepU]
      have hall : runOpsU (storeU (runOpsU u ((loadsOf e).map Op.load)) x .none) (cAll [Expr.name x] e) =
          storeU (runOpsU u ((loadsOf e).map Op.load)) x .none := by
        rcases cAll_cases x e with h0 | ⟨_, ns, h0⟩
        · rw [h0]; rfl
        · rw [h0]; exact allNamesU_inFunc _ ns b1.inFunc
      simp only [cStmt, stmtLoads, runOpsU_append, cExpr_loads fx D e hfr.2, hst, hall]
      exact ⟨b1, a2.trans b2, fun d hd => (a3 d hd).mono b2⟩
  | .pass, ln, u, _, _, h => by
    simp only [cStmt, stmtLoads]; exact ⟨h, EntMono.refl u, fun d hd => by simp at hd⟩
  | .return_ none, ln, u, _, _, h => by
    simp only [cStmt, cOptExpr, stmtLoads]; exact ⟨h, EntMono.refl u, fun d hd => by simp at hd⟩
  | .return_ (some e), ln, u, hfr, _, h => by
    simp only [cStmt, cOptExpr, stmtLoads, cExpr_loads fx D e (by simpa [fbodyStmt] using hfr)]
    exact loadsFU hv h5 _ u h
  | .located l s', ln, u, hfr, hA, h => by
    simp only [cStmt, stmtLoads, runOpsU_setLine]
    obtain ⟨a1, a2, a3⟩ := stmtFU fx D hv h5 s' l { u with line := l } (by simpa [fbodyStmt] using hfr)
      (by simpa [boundStmt] using hA) (h.setLine l)
    exact ⟨a1, ⟨a2.1, a2.2⟩, a3⟩
  | .augAssign _ _, _, _, hfr, _, _ => by simp [fbodyStmt] at hfr
  | .annAssign _ _ _, _, _, hfr, _, _ => by simp [fbodyStmt] at hfr
  | .import_ _, _, _, hfr, _, _ => by simp [fbodyStmt] at hfr
  | .importFrom _ _, _, _, hfr, _, _ => by simp [fbodyStmt] at hfr
  | .funcDef _ _ _ _ _, _, _, hfr, _, _ => by simp [fbodyStmt] at hfr
  | .classDef _ _ _ _, _, _, hfr, _, _ => by simp [fbodyStmt] at hfr
  | .for_ _ _ _ _, _, _, hfr, _, _ => by simp [fbodyStmt] at hfr
  | .while_ _ _ _, _, _, hfr, _, _ => by simp [fbodyStmt] at hfr
  | .if_ _ _ _, _, _, hfr, _, _ => by simp [fbodyStmt] at hfr
  | .with_ _ _, _, _, hfr, _, _ => by simp [fbodyStmt] at hfr
  | .try_ _ _ _ _, _, _, hfr, _, _ => by simp [fbodyStmt] at hfr
  | .raise_ _, _, _, hfr, _, _ => by simp [fbodyStmt] at hfr
  | .delete _, _, _, hfr, _, _ => by simp [fbodyStmt] at hfr
  | .global_ _, _, _, hfr, _, _ => by simp [fbodyStmt] at hfr
  | .nonlocal_ _, _, _, hfr, _, _ => by simp [fbodyStmt] at hfr

theorem bodyFU (fx : Fixes) (D : Bool) {n0 : Nat} {A : List Str} {u0 : UState} (hv : ValidU u0) (h5 : 5 ≤ n0) :
    ∀ (body : List Stmt) (ln : Nat) (u : UState), body.all (fbodyStmt D) = true → (∀ x ∈ boundStmts body, x ∈ A) →
    InDef n0 A u0 u →
    InDef n0 A u0 (runOpsU u (cStmts fx ln body)) ∧ EntMono u (runOpsU u (cStmts fx ln body)) ∧
    ∀ d ∈ bodyLoads body, CovU n0 (runOpsU u (cStmts fx ln body)) d
  | [], _, u, _, _, h => by
    simp only [cStmts, bodyLoads]; exact ⟨h, EntMono.refl u, fun d hd => by simp at hd⟩
  | s :: r, ln, u, hfr, hA, h => by
    simp only [List.all_cons, Bool.and_eq_true] at hfr
    simp only [cStmts, bodyLoads, runOpsU_append]
    simp only [boundStmts, List.mem_append] at hA
    obtain ⟨a1, a2, a3⟩ := stmtFU fx D hv h5 s ln u hfr.1 (fun x hx => hA x (.inl hx)) h
    obtain ⟨b1, b2, b3⟩ := bodyFU fx D hv h5 r ln _ hfr.2 (fun x hx => hA x (.inr hx)) a1
    refine ⟨b1, a2.trans b2, fun d hd => ?_⟩
    rcases List.mem_append.mp hd with hd | hd
    · exact (a3 d hd).mono b2
    · exact b3 d hd

/-! ### entering and leaving the definition -/

/-- the module-level shape needed to push scopes: no class scopes, an empty `_class_delayed` -/
structure UShape (u : UState) : Prop where
  delayed : (u.heap.get delayedId).items = []
  noClass : ∀ i ∈ [0, 1, 3, 4], (u.heap.get i).isClass = false
  inClass : u.inClass = 0

theorem withNewScope_idsU (S : StackRef) (heap : Heap) (ic uh : Bool) (newId : Nat) (hn : normIds S.ids = S.ids)
    (hcls : ∀ i ∈ S.ids, (heap.get i).isClass = false) (hdel : (heap.get delayedId).items = [])
    (hnew : newId ∉ S.ids) (h0 : newId ≠ 0) (h1 : newId ≠ 1) :
    (S.withNewScope heap ic uh newId).ids = S.ids ++ [newId] := by
  unfold StackRef.withNewScope
  dsimp only
  have hfilter : (if ic = true then S.ids else S.ids.filter (fun i => !(heap.get i).isClass)) = S.ids := by
    split
    · rfl
    · apply List.filter_eq_self.mpr
      intro i hi; simp [hcls i hi]
  have hd : ¬ (uh = true ∧ S.sharedDelayed = true ∧ (heap.get delayedId).items ≠ []) := fun hc => hc.2.2 hdel
  rw [hfilter, if_neg hd, normIds_snoc_fresh h0 h1 hnew, hn]

theorem updown_id (u : UState) : stepU (stepU u .upScope) .downScope = u := rfl

theorem storesFU {n0 : Nat} {A : List Str} {u0 : UState} : ∀ (names : List Str) (u : UState), GU n0 A u0 u →
    (∀ x ∈ names, simpleName x = true ∧ x ∈ A) → n0 ≤ u.stack.top → u.stack.top < u.heap.length →
    GU n0 A u0 (runOpsU u (names.map Op.store)) ∧ (runOpsU u (names.map Op.store)).stack = u.stack ∧
    (runOpsU u (names.map Op.store)).saved = u.saved ∧ (runOpsU u (names.map Op.store)).inFunc = u.inFunc ∧
    (runOpsU u (names.map Op.store)).savedFunc = u.savedFunc ∧ (runOpsU u (names.map Op.store)).heap.length = u.heap.length
  | [], u, h, _, _, _ => ⟨h, rfl, rfl, rfl, rfl, rfl⟩
  | x :: r, u, h, hx, ht, htl => by
    have hstep : runOpsU u ((x :: r).map Op.store) = runOpsU (storeU u x .none) (r.map Op.store) := rfl
    rw [hstep]
    obtain ⟨e1, e2⟩ := h.store x (hx x (List.mem_cons_self ..)).1 (hx x (List.mem_cons_self ..)).2 ht htl
    have hs : (storeU u x .none).stack = u.stack := by rw [e1]
    have hl : (storeU u x .none).heap.length = u.heap.length := by rw [e1]; simp [Heap.length_update]
    obtain ⟨a1, a2, a3, a4, a5, a6⟩ := storesFU r (storeU u x .none) e2 (fun y hy => hx y (List.mem_cons_of_mem _ hy))
      (by rw [hs]; exact ht) (by rw [hs, hl]; exact htl)
    refine ⟨a1, a2.trans hs, ?_, ?_, ?_, a6.trans hl⟩
    · rw [a3, e1]
    · rw [a4, e1]
    · rw [a5, e1]

theorem getLastD_two (l : List Nat) (a : Nat) : (l ++ [a]).getLastD 0 = a := by simp [List.getLastD_eq_getLast?]

/-- the ops before the body of `def name(params)` lead into the definition -/
theorem def_prefixU (fx : Fixes) {u : UState} {seen : List Nat} (h : UInv u seen) (hs : UShape u) (ln : Nat) (name : Str)
    (ps : List Param) (hn : simpleName name = true) (hps : ps.all simpleParam = true) (A : List Str)
    (hA : ∀ x ∈ paramNames ps, x ∈ A) (hnA : name ∈ A) :
    InDef u.heap.length A u (runOpsU u ([.pushScope true false false, .dunderClass] ++ cDecos fx ln [] ++ [.setLine ln] ++
        cArgs fx (.mk ps [] none [] [] none) ++ cRet fx none ++
        [.enterFunc, .pushScope false false true, .storeIfNotInClass name])) := by
  have h5 := h.len
  have hnorm4 : normIds [0, 1, 3, 4] = [0, 1, 3, 4] := by decide
  have hnot4 : ∀ m : Nat, 5 ≤ m → m ∉ [0, 1, 3, 4] := by
    intro m hm hc
    simp only [List.mem_cons, List.not_mem_nil, or_false] at hc
    omega
  simp only [cDecos, cArgs, cRet, cOptExpr, cExprs, cOptExprs, cParamAnns, cParamAnns_simple fx ps hps, ite_self,
    List.append_nil, List.nil_append, List.cons_append, List.append_assoc, cParams_simple fx ps hps, cParams]
  -- first push
  let u1 : UState := { u with heap := u.heap ++ [({ isClass := false } : Scope)], saved := u.stack :: u.saved, stack := u.stack.withNewScope u.heap true false u.heap.length }
  have hids1 : u1.stack.ids = [0, 1, 3, 4, u.heap.length] := by
    show (u.stack.withNewScope u.heap true false u.heap.length).ids = _
    rw [withNewScope_idsU u.stack u.heap true false u.heap.length (by rw [h.stack]; exact hnorm4)
      (by rw [h.stack]; exact hs.noClass) hs.delayed (by rw [h.stack]; exact hnot4 _ h5) (by omega) (by omega), h.stack]
    rfl
  have g1 : GU u.heap.length A u u1 := ((GU.init A u).push _ rfl rfl).congr rfl rfl rfl rfl rfl rfl rfl
  have e1 : runOpsU u (.pushScope true false false :: .dunderClass :: .setLine ln :: .upScope :: .downScope ::
      ((paramNames ps).map Op.store ++ [.enterFunc, .pushScope false false true, .storeIfNotInClass name])) =
      runOpsU { u1 with line := ln } ((paramNames ps).map Op.store ++ [.enterFunc, .pushScope false false true, .storeIfNotInClass name]) := by
    have hd : stepU u1 .dunderClass = u1 := by
      have : u1.inClass = 0 := hs.inClass
      simp [stepU, this]
    have s1 : stepU u (.pushScope true false false) = u1 := rfl
    have s3 : stepU u1 (.setLine ln) = { u1 with line := ln } := rfl
    have s45 : stepU (stepU { u1 with line := ln } .upScope) .downScope = { u1 with line := ln } := updown_id _
    rw [runOpsU_cons, s1, runOpsU_cons, hd, runOpsU_cons, s3, runOpsU_cons, runOpsU_cons, s45]
  rw [e1, runOpsU_append]
  -- parameters
  have htop1 : ({ u1 with line := ln } : UState).stack.top = u.heap.length := by
    show u1.stack.top = _
    unfold StackRef.top; rw [hids1]; rfl
  obtain ⟨a1, a2, a3, a4, a5, a6⟩ := storesFU (paramNames ps) { u1 with line := ln } (g1.congr rfl rfl rfl rfl rfl rfl rfl)
    (fun x hx => ⟨paramNames_simple ps hps x hx, hA x hx⟩) (by rw [htop1]; exact Nat.le_refl _)
    (by rw [htop1]; show u.heap.length < (u.heap ++ [_]).length; simp)
  -- enterFunc, second push, the function's own name
  let u2 := runOpsU { u1 with line := ln } ((paramNames ps).map Op.store)
  have hlen2 : u2.heap.length = u.heap.length + 1 := by rw [a6]; show (u.heap ++ [_]).length = _; simp
  have hids2 : u2.stack.ids = [0, 1, 3, 4, u.heap.length] := by rw [a2]; exact hids1
  let u3 : UState := { u2 with savedFunc := u2.inFunc :: u2.savedFunc, inFunc := true }
  let u4 : UState := { u3 with heap := u3.heap ++ [({ isClass := false } : Scope)], saved := u3.stack :: u3.saved, stack := u3.stack.withNewScope u3.heap false true u3.heap.length }
  have hcls2 : ∀ i ∈ u2.stack.ids, (u2.heap.get i).isClass = false := by
    intro i hi
    rw [hids2] at hi
    simp only [List.mem_cons, List.not_mem_nil, or_false] at hi
    by_cases hlt : i < u.heap.length
    · rw [a1.old i hlt]
      apply hs.noClass
      simp only [List.mem_cons, List.not_mem_nil, or_false]
      rcases hi with h | h | h | h | h
      · exact .inl h
      · exact .inr (.inl h)
      · exact .inr (.inr (.inl h))
      · exact .inr (.inr (.inr h))
      · omega
    · exact a1.freshCls i (by omega)
  have hnorm5 : normIds u2.stack.ids = u2.stack.ids := by
    rw [hids2, show [0, 1, 3, 4, u.heap.length] = [0, 1, 3, 4] ++ [u.heap.length] from rfl,
      normIds_snoc_fresh (by omega) (by omega) (hnot4 _ h5), hnorm4]
  have hnew2 : u2.heap.length ∉ u2.stack.ids := by
    rw [hids2, hlen2]
    intro hc
    simp only [List.mem_cons, List.not_mem_nil, or_false] at hc
    omega
  have hids4 : u4.stack.ids = [0, 1, 3, 4, u.heap.length, u.heap.length + 1] := by
    show (u2.stack.withNewScope u2.heap false true u2.heap.length).ids = _
    rw [withNewScope_idsU u2.stack u2.heap false true u2.heap.length hnorm5
      hcls2 (by rw [a1.old delayedId (by unfold delayedId; omega)]; exact hs.delayed)
      hnew2 (by rw [hlen2]; omega) (by rw [hlen2]; omega), hids2, hlen2]
    rfl
  have g4 : GU u.heap.length A u u4 := (a1.push _ rfl rfl).congr rfl rfl rfl rfl rfl rfl rfl
  have htop4 : u4.stack.top = u.heap.length + 1 := by unfold StackRef.top; rw [hids4]; rfl
  have hlen4 : u4.heap.length = u.heap.length + 2 := by show (u2.heap ++ [_]).length = _; simp [hlen2]
  have e2 : runOpsU u2 [.enterFunc, .pushScope false false true, .storeIfNotInClass name] = storeU u4 name .none := by
    have : u4.inClass = 0 := by
      show u2.inClass = 0
      rw [a1.inClassEq]; exact hs.inClass
    show stepU u4 (.storeIfNotInClass name) = _
    simp [stepU, this]
  rw [e2]
  obtain ⟨s1, s2⟩ := g4.store name hn hnA (by rw [htop4]; omega) (by rw [htop4, hlen4]; omega)
  refine ⟨s2, ?_, ?_, ?_, ?_, ?_⟩ <;> rw [s1]
  · exact hids4
  · refine ⟨u2.stack, hids2, ?_⟩
    show u2.stack :: u2.saved = _
    rw [a3]
  · show u2.inFunc :: u2.savedFunc = _
    rw [a4, a5]
    show u.inFunc :: u.savedFunc = _
    rw [h.inFunc]
  · simp [Heap.length_update, hlen4]

theorem collectUnused_plain (u : UState) : ∀ (items : List (Str × Val)), (∀ kv ∈ items, kv.2 = Val.none) →
    collectUnused u items = u
  | [], _ => rfl
  | kv :: r, h => by
    have h1 : kv.2 = Val.none := h kv (List.mem_cons_self ..)
    have : collectUnused u (kv :: r) = collectUnused u r := by
      simp only [collectUnused, List.foldl_cons, h1]
    rw [this]
    exact collectUnused_plain u r (fun x hx => h x (List.mem_cons_of_mem _ hx))

/-- leaving the definition: both scopes hold no checker, nothing is reported -/
theorem def_suffixU {n0 : Nat} {A : List Str} {u0 u : UState} (h : InDef n0 A u0 u) :
    runOpsU u [.popScope, .exitFunc, .popScope] =
      { u with stack := u0.stack, saved := u0.saved, inFunc := false, savedFunc := u0.savedFunc } := by
  obtain ⟨S, hS, hsaved⟩ := h.saved
  have hlenB := h.lenB
  have c1 : collectUnused u (u.heap.get u.stack.top).items = u :=
    collectUnused_plain u _ (h.grow.freshItems _ (by rw [h.top]; omega))
  have e1 : stepU u .popScope = { u with stack := S, saved := u0.stack :: u0.saved } := by
    simp only [stepU, c1, hsaved]
  have e2 : stepU { u with stack := S, saved := u0.stack :: u0.saved } .exitFunc =
      { u with stack := S, saved := u0.stack :: u0.saved, inFunc := false, savedFunc := u0.savedFunc } := by
    simp only [stepU, h.savedFunc]
  let u2 : UState := { u with stack := S, saved := u0.stack :: u0.saved, inFunc := false, savedFunc := u0.savedFunc }
  have htop2 : u2.stack.top = n0 := by
    show S.top = n0
    unfold StackRef.top; rw [hS]; rfl
  have c2 : collectUnused u2 (u2.heap.get u2.stack.top).items = u2 :=
    collectUnused_plain u2 _ (by
      show ∀ kv ∈ (u.heap.get u2.stack.top).items, _
      rw [htop2]; exact h.grow.freshItems _ (Nat.le_refl _))
  have e3 : stepU u2 .popScope = { u2 with stack := u0.stack, saved := u0.saved } := by
    simp only [stepU, c2]
    rfl
  show stepU (stepU (stepU u .popScope) .exitFunc) .popScope = _
  rw [e1, e2, e3]

/-- the analysis of `def name(params): body` at module level, unused-import mode: up to the final store of the name -/
theorem defU (fx : Fixes) (D : Bool) {u : UState} {seen : List Nat} (h : UInv u seen) (hs : UShape u) (hv : ValidU u) (ln : Nat)
    (name : Str) (ps : List Param) (body : List Stmt)
    (hn : simpleName name = true) (hps : ps.all simpleParam = true) (hb : body.all (fbodyStmt D) = true) :
    ∃ u3, GU u.heap.length (paramNames ps ++ boundStmts body ++ [name]) u u3 ∧ u3.stack = u.stack ∧ u3.inFunc = false ∧
      (∀ d ∈ bodyLoads body, CovU u.heap.length u3 d) ∧
      runOpsU u (cStmt fx ln (.funcDef name (.mk ps [] none [] [] none) body [] none)) = storeU u3 name .none := by
  have hpre := def_prefixU fx h hs ln name ps hn hps (paramNames ps ++ boundStmts body ++ [name])
    (fun x hx => List.mem_append_left _ (List.mem_append_left _ hx)) (List.mem_append_right _ (List.mem_singleton.mpr rfl))
  obtain ⟨b1, _, b3⟩ := bodyFU fx D hv h.len body ln _ hb
    (fun x hx => List.mem_append_left _ (List.mem_append_right _ hx)) hpre
  have hsuf := def_suffixU b1
  refine ⟨{ runOpsU (runOpsU u ([.pushScope true false false, .dunderClass] ++ cDecos fx ln [] ++ [.setLine ln] ++
        cArgs fx (.mk ps [] none [] [] none) ++ cRet fx none ++
        [.enterFunc, .pushScope false false true, .storeIfNotInClass name])) (cStmts fx ln body) with
      stack := u.stack, saved := u.saved, inFunc := false, savedFunc := u.savedFunc }, ?_, rfl, rfl, ?_, ?_⟩
  · exact b1.grow.congr rfl rfl rfl rfl rfl rfl rfl
  · intro d hd
    obtain ⟨c, h1, h2, h3⟩ := b3 d hd
    exact ⟨c, h1, h2, h3⟩
  · simp only [cStmt]
    rw [runOpsU_append, runOpsU_append]
    show runOpsU (runOpsU _ [.popScope, .exitFunc, .popScope]) [.store name] = _
    rw [hsuf]
    rfl

/-! ### the module-level invariants survive a definition -/

theorem GU.markRel {n0 : Nat} {A : List Str} {u0 u : UState} (h : GU n0 A u0 u) : MarkRel u0.checkers u.checkers := ⟨h.clen, h.each⟩

theorem GU.get {n0 : Nat} {A : List Str} {u0 u : UState} (h : GU n0 A u0 u) {k : Nat} {c' : Checker}
    (hc : u.checkers[k]? = Option.some c') :
    ∃ c, u0.checkers[k]? = Option.some c ∧ c.bind = c'.bind ∧ c.line = c'.line ∧ c.idx = c'.idx ∧ (c.used = true → c'.used = true) ∧
      c.anon = c'.anon ∧ c.shadowed = c'.shadowed := h.markRel.get hc

theorem GU.persist {n0 : Nat} {A : List Str} {u0 u : UState} (h : GU n0 A u0 u) : UsedPersist u0 u := by
  refine ⟨fun k c hc hu => ?_, fun k hk => .inl (by rw [← h.unusedEq]; exact hk)⟩
  rcases h.each k c hc with h1 | h1
  · exact ⟨c, h1, hu, rfl, rfl, rfl⟩
  · exact ⟨_, h1, rfl, rfl, rfl, rfl⟩

theorem UInv.grow {u u3 : UState} {seen : List Nat} {A : List Str} (h : UInv u seen) (g : GU u.heap.length A u u3)
    (hst : u3.stack = u.stack) (hif : u3.inFunc = false) : UInv u3 seen := by
  have h5 := h.len
  have hts : topScope u3 = topScope u := by unfold topScope; exact g.old 4 (by omega)
  have hcell : ∀ i key k, (u3.heap.get i).get key = some (.obj k) → (u.heap.get i).get key = some (.obj k) := by
    intro i key k hk
    by_cases hi : i < u.heap.length
    · rw [g.old i hi] at hk; exact hk
    · have := (g.fresh i (by omega) key _ hk).2.2; cases this
  have hex : ∀ (j : Nat) (d : Checker), u.checkers[j]? = some d → ∃ d', u3.checkers[j]? = some d' ∧ d'.anon = d.anon := by
    intro j d hd
    rcases g.each j d hd with h1 | h1
    · exact ⟨d, h1, rfl⟩
    · exact ⟨_, h1, rfl⟩
  refine ⟨by rw [hst]; exact h.stack, Nat.le_trans h5 g.len, hif, by rw [hts]; exact h.simpleKeys, ?_, ?_, ?_, ?_, ?_, ?_⟩
  · intro k hk
    rw [g.unusedEq] at hk
    obtain ⟨⟨c, hc, hca⟩, hr⟩ := h.unusedOK k hk
    obtain ⟨c', hc', ha'⟩ := hex k c hc
    exact ⟨⟨c', hc', by rw [ha']; exact hca⟩, fun i key hcon => hr i key (hcell i key k hcon)⟩
  · intro k c hc j hj
    obtain ⟨d, hd, _, _, _, _, _, hsh⟩ := g.get hc
    rw [← hsh] at hj
    obtain ⟨⟨e, he, hea⟩, hr⟩ := h.shOK k d hd j hj
    obtain ⟨e', he', ha'⟩ := hex j e he
    exact ⟨⟨e', he', by rw [ha']; exact hea⟩, fun i key hcon => hr i key (hcell i key j hcon)⟩
  · intro k k' c c' hc hc' ha ha' hid
    obtain ⟨d, hd, _, hl, hi, _, hda, _⟩ := g.get hc
    obtain ⟨d', hd', _, hl', hi', _, hda', _⟩ := g.get hc'
    exact h.uniq k k' d d' hd hd' (by rw [hda]; exact ha) (by rw [hda']; exact ha') (by rw [hl, hi, hl', hi']; exact hid)
  · intro k c hc ha
    obtain ⟨d, hd, _, hl, _, _, hda, _⟩ := g.get hc
    rw [← hl]; exact h.seenLines k d hd (by rw [hda]; exact ha)
  · intro i key k hk
    rw [g.clen]; exact h.valid i key k (hcell i key k hk)
  · intro key k c hk hc
    rw [hts] at hk
    obtain ⟨d, hd, hb, _, _, _, hda, _⟩ := g.get hc
    rw [← hb, ← hda]; exact h.bindKey key k d hk hd

theorem UShape.grow {u u3 : UState} {A : List Str} (hs : UShape u) (h5 : 5 ≤ u.heap.length) (g : GU u.heap.length A u u3) : UShape u3 := by
  refine ⟨by rw [g.old delayedId (by unfold delayedId; omega)]; exact hs.delayed, fun i hi => ?_, g.inClassEq.trans hs.inClass⟩
  have hi' := hi
  simp only [List.mem_cons, List.not_mem_nil, or_false] at hi'
  rw [g.old i (by omega)]; exact hs.noClass i hi

theorem UInv.validU {u : UState} {seen : List Nat} (h : UInv u seen) : ValidU u := fun i key k hk => (h.valid i key k hk).1

/-- `OLink` (origins ↦ checkers of the private scope) is kept by the definition -/
theorem OLink.grow {o : List (Str × Nat × Nat)} {u u3 : UState} {A : List Str} (ho : OLink o u) (h5 : 5 ≤ u.heap.length)
    (g : GU u.heap.length A u u3) : OLink o u3 := by
  intro n x hx
  obtain ⟨k, c, hk, hc, hid, ha⟩ := ho n x hx
  have hts : topScope u3 = topScope u := by unfold topScope; exact g.old 4 (by omega)
  rcases g.each k c hc with h1 | h1
  · exact ⟨k, c, by rw [hts]; exact hk, h1, hid, ha⟩
  · exact ⟨k, _, by rw [hts]; exact hk, h1, hid, ha⟩

/-- a simple store at module level keeps the shape -/
theorem UShape.store {u : UState} {seen : List Nat} (hs : UShape u) (h : UInv u seen) {x : Str} (hx : simpleName x = true) (v : Val) :
    UShape (storeU u x v) := by
  have htop : u.stack.top = 4 := by unfold StackRef.top; rw [h.stack]; rfl
  obtain ⟨v', cs', un', heq, _⟩ := storeU_shape u x hx v htop
  rw [heq]
  refine ⟨?_, fun i hi => ?_, hs.inClass⟩
  · show ((u.heap.update 4 (·.set x v')).get delayedId).items = []
    rw [Heap.get_update, if_neg (by unfold delayedId; omega)]; exact hs.delayed
  · show ((u.heap.update 4 (·.set x v')).get i).isClass = false
    rw [Heap.get_update]
    split
    · rename_i hc; rw [scope_set_isClass]; exact hs.noClass 4 (by simp)
    · exact hs.noClass i hi

/-! ### module-level steps of fragment B, as seen by finished definitions -/

structure ModStepU (P : Str → Prop) (u u' : UState) : Prop where
  stack : u'.stack = u.stack
  inFunc : u'.inFunc = u.inFunc
  inClass : u'.inClass = u.inClass
  len : u'.heap.length = u.heap.length
  old : ∀ i, i ≠ 4 → u'.heap.get i = u.heap.get i
  cls4 : (u'.heap.get 4).isClass = (u.heap.get 4).isClass
  ents : ∀ x, (x ∈ u.deferred ∨ x ∈ u.useMarks) → (x ∈ u'.deferred ∨ x ∈ u'.useMarks)
  /-- keys of the private scope that are bound to checkers: old ones, or new ones satisfying `P` -/
  keys4 : ∀ key k, (u'.heap.get 4).get key = some (.obj k) → (∃ k', (u.heap.get 4).get key = some (.obj k')) ∨ P key

theorem ModStepU.refl (P : Str → Prop) (u : UState) : ModStepU P u u :=
  ⟨rfl, rfl, rfl, rfl, fun _ _ => rfl, rfl, fun _ h => h, fun _ k h => .inl ⟨k, h⟩⟩

theorem ModStepU.trans {P : Str → Prop} {a b c : UState} (h1 : ModStepU P a b) (h2 : ModStepU P b c) : ModStepU P a c :=
  ⟨h2.stack.trans h1.stack, h2.inFunc.trans h1.inFunc, h2.inClass.trans h1.inClass, h2.len.trans h1.len,
   fun i hi => (h2.old i hi).trans (h1.old i hi), h2.cls4.trans h1.cls4, fun x hx => h2.ents x (h1.ents x hx),
   fun key k hk => by
     rcases h2.keys4 key k hk with ⟨k', hk'⟩ | hp
     · exact h1.keys4 key k' hk'
     · exact .inr hp⟩

theorem sniU_inClass (u : UState) (ids : List Nat) (d : Str) :
    (sniU u ids d).2.inClass = u.inClass ∧ (sniU u ids d).2.allMark = u.allMark ∧ (sniU u ids d).2.unused = u.unused := by
  rcases sniU_weak u ids d with he | ⟨i, key, k, _, he⟩ <;> rw [he] <;> exact ⟨rfl, rfl, rfl⟩

theorem modStepU_sniU (P : Str → Prop) (u : UState) (ids : List Nat) (d : Str) : ModStepU P u (sniU u ids d).2 := by
  obtain ⟨f1, f2, _, f4, _, f6, f7, _⟩ := sniU_fields u ids d
  exact ⟨f2, f4, (sniU_inClass u ids d).1, by rw [f1], fun _ _ => by rw [f1], by rw [f1], by rw [f6, f7]; exact fun _ h => h,
    fun key k hk => .inl ⟨k, by rw [f1] at hk; exact hk⟩⟩

theorem modStepU_loads (P : Str → Prop) : ∀ (L : List Str) (u : UState), u.inFunc = false →
    ModStepU P u (runOpsU u (L.map Op.load))
  | [], u, _ => ModStepU.refl P u
  | d :: L, u, hf => by
    have hstep : runOpsU u ((d :: L).map Op.load) = runOpsU (sniU u u.stack.ids d).2 (L.map Op.load) := by
      simp [runOpsU, stepU, hf]
    rw [hstep]
    have h1 := modStepU_sniU P u u.stack.ids d
    exact h1.trans (modStepU_loads P L _ (by rw [h1.inFunc]; exact hf))

/-- `_visit_Store` of a simple key while the top scope is cell 4 -/
theorem modStepU_store (P : Str → Prop) (u : UState) (x : Str) (hx : simpleName x = true) (v : Val) (htop : u.stack.top = 4)
    (hv : ∀ k, v = .obj k → P x) : ModStepU P u (storeU u x v) := by
  obtain ⟨v', cs', un', heq, hv'⟩ := storeU_shape u x hx v htop
  rw [heq]
  refine ⟨rfl, rfl, rfl, by simp [Heap.length_update], fun i hi => ?_, ?_, fun _ h => h, fun key k hk => ?_⟩
  · show (u.heap.update 4 (·.set x v')).get i = _
    rw [Heap.get_update, if_neg (fun hc => hi hc.1)]
  · show ((u.heap.update 4 (·.set x v')).get 4).isClass = _
    rw [Heap.get_update]
    split
    · rfl
    · rfl
  · change ((u.heap.update 4 (·.set x v')).get 4).get key = some (.obj k) at hk
    rw [Heap.get_update] at hk
    split at hk
    · by_cases hkx : key = x
      · subst hkx
        rw [scope_get_set_eq] at hk
        rcases hv' with hv' | ⟨_, _, k', _, hold⟩
        · exact .inr (hv k (by rw [← hv']; cases hk; rfl))
        · exact .inl ⟨k', hold⟩
      · rw [scope_get_set_ne _ hkx] at hk; exact .inl ⟨k, hk⟩
    · exact .inl ⟨k, hk⟩

theorem modStepU_allNames (P : Str → Prop) (names : List Str) : ∀ (u : UState), u.inFunc = false →
    ModStepU P u (runOpsU u [.allNames names]) := by
  intro u hf
  have hrun : runOpsU u [.allNames names] = names.foldl (fun st n =>
      let r := sniU st st.stack.ids n
      if r.1 then { r.2 with deferred := r.2.deferred ++ [(n, r.2.stack.ids)] }
      else if r.2.allMark then { r.2 with useMarks := r.2.useMarks ++ [(n, r.2.stack.ids)] } else r.2) u := by
    simp [runOpsU, stepU, hf]
  rw [hrun]
  clear hrun hf
  induction names generalizing u with
  | nil => exact ModStepU.refl P u
  | cons n r ih =>
    simp only [List.foldl_cons]
    have m1 := modStepU_sniU P u u.stack.ids n
    refine ModStepU.trans ?_ (ih _)
    split
    · exact ⟨m1.stack, m1.inFunc, m1.inClass, m1.len, m1.old, m1.cls4, fun x hx => (m1.ents x hx).imp (fun h => List.mem_append_left _ h) id, m1.keys4⟩
    · split
      · exact ⟨m1.stack, m1.inFunc, m1.inClass, m1.len, m1.old, m1.cls4, fun x hx => (m1.ents x hx).imp id (fun h => List.mem_append_left _ h), m1.keys4⟩
      · exact m1

theorem modStepU_alias (P : Str → Prop) (u : UState) (b : Str) (hb : simpleName b = true) (idx : Nat) (htop : u.stack.top = 4)
    (hP : P b) : ModStepU P u (stepU u (.importAlias [b] b idx false)) := by
  let u1 : UState := { u with checkers := u.checkers ++ [{ bind := b, line := u.line, idx := idx }] }
  have h1 : ModStepU P u u1 := ⟨rfl, rfl, rfl, rfl, fun _ _ => rfl, rfl, fun _ h => h, fun _ k h => .inl ⟨k, h⟩⟩
  have h2 := modStepU_store P u1 b hb (.obj u.checkers.length) htop (fun _ _ => hP)
  have h12 := h1.trans h2
  exact ⟨h12.stack, h12.inFunc, h12.inClass, h12.len, h12.old, h12.cls4, h12.ents, h12.keys4⟩

theorem modStepU_aliases (P : Str → Prop) (m : Option Str) : ∀ (names : List Alias) (idx : Nat) (u : UState), u.stack.top = 4 →
    (∀ a ∈ names, ∀ i, cAlias m i a = .importAlias [aliasBinds a] (aliasBinds a) i false ∧ simpleName (aliasBinds a) = true) →
    (∀ a ∈ names, P (aliasBinds a)) →
    ModStepU P u (runOpsU u (cAliases m idx names))
  | [], _, u, _, _, _ => ModStepU.refl P u
  | a :: r, idx, u, htop, hal, hP => by
    obtain ⟨hca, hsn⟩ := hal a (List.mem_cons_self ..) idx
    have hrun : runOpsU u (cAliases m idx (a :: r)) =
        runOpsU (stepU u (.importAlias [aliasBinds a] (aliasBinds a) idx false)) (cAliases m (idx + 1) r) := by
      simp only [cAliases, hca]; rfl
    rw [hrun]
    have h1 := modStepU_alias P u (aliasBinds a) hsn idx htop (hP a (List.mem_cons_self ..))
    exact h1.trans (modStepU_aliases P m r (idx + 1) _ (by rw [h1.stack]; exact htop) (fun b hb => hal b (List.mem_cons_of_mem _ hb))
      (fun b hb => hP b (List.mem_cons_of_mem _ hb)))

theorem uinv_top {u : UState} {seen : List Nat} (h : UInv u seen) : u.stack.top = 4 := by
  unfold StackRef.top; rw [h.stack]; rfl

/-- the names bound by the import aliases of a statement -/
def stmtBinds : Stmt → List Str
  | .import_ names => names.map aliasBinds
  | .importFrom _ names => names.map aliasBinds
  | .located _ s => stmtBinds s
  | _ => []

/-- a non-`located` module-level statement of fragment B (simple imports) -/
theorem modStepU_core (P : Str → Prop) (fx : Fixes) (D : Bool) {seen : List Nat} (stmt : Stmt) (ln : Nat) (u : UState)
    (hfr : fragBStmt D stmt = true) (hsi : simpleImportStmt stmt = true) (hnl : ∀ l s', stmt ≠ .located l s')
    (hP : ∀ b ∈ stmtBinds stmt, P b)
    (h : UInv u seen) : ModStepU P u (runOpsU u (cStmt fx ln stmt)) := by
  cases stmt with
  | expr e =>
    have hfe : fragBExpr D e = true := by simpa [fragBStmt] using hfr
    simp only [cStmt, cExprU_loads fx D e hfe]
    exact modStepU_loads P _ u h.inFunc
  | assign ts e =>
    simp only [fragBStmt, Bool.and_eq_true] at hfr
    cases hsn : singleName ts with
    | none => rw [hsn] at hfr; simp at hfr
    | some x =>
      have hts := singleName_eq hsn; subst hts
      rw [hsn] at hfr
      have hops : runOpsU u (cStmt fx ln (.assign [.name x] e)) =
          runOpsU (storeU (runOpsU u ((loadsOf e).map Op.load)) x .none) (cAll [Expr.name x] e) := by
        simp only [cStmt, cTargets, cTarget, List.append_nil, runOpsU_append, cExprU_loads fx D e hfr.2]; rfl
      rw [hops]
      have m1 := modStepU_loads P (loadsOf e) u h.inFunc
      have m2 := modStepU_store P (runOpsU u ((loadsOf e).map Op.load)) x hfr.1 .none (by rw [m1.stack]; exact uinv_top h)
        (fun k hk => by cases hk)
      rcases cAll_ops x e with h0 | ⟨ns, h0⟩
      · rw [h0]; exact m1.trans m2
      · rw [h0]
        exact (m1.trans m2).trans (modStepU_allNames P ns _ (by rw [m2.inFunc, m1.inFunc]; exact h.inFunc))
  | pass => exact ModStepU.refl P u
  | import_ names =>
    have hal : ∀ a ∈ names, ∀ i, cAlias none i a = .importAlias [aliasBinds a] (aliasBinds a) i false ∧ simpleName (aliasBinds a) = true := by
      intro a ha i
      simp only [fragBStmt, List.all_eq_true] at hfr
      simp only [simpleImportStmt, List.all_eq_true] at hsi
      exact cAlias_simple_import i (hfr a ha) (hsi a ha)
    exact modStepU_aliases P none names 0 u (uinv_top h) hal (fun a ha => hP _ (List.mem_map.mpr ⟨a, ha, rfl⟩))
  | importFrom mname names =>
    have hm : mname ≠ "__future__".toList := by simpa [simpleImportStmt] using hsi
    have hal : ∀ a ∈ names, ∀ i, cAlias (some mname) i a = .importAlias [aliasBinds a] (aliasBinds a) i false ∧ simpleName (aliasBinds a) = true := by
      intro a ha i
      simp only [fragBStmt, List.all_eq_true] at hfr
      exact cAlias_simple_from i (hfr a ha) hm
    exact modStepU_aliases P (some mname) names 0 u (uinv_top h) hal (fun a ha => hP _ (List.mem_map.mpr ⟨a, ha, rfl⟩))
  | located l s' => exact absurd rfl (hnl l s')
  | augAssign _ _ => simp [fragBStmt] at hfr
  | annAssign _ _ _ => simp [fragBStmt] at hfr
  | funcDef _ _ _ _ _ => simp [fragBStmt] at hfr
  | classDef _ _ _ _ => simp [fragBStmt] at hfr
  | for_ _ _ _ _ => simp [fragBStmt] at hfr
  | while_ _ _ _ => simp [fragBStmt] at hfr
  | if_ _ _ _ => simp [fragBStmt] at hfr
  | with_ _ _ => simp [fragBStmt] at hfr
  | try_ _ _ _ _ => simp [fragBStmt] at hfr
  | return_ _ => simp [fragBStmt] at hfr
  | raise_ _ => simp [fragBStmt] at hfr
  | delete _ => simp [fragBStmt] at hfr
  | global_ _ => simp [fragBStmt] at hfr
  | nonlocal_ _ => simp [fragBStmt] at hfr

theorem UShape.modStep {P : Str → Prop} {u u' : UState} (hs : UShape u) (m : ModStepU P u u') : UShape u' := by
  refine ⟨by rw [m.old delayedId (by unfold delayedId; omega)]; exact hs.delayed, fun i hi => ?_, m.inClass.trans hs.inClass⟩
  by_cases h4 : i = 4
  · subst h4; rw [m.cls4]; exact hs.noClass 4 hi
  · rw [m.old i h4]; exact hs.noClass i hi

/-! ### frozen entries of finished definitions -/

/-- the scopes of a deferred entry of a finished body, innermost first: the clone `c` of the body scope, the argument
    scope `a`, then the module-level stack; `a` and `c` hold identifiers of `A` bound to `None` -/
def FrozenU (u : UState) (A : List Str) (ids : List Nat) : Prop :=
  ∃ a c, (normIds ids).reverse = [c, a, 4, 3, 1, 0] ∧ 5 ≤ a ∧ 5 ≤ c ∧ a < u.heap.length ∧ c < u.heap.length ∧
    (∀ k v, (u.heap.get a).get k = some v → k ∈ A ∧ simpleName k = true ∧ v = Val.none) ∧
    (∀ k v, (u.heap.get c).get k = some v → k ∈ A ∧ simpleName k = true ∧ v = Val.none)

/-- every load of the body waits in `_deferred_load_checks` or `_deferred_use_marks` with frozen scopes -/
def FunCovU (u : UState) (pn : List Str) (body : List Stmt) (fname : Str) : Prop :=
  ∀ d ∈ bodyLoads body, ∃ ids, ((d, ids) ∈ u.deferred ∨ (d, ids) ∈ u.useMarks) ∧
    FrozenU u (pn ++ boundStmts body ++ [fname]) ids

theorem FrozenU.modStep {P : Str → Prop} {u u' : UState} {A : List Str} {ids : List Nat} (h : FrozenU u A ids) (m : ModStepU P u u') :
    FrozenU u' A ids := by
  obtain ⟨a, c, h1, h2, h3, h4, h5, h6, h7⟩ := h
  refine ⟨a, c, h1, h2, h3, by rw [m.len]; exact h4, by rw [m.len]; exact h5, ?_, ?_⟩
  · rw [m.old a (by omega)]; exact h6
  · rw [m.old c (by omega)]; exact h7

theorem FunCovU.modStep {P : Str → Prop} {u u' : UState} {pn : List Str} {body : List Stmt} {fname : Str}
    (h : FunCovU u pn body fname) (m : ModStepU P u u') : FunCovU u' pn body fname := by
  intro d hd
  obtain ⟨ids, he, hf⟩ := h d hd
  exact ⟨ids, m.ents _ he, hf.modStep m⟩

/-- a definition is a step of the same kind for the entries of earlier definitions -/
theorem FrozenU.grow {u u3 : UState} {A B : List Str} {ids : List Nat} (h : FrozenU u A ids) (g : GU u.heap.length B u u3) :
    FrozenU u3 A ids := by
  obtain ⟨a, c, h1, h2, h3, h4, h5, h6, h7⟩ := h
  refine ⟨a, c, h1, h2, h3, Nat.lt_of_lt_of_le h4 g.len, Nat.lt_of_lt_of_le h5 g.len, ?_, ?_⟩
  · rw [g.old a h4]; exact h6
  · rw [g.old c h5]; exact h7

theorem FunCovU.grow {u u3 : UState} {B : List Str} {pn : List Str} {body : List Stmt} {fname : Str}
    (h : FunCovU u pn body fname) (g : GU u.heap.length B u u3) : FunCovU u3 pn body fname := by
  intro d hd
  obtain ⟨ids, he, hf⟩ := h d hd
  exact ⟨ids, g.ents _ he, hf.grow g⟩

theorem normIds_six {a c : Nat} (ha : 5 ≤ a) (hc : a < c) :
    (normIds (normIds ([0, 1, 3, 4, a] ++ [c]))).reverse = [c, a, 4, 3, 1, 0] := by
  have hnorm4 : normIds [0, 1, 3, 4] = [0, 1, 3, 4] := by decide
  have h5 : normIds [0, 1, 3, 4, a] = [0, 1, 3, 4, a] := by
    rw [show [0, 1, 3, 4, a] = [0, 1, 3, 4] ++ [a] from rfl, normIds_snoc_fresh (by omega) (by omega) (by simp; omega), hnorm4]
  rw [normIds_idem, normIds_snoc_fresh (by omega) (by omega) (by simp; omega), h5]
  rfl

/-- the entries made by the body of the definition that has just been analysed are frozen -/
theorem covU_frozen {u u3 : UState} {A : List Str} (h5 : 5 ≤ u.heap.length) (g : GU u.heap.length A u u3) {d : Str}
    (hc : CovU u.heap.length u3 d) :
    ∃ ids, ((d, ids) ∈ u3.deferred ∨ (d, ids) ∈ u3.useMarks) ∧ FrozenU u3 A ids := by
  obtain ⟨c, h1, h2, h3⟩ := hc
  refine ⟨_, h3, u.heap.length, c, normIds_six h5 (by omega), h5, by omega, by have := g.len; omega, h2, ?_, ?_⟩
  · exact g.fresh _ (Nat.le_refl _)
  · exact g.fresh c (by omega)

/-! ### module level: reference run and unused-import analysis in lock step (fragment C) -/

/-- names bound to checkers in the private scope are not names of functions defined by the program -/
def ObjKeys (DN : List Str) (u : UState) : Prop := ∀ key k, (topScope u).get key = some (.obj k) → key ∉ DN

structure BaseUC (D : Bool) (DN : List Str) (s : XState) (u : UState) (seen : List Nat) : Prop where
  uinv : UInv u seen
  shape : UShape u
  okeys : KeysNodup s.origins
  origin : OLink s.origins u
  objKeys : ObjKeys DN u
  funs : FunsShape D s
  cov : ∀ ps body, defClosure ps body ∈ s.funcs → ∃ fname ∈ DN, FunCovU u (paramNames ps) body fname

theorem modStepU_setLine (P : Str → Prop) (u : UState) (l : Nat) : ModStepU P u { u with line := l } :=
  ⟨rfl, rfl, rfl, rfl, fun _ _ => rfl, rfl, fun _ h => h, fun _ k h => .inl ⟨k, h⟩⟩

theorem ObjKeys.modStep {DN : List Str} {u u' : UState} (h : ObjKeys DN u) (m : ModStepU (· ∉ DN) u u') : ObjKeys DN u' := by
  intro key k hk
  rcases m.keys4 key k hk with ⟨k', hk'⟩ | hp
  · exact h key k' hk'
  · exact hp

theorem execDef_used (f : Nat) (s : XState) (name : Str) (ps : List Param) (body : List Stmt) (hps : ps.all simpleParam = true) :
    (execStmt f {} (.funcDef name (.mk ps [] none [] [] none) body [] none) s).1.usedImps = s.usedImps := by
  have hann := annotExprs_simple ps hps
  match f with
  | 0 => simp [execStmt, X.throw]
  | 1 => simp [execStmt, evalExprs, X.bind_def, X.throw]
  | 2 => simp [execStmt, evalExprs, mkClosure, X.bind_def, X.throw, X.pure_def]
  | f + 3 =>
    simp [execStmt, evalExprs, mkClosure, evalOptExprs, applyDecos, X.bind_def, X.pure_def, addFunc, bindName, X.modify,
      hann, annotExprs, zipOpt]

theorem located_exec (f l : Nat) (core : Stmt) (s : XState) :
    execStmt (f + 1) {} (.located l core) s = execStmt f {} core { s with line := l } := by
  simp only [execStmt, X.bind_def, X.modify]

/-- `located l core` with `core` a statement of fragment B -/
theorem locUC_B (fx : Fixes) (D : Bool) (DN : List Str) {seen : List Nat} (l : Nat) (core : Stmt) (f ln : Nat) (s : XState) (u : UState)
    (hfc : fragBStmt D core = true) (hsc : simpleImportStmt core = true) (hnl : ∀ l' s', core ≠ .located l' s')
    (hlc : isImportStmt core = true → seen.contains l = false) (hP : ∀ b ∈ stmtBinds core, b ∉ DN)
    (hb : BaseUC D DN s u seen) (hu : UsedLink s u) :
    UInv (runOpsU u (cStmt fx ln (.located l core))) (if isImportStmt core then l :: seen else seen) ∧
    UShape (runOpsU u (cStmt fx ln (.located l core))) ∧
    UsedPersist u (runOpsU u (cStmt fx ln (.located l core))) ∧
    ObjKeys DN (runOpsU u (cStmt fx ln (.located l core))) ∧
    UsedLink (execStmt f {} (.located l core) s).1 (runOpsU u (cStmt fx ln (.located l core))) ∧
    (∀ fl, (execStmt f {} (.located l core) s).2 = .ok fl → fl = Flow.normal ∧
      BaseUC D DN (execStmt f {} (.located l core) s).1 (runOpsU u (cStmt fx ln (.located l core)))
        (if isImportStmt core then l :: seen else seen)) := by
  have hops : runOpsU u (cStmt fx ln (.located l core)) = runOpsU { u with line := l } (cStmt fx l core) := rfl
  rw [hops]
  have hcu : CorrU s { u with line := s.line } := ⟨hb.okeys, hb.origin, rfl, hu⟩
  have hui : UInv { u with line := s.line } seen := hb.uinv.setLine _
  have p0 : UsedPersist u { u with line := l } := UsedPersist.ofEq rfl rfl
  have m0 := modStepU_setLine (· ∉ DN) u l
  have m1 := modStepU_core (· ∉ DN) fx D core l { u with line := l } hfc hsc hnl hP (hb.uinv.setLine l)
  have m01 := m0.trans m1
  cases f with
  | zero =>
    obtain ⟨a1, a2, _, _, _⟩ := locatedU fx D l core 0 ln s { u with line := s.line } hfc hsc hnl hlc hui hcu
    have hex : execStmt 0 {} (.located l core) s = (s, .error .fuel) := by rw [execStmt]; rfl
    rw [hex]
    exact ⟨a1, hb.shape.modStep m01, p0.trans a2, hb.objKeys.modStep m01, UsedLink.persist hu (p0.trans a2),
      fun fl hfl => by cases hfl⟩
  | succ f =>
    obtain ⟨a1, a2, _, a4, a5⟩ := locatedU fx D l core f ln s { u with line := s.line } hfc hsc hnl hlc hui hcu
    rw [located_exec]
    refine ⟨a1, hb.shape.modStep m01, p0.trans a2, hb.objKeys.modStep m01, a4, fun fl hfl => ?_⟩
    obtain ⟨hfl1, hc1⟩ := a5 fl hfl
    have hfn := funcs_stmtB D core f { s with line := l } hfc fl hfl
    refine ⟨hfl1, a1, hb.shape.modStep m01, hc1.okeys, hc1.origin, hb.objKeys.modStep m01, ?_, ?_⟩
    · intro c hc; rw [hfn] at hc; exact hb.funs c hc
    · intro ps body hc
      rw [hfn] at hc
      obtain ⟨fname, hfd, hcv⟩ := hb.cov ps body hc
      exact ⟨fname, hfd, hcv.modStep m01⟩

/-- `located l (def name(params): body)` -/
theorem locUC_def (fx : Fixes) (D : Bool) (DN : List Str) {seen : List Nat} (l : Nat) (name : Str) (ps : List Param)
    (body : List Stmt) (f ln : Nat) (s : XState) (u : UState)
    (hn : simpleName name = true) (hps : ps.all simpleParam = true) (hbd : body.all (fbodyStmt D) = true) (hname : name ∈ DN)
    (hb : BaseUC D DN s u seen) (hu : UsedLink s u) :
    UInv (runOpsU u (cStmt fx ln (.located l (.funcDef name (.mk ps [] none [] [] none) body [] none)))) seen ∧
    UShape (runOpsU u (cStmt fx ln (.located l (.funcDef name (.mk ps [] none [] [] none) body [] none)))) ∧
    UsedPersist u (runOpsU u (cStmt fx ln (.located l (.funcDef name (.mk ps [] none [] [] none) body [] none)))) ∧
    ObjKeys DN (runOpsU u (cStmt fx ln (.located l (.funcDef name (.mk ps [] none [] [] none) body [] none)))) ∧
    UsedLink (execStmt f {} (.located l (.funcDef name (.mk ps [] none [] [] none) body [] none)) s).1
      (runOpsU u (cStmt fx ln (.located l (.funcDef name (.mk ps [] none [] [] none) body [] none)))) ∧
    (∀ fl, (execStmt f {} (.located l (.funcDef name (.mk ps [] none [] [] none) body [] none)) s).2 = .ok fl → fl = Flow.normal ∧
      BaseUC D DN (execStmt f {} (.located l (.funcDef name (.mk ps [] none [] [] none) body [] none)) s).1
        (runOpsU u (cStmt fx ln (.located l (.funcDef name (.mk ps [] none [] [] none) body [] none)))) seen) := by
  have hops : runOpsU u (cStmt fx ln (.located l (.funcDef name (.mk ps [] none [] [] none) body [] none))) =
      runOpsU { u with line := l } (cStmt fx l (.funcDef name (.mk ps [] none [] [] none) body [] none)) := rfl
  rw [hops]
  have hul : UInv { u with line := l } seen := hb.uinv.setLine l
  have hsl : UShape { u with line := l } := hb.shape.modStep (modStepU_setLine (· ∉ DN) u l)
  obtain ⟨u3, g, hst, hif, hcov, heq⟩ := defU fx D hul hsl hul.validU l name ps body hn hps hbd
  rw [heq]
  have h5 : 5 ≤ ({ u with line := l } : UState).heap.length := hul.len
  have hu3 : UInv u3 seen := hul.grow g hst hif
  have hs3 : UShape u3 := hsl.grow h5 g
  have htop3 : u3.stack.top = 4 := uinv_top hu3
  have mst := modStepU_store (· ∉ DN) u3 name hn .none htop3 (fun k hk => by cases hk)
  have p0 : UsedPersist u { u with line := l } := UsedPersist.ofEq rfl rfl
  have pall : UsedPersist u (storeU u3 name .none) := (p0.trans g.persist).trans (storeU_persist hu3 hn .none)
  have hok3 : ObjKeys DN u3 := by
    intro key k hk
    have hts : topScope u3 = topScope u := by unfold topScope; exact g.old 4 (by omega)
    rw [hts] at hk
    exact hb.objKeys key k hk
  have hol3 : OLink s.origins u3 := OLink.grow (u := { u with line := l }) hb.origin h5 g
  refine ⟨uinv_store hu3 hn .none (.inl rfl), hs3.store hu3 hn .none, pall, hok3.modStep mst, ?_, ?_⟩
  · -- the run records nothing new
    cases f with
    | zero =>
      have hex : execStmt 0 {} (.located l (.funcDef name (.mk ps [] none [] [] none) body [] none)) s = (s, .error .fuel) := by
        rw [execStmt]; rfl
      rw [hex]; exact UsedLink.persist hu pall
    | succ f =>
      rw [located_exec]
      intro o ho
      rw [execDef_used f _ name ps body hps] at ho
      exact UsedLink.persist hu pall o ho
  · intro fl hfl
    cases f with
    | zero =>
      have hex : execStmt 0 {} (.located l (.funcDef name (.mk ps [] none [] [] none) body [] none)) s = (s, .error .fuel) := by
        rw [execStmt]; rfl
      rw [hex] at hfl; cases hfl
    | succ f =>
      rw [located_exec] at hfl ⊢
      obtain ⟨_, e2⟩ := execDef f { s with line := l } name ps body hps
      obtain ⟨hfl1, hst'⟩ := e2 fl hfl
      rw [hst']
      refine ⟨hfl1, uinv_store hu3 hn .none (.inl rfl), hs3.store hu3 hn .none, KeysNodup.assocDel name hb.okeys,
        olink_store_none hu3 hn hol3 hb.okeys, hok3.modStep mst, ?_, ?_⟩
      · intro c hc
        rcases List.mem_append.mp hc with hc | hc
        · exact hb.funs c hc
        · exact ⟨ps, body, by simpa using hc, hbd⟩
      · intro ps' body' hc
        rcases List.mem_append.mp hc with hc | hc
        · obtain ⟨fname, hfd, hcv⟩ := hb.cov ps' body' hc
          exact ⟨fname, hfd, (FunCovU.grow (u := { u with line := l }) hcv g).modStep mst⟩
        · obtain ⟨hp, hbb⟩ := defClosure_inj (List.mem_singleton.mp hc)
          subst hbb
          rw [hp]
          refine ⟨name, hname, fun d hd => ?_⟩
          obtain ⟨ids, he, hfz⟩ := covU_frozen h5 g (hcov d hd)
          exact ⟨ids, mst.ents _ he, hfz.modStep mst⟩

/-! ### statement lists -/

def defNameOf : Stmt → List Str
  | .funcDef n _ _ _ _ => [n]
  | .located _ s => defNameOf s
  | _ => []

/-- the names of the functions defined at module level -/
def defNames (prog : List Stmt) : List Str := prog.flatMap defNameOf

/-- no import alias binds the name of a function defined by the program -/
def namesApart (DN : List Str) (prog : List Stmt) : Bool := prog.all (fun s => (stmtBinds s).all (fun b => !DN.contains b))

def defsIn (DN : List Str) (prog : List Stmt) : Bool := prog.all (fun s => (defNameOf s).all (fun n => DN.contains n))

theorem defsIn_self (prog : List Stmt) : defsIn (defNames prog) prog = true := by
  simp only [defsIn, List.all_eq_true, List.contains_iff_mem, defNames, List.mem_flatMap]
  intro s hs n hn
  exact ⟨s, hs, hn⟩

theorem fragDef_nonloc {D : Bool} {core : Stmt} (h : fragDef D core = true) (hnl : ∀ l s', core ≠ .located l s') :
    ∃ name ps body, core = .funcDef name (.mk ps [] none [] [] none) body [] none ∧ simpleName name = true ∧
      ps.all simpleParam = true ∧ body.all (fbodyStmt D) = true := by
  cases core with
  | funcDef name a body decos ret =>
    obtain ⟨ps, rfl, rfl, rfl, h1, h2, h3⟩ := fragDef_funcDef h
    exact ⟨name, ps, body, rfl, h1, h2, h3⟩
  | located l s' => exact absurd rfl (hnl l s')
  | expr _ => simp [fragDef] at h
  | assign _ _ => simp [fragDef] at h
  | pass => simp [fragDef] at h
  | import_ _ => simp [fragDef] at h
  | importFrom _ _ => simp [fragDef] at h
  | augAssign _ _ => simp [fragDef] at h
  | annAssign _ _ _ => simp [fragDef] at h
  | classDef _ _ _ _ => simp [fragDef] at h
  | for_ _ _ _ _ => simp [fragDef] at h
  | while_ _ _ _ => simp [fragDef] at h
  | if_ _ _ _ => simp [fragDef] at h
  | with_ _ _ => simp [fragDef] at h
  | try_ _ _ _ _ => simp [fragDef] at h
  | return_ _ => simp [fragDef] at h
  | raise_ _ => simp [fragDef] at h
  | delete _ => simp [fragDef] at h
  | global_ _ => simp [fragDef] at h
  | nonlocal_ _ => simp [fragDef] at h

/-- one `located l core` statement of fragment C -/
theorem locUC (fx : Fixes) (D : Bool) (DN : List Str) {seen : List Nat} (l : Nat) (core : Stmt) (f ln : Nat) (s : XState) (u : UState)
    (hfr : fragCStmt D (.located l core) = true) (hsc : simpleImportStmt core = true) (hnl : ∀ l' s', core ≠ .located l' s')
    (hlc : isImportStmt core = true → seen.contains l = false) (hP : ∀ b ∈ stmtBinds core, b ∉ DN)
    (hdn : ∀ n ∈ defNameOf core, n ∈ DN)
    (hb : BaseUC D DN s u seen) (hu : UsedLink s u) :
    UInv (runOpsU u (cStmt fx ln (.located l core))) (if isImportStmt core then l :: seen else seen) ∧
    UShape (runOpsU u (cStmt fx ln (.located l core))) ∧
    UsedPersist u (runOpsU u (cStmt fx ln (.located l core))) ∧
    ObjKeys DN (runOpsU u (cStmt fx ln (.located l core))) ∧
    UsedLink (execStmt f {} (.located l core) s).1 (runOpsU u (cStmt fx ln (.located l core))) ∧
    (∀ fl, (execStmt f {} (.located l core) s).2 = .ok fl → fl = Flow.normal ∧
      BaseUC D DN (execStmt f {} (.located l core) s).1 (runOpsU u (cStmt fx ln (.located l core)))
        (if isImportStmt core then l :: seen else seen)) := by
  simp only [fragCStmt, fragBStmt, fragDef, Bool.or_eq_true] at hfr
  rcases hfr with hfr | hfr
  · exact locUC_B fx D DN l core f ln s u hfr hsc hnl hlc hP hb hu
  · obtain ⟨name, ps, body, rfl, h1, h2, h3⟩ := fragDef_nonloc hfr hnl
    have := locUC_def fx D DN l name ps body f ln s u h1 h2 h3 (hdn name (by simp [defNameOf])) hb hu
    simpa [isImportStmt] using this

theorem baseUC_dummy (D : Bool) (DN : List Str) {u : UState} {seen : List Nat} (h : UInv u seen) (hs : UShape u)
    (ho : ObjKeys DN u) : BaseUC D DN { line := u.line } u seen ∧ UsedLink { line := u.line } u :=
  ⟨⟨h, hs, by simp [KeysNodup], fun n o hh => by simp [assocGet] at hh, ho, fun c hc => by simp at hc,
    fun ps body hc => by simp at hc⟩, fun o hh => by simp at hh⟩

/-- the part of `linesOK`, `namesApart`, … that concerns the first statement -/
theorem head_facts {DN : List Str} {seen : List Nat} {stmt : Stmt} {ss : List Stmt}
    (hl : linesOK seen (stmt :: ss) = true) (hsi : (stmt :: ss).all simpleImportStmt = true)
    (hna : namesApart DN (stmt :: ss) = true) (hdi : defsIn DN (stmt :: ss) = true) :
    ∃ l core, stmt = .located l core ∧ (∀ l' s', core ≠ .located l' s') ∧ simpleImportStmt core = true ∧
      (isImportStmt core = true → seen.contains l = false) ∧ (∀ b ∈ stmtBinds core, b ∉ DN) ∧ (∀ n ∈ defNameOf core, n ∈ DN) ∧
      linesOK (if isImportStmt core then l :: seen else seen) ss = true ∧ ss.all simpleImportStmt = true ∧
      namesApart DN ss = true ∧ defsIn DN ss = true := by
  simp only [List.all_cons, Bool.and_eq_true, namesApart, defsIn] at hsi hna hdi
  cases stmt with
  | located l core =>
    simp only [linesOK, Bool.and_eq_true] at hl
    refine ⟨l, core, rfl, ?_, by simpa [simpleImportStmt] using hsi.1, ?_, ?_, ?_, ?_, hsi.2, ?_, ?_⟩
    · intro l' s' hc; rw [hc] at hl; simp at hl
    · intro hi; have := hl.2; rw [if_pos hi] at this; simp only [Bool.and_eq_true, Bool.not_eq_true'] at this; exact this.1
    · intro b hb
      have := hna.1
      simp only [stmtBinds, List.all_eq_true] at this
      have h2 := this b hb
      simpa using h2
    · intro n hn
      have := hdi.1
      simp only [defNameOf, List.all_eq_true, List.contains_iff_mem] at this
      exact this n hn
    · have := hl.2
      split
      · rename_i hi; rw [if_pos hi] at this; simp only [Bool.and_eq_true] at this; exact this.2
      · rename_i hi; rw [if_neg hi] at this; exact this
    · simpa [namesApart] using hna.2
    · simpa [defsIn] using hdi.2
  | _ => simp [linesOK] at hl

/-- analysis only -/
theorem stmtsUC_ana (fx : Fixes) (D : Bool) (DN : List Str) : ∀ (ss : List Stmt) (seen : List Nat) (u : UState) (ln : Nat),
    linesOK seen ss = true → fragC D ss = true → ss.all simpleImportStmt = true → namesApart DN ss = true → defsIn DN ss = true →
    UInv u seen → UShape u → ObjKeys DN u →
    ∃ seen', UInv (runOpsU u (cStmts fx ln ss)) seen' ∧ UShape (runOpsU u (cStmts fx ln ss)) ∧
      ObjKeys DN (runOpsU u (cStmts fx ln ss)) ∧ UsedPersist u (runOpsU u (cStmts fx ln ss))
  | [], seen, u, _, _, _, _, _, _, h, hs, ho => ⟨seen, h, hs, ho, UsedPersist.refl u⟩
  | stmt :: ss, seen, u, ln, hl, hfr, hsi, hna, hdi, h, hs, ho => by
    obtain ⟨l, core, rfl, k1, k2, k3, k4, k5, k6, k7, k8, k9⟩ := head_facts hl hsi hna hdi
    simp only [fragC, List.all_cons, Bool.and_eq_true] at hfr
    obtain ⟨hb, hu⟩ := baseUC_dummy D DN h hs ho
    obtain ⟨a1, a2, a3, a4, _, _⟩ := locUC fx D DN l core 0 ln _ u hfr.1 k2 k1 k3 k4 k5 hb hu
    simp only [cStmts, runOpsU_append]
    obtain ⟨seen', b1, b2, b3, b4⟩ := stmtsUC_ana fx D DN ss _ _ ln k6 (by simpa [fragC] using hfr.2) k7 k8 k9 a1 a2 a4
    exact ⟨seen', b1, b2, b3, a3.trans b4⟩

theorem stmtsUC (fx : Fixes) (D : Bool) (DN : List Str) : ∀ (ss : List Stmt) (f : Nat) (s : XState) (u : UState) (seen : List Nat) (ln : Nat),
    linesOK seen ss = true → fragC D ss = true → ss.all simpleImportStmt = true → namesApart DN ss = true → defsIn DN ss = true →
    BaseUC D DN s u seen → UsedLink s u →
    ∃ seen', UInv (runOpsU u (cStmts fx ln ss)) seen' ∧ UShape (runOpsU u (cStmts fx ln ss)) ∧
      ObjKeys DN (runOpsU u (cStmts fx ln ss)) ∧ UsedPersist u (runOpsU u (cStmts fx ln ss)) ∧
      UsedLink (execStmts f {} ss s).1 (runOpsU u (cStmts fx ln ss)) ∧
      (∀ fl, (execStmts f {} ss s).2 = .ok fl → BaseUC D DN (execStmts f {} ss s).1 (runOpsU u (cStmts fx ln ss)) seen')
  | ss, 0, s, u, seen, ln, hl, hfr, hsi, hna, hdi, hb, hu => by
    obtain ⟨seen', a1, a2, a3, a4⟩ := stmtsUC_ana fx D DN ss seen u ln hl hfr hsi hna hdi hb.uinv hb.shape hb.objKeys
    have : execStmts 0 {} ss s = (s, .error .fuel) := by rw [execStmts]; rfl
    rw [this]
    exact ⟨seen', a1, a2, a3, a4, UsedLink.persist hu a4, fun fl hfl => by cases hfl⟩
  | [], f + 1, s, u, seen, ln, _, _, _, _, _, hb, hu => by
    simp only [execStmts, cStmts, X.pure_def]
    exact ⟨seen, hb.uinv, hb.shape, hb.objKeys, UsedPersist.refl u, hu, fun _ _ => hb⟩
  | stmt :: ss, f + 1, s, u, seen, ln, hl, hfr, hsi, hna, hdi, hb, hu => by
    obtain ⟨l, core, rfl, k1, k2, k3, k4, k5, k6, k7, k8, k9⟩ := head_facts hl hsi hna hdi
    simp only [fragC, List.all_cons, Bool.and_eq_true] at hfr
    have hfr2 : fragC D ss = true := by simpa [fragC] using hfr.2
    obtain ⟨a1, a2, a3, a4, a5, a6⟩ := locUC fx D DN l core f ln s u hfr.1 k2 k1 k3 k4 k5 hb hu
    simp only [cStmts, runOpsU_append, execStmts, X.bind_def]
    cases hr : execStmt f {} (.located l core) s with
    | mk s1 r =>
      rw [hr] at a5 a6
      cases r with
      | error e =>
        simp only
        obtain ⟨seen', b1, b2, b3, b4⟩ := stmtsUC_ana fx D DN ss _ _ ln k6 hfr2 k7 k8 k9 a1 a2 a4
        exact ⟨seen', b1, b2, b3, a3.trans b4, UsedLink.persist a5 b4, fun fl hfl => by cases hfl⟩
      | ok fl =>
        obtain ⟨hfl, hb1⟩ := a6 fl rfl
        subst hfl
        simp only
        obtain ⟨seen', b1, b2, b3, b4, b5, b6⟩ := stmtsUC fx D DN ss f s1 _ _ ln k6 hfr2 k7 k8 k9 hb1 a5
        exact ⟨seen', b1, b2, b3, a3.trans b4, b5, b6⟩

/-! ### the calls after the last module-level statement -/

/-- `o` is the identity of an import checker that an entry of `_deferred_load_checks` / `_deferred_use_marks` will mark -/
def PendU (u : UState) (o : Nat × Nat) : Prop :=
  ∃ (d : Str) (ids : List Nat) (k : Nat) (c : Checker), ((d, ids) ∈ u.deferred ∨ (d, ids) ∈ u.useMarks) ∧
    findBinding u.heap (splitDots d) (normIds ids).reverse = some (.obj k) ∧ u.checkers[k]? = some c ∧ (c.line, c.idx) = o ∧
    c.anon = false

/-- `o` is the identity of a used import checker that has not been reported -/
def LinkAt (u : UState) (o : Nat × Nat) : Prop :=
  ∃ (k : Nat) (c : Checker), u.checkers[k]? = some c ∧ (c.line, c.idx) = o ∧ c.used = true ∧ c.anon = false ∧ k ∉ u.unused

theorem LinkAt.persist {u u' : UState} {o : Nat × Nat} (h : LinkAt u o) (p : UsedPersist u u') : LinkAt u' o := by
  obtain ⟨k, c, hc, hid, hu, ha, hnu⟩ := h
  obtain ⟨c', hc', hu', hl, hi, ha'⟩ := p.used k c hc hu
  refine ⟨k, c', hc', by rw [hl, hi]; exact hid, hu', by rw [ha']; exact ha, fun hk => ?_⟩
  rcases p.rep k hk with h1 | h1
  · exact hnu h1
  · rw [h1 c hc] at hu; cases hu

/-- every recorded use is marked already, or will be when the deferred checks run -/
def UsedLinkP (s : XState) (u : UState) : Prop :=
  ∀ o ∈ s.usedImps, LinkAt u o ∨ PendU u o

theorem UsedLink.toP {s : XState} {u : UState} (h : UsedLink s u) : UsedLinkP s u := fun o ho => .inl (h o ho)

theorem PendU.marks {P : Str → Prop} {u u' : UState} {o : Nat × Nat} (h : PendU u o) (m : Marks u u') (ms : ModStepU P u u') :
    PendU u' o := by
  obtain ⟨d, ids, k, c, he, hf, hc, hid, ha⟩ := h
  rcases m.each k c hc with h1 | h1
  · exact ⟨d, ids, k, c, ms.ents _ he, by rw [m.heap]; exact hf, h1, hid, ha⟩
  · exact ⟨d, ids, k, _, ms.ents _ he, by rw [m.heap]; exact hf, h1, hid, ha⟩

theorem UsedLinkP.marks {P : Str → Prop} {s : XState} {u u' : UState} (h : UsedLinkP s u) (m : Marks u u') (ms : ModStepU P u u') :
    UsedLinkP s u' := by
  intro o ho
  rcases h o ho with hl | hp
  · exact .inl (hl.persist m.persist)
  · exact .inr (hp.marks m ms)

/-- the lookup of a body read through frozen scopes finds what the private scope binds the head to -/
theorem findBinding_frozen {u : UState} {seen : List Nat} (h : UInv u seen) {A : List Str} {ids : List Nat} (hf : FrozenU u A ids)
    {d : Str} (hd : goodDotted d = true) (hA : headOf d ∉ A) {k : Nat} (hk : (topScope u).get (headOf d) = some (.obj k)) :
    findBinding u.heap (splitDots d) (normIds ids).reverse = some (.obj k) := by
  obtain ⟨a, c, h1, _, _, _, _, h6, h7⟩ := hf
  obtain ⟨x, rest, hps⟩ : ∃ x rest, splitDots d = x :: rest := by
    cases hh : splitDots d with
    | nil => exact absurd hh (splitDots_ne_nil d)
    | cons x r => exact ⟨x, r, rfl⟩
  have hhead : headOf d = x := by unfold headOf; rw [hps]; rfl
  rw [hhead] at hA hk
  have hcell : ∀ i, (∀ key v, (u.heap.get i).get key = some v → key ∈ A ∧ simpleName key = true ∧ v = Val.none) →
      findInScope (u.heap.get i) (prefixesRev (x :: rest)) = none := by
    intro i hi
    rw [findInScope_simpleKeys (u.heap.get i) (fun key v hv => (hi key v hv).2.1) x rest]
    cases hg : (u.heap.get i).get x with
    | none => rfl
    | some v => exact absurd (hi x v hg).1 hA
  rw [h1, hps]
  simp only [findBinding, hcell c h7, hcell a h6]
  rw [findInScope_simpleKeys (u.heap.get 4) h.simpleKeys x rest]
  unfold topScope at hk
  rw [hk]

/-- evaluating the callee name and the arguments of a trailing call -/
def callPre (f : Nat) (g : Str) (args : List Expr) : X (RVal × List RVal) :=
  evalExpr f {} (.name g) >>= fun fv => evalExprs f {} args >>= fun avs => (Pure.pure (fv, avs) : X (RVal × List RVal))

theorem callPre_evalB (D : Bool) (f : Nat) (g : Str) (args : List Expr) (s : XState) (hg : simpleName g = true)
    (hargs : fragBExprs D args = true) :
    EvalB {} s ((g :: loadsOfs args).map headOf) (true && (noIfExprs args && true)) (callPre f g args s) := by
  have h1 := (evalB {} (by simp [CtxOK]) D f).1 (.name g) s (by simpa [fragBExpr] using hg)
  have := EvalB.bind h1 (fun fv s1 _ => EvalB.bind ((evalB {} (by simp [CtxOK]) D f).2 args s1 hargs)
    (fun avs s2 _ => EvalB.pure {} s2 (fv, avs)))
  simpa [headsOf, headsOfs, loadsOf, noIfExpr, callPre] using this

theorem call_exec_eq (f : Nat) (g : Str) (args : List Expr) (s : XState) :
    execStmt (f + 2) {} (.expr (.call (.name g) args)) s =
      (callPre f g args >>= fun p => callVal f p.1 p.2 >>= fun _ => (Pure.pure Flow.normal : X Flow)) s := by
  simp only [execStmt, evalExpr, X.bind_def, callPre, X.pure_def]
  cases evalExpr f {} (Expr.name g) s with
  | mk s1 r1 =>
    cases r1 with
    | error x => rfl
    | ok fv =>
      simp only
      cases evalExprs f {} args s1 with
      | mk s2 r2 =>
        cases r2 with
        | error x => rfl
        | ok avs => rfl

theorem callUC_core (fx : Fixes) (D : Bool) (DN : List Str) {seen : List Nat} (g : Str) (args : List Expr) (f : Nat) (s : XState)
    (u : UState) (ln : Nat) (hg : simpleName g = true) (hargs : fragBExprs D args = true)
    (hb : BaseUC D DN s u seen) (hu : UsedLinkP s u) :
    UInv (runOpsU u (cStmt fx ln (.expr (.call (.name g) args)))) seen ∧
    UShape (runOpsU u (cStmt fx ln (.expr (.call (.name g) args)))) ∧
    ObjKeys DN (runOpsU u (cStmt fx ln (.expr (.call (.name g) args)))) ∧
    UsedPersist u (runOpsU u (cStmt fx ln (.expr (.call (.name g) args)))) ∧
    (∀ o, PendU u o → PendU (runOpsU u (cStmt fx ln (.expr (.call (.name g) args)))) o) ∧
    UsedLinkP (execStmt f {} (.expr (.call (.name g) args)) s).1 (runOpsU u (cStmt fx ln (.expr (.call (.name g) args)))) ∧
    (∀ fl, (execStmt f {} (.expr (.call (.name g) args)) s).2 = .ok fl → fl = Flow.normal ∧
      BaseUC D DN (execStmt f {} (.expr (.call (.name g) args)) s).1 (runOpsU u (cStmt fx ln (.expr (.call (.name g) args)))) seen) := by
  have hops : cStmt fx ln (.expr (.call (.name g) args)) = (g :: loadsOfs args).map Op.load := by
    simp [cStmt, cExpr, cExprs_loads fx D args hargs]
  rw [hops]
  obtain ⟨m, fm⟩ := loadsU (g :: loadsOfs args) u hb.uinv
  have ms := modStepU_loads (· ∉ DN) (g :: loadsOfs args) u hb.uinv.inFunc
  have hgood : ∀ d ∈ g :: loadsOfs args, goodDotted d = true := by
    intro d hd
    rcases List.mem_cons.mp hd with rfl | hd
    · simp [goodDotted, simpleName_split hg, hg]
    · exact (loadss_good D args hargs d hd).1
  have hts : topScope (runOpsU u ((g :: loadsOfs args).map Op.load)) = topScope u := by unfold topScope; rw [m.heap]
  have hol' : ∀ {o : List (Str × Nat × Nat)}, OLink o u → OLink o (runOpsU u ((g :: loadsOfs args).map Op.load)) := by
    intro o ho n x hx
    obtain ⟨k, c, hk, hc, hid, ha⟩ := ho n x hx
    rcases m.each k c hc with h1 | h1
    · exact ⟨k, c, by rw [hts]; exact hk, h1, hid, ha⟩
    · exact ⟨k, _, by rw [hts]; exact hk, h1, hid, ha⟩
  have hbase : ∀ (s' : XState), s'.origins = s.origins → s'.funcs = s.funcs →
      BaseUC D DN s' (runOpsU u ((g :: loadsOfs args).map Op.load)) seen := by
    intro s' ho hf
    refine ⟨hb.uinv.marks m, hb.shape.modStep ms, by rw [ho]; exact hb.okeys, by rw [ho]; exact hol' hb.origin,
      hb.objKeys.modStep ms, fun c hc => by rw [hf] at hc; exact hb.funs c hc, fun ps body hc => ?_⟩
    rw [hf] at hc
    obtain ⟨fname, hfd, hcv⟩ := hb.cov ps body hc
    exact ⟨fname, hfd, hcv.modStep ms⟩
  refine ⟨hb.uinv.marks m, hb.shape.modStep ms, hb.objKeys.modStep ms, m.persist, fun o ho => ho.marks m ms, ?_⟩
  have hold : UsedLinkP s (runOpsU u ((g :: loadsOfs args).map Op.load)) := hu.marks m ms
  match f with
  | 0 =>
    rw [execStmt]
    exact ⟨hold, fun fl hfl => by cases hfl⟩
  | 1 =>
    simp only [execStmt, evalExpr, X.bind_def, X.throw]
    exact ⟨hold, fun fl hfl => by cases hfl⟩
  | f + 2 =>
    have hpre := callPre_evalB D f g args s hg hargs
    rw [call_exec_eq, X.bind_def]
    -- what the module-level reads of the call record
    have hlink1 : ∀ (s1 : XState), (∀ o ∈ s1.usedImps, o ∈ s.usedImps ∨
        ∃ n ∈ (g :: loadsOfs args).map headOf, isGlobalIn {} n ∧ assocGet n s.origins = some o) →
        UsedLinkP s1 (runOpsU u ((g :: loadsOfs args).map Op.load)) := by
      intro s1 huse o ho
      rcases huse o ho with h1 | ⟨n, hn, _, horig⟩
      · exact hold o h1
      · simp only [List.mem_map] at hn
        obtain ⟨d, hd, rfl⟩ := hn
        obtain ⟨k, c, hk, hck, hid, hca⟩ := hb.origin _ o horig
        obtain ⟨c', hc', hu'⟩ := fm d hd (hgood d hd) k c hk hck
        obtain ⟨c0, hc0, _, hl, hi, _, han, _⟩ := m.get hc'
        rw [hck] at hc0
        have := Option.some.inj hc0
        subst this
        refine .inl ⟨k, c', hc', by rw [← hl, ← hi]; exact hid, hu', by rw [← han]; exact hca, fun hm => ?_⟩
        rw [m.unusedEq] at hm
        exact (hb.uinv.unusedOK k hm).2 4 _ (by unfold topScope at hk; exact hk)
    cases hp : callPre f g args s with
    | mk s1 r1 =>
      rw [hp] at hpre
      have hl1 := hlink1 s1 hpre.uses
      cases r1 with
      | error x =>
        simp only
        exact ⟨hl1, fun fl hfl => by cases hfl⟩
      | ok p =>
        simp only
        have hsame : SameUpToLog s s1 := hpre.same
        have hshape1 : FunsShape D s1 := by intro c hc; rw [hsame.funcs] at hc; exact hb.funs c hc
        have hrun := callVal_run D f p.1 p.2 s1 hshape1
        rw [X.bind_def]
        cases hc : callVal f p.1 p.2 s1 with
        | mk s2 r2 =>
          rw [hc] at hrun
          have hl2 : UsedLinkP s2 (runOpsU u ((g :: loadsOfs args).map Op.load)) := by
            intro o ho
            rcases hrun.uses o ho with h1 | ⟨n, ⟨ps, body, hmem, hhead, hnl⟩, horig⟩
            · exact hl1 o h1
            · -- a read inside a function body: pending
              right
              rw [hsame.funcs] at hmem
              rw [hsame.origins] at horig
              obtain ⟨ps0, body0, hceq, hb0⟩ := hb.funs _ hmem
              have hbd : body.all (fbodyStmt D) = true := by rw [(defClosure_inj hceq).2]; exact hb0
              simp only [List.mem_map] at hhead
              obtain ⟨d, hd, rfl⟩ := hhead
              obtain ⟨fname, hfd, hcv⟩ := hb.cov ps body hmem
              obtain ⟨ids, he, hfz⟩ := (hcv.modStep ms) d hd
              obtain ⟨k, c, hk, hck, hid, hca⟩ := (hol' hb.origin) _ o horig
              have hnf : headOf d ≠ fname := by
                intro heq
                have := (hb.objKeys.modStep ms) (headOf d) k hk
                rw [heq] at this
                exact this hfd
              have hA : headOf d ∉ paramNames ps ++ boundStmts body ++ [fname] := by
                intro hc'
                rcases List.mem_append.mp hc' with hc' | hc'
                · exact hnl hc'
                · exact hnf (List.mem_singleton.mp hc')
              exact ⟨d, ids, k, c, he, findBinding_frozen (hb.uinv.marks m) hfz (bodyLoads_good D body hbd d hd).1 hA hk, hck, hid, hca⟩
          cases r2 with
          | error x =>
            simp only
            exact ⟨hl2, fun fl hfl => by cases hfl⟩
          | ok v =>
            simp only [X.pure_def]
            refine ⟨hl2, fun fl hfl => ⟨by cases hfl; rfl, ?_⟩⟩
            exact hbase s2 (hrun.same.origins.trans hsame.origins) (hrun.same.funcs.trans hsame.funcs)

theorem BaseUC.line {D : Bool} {DN : List Str} {s : XState} {u : UState} {seen : List Nat} (h : BaseUC D DN s u seen) (l : Nat) :
    BaseUC D DN { s with line := l } { u with line := l } seen := by
  have m0 := modStepU_setLine (· ∉ DN) u l
  exact ⟨h.uinv.setLine l, h.shape.modStep m0, h.okeys, h.origin, h.objKeys.modStep m0, h.funs,
    fun ps body hc => by obtain ⟨fname, hfd, hcv⟩ := h.cov ps body hc; exact ⟨fname, hfd, hcv.modStep m0⟩⟩

theorem UsedLinkP.persist {s : XState} {u u' : UState} (h : UsedLinkP s u) (p : UsedPersist u u')
    (hp : ∀ o, PendU u o → PendU u' o) : UsedLinkP s u' := by
  intro o ho
  rcases h o ho with hl | hpend
  · exact .inl (hl.persist p)
  · exact .inr (hp o hpend)

/-- one trailing call -/
theorem callUC (fx : Fixes) (D : Bool) (DN : List Str) {seen : List Nat} : ∀ (stmt : Stmt) (f : Nat) (s : XState) (u : UState) (ln : Nat),
    fragCall D stmt = true → BaseUC D DN s u seen → UsedLinkP s u →
    UInv (runOpsU u (cStmt fx ln stmt)) seen ∧ UShape (runOpsU u (cStmt fx ln stmt)) ∧ ObjKeys DN (runOpsU u (cStmt fx ln stmt)) ∧
    UsedPersist u (runOpsU u (cStmt fx ln stmt)) ∧ (∀ o, PendU u o → PendU (runOpsU u (cStmt fx ln stmt)) o) ∧
    UsedLinkP (execStmt f {} stmt s).1 (runOpsU u (cStmt fx ln stmt)) ∧
    (∀ fl, (execStmt f {} stmt s).2 = .ok fl → fl = Flow.normal ∧ BaseUC D DN (execStmt f {} stmt s).1 (runOpsU u (cStmt fx ln stmt)) seen)
  | .located l s', f, s, u, ln, hfr, hb, hu => by
    have hops : runOpsU u (cStmt fx ln (.located l s')) = runOpsU { u with line := l } (cStmt fx l s') := rfl
    rw [hops]
    have hu' : UsedLinkP { s with line := l } { u with line := l } := fun o ho => hu o ho
    have p0 : UsedPersist u { u with line := l } := UsedPersist.ofEq rfl rfl
    have hfr' : fragCall D s' = true := by simpa [fragCall] using hfr
    cases f with
    | zero =>
      obtain ⟨a1, a2, a3, a4, a5, _, _⟩ := callUC fx D DN s' 0 { s with line := l } { u with line := l } l hfr' (hb.line l) hu'
      have hex : execStmt 0 {} (.located l s') s = (s, .error .fuel) := by rw [execStmt]; rfl
      rw [hex]
      exact ⟨a1, a2, a3, p0.trans a4, fun o ho => a5 o ho, hu.persist (p0.trans a4) (fun o ho => a5 o ho), fun fl hfl => by cases hfl⟩
    | succ f =>
      obtain ⟨a1, a2, a3, a4, a5, a6, a7⟩ := callUC fx D DN s' f { s with line := l } { u with line := l } l hfr' (hb.line l) hu'
      rw [located_exec]
      exact ⟨a1, a2, a3, p0.trans a4, fun o ho => a5 o ho, a6, a7⟩
  | .expr e, f, s, u, ln, hfr, hb, hu => by
    obtain ⟨g, args, rfl, hg, hargs⟩ := fragCall_expr hfr
    exact callUC_core fx D DN g args f s u ln hg hargs hb hu
  | .assign _ _, _, _, _, _, hfr, _, _ => by simp [fragCall] at hfr
  | .pass, _, _, _, _, hfr, _, _ => by simp [fragCall] at hfr
  | .import_ _, _, _, _, _, hfr, _, _ => by simp [fragCall] at hfr
  | .importFrom _ _, _, _, _, _, hfr, _, _ => by simp [fragCall] at hfr
  | .augAssign _ _, _, _, _, _, hfr, _, _ => by simp [fragCall] at hfr
  | .annAssign _ _ _, _, _, _, _, hfr, _, _ => by simp [fragCall] at hfr
  | .funcDef _ _ _ _ _, _, _, _, _, hfr, _, _ => by simp [fragCall] at hfr
  | .classDef _ _ _ _, _, _, _, _, hfr, _, _ => by simp [fragCall] at hfr
  | .for_ _ _ _ _, _, _, _, _, hfr, _, _ => by simp [fragCall] at hfr
  | .while_ _ _ _, _, _, _, _, hfr, _, _ => by simp [fragCall] at hfr
  | .if_ _ _ _, _, _, _, _, hfr, _, _ => by simp [fragCall] at hfr
  | .with_ _ _, _, _, _, _, hfr, _, _ => by simp [fragCall] at hfr
  | .try_ _ _ _ _, _, _, _, _, hfr, _, _ => by simp [fragCall] at hfr
  | .return_ _, _, _, _, _, hfr, _, _ => by simp [fragCall] at hfr
  | .raise_ _, _, _, _, _, hfr, _, _ => by simp [fragCall] at hfr
  | .delete _, _, _, _, _, hfr, _, _ => by simp [fragCall] at hfr
  | .global_ _, _, _, _, _, hfr, _, _ => by simp [fragCall] at hfr
  | .nonlocal_ _, _, _, _, _, hfr, _, _ => by simp [fragCall] at hfr

/-- analysis of the trailing calls only -/
theorem callsUC_ana (fx : Fixes) (D : Bool) (DN : List Str) {seen : List Nat} : ∀ (ss : List Stmt) (u : UState) (ln : Nat),
    ss.all (fragCall D) = true → UInv u seen → UShape u → ObjKeys DN u →
    UInv (runOpsU u (cStmts fx ln ss)) seen ∧ UsedPersist u (runOpsU u (cStmts fx ln ss)) ∧
    (∀ o, PendU u o → PendU (runOpsU u (cStmts fx ln ss)) o)
  | [], u, _, _, h, _, _ => ⟨h, UsedPersist.refl u, fun _ h => h⟩
  | stmt :: ss, u, ln, hfr, h, hs, ho => by
    simp only [List.all_cons, Bool.and_eq_true] at hfr
    obtain ⟨hb, hu⟩ := baseUC_dummy D DN h hs ho
    obtain ⟨a1, a2, a3, a4, a5, _, _⟩ := callUC fx D DN stmt 0 _ u ln hfr.1 hb hu.toP
    simp only [cStmts, runOpsU_append]
    obtain ⟨b1, b2, b3⟩ := callsUC_ana fx D DN ss _ ln hfr.2 a1 a2 a3
    exact ⟨b1, a4.trans b2, fun o ho => b3 o (a5 o ho)⟩

theorem callsUC (fx : Fixes) (D : Bool) (DN : List Str) {seen : List Nat} : ∀ (ss : List Stmt) (f : Nat) (s : XState) (u : UState) (ln : Nat),
    ss.all (fragCall D) = true → BaseUC D DN s u seen → UsedLinkP s u →
    UInv (runOpsU u (cStmts fx ln ss)) seen ∧ UsedLinkP (execStmts f {} ss s).1 (runOpsU u (cStmts fx ln ss))
  | ss, 0, s, u, ln, hfr, hb, hu => by
    obtain ⟨a1, a2, a3⟩ := callsUC_ana fx D DN ss u ln hfr hb.uinv hb.shape hb.objKeys
    have : execStmts 0 {} ss s = (s, .error .fuel) := by rw [execStmts]; rfl
    rw [this]
    exact ⟨a1, hu.persist a2 a3⟩
  | [], f + 1, s, u, ln, _, hb, hu => by
    simp only [execStmts, cStmts, X.pure_def]
    exact ⟨hb.uinv, hu⟩
  | stmt :: ss, f + 1, s, u, ln, hfr, hb, hu => by
    simp only [List.all_cons, Bool.and_eq_true] at hfr
    obtain ⟨a1, a2, a3, _, _, a6, a7⟩ := callUC fx D DN stmt f s u ln hfr.1 hb hu
    simp only [cStmts, runOpsU_append, execStmts, X.bind_def]
    cases hr : execStmt f {} stmt s with
    | mk s1 r =>
      rw [hr] at a6 a7
      cases r with
      | error e =>
        simp only
        obtain ⟨b1, b2, b3⟩ := callsUC_ana fx D DN ss _ ln hfr.2 a1 a2 a3
        exact ⟨b1, a6.persist b2 b3⟩
      | ok fl =>
        obtain ⟨hfl, hb1⟩ := a7 fl rfl
        subst hfl
        simp only
        exact callsUC fx D DN ss f s1 _ ln hfr.2 hb1 a6

/-! ### the end of the analysis -/

theorem foldl_sniU_fields : ∀ (l : List (Str × List Nat)) (u : UState),
    (l.foldl (fun st d => (sniU st d.2 d.1).2) u).useMarks = u.useMarks ∧
    (l.foldl (fun st d => (sniU st d.2 d.1).2) u).deferred = u.deferred
  | [], u => ⟨rfl, rfl⟩
  | d :: r, u => by
    simp only [List.foldl_cons]
    obtain ⟨_, _, _, _, _, f6, f7, _⟩ := sniU_fields u d.2 d.1
    obtain ⟨i1, i2⟩ := foldl_sniU_fields r (sniU u d.2 d.1).2
    exact ⟨i1.trans f7, i2.trans f6⟩

/-- running the deferred lookups marks the checker that an entry resolves to -/
theorem foldl_sniU_hit : ∀ (l : List (Str × List Nat)) (u : UState) (d : Str) (ids : List Nat) (k : Nat) (c : Checker),
    (d, ids) ∈ l → findBinding u.heap (splitDots d) (normIds ids).reverse = some (.obj k) → u.checkers[k]? = some c →
    ∃ c', (l.foldl (fun st e => (sniU st e.2 e.1).2) u).checkers[k]? = some c' ∧ c'.used = true ∧ c'.line = c.line ∧ c'.idx = c.idx ∧
      c'.anon = c.anon
  | [], _, _, _, _, _, hm, _, _ => by simp at hm
  | e :: r, u, d, ids, k, c, hm, hf, hc => by
    simp only [List.foldl_cons]
    rcases List.mem_cons.mp hm with rfl | hm
    · -- this entry's turn
      have hstep : (sniU u ids d).2.checkers[k]? = some { c with used := true } := by
        unfold sniU
        simp only [hf]
        show (markUsed u.checkers k)[k]? = _
        exact markUsed_self u.checkers k c hc
      obtain ⟨c', hc', hu', hl, hi, ha⟩ := (foldl_sniU_marks r (sniU u ids d).2).usedStays hstep rfl
      exact ⟨c', hc', hu', hl, hi, ha⟩
    · have m1 := sniU_marks u e.2 e.1
      rcases m1.each k c hc with h1 | h1
      · exact foldl_sniU_hit r _ d ids k c hm (by rw [m1.heap]; exact hf) h1
      · obtain ⟨c', a1, a2, a3, a4, a5⟩ := foldl_sniU_hit r _ d ids k _ hm (by rw [m1.heap]; exact hf) h1
        exact ⟨c', a1, a2, a3, a4, a5⟩

theorem finishU_linkP {s : XState} {u : UState} {seen : List Nat} (h : UInv u seen) (hl : UsedLinkP s u) :
    UsedLink s (finishU u) := by
  obtain ⟨_, p⟩ := finishU_facts h
  intro o ho
  rcases hl o ho with hlk | ⟨d, ids, k, c, he, hf, hc, hid, hca⟩
  · exact hlk.persist p
  · have m1 := foldl_sniU_marks u.deferred u
    have hum := (foldl_sniU_fields u.deferred u).1
    have m2 := foldl_sniU_marks (u.deferred.foldl (fun st d => (sniU st d.2 d.1).2) u).useMarks
      (u.deferred.foldl (fun st d => (sniU st d.2 d.1).2) u)
    have hnu : k ∉ u.unused := by
      intro hm
      obtain ⟨i, _, key, hk⟩ := findBinding_some hf
      exact (h.unusedOK k hm).2 i key hk
    have hun : (finishU u).unused = u.unused := by
      unfold finishU
      exact (m1.trans m2).unusedEq
    show ∃ (k : Nat) (c : Checker), (finishU u).checkers[k]? = some c ∧ _
    rw [hun]
    unfold finishU
    dsimp only
    rcases he with he | he
    · obtain ⟨c1, a1, a2, a3, a4, a5⟩ := foldl_sniU_hit u.deferred u d ids k c he hf hc
      obtain ⟨c2, b1, b2, b3, b4, b5⟩ := m2.usedStays a1 a2
      exact ⟨k, c2, b1, by rw [b3, b4, a3, a4]; exact hid, b2, by rw [b5, a5]; exact hca, hnu⟩
    · rw [← hum] at he
      rcases m1.each k c hc with h1 | h1
      · obtain ⟨c2, b1, b2, b3, b4, b5⟩ := foldl_sniU_hit _ _ d ids k c he (by rw [m1.heap]; exact hf) h1
        exact ⟨k, c2, b1, by rw [b3, b4]; exact hid, b2, by rw [b5]; exact hca, hnu⟩
      · obtain ⟨c2, b1, b2, b3, b4, b5⟩ := foldl_sniU_hit _ _ d ids k _ he (by rw [m1.heap]; exact hf) h1
        exact ⟨k, c2, b1, by rw [b3, b4]; exact hid, b2, by rw [b5]; exact hca, hnu⟩

theorem ushape_init (builtins : Scope) (am dn : Bool) (hb : builtins.isClass = false) : UShape (initU builtins am dn) := by
  refine ⟨rfl, fun i hi => ?_, rfl⟩
  simp only [List.mem_cons, List.not_mem_nil, or_false] at hi
  rcases hi with rfl | rfl | rfl | rfl
  · exact hb
  · rfl
  · rfl
  · rfl

/-- soundness of the unused-import report w.r.t. reads, on fragment C, in terms of the analysis state -/
theorem read_not_unused_fragC (fx : Fixes) (D : Bool) (builtins : Scope) (prog calls : List Stmt) (s0 : XState) (fuel : Nat)
    (hfr : fragC D prog = true) (hcalls : calls.all (fragCall D) = true) (hsi : prog.all simpleImportStmt = true)
    (hl : linesOK [] prog = true) (hna : namesApart (defNames prog) prog = true)
    (hb : builtinsPlain builtins = true) (hbc : builtins.isClass = false) (h0 : AgreeU s0) (hf : s0.funcs = []) :
    ∀ i ∈ (runProgram fuel prog calls s0).1.usedImps, i ∉ findUnused fx builtins (prog ++ calls) := by
  intro o ho
  have hbase : BaseUC D (defNames prog) s0 (initU builtins fx.allUseMark fx.deferredNames) [] :=
    ⟨uinv_init builtins fx.allUseMark fx.deferredNames hb, ushape_init builtins fx.allUseMark fx.deferredNames hbc, by rw [h0.origins]; simp [KeysNodup],
     (fun n x hx => by rw [h0.origins] at hx; simp [assocGet] at hx),
     (fun key k hk => by
       have : topScope (initU builtins fx.allUseMark fx.deferredNames) = {} := rfl
       rw [this] at hk; simp [Scope.get, assocGet] at hk),
     (fun c hc => by rw [hf] at hc; cases hc), (fun ps body hc => by rw [hf] at hc; cases hc)⟩
  have hu0 : UsedLink s0 (initU builtins fx.allUseMark fx.deferredNames) := fun x hx => by rw [h0.usedImps] at hx; simp at hx
  obtain ⟨seen', a1, a2, a3, _, a5, a6⟩ := stmtsUC fx D (defNames prog) prog fuel s0 _ [] 0 hl hfr hsi hna (defsIn_self prog) hbase hu0
  -- the state of the analysis before the deferred checks, and what the run recorded
  have hfinal : ∃ sF, (runProgram fuel prog calls s0).1.usedImps = sF.usedImps ∧
      UInv (runOpsU (initU builtins fx.allUseMark fx.deferredNames) (cStmts fx 0 (prog ++ calls))) seen' ∧
      UsedLinkP sF (runOpsU (initU builtins fx.allUseMark fx.deferredNames) (cStmts fx 0 (prog ++ calls))) := by
    rw [cStmts_append, runOpsU_append]
    unfold runProgram
    rw [X.bind_def]
    cases hr : execStmts fuel {} prog s0 with
    | mk s1 r1 =>
      rw [hr] at a5 a6
      cases r1 with
      | error x =>
        obtain ⟨b1, b2, b3⟩ := callsUC_ana fx D (defNames prog) calls _ 0 hcalls a1 a2 a3
        exact ⟨s1, rfl, b1, a5.toP.persist b2 b3⟩
      | ok fl =>
        have hb1 := a6 fl rfl
        simp only [X.bind_def, X.modify]
        have hb1' : BaseUC D (defNames prog) { s1 with atEnd := true } (runOpsU (initU builtins fx.allUseMark fx.deferredNames) (cStmts fx 0 prog)) seen' :=
          ⟨hb1.uinv, hb1.shape, hb1.okeys, hb1.origin, hb1.objKeys, hb1.funs, hb1.cov⟩
        have hu1' : UsedLinkP { s1 with atEnd := true } (runOpsU (initU builtins fx.allUseMark fx.deferredNames) (cStmts fx 0 prog)) :=
          fun x hx => a5.toP x hx
        obtain ⟨c1, c2⟩ := callsUC fx D (defNames prog) calls fuel _ _ 0 hcalls hb1' hu1'
        cases hr2 : execStmts fuel {} calls { s1 with atEnd := true } with
        | mk s2 r2 =>
          rw [hr2] at c2
          cases r2 with
          | error x => exact ⟨s2, rfl, c1, c2⟩
          | ok fl2 => exact ⟨s2, rfl, c1, c2⟩
  obtain ⟨sF, e1, e2, e3⟩ := hfinal
  rw [e1] at ho
  obtain ⟨k, c, hc, hid, hu, ha, hnu⟩ := finishU_linkP e2 e3 o ho
  have := scan_not_reported (finishU_facts e2).1 hc hu ha hnu
  rw [hid] at this
  exact this

end Pfb.C05
