/-
  C05 — Missing-name analysis agrees with Python's name resolution.

  Models: `Pfb.PyCore.Analyze.findMissing` (pyflyby's `_MissingImportFinder`, tied to the code by correspondence
  K(a)) and `Pfb.PyCore.Exec.runProgram` (reference semantics of name binding/lookup, tied to CPython by K(b)).

  TARGET (full strength; NOT proved, and false on the unchanged tree — see the `Witness` section):

    theorem C05_sound (prog calls) (ns) (s0) (fuel) :
      Agree builtins ns s0 → CallsAtEnd (run) →
      ∀ n ∈ (runProgram fuel prog calls s0).1.ne, ∃ d ∈ findMissing reg builtins ns (prog ++ calls), headOf d = n

  The unchanged code violates it on the families (a)…(j) below; each has a decidable predicate on (program, name)
  and a `decide`-proved counterexample.  What IS proved, for all programs of a delimited sub-fragment, all
  namespaces, all registries, all fuel:

    * `C05_sound_fragA`   — soundness on fragment A (straight-line module-level code: expression statements,
                            single-name assignments (incl. `__all__ = [...]`), `pass`; expressions built from names,
                            constants, strings, `+`, tuples, lists, subscripts and conditional expressions);
    * `C05_precise_fragA` — precision on the part of fragment A without conditional expressions and `__all__`;
    * `symbolNeedsImport_spec` (Pfb.PyCore.Lemmas) — what the needs-import decision is, for every dotted name,
                            stack of namespaces and registry.

  Fragment A contains none of the constructs of families (a)…(j), functions, classes, comprehensions, imports
  or attribute access; for everything outside it the claim rests on K(a)+K(b)+O (differential testing), not on a
  theorem.
-/
import Pfb.C05.Lemmas
namespace Pfb.C05
open Pfb Pfb.PyCore

/-- **C05_sound_fragA.**  For the unchanged code (`fx = {}`) and for the code with any of the proposed repairs:
    for every program of fragment A, every registry, builtins scope, caller namespaces and
    every initial run-time state that binds exactly the names bound in those namespaces: every global name whose
    lookup raises NameError in the reference run is reported by `findMissing`. -/
theorem C05_sound_fragA (fx : Fixes) (reg : Registry) (builtins : Scope) (ns : List Scope) (prog : List Stmt)
    (s0 : XState) (fuel : Nat) (hfr : fragA prog = true) (hag : Agree builtins ns s0) :
    ∀ n ∈ (runProgram fuel prog [] s0).1.ne, n ∈ findMissingFx fx reg builtins ns prog := by
  intro n hn
  rw [runProgram_ne] at hn
  obtain ⟨m, hm, hmn⟩ := (stmtsA fx reg prog fuel s0 (initState builtins ns) 0 hfr (corr_init builtins ns s0 hag)).1 n hn
  unfold findMissingFx analyzeFx
  rw [mem_sortedSet, List.mem_map]
  exact ⟨m, finishDeferred_mono reg _ m hm, hmn⟩

/-- **C05_precise_fragA.**  On fragment A without conditional expressions and without `__all__`, if the reference
    run completes (so every read was executed and succeeded) then nothing is reported. -/
theorem C05_precise_fragA (fx : Fixes) (reg : Registry) (builtins : Scope) (ns : List Scope) (prog : List Stmt)
    (s0 : XState) (fuel : Nat) (hfr : fragA prog = true) (hpl : prog.all plainStmt = true) (hag : Agree builtins ns s0)
    (hok : (runProgram fuel prog [] s0).2 = .ok ()) :
    findMissingFx fx reg builtins ns prog = [] := by
  obtain ⟨fl, hfl⟩ := runProgram_ok fuel prog s0 hok
  obtain ⟨_, hp⟩ := (stmtsA fx reg prog fuel s0 (initState builtins ns) 0 hfr (corr_init builtins ns s0 hag)).2 fl hfl
  obtain ⟨hm, hd⟩ := hp hpl
  unfold findMissingFx analyzeFx
  rw [finishDeferred_nil reg _ (by rw [hd]; rfl), hm]
  rfl

/-! ### canonical initial state -/

/-- the run-time state that binds (to the dummy) exactly the names of the given namespaces -/
def mkState (builtins : Scope) (ns : List Scope) : XState :=
  { globals := (ns.map (fun sc => sc.items.map (fun kv => (kv.1, RVal.opq)))).flatten,
    builtins := builtins.items.map (·.1) ++ ["__file__".toList] }

theorem assocGet_isSome_iff {β} (n : Str) (l : List (Str × β)) : (assocGet n l).isSome = true ↔ ∃ kv ∈ l, kv.1 = n := by
  induction l with
  | nil => simp [assocGet]
  | cons a r ih =>
    obtain ⟨k, v⟩ := a
    simp only [assocGet]
    split
    · rename_i hk; subst hk; simp
    · rename_i hk
      rw [ih]
      constructor
      · rintro ⟨kv, hkv, h⟩; exact ⟨kv, List.mem_cons_of_mem _ hkv, h⟩
      · rintro ⟨kv, hkv, h⟩
        rcases List.mem_cons.mp hkv with rfl | hkv
        · exact absurd h hk
        · exact ⟨kv, hkv, h⟩

theorem agree_mk (builtins : Scope) (ns : List Scope)
    (hstar : boundIn builtins ['*'] = false ∧ ∀ sc ∈ ns, boundIn sc ['*'] = false)
    (hcls : ∀ sc ∈ ns, sc.isClass = false) : Agree builtins ns (mkState builtins ns) := by
  refine ⟨?_, hstar, hcls, rfl⟩
  intro n _
  simp only [mkState, assocGet_isSome_iff, List.mem_flatten, List.mem_map, boundIn, Scope.get, List.contains_iff_mem,
    List.mem_append, List.mem_singleton]
  constructor
  · rintro (⟨kv, ⟨l, ⟨sc, hsc, rfl⟩, hkv⟩, hk⟩ | ⟨kv, hkv, rfl⟩ | h)
    · obtain ⟨kv0, hkv0, rfl⟩ := List.mem_map.mp hkv
      exact .inr (.inr ⟨sc, hsc, ⟨kv0, hkv0, hk⟩⟩)
    · exact .inl ⟨kv, hkv, rfl⟩
    · exact .inr (.inl h)
  · rintro (⟨kv, hkv, rfl⟩ | h | ⟨sc, hsc, ⟨kv, hkv, rfl⟩⟩)
    · exact .inr (.inl ⟨kv, hkv, rfl⟩)
    · exact .inr (.inr h)
    · exact .inl ⟨(kv.1, RVal.opq), ⟨_, ⟨sc, hsc, rfl⟩, List.mem_map.mpr ⟨kv, hkv, rfl⟩⟩, rfl⟩

/-! the hypotheses are satisfiable by a non-trivial input, and the conclusion is not empty there -/
section Example
def exBuiltins : Scope := { items := [("_K".toList, .obj 1000), ("len".toList, .obj 1001)] }
def exNs : List Scope := [{ items := [("a".toList, .obj 50)] }]
/-- `x = (a, len)` ; `y = x + zz` ; `q` -/
def exProg : List Stmt :=
  [.located 1 (.assign [.name "x".toList] (.tuple [.name "a".toList, .name "len".toList])),
   .located 2 (.assign [.name "y".toList] (.binop (.name "x".toList) (.name "zz".toList))),
   .located 3 (.expr (.name "q".toList))]
example : fragA exProg = true := by decide
example : Agree exBuiltins exNs (mkState exBuiltins exNs) := agree_mk _ _ (by decide) (by decide)
example : (runProgram 100 exProg [] (mkState exBuiltins exNs)).1.ne = ["zz".toList] := by decide
example : findMissing {} exBuiltins exNs exProg = ["q".toList, "zz".toList] := by decide
example : isOk (runProgram 100 (exProg.take 1) [] (mkState exBuiltins exNs)).2 = true := by decide
example : findMissing {} exBuiltins exNs (exProg.take 1) = [] := by decide
end Example

/-! ### Witness: the full-strength statement fails on the unchanged code (D9)

For each family: the family predicate holds for (program, name) — i.e. the corresponding hypothesis of the target
theorem is violated —, the reference run raises NameError on that global name, and `findMissing` reports no name
with that head.  Every program below is replayed on the real code (known_findings/C05.json). -/
section Witness
def wB : Scope := { items := [("_K".toList, .obj 1000), ("Exception".toList, .obj 1001)] }
def wS : XState := mkState wB [{}]
def nm (s : String) : Expr := .name s.toList
def st (l : Nat) (s : Stmt) : Stmt := .located l s
def noArgs : Args := .mk [] [] none [] [] none

/-- (a) `class C:` / ` a = _K` / ` b = [a for i in [_K]]` -/
def wA : List Stmt := [st 1 (.classDef "C".toList [] [st 2 (.assign [nm "a"] .const),
  st 3 (.assign [nm "b"] (.comp .list [nm "a"] [.mk (nm "i") (.list [.const]) []]))] [])]
theorem witness_a : famA "a".toList wA = true ∧ (runProgram 100 wA [] wS).1.ne = ["a".toList] ∧
    soundOn wB [{}] wS 100 wA [] = false := by decide

/-- (b) `try:` / ` raise Exception` / `except Exception as e:` / ` pass` / `e` -/
def wBp : List Stmt := [st 1 (.try_ [st 2 (.raise_ (nm "Exception"))] [.mk 3 (some (nm "Exception")) (some "e".toList) [st 4 .pass]] [] []),
  st 5 (.expr (nm "e"))]
theorem witness_b : famB "e".toList wBp = true ∧ (runProgram 100 wBp [] wS).1.ne = ["e".toList] ∧
    soundOn wB [{}] wS 100 wBp [] = false := by decide

/-- (c) `k += _K` -/
def wC : List Stmt := [st 1 (.augAssign (nm "k") .const)]
theorem witness_c : famC "k".toList wC = true ∧ (runProgram 100 wC [] wS).1.ne = ["k".toList] ∧
    soundOn wB [{}] wS 100 wC [] = false := by decide

/-- (d) `class C:` / ` x = C` -/
def wD : List Stmt := [st 1 (.classDef "C".toList [] [st 2 (.assign [nm "x"] (nm "C"))] [])]
theorem witness_d : famD "C".toList wD = true ∧ (runProgram 100 wD [] wS).1.ne = ["C".toList] ∧
    soundOn wB [{}] wS 100 wD [] = false := by decide

/-- (h) `class K(K):` / ` pass` -/
def wH : List Stmt := [st 1 (.classDef "K".toList [nm "K"] [st 2 .pass] [])]
theorem witness_h : famD "K".toList wH = true ∧ (runProgram 100 wH [] wS).1.ne = ["K".toList] ∧
    soundOn wB [{}] wS 100 wH [] = false := by decide

/-- (d') `D` / `class D:` / ` pass`  — a read *before* a later class of that name is un-reported too -/
def wD2 : List Stmt := [st 1 (.expr (nm "D")), st 2 (.classDef "D".toList [] [st 3 .pass] [])]
theorem witness_d2 : famD "D".toList wD2 = true ∧ (runProgram 100 wD2 [] wS).1.ne = ["D".toList] ∧
    soundOn wB [{}] wS 100 wD2 [] = false := by decide

/-- (e) `if False:` / ` x = _K` / `x` -/
def wE : List Stmt := [st 1 (.if_ (.bool false) [st 2 (.assign [nm "x"] .const)] []), st 3 (.expr (nm "x"))]
theorem witness_e : famE "x".toList wE = true ∧ (runProgram 100 wE [] wS).1.ne = ["x".toList] ∧
    soundOn wB [{}] wS 100 wE [] = false := by decide

/-- (f) `for c in [c]:` / ` pass` -/
def wF : List Stmt := [st 1 (.for_ (nm "c") (.list [nm "c"]) [st 2 .pass] [])]
theorem witness_f : famF "c".toList wF = true ∧ (runProgram 100 wF [] wS).1.ne = ["c".toList] ∧
    soundOn wB [{}] wS 100 wF [] = false := by decide

/-- (g) `x: _K = x` -/
def wG : List Stmt := [st 1 (.annAssign (nm "x") .const (some (nm "x")))]
theorem witness_g : famG "x".toList wG = true ∧ (runProgram 100 wG [] wS).1.ne = ["x".toList] ∧
    soundOn wB [{}] wS 100 wG [] = false := by decide

/-- (g') `x: x`  — an annotation without value binds nothing at run time -/
def wG2 : List Stmt := [st 1 (.annAssign (nm "x") (nm "x") none)]
theorem witness_g2 : famG "x".toList wG2 = true ∧ (runProgram 100 wG2 [] wS).1.ne = ["x".toList] ∧
    soundOn wB [{}] wS 100 wG2 [] = false := by decide

/-- (i) `a.b = _K` -/
def wI : List Stmt := [st 1 (.assign [.attr (nm "a") "b".toList] .const)]
theorem witness_i : famI "a".toList wI = true ∧ (runProgram 100 wI [] wS).1.ne = ["a".toList] ∧
    soundOn wB [{}] wS 100 wI [] = false := by decide

/-- (j) `def f(p, q: p):` / ` pass` -/
def wJ : List Stmt := [st 1 (.funcDef "f".toList (.mk [.mk "p".toList none, .mk "q".toList (some (nm "p"))] [] none [] [] none)
  [st 2 .pass] [] none)]
theorem witness_j : famJ "p".toList wJ = true ∧ (runProgram 100 wJ [] wS).1.ne = ["p".toList] ∧
    soundOn wB [{}] wS 100 wJ [] = false := by decide

/-- (l) `def f():` / ` return [_K for x in [_K(_K for y in [_K] if x)]]` / `f()` -/
def wL : List Stmt := [st 1 (.funcDef "f".toList noArgs [st 2 (.return_ (some
  (.comp .list [.const] [.mk (nm "x") (.list [.call .const [.comp .gen [.const] [.mk (nm "y") (.list [.const]) [nm "x"]]]]) []])))] [] none)]
def wLcalls : List Stmt := [st 3 (.expr (.call (nm "f") []))]
theorem witness_l : famL "x".toList wL = true ∧ (runProgram 100 wL wLcalls wS).1.ne = ["x".toList] ∧
    soundOn wB [{}] wS 100 wL wLcalls = false := by decide

/-- with the proposed repairs (fixes/C05-D9bcfg.diff, fixes/C05-D9a.diff) in the model, the witnesses of families
    (a), (b), (c), (f), (g) are reported; (d), (e), (h), (i), (j) stay un-reported (known findings). -/
def allFixes : Fixes := { exceptUnbind := true, augLoad := true, forIterFirst := true, annValueFirst := true, compScope := true }
def soundOnFx (fx : Fixes) (body : List Stmt) : Bool :=
  (runProgram 100 body [] wS).1.ne.all fun n => (findMissingFx fx {} wB [{}] body).any fun d => headOf d = n
example : [wA, wBp, wC, wF, wG, wG2].all (soundOnFx allFixes) = true := by decide
example : [wD, wH, wD2, wE, wI, wJ].all (fun p => !soundOnFx allFixes p) = true := by decide

/-- a program outside every family on which the decidable soundness check holds (functions, closures, a class whose
    method reads a class-level name, a comprehension, a deferred read resolved by a later definition) -/
def wOK : List Stmt :=
  [st 1 (.funcDef "f".toList noArgs [st 2 (.return_ (some (.call (nm "g") [nm "late", nm "missing1"])))] [] none),
   st 3 (.classDef "C".toList [] [st 4 (.assign [nm "a"] .const),
      st 5 (.funcDef "m".toList (.mk [.mk "self".toList none] [] none [] [] none) [st 6 (.return_ (some (nm "a")))] [] none)] []),
   st 7 (.assign [nm "late"] (.comp .list [nm "i"] [.mk (nm "i") (.list [.const, nm "missing2"]) []])),
   st 8 (.funcDef "g".toList (.mk [.mk "p".toList none, .mk "q".toList none] [] none [] [] none) [st 9 (.return_ (some (nm "p")))] [] none)]
def wOKcalls : List Stmt :=
  [st 10 (.expr (.call (nm "f") [])), st 11 (.expr (.call (.attr (nm "C") "m".toList) [.const]))]
example : (findMissing {} wB [{}] (wOK ++ wOKcalls)) = ["a".toList, "missing1".toList, "missing2".toList] := by decide
example : (runProgram 200 wOK wOKcalls wS).1.ne = ["missing2".toList] := by decide
example : soundOn wB [{}] wS 200 wOK wOKcalls = true := by decide
example : outsideFamilies "missing2".toList (wOK ++ wOKcalls) = true := by decide
end Witness

end Pfb.C05
