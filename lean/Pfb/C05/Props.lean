/-
  C05 — Missing-name analysis agrees with Python's name resolution.

  Models: `Pfb.PyCore.Analyze.findMissing` (pyflyby's `_MissingImportFinder`, tied to the code by correspondence
  K(a)) and `Pfb.PyCore.Exec.runProgram` (reference semantics of name binding/lookup, tied to CPython by K(b)).

  TARGET (full strength; NOT proved, and false on the unchanged tree — see the `Witness` section):

    theorem C05_sound (prog calls) (ns) (s0) (fuel) :
      Agree builtins ns s0 → CallsAtEnd (run) →
      ∀ n ∈ (runProgram fuel prog calls s0).1.ne, ∃ d ∈ findMissing reg builtins ns (prog ++ calls), headOf d = n

  The unchanged code violates it on the families (a)…(j) below; each has a decidable predicate on (program, name)
  and a `decide`-proved counterexample.  What IS proved, for all programs of a delimited sub-fragment, all
  namespaces, all registries, all fuel:

    * `C05_sound_fragA`   — soundness on fragment A (straight-line module-level code: expression statements,
                            single-name assignments (incl. `__all__ = [...]`), `pass`; expressions built from names,
                            constants, strings, `+`, tuples, lists, subscripts and conditional expressions);
    * `C05_precise_fragA` — precision on the part of fragment A without conditional expressions and `__all__`;
    * `symbolNeedsImport_spec` (Pfb.PyCore.Lemmas) — what the needs-import decision is, for every dotted name,
                            stack of namespaces and registry.

  Fragment A contains none of the constructs of families (a)…(j), functions, classes, comprehensions, imports
  or attribute access; for everything outside it the claim rests on K(a)+K(b)+O (differential testing), not on a
  theorem.
-/
import Pfb.C05.Lemmas
import Pfb.C05.LemmasD
import Pfb.C05.LemmasE
import Pfb.C05.LemmasF
import Pfb.C05.Unused
import Pfb.C05.UnusedC
namespace Pfb.C05
open Pfb Pfb.PyCore

/-- **C05_sound_fragB.**  For the unchanged code (`fx = {}`) and for the code with any of the proposed repairs, for every
    program of fragment B (fragment A + `import m`, `import m as a`, `import a.b.c`, `from m import x [as y]`
    + dotted reads `a.b.c` when `D = true`), every registry, builtins scope, caller namespaces (with dot-free keys
    when dotted names occur) and every initial run-time state that binds exactly the names bound in those namespaces:
    every global name whose lookup raises NameError in the reference run is the head of a name reported by `findMissing`.
    With `D = false` the reported name is the NameError'd name itself. -/
theorem C05_sound_fragB (fx : Fixes) (reg : Registry) (builtins : Scope) (ns : List Scope) (prog : List Stmt)
    (s0 : XState) (fuel : Nat) (D : Bool) (hfr : fragB D prog = true) (hag : Agree builtins ns s0)
    (hdf : D = true → nsDotFree builtins ns = true) :
    ∀ n ∈ (runProgram fuel prog [] s0).1.ne,
      ∃ d ∈ findMissingFx fx reg builtins ns prog, headOf d = n ∧ (D = false → d = n) := by
  intro n hn
  rw [runProgram_ne] at hn
  obtain ⟨m, hm, hmn⟩ :=
    (stmtsB fx reg D prog fuel s0 (initState builtins ns) 0 hfr (corr_init D builtins ns s0 hag hdf)).1 n hn
  refine ⟨m.name, ?_, hmn⟩
  unfold findMissingFx analyzeFx
  rw [mem_sortedSet, List.mem_map]
  exact ⟨m, finishDeferred_mono reg _ m hm, rfl⟩

/-- **C05_precise_fragB.**  On fragment B without conditional expressions and `__all__`, if the reference run completes
    (every read was executed and succeeded) nothing is reported — provided, when dotted names occur, that no value
    of the caller's namespaces is a registry (`sys.modules`) entry and `None` is not one (`regDisjoint`; otherwise
    the analysis follows attributes through the registry, which the run-time state of the theorem does not constrain). -/
theorem C05_precise_fragB (fx : Fixes) (reg : Registry) (builtins : Scope) (ns : List Scope) (prog : List Stmt)
    (s0 : XState) (fuel : Nat) (D : Bool) (hfr : fragB D prog = true) (hpl : prog.all plainStmtB = true)
    (hag : Agree builtins ns s0) (hdf : D = true → nsDotFree builtins ns = true)
    (hrd : D = true → regDisjoint reg builtins ns = true)
    (hok : (runProgram fuel prog [] s0).2 = .ok ()) :
    findMissingFx fx reg builtins ns prog = [] := by
  obtain ⟨fl, hfl⟩ := runProgram_ok fuel prog s0 hok
  obtain ⟨_, _, hp⟩ :=
    (stmtsB fx reg D prog fuel s0 (initState builtins ns) 0 hfr (corr_init D builtins ns s0 hag hdf)).2 fl hfl
  obtain ⟨hm, hd⟩ := hp hpl (fun hD => RD_init reg builtins ns hag.noClass (hrd hD))
  unfold findMissingFx analyzeFx
  rw [finishDeferred_nil reg _ (by rw [hd]; rfl), hm]
  rfl

/-- **C05_sound_fragC.**  Fragment C = fragment B + module-level `def f(p1, …, pk): <straight-line body>` (expression
    statements, single-name assignments, `pass`, `return`), the functions being called only by the statements `calls`
    (`g(e1, …, ek)` with fragment-B arguments) that follow the last module-level statement.  The loads inside the bodies
    go through the deferred mechanism (`_visit_Load_defered` twice, `clone_top`, `_finish_deferred_load_checks`).
    Every global name whose lookup raises NameError anywhere in the run — at module level, in an argument of a call, or
    inside a called function body — is the head of a name reported by `findMissing` for the whole source.
    Extra hypotheses w.r.t. fragment B: the builtins namespace is not a class scope and the run starts without
    pre-existing function objects. -/
theorem C05_sound_fragC (fx : Fixes) (reg : Registry) (builtins : Scope) (ns : List Scope) (prog calls : List Stmt)
    (s0 : XState) (fuel : Nat) (D : Bool) (hfr : fragC D prog = true) (hcalls : calls.all (fragCall D) = true)
    (hag : Agree builtins ns s0) (hdf : D = true → nsDotFree builtins ns = true)
    (hb : builtins.isClass = false) (hf : s0.funcs = []) :
    ∀ n ∈ (runProgram fuel prog calls s0).1.ne,
      ∃ d ∈ findMissingFx fx reg builtins ns (prog ++ calls), headOf d = n ∧ (D = false → d = n) := by
  intro n hn
  obtain ⟨m, hm, hmn⟩ := sound_fragC fx reg D prog calls fuel s0 (initState builtins ns) hfr hcalls
    (corrC_init D builtins ns s0 hag hdf hb hf) n hn
  refine ⟨m.name, ?_, hmn⟩
  unfold findMissingFx analyzeFx
  rw [mem_sortedSet, List.mem_map]
  exact ⟨m, hm, rfl⟩

/-- **C05_precise_fragC.**  On fragment C without conditional expressions at module level and in call arguments and
    without `__all__`, if the reference run completes, then every reported name is read by the body of some function
    defined by the program, and its head is bound neither in the globals nor in the builtins when the run ends (so a
    call of that function after the module has run would — if it reaches the read, and unless the name is assigned
    earlier in the body — raise NameError).  In particular nothing is reported for module-level reads, call arguments
    or reads in function bodies that the final globals resolve. -/
theorem C05_precise_fragC (fx : Fixes) (reg : Registry) (builtins : Scope) (ns : List Scope) (prog calls : List Stmt)
    (s0 : XState) (fuel : Nat) (D : Bool) (hfr : fragC D prog = true) (hpl : prog.all plainStmtB = true)
    (hcalls : calls.all (fragCall D) = true) (hplc : calls.all plainCall = true)
    (hag : Agree builtins ns s0) (hdf : D = true → nsDotFree builtins ns = true)
    (hrd : D = true → regDisjoint reg builtins ns = true)
    (hb : builtins.isClass = false) (hf : s0.funcs = [])
    (hok : (runProgram fuel prog calls s0).2 = .ok ()) :
    ∀ d ∈ findMissingFx fx reg builtins ns (prog ++ calls),
      ∃ ps body, defClosure ps body ∈ (runProgram fuel prog calls s0).1.funcs ∧ d ∈ bodyLoads body ∧
        unboundX (runProgram fuel prog calls s0).1 (headOf d) := by
  intro d hd
  unfold findMissingFx analyzeFx at hd
  rw [mem_sortedSet, List.mem_map] at hd
  obtain ⟨m, hm, rfl⟩ := hd
  exact precise_fragC fx reg D prog calls fuel s0 (initState builtins ns) hfr hpl hcalls hplc
    (corrC_init D builtins ns s0 hag hdf hb hf) (plainInv_init D reg builtins ns s0 hag.noClass hrd) hok m hm

/-- **C05_sound_fragE.**  Fragment E = fragment B + `del x` + `x += e` (plain-name targets) at module level.  Hypotheses
    beyond fragment B, all decidable:
    * `delBound [] prog`: every `del x` deletes a name that the program itself bound before and has not deleted since
      (otherwise the `del` raises NameError, and `visit_Delete` never loads its target: `witness_del_unbound`);
    * the deleted names are bound neither in the initial globals nor in a caller namespace (the analysis never writes to
      caller namespaces: `witness_del_caller_ns`);
    * an augmented assignment needs the repair that loads the target first (`fx.augLoad`; unchanged tree: `witness_c`);
    * with dotted names, `del` must also drop the dotted keys below the name (`fx.delDotted`; before 1b2307d:
      `witness_del_dotted`). -/
theorem C05_sound_fragE (fx : Fixes) (reg : Registry) (builtins : Scope) (ns : List Scope) (prog : List Stmt)
    (s0 : XState) (fuel : Nat) (D : Bool) (hfr : fragE D prog = true) (hdb : delBound [] prog = true)
    (hag : Agree builtins ns s0) (hdf : D = true → nsDotFree builtins ns = true)
    (hfresh : ∀ x ∈ delNames prog, assocGet x s0.globals = none ∧ ∀ sc ∈ ns, boundIn sc x = false)
    (haug : hasAug prog = true → fx.augLoad = true) (hdd : D = true → hasDel prog = true → fx.delDotted = true) :
    ∀ n ∈ (runProgram fuel prog [] s0).1.ne,
      ∃ d ∈ findMissingFx fx reg builtins ns prog, headOf d = n ∧ (D = false → d = n) := by
  intro n hn
  rw [runProgram_ne] at hn
  have hc := corrE_init D (delNames prog) builtins ns s0 hag hdf (delNames_simple prog hfr) hfresh
  obtain ⟨m, hm, hmn⟩ :=
    (stmtsE fx reg D (delNames prog) prog fuel s0 (initState builtins ns) 0 [] hfr hdb (fun _ h => h) haug hdd hc).1 n hn
  refine ⟨m.name, ?_, hmn⟩
  unfold findMissingFx analyzeFx
  rw [mem_sortedSet, List.mem_map]
  exact ⟨m, finishDeferred_mono reg _ m hm, rfl⟩

/-- **C05_precise_fragE.**  Same fragment and hypotheses, no conditional expression and no `__all__`: if the run
    completes, nothing is reported. -/
theorem C05_precise_fragE (fx : Fixes) (reg : Registry) (builtins : Scope) (ns : List Scope) (prog : List Stmt)
    (s0 : XState) (fuel : Nat) (D : Bool) (hfr : fragE D prog = true) (hdb : delBound [] prog = true)
    (hpl : prog.all plainStmtE = true)
    (hag : Agree builtins ns s0) (hdf : D = true → nsDotFree builtins ns = true)
    (hrd : D = true → regDisjoint reg builtins ns = true)
    (hfresh : ∀ x ∈ delNames prog, assocGet x s0.globals = none ∧ ∀ sc ∈ ns, boundIn sc x = false)
    (haug : hasAug prog = true → fx.augLoad = true) (hdd : D = true → hasDel prog = true → fx.delDotted = true)
    (hok : (runProgram fuel prog [] s0).2 = .ok ()) :
    findMissingFx fx reg builtins ns prog = [] := by
  obtain ⟨fl, hfl⟩ := runProgram_ok fuel prog s0 hok
  have hc := corrE_init D (delNames prog) builtins ns s0 hag hdf (delNames_simple prog hfr) hfresh
  obtain ⟨_, hp⟩ :=
    (stmtsE fx reg D (delNames prog) prog fuel s0 (initState builtins ns) 0 [] hfr hdb (fun _ h => h) haug hdd hc).2.2 fl hfl
  obtain ⟨hm, hd⟩ := hp hpl (fun hD => RD_init reg builtins ns hag.noClass (hrd hD))
  unfold findMissingFx analyzeFx
  rw [finishDeferred_nil reg _ (by rw [hd]; rfl), hm]
  rfl

/-- fragment B is the part of fragment C without function definitions -/
theorem fragB_C {D : Bool} {prog : List Stmt} (h : fragB D prog = true) : fragC D prog = true := by
  simp only [fragB, fragC, List.all_eq_true] at h ⊢
  intro s hs
  simp [fragCStmt, h s hs]

/-- **C05_sound_fragA** (corollary of `C05_sound_fragB` with `D = false`): straight-line module-level code. -/
theorem C05_sound_fragA (fx : Fixes) (reg : Registry) (builtins : Scope) (ns : List Scope) (prog : List Stmt)
    (s0 : XState) (fuel : Nat) (hfr : fragA prog = true) (hag : Agree builtins ns s0) :
    ∀ n ∈ (runProgram fuel prog [] s0).1.ne, n ∈ findMissingFx fx reg builtins ns prog := by
  intro n hn
  obtain ⟨d, hd, _, hdn⟩ := C05_sound_fragB fx reg builtins ns prog s0 fuel false (fragA_B hfr) hag (fun h => by cases h) n hn
  rw [← hdn rfl]; exact hd

/-- **C05_precise_fragA** (corollary of `C05_precise_fragB` with `D = false`). -/
theorem C05_precise_fragA (fx : Fixes) (reg : Registry) (builtins : Scope) (ns : List Scope) (prog : List Stmt)
    (s0 : XState) (fuel : Nat) (hfr : fragA prog = true) (hpl : prog.all plainStmt = true) (hag : Agree builtins ns s0)
    (hok : (runProgram fuel prog [] s0).2 = .ok ()) :
    findMissingFx fx reg builtins ns prog = [] :=
  C05_precise_fragB fx reg builtins ns prog s0 fuel false (fragA_B hfr)
    (by simp only [List.all_eq_true] at hpl ⊢; exact fun s hs => by rw [← plainStmt_B]; exact hpl s hs)
    hag (fun h => by cases h) (fun h => by cases h) hok

/-! ### canonical initial state -/

/-- the run-time state that binds (to the dummy) exactly the names of the given namespaces -/
def mkState (builtins : Scope) (ns : List Scope) : XState :=
  { globals := (ns.map (fun sc => sc.items.map (fun kv => (kv.1, RVal.opq)))).flatten,
    builtins := builtins.items.map (·.1) ++ ["__file__".toList] }

theorem assocGet_isSome_iff {β} (n : Str) (l : List (Str × β)) : (assocGet n l).isSome = true ↔ ∃ kv ∈ l, kv.1 = n := by
  induction l with
  | nil => simp [assocGet]
  | cons a r ih =>
    obtain ⟨k, v⟩ := a
    simp only [assocGet]
    split
    · rename_i hk; subst hk; simp
    · rename_i hk
      rw [ih]
      constructor
      · rintro ⟨kv, hkv, h⟩; exact ⟨kv, List.mem_cons_of_mem _ hkv, h⟩
      · rintro ⟨kv, hkv, h⟩
        rcases List.mem_cons.mp hkv with rfl | hkv
        · exact absurd h hk
        · exact ⟨kv, hkv, h⟩

theorem agree_mk (builtins : Scope) (ns : List Scope)
    (hstar : boundIn builtins ['*'] = false ∧ ∀ sc ∈ ns, boundIn sc ['*'] = false)
    (hcls : ∀ sc ∈ ns, sc.isClass = false) : Agree builtins ns (mkState builtins ns) := by
  refine ⟨?_, hstar, hcls, rfl⟩
  intro n _
  simp only [mkState, assocGet_isSome_iff, List.mem_flatten, List.mem_map, boundIn, Scope.get, List.contains_iff_mem,
    List.mem_append, List.mem_singleton]
  constructor
  · rintro (⟨kv, ⟨l, ⟨sc, hsc, rfl⟩, hkv⟩, hk⟩ | ⟨kv, hkv, rfl⟩ | h)
    · obtain ⟨kv0, hkv0, rfl⟩ := List.mem_map.mp hkv
      exact .inr (.inr ⟨sc, hsc, ⟨kv0, hkv0, hk⟩⟩)
    · exact .inl ⟨kv, hkv, rfl⟩
    · exact .inr (.inl h)
  · rintro (⟨kv, hkv, rfl⟩ | h | ⟨sc, hsc, ⟨kv, hkv, rfl⟩⟩)
    · exact .inr (.inl ⟨kv, hkv, rfl⟩)
    · exact .inr (.inr h)
    · exact .inl ⟨(kv.1, RVal.opq), ⟨_, ⟨sc, hsc, rfl⟩, List.mem_map.mpr ⟨kv, hkv, rfl⟩⟩, rfl⟩

/-! the hypotheses are satisfiable by a non-trivial input, and the conclusion is not empty there -/
section Example
def exBuiltins : Scope := { items := [("_K".toList, .obj 1000), ("len".toList, .obj 1001)] }
def exNs : List Scope := [{ items := [("a".toList, .obj 50)] }]
/-- `x = (a, len)` ; `y = x + zz` ; `q` -/
def exProg : List Stmt :=
  [.located 1 (.assign [.name "x".toList] (.tuple [.name "a".toList, .name "len".toList])),
   .located 2 (.assign [.name "y".toList] (.binop (.name "x".toList) (.name "zz".toList))),
   .located 3 (.expr (.name "q".toList))]
example : fragA exProg = true := by decide
example : Agree exBuiltins exNs (mkState exBuiltins exNs) := agree_mk _ _ (by decide) (by decide)
example : (runProgram 100 exProg [] (mkState exBuiltins exNs)).1.ne = ["zz".toList] := by decide
example : findMissing {} exBuiltins exNs exProg = ["q".toList, "zz".toList] := by decide
example : isOk (runProgram 100 (exProg.take 1) [] (mkState exBuiltins exNs)).2 = true := by decide
example : findMissing {} exBuiltins exNs (exProg.take 1) = [] := by decide

/-- fragment B, step (i): `import pa.s1` ; `x = pa.s1.m1` ; `from pa import m2 as y` ; `z = (y, q.u)` -/
def exProgB : List Stmt :=
  [.located 1 (.import_ [⟨"pa.s1".toList, none⟩]),
   .located 2 (.assign [.name "x".toList] (.attr (.attr (.name "pa".toList) "s1".toList) "m1".toList)),
   .located 3 (.importFrom "pa".toList [⟨"m2".toList, some "y".toList⟩]),
   .located 4 (.assign [.name "z".toList] (.tuple [.name "y".toList, .attr (.name "q".toList) "u".toList]))]
example : fragB true exProgB = true := by decide
example : nsDotFree exBuiltins exNs = true := by decide
example : regDisjoint {} exBuiltins exNs = true := by decide
example : (runProgram 100 exProgB [] (mkState exBuiltins exNs)).1.ne = ["q".toList] := by decide +kernel
example : findMissing {} exBuiltins exNs exProgB = ["q.u".toList] := by decide
example : isOk (runProgram 100 (exProgB.take 3) [] (mkState exBuiltins exNs)).2 = true := by decide +kernel
example : (exProgB.take 3).all plainStmtB = true := by decide
example : findMissing {} exBuiltins exNs (exProgB.take 3) = [] := by decide

/-- fragment C: `import pa` ; `def f(a):` / ` t = pa.m1` / ` return (t, late, zz, a)` ; `late = _K` — and, after the
    last module-level statement, the call `f(late)`.  `pa` and `late` are looked up when `f` runs (`late` is bound after
    the `def`: a deferred load that is resolved at the end); `zz` is bound nowhere. -/
def exProgC : List Stmt :=
  [.located 1 (.import_ [⟨"pa".toList, none⟩]),
   .located 2 (.funcDef "f".toList (.mk [.mk "a".toList none] [] none [] [] none)
      [.located 3 (.assign [.name "t".toList] (.attr (.name "pa".toList) "m1".toList)),
       .located 4 (.return_ (some (.tuple [.name "t".toList, .name "late".toList, .name "zz".toList, .name "a".toList])))]
      [] none),
   .located 5 (.assign [.name "late".toList] (.name "_K".toList))]
def exCallsC : List Stmt := [.located 6 (.expr (.call (.name "f".toList) [.name "late".toList]))]
example : fragC true exProgC = true := by decide
example : exCallsC.all (fragCall true) = true := by decide
example : exBuiltins.isClass = false := rfl
example : (mkState exBuiltins exNs).funcs = [] := rfl
example : (runProgram 100 exProgC exCallsC (mkState exBuiltins exNs)).1.ne = ["zz".toList] := by decide +kernel
example : findMissing {} exBuiltins exNs (exProgC ++ exCallsC) = ["zz".toList] := by decide +kernel
/-- precision: without the read of `zz` the run completes and nothing is reported; with an extra function `g` that is
    never called and reads `zz`, the run completes and `zz` (unbound at the end) is reported -/
def exProgC2 : List Stmt :=
  [.located 1 (.import_ [⟨"pa".toList, none⟩]),
   .located 2 (.funcDef "f".toList (.mk [.mk "a".toList none] [] none [] [] none)
      [.located 3 (.assign [.name "t".toList] (.attr (.name "pa".toList) "m1".toList)),
       .located 4 (.return_ (some (.tuple [.name "t".toList, .name "late".toList, .name "a".toList])))]
      [] none),
   .located 5 (.assign [.name "late".toList] (.name "_K".toList))]
def exProgC3 : List Stmt := exProgC2 ++
  [.located 6 (.funcDef "g".toList (.mk [] [] none [] [] none) [.located 7 (.return_ (some (.name "zz".toList)))] [] none)]
def exCallsC2 : List Stmt := [.located 8 (.expr (.call (.name "f".toList) [.name "late".toList]))]
example : fragC true exProgC3 = true ∧ exProgC3.all plainStmtB = true ∧ exCallsC2.all (fragCall true) = true ∧
    exCallsC2.all plainCall = true := by decide
example : isOk (runProgram 100 exProgC2 exCallsC2 (mkState exBuiltins exNs)).2 = true := by decide +kernel
example : findMissing {} exBuiltins exNs (exProgC2 ++ exCallsC2) = [] := by decide +kernel
example : isOk (runProgram 100 exProgC3 exCallsC2 (mkState exBuiltins exNs)).2 = true := by decide +kernel
example : findMissing {} exBuiltins exNs (exProgC3 ++ exCallsC2) = ["zz".toList] := by decide +kernel
/-- without the late binding the deferred load of `late` is reported, and the run raises NameError on it -/
example : (runProgram 100 (exProgC.take 2) [.located 6 (.expr (.call (.name "f".toList) [.name "a".toList]))]
    (mkState exBuiltins exNs)).1.ne = ["late".toList] := by decide +kernel
example : findMissing {} exBuiltins exNs (exProgC.take 2 ++ [.located 6 (.expr (.call (.name "f".toList) [.name "a".toList]))])
    = ["late".toList, "zz".toList] := by decide +kernel
end Example

/-! ### Witness: the full-strength statement fails on the unchanged code (D9)

For each family: the family predicate holds for (program, name) — i.e. the corresponding hypothesis of the target
theorem is violated —, the reference run raises NameError on that global name, and `findMissing` reports no name
with that head.  Every program below is replayed on the real code (known_findings/C05.json). -/
section Witness
def wB : Scope := { items := [("_K".toList, .obj 1000), ("Exception".toList, .obj 1001)] }
def wS : XState := mkState wB [{}]
def nm (s : String) : Expr := .name s.toList
def st (l : Nat) (s : Stmt) : Stmt := .located l s
def noArgs : Args := .mk [] [] none [] [] none

/-- (a) `class C:` / ` a = _K` / ` b = [a for i in [_K]]` -/
def wA : List Stmt := [st 1 (.classDef "C".toList [] [st 2 (.assign [nm "a"] .const),
  st 3 (.assign [nm "b"] (.comp .list [nm "a"] [.mk (nm "i") (.list [.const]) []]))] [])]
theorem witness_a : famA "a".toList wA = true ∧ (runProgram 100 wA [] wS).1.ne = ["a".toList] ∧
    soundOn wB [{}] wS 100 wA [] = false := by decide

/-- (b) `try:` / ` raise Exception` / `except Exception as e:` / ` pass` / `e` -/
def wBp : List Stmt := [st 1 (.try_ [st 2 (.raise_ (nm "Exception"))] [.mk 3 (some (nm "Exception")) (some "e".toList) [st 4 .pass]] [] []),
  st 5 (.expr (nm "e"))]
theorem witness_b : famB "e".toList wBp = true ∧ (runProgram 100 wBp [] wS).1.ne = ["e".toList] ∧
    soundOn wB [{}] wS 100 wBp [] = false := by decide

/-- (c) `k += _K` -/
def wC : List Stmt := [st 1 (.augAssign (nm "k") .const)]
theorem witness_c : famC "k".toList wC = true ∧ (runProgram 100 wC [] wS).1.ne = ["k".toList] ∧
    soundOn wB [{}] wS 100 wC [] = false := by decide

/-- (d) `class C:` / ` x = C` -/
def wD : List Stmt := [st 1 (.classDef "C".toList [] [st 2 (.assign [nm "x"] (nm "C"))] [])]
theorem witness_d : famD "C".toList wD = true ∧ (runProgram 100 wD [] wS).1.ne = ["C".toList] ∧
    soundOn wB [{}] wS 100 wD [] = false := by decide

/-- (h) `class K(K):` / ` pass` -/
def wH : List Stmt := [st 1 (.classDef "K".toList [nm "K"] [st 2 .pass] [])]
theorem witness_h : famD "K".toList wH = true ∧ (runProgram 100 wH [] wS).1.ne = ["K".toList] ∧
    soundOn wB [{}] wS 100 wH [] = false := by decide

/-- (d') `D` / `class D:` / ` pass`  — a read *before* a later class of that name is un-reported too -/
def wD2 : List Stmt := [st 1 (.expr (nm "D")), st 2 (.classDef "D".toList [] [st 3 .pass] [])]
theorem witness_d2 : famD "D".toList wD2 = true ∧ (runProgram 100 wD2 [] wS).1.ne = ["D".toList] ∧
    soundOn wB [{}] wS 100 wD2 [] = false := by decide

/-- (e) `if False:` / ` x = _K` / `x` -/
def wE : List Stmt := [st 1 (.if_ (.bool false) [st 2 (.assign [nm "x"] .const)] []), st 3 (.expr (nm "x"))]
theorem witness_e : famE "x".toList wE = true ∧ (runProgram 100 wE [] wS).1.ne = ["x".toList] ∧
    soundOn wB [{}] wS 100 wE [] = false := by decide

/-- (f) `for c in [c]:` / ` pass` -/
def wF : List Stmt := [st 1 (.for_ (nm "c") (.list [nm "c"]) [st 2 .pass] [])]
theorem witness_f : famF "c".toList wF = true ∧ (runProgram 100 wF [] wS).1.ne = ["c".toList] ∧
    soundOn wB [{}] wS 100 wF [] = false := by decide

/-- (g) `x: _K = x` -/
def wG : List Stmt := [st 1 (.annAssign (nm "x") .const (some (nm "x")))]
theorem witness_g : famG "x".toList wG = true ∧ (runProgram 100 wG [] wS).1.ne = ["x".toList] ∧
    soundOn wB [{}] wS 100 wG [] = false := by decide

/-- (g') `x: x`  — an annotation without value binds nothing at run time -/
def wG2 : List Stmt := [st 1 (.annAssign (nm "x") (nm "x") none)]
theorem witness_g2 : famG "x".toList wG2 = true ∧ (runProgram 100 wG2 [] wS).1.ne = ["x".toList] ∧
    soundOn wB [{}] wS 100 wG2 [] = false := by decide

/-- (i) `a.b = _K` -/
def wI : List Stmt := [st 1 (.assign [.attr (nm "a") "b".toList] .const)]
theorem witness_i : famI "a".toList wI = true ∧ (runProgram 100 wI [] wS).1.ne = ["a".toList] ∧
    soundOn wB [{}] wS 100 wI [] = false := by decide

/-- (j) `def f(p, q: p):` / ` pass` -/
def wJ : List Stmt := [st 1 (.funcDef "f".toList (.mk [.mk "p".toList none, .mk "q".toList (some (nm "p"))] [] none [] [] none)
  [st 2 .pass] [] none)]
theorem witness_j : famJ "p".toList wJ = true ∧ (runProgram 100 wJ [] wS).1.ne = ["p".toList] ∧
    soundOn wB [{}] wS 100 wJ [] = false := by decide

/-- (l) `def f():` / ` return [_K for x in [_K(_K for y in [_K] if x)]]` / `f()` -/
def wL : List Stmt := [st 1 (.funcDef "f".toList noArgs [st 2 (.return_ (some
  (.comp .list [.const] [.mk (nm "x") (.list [.call .const [.comp .gen [.const] [.mk (nm "y") (.list [.const]) [nm "x"]]]]) []])))] [] none)]
def wLcalls : List Stmt := [st 3 (.expr (.call (nm "f") []))]
theorem witness_l : famL "x".toList wL = true ∧ (runProgram 100 wL wLcalls wS).1.ne = ["x".toList] ∧
    soundOn wB [{}] wS 100 wL wLcalls = false := by decide

/-- with the proposed repairs (fixes/C05-D9bcfg.diff, fixes/C05-D9a.diff) in the model, the witnesses of families
    (a), (b), (c), (f), (g) are reported; (d), (e), (h), (i), (j) stay un-reported (known findings). -/
def allFixes : Fixes := { exceptUnbind := true, augLoad := true, forIterFirst := true, annValueFirst := true, compScope := true }
def soundOnFx (fx : Fixes) (body : List Stmt) : Bool :=
  (runProgram 100 body [] wS).1.ne.all fun n => (findMissingFx fx {} wB [{}] body).any fun d => headOf d = n
example : [wA, wBp, wC, wF, wG, wG2].all (soundOnFx allFixes) = true := by decide
example : [wD, wH, wD2, wE, wI, wJ].all (fun p => !soundOnFx allFixes p) = true := by decide

/-- a program outside every family on which the decidable soundness check holds (functions, closures, a class whose
    method reads a class-level name, a comprehension, a deferred read resolved by a later definition) -/
def wOK : List Stmt :=
  [st 1 (.funcDef "f".toList noArgs [st 2 (.return_ (some (.call (nm "g") [nm "late", nm "missing1"])))] [] none),
   st 3 (.classDef "C".toList [] [st 4 (.assign [nm "a"] .const),
      st 5 (.funcDef "m".toList (.mk [.mk "self".toList none] [] none [] [] none) [st 6 (.return_ (some (nm "a")))] [] none)] []),
   st 7 (.assign [nm "late"] (.comp .list [nm "i"] [.mk (nm "i") (.list [.const, nm "missing2"]) []])),
   st 8 (.funcDef "g".toList (.mk [.mk "p".toList none, .mk "q".toList none] [] none [] [] none) [st 9 (.return_ (some (nm "p")))] [] none)]
def wOKcalls : List Stmt :=
  [st 10 (.expr (.call (nm "f") [])), st 11 (.expr (.call (.attr (nm "C") "m".toList) [.const]))]
example : (findMissing {} wB [{}] (wOK ++ wOKcalls)) = ["a".toList, "missing1".toList, "missing2".toList] := by decide
example : (runProgram 200 wOK wOKcalls wS).1.ne = ["missing2".toList] := by decide
example : soundOn wB [{}] wS 200 wOK wOKcalls = true := by decide
example : outsideFamilies "missing2".toList (wOK ++ wOKcalls) = true := by decide
end Witness

/-! ### C02 clause: an import whose binding is read is not reported unused (`Pfb.C05.Unused`) -/
/-! ### fragment E: examples and the excluded sub-cases -/
section FragE
def fxE : Fixes := { augLoad := true, delDotted := true }
/-- `import pa.s1` ; `x = pa.s1.m1` ; `x += _K` ; `del x` ; `del pa` ; `y = x` -/
def exProgE : List Stmt :=
  [.located 1 (.import_ [⟨"pa.s1".toList, none⟩]),
   .located 2 (.assign [.name "x".toList] (.attr (.attr (.name "pa".toList) "s1".toList) "m1".toList)),
   .located 3 (.augAssign (.name "x".toList) (.name "_K".toList)),
   .located 4 (.delete [.name "x".toList]),
   .located 5 (.delete [.name "pa".toList]),
   .located 6 (.assign [.name "y".toList] (.name "x".toList))]
example : fragE true exProgE = true ∧ delBound [] exProgE = true ∧ hasAug exProgE = true ∧ hasDel exProgE = true := by decide
example : delNames exProgE = ["x".toList, "pa".toList] := by decide
example : (runProgram 100 exProgE [] (mkState exBuiltins exNs)).1.ne = ["x".toList] := by decide +kernel
example : findMissingFx fxE {} exBuiltins exNs exProgE = ["x".toList] := by decide +kernel
/-- the dotted keys go with the deleted head: `import pa.s1` ; `del pa` ; `pa.s1.m1` reports `pa.s1.m1` -/
def exProgE2 : List Stmt :=
  [.located 1 (.import_ [⟨"pa.s1".toList, none⟩]), .located 2 (.delete [.name "pa".toList]),
   .located 3 (.expr (.attr (.attr (.name "pa".toList) "s1".toList) "m1".toList))]
example : (runProgram 100 exProgE2 [] (mkState exBuiltins exNs)).1.ne = ["pa".toList] := by decide +kernel
example : findMissingFx fxE {} exBuiltins exNs exProgE2 = ["pa.s1.m1".toList] := by decide +kernel
example : isOk (runProgram 100 (exProgE.take 5) [] (mkState exBuiltins exNs)).2 = true := by decide +kernel
example : (exProgE.take 5).all plainStmtE = true := by decide
example : findMissingFx fxE {} exBuiltins exNs (exProgE.take 5) = [] := by decide +kernel

/-- **`del` of a name that is not bound** (`delBound` fails): `del y` raises NameError, `visit_Delete` never loads its
    target, nothing is reported — with every repair. -/
def wDelUnbound : List Stmt := [.located 1 (.delete [.name "y".toList])]
theorem witness_del_unbound :
    fragE false wDelUnbound = true ∧ delBound [] wDelUnbound = false ∧
    (runProgram 100 wDelUnbound [] wS).1.ne = ["y".toList] ∧ findMissingFx fxE {} wB [{}] wDelUnbound = [] := by decide +kernel

/-- **`del` of a name that a caller namespace binds**: `x = _K` ; `del x` ; `x` with `x` in the caller's namespace.  The run
    unbinds `x`; the analysis only removes it from its private scope and still sees the caller's binding. -/
def wDelNs : List Stmt :=
  [.located 1 (.assign [.name "x".toList] (.name "_K".toList)), .located 2 (.delete [.name "x".toList]),
   .located 3 (.expr (.name "x".toList))]
def wDelNsScopes : List Scope := [{ items := [("x".toList, .obj 7)] }]
theorem witness_del_caller_ns :
    fragE false wDelNs = true ∧ delBound [] wDelNs = true ∧ boundIn (wDelNsScopes.headD {}) "x".toList = true ∧
    (runProgram 100 wDelNs [] (mkState wB wDelNsScopes)).1.ne = ["x".toList] ∧
    findMissingFx fxE {} wB wDelNsScopes wDelNs = [] := by decide +kernel

/-- **`del` of the head of a dotted import without the `delDotted` repair** (the tree before 1b2307d):
    `import pa.s1` ; `del pa` ; `pa.s1.m1` — the key `pa.s1` stays bound, nothing is reported, the run raises NameError. -/
theorem witness_del_dotted :
    fragE true exProgE2 = true ∧ delBound [] exProgE2 = true ∧
    (runProgram 100 exProgE2 [] (mkState exBuiltins exNs)).1.ne = ["pa".toList] ∧
    findMissingFx { augLoad := true } {} exBuiltins exNs exProgE2 = [] := by decide +kernel

/-- **`del` after a function that reads the name** (why fragment E has no function definitions):
    `x = _K` ; `def f(): return x` ; `del x` — then `f()`.  The read in the body is resolved when the body is visited
    (`x` bound: no deferred entry), the later `del` is not seen by it. -/
def wDelDef : List Stmt :=
  [.located 1 (.assign [.name "x".toList] (.name "_K".toList)),
   .located 2 (.funcDef "f".toList (.mk [] [] none [] [] none) [.located 3 (.return_ (some (.name "x".toList)))] [] none),
   .located 4 (.delete [.name "x".toList])]
def wDelDefCalls : List Stmt := [.located 5 (.expr (.call (.name "f".toList) []))]
theorem witness_del_after_def :
    (runProgram 100 wDelDef wDelDefCalls wS).1.ne = ["x".toList] ∧
    findMissingFx fxE {} wB [{}] (wDelDef ++ wDelDefCalls) = [] := by decide +kernel
end FragE

section UnusedExamples
def uB : Scope := { items := [("_K".toList, .none), ("len".toList, .none)] }
def uS : XState := { builtins := ["_K".toList, "len".toList, "__file__".toList] }
/-- `import pa` ; `import pb.s1 as q` ; `from pa import m1, m2 as y` ; `x = (pa.m1, y)` ; `pa = _K` ; `z = pa` -/
def uProg : List Stmt :=
  [.located 1 (.import_ [⟨"pa".toList, none⟩]),
   .located 2 (.import_ [⟨"pb.s1".toList, some "q".toList⟩]),
   .located 3 (.importFrom "pa".toList [⟨"m1".toList, none⟩, ⟨"m2".toList, some "y".toList⟩]),
   .located 4 (.assign [.name "x".toList] (.tuple [.attr (.name "pa".toList) "m1".toList, .name "y".toList])),
   .located 5 (.assign [.name "pa".toList] .const),
   .located 6 (.assign [.name "z".toList] (.name "pa".toList))]
example : fragB true uProg = true := by decide
example : uProg.all simpleImportStmt = true := by decide
example : linesOK [] uProg = true := by decide
example : builtinsPlain uB = true := by decide
example : AgreeU uS := ⟨rfl, rfl, rfl⟩
/-- the run reads `pa` (line 1, alias 0) and `y` (line 3, alias 1); the later read of `pa` resolves to the assignment -/
example : (runProgram 100 uProg [] uS).1.usedImps = [(1, 0), (3, 1)] := by decide +kernel
/-- reported unused: `import pb.s1 as q` and `from pa import m1` -/
example : findUnused {} uB uProg = [(2, 0), (3, 0)] := by decide +kernel

/-- **Witness that the clause fails for re-bound heads of dotted imports** (hence `simpleImportStmt`):
    `import pa.s1` ; `import pa.s2` ; `pa.s1.m1`.  The read of `pa` resolves to the binding (re)created by line 2, whose
    checker is only reachable under the keys `pa` and `pa.s2`; the longest bound prefix of `pa.s1.m1` is `pa.s1` (line 1),
    so line 2 is reported unused.  (Removing it is harmless: line 1 binds `pa` to the same package.) -/
def wDots : List Stmt :=
  [.located 1 (.import_ [⟨"pa.s1".toList, none⟩]), .located 2 (.import_ [⟨"pa.s2".toList, none⟩]),
   .located 3 (.expr (.attr (.attr (.name "pa".toList) "s1".toList) "m1".toList))]
theorem witness_dotted_rebind :
    fragB true wDots = true ∧ wDots.all simpleImportStmt = false ∧
    (2, 0) ∈ (runProgram 100 wDots [] uS).1.usedImps ∧ (2, 0) ∈ findUnused {} uB wDots := by decide +kernel

/-- **C02_read_import_not_unused_fragC.**  The clause on fragment C (module-level functions with straight-line bodies,
    called only after the last module-level statement): if the reference run — at module level, in the arguments of a
    trailing call, or inside a called function body — performs a successful read of a global whose current binding was
    created by alias `idx` of the import statement on line `l`, then `(l, idx)` is not reported unused.  Reads in function
    bodies are marked when the body is visited (twice) and, against a clone of the body scope, when the module is
    complete (`_deferred_load_checks` / `_deferred_use_marks`).  Beyond the hypotheses of the fragment-B theorem: no import
    alias binds the name of a function defined by the program (`namesApart`; see `witness_import_rebinds_def`), the
    builtins namespace is not a class scope, the run starts without function objects. -/
theorem C02_read_import_not_unused_fragC (fx : Fixes) (builtins : Scope) (prog calls : List Stmt) (s0 : XState) (fuel : Nat)
    (D : Bool) (hfr : fragC D prog = true) (hcalls : calls.all (fragCall D) = true)
    (hsi : prog.all simpleImportStmt = true) (hl : linesOK [] prog = true)
    (hna : namesApart (defNames prog) prog = true)
    (hb : builtinsPlain builtins = true) (hbc : builtins.isClass = false) (h0 : AgreeU s0) (hf : s0.funcs = []) :
    ∀ i ∈ (runProgram fuel prog calls s0).1.usedImps, i ∉ findUnused fx builtins (prog ++ calls) :=
  read_not_unused_fragC fx D builtins prog calls s0 fuel hfr hcalls hsi hl hna hb hbc h0 hf

/-- fragment C: `import pa` ; `from pb import m1 as q, m2` ; `def f(a):` / ` t = pa.m1` / ` return (t, q, a)` ; `import pb as pa`
    — then `f(q)`.  When `f` runs, `pa` is the binding of line 6 and `q` that of line 2. -/
def uProgC : List Stmt :=
  [.located 1 (.import_ [⟨"pa".toList, none⟩]),
   .located 2 (.importFrom "pb".toList [⟨"m1".toList, some "q".toList⟩, ⟨"m2".toList, none⟩]),
   .located 3 (.funcDef "f".toList (.mk [.mk "a".toList none] [] none [] [] none)
      [.located 4 (.assign [.name "t".toList] (.attr (.name "pa".toList) "m1".toList)),
       .located 5 (.return_ (some (.tuple [.name "t".toList, .name "q".toList, .name "a".toList])))]
      [] none),
   .located 6 (.import_ [⟨"pb".toList, some "pa".toList⟩])]
def uCallsC : List Stmt := [.located 7 (.expr (.call (.name "f".toList) [.name "q".toList]))]
example : fragC true uProgC = true ∧ uCallsC.all (fragCall true) = true ∧ uProgC.all simpleImportStmt = true ∧
    linesOK [] uProgC = true ∧ namesApart (defNames uProgC) uProgC = true := by decide
example : (runProgram 100 uProgC uCallsC uS).1.usedImps = [(2, 0), (6, 0)] := by decide +kernel
/-- reported unused: only `m2` of line 2 (`import pa` of line 1 is never read at run time, but visiting the body of `f`
    marks it: the analysis errs on the side of keeping imports) -/
example : findUnused {} uB (uProgC ++ uCallsC) = [(2, 1)] := by decide +kernel

/-- **Witness that the clause fails when an import re-binds the name of a function** (hence `namesApart`):
    `def f():` / ` return f` ; `g = f` ; `import pa as f` — then `g()`.  The body reads the global `f`, which is the module
    when `g` runs; the deferred entry looks `f` up in the clone of the body scope, where the function's own name is bound,
    and never reaches the import: line 3 is reported unused although the run reads it. -/
def wDefName : List Stmt :=
  [.located 1 (.funcDef "f".toList (.mk [] [] none [] [] none) [.located 2 (.return_ (some (.name "f".toList)))] [] none),
   .located 3 (.assign [.name "g".toList] (.name "f".toList)),
   .located 4 (.import_ [⟨"pa".toList, some "f".toList⟩])]
def wDefNameCalls : List Stmt := [.located 5 (.expr (.call (.name "g".toList) []))]
theorem witness_import_rebinds_def :
    fragC false wDefName = true ∧ wDefNameCalls.all (fragCall false) = true ∧ wDefName.all simpleImportStmt = true ∧
    linesOK [] wDefName = true ∧ namesApart (defNames wDefName) wDefName = false ∧
    (4, 0) ∈ (runProgram 100 wDefName wDefNameCalls uS).1.usedImps ∧
    (4, 0) ∈ findUnused {} uB (wDefName ++ wDefNameCalls) := by decide +kernel
end UnusedExamples

end Pfb.C05
