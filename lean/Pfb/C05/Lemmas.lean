/-
  Pfb.C05.Lemmas — fragment A is contained in fragment B (without dotted names); its theorems are corollaries of
  the fragment-B simulation in `Pfb.C05.LemmasB`.
-/
import Pfb.C05.LemmasB
namespace Pfb.C05
open Pfb Pfb.PyCore

mutual
  theorem fragA_B_expr : ∀ e : Expr, fragAExpr e = true → fragBExpr false e = true
    | .name n, h => by simpa [fragAExpr, fragBExpr] using h
    | .const, _ => rfl
    | .bool _, _ => rfl
    | .str _, _ => rfl
    | .binop l r, h => by
      simp only [fragAExpr, Bool.and_eq_true] at h
      simp only [fragBExpr, Bool.and_eq_true]; exact ⟨fragA_B_expr l h.1, fragA_B_expr r h.2⟩
    | .ifExp t a b, h => by
      simp only [fragAExpr, Bool.and_eq_true] at h
      simp only [fragBExpr, Bool.and_eq_true]; exact ⟨⟨fragA_B_expr t h.1.1, fragA_B_expr a h.1.2⟩, fragA_B_expr b h.2⟩
    | .tuple es, h => by simp only [fragAExpr] at h; simp only [fragBExpr]; exact fragA_B_exprs es h
    | .list es, h => by simp only [fragAExpr] at h; simp only [fragBExpr]; exact fragA_B_exprs es h
    | .subscript v i, h => by
      simp only [fragAExpr, Bool.and_eq_true] at h
      simp only [fragBExpr, Bool.and_eq_true]; exact ⟨fragA_B_expr v h.1, fragA_B_expr i h.2⟩
    | .attr _ _, h => by simp [fragAExpr] at h
    | .call _ _, h => by simp [fragAExpr] at h
    | .lambda _ _, h => by simp [fragAExpr] at h
    | .comp _ _ _, h => by simp [fragAExpr] at h
  theorem fragA_B_exprs : ∀ es : List Expr, fragAExprs es = true → fragBExprs false es = true
    | [], _ => rfl
    | e :: es, h => by
      simp only [fragAExprs, Bool.and_eq_true] at h
      simp only [fragBExprs, Bool.and_eq_true]; exact ⟨fragA_B_expr e h.1, fragA_B_exprs es h.2⟩
end

theorem fragA_B_stmt : ∀ s : Stmt, fragAStmt s = true → fragBStmt false s = true
  | .expr e, h => by simp only [fragAStmt] at h; simp only [fragBStmt]; exact fragA_B_expr e h
  | .assign ts e, h => by
    simp only [fragAStmt, Bool.and_eq_true] at h
    simp only [fragBStmt, Bool.and_eq_true]; exact ⟨h.1, fragA_B_expr e h.2⟩
  | .pass, _ => rfl
  | .located _ s, h => by simp only [fragAStmt] at h; simp only [fragBStmt]; exact fragA_B_stmt s h
  | .augAssign _ _, h => by simp [fragAStmt] at h
  | .annAssign _ _ _, h => by simp [fragAStmt] at h
  | .import_ _, h => by simp [fragAStmt] at h
  | .importFrom _ _, h => by simp [fragAStmt] at h
  | .funcDef _ _ _ _ _, h => by simp [fragAStmt] at h
  | .classDef _ _ _ _, h => by simp [fragAStmt] at h
  | .for_ _ _ _ _, h => by simp [fragAStmt] at h
  | .while_ _ _ _, h => by simp [fragAStmt] at h
  | .if_ _ _ _, h => by simp [fragAStmt] at h
  | .with_ _ _, h => by simp [fragAStmt] at h
  | .try_ _ _ _ _, h => by simp [fragAStmt] at h
  | .return_ _, h => by simp [fragAStmt] at h
  | .raise_ _, h => by simp [fragAStmt] at h
  | .delete _, h => by simp [fragAStmt] at h
  | .global_ _, h => by simp [fragAStmt] at h
  | .nonlocal_ _, h => by simp [fragAStmt] at h

theorem fragA_B {prog : List Stmt} (h : fragA prog = true) : fragB false prog = true := by
  simp only [fragA, fragB, List.all_eq_true] at h ⊢
  exact fun s hs => fragA_B_stmt s (h s hs)

theorem plainStmt_B : ∀ s : Stmt, plainStmt s = plainStmtB s
  | .located _ s => by simp only [plainStmt, plainStmtB]; exact plainStmt_B s
  | .expr _ => rfl
  | .assign _ _ => rfl
  | .augAssign _ _ => rfl
  | .annAssign _ _ _ => rfl
  | .import_ _ => rfl
  | .importFrom _ _ => rfl
  | .funcDef _ _ _ _ _ => rfl
  | .classDef _ _ _ _ => rfl
  | .for_ _ _ _ _ => rfl
  | .while_ _ _ _ => rfl
  | .if_ _ _ _ => rfl
  | .with_ _ _ => rfl
  | .try_ _ _ _ _ => rfl
  | .return_ _ => rfl
  | .pass => rfl
  | .raise_ _ => rfl
  | .delete _ => rfl
  | .global_ _ => rfl
  | .nonlocal_ _ => rfl

end Pfb.C05
