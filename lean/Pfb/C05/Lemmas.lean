/-
  Pfb.C05.Lemmas — simulation between the reference semantics (`Pfb.PyCore.Exec`) and the analysis model
  (`Pfb.PyCore.Analyze`) on fragment A.
-/
import Pfb.C05.Model
import Pfb.PyCore.AnalyzeLemmas
namespace Pfb.C05
open Pfb Pfb.PyCore

/-! ### the `X` monad -/

theorem X.bind_def {α β} (m : X α) (f : α → X β) (s : XState) :
    (m >>= f) s = match m s with
      | (s', .ok a) => f a s'
      | (s', .error e) => (s', .error e) := rfl

theorem X.pure_def {α} (a : α) (s : XState) : (pure a : X α) s = (s, .ok a) := rfl

/-! ### reference semantics on fragment-A expressions -/

def unboundX (s : XState) (n : Str) : Prop := assocGet n s.globals = none ∧ s.builtins.contains n = false

/-- `s'` differs from `s` at most in the record of raised exceptions -/
def SameUpToLog (s s' : XState) : Prop := s' = { s with ne := s'.ne, otherRaised := s'.otherRaised }

theorem SameUpToLog.refl (s : XState) : SameUpToLog s s := rfl

/-- what evaluating (part of) a fragment-A expression at module level can do -/
structure EvalA {α} (s : XState) (names : List Str) (noIf : Bool) (res : XState × Except Exc α) : Prop where
  ok : ∀ v, res.2 = .ok v → res.1 = s ∧ (noIf = true → ∀ n ∈ names, ¬ unboundX s n)
  err : ∀ x, res.2 = .error x → SameUpToLog s res.1 ∧
    ((∃ n, x = .nameError n ∧ res.1.ne = addOnce n s.ne ∧ n ∈ names ∧ unboundX s n) ∨
     ((∀ n, x ≠ .nameError n) ∧ res.1.ne = s.ne))

theorem EvalA.pure {α} (s : XState) (a : α) : EvalA s [] true ((Pure.pure a : X α) s) :=
  ⟨fun _ _ => ⟨rfl, fun _ n hn => by simp at hn⟩, fun x hx => by cases hx⟩

theorem EvalA.mono {α} {s : XState} {N N' : List Str} {b : Bool} {res : XState × Except Exc α}
    (h : EvalA s N b res) (hsub : ∀ n ∈ N, n ∈ N') : EvalA s N' false res :=
  ⟨fun v hv => ⟨(h.ok v hv).1, fun hf => by cases hf⟩,
   fun x hx => by
    obtain ⟨h1, h2⟩ := h.err x hx
    refine ⟨h1, ?_⟩
    rcases h2 with ⟨n, hn, hne, hmem, hu⟩ | h2
    · exact .inl ⟨n, hn, hne, hsub n hmem, hu⟩
    · exact .inr h2⟩

theorem EvalA.mono' {α} {s : XState} {N N' : List Str} {b : Bool} {res : XState × Except Exc α}
    (h : EvalA s N b res) (hsub : ∀ n ∈ N, n ∈ N') (hsup : b = true → ∀ n ∈ N', n ∈ N) : EvalA s N' b res :=
  ⟨fun v hv => ⟨(h.ok v hv).1, fun hf n hn => (h.ok v hv).2 hf n (hsup hf n hn)⟩,
   fun x hx => by
    obtain ⟨h1, h2⟩ := h.err x hx
    refine ⟨h1, ?_⟩
    rcases h2 with ⟨n, hn, hne, hmem, hu⟩ | h2
    · exact .inl ⟨n, hn, hne, hsub n hmem, hu⟩
    · exact .inr h2⟩

/-- sequencing: the continuation runs from the unchanged state -/
theorem EvalA.bind {α β} {s : XState} {N1 N2 : List Str} {b1 b2 : Bool} {m : X α} {f : α → X β}
    (h1 : EvalA s N1 b1 (m s)) (h2 : ∀ a, EvalA s N2 b2 (f a s)) :
    EvalA s (N1 ++ N2) (b1 && b2) ((m >>= f) s) := by
  rw [X.bind_def]
  cases hm : m s with
  | mk s' r =>
    cases r with
    | ok a =>
      rw [hm] at h1
      obtain ⟨hs, hn1⟩ := h1.ok a rfl
      simp only at hs
      subst hs
      simp only
      constructor
      · intro v hv
        obtain ⟨hs2, hn2⟩ := (h2 a).ok v hv
        refine ⟨hs2, fun hb n hn => ?_⟩
        simp only [Bool.and_eq_true] at hb
        rcases List.mem_append.mp hn with hn | hn
        · exact hn1 hb.1 n hn
        · exact hn2 hb.2 n hn
      · intro x hx
        obtain ⟨hs2, h3⟩ := (h2 a).err x hx
        refine ⟨hs2, ?_⟩
        rcases h3 with ⟨n, hn, hne, hmem, hu⟩ | h3
        · exact .inl ⟨n, hn, hne, List.mem_append_right _ hmem, hu⟩
        · exact .inr h3
    | error e =>
      rw [hm] at h1
      simp only
      constructor
      · intro v hv; cases hv
      · intro x hx
        have hex : e = x := by simpa using hx
        subst hex
        obtain ⟨hs2, h3⟩ := h1.err e rfl
        refine ⟨hs2, ?_⟩
        rcases h3 with ⟨n, hn, hne, hmem, hu⟩ | h3
        · exact .inl ⟨n, hn, hne, List.mem_append_left _ hmem, hu⟩
        · exact .inr h3

theorem EvalA.raiseOther {α} (s : XState) : EvalA s [] true ((raiseOther : X α) s) := by
  constructor
  · intro v hv; cases hv
  · intro x hx
    have : x = .other := by simpa [Pfb.PyCore.raiseOther] using hx.symm
    subst this
    exact ⟨rfl, .inr ⟨(fun n hn => nomatch hn), rfl⟩⟩

theorem EvalA.fuel {α} (s : XState) : EvalA s [] true ((X.throw .fuel : X α) s) := by
  constructor
  · intro v hv; cases hv
  · intro x hx
    have : x = .fuel := by simpa [X.throw] using hx.symm
    subst this
    exact ⟨rfl, .inr ⟨(fun n hn => nomatch hn), rfl⟩⟩

theorem EvalA.fuel_any {α} (s : XState) (N : List Str) (b : Bool) : EvalA s N b ((X.throw .fuel : X α) s) := by
  constructor
  · intro v hv; cases hv
  · intro x hx
    have : x = .fuel := by simpa [X.throw] using hx.symm
    subst this
    exact ⟨rfl, .inr ⟨(fun n hn => nomatch hn), rfl⟩⟩

theorem EvalA.readName (s : XState) (n : Str) : EvalA s [n] true (readName {} n s) := by
  simp only [Pfb.PyCore.readName, globalLookup]
  cases hg : assocGet n s.globals with
  | some v =>
    simp only
    exact ⟨fun _ _ => ⟨rfl, fun _ m hm => by
      simp only [List.mem_singleton] at hm; subst hm
      intro hu; rw [hu.1] at hg; cases hg⟩, fun x hx => by cases hx⟩
  | none =>
    simp only
    split
    · rename_i hb
      exact ⟨fun _ _ => ⟨rfl, fun _ m hm => by
        simp only [List.mem_singleton] at hm; subst hm
        intro hu; rw [hu.2] at hb; cases hb⟩, fun x hx => by cases hx⟩
    · rename_i hb
      constructor
      · intro v hv; cases hv
      · intro x hx
        simp only [raiseName] at hx ⊢
        cases hx
        exact ⟨rfl, .inl ⟨n, rfl, rfl, List.mem_singleton.mpr rfl, hg, by simpa using hb⟩⟩

theorem EvalA.binop (s : XState) (a b : RVal) : EvalA s [] true (binop a b s) := by
  unfold Pfb.PyCore.binop
  split <;> first | exact EvalA.pure s _ | exact EvalA.raiseOther s

theorem EvalA.subscriptGet (s : XState) (a : RVal) : EvalA s [] true (subscriptGet a s) := by
  unfold Pfb.PyCore.subscriptGet
  split <;> first | exact EvalA.pure s _ | exact EvalA.raiseOther s

theorem evalA (f : Nat) :
    (∀ e s, fragAExpr e = true → EvalA s (namesOf e) (noIfExpr e) (evalExpr f {} e s)) ∧
    (∀ es s, fragAExprs es = true → EvalA s (namesOfs es) (noIfExprs es) (evalExprs f {} es s)) := by
  induction f with
  | zero =>
    constructor
    · intro e s _
      rw [evalExpr]
      exact EvalA.fuel_any s _ _
    · intro es s _
      rw [evalExprs]
      exact EvalA.fuel_any s _ _
  | succ f ih =>
    obtain ⟨ihe, ihes⟩ := ih
    constructor
    · intro e s hfr
      cases e with
      | name n =>
        simp only [evalExpr, namesOf, noIfExpr]
        exact EvalA.readName s n
      | const => simp only [evalExpr, namesOf, noIfExpr]; exact EvalA.pure s _
      | bool b => simp only [evalExpr, namesOf, noIfExpr]; exact EvalA.pure s _
      | str _ => simp only [evalExpr, namesOf, noIfExpr]; exact EvalA.pure s _
      | binop l r =>
        simp only [fragAExpr, Bool.and_eq_true] at hfr
        simp only [evalExpr, namesOf, noIfExpr]
        have h := EvalA.bind (ihe l s hfr.1) (fun a => EvalA.bind (ihe r s hfr.2) (fun b => EvalA.binop s a b))
        simpa using h
      | subscript v i =>
        simp only [fragAExpr, Bool.and_eq_true] at hfr
        simp only [evalExpr, namesOf, noIfExpr]
        have h := EvalA.bind (ihe v s hfr.1) (fun a => EvalA.bind (ihe i s hfr.2) (fun _ => EvalA.subscriptGet s a))
        simpa using h
      | tuple es =>
        simp only [fragAExpr] at hfr
        simp only [evalExpr, namesOf, noIfExpr]
        have h := EvalA.bind (ihes es s hfr) (fun vs => EvalA.pure s (RVal.seq vs))
        simpa using h
      | list es =>
        simp only [fragAExpr] at hfr
        simp only [evalExpr, namesOf, noIfExpr]
        have h := EvalA.bind (ihes es s hfr) (fun vs => EvalA.pure s (RVal.seq vs))
        simpa using h
      | ifExp t a b =>
        simp only [fragAExpr, Bool.and_eq_true] at hfr
        simp only [evalExpr, namesOf, noIfExpr]
        have hbr : ∀ tv : RVal, EvalA s (namesOf a ++ namesOf b) false
            ((if truthy tv = true then evalExpr f {} a else evalExpr f {} b) s) := by
          intro tv
          split
          · exact (ihe a s hfr.1.2).mono (fun n hn => List.mem_append_left _ hn)
          · exact (ihe b s hfr.2).mono (fun n hn => List.mem_append_right _ hn)
        have h := EvalA.bind (ihe t s hfr.1.1) hbr
        simpa [List.append_assoc] using h
      | attr _ _ => simp [fragAExpr] at hfr
      | call _ _ => simp [fragAExpr] at hfr
      | lambda _ _ => simp [fragAExpr] at hfr
      | comp _ _ _ => simp [fragAExpr] at hfr
    · intro es s hfr
      cases es with
      | nil => simp only [evalExprs, namesOfs, noIfExprs]; exact EvalA.pure s _
      | cons e es =>
        simp only [fragAExprs, Bool.and_eq_true] at hfr
        simp only [evalExprs, namesOfs, noIfExprs]
        have h := EvalA.bind (ihe e s hfr.1) (fun v => EvalA.bind (ihes es s hfr.2) (fun vs => EvalA.pure s (v :: vs)))
        simpa using h

/-! ### analysis on fragment-A expressions -/

theorem splitDots_simple {n : Str} (h : n.contains '.' = false) : splitDots n = [n] := by
  induction n with
  | nil => rfl
  | cons c cs ih =>
    simp only [List.contains_cons, Bool.or_eq_false_iff, beq_eq_false_iff_ne, ne_eq] at h
    unfold splitDots
    have hc : ¬ c = '.' := fun hh => h.1 hh.symm
    rw [if_neg hc, ih h.2]

theorem simpleName_split {n : Str} (h : simpleName n = true) : splitDots n = [n] := by
  simp only [simpleName, Bool.and_eq_true, Bool.not_eq_true'] at h
  exact splitDots_simple h.1

def unboundA (st : AState) (n : Str) : Prop := ∀ i ∈ normIds st.stack.ids, (st.heap.get i).get n = none

def noStarA (st : AState) : Prop := hasStar st.heap st.stack.ids = false

theorem sni_simple (reg : Registry) (heap : Heap) (ids : List Nat) {n : Str} (h : simpleName n = true) :
    (symbolNeedsImport reg heap ids n).1 = true ↔ ∀ i ∈ normIds ids, (heap.get i).get n = none := by
  rw [symbolNeedsImport_spec, simpleName_split h]
  simp only [prefixes, List.map_nil, List.mem_singleton, forall_eq, joinDots, List.length_singleton,
    List.drop_one, List.tail_cons]
  constructor
  · intro hh i hi
    cases hg : (heap.get i).get n with
    | none => rfl
    | some var =>
      obtain ⟨pre, part, post, _, _, hnil, _⟩ := hh i hi var hg
      simp at hnil
  · intro hh i hi var hg
    rw [hh i hi] at hg; cases hg

/-- what the analysis of (part of) a fragment-A expression does at module level -/
structure AnaA (st st' : AState) (names : List Str) : Prop where
  heap : st'.heap = st.heap
  stack : st'.stack = st.stack
  inFunc : st'.inFunc = st.inFunc
  deferred : st'.deferred = st.deferred
  mono : ∀ m ∈ st.missing, m ∈ st'.missing
  found : ∀ n ∈ names, simpleName n = true → unboundA st n → noStarA st → ∃ m ∈ st'.missing, m.name = n
  same : (∀ n ∈ names, ¬ unboundA st n) → st'.missing = st.missing

theorem AnaA.refl (st : AState) : AnaA st st [] :=
  ⟨rfl, rfl, rfl, rfl, fun _ h => h, fun _ h => by simp at h, fun _ => rfl⟩

theorem AnaA.trans {a b c : AState} {N1 N2 : List Str} (h1 : AnaA a b N1) (h2 : AnaA b c N2) : AnaA a c (N1 ++ N2) := by
  have hu : ∀ n, unboundA b n ↔ unboundA a n := by
    intro n; unfold unboundA; rw [h1.heap, h1.stack]
  have hs : noStarA b ↔ noStarA a := by unfold noStarA; rw [h1.heap, h1.stack]
  constructor
  · rw [h2.heap, h1.heap]
  · rw [h2.stack, h1.stack]
  · rw [h2.inFunc, h1.inFunc]
  · rw [h2.deferred, h1.deferred]
  · intro m hm; exact h2.mono m (h1.mono m hm)
  · intro n hn hsn hun hns
    rcases List.mem_append.mp hn with hn | hn
    · obtain ⟨m, hm, hmn⟩ := h1.found n hn hsn hun hns
      exact ⟨m, h2.mono m hm, hmn⟩
    · exact h2.found n hn hsn ((hu n).mpr hun) (hs.mpr hns)
  · intro hall
    rw [h2.same (fun n hn => fun hc => hall n (List.mem_append_right _ hn) ((hu n).mp hc)),
        h1.same (fun n hn => hall n (List.mem_append_left _ hn))]

theorem anaA_load (reg : Registry) (st : AState) (n : Str) (hf : st.inFunc = false) (hsn : simpleName n = true) :
    AnaA st (runOps reg st [.load n]) [n] := by
  have hrun : runOps reg st [.load n] = checkLoad reg st n st.stack.ids st.line := by
    simp [runOps, step, hf]
  rw [hrun]
  unfold checkLoad
  dsimp only
  by_cases hneed : ((symbolNeedsImport reg st.heap st.stack.ids n).1 && !hasStar (st.emit (symbolNeedsImport reg st.heap st.stack.ids n).2).heap st.stack.ids) = true
  · rw [if_pos hneed]
    split
    · rename_i hany
      refine ⟨rfl, rfl, rfl, rfl, fun _ h => h, ?_, fun _ => rfl⟩
      intro m hm _ _ _
      simp only [List.mem_singleton] at hm; subst hm
      simp only [AState.emit, List.any_eq_true, decide_eq_true_eq] at hany
      obtain ⟨x, hx, _, hxn⟩ := hany
      exact ⟨x, hx, hxn⟩
    · refine ⟨rfl, rfl, rfl, rfl, fun m h => List.mem_append_left _ h, ?_, ?_⟩
      · intro m hm _ _ _
        simp only [List.mem_singleton] at hm; subst hm
        exact ⟨_, List.mem_append_right _ (List.mem_singleton.mpr rfl), rfl⟩
      · intro hall
        exfalso
        -- `n` is bound, so it cannot have needed import
        have hb := hall n (List.mem_singleton.mpr rfl)
        simp only [Bool.and_eq_true] at hneed
        exact hb ((sni_simple reg st.heap st.stack.ids hsn).mp hneed.1)
  · rw [if_neg hneed]
    refine ⟨rfl, rfl, rfl, rfl, fun _ h => h, ?_, fun _ => rfl⟩
    intro m hm _ hun hns
    simp only [List.mem_singleton] at hm; subst hm
    exfalso
    apply hneed
    simp only [Bool.and_eq_true, Bool.not_eq_true']
    exact ⟨(sni_simple reg st.heap st.stack.ids hsn).mpr hun, hns⟩

theorem AnaA.append {reg : Registry} {st : AState} {a b : List Op} {N1 N2 : List Str}
    (h1 : AnaA st (runOps reg st a) N1) (h2 : AnaA (runOps reg st a) (runOps reg (runOps reg st a) b) N2) :
    AnaA st (runOps reg st (a ++ b)) (N1 ++ N2) := by
  rw [runOps_append]; exact h1.trans h2

mutual
  theorem anaA_expr (fx : Fixes) (reg : Registry) : ∀ (e : Expr) (st : AState), fragAExpr e = true → st.inFunc = false →
      AnaA st (runOps reg st (cExpr fx e)) (namesOf e)
    | .name n, st, hfr, hf => by
      simp only [cExpr, namesOf]
      exact anaA_load reg st n hf (by simpa [fragAExpr] using hfr)
    | .const, st, _, _ => by simp only [cExpr, namesOf]; exact AnaA.refl st
    | .bool _, st, _, _ => by simp only [cExpr, namesOf]; exact AnaA.refl st
    | .str _, st, _, _ => by simp only [cExpr, namesOf]; exact AnaA.refl st
    | .binop l r, st, hfr, hf => by
      simp only [fragAExpr, Bool.and_eq_true] at hfr
      simp only [cExpr, namesOf]
      have h1 := anaA_expr fx reg l st hfr.1 hf
      exact AnaA.append h1 (anaA_expr fx reg r _ hfr.2 (by rw [h1.inFunc, hf]))
    | .subscript v i, st, hfr, hf => by
      simp only [fragAExpr, Bool.and_eq_true] at hfr
      simp only [cExpr, namesOf]
      have h1 := anaA_expr fx reg v st hfr.1 hf
      exact AnaA.append h1 (anaA_expr fx reg i _ hfr.2 (by rw [h1.inFunc, hf]))
    | .ifExp t a b, st, hfr, hf => by
      simp only [fragAExpr, Bool.and_eq_true] at hfr
      simp only [cExpr, namesOf]
      have h1 := anaA_expr fx reg t st hfr.1.1 hf
      have h2 := anaA_expr fx reg a _ hfr.1.2 (by rw [h1.inFunc, hf])
      have h12 := AnaA.append h1 h2
      exact AnaA.append h12 (anaA_expr fx reg b _ hfr.2 (by rw [h12.inFunc, hf]))
    | .tuple es, st, hfr, hf => by
      simp only [fragAExpr] at hfr
      simp only [cExpr, namesOf]
      exact anaA_exprs fx reg es st hfr hf
    | .list es, st, hfr, hf => by
      simp only [fragAExpr] at hfr
      simp only [cExpr, namesOf]
      exact anaA_exprs fx reg es st hfr hf
    | .attr _ _, _, hfr, _ => by simp [fragAExpr] at hfr
    | .call _ _, _, hfr, _ => by simp [fragAExpr] at hfr
    | .lambda _ _, _, hfr, _ => by simp [fragAExpr] at hfr
    | .comp _ _ _, _, hfr, _ => by simp [fragAExpr] at hfr
  theorem anaA_exprs (fx : Fixes) (reg : Registry) : ∀ (es : List Expr) (st : AState), fragAExprs es = true → st.inFunc = false →
      AnaA st (runOps reg st (cExprs fx es)) (namesOfs es)
    | [], st, _, _ => by simp only [cExprs, namesOfs]; exact AnaA.refl st
    | e :: es, st, hfr, hf => by
      simp only [fragAExprs, Bool.and_eq_true] at hfr
      simp only [cExprs, namesOfs]
      have h1 := anaA_expr fx reg e st hfr.1 hf
      exact AnaA.append h1 (anaA_exprs fx reg es _ hfr.2 (by rw [h1.inFunc, hf]))
end

mutual
  theorem names_simple : ∀ e : Expr, fragAExpr e = true → ∀ n ∈ namesOf e, simpleName n = true
    | .name n, hfr, m, hm => by
      simp only [namesOf, List.mem_singleton] at hm; subst hm; simpa [fragAExpr] using hfr
    | .const, _, m, hm => by simp [namesOf] at hm
    | .bool _, _, m, hm => by simp [namesOf] at hm
    | .str _, _, m, hm => by simp [namesOf] at hm
    | .binop l r, hfr, m, hm => by
      simp only [fragAExpr, Bool.and_eq_true] at hfr
      simp only [namesOf, List.mem_append] at hm
      rcases hm with hm | hm
      · exact names_simple l hfr.1 m hm
      · exact names_simple r hfr.2 m hm
    | .subscript v i, hfr, m, hm => by
      simp only [fragAExpr, Bool.and_eq_true] at hfr
      simp only [namesOf, List.mem_append] at hm
      rcases hm with hm | hm
      · exact names_simple v hfr.1 m hm
      · exact names_simple i hfr.2 m hm
    | .ifExp t a b, hfr, m, hm => by
      simp only [fragAExpr, Bool.and_eq_true] at hfr
      simp only [namesOf, List.mem_append] at hm
      rcases hm with (hm | hm) | hm
      · exact names_simple t hfr.1.1 m hm
      · exact names_simple a hfr.1.2 m hm
      · exact names_simple b hfr.2 m hm
    | .tuple es, hfr, m, hm => by
      simp only [fragAExpr] at hfr; simp only [namesOf] at hm; exact names_simples es hfr m hm
    | .list es, hfr, m, hm => by
      simp only [fragAExpr] at hfr; simp only [namesOf] at hm; exact names_simples es hfr m hm
    | .attr _ _, hfr, _, _ => by simp [fragAExpr] at hfr
    | .call _ _, hfr, _, _ => by simp [fragAExpr] at hfr
    | .lambda _ _, hfr, _, _ => by simp [fragAExpr] at hfr
    | .comp _ _ _, hfr, _, _ => by simp [fragAExpr] at hfr
  theorem names_simples : ∀ es : List Expr, fragAExprs es = true → ∀ n ∈ namesOfs es, simpleName n = true
    | [], _, m, hm => by simp [namesOfs] at hm
    | e :: es, hfr, m, hm => by
      simp only [fragAExprs, Bool.and_eq_true] at hfr
      simp only [namesOfs, List.mem_append] at hm
      rcases hm with hm | hm
      · exact names_simple e hfr.1 m hm
      · exact names_simples es hfr.2 m hm
end

/-! ### the simulation -/

theorem assocGet_assocSet_eq {β} (k : Str) (v : β) (l : List (Str × β)) : assocGet k (assocSet k v l) = some v := by
  induction l with
  | nil => simp [assocSet, assocGet]
  | cons a r ih =>
    obtain ⟨k', v'⟩ := a
    unfold assocSet
    split
    · simp [assocGet]
    · rename_i hne; simp [assocGet, hne, ih]

theorem assocGet_assocSet_ne {β} {k n : Str} (h : n ≠ k) (v : β) (l : List (Str × β)) :
    assocGet n (assocSet k v l) = assocGet n l := by
  induction l with
  | nil => simp [assocSet, assocGet, Ne.symm h]
  | cons a r ih =>
    obtain ⟨k', v'⟩ := a
    unfold assocSet
    split
    · rename_i hk; subst hk; simp [assocGet, Ne.symm h]
    · simp only [assocGet]; split
      · rfl
      · exact ih

structure Corr (s : XState) (st : AState) : Prop where
  names : ∀ n, simpleName n = true → (unboundX s n ↔ unboundA st n)
  noStar : noStarA st
  ne : ∀ n ∈ s.ne, ∃ m ∈ st.missing, m.name = n
  inFunc : st.inFunc = false
  topMem : st.stack.top ∈ normIds st.stack.ids
  topLt : st.stack.top < st.heap.length

theorem Corr.ana {s : XState} {st st' : AState} {N : List Str} (h : Corr s st) (a : AnaA st st' N) : Corr s st' := by
  constructor
  · intro n hn; rw [h.names n hn]; unfold unboundA; rw [a.heap, a.stack]
  · unfold noStarA; rw [a.heap, a.stack]; exact h.noStar
  · intro n hn; obtain ⟨m, hm, hmn⟩ := h.ne n hn; exact ⟨m, a.mono m hm, hmn⟩
  · rw [a.inFunc]; exact h.inFunc
  · rw [a.stack]; exact h.topMem
  · rw [a.stack, a.heap]; exact h.topLt

theorem mem_addOnce {n m : Str} {l : List Str} (h : m ∈ addOnce n l) : m ∈ l ∨ m = n := by
  unfold addOnce at h
  split at h
  · exact .inl h
  · rcases List.mem_append.mp h with h | h
    · exact .inl h
    · exact .inr (by simpa using h)

/-- evaluating and analysing one fragment-A expression, in lock step -/
theorem corr_expr (fx : Fixes) (reg : Registry) {s : XState} {st : AState} (h : Corr s st) (f : Nat) (e : Expr)
    (hfr : fragAExpr e = true) :
    AnaA st (runOps reg st (cExpr fx e)) (namesOf e) ∧
    (∀ n ∈ (evalExpr f {} e s).1.ne, ∃ m ∈ (runOps reg st (cExpr fx e)).missing, m.name = n) ∧
    (∀ v, (evalExpr f {} e s).2 = .ok v → (evalExpr f {} e s).1 = s ∧
        (noIfExpr e = true → (runOps reg st (cExpr fx e)).missing = st.missing)) ∧
    (∀ x, (evalExpr f {} e s).2 = .error x → SameUpToLog s (evalExpr f {} e s).1) := by
  have hA := anaA_expr fx reg e st hfr h.inFunc
  have hE := (evalA f).1 e s hfr
  refine ⟨hA, ?_, ?_, fun x hx => (hE.err x hx).1⟩
  · intro n hn
    cases hr : (evalExpr f {} e s).2 with
    | ok v =>
      rw [(hE.ok v hr).1] at hn
      obtain ⟨m, hm, hmn⟩ := h.ne n hn
      exact ⟨m, hA.mono m hm, hmn⟩
    | error x =>
      obtain ⟨_, h2⟩ := hE.err x hr
      rcases h2 with ⟨n', _, hne, hmem, hu⟩ | ⟨_, hne⟩
      · rw [hne] at hn
        rcases mem_addOnce hn with hn | rfl
        · obtain ⟨m, hm, hmn⟩ := h.ne n hn
          exact ⟨m, hA.mono m hm, hmn⟩
        · have hsn := names_simple e hfr n hmem
          exact hA.found n hmem hsn ((h.names n hsn).mp hu) h.noStar
      · rw [hne] at hn
        obtain ⟨m, hm, hmn⟩ := h.ne n hn
        exact ⟨m, hA.mono m hm, hmn⟩
  · intro v hv
    refine ⟨(hE.ok v hv).1, fun hno => ?_⟩
    apply hA.same
    intro n hn hun
    exact (hE.ok v hv).2 hno n hn ((h.names n (names_simple e hfr n hn)).mpr hun)

theorem foldl_deferGlobal_shape (reg : Registry) : ∀ (ns : List Str) (st : AState),
    (ns.foldl (deferGlobal reg) st).heap = st.heap ∧ (ns.foldl (deferGlobal reg) st).stack = st.stack ∧
    (ns.foldl (deferGlobal reg) st).inFunc = st.inFunc ∧ (ns.foldl (deferGlobal reg) st).missing = st.missing
  | [], _ => ⟨rfl, rfl, rfl, rfl⟩
  | a :: r, st => by
    simp only [List.foldl_cons]
    have h1 : (deferGlobal reg st a).heap = st.heap ∧ (deferGlobal reg st a).stack = st.stack ∧
        (deferGlobal reg st a).inFunc = st.inFunc ∧ (deferGlobal reg st a).missing = st.missing := by
      unfold deferGlobal; dsimp only; split <;> exact ⟨rfl, rfl, rfl, rfl⟩
    obtain ⟨i1, i2, i3, i4⟩ := foldl_deferGlobal_shape reg r (deferGlobal reg st a)
    exact ⟨i1.trans h1.1, i2.trans h1.2.1, i3.trans h1.2.2.1, i4.trans h1.2.2.2⟩

/-- analysis-only facts about the part of `visit_Assign` after the value -/
theorem allNames_shape (reg : Registry) (st : AState) (ns : List Str) (hf : st.inFunc = false) :
    (runOps reg st [.allNames ns]).heap = st.heap ∧ (runOps reg st [.allNames ns]).stack = st.stack ∧
    (runOps reg st [.allNames ns]).inFunc = st.inFunc ∧ (runOps reg st [.allNames ns]).missing = st.missing := by
  have : runOps reg st [.allNames ns] = ns.foldl (deferGlobal reg) st := by
    simp [runOps, step, hf]
  rw [this]
  exact foldl_deferGlobal_shape reg ns st

theorem cAll_cases (x : Str) (e : Expr) :
    cAll [Expr.name x] e = [] ∨ (x = "__all__".toList ∧ ∃ ns, cAll [Expr.name x] e = [Op.allNames ns]) := by
  unfold cAll
  simp only [singleName]
  split
  · rename_i n es h1 _
    cases h1
    split
    · rename_i hx
      split
      · exact .inr ⟨hx, _, rfl⟩
      · exact .inl rfl
    · exact .inl rfl
  · exact .inl rfl

/-- the analysis of `x = e` after the value has been visited: store, then possibly `__all__` bookkeeping -/
theorem assign_tail (fx : Fixes) (reg : Registry) (st : AState) (x : Str) (e : Expr) (hf : st.inFunc = false) :
    let tail := cTargets fx [Expr.name x] ++ cAll [Expr.name x] e
    (runOps reg st tail).heap = (storeTop st x).heap ∧ (runOps reg st tail).stack = st.stack ∧
    (runOps reg st tail).inFunc = false ∧ (runOps reg st tail).missing = st.missing ∧
    (x ≠ "__all__".toList → (runOps reg st tail).deferred = st.deferred) := by
  intro tail
  have hst : runOps reg st (cTargets fx [Expr.name x]) = storeTop st x := by
    simp [cTargets, cTarget, runOps, step]
  rcases cAll_cases x e with h0 | ⟨hx, ns, h1⟩
  · have : tail = cTargets fx [Expr.name x] := by simp only [tail, h0, List.append_nil]
    rw [this, hst]
    exact ⟨rfl, rfl, hf, rfl, fun _ => rfl⟩
  · have : tail = cTargets fx [Expr.name x] ++ [Op.allNames ns] := by simp only [tail, h1]
    rw [this, runOps_append, hst]
    obtain ⟨a1, a2, a3, a4⟩ := allNames_shape reg (storeTop st x) ns hf
    exact ⟨a1, a2, a3.trans hf, a4, fun hne => absurd hx hne⟩

/-! ### statements -/

theorem runOps_setLine (reg : Registry) (st : AState) (l : Nat) (ops : List Op) :
    runOps reg st (.setLine l :: ops) = runOps reg { st with line := l } ops := rfl

/-- analysis only: missing names are never dropped on fragment A and we stay outside function bodies -/
theorem anaStmt (fx : Fixes) (reg : Registry) : ∀ (stmt : Stmt) (ln : Nat) (st : AState), fragAStmt stmt = true → st.inFunc = false →
    (∀ m ∈ st.missing, m ∈ (runOps reg st (cStmt fx ln stmt)).missing) ∧ (runOps reg st (cStmt fx ln stmt)).inFunc = false
  | .expr e, ln, st, hfr, hf => by
    simp only [cStmt]
    have h := anaA_expr fx reg e st (by simpa [fragAStmt] using hfr) hf
    exact ⟨h.mono, by rw [h.inFunc, hf]⟩
  | .assign ts e, ln, st, hfr, hf => by
    simp only [fragAStmt, Bool.and_eq_true] at hfr
    cases hsn : singleName ts with
    | none => rw [hsn] at hfr; simp at hfr
    | some x =>
      have hts := singleName_eq hsn
      subst hts
      simp only [cStmt, List.append_assoc]
      rw [runOps_append]
      have h := anaA_expr fx reg e st hfr.2 hf
      obtain ⟨_, _, t3, t4, _⟩ := assign_tail fx reg (runOps reg st (cExpr fx e)) x e (by rw [h.inFunc, hf])
      exact ⟨fun m hm => by rw [t4]; exact h.mono m hm, t3⟩
  | .pass, ln, st, _, hf => by simp only [cStmt]; exact ⟨fun _ h => h, hf⟩
  | .located l s, ln, st, hfr, hf => by
    simp only [cStmt, runOps_setLine]
    exact anaStmt fx reg s l { st with line := l } (by simpa [fragAStmt] using hfr) hf
  | .augAssign _ _, _, _, hfr, _ => by simp [fragAStmt] at hfr
  | .annAssign _ _ _, _, _, hfr, _ => by simp [fragAStmt] at hfr
  | .import_ _, _, _, hfr, _ => by simp [fragAStmt] at hfr
  | .importFrom _ _, _, _, hfr, _ => by simp [fragAStmt] at hfr
  | .funcDef _ _ _ _ _, _, _, hfr, _ => by simp [fragAStmt] at hfr
  | .classDef _ _ _ _, _, _, hfr, _ => by simp [fragAStmt] at hfr
  | .for_ _ _ _ _, _, _, hfr, _ => by simp [fragAStmt] at hfr
  | .while_ _ _ _, _, _, hfr, _ => by simp [fragAStmt] at hfr
  | .if_ _ _ _, _, _, hfr, _ => by simp [fragAStmt] at hfr
  | .with_ _ _, _, _, hfr, _ => by simp [fragAStmt] at hfr
  | .try_ _ _ _ _, _, _, hfr, _ => by simp [fragAStmt] at hfr
  | .return_ _, _, _, hfr, _ => by simp [fragAStmt] at hfr
  | .raise_ _, _, _, hfr, _ => by simp [fragAStmt] at hfr
  | .delete _, _, _, hfr, _ => by simp [fragAStmt] at hfr
  | .global_ _, _, _, hfr, _ => by simp [fragAStmt] at hfr
  | .nonlocal_ _, _, _, hfr, _ => by simp [fragAStmt] at hfr

theorem anaStmts (fx : Fixes) (reg : Registry) : ∀ (ss : List Stmt) (ln : Nat) (st : AState), fragA ss = true → st.inFunc = false →
    (∀ m ∈ st.missing, m ∈ (runOps reg st (cStmts fx ln ss)).missing) ∧ (runOps reg st (cStmts fx ln ss)).inFunc = false
  | [], _, st, _, hf => by simp only [cStmts]; exact ⟨fun _ h => h, hf⟩
  | s :: ss, ln, st, hfr, hf => by
    simp only [fragA, List.all_cons, Bool.and_eq_true] at hfr
    simp only [cStmts, runOps_append]
    obtain ⟨h1, h2⟩ := anaStmt fx reg s ln st hfr.1 hf
    obtain ⟨h3, h4⟩ := anaStmts fx reg ss ln _ (by simpa [fragA] using hfr.2) h2
    exact ⟨fun m hm => h3 m (h1 m hm), h4⟩

/-- `x = v` in the reference semantics at module level: binds `x` in the globals, or runs out of fuel -/
theorem assignAll_name (f : Nat) (x : Str) (v : RVal) (s : XState) :
    (assignAll f {} [.name x] v s = ({ s with globals := assocSet x v s.globals }, .ok ())) ∨
    (assignAll f {} [.name x] v s = (s, .error .fuel)) := by
  match f with
  | 0 => right; rfl
  | 1 => right; rfl
  | f + 2 =>
    left
    simp only [assignAll, bindTarget, bindName, X.bind_def, X.modify]
    rfl

theorem simpleName_ne_star {x : Str} (h : simpleName x = true) : x ≠ ['*'] := by
  simp only [simpleName, Bool.and_eq_true, bne_iff_ne, ne_eq] at h
  exact h.2

theorem scope_get_set_eq (sc : Scope) (x : Str) (v : Val) : (sc.set x v).get x = some v := by
  simp [Scope.get, Scope.set, assocGet_assocSet_eq]

theorem scope_get_set_ne (sc : Scope) {x n : Str} (h : n ≠ x) (v : Val) : (sc.set x v).get n = sc.get n := by
  simp [Scope.get, Scope.set, assocGet_assocSet_ne h]

/-- binding `x` on both sides keeps the correspondence -/
theorem corr_store {s : XState} {st1 st2 : AState} (h : Corr s st1) (x : Str) (v : RVal) (hx : simpleName x = true)
    (hheap : st2.heap = (storeTop st1 x).heap) (hstack : st2.stack = st1.stack) (hf : st2.inFunc = false)
    (hmiss : st2.missing = st1.missing) :
    Corr { s with globals := assocSet x v s.globals } st2 := by
  have hget : ∀ i n, (st2.heap.get i).get n =
      if i = st1.stack.top then ((st1.heap.get i).set x .none).get n else (st1.heap.get i).get n := by
    intro i n
    rw [hheap]
    simp only [storeTop, Heap.get_update]
    by_cases hi : i = st1.stack.top
    · subst hi; simp [h.topLt]
    · simp [hi]
  constructor
  · intro n hn
    by_cases hnx : n = x
    · subst hnx
      constructor
      · intro hu; exfalso
        have := hu.1
        simp only [assocGet_assocSet_eq] at this
        cases this
      · intro hu; exfalso
        have := hu st1.stack.top (by rw [hstack]; exact h.topMem)
        rw [hget, if_pos rfl, scope_get_set_eq] at this
        cases this
    · have h1 : unboundX { s with globals := assocSet x v s.globals } n ↔ unboundX s n := by
        unfold unboundX; simp only [assocGet_assocSet_ne hnx]
      have h2 : unboundA st2 n ↔ unboundA st1 n := by
        unfold unboundA
        rw [hstack]
        constructor
        · intro hu i hi
          have := hu i hi
          rw [hget] at this
          split at this
          · rwa [scope_get_set_ne _ hnx] at this
          · exact this
        · intro hu i hi
          rw [hget]
          split
          · rw [scope_get_set_ne _ hnx]; exact hu i hi
          · exact hu i hi
      rw [h1, h2]; exact h.names n hn
  · have hstar := h.noStar
    unfold noStarA hasStar at hstar ⊢
    rw [hstack]
    rw [List.any_eq_false] at hstar ⊢
    intro i hi
    have := hstar i hi
    rw [hget]
    split
    · rename_i hit
      rw [scope_get_set_ne _ (Ne.symm (simpleName_ne_star hx))]
      exact this
    · exact this
  · intro n hn; rw [hmiss]; exact h.ne n hn
  · exact hf
  · rw [hstack]; exact h.topMem
  · rw [hstack, hheap]; simp only [storeTop, Heap.length_update]; exact h.topLt

theorem Corr.setLine {s : XState} {st : AState} (h : Corr s st) (l : Nat) : Corr s { st with line := l } :=
  ⟨h.names, h.noStar, h.ne, h.inFunc, h.topMem, h.topLt⟩

/-- one statement of fragment A, reference semantics and analysis in lock step -/
theorem stmtA (fx : Fixes) (reg : Registry) : ∀ (stmt : Stmt) (f : Nat) (s : XState) (st : AState) (ln : Nat),
    fragAStmt stmt = true → Corr s st →
    (∀ n ∈ (execStmt f {} stmt s).1.ne, ∃ m ∈ (runOps reg st (cStmt fx ln stmt)).missing, m.name = n) ∧
    (∀ fl, (execStmt f {} stmt s).2 = .ok fl →
      fl = Flow.normal ∧ Corr (execStmt f {} stmt s).1 (runOps reg st (cStmt fx ln stmt)) ∧
      (plainStmt stmt = true → (runOps reg st (cStmt fx ln stmt)).missing = st.missing ∧
        (runOps reg st (cStmt fx ln stmt)).deferred = st.deferred))
  | stmt, 0, s, st, ln, hfr, h => by
    have hm := (anaStmt fx reg stmt ln st hfr h.inFunc).1
    rw [execStmt]
    refine ⟨fun n hn => ?_, fun fl hfl => by cases hfl⟩
    obtain ⟨m, hmm, hmn⟩ := h.ne n hn
    exact ⟨m, hm m hmm, hmn⟩
  | .expr e, f + 1, s, st, ln, hfr, h => by
    have hfe : fragAExpr e = true := by simpa [fragAStmt] using hfr
    obtain ⟨hA, hne, hok, _⟩ := corr_expr fx reg h f e hfe
    simp only [execStmt, cStmt, X.bind_def]
    cases hr : evalExpr f {} e s with
    | mk s' r =>
      rw [hr] at hne hok
      cases r with
      | error x => exact ⟨hne, fun fl hfl => by cases hfl⟩
      | ok v =>
        obtain ⟨hs, hno⟩ := hok v rfl
        simp only at hs; subst hs
        refine ⟨hne, fun fl hfl => ?_⟩
        have : fl = Flow.normal := by
          have := hfl; simp only [X.pure_def] at this; cases this; rfl
        refine ⟨this, h.ana hA, fun hp => ⟨hno (by simpa [plainStmt] using hp), hA.deferred⟩⟩
  | .assign ts e, f + 1, s, st, ln, hfr, h => by
    simp only [fragAStmt, Bool.and_eq_true] at hfr
    cases hsn : singleName ts with
    | none => rw [hsn] at hfr; simp at hfr
    | some x =>
      have hts := singleName_eq hsn
      subst hts
      rw [hsn] at hfr
      have hx : simpleName x = true := hfr.1
      obtain ⟨hA, hne, hok, _⟩ := corr_expr fx reg h f e hfr.2
      have hf1 : (runOps reg st (cExpr fx e)).inFunc = false := by rw [hA.inFunc, h.inFunc]
      obtain ⟨t1, t2, t3, t4, t5⟩ := assign_tail fx reg (runOps reg st (cExpr fx e)) x e hf1
      simp only [execStmt, cStmt, List.append_assoc, X.bind_def]
      rw [runOps_append]
      cases hr : evalExpr f {} e s with
      | mk s' r =>
        rw [hr] at hne hok
        cases r with
        | error err =>
          refine ⟨fun n hn => ?_, fun fl hfl => by cases hfl⟩
          obtain ⟨m, hm, hmn⟩ := hne n hn
          exact ⟨m, by rw [t4]; exact hm, hmn⟩
        | ok v =>
          obtain ⟨hs, hno⟩ := hok v rfl
          simp only at hs; subst hs
          simp only
          rcases assignAll_name f x v s' with ha | ha
          · rw [ha]
            simp only [X.pure_def]
            have hc := corr_store (h.ana hA) x v hx t1 t2 t3 t4
            refine ⟨fun n hn => hc.ne n hn, fun fl hfl => ?_⟩
            have : fl = Flow.normal := by cases hfl; rfl
            refine ⟨this, hc, fun hp => ?_⟩
            simp only [plainStmt, hsn, Bool.and_eq_true, bne_iff_ne, ne_eq, Option.some.injEq] at hp
            exact ⟨by rw [t4]; exact hno hp.1, by rw [t5 hp.2]; exact hA.deferred⟩
          · rw [ha]
            refine ⟨fun n hn => ?_, fun fl hfl => by cases hfl⟩
            obtain ⟨m, hm, hmn⟩ := (h.ana hA).ne n hn
            exact ⟨m, by rw [t4]; exact hm, hmn⟩
  | .pass, f + 1, s, st, ln, _, h => by
    simp only [execStmt, cStmt, X.pure_def]
    exact ⟨h.ne, fun fl hfl => ⟨by cases hfl; rfl, h, fun _ => ⟨rfl, rfl⟩⟩⟩
  | .located l s', f + 1, s, st, ln, hfr, h => by
    simp only [execStmt, cStmt, runOps_setLine]
    have := stmtA fx reg s' f s { st with line := l } l (by simpa [fragAStmt] using hfr) (h.setLine l)
    refine ⟨this.1, fun fl hfl => ?_⟩
    obtain ⟨a, b, c⟩ := this.2 fl hfl
    exact ⟨a, b, fun hp => c (by simpa [plainStmt] using hp)⟩
  | .augAssign _ _, _ + 1, _, _, _, hfr, _ => by simp [fragAStmt] at hfr
  | .annAssign _ _ _, _ + 1, _, _, _, hfr, _ => by simp [fragAStmt] at hfr
  | .import_ _, _ + 1, _, _, _, hfr, _ => by simp [fragAStmt] at hfr
  | .importFrom _ _, _ + 1, _, _, _, hfr, _ => by simp [fragAStmt] at hfr
  | .funcDef _ _ _ _ _, _ + 1, _, _, _, hfr, _ => by simp [fragAStmt] at hfr
  | .classDef _ _ _ _, _ + 1, _, _, _, hfr, _ => by simp [fragAStmt] at hfr
  | .for_ _ _ _ _, _ + 1, _, _, _, hfr, _ => by simp [fragAStmt] at hfr
  | .while_ _ _ _, _ + 1, _, _, _, hfr, _ => by simp [fragAStmt] at hfr
  | .if_ _ _ _, _ + 1, _, _, _, hfr, _ => by simp [fragAStmt] at hfr
  | .with_ _ _, _ + 1, _, _, _, hfr, _ => by simp [fragAStmt] at hfr
  | .try_ _ _ _ _, _ + 1, _, _, _, hfr, _ => by simp [fragAStmt] at hfr
  | .return_ _, _ + 1, _, _, _, hfr, _ => by simp [fragAStmt] at hfr
  | .raise_ _, _ + 1, _, _, _, hfr, _ => by simp [fragAStmt] at hfr
  | .delete _, _ + 1, _, _, _, hfr, _ => by simp [fragAStmt] at hfr
  | .global_ _, _ + 1, _, _, _, hfr, _ => by simp [fragAStmt] at hfr
  | .nonlocal_ _, _ + 1, _, _, _, hfr, _ => by simp [fragAStmt] at hfr

theorem stmtsA (fx : Fixes) (reg : Registry) : ∀ (ss : List Stmt) (f : Nat) (s : XState) (st : AState) (ln : Nat),
    fragA ss = true → Corr s st →
    (∀ n ∈ (execStmts f {} ss s).1.ne, ∃ m ∈ (runOps reg st (cStmts fx ln ss)).missing, m.name = n) ∧
    (∀ fl, (execStmts f {} ss s).2 = .ok fl →
      Corr (execStmts f {} ss s).1 (runOps reg st (cStmts fx ln ss)) ∧
      (ss.all plainStmt = true → (runOps reg st (cStmts fx ln ss)).missing = st.missing ∧
        (runOps reg st (cStmts fx ln ss)).deferred = st.deferred))
  | ss, 0, s, st, ln, hfr, h => by
    have hm := (anaStmts fx reg ss ln st hfr h.inFunc).1
    rw [execStmts]
    refine ⟨fun n hn => ?_, fun fl hfl => by cases hfl⟩
    obtain ⟨m, hmm, hmn⟩ := h.ne n hn
    exact ⟨m, hm m hmm, hmn⟩
  | [], f + 1, s, st, ln, _, h => by
    simp only [execStmts, cStmts, X.pure_def]
    exact ⟨h.ne, fun fl _ => ⟨h, fun _ => ⟨rfl, rfl⟩⟩⟩
  | stmt :: ss, f + 1, s, st, ln, hfr, h => by
    simp only [fragA, List.all_cons, Bool.and_eq_true] at hfr
    have hfr2 : fragA ss = true := by simpa [fragA] using hfr.2
    obtain ⟨h1, h2⟩ := stmtA fx reg stmt f s st ln hfr.1 h
    simp only [execStmts, cStmts, runOps_append, X.bind_def]
    have hAna := anaStmt fx reg stmt ln st hfr.1 h.inFunc
    cases hr : execStmt f {} stmt s with
    | mk s' r =>
      rw [hr] at h1 h2
      cases r with
      | error x =>
        simp only
        refine ⟨fun n hn => ?_, fun fl hfl => by cases hfl⟩
        obtain ⟨m, hm, hmn⟩ := h1 n hn
        exact ⟨m, (anaStmts fx reg ss ln _ hfr2 hAna.2).1 m hm, hmn⟩
      | ok fl0 =>
        obtain ⟨hfl0, hc, hp⟩ := h2 fl0 rfl
        subst hfl0
        simp only
        obtain ⟨r1, r2⟩ := stmtsA fx reg ss f s' _ ln hfr2 hc
        refine ⟨r1, fun fl hfl => ?_⟩
        obtain ⟨c2, p2⟩ := r2 fl hfl
        refine ⟨c2, fun hall => ?_⟩
        simp only [List.all_cons, Bool.and_eq_true] at hall
        obtain ⟨p1a, p1b⟩ := hp hall.1
        obtain ⟨p2a, p2b⟩ := p2 hall.2
        exact ⟨p2a.trans p1a, p2b.trans p1b⟩

/-! ### initial states, final answer -/

theorem mem_insertSorted {x y : Str} {l : List Str} : y ∈ insertSorted x l ↔ y = x ∨ y ∈ l := by
  induction l with
  | nil => simp [insertSorted]
  | cons a r ih =>
    unfold insertSorted
    split
    · rename_i hxa; subst hxa; simp
    · split
      · simp
      · simp only [List.mem_cons, ih]
        constructor
        · rintro (h | h | h)
          · exact .inr (.inl h)
          · exact .inl h
          · exact .inr (.inr h)
        · rintro (h | h | h)
          · exact .inr (.inl h)
          · exact .inl h
          · exact .inr (.inr h)

theorem mem_sortedSet {y : Str} {l : List Str} : y ∈ sortedSet l ↔ y ∈ l := by
  unfold sortedSet
  induction l with
  | nil => simp
  | cons a r ih => simp only [List.foldr_cons, mem_insertSorted, ih, List.mem_cons]

theorem finishDeferred_mono (reg : Registry) (st : AState) :
    ∀ m ∈ st.missing, m ∈ (finishDeferred reg st).missing := by
  unfold finishDeferred
  have : ∀ (ds : List Deferred) (st : AState), ∀ m ∈ st.missing,
      m ∈ (ds.foldl (fun st d => checkLoad reg st d.name d.ids d.line) st).missing := by
    intro ds
    induction ds with
    | nil => intro st m hm; exact hm
    | cons d r ih =>
      intro st m hm
      apply ih
      unfold checkLoad
      dsimp only
      split
      · split
        · exact hm
        · exact List.mem_append_left _ hm
      · exact hm
  intro m hm
  exact this _ _ m hm

theorem finishDeferred_nil (reg : Registry) (st : AState) (h : st.deferred = []) :
    (finishDeferred reg st).missing = st.missing := by
  unfold finishDeferred
  rw [h]; rfl

theorem runProgram_ne (fuel : Nat) (body : List Stmt) (s0 : XState) :
    (runProgram fuel body [] s0).1.ne = (execStmts fuel {} body s0).1.ne := by
  simp only [runProgram, X.bind_def]
  cases hr : execStmts fuel {} body s0 with
  | mk s1 r =>
    cases r with
    | error e => rfl
    | ok fl =>
      simp only [X.modify]
      cases fuel with
      | zero => simp only [execStmts, X.throw]
      | succ f => simp only [execStmts, X.pure_def]

theorem runProgram_ok (fuel : Nat) (body : List Stmt) (s0 : XState) (h : (runProgram fuel body [] s0).2 = .ok ()) :
    ∃ fl, (execStmts fuel {} body s0).2 = .ok fl := by
  simp only [runProgram, X.bind_def] at h
  cases hr : execStmts fuel {} body s0 with
  | mk s1 r =>
    cases r with
    | error e => rw [hr] at h; cases h
    | ok fl => exact ⟨fl, rfl⟩

theorem initHeap_user' (builtins : Scope) (ns : List Scope) (a : Nat) (ha : a < ns.length) :
    (initState builtins ns).heap.get (3 + a) = ns[a] := by
  rw [initHeap_user builtins ns a ha]; simp [List.getD_eq_getElem?_getD, ha]

theorem init_top (builtins : Scope) (ns : List Scope) : (initState builtins ns).stack.top = 3 + ns.length := by
  obtain ⟨scopes, hids, _⟩ := initState_ids builtins ns
  unfold StackRef.top; rw [hids, getLastD_snoc]

theorem init_ids_mem (builtins : Scope) (ns : List Scope) (hnc : ∀ sc ∈ ns, sc.isClass = false) (i : Nat) :
    i ∈ normIds (initState builtins ns).stack.ids ↔ i = 0 ∨ i = 1 ∨ (∃ a, a < ns.length ∧ i = 3 + a) ∨ i = 3 + ns.length := by
  rw [(inv_init {} builtins ns).wf]
  obtain ⟨scopes, hids, hsc⟩ := initState_ids builtins ns
  rw [hids, List.mem_append, mem_normIds_iff, hsc]
  simp only [List.mem_filter, mem_normIds_iff, List.mem_map, List.mem_range, List.mem_singleton]
  constructor
  · rintro ((h | h | ⟨h, _⟩) | h)
    · exact .inl h
    · exact .inr (.inl h)
    · rcases h with h | h | ⟨a, ha, rfl⟩
      · exact .inl h
      · exact .inr (.inl h)
      · exact .inr (.inr (.inl ⟨a, ha, by omega⟩))
    · exact .inr (.inr (.inr h))
  · rintro (h | h | ⟨a, ha, rfl⟩ | h)
    · exact .inl (.inl h)
    · exact .inl (.inr (.inl h))
    · refine .inl (.inr (.inr ⟨.inr (.inr ⟨a, ha, by omega⟩), ?_⟩))
      rw [initHeap_user' builtins ns a ha]
      simp [hnc _ (List.getElem_mem ha)]
    · exact .inr h

theorem corr_init (builtins : Scope) (ns : List Scope) (s0 : XState) (h : Agree builtins ns s0) :
    Corr s0 (initState builtins ns) := by
  have hmem := init_ids_mem builtins ns h.noClass
  have hget0 : (initState builtins ns).heap.get 0 = builtins := rfl
  have hget1 : (initState builtins ns).heap.get 1 = { items := [("__file__".toList, Val.none)] } := rfl
  have hb2 : ∀ n : Str, (({ items := [("__file__".toList, Val.none)] } : Scope).get n = none) ↔ n ≠ "__file__".toList := by
    intro n
    simp only [Scope.get, assocGet]
    constructor
    · intro hh hc; subst hc; simp at hh
    · intro hh; rw [if_neg (Ne.symm hh)]
  constructor
  · intro n hn
    have hA := h.names n hn
    constructor
    · intro hu i hi
      have hnotR : ¬ (boundIn builtins n = true ∨ n = "__file__".toList ∨ ∃ sc ∈ ns, boundIn sc n = true) := by
        intro hR
        rcases hA.mpr hR with hg | hb
        · rw [hu.1] at hg; cases hg
        · rw [hu.2] at hb; cases hb
      rcases (hmem i).mp hi with rfl | rfl | ⟨a, ha, rfl⟩ | rfl
      · rw [hget0]
        cases hg : builtins.get n with
        | none => rfl
        | some v => exact absurd (.inl (by simp [boundIn, hg])) hnotR
      · rw [hget1, hb2]
        intro hc; exact hnotR (.inr (.inl hc))
      · rw [initHeap_user' builtins ns a ha]
        cases hg : (ns[a]).get n with
        | none => rfl
        | some v => exact absurd (.inr (.inr ⟨_, List.getElem_mem ha, by simp [boundIn, hg]⟩)) hnotR
      · rw [initHeap_priv]; rfl
    · intro hu
      have hnotR : ¬ (boundIn builtins n = true ∨ n = "__file__".toList ∨ ∃ sc ∈ ns, boundIn sc n = true) := by
        rintro (hR | hR | ⟨sc, hsc, hR⟩)
        · have := hu 0 ((hmem 0).mpr (.inl rfl))
          rw [hget0] at this
          simp [boundIn, this] at hR
        · have := hu 1 ((hmem 1).mpr (.inr (.inl rfl)))
          rw [hget1, hb2] at this
          exact this hR
        · obtain ⟨a, ha, hsa⟩ := List.getElem_of_mem hsc
          have := hu (3 + a) ((hmem _).mpr (.inr (.inr (.inl ⟨a, ha, rfl⟩))))
          rw [initHeap_user' builtins ns a ha, hsa] at this
          simp [boundIn, this] at hR
      constructor
      · cases hg : assocGet n s0.globals with
        | none => rfl
        | some v => exact absurd (hA.mp (.inl (by simp [hg]))) hnotR
      · cases hb : s0.builtins.contains n with
        | false => rfl
        | true => exact absurd (hA.mp (.inr hb)) hnotR
  · unfold noStarA hasStar
    rw [List.any_eq_false]
    intro i hi
    have hi' : i ∈ normIds (initState builtins ns).stack.ids := by
      rw [(inv_init {} builtins ns).wf]; exact hi
    rcases (hmem i).mp hi' with rfl | rfl | ⟨a, ha, rfl⟩ | rfl
    · rw [hget0]; have := h.noStar.1; simpa [boundIn] using this
    · rw [hget1]; simp [Scope.get, assocGet]
    · rw [initHeap_user' builtins ns a ha]
      have := h.noStar.2 _ (List.getElem_mem ha); simpa [boundIn] using this
    · rw [initHeap_priv]; simp [Scope.get, assocGet]
  · intro n hn; rw [h.ne0] at hn; simp at hn
  · rfl
  · rw [init_top]; exact (hmem _).mpr (.inr (.inr (.inr rfl)))
  · exact (inv_init {} builtins ns).top_lt

end Pfb.C05
