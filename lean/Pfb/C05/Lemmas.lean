/-
  Pfb.C05.Lemmas — simulation between the reference semantics (`Pfb.PyCore.Exec`) and the analysis model
  (`Pfb.PyCore.Analyze`) on fragment A.
-/
import Pfb.C05.Model
import Pfb.PyCore.AnalyzeLemmas
namespace Pfb.C05
open Pfb Pfb.PyCore

/-! ### the `X` monad -/

theorem X.bind_def {α β} (m : X α) (f : α → X β) (s : XState) :
    (m >>= f) s = match m s with
      | (s', .ok a) => f a s'
      | (s', .error e) => (s', .error e) := rfl

theorem X.pure_def {α} (a : α) (s : XState) : (pure a : X α) s = (s, .ok a) := rfl

/-! ### reference semantics on fragment-A expressions -/

def unboundX (s : XState) (n : Str) : Prop := assocGet n s.globals = none ∧ s.builtins.contains n = false

/-- `s'` differs from `s` at most in the record of raised exceptions -/
def SameUpToLog (s s' : XState) : Prop := s' = { s with ne := s'.ne, otherRaised := s'.otherRaised }

theorem SameUpToLog.refl (s : XState) : SameUpToLog s s := rfl

/-- what evaluating (part of) a fragment-A expression at module level can do -/
structure EvalA {α} (s : XState) (names : List Str) (noIf : Bool) (res : XState × Except Exc α) : Prop where
  ok : ∀ v, res.2 = .ok v → res.1 = s ∧ (noIf = true → ∀ n ∈ names, ¬ unboundX s n)
  err : ∀ x, res.2 = .error x → SameUpToLog s res.1 ∧
    ((∃ n, x = .nameError n ∧ res.1.ne = addOnce n s.ne ∧ n ∈ names ∧ unboundX s n) ∨
     ((∀ n, x ≠ .nameError n) ∧ res.1.ne = s.ne))

theorem EvalA.pure {α} (s : XState) (a : α) : EvalA s [] true ((Pure.pure a : X α) s) :=
  ⟨fun _ _ => ⟨rfl, fun _ n hn => by simp at hn⟩, fun x hx => by cases hx⟩

theorem EvalA.mono {α} {s : XState} {N N' : List Str} {b : Bool} {res : XState × Except Exc α}
    (h : EvalA s N b res) (hsub : ∀ n ∈ N, n ∈ N') : EvalA s N' false res :=
  ⟨fun v hv => ⟨(h.ok v hv).1, fun hf => by cases hf⟩,
   fun x hx => by
    obtain ⟨h1, h2⟩ := h.err x hx
    refine ⟨h1, ?_⟩
    rcases h2 with ⟨n, hn, hne, hmem, hu⟩ | h2
    · exact .inl ⟨n, hn, hne, hsub n hmem, hu⟩
    · exact .inr h2⟩

theorem EvalA.mono' {α} {s : XState} {N N' : List Str} {b : Bool} {res : XState × Except Exc α}
    (h : EvalA s N b res) (hsub : ∀ n ∈ N, n ∈ N') (hsup : b = true → ∀ n ∈ N', n ∈ N) : EvalA s N' b res :=
  ⟨fun v hv => ⟨(h.ok v hv).1, fun hf n hn => (h.ok v hv).2 hf n (hsup hf n hn)⟩,
   fun x hx => by
    obtain ⟨h1, h2⟩ := h.err x hx
    refine ⟨h1, ?_⟩
    rcases h2 with ⟨n, hn, hne, hmem, hu⟩ | h2
    · exact .inl ⟨n, hn, hne, hsub n hmem, hu⟩
    · exact .inr h2⟩

/-- sequencing: the continuation runs from the unchanged state -/
theorem EvalA.bind {α β} {s : XState} {N1 N2 : List Str} {b1 b2 : Bool} {m : X α} {f : α → X β}
    (h1 : EvalA s N1 b1 (m s)) (h2 : ∀ a, EvalA s N2 b2 (f a s)) :
    EvalA s (N1 ++ N2) (b1 && b2) ((m >>= f) s) := by
  rw [X.bind_def]
  cases hm : m s with
  | mk s' r =>
    cases r with
    | ok a =>
      rw [hm] at h1
      obtain ⟨hs, hn1⟩ := h1.ok a rfl
      simp only at hs
      subst hs
      simp only
      constructor
      · intro v hv
        obtain ⟨hs2, hn2⟩ := (h2 a).ok v hv
        refine ⟨hs2, fun hb n hn => ?_⟩
        simp only [Bool.and_eq_true] at hb
        rcases List.mem_append.mp hn with hn | hn
        · exact hn1 hb.1 n hn
        · exact hn2 hb.2 n hn
      · intro x hx
        obtain ⟨hs2, h3⟩ := (h2 a).err x hx
        refine ⟨hs2, ?_⟩
        rcases h3 with ⟨n, hn, hne, hmem, hu⟩ | h3
        · exact .inl ⟨n, hn, hne, List.mem_append_right _ hmem, hu⟩
        · exact .inr h3
    | error e =>
      rw [hm] at h1
      simp only
      constructor
      · intro v hv; cases hv
      · intro x hx
        have hex : e = x := by simpa using hx
        subst hex
        obtain ⟨hs2, h3⟩ := h1.err e rfl
        refine ⟨hs2, ?_⟩
        rcases h3 with ⟨n, hn, hne, hmem, hu⟩ | h3
        · exact .inl ⟨n, hn, hne, List.mem_append_left _ hmem, hu⟩
        · exact .inr h3

theorem EvalA.raiseOther {α} (s : XState) : EvalA s [] true ((raiseOther : X α) s) := by
  constructor
  · intro v hv; cases hv
  · intro x hx
    have : x = .other := by simpa [Pfb.PyCore.raiseOther] using hx.symm
    subst this
    exact ⟨rfl, .inr ⟨(fun n hn => nomatch hn), rfl⟩⟩

theorem EvalA.fuel {α} (s : XState) : EvalA s [] true ((X.throw .fuel : X α) s) := by
  constructor
  · intro v hv; cases hv
  · intro x hx
    have : x = .fuel := by simpa [X.throw] using hx.symm
    subst this
    exact ⟨rfl, .inr ⟨(fun n hn => nomatch hn), rfl⟩⟩

theorem EvalA.fuel_any {α} (s : XState) (N : List Str) (b : Bool) : EvalA s N b ((X.throw .fuel : X α) s) := by
  constructor
  · intro v hv; cases hv
  · intro x hx
    have : x = .fuel := by simpa [X.throw] using hx.symm
    subst this
    exact ⟨rfl, .inr ⟨(fun n hn => nomatch hn), rfl⟩⟩

theorem EvalA.readName (s : XState) (n : Str) : EvalA s [n] true (readName {} n s) := by
  simp only [Pfb.PyCore.readName, globalLookup]
  cases hg : assocGet n s.globals with
  | some v =>
    simp only
    exact ⟨fun _ _ => ⟨rfl, fun _ m hm => by
      simp only [List.mem_singleton] at hm; subst hm
      intro hu; rw [hu.1] at hg; cases hg⟩, fun x hx => by cases hx⟩
  | none =>
    simp only
    split
    · rename_i hb
      exact ⟨fun _ _ => ⟨rfl, fun _ m hm => by
        simp only [List.mem_singleton] at hm; subst hm
        intro hu; rw [hu.2] at hb; cases hb⟩, fun x hx => by cases hx⟩
    · rename_i hb
      constructor
      · intro v hv; cases hv
      · intro x hx
        simp only [raiseName] at hx ⊢
        cases hx
        exact ⟨rfl, .inl ⟨n, rfl, rfl, List.mem_singleton.mpr rfl, hg, by simpa using hb⟩⟩

theorem EvalA.binop (s : XState) (a b : RVal) : EvalA s [] true (binop a b s) := by
  unfold Pfb.PyCore.binop
  split <;> first | exact EvalA.pure s _ | exact EvalA.raiseOther s

theorem EvalA.subscriptGet (s : XState) (a : RVal) : EvalA s [] true (subscriptGet a s) := by
  unfold Pfb.PyCore.subscriptGet
  split <;> first | exact EvalA.pure s _ | exact EvalA.raiseOther s

theorem evalA (f : Nat) :
    (∀ e s, fragAExpr e = true → EvalA s (namesOf e) (noIfExpr e) (evalExpr f {} e s)) ∧
    (∀ es s, fragAExprs es = true → EvalA s (namesOfs es) (noIfExprs es) (evalExprs f {} es s)) := by
  induction f with
  | zero =>
    constructor
    · intro e s _
      rw [evalExpr]
      exact EvalA.fuel_any s _ _
    · intro es s _
      rw [evalExprs]
      exact EvalA.fuel_any s _ _
  | succ f ih =>
    obtain ⟨ihe, ihes⟩ := ih
    constructor
    · intro e s hfr
      cases e with
      | name n =>
        simp only [evalExpr, namesOf, noIfExpr]
        exact EvalA.readName s n
      | const => simp only [evalExpr, namesOf, noIfExpr]; exact EvalA.pure s _
      | bool b => simp only [evalExpr, namesOf, noIfExpr]; exact EvalA.pure s _
      | str _ => simp only [evalExpr, namesOf, noIfExpr]; exact EvalA.pure s _
      | binop l r =>
        simp only [fragAExpr, Bool.and_eq_true] at hfr
        simp only [evalExpr, namesOf, noIfExpr]
        have h := EvalA.bind (ihe l s hfr.1) (fun a => EvalA.bind (ihe r s hfr.2) (fun b => EvalA.binop s a b))
        simpa using h
      | subscript v i =>
        simp only [fragAExpr, Bool.and_eq_true] at hfr
        simp only [evalExpr, namesOf, noIfExpr]
        have h := EvalA.bind (ihe v s hfr.1) (fun a => EvalA.bind (ihe i s hfr.2) (fun _ => EvalA.subscriptGet s a))
        simpa using h
      | tuple es =>
        simp only [fragAExpr] at hfr
        simp only [evalExpr, namesOf, noIfExpr]
        have h := EvalA.bind (ihes es s hfr) (fun vs => EvalA.pure s (RVal.seq vs))
        simpa using h
      | list es =>
        simp only [fragAExpr] at hfr
        simp only [evalExpr, namesOf, noIfExpr]
        have h := EvalA.bind (ihes es s hfr) (fun vs => EvalA.pure s (RVal.seq vs))
        simpa using h
      | ifExp t a b =>
        simp only [fragAExpr, Bool.and_eq_true] at hfr
        simp only [evalExpr, namesOf, noIfExpr]
        have hbr : ∀ tv : RVal, EvalA s (namesOf a ++ namesOf b) false
            ((if truthy tv = true then evalExpr f {} a else evalExpr f {} b) s) := by
          intro tv
          split
          · exact (ihe a s hfr.1.2).mono (fun n hn => List.mem_append_left _ hn)
          · exact (ihe b s hfr.2).mono (fun n hn => List.mem_append_right _ hn)
        have h := EvalA.bind (ihe t s hfr.1.1) hbr
        simpa [List.append_assoc] using h
      | attr _ _ => simp [fragAExpr] at hfr
      | call _ _ => simp [fragAExpr] at hfr
      | lambda _ _ => simp [fragAExpr] at hfr
      | comp _ _ _ => simp [fragAExpr] at hfr
    · intro es s hfr
      cases es with
      | nil => simp only [evalExprs, namesOfs, noIfExprs]; exact EvalA.pure s _
      | cons e es =>
        simp only [fragAExprs, Bool.and_eq_true] at hfr
        simp only [evalExprs, namesOfs, noIfExprs]
        have h := EvalA.bind (ihe e s hfr.1) (fun v => EvalA.bind (ihes es s hfr.2) (fun vs => EvalA.pure s (v :: vs)))
        simpa using h

end Pfb.C05
