/-
  Pfb.C05.Lemmas — simulation between the reference semantics (`Pfb.PyCore.Exec`) and the analysis model
  (`Pfb.PyCore.Analyze`) on fragment A.
-/
import Pfb.C05.Model
import Pfb.PyCore.AnalyzeLemmas
namespace Pfb.C05
open Pfb Pfb.PyCore

/-! ### the `X` monad -/

theorem X.bind_def {α β} (m : X α) (f : α → X β) (s : XState) :
    (m >>= f) s = match m s with
      | (s', .ok a) => f a s'
      | (s', .error e) => (s', .error e) := rfl

theorem X.pure_def {α} (a : α) (s : XState) : (pure a : X α) s = (s, .ok a) := rfl

/-! ### reference semantics on fragment-A expressions -/

def unboundX (s : XState) (n : Str) : Prop := assocGet n s.globals = none ∧ s.builtins.contains n = false

/-- `s'` differs from `s` at most in the record of raised exceptions -/
def SameUpToLog (s s' : XState) : Prop := s' = { s with ne := s'.ne, otherRaised := s'.otherRaised }

theorem SameUpToLog.refl (s : XState) : SameUpToLog s s := rfl

/-- what evaluating (part of) a fragment-A expression at module level can do -/
structure EvalA {α} (s : XState) (names : List Str) (noIf : Bool) (res : XState × Except Exc α) : Prop where
  ok : ∀ v, res.2 = .ok v → res.1 = s ∧ (noIf = true → ∀ n ∈ names, ¬ unboundX s n)
  err : ∀ x, res.2 = .error x → SameUpToLog s res.1 ∧
    ((∃ n, x = .nameError n ∧ res.1.ne = addOnce n s.ne ∧ n ∈ names ∧ unboundX s n) ∨
     ((∀ n, x ≠ .nameError n) ∧ res.1.ne = s.ne))

theorem EvalA.pure {α} (s : XState) (a : α) : EvalA s [] true ((Pure.pure a : X α) s) :=
  ⟨fun _ _ => ⟨rfl, fun _ n hn => by simp at hn⟩, fun x hx => by cases hx⟩

theorem EvalA.mono {α} {s : XState} {N N' : List Str} {b : Bool} {res : XState × Except Exc α}
    (h : EvalA s N b res) (hsub : ∀ n ∈ N, n ∈ N') : EvalA s N' false res :=
  ⟨fun v hv => ⟨(h.ok v hv).1, fun hf => by cases hf⟩,
   fun x hx => by
    obtain ⟨h1, h2⟩ := h.err x hx
    refine ⟨h1, ?_⟩
    rcases h2 with ⟨n, hn, hne, hmem, hu⟩ | h2
    · exact .inl ⟨n, hn, hne, hsub n hmem, hu⟩
    · exact .inr h2⟩

theorem EvalA.mono' {α} {s : XState} {N N' : List Str} {b : Bool} {res : XState × Except Exc α}
    (h : EvalA s N b res) (hsub : ∀ n ∈ N, n ∈ N') (hsup : b = true → ∀ n ∈ N', n ∈ N) : EvalA s N' b res :=
  ⟨fun v hv => ⟨(h.ok v hv).1, fun hf n hn => (h.ok v hv).2 hf n (hsup hf n hn)⟩,
   fun x hx => by
    obtain ⟨h1, h2⟩ := h.err x hx
    refine ⟨h1, ?_⟩
    rcases h2 with ⟨n, hn, hne, hmem, hu⟩ | h2
    · exact .inl ⟨n, hn, hne, hsub n hmem, hu⟩
    · exact .inr h2⟩

/-- sequencing: the continuation runs from the unchanged state -/
theorem EvalA.bind {α β} {s : XState} {N1 N2 : List Str} {b1 b2 : Bool} {m : X α} {f : α → X β}
    (h1 : EvalA s N1 b1 (m s)) (h2 : ∀ a, EvalA s N2 b2 (f a s)) :
    EvalA s (N1 ++ N2) (b1 && b2) ((m >>= f) s) := by
  rw [X.bind_def]
  cases hm : m s with
  | mk s' r =>
    cases r with
    | ok a =>
      rw [hm] at h1
      obtain ⟨hs, hn1⟩ := h1.ok a rfl
      simp only at hs
      subst hs
      simp only
      constructor
      · intro v hv
        obtain ⟨hs2, hn2⟩ := (h2 a).ok v hv
        refine ⟨hs2, fun hb n hn => ?_⟩
        simp only [Bool.and_eq_true] at hb
        rcases List.mem_append.mp hn with hn | hn
        · exact hn1 hb.1 n hn
        · exact hn2 hb.2 n hn
      · intro x hx
        obtain ⟨hs2, h3⟩ := (h2 a).err x hx
        refine ⟨hs2, ?_⟩
        rcases h3 with ⟨n, hn, hne, hmem, hu⟩ | h3
        · exact .inl ⟨n, hn, hne, List.mem_append_right _ hmem, hu⟩
        · exact .inr h3
    | error e =>
      rw [hm] at h1
      simp only
      constructor
      · intro v hv; cases hv
      · intro x hx
        have hex : e = x := by simpa using hx
        subst hex
        obtain ⟨hs2, h3⟩ := h1.err e rfl
        refine ⟨hs2, ?_⟩
        rcases h3 with ⟨n, hn, hne, hmem, hu⟩ | h3
        · exact .inl ⟨n, hn, hne, List.mem_append_left _ hmem, hu⟩
        · exact .inr h3

theorem EvalA.raiseOther {α} (s : XState) : EvalA s [] true ((raiseOther : X α) s) := by
  constructor
  · intro v hv; cases hv
  · intro x hx
    have : x = .other := by simpa [Pfb.PyCore.raiseOther] using hx.symm
    subst this
    exact ⟨rfl, .inr ⟨(fun n hn => nomatch hn), rfl⟩⟩

theorem EvalA.fuel {α} (s : XState) : EvalA s [] true ((X.throw .fuel : X α) s) := by
  constructor
  · intro v hv; cases hv
  · intro x hx
    have : x = .fuel := by simpa [X.throw] using hx.symm
    subst this
    exact ⟨rfl, .inr ⟨(fun n hn => nomatch hn), rfl⟩⟩

theorem EvalA.fuel_any {α} (s : XState) (N : List Str) (b : Bool) : EvalA s N b ((X.throw .fuel : X α) s) := by
  constructor
  · intro v hv; cases hv
  · intro x hx
    have : x = .fuel := by simpa [X.throw] using hx.symm
    subst this
    exact ⟨rfl, .inr ⟨(fun n hn => nomatch hn), rfl⟩⟩

theorem EvalA.readName (s : XState) (n : Str) : EvalA s [n] true (readName {} n s) := by
  simp only [Pfb.PyCore.readName, globalLookup]
  cases hg : assocGet n s.globals with
  | some v =>
    simp only
    exact ⟨fun _ _ => ⟨rfl, fun _ m hm => by
      simp only [List.mem_singleton] at hm; subst hm
      intro hu; rw [hu.1] at hg; cases hg⟩, fun x hx => by cases hx⟩
  | none =>
    simp only
    split
    · rename_i hb
      exact ⟨fun _ _ => ⟨rfl, fun _ m hm => by
        simp only [List.mem_singleton] at hm; subst hm
        intro hu; rw [hu.2] at hb; cases hb⟩, fun x hx => by cases hx⟩
    · rename_i hb
      constructor
      · intro v hv; cases hv
      · intro x hx
        simp only [raiseName] at hx ⊢
        cases hx
        exact ⟨rfl, .inl ⟨n, rfl, rfl, List.mem_singleton.mpr rfl, hg, by simpa using hb⟩⟩

theorem EvalA.binop (s : XState) (a b : RVal) : EvalA s [] true (binop a b s) := by
  unfold Pfb.PyCore.binop
  split <;> first | exact EvalA.pure s _ | exact EvalA.raiseOther s

theorem EvalA.subscriptGet (s : XState) (a : RVal) : EvalA s [] true (subscriptGet a s) := by
  unfold Pfb.PyCore.subscriptGet
  split <;> first | exact EvalA.pure s _ | exact EvalA.raiseOther s

theorem evalA (f : Nat) :
    (∀ e s, fragAExpr e = true → EvalA s (namesOf e) (noIfExpr e) (evalExpr f {} e s)) ∧
    (∀ es s, fragAExprs es = true → EvalA s (namesOfs es) (noIfExprs es) (evalExprs f {} es s)) := by
  induction f with
  | zero =>
    constructor
    · intro e s _
      rw [evalExpr]
      exact EvalA.fuel_any s _ _
    · intro es s _
      rw [evalExprs]
      exact EvalA.fuel_any s _ _
  | succ f ih =>
    obtain ⟨ihe, ihes⟩ := ih
    constructor
    · intro e s hfr
      cases e with
      | name n =>
        simp only [evalExpr, namesOf, noIfExpr]
        exact EvalA.readName s n
      | const => simp only [evalExpr, namesOf, noIfExpr]; exact EvalA.pure s _
      | bool b => simp only [evalExpr, namesOf, noIfExpr]; exact EvalA.pure s _
      | str _ => simp only [evalExpr, namesOf, noIfExpr]; exact EvalA.pure s _
      | binop l r =>
        simp only [fragAExpr, Bool.and_eq_true] at hfr
        simp only [evalExpr, namesOf, noIfExpr]
        have h := EvalA.bind (ihe l s hfr.1) (fun a => EvalA.bind (ihe r s hfr.2) (fun b => EvalA.binop s a b))
        simpa using h
      | subscript v i =>
        simp only [fragAExpr, Bool.and_eq_true] at hfr
        simp only [evalExpr, namesOf, noIfExpr]
        have h := EvalA.bind (ihe v s hfr.1) (fun a => EvalA.bind (ihe i s hfr.2) (fun _ => EvalA.subscriptGet s a))
        simpa using h
      | tuple es =>
        simp only [fragAExpr] at hfr
        simp only [evalExpr, namesOf, noIfExpr]
        have h := EvalA.bind (ihes es s hfr) (fun vs => EvalA.pure s (RVal.seq vs))
        simpa using h
      | list es =>
        simp only [fragAExpr] at hfr
        simp only [evalExpr, namesOf, noIfExpr]
        have h := EvalA.bind (ihes es s hfr) (fun vs => EvalA.pure s (RVal.seq vs))
        simpa using h
      | ifExp t a b =>
        simp only [fragAExpr, Bool.and_eq_true] at hfr
        simp only [evalExpr, namesOf, noIfExpr]
        have hbr : ∀ tv : RVal, EvalA s (namesOf a ++ namesOf b) false
            ((if truthy tv = true then evalExpr f {} a else evalExpr f {} b) s) := by
          intro tv
          split
          · exact (ihe a s hfr.1.2).mono (fun n hn => List.mem_append_left _ hn)
          · exact (ihe b s hfr.2).mono (fun n hn => List.mem_append_right _ hn)
        have h := EvalA.bind (ihe t s hfr.1.1) hbr
        simpa [List.append_assoc] using h
      | attr _ _ => simp [fragAExpr] at hfr
      | call _ _ => simp [fragAExpr] at hfr
      | lambda _ _ => simp [fragAExpr] at hfr
      | comp _ _ _ => simp [fragAExpr] at hfr
    · intro es s hfr
      cases es with
      | nil => simp only [evalExprs, namesOfs, noIfExprs]; exact EvalA.pure s _
      | cons e es =>
        simp only [fragAExprs, Bool.and_eq_true] at hfr
        simp only [evalExprs, namesOfs, noIfExprs]
        have h := EvalA.bind (ihe e s hfr.1) (fun v => EvalA.bind (ihes es s hfr.2) (fun vs => EvalA.pure s (v :: vs)))
        simpa using h

/-! ### analysis on fragment-A expressions -/

theorem splitDots_simple {n : Str} (h : n.contains '.' = false) : splitDots n = [n] := by
  induction n with
  | nil => rfl
  | cons c cs ih =>
    simp only [List.contains_cons, Bool.or_eq_false_iff, beq_eq_false_iff_ne, ne_eq] at h
    unfold splitDots
    have hc : ¬ c = '.' := fun hh => h.1 hh.symm
    rw [if_neg hc, ih h.2]

theorem simpleName_split {n : Str} (h : simpleName n = true) : splitDots n = [n] := by
  simp only [simpleName, Bool.and_eq_true, Bool.not_eq_true'] at h
  exact splitDots_simple h.1

def unboundA (st : AState) (n : Str) : Prop := ∀ i ∈ normIds st.stack.ids, (st.heap.get i).get n = none

def noStarA (st : AState) : Prop := hasStar st.heap st.stack.ids = false

theorem sni_simple (reg : Registry) (heap : Heap) (ids : List Nat) {n : Str} (h : simpleName n = true) :
    (symbolNeedsImport reg heap ids n).1 = true ↔ ∀ i ∈ normIds ids, (heap.get i).get n = none := by
  rw [symbolNeedsImport_spec, simpleName_split h]
  simp only [prefixes, List.map_nil, List.mem_singleton, forall_eq, joinDots, List.length_singleton,
    List.drop_one, List.tail_cons]
  constructor
  · intro hh i hi
    cases hg : (heap.get i).get n with
    | none => rfl
    | some var =>
      obtain ⟨pre, part, post, _, _, hnil, _⟩ := hh i hi var hg
      simp at hnil
  · intro hh i hi var hg
    rw [hh i hi] at hg; cases hg

/-- what the analysis of (part of) a fragment-A expression does at module level -/
structure AnaA (st st' : AState) (names : List Str) : Prop where
  heap : st'.heap = st.heap
  stack : st'.stack = st.stack
  inFunc : st'.inFunc = st.inFunc
  deferred : st'.deferred = st.deferred
  mono : ∀ m ∈ st.missing, m ∈ st'.missing
  found : ∀ n ∈ names, simpleName n = true → unboundA st n → noStarA st → ∃ m ∈ st'.missing, m.name = n
  same : (∀ n ∈ names, ¬ unboundA st n) → st'.missing = st.missing

theorem AnaA.refl (st : AState) : AnaA st st [] :=
  ⟨rfl, rfl, rfl, rfl, fun _ h => h, fun _ h => by simp at h, fun _ => rfl⟩

theorem AnaA.trans {a b c : AState} {N1 N2 : List Str} (h1 : AnaA a b N1) (h2 : AnaA b c N2) : AnaA a c (N1 ++ N2) := by
  have hu : ∀ n, unboundA b n ↔ unboundA a n := by
    intro n; unfold unboundA; rw [h1.heap, h1.stack]
  have hs : noStarA b ↔ noStarA a := by unfold noStarA; rw [h1.heap, h1.stack]
  constructor
  · rw [h2.heap, h1.heap]
  · rw [h2.stack, h1.stack]
  · rw [h2.inFunc, h1.inFunc]
  · rw [h2.deferred, h1.deferred]
  · intro m hm; exact h2.mono m (h1.mono m hm)
  · intro n hn hsn hun hns
    rcases List.mem_append.mp hn with hn | hn
    · obtain ⟨m, hm, hmn⟩ := h1.found n hn hsn hun hns
      exact ⟨m, h2.mono m hm, hmn⟩
    · exact h2.found n hn hsn ((hu n).mpr hun) (hs.mpr hns)
  · intro hall
    rw [h2.same (fun n hn => fun hc => hall n (List.mem_append_right _ hn) ((hu n).mp hc)),
        h1.same (fun n hn => hall n (List.mem_append_left _ hn))]

theorem anaA_load (reg : Registry) (st : AState) (n : Str) (hf : st.inFunc = false) :
    AnaA st (runOps reg st [.load n]) [n] := by
  have hrun : runOps reg st [.load n] = checkLoad reg st n st.stack.ids st.line := by
    simp [runOps, step, hf]
  rw [hrun]
  unfold checkLoad
  dsimp only
  by_cases hneed : ((symbolNeedsImport reg st.heap st.stack.ids n).1 && !hasStar (st.emit (symbolNeedsImport reg st.heap st.stack.ids n).2).heap st.stack.ids) = true
  · rw [if_pos hneed]
    split
    · rename_i hany
      refine ⟨rfl, rfl, rfl, rfl, fun _ h => h, ?_, fun _ => rfl⟩
      intro m hm _ _ _
      simp only [List.mem_singleton] at hm; subst hm
      simp only [AState.emit, List.any_eq_true, decide_eq_true_eq] at hany
      obtain ⟨x, hx, _, hxn⟩ := hany
      exact ⟨x, hx, hxn⟩
    · refine ⟨rfl, rfl, rfl, rfl, fun m h => List.mem_append_left _ h, ?_, ?_⟩
      · intro m hm _ _ _
        simp only [List.mem_singleton] at hm; subst hm
        exact ⟨_, List.mem_append_right _ (List.mem_singleton.mpr rfl), rfl⟩
      · intro hall
        exfalso
        -- `n` is bound, so it cannot have needed import
        have hb := hall n (List.mem_singleton.mpr rfl)
        simp only [Bool.and_eq_true] at hneed
        by_cases hsn : simpleName n = true
        · exact hb ((sni_simple reg st.heap st.stack.ids hsn).mp hneed.1)
        · -- not a simple name: `unboundA` is still implied by the decision (spec), via the longest prefix only; avoid: use spec
          apply hb
          intro i hi
          have hspec := (symbolNeedsImport_spec reg st.heap st.stack.ids n).mp hneed.1 i hi
          cases hg : (st.heap.get i).get n with
          | none => rfl
          | some var =>
            exfalso
            have hmem : splitDots n ∈ prefixes (splitDots n) := by
              have : ∀ l : List Str, l ≠ [] → l ∈ prefixes l := by
                intro l
                induction l with
                | nil => intro h; exact absurd rfl h
                | cons a r ihr =>
                  intro _
                  cases r with
                  | nil => simp [prefixes]
                  | cons b r' =>
                    have := ihr (by simp)
                    simp only [prefixes, List.mem_cons, List.mem_map]
                    exact .inr ⟨_, this, rfl⟩
              apply this
              cases n with
              | nil => simp [splitDots]
              | cons c cs =>
                unfold splitDots
                split
                · simp
                · split <;> simp
            have hj : joinDots (splitDots n) = n := by
              have : ∀ s : Str, joinDots (splitDots s) = s := by
                intro s
                induction s with
                | nil => rfl
                | cons c cs ihs =>
                  unfold splitDots
                  split
                  · rename_i hc
                    cases hsd : splitDots cs with
                    | nil => simp [hsd, joinDots] at ihs ⊢; rw [← ihs]; simp [hc]
                    | cons l ls =>
                      rw [hsd] at ihs
                      cases ls with
                      | nil => simp only [joinDots] at ihs ⊢; simp [ihs, hc]
                      | cons l2 ls2 => simp only [joinDots] at ihs ⊢; simp [ihs, hc]
                  · cases hsd : splitDots cs with
                    | nil => simp [hsd, joinDots] at ihs ⊢; exact ihs
                    | cons l ls =>
                      rw [hsd] at ihs
                      simp only
                      cases ls with
                      | nil => simp only [joinDots] at ihs ⊢; rw [ihs]
                      | cons l2 ls2 => simp only [joinDots, List.cons_append] at ihs ⊢; rw [ihs]
              exact this n
            obtain ⟨pre, part, post, _, _, hnil, _⟩ := hspec (splitDots n) hmem var (by rw [hj]; exact hg)
            simp at hnil
  · rw [if_neg hneed]
    refine ⟨rfl, rfl, rfl, rfl, fun _ h => h, ?_, fun _ => rfl⟩
    intro m hm hsn hun hns
    simp only [List.mem_singleton] at hm; subst hm
    exfalso
    apply hneed
    simp only [Bool.and_eq_true, Bool.not_eq_true']
    exact ⟨(sni_simple reg st.heap st.stack.ids hsn).mpr hun, hns⟩

end Pfb.C05
