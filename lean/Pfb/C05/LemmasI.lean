/-
  Pfb.C05.LemmasI — simulation between the reference semantics (`Pfb.PyCore.Exec`) and the analysis model
  (`Pfb.PyCore.Analyze`) on fragment I (fragment B without dotted names + module-level classes without methods).

  * `EvalK` / `evalK`: LOAD_NAME in a class body (class namespace, then globals, then builtins);
  * `CorrK`: run-time state in the body of `class C` ↔ analysis state whose top scope is the `_ClassScope` of `C`
    (the analysis has stored `C` there although Python has not bound it yet: `namesS` excludes `C`);
  * `stmtK` / `stmtsK`: the statements of a class body in lock step;
  * `opKeeps` / `runOps_keeps`: the only visitor action that drops a recorded missing name is `_remove_from_missing_imports`;
  * `classI`: one class definition at module level (`_class_delayed`, push, body, pop, `_remove_from_missing_imports`, store);
  * `CorrI` / `stmtsI`: the module-level invariant (fragment B's `Corr` + the stack shape `ModI` + "every NameError so
    far is a name read so far") and the induction over the program.
-/
import Pfb.C05.FragI
import Pfb.C05.LemmasD
namespace Pfb.C05
open Pfb Pfb.PyCore

/-! ### reads in the body of a module-level class -/

/-- the context in which the body of a module-level class runs (`L` = the names bound somewhere in the body) -/
def ctxK (L : List Str) : Ctx := { kind := .cls L, frames := [] }

/-- `n` is bound neither in the namespace of the class body being executed nor in the globals nor in the builtins -/
def unboundK (s : XState) (n : Str) : Prop := assocGet n (s.clsStack.headD []) = none ∧ unboundX s n

theorem SameUpToLog.clsStack {a b : XState} (h : SameUpToLog a b) : b.clsStack = a.clsStack := by rw [h]

theorem unboundK_same {a b : XState} (h : SameUpToLog a b) (n : Str) : unboundK b n ↔ unboundK a n := by
  unfold unboundK; rw [h.clsStack, h.unbound]

/-- what evaluating (part of) a fragment-B expression in a class body can do; `names` = the names it may read -/
structure EvalK {α} (s : XState) (names : List Str) (noIf : Bool) (res : XState × Except Exc α) : Prop where
  same : SameUpToLog s res.1
  ok : ∀ v, res.2 = .ok v → res.1.ne = s.ne ∧ (noIf = true → ∀ n ∈ names, ¬ unboundK s n)
  err : ∀ x, res.2 = .error x →
    (∃ n, x = .nameError n ∧ res.1.ne = addOnce n s.ne ∧ n ∈ names ∧ unboundK s n) ∨
    ((∀ n, x ≠ .nameError n) ∧ res.1.ne = s.ne)

theorem EvalK.pure {α} (s : XState) (a : α) : EvalK s [] true ((Pure.pure a : X α) s) :=
  ⟨rfl, fun _ _ => ⟨rfl, fun _ n hn => by simp at hn⟩, fun x hx => by cases hx⟩

theorem EvalK.mono {α} {s : XState} {N N' : List Str} {b : Bool} {res : XState × Except Exc α}
    (h : EvalK s N b res) (hsub : ∀ n ∈ N, n ∈ N') (b' : Bool) (hsup : b' = true → b = true ∧ ∀ n ∈ N', n ∈ N) :
    EvalK s N' b' res := by
  refine ⟨h.same, ?_, ?_⟩
  · intro v hv
    refine ⟨(h.ok v hv).1, fun hb n hn => ?_⟩
    obtain ⟨hb1, hb2⟩ := hsup hb
    exact (h.ok v hv).2 hb1 n (hb2 n hn)
  · intro x hx
    rcases h.err x hx with ⟨n, hn, hne, hmem, hu⟩ | h2
    · exact .inl ⟨n, hn, hne, hsub n hmem, hu⟩
    · exact .inr h2

theorem EvalK.bind {α β} {s : XState} {N1 N2 : List Str} {b1 b2 : Bool} {m : X α} {f : α → X β}
    (h1 : EvalK s N1 b1 (m s)) (h2 : ∀ a s', SameUpToLog s s' → EvalK s' N2 b2 (f a s')) :
    EvalK s (N1 ++ N2) (b1 && b2) ((m >>= f) s) := by
  rw [X.bind_def]
  cases hm : m s with
  | mk s' r =>
    rw [hm] at h1
    cases r with
    | ok a =>
      have hs := h1.same
      simp only at hs
      obtain ⟨hne1, hn1⟩ := h1.ok a rfl
      simp only at hne1
      have h3 := h2 a s' hs
      simp only
      refine ⟨hs.trans h3.same, ?_, ?_⟩
      · intro v hv
        obtain ⟨hne2, hn2⟩ := h3.ok v hv
        refine ⟨hne2.trans hne1, fun hb n hn => ?_⟩
        simp only [Bool.and_eq_true] at hb
        rcases List.mem_append.mp hn with hn | hn
        · exact hn1 hb.1 n hn
        · intro hc; exact hn2 hb.2 n hn ((unboundK_same hs n).mpr hc)
      · intro x hx
        rcases h3.err x hx with ⟨n, hn, hne, hmem, hu⟩ | ⟨hnn, hne⟩
        · exact .inl ⟨n, hn, by rw [hne, hne1], List.mem_append_right _ hmem, (unboundK_same hs n).mp hu⟩
        · exact .inr ⟨hnn, hne.trans hne1⟩
    | error e =>
      simp only
      refine ⟨h1.same, (fun v hv => nomatch hv), ?_⟩
      intro x hx
      have hex : e = x := by simpa using hx
      subst hex
      rcases h1.err e rfl with ⟨n, hn, hne, hmem, hu⟩ | h3
      · exact .inl ⟨n, hn, hne, List.mem_append_left _ hmem, hu⟩
      · exact .inr h3

theorem EvalK.errOnly {α} (s : XState) (N : List Str) (b : Bool) (m : X α) (s' : XState) (x : Exc)
    (hm : m s = (s', .error x)) (hs : SameUpToLog s s') (hne : s'.ne = s.ne)
    (hx : ∀ n, x ≠ .nameError n) : EvalK s N b (m s) := by
  rw [hm]
  refine ⟨hs, (fun v hv => nomatch hv), fun y hy => ?_⟩
  have : x = y := by simpa using hy
  subst this
  exact .inr ⟨hx, hne⟩

theorem EvalK.raiseOther {α} (s : XState) (N : List Str) (b : Bool) : EvalK s N b ((raiseOther : X α) s) :=
  EvalK.errOnly s N b _ _ .other rfl rfl rfl (fun _ hn => nomatch hn)

theorem EvalK.fuel {α} (s : XState) (N : List Str) (b : Bool) : EvalK s N b ((X.throw .fuel : X α) s) :=
  EvalK.errOnly s N b _ _ .fuel rfl rfl rfl (fun _ hn => nomatch hn)

/-- a module-level lookup seen from the class body -/
theorem EvalK.ofGlobal {s : XState} {n : Str} {res : XState × Except Exc RVal} (h : EvalB {} s [n] true res)
    (hc : assocGet n (s.clsStack.headD []) = none) : EvalK s [n] true res := by
  refine ⟨h.same, ?_, ?_⟩
  · intro v hv
    refine ⟨(h.ok v hv).1, fun hb m hm hu => ?_⟩
    exact (h.ok v hv).2 hb m hm ⟨by simp [isGlobalIn], hu.2⟩
  · intro x hx
    rcases h.err x hx with ⟨n', hn, hne, hmem, hu⟩ | h2
    · refine .inl ⟨n', hn, hne, hmem, ?_, hu.2⟩
      simp only [List.mem_singleton] at hmem; subst hmem; exact hc
    · exact .inr h2

/-- LOAD_NAME in a class body at module level: the class namespace, then the globals, then the builtins -/
theorem EvalK.readName (L : List Str) (s : XState) (n : Str) : EvalK s [n] true (readName (ctxK L) n s) := by
  unfold Pfb.PyCore.readName ctxK
  simp only
  cases hc : assocGet n (s.clsStack.headD []) with
  | some v =>
    simp only
    refine ⟨rfl, fun _ _ => ⟨rfl, fun _ m hm hu => ?_⟩, fun x hx => by cases hx⟩
    simp only [List.mem_singleton] at hm; subst hm
    rw [hu.1] at hc; cases hc
  | none =>
    simp only
    have hg := EvalK.ofGlobal (EvalB.globalLookup {} s n (by simp [isGlobalIn])) hc
    split
    · exact hg
    · simp only [frameLookup]; exact hg

theorem EvalK.binop (s : XState) (a b : RVal) : EvalK s [] true (binop a b s) := by
  unfold Pfb.PyCore.binop
  split <;> first | exact EvalK.pure s _ | exact EvalK.raiseOther s _ _

theorem EvalK.subscriptGet (s : XState) (a : RVal) : EvalK s [] true (subscriptGet a s) := by
  unfold Pfb.PyCore.subscriptGet
  split <;> first | exact EvalK.pure s _ | exact EvalK.raiseOther s _ _

theorem evalK (L : List Str) (f : Nat) :
    (∀ e s, fragBExpr false e = true → EvalK s (loadsOf e) (noIfExpr e) (evalExpr f (ctxK L) e s)) ∧
    (∀ es s, fragBExprs false es = true → EvalK s (loadsOfs es) (noIfExprs es) (evalExprs f (ctxK L) es s)) := by
  induction f with
  | zero =>
    constructor
    · intro e s _; rw [evalExpr]; exact EvalK.fuel s _ _
    · intro es s _; rw [evalExprs]; exact EvalK.fuel s _ _
  | succ f ih =>
    obtain ⟨ihe, ihes⟩ := ih
    constructor
    · intro e s hfr
      cases e with
      | name n =>
        simp only [evalExpr, loadsOf, noIfExpr]
        exact EvalK.readName L s n
      | attr e a => simp [fragBExpr] at hfr
      | const => simp only [evalExpr, loadsOf, noIfExpr]; exact EvalK.pure s _
      | bool b => simp only [evalExpr, loadsOf, noIfExpr]; exact EvalK.pure s _
      | str _ => simp only [evalExpr, loadsOf, noIfExpr]; exact EvalK.pure s _
      | binop l r =>
        simp only [fragBExpr, Bool.and_eq_true] at hfr
        simp only [evalExpr, loadsOf, noIfExpr]
        have h := EvalK.bind (ihe l s hfr.1) (fun a s' _ => EvalK.bind (ihe r s' hfr.2) (fun b s'' _ => EvalK.binop s'' a b))
        simpa using h
      | subscript v i =>
        simp only [fragBExpr, Bool.and_eq_true] at hfr
        simp only [evalExpr, loadsOf, noIfExpr]
        have h := EvalK.bind (ihe v s hfr.1) (fun a s' _ => EvalK.bind (ihe i s' hfr.2) (fun _ s'' _ => EvalK.subscriptGet s'' a))
        simpa using h
      | tuple es =>
        simp only [fragBExpr] at hfr
        simp only [evalExpr, loadsOf, noIfExpr]
        have h := EvalK.bind (ihes es s hfr) (fun vs s' _ => EvalK.pure s' (RVal.seq vs))
        simpa using h
      | list es =>
        simp only [fragBExpr] at hfr
        simp only [evalExpr, loadsOf, noIfExpr]
        have h := EvalK.bind (ihes es s hfr) (fun vs s' _ => EvalK.pure s' (RVal.seq vs))
        simpa using h
      | ifExp t a b =>
        simp only [fragBExpr, Bool.and_eq_true] at hfr
        simp only [evalExpr, loadsOf, noIfExpr]
        have hbr : ∀ (tv : RVal) (s' : XState), SameUpToLog s s' → EvalK s' (loadsOf a ++ loadsOf b) false
            ((if truthy tv = true then evalExpr f (ctxK L) a else evalExpr f (ctxK L) b) s') := by
          intro tv s' _
          split
          · exact (ihe a s' hfr.1.2).mono (fun n hn => List.mem_append_left _ hn) false (fun h => by cases h)
          · exact (ihe b s' hfr.2).mono (fun n hn => List.mem_append_right _ hn) false (fun h => by cases h)
        have h := EvalK.bind (ihe t s hfr.1.1) hbr
        simpa [List.append_assoc] using h
      | call _ _ => simp [fragBExpr] at hfr
      | lambda _ _ => simp [fragBExpr] at hfr
      | comp _ _ _ => simp [fragBExpr] at hfr
    · intro es s hfr
      cases es with
      | nil => simp only [evalExprs, loadsOfs, noIfExprs]; exact EvalK.pure s _
      | cons e es =>
        simp only [fragBExprs, Bool.and_eq_true] at hfr
        simp only [evalExprs, loadsOfs, noIfExprs]
        have h := EvalK.bind (ihe e s hfr.1) (fun v s' _ => EvalK.bind (ihes es s' hfr.2) (fun vs s'' _ => EvalK.pure s'' (v :: vs)))
        simpa using h

/-! ### the correspondence inside a class body -/

theorem loadsB_simple {e : Expr} (hfr : fragBExpr false e = true) : ∀ d ∈ loadsOf e, simpleName d = true := by
  intro d hd
  obtain ⟨hg, hdf⟩ := loads_good false e hfr d hd
  have hs : splitDots d = [d] := splitDots_simple (by simpa [dotFree] using hdf rfl)
  simpa [goodDotted, hs] using hg

/-- run-time state in the body of `class C` ↔ analysis state whose top scope is the `_ClassScope` of `C`.  The analysis
    has stored `C` in that scope although Python binds it only after the body (`namesS` excludes it). -/
structure CorrK (C : Str) (s : XState) (st : AState) : Prop where
  namesS : ∀ n, simpleName n = true → n ≠ C → unboundK s n → unboundA st n
  namesP : ∀ n, simpleName n = true → unboundA st n → unboundK s n
  noStar : noStarA st
  ne : ∀ n ∈ s.ne, ∃ m ∈ st.missing, m.name = n
  inFunc : st.inFunc = false
  topMem : st.stack.top ∈ normIds st.stack.ids
  topLt : st.stack.top < st.heap.length
  cls : s.clsStack ≠ []

theorem CorrK.ana {C : Str} {reg : Registry} {s : XState} {st st' : AState} {L : List Str}
    (h : CorrK C s st) (a : AnaL reg st st' L) : CorrK C s st' := by
  have hu : ∀ n, unboundA st' n ↔ unboundA st n := by intro n; unfold unboundA; rw [a.heap, a.stack]
  refine ⟨fun n hn hc hk => (hu n).mpr (h.namesS n hn hc hk), fun n hn hk => h.namesP n hn ((hu n).mp hk), ?_, ?_,
    by rw [a.inFunc]; exact h.inFunc, by rw [a.stack]; exact h.topMem, by rw [a.stack, a.heap]; exact h.topLt, h.cls⟩
  · unfold noStarA; rw [a.heap, a.stack]; exact h.noStar
  · intro n hn; obtain ⟨m, hm, hmn⟩ := h.ne n hn; exact ⟨m, a.mono m hm, hmn⟩

theorem CorrK.same {C : Str} {s s' : XState} {st : AState} (h : CorrK C s st) (hs : SameUpToLog s s') (hne : s'.ne = s.ne) :
    CorrK C s' st :=
  ⟨fun n hn hc hk => h.namesS n hn hc ((unboundK_same hs n).mp hk), fun n hn hk => (unboundK_same hs n).mpr (h.namesP n hn hk),
   h.noStar, by rw [hne]; exact h.ne, h.inFunc, h.topMem, h.topLt, by rw [hs.clsStack]; exact h.cls⟩

theorem CorrK.setLine {C : Str} {s : XState} {st : AState} (h : CorrK C s st) (l : Nat) : CorrK C s { st with line := l } :=
  ⟨h.namesS, h.namesP, h.noStar, h.ne, h.inFunc, h.topMem, h.topLt, h.cls⟩

theorem CorrK.line {C : Str} {s : XState} {st : AState} (h : CorrK C s st) (l : Nat) : CorrK C { s with line := l } st :=
  ⟨h.namesS, h.namesP, h.noStar, h.ne, h.inFunc, h.topMem, h.topLt, h.cls⟩

/-- evaluating and analysing one fragment-B expression in a class body, in lock step -/
theorem corr_exprK (fx : Fixes) (reg : Registry) {C : Str} {s : XState} {st : AState} (h : CorrK C s st) (L : List Str)
    (f : Nat) (e : Expr) (hfr : fragBExpr false e = true) (hC : C ∉ loadsOf e) :
    AnaL reg st (runOps reg st (cExpr fx e)) (loadsOf e) ∧
    SameUpToLog s (evalExpr f (ctxK L) e s).1 ∧
    (∀ n ∈ (evalExpr f (ctxK L) e s).1.ne, n ∈ s.ne ∨ n ∈ loadsOf e) ∧
    (∀ n ∈ (evalExpr f (ctxK L) e s).1.ne, ∃ m ∈ (runOps reg st (cExpr fx e)).missing, m.name = n) ∧
    (∀ v, (evalExpr f (ctxK L) e s).2 = .ok v → (evalExpr f (ctxK L) e s).1.ne = s.ne ∧
        (noIfExpr e = true → (runOps reg st (cExpr fx e)).missing = st.missing)) := by
  have hA : AnaL reg st (runOps reg st (cExpr fx e)) (loadsOf e) := by
    rw [cExpr_loads fx false e hfr]; exact anaL_loads reg _ st h.inFunc
  have hE := (evalK L f).1 e s hfr
  have hgood := loads_good false e hfr
  have hsimp := loadsB_simple hfr
  refine ⟨hA, hE.same, ?_, ?_, ?_⟩
  · intro n hn
    cases hr : (evalExpr f (ctxK L) e s).2 with
    | ok v => rw [(hE.ok v hr).1] at hn; exact .inl hn
    | error x =>
      rcases hE.err x hr with ⟨n', _, hne, hmem, _⟩ | ⟨_, hne⟩
      · rw [hne] at hn
        rcases mem_addOnce hn with hn | rfl
        · exact .inl hn
        · exact .inr hmem
      · rw [hne] at hn; exact .inl hn
  · intro n hn
    cases hr : (evalExpr f (ctxK L) e s).2 with
    | ok v =>
      rw [(hE.ok v hr).1] at hn
      obtain ⟨m, hm, hmn⟩ := h.ne n hn
      exact ⟨m, hA.mono m hm, hmn⟩
    | error x =>
      rcases hE.err x hr with ⟨n', _, hne, hmem, hu⟩ | ⟨_, hne⟩
      · rw [hne] at hn
        rcases mem_addOnce hn with hn | rfl
        · obtain ⟨m, hm, hmn⟩ := h.ne n hn
          exact ⟨m, hA.mono m hm, hmn⟩
        · have hs := hsimp n hmem
          have hnC : n ≠ C := fun hc => hC (hc ▸ hmem)
          refine hA.found n hmem (hgood n hmem).1 ?_ (fun hdf => ?_) h.noStar
          · rw [headOf_simple hs]; exact h.namesS n hs hnC hu
          · have := (hgood n hmem).2 rfl; rw [this] at hdf; cases hdf
      · rw [hne] at hn
        obtain ⟨m, hm, hmn⟩ := h.ne n hn
        exact ⟨m, hA.mono m hm, hmn⟩
  · intro v hv
    refine ⟨(hE.ok v hv).1, fun hno => ?_⟩
    apply hA.same
    intro d hd
    have hs := hsimp d hd
    refine ⟨(hgood d hd).1, fun hun => ?_, fun hdf => ?_⟩
    · rw [headOf_simple hs] at hun
      exact (hE.ok v hv).2 hno d hd (h.namesP d hs hun)
    · have := (hgood d hd).2 rfl; rw [this] at hdf; cases hdf

/-! ### statements of a class body -/

/-- `x = v` in a class body: the binding goes to the namespace of the class -/
def bindK (s : XState) (x : Str) (v : RVal) : XState :=
  match s.clsStack with
  | ns :: r => { s with clsStack := assocSet x v ns :: r }
  | [] => s

theorem assignAll_nameK (L : List Str) (f : Nat) (x : Str) (v : RVal) (s : XState) :
    (assignAll f (ctxK L) [.name x] v s = (bindK s x v, .ok ())) ∨
    (assignAll f (ctxK L) [.name x] v s = (s, .error .fuel)) := by
  match f with
  | 0 => right; rfl
  | 1 => right; rfl
  | f + 2 =>
    left
    simp only [assignAll, bindTarget, bindName, ctxK, X.bind_def, X.modify, bindK]
    rfl

/-- what the run of (part of) a class body leaves untouched -/
structure FrameK (s s' : XState) : Prop where
  globals : s'.globals = s.globals
  builtins : s'.builtins = s.builtins
  tail : s'.clsStack.tail = s.clsStack.tail

theorem FrameK.refl (s : XState) : FrameK s s := ⟨rfl, rfl, rfl⟩
theorem FrameK.trans {a b c : XState} (h1 : FrameK a b) (h2 : FrameK b c) : FrameK a c :=
  ⟨h2.globals.trans h1.globals, h2.builtins.trans h1.builtins, h2.tail.trans h1.tail⟩
theorem FrameK.ofSame {a b : XState} (h : SameUpToLog a b) : FrameK a b := ⟨h.globals, h.builtins, by rw [h.clsStack]⟩

theorem frameK_bindK (s : XState) (x : Str) (v : RVal) : FrameK s (bindK s x v) := by
  unfold bindK
  split
  · rename_i ns r hc; exact ⟨rfl, rfl, by simp [hc]⟩
  · exact FrameK.refl s

theorem unboundK_bindK (s : XState) (hc : s.clsStack ≠ []) (x : Str) (v : RVal) (n : Str) :
    unboundK (bindK s x v) n ↔ (unboundK s n ∧ n ≠ x) := by
  unfold bindK
  cases hs : s.clsStack with
  | nil => exact absurd hs hc
  | cons ns r =>
    simp only [unboundK, unboundX, hs, List.headD_cons]
    by_cases hn : n = x
    · subst hn; simp [assocGet_assocSet_eq]
    · rw [assocGet_assocSet_ne hn]; simp [hn]

/-- a store into the top scope, seen through `unboundA` -/
theorem unboundA_store {st1 st2 : AState} {x : Str} (hh : st2.heap = (storeTop st1 x).heap) (hs : st2.stack = st1.stack)
    (htm : st1.stack.top ∈ normIds st1.stack.ids) (htl : st1.stack.top < st1.heap.length) (n : Str) :
    unboundA st2 n ↔ (unboundA st1 n ∧ n ≠ x) := by
  unfold unboundA
  rw [hs, hh]
  constructor
  · intro hu
    have hnx : n ≠ x := by
      intro hc
      have := hu _ htm
      rw [storeTop_get st1 htl] at this; simp [hc] at this
    refine ⟨fun i hi => ?_, hnx⟩
    have := hu i hi
    rw [storeTop_get st1 htl] at this; simpa [hnx] using this
  · rintro ⟨hu, hnx⟩ i hi
    rw [storeTop_get st1 htl]; simp [hnx, hu i hi]

theorem noStarA_store {st1 st2 : AState} {x : Str} (hh : st2.heap = (storeTop st1 x).heap) (hs : st2.stack = st1.stack)
    (htl : st1.stack.top < st1.heap.length) (hx : x ≠ ['*']) (h : noStarA st1) : noStarA st2 := by
  unfold noStarA hasStar at h ⊢
  rw [hs, hh]
  rw [List.any_eq_false] at h ⊢
  intro i hi
  have := h i hi
  rw [storeTop_get st1 htl]
  have hne : ¬ (['*'] = x) := fun hc => hx hc.symm
  simpa [hne] using this

theorem CorrK.store {C : Str} {s : XState} {st1 st2 : AState} (h : CorrK C s st1) (x : Str) (v : RVal)
    (hx : simpleName x = true) (hh : st2.heap = (storeTop st1 x).heap) (hs : st2.stack = st1.stack)
    (hf : st2.inFunc = false) (hm : st2.missing = st1.missing) : CorrK C (bindK s x v) st2 := by
  have hu := unboundA_store hh hs h.topMem h.topLt
  have hk := unboundK_bindK s h.cls x v
  refine ⟨fun n hn hc hkn => ?_, fun n hn hun => ?_, noStarA_store hh hs h.topLt (simpleName_ne_star hx) h.noStar, ?_, hf,
    by rw [hs]; exact h.topMem, ?_, ?_⟩
  · obtain ⟨a, b⟩ := (hk n).mp hkn
    exact (hu n).mpr ⟨h.namesS n hn hc a, b⟩
  · obtain ⟨a, b⟩ := (hu n).mp hun
    exact (hk n).mpr ⟨h.namesP n hn a, b⟩
  · intro n hn
    have : (bindK s x v).ne = s.ne := by unfold bindK; split <;> rfl
    rw [this] at hn; rw [hm]; exact h.ne n hn
  · rw [hs, hh]; simp [storeTop, Heap.length_update]; exact h.topLt
  · unfold bindK
    cases hc : s.clsStack with
    | nil => exact absurd hc h.cls
    | cons ns r => simp

theorem clsBody_fragB : ∀ stmt : Stmt, clsBodyStmt stmt = true → fragBStmt false stmt = true
  | .expr _, h => by simpa [clsBodyStmt, fragBStmt] using h
  | .assign ts _, h => by
    simp only [clsBodyStmt, fragBStmt] at h ⊢
    cases hs : singleName ts <;> simp_all
  | .pass, _ => rfl
  | .located _ s, h => by
    simp only [clsBodyStmt] at h; simp only [fragBStmt]; exact clsBody_fragB s h
  | .augAssign _ _, h => by simp [clsBodyStmt] at h
  | .annAssign _ _ _, h => by simp [clsBodyStmt] at h
  | .import_ _, h => by simp [clsBodyStmt] at h
  | .importFrom _ _, h => by simp [clsBodyStmt] at h
  | .funcDef _ _ _ _ _, h => by simp [clsBodyStmt] at h
  | .classDef _ _ _ _, h => by simp [clsBodyStmt] at h
  | .for_ _ _ _ _, h => by simp [clsBodyStmt] at h
  | .while_ _ _ _, h => by simp [clsBodyStmt] at h
  | .if_ _ _ _, h => by simp [clsBodyStmt] at h
  | .with_ _ _, h => by simp [clsBodyStmt] at h
  | .try_ _ _ _ _, h => by simp [clsBodyStmt] at h
  | .return_ _, h => by simp [clsBodyStmt] at h
  | .raise_ _, h => by simp [clsBodyStmt] at h
  | .delete _, h => by simp [clsBodyStmt] at h
  | .global_ _, h => by simp [clsBodyStmt] at h
  | .nonlocal_ _, h => by simp [clsBodyStmt] at h

theorem clsBody_fragB_all {body : List Stmt} (h : body.all clsBodyStmt = true) : fragB false body = true := by
  simp only [fragB, List.all_eq_true] at h ⊢
  exact fun s hs => clsBody_fragB s (h s hs)

/-- one statement of a class body, reference semantics and analysis in lock step -/
theorem stmtK (fx : Fixes) (reg : Registry) (C : Str) (L : List Str) :
    ∀ (stmt : Stmt) (f : Nat) (s : XState) (st : AState) (ln : Nat),
    clsBodyStmt stmt = true → C ∉ loadsI stmt → CorrK C s st →
    FrameK s (execStmt f (ctxK L) stmt s).1 ∧
    (∀ n ∈ (execStmt f (ctxK L) stmt s).1.ne, n ∈ s.ne ∨ n ∈ loadsI stmt) ∧
    (∀ n ∈ (execStmt f (ctxK L) stmt s).1.ne, ∃ m ∈ (runOps reg st (cStmt fx ln stmt)).missing, m.name = n) ∧
    (∀ fl, (execStmt f (ctxK L) stmt s).2 = .ok fl →
      fl = Flow.normal ∧ CorrK C (execStmt f (ctxK L) stmt s).1 (runOps reg st (cStmt fx ln stmt)) ∧
      (plainStmtB stmt = true → (runOps reg st (cStmt fx ln stmt)).missing = st.missing ∧
        (runOps reg st (cStmt fx ln stmt)).deferred = st.deferred))
  | stmt, 0, s, st, ln, hfr, _, h => by
    have hm := (anaStmt fx reg false stmt ln st (clsBody_fragB stmt hfr) h.inFunc h.topLt).1
    rw [execStmt]
    refine ⟨FrameK.refl s, fun n hn => .inl hn, fun n hn => ?_, fun fl hfl => by cases hfl⟩
    obtain ⟨m, hmm, hmn⟩ := h.ne n hn
    exact ⟨m, hm m hmm, hmn⟩
  | .expr e, f + 1, s, st, ln, hfr, hC, h => by
    have hfe : fragBExpr false e = true := by simpa [clsBodyStmt] using hfr
    obtain ⟨hA, hsame, hsub, hne, hok⟩ := corr_exprK fx reg h L f e hfe (by simpa [loadsI] using hC)
    simp only [execStmt, cStmt, X.bind_def, loadsI]
    cases hr : evalExpr f (ctxK L) e s with
    | mk s' r =>
      rw [hr] at hne hok hsame hsub
      cases r with
      | error x => exact ⟨FrameK.ofSame hsame, hsub, hne, fun fl hfl => by cases hfl⟩
      | ok v =>
        obtain ⟨hnes, hno⟩ := hok v rfl
        refine ⟨FrameK.ofSame hsame, hsub, hne, fun fl hfl => ?_⟩
        have : fl = Flow.normal := by
          have := hfl; simp only [X.pure_def] at this; cases this; rfl
        exact ⟨this, (h.ana hA).same hsame hnes, fun hp => ⟨hno (by simpa [plainStmtB] using hp), hA.deferred⟩⟩
  | .assign ts e, f + 1, s, st, ln, hfr, hC, h => by
    simp only [clsBodyStmt, Bool.and_eq_true] at hfr
    cases hsn : singleName ts with
    | none => rw [hsn] at hfr; simp at hfr
    | some x =>
      have hts := singleName_eq hsn
      subst hts
      rw [hsn] at hfr
      have hx : simpleName x = true := hfr.1
      obtain ⟨hA, hsame, hsub, hne, hok⟩ := corr_exprK fx reg h L f e hfr.2 (by simpa [loadsI] using hC)
      have hf1 : (runOps reg st (cExpr fx e)).inFunc = false := by rw [hA.inFunc, h.inFunc]
      obtain ⟨t1, t2, t3, t4, t5⟩ := assign_tail fx reg (runOps reg st (cExpr fx e)) x e hf1
      simp only [execStmt, cStmt, List.append_assoc, X.bind_def, loadsI]
      rw [runOps_append]
      cases hr : evalExpr f (ctxK L) e s with
      | mk s' r =>
        rw [hr] at hne hok hsame hsub
        cases r with
        | error err =>
          refine ⟨FrameK.ofSame hsame, hsub, fun n hn => ?_, fun fl hfl => by cases hfl⟩
          obtain ⟨m, hm, hmn⟩ := hne n hn
          exact ⟨m, by rw [t4]; exact hm, hmn⟩
        | ok v =>
          obtain ⟨hnes, hno⟩ := hok v rfl
          simp only at hnes hsame hsub
          have hc1 : CorrK C s' (runOps reg st (cExpr fx e)) := (h.ana hA).same hsame hnes
          simp only
          rcases assignAll_nameK L f x v s' with ha | ha
          · rw [ha]
            simp only [X.pure_def]
            have hc2 := hc1.store x v hx t1 t2 t3 t4
            have hne2 : (bindK s' x v).ne = s'.ne := by unfold bindK; split <;> rfl
            refine ⟨(FrameK.ofSame hsame).trans (frameK_bindK s' x v), fun n hn => hsub n (by rw [← hne2]; exact hn),
              fun n hn => hc2.ne n hn, fun fl hfl => ?_⟩
            have : fl = Flow.normal := by cases hfl; rfl
            refine ⟨this, hc2, fun hp => ?_⟩
            simp only [plainStmtB, hsn, Bool.and_eq_true, bne_iff_ne, ne_eq, Option.some.injEq] at hp
            exact ⟨by rw [t4]; exact hno hp.1, by rw [t5 hp.2]; exact hA.deferred⟩
          · rw [ha]
            refine ⟨FrameK.ofSame hsame, hsub, fun n hn => ?_, fun fl hfl => by cases hfl⟩
            obtain ⟨m, hm, hmn⟩ := hc1.ne n hn
            exact ⟨m, by rw [t4]; exact hm, hmn⟩
  | .pass, f + 1, s, st, ln, _, _, h => by
    simp only [execStmt, cStmt, X.pure_def]
    exact ⟨FrameK.refl s, fun n hn => .inl hn, h.ne, fun fl hfl => ⟨by cases hfl; rfl, h, fun _ => ⟨rfl, rfl⟩⟩⟩
  | .located l s', f + 1, s, st, ln, hfr, hC, h => by
    simp only [execStmt, cStmt, runOps_setLine, X.bind_def, X.modify, loadsI]
    have := stmtK fx reg C L s' f { s with line := l } { st with line := l } l (by simpa [clsBodyStmt] using hfr)
      (by simpa [loadsI] using hC) ((h.line l).setLine l)
    obtain ⟨a, b, c, d⟩ := this
    refine ⟨⟨a.globals, a.builtins, a.tail⟩, b, c, fun fl hfl => ?_⟩
    obtain ⟨d1, d2, d3⟩ := d fl hfl
    exact ⟨d1, d2, fun hp => d3 (by simpa [plainStmtB] using hp)⟩
  | .augAssign _ _, _ + 1, _, _, _, hfr, _, _ => by simp [clsBodyStmt] at hfr
  | .annAssign _ _ _, _ + 1, _, _, _, hfr, _, _ => by simp [clsBodyStmt] at hfr
  | .import_ _, _ + 1, _, _, _, hfr, _, _ => by simp [clsBodyStmt] at hfr
  | .importFrom _ _, _ + 1, _, _, _, hfr, _, _ => by simp [clsBodyStmt] at hfr
  | .funcDef _ _ _ _ _, _ + 1, _, _, _, hfr, _, _ => by simp [clsBodyStmt] at hfr
  | .classDef _ _ _ _, _ + 1, _, _, _, hfr, _, _ => by simp [clsBodyStmt] at hfr
  | .for_ _ _ _ _, _ + 1, _, _, _, hfr, _, _ => by simp [clsBodyStmt] at hfr
  | .while_ _ _ _, _ + 1, _, _, _, hfr, _, _ => by simp [clsBodyStmt] at hfr
  | .if_ _ _ _, _ + 1, _, _, _, hfr, _, _ => by simp [clsBodyStmt] at hfr
  | .with_ _ _, _ + 1, _, _, _, hfr, _, _ => by simp [clsBodyStmt] at hfr
  | .try_ _ _ _ _, _ + 1, _, _, _, hfr, _, _ => by simp [clsBodyStmt] at hfr
  | .return_ _, _ + 1, _, _, _, hfr, _, _ => by simp [clsBodyStmt] at hfr
  | .raise_ _, _ + 1, _, _, _, hfr, _, _ => by simp [clsBodyStmt] at hfr
  | .delete _, _ + 1, _, _, _, hfr, _, _ => by simp [clsBodyStmt] at hfr
  | .global_ _, _ + 1, _, _, _, hfr, _, _ => by simp [clsBodyStmt] at hfr
  | .nonlocal_ _, _ + 1, _, _, _, hfr, _, _ => by simp [clsBodyStmt] at hfr

/-! ### which recorded missing names survive the rest of the analysis -/

/-- the only visitor action that ever drops a recorded missing name is `_remove_from_missing_imports` -/
def opKeeps (n : Str) : Op → Bool
  | .removeMissing C _ => !dottedStartsWith n C
  | _ => true

theorem removeLoop_keeps (cond : Missing → Bool) (m : Missing) (hc : cond m = false) :
    ∀ (fuel i : Nat) (l : List Missing), m ∈ l → m ∈ removeLoop cond fuel i l := by
  intro fuel
  induction fuel with
  | zero => intro i l h; simpa [removeLoop] using h
  | succ fuel ih =>
    intro i l h
    unfold removeLoop
    split
    · exact h
    · rename_i x hx
      split
      · rename_i hcx
        apply ih
        rw [List.mem_eraseIdx_iff_getElem]
        obtain ⟨j, hj, hjm⟩ := List.getElem_of_mem h
        refine ⟨j, hj, ?_, hjm⟩
        intro hji
        subst hji
        have : l[j]? = some m := by rw [List.getElem?_eq_getElem hj, hjm]
        rw [this] at hx
        cases hx
        rw [hc] at hcx; cases hcx
      · exact ih _ _ h

theorem deferLoad_missing (reg : Registry) (st : AState) (d : Str) : (deferLoad reg st d).missing = st.missing := by
  unfold deferLoad; dsimp only; split <;> rfl

theorem foldl_storeTop_missing : ∀ (keys : List Str) (st : AState), (keys.foldl storeTop st).missing = st.missing
  | [], _ => rfl
  | k :: ks, st => by simp only [List.foldl_cons]; rw [foldl_storeTop_missing ks]; rfl

theorem step_keeps (reg : Registry) (n : Str) (op : Op) (hk : opKeeps n op = true) (st : AState) (m : Missing)
    (hm : m ∈ st.missing) (hn : m.name = n) : m ∈ (step reg st op).missing := by
  cases op with
  | setLine _ => exact hm
  | load d =>
    simp only [step]
    split
    · rw [deferLoad_missing, deferLoad_missing]; exact hm
    · exact (checkLoad_step reg st d st.stack.ids st.line).mono m hm
  | store _ => exact hm
  | pushScope _ _ _ => exact hm
  | popScope => simp only [step]; split <;> exact hm
  | upScope => exact hm
  | downScope => simp only [step]; split <;> exact hm
  | enterFunc => exact hm
  | exitFunc => simp only [step]; split <;> exact hm
  | classDelayed _ _ => simp only [step]; split <;> exact hm
  | incClass => exact hm
  | decClass => exact hm
  | removeMissing C mo =>
    simp only [step]
    split
    · exact hm
    · apply removeLoop_keeps _ _ _ _ _ _ hm
      simp only [opKeeps, Bool.not_eq_true'] at hk
      rw [hn, hk]; rfl
  | dunderClass => simp only [step]; split <;> exact hm
  | storeIfNotInClass _ => simp only [step]; split <;> exact hm
  | allNames ns =>
    simp only [step]
    split
    · exact hm
    · rw [(foldl_deferGlobal_shape reg ns st).2.2.2]; exact hm
  | delName _ _ => simp only [step]; split <;> (try split) <;> exact hm
  | importAlias keys _ _ _ => simp only [step]; rw [foldl_storeTop_missing]; exact hm
  | condEnter => exact hm
  | condExit => exact hm
  | handlerEnd _ => simp only [step]; split <;> exact hm

theorem runOps_keeps (reg : Registry) (n : Str) : ∀ (ops : List Op) (st : AState), (∀ op ∈ ops, opKeeps n op = true) →
    ∀ m ∈ st.missing, m.name = n → m ∈ (runOps reg st ops).missing
  | [], _, _, m, hm, _ => hm
  | op :: ops, st, hk, m, hm, hn => by
    rw [runOps_cons]
    exact runOps_keeps reg n ops _ (fun o ho => hk o (List.mem_cons_of_mem _ ho)) m
      (step_keeps reg n op (hk op (List.mem_cons_self ..)) st m hm hn) hn

/-! ### the visitor actions of the statements of fragment I -/

/-- actions that neither touch the scope stack nor drop anything -/
def opPlain : Op → Bool
  | .setLine _ => true
  | .load _ => true
  | .store _ => true
  | .allNames _ => true
  | .importAlias _ _ _ _ => true
  | _ => false

theorem opPlain_keeps {n : Str} {op : Op} (h : opPlain op = true) : opKeeps n op = true := by
  cases op <;> simp_all [opPlain, opKeeps]

theorem deferLoad_saved (reg : Registry) (st : AState) (d : Str) : (deferLoad reg st d).saved = st.saved := by
  unfold deferLoad; dsimp only; split <;> rfl

theorem foldl_storeTop_saved : ∀ (keys : List Str) (st : AState), (keys.foldl storeTop st).saved = st.saved
  | [], _ => rfl
  | k :: ks, st => by simp only [List.foldl_cons]; rw [foldl_storeTop_saved ks]; rfl

theorem foldl_deferGlobal_saved (reg : Registry) : ∀ (ns : List Str) (st : AState), (ns.foldl (deferGlobal reg) st).saved = st.saved
  | [], _ => rfl
  | a :: r, st => by
    simp only [List.foldl_cons]
    rw [foldl_deferGlobal_saved reg r]
    unfold deferGlobal; dsimp only; split <;> rfl

theorem step_plain_saved (reg : Registry) (op : Op) (h : opPlain op = true) (st : AState) : (step reg st op).saved = st.saved := by
  cases op with
  | setLine _ => rfl
  | load d =>
    simp only [step]
    split
    · rw [deferLoad_saved, deferLoad_saved]
    · unfold checkLoad; dsimp only; split <;> (try split) <;> rfl
  | store _ => rfl
  | allNames ns =>
    simp only [step]
    split
    · rfl
    · exact foldl_deferGlobal_saved reg ns st
  | importAlias keys _ _ _ => simp only [step]; exact foldl_storeTop_saved keys st
  | _ => simp [opPlain] at h

theorem runOps_plain_saved (reg : Registry) : ∀ (ops : List Op) (st : AState), (∀ op ∈ ops, opPlain op = true) →
    (runOps reg st ops).saved = st.saved
  | [], _, _ => rfl
  | op :: ops, st, hk => by
    rw [runOps_cons, runOps_plain_saved reg ops _ (fun o ho => hk o (List.mem_cons_of_mem _ ho)),
      step_plain_saved reg op (hk op (List.mem_cons_self ..))]

theorem cAliases_plain (m : Option Str) : ∀ (names : List Alias) (idx : Nat), ∀ op ∈ cAliases m idx names, opPlain op = true
  | [], _, op, h => by simp [cAliases] at h
  | a :: r, idx, op, h => by
    simp only [cAliases, List.mem_cons] at h
    rcases h with rfl | h
    · rfl
    · exact cAliases_plain m r _ op h

theorem cStmt_plain (fx : Fixes) : ∀ (stmt : Stmt) (ln : Nat), fragBStmt false stmt = true →
    ∀ op ∈ cStmt fx ln stmt, opPlain op = true
  | .expr e, ln, hfr, op, h => by
    simp only [cStmt, cExpr_loads fx false e (by simpa [fragBStmt] using hfr), List.mem_map] at h
    obtain ⟨d, _, rfl⟩ := h; rfl
  | .assign ts e, ln, hfr, op, h => by
    simp only [fragBStmt, Bool.and_eq_true] at hfr
    cases hsn : singleName ts with
    | none => rw [hsn] at hfr; simp at hfr
    | some x =>
      have hts := singleName_eq hsn
      subst hts
      simp only [cStmt, cExpr_loads fx false e hfr.2, List.mem_append, List.mem_map] at h
      rcases h with (⟨d, _, rfl⟩ | h) | h
      · rfl
      · simp only [cTargets, cTarget, List.append_nil, List.mem_singleton] at h; subst h; rfl
      · rcases cAll_cases x e with h0 | ⟨_, ns, h1⟩
        · rw [h0] at h; simp at h
        · rw [h1] at h; simp only [List.mem_singleton] at h; subst h; rfl
  | .pass, ln, _, op, h => by simp [cStmt] at h
  | .import_ names, ln, _, op, h => by simp only [cStmt] at h; exact cAliases_plain _ _ _ op h
  | .importFrom _ names, ln, _, op, h => by simp only [cStmt] at h; exact cAliases_plain _ _ _ op h
  | .located l s, ln, hfr, op, h => by
    simp only [cStmt, List.mem_cons] at h
    rcases h with rfl | h
    · rfl
    · exact cStmt_plain fx s l (by simpa [fragBStmt] using hfr) op h
  | .augAssign _ _, _, hfr, _, _ => by simp [fragBStmt] at hfr
  | .annAssign _ _ _, _, hfr, _, _ => by simp [fragBStmt] at hfr
  | .funcDef _ _ _ _ _, _, hfr, _, _ => by simp [fragBStmt] at hfr
  | .classDef _ _ _ _, _, hfr, _, _ => by simp [fragBStmt] at hfr
  | .for_ _ _ _ _, _, hfr, _, _ => by simp [fragBStmt] at hfr
  | .while_ _ _ _, _, hfr, _, _ => by simp [fragBStmt] at hfr
  | .if_ _ _ _, _, hfr, _, _ => by simp [fragBStmt] at hfr
  | .with_ _ _, _, hfr, _, _ => by simp [fragBStmt] at hfr
  | .try_ _ _ _ _, _, hfr, _, _ => by simp [fragBStmt] at hfr
  | .return_ _, _, hfr, _, _ => by simp [fragBStmt] at hfr
  | .raise_ _, _, hfr, _, _ => by simp [fragBStmt] at hfr
  | .delete _, _, hfr, _, _ => by simp [fragBStmt] at hfr
  | .global_ _, _, hfr, _, _ => by simp [fragBStmt] at hfr
  | .nonlocal_ _, _, hfr, _, _ => by simp [fragBStmt] at hfr

theorem cStmts_plain (fx : Fixes) : ∀ (ss : List Stmt) (ln : Nat), fragB false ss = true →
    ∀ op ∈ cStmts fx ln ss, opPlain op = true
  | [], _, _, op, h => by simp [cStmts] at h
  | s :: ss, ln, hfr, op, h => by
    simp only [fragB, List.all_cons, Bool.and_eq_true] at hfr
    simp only [cStmts, List.mem_append] at h
    rcases h with h | h
    · exact cStmt_plain fx s ln hfr.1 op h
    · exact cStmts_plain fx ss ln (by simpa [fragB] using hfr.2) op h

/-! ### the whole body of a class -/

theorem stmtsK (fx : Fixes) (reg : Registry) (C : Str) (L : List Str) :
    ∀ (ss : List Stmt) (f : Nat) (s : XState) (st : AState) (ln : Nat),
    ss.all clsBodyStmt = true → C ∉ loadsIs ss → CorrK C s st →
    FrameK s (execStmts f (ctxK L) ss s).1 ∧
    (∀ n ∈ (execStmts f (ctxK L) ss s).1.ne, n ∈ s.ne ∨ n ∈ loadsIs ss) ∧
    (∀ n ∈ (execStmts f (ctxK L) ss s).1.ne, ∃ m ∈ (runOps reg st (cStmts fx ln ss)).missing, m.name = n) ∧
    (∀ fl, (execStmts f (ctxK L) ss s).2 = .ok fl →
      CorrK C (execStmts f (ctxK L) ss s).1 (runOps reg st (cStmts fx ln ss)) ∧
      (ss.all plainStmtB = true → (runOps reg st (cStmts fx ln ss)).missing = st.missing ∧
        (runOps reg st (cStmts fx ln ss)).deferred = st.deferred))
  | ss, 0, s, st, ln, hfr, _, h => by
    rw [execStmts]
    refine ⟨FrameK.refl s, fun n hn => .inl hn, fun n hn => ?_, fun fl hfl => by cases hfl⟩
    obtain ⟨m, hmm, hmn⟩ := h.ne n hn
    exact ⟨m, runOps_keeps reg n _ st (fun op hop => opPlain_keeps (cStmts_plain fx ss ln (clsBody_fragB_all hfr) op hop)) m hmm hmn, hmn⟩
  | [], f + 1, s, st, ln, _, _, h => by
    simp only [execStmts, cStmts, X.pure_def]
    exact ⟨FrameK.refl s, fun n hn => .inl hn, h.ne, fun fl _ => ⟨h, fun _ => ⟨rfl, rfl⟩⟩⟩
  | stmt :: ss, f + 1, s, st, ln, hfr, hC, h => by
    simp only [List.all_cons, Bool.and_eq_true] at hfr
    simp only [loadsIs, List.mem_append, not_or] at hC
    obtain ⟨k1, k2, k3, k4⟩ := stmtK fx reg C L stmt f s st ln hfr.1 hC.1 h
    simp only [execStmts, cStmts, runOps_append, X.bind_def, loadsIs]
    cases hr : execStmt f (ctxK L) stmt s with
    | mk s' r =>
      rw [hr] at k1 k2 k3 k4
      cases r with
      | error x =>
        simp only
        refine ⟨k1, fun n hn => (k2 n hn).imp id (List.mem_append_left _), fun n hn => ?_, fun fl hfl => by cases hfl⟩
        obtain ⟨m, hm, hmn⟩ := k3 n hn
        exact ⟨m, runOps_keeps reg n _ _ (fun op hop => opPlain_keeps (cStmts_plain fx ss ln (clsBody_fragB_all hfr.2) op hop)) m hm hmn, hmn⟩
      | ok fl0 =>
        obtain ⟨hfl0, hc, hp⟩ := k4 fl0 rfl
        subst hfl0
        simp only
        obtain ⟨r1, r2, r3, r4⟩ := stmtsK fx reg C L ss f s' _ ln hfr.2 hC.2 hc
        refine ⟨k1.trans r1, fun n hn => ?_, r3, fun fl hfl => ?_⟩
        · rcases r2 n hn with h1 | h1
          · exact (k2 n h1).imp id (List.mem_append_left _)
          · exact .inr (List.mem_append_right _ h1)
        · obtain ⟨c2, p2⟩ := r4 fl hfl
          refine ⟨c2, fun hall => ?_⟩
          simp only [List.all_cons, Bool.and_eq_true] at hall
          obtain ⟨p1a, p1b⟩ := hp hall.1
          obtain ⟨p2a, p2b⟩ := p2 hall.2
          exact ⟨p2a.trans p1a, p2b.trans p1b⟩

/-- analysis only: the body of a class changes nothing but its own scope -/
theorem modStep_stmtsB (fx : Fixes) (reg : Registry) : ∀ (ss : List Stmt) (ln : Nat) (st : AState),
    fragB false ss = true → st.inFunc = false → st.stack.top < st.heap.length →
    ModStep st (runOps reg st (cStmts fx ln ss))
  | [], _, st, _, _, _ => ModStep.refl st
  | s :: ss, ln, st, hfr, hf, htl => by
    simp only [fragB, List.all_cons, Bool.and_eq_true] at hfr
    simp only [cStmts, runOps_append]
    have h1 := modStep_stmtB fx reg false s ln st hfr.1 hf htl
    have h2 := modStep_stmtsB fx reg ss ln _ (by simpa [fragB] using hfr.2) (by rw [h1.inFunc]; exact hf)
      (by rw [h1.stack]; exact Nat.lt_of_lt_of_le htl h1.len)
    exact h1.trans h2

/-! ### the analysis of `class C: body` at module level -/

/-- the module-level shape of the analysis state that entering a class scope relies on -/
structure ModI (st : AState) : Prop where
  wf : normIds st.stack.ids = st.stack.ids
  idsLt : ∀ i ∈ st.stack.ids, i < st.heap.length
  noClass : ∀ i ∈ st.stack.ids, (st.heap.get i).isClass = false
  noDelayed : delayedId ∉ st.stack.ids

theorem ModI.len2 {st : AState} (h : ModI st) : 2 ≤ st.heap.length := by
  have h1 : 1 ∈ st.stack.ids := by rw [← h.wf]; exact mem_normIds_iff.mpr (.inr (.inl rfl))
  have := h.idsLt 1 h1
  omega

/-- `_NewScopeCtx(new_class_scope=nc)` without `unhide_classdef`, on a stack without class scopes -/
theorem step_pushK (reg : Registry) {st : AState} (h : ModI st) (nc : Bool) :
    step reg st (.pushScope false nc false) =
      { st with heap := st.heap ++ [{ isClass := nc }], saved := st.stack :: st.saved,
                stack := { ids := st.stack.ids ++ [st.heap.length], sharedDelayed := st.stack.sharedDelayed } } := by
  have hfilter : st.stack.ids.filter (fun i => !(st.heap.get i).isClass) = st.stack.ids := by
    apply List.filter_eq_self.mpr
    intro i hi; simp [h.noClass i hi]
  have hfresh : st.heap.length ∉ st.stack.ids := fun hm => Nat.lt_irrefl _ (h.idsLt _ hm)
  have h2 := h.len2
  simp only [step, StackRef.withNewScope, Bool.false_eq_true, false_and, ↓reduceIte, hfilter]
  rw [normIds_snoc_fresh (by omega) (by omega) hfresh, h.wf]

theorem step_classDelayed_frame (reg : Registry) (st : AState) (C : Str) (mo : Bool) :
    (step reg st (.classDelayed C mo)).stack = st.stack ∧ (step reg st (.classDelayed C mo)).saved = st.saved ∧
    (step reg st (.classDelayed C mo)).inFunc = st.inFunc ∧ (step reg st (.classDelayed C mo)).missing = st.missing ∧
    (step reg st (.classDelayed C mo)).deferred = st.deferred ∧
    (step reg st (.classDelayed C mo)).heap.length = st.heap.length ∧
    ∀ i, i ≠ delayedId → (step reg st (.classDelayed C mo)).heap.get i = st.heap.get i := by
  simp only [step]
  split
  · refine ⟨rfl, rfl, rfl, rfl, rfl, Heap.length_update _ _ _, fun i hi => ?_⟩
    simp only [Heap.get_update]
    rw [if_neg (fun hc => hi hc.1)]
  · exact ⟨rfl, rfl, rfl, rfl, rfl, rfl, fun _ _ => rfl⟩

theorem ModI.classDelayed {reg : Registry} {st : AState} (h : ModI st) (C : Str) (mo : Bool) :
    ModI (step reg st (.classDelayed C mo)) := by
  obtain ⟨a1, _, _, _, _, a6, a7⟩ := step_classDelayed_frame reg st C mo
  refine ⟨by rw [a1]; exact h.wf, fun i hi => ?_, fun i hi => ?_, by rw [a1]; exact h.noDelayed⟩
  · rw [a1] at hi; rw [a6]; exact h.idsLt i hi
  · rw [a1] at hi
    rw [a7 i (fun hc => h.noDelayed (hc ▸ hi))]; exact h.noClass i hi

/-- the analysis state when the first statement of the body of `class C` is visited (`st1` = the state after
    `_class_delayed[C] = None`): a new `_ClassScope` on top, holding `C` -/
def clsEnter (st1 : AState) (C : Str) : AState :=
  storeTop { st1 with heap := st1.heap ++ [({ isClass := true } : Scope)], saved := st1.stack :: st1.saved,
                      stack := { ids := st1.stack.ids ++ [st1.heap.length], sharedDelayed := st1.stack.sharedDelayed },
                      inClass := st1.inClass + 1 } C

theorem clsEnter_top (st1 : AState) (C : Str) : (clsEnter st1 C).stack.top = st1.heap.length := by
  simp [clsEnter, storeTop, StackRef.top]

theorem clsEnter_old (st1 : AState) (C : Str) {i : Nat} (hi : i < st1.heap.length) :
    (clsEnter st1 C).heap.get i = st1.heap.get i := by
  simp only [clsEnter, storeTop, StackRef.top, getLastD_snoc, Heap.get_update]
  rw [if_neg (fun hc => by omega)]
  exact Heap.get_append_left _ _ hi

theorem clsEnter_new (st1 : AState) (C : Str) (n : Str) :
    ((clsEnter st1 C).heap.get st1.heap.length).get n = if n = C then some Val.none else none := by
  simp only [clsEnter, storeTop, StackRef.top, getLastD_snoc, Heap.get_update, List.length_append, List.length_singleton]
  rw [if_pos ⟨trivial, by omega⟩, Heap.get_append_new]
  by_cases hn : n = C
  · subst hn; simp [scope_get_set_eq]
  · rw [scope_get_set_ne _ hn]; simp [hn, Scope.get, assocGet]

theorem clsEnter_len (st1 : AState) (C : Str) : (clsEnter st1 C).heap.length = st1.heap.length + 1 := by
  simp [clsEnter, storeTop, Heap.length_update]

theorem run_class (fx : Fixes) (reg : Registry) {st : AState} (h : ModI st) (C : Str) (body : List Stmt) (ln : Nat) :
    runOps reg st (cStmt fx ln (.classDef C [] body [])) =
      runOps reg (runOps reg (clsEnter (step reg st (.classDelayed C fx.classModuleOnly)) C) (cStmts fx ln body))
        [.decClass, .popScope, .removeMissing C fx.classModuleOnly, .store C] := by
  have h1 := h.classDelayed (reg := reg) C fx.classModuleOnly
  simp only [cStmt, cExprs, cDecos, List.nil_append, List.cons_append]
  rw [runOps_cons, runOps_cons, step_pushK reg h1 true, runOps_cons, runOps_cons, runOps_append]
  rfl

/-- leaving the class scope: `_in_class_def -= 1`, pop, `_remove_from_missing_imports(C)`, `C` stored at module level -/
theorem run_suffix (reg : Registry) (st5 : AState) (S : StackRef) (R : List StackRef) (hs : st5.saved = S :: R)
    (C : Str) (mo : Bool) :
    ∃ st8, runOps reg st5 [.decClass, .popScope, .removeMissing C mo, .store C] = storeTop st8 C ∧
      st8.stack = S ∧ st8.heap = st5.heap ∧ st8.inFunc = st5.inFunc ∧ st8.deferred = st5.deferred ∧
      (∀ m ∈ st5.missing, dottedStartsWith m.name C = false → m ∈ st8.missing) ∧
      (st5.missing = [] → st8.missing = []) := by
  refine ⟨step reg (step reg (step reg st5 .decClass) .popScope) (.removeMissing C mo), rfl, ?_⟩
  have h7 : (step reg (step reg st5 .decClass) .popScope).stack = S ∧ (step reg (step reg st5 .decClass) .popScope).heap = st5.heap ∧
      (step reg (step reg st5 .decClass) .popScope).inFunc = st5.inFunc ∧
      (step reg (step reg st5 .decClass) .popScope).deferred = st5.deferred ∧
      (step reg (step reg st5 .decClass) .popScope).missing = st5.missing := by
    simp [step, hs, AState.emit]
  obtain ⟨a1, a2, a3, a4, a5⟩ := h7
  generalize step reg (step reg st5 .decClass) .popScope = st7 at *
  simp only [step]
  split
  · exact ⟨a1, a2, a3, a4, fun m hm _ => by rw [a5]; exact hm, fun h0 => by rw [a5]; exact h0⟩
  · refine ⟨a1, a2, a3, a4, fun m hm hc => ?_, fun h0 => ?_⟩
    · apply removeLoop_keeps _ _ _ _ _ _ (by rw [a5]; exact hm)
      rw [hc]; rfl
    · simp only [a5, h0]; rfl

/-! ### `class C: body` in the reference semantics -/

/-- the state in which the body of a module-level class starts -/
def clsPush (s : XState) : XState := { s with clsStack := [] :: s.clsStack }

/-- the state after the body of `class C` has run without exception (`s2` = the state at the end of the body) -/
def clsDone (s2 : XState) (C : Str) : XState :=
  { s2 with clsStack := s2.clsStack.tail, classes := s2.classes ++ [s2.clsStack.headD []],
            globals := assocSet C (.cls s2.classes.length) s2.globals, origins := assocDel C s2.origins }

theorem execClass (f : Nat) (C : Str) (body : List Stmt) (s : XState) :
    execStmt (f + 2) {} (.classDef C [] body []) s =
      match execStmts (f + 1) (ctxK (boundStmts body)) body (clsPush s) with
      | (s2, .error e) => ({ s2 with clsStack := s2.clsStack.tail }, .error e)
      | (s2, .ok _) => (clsDone s2 C, .ok .normal) := by
  unfold ctxK clsPush
  simp only [execStmt, evalExprs, X.bind_def, X.pure_def, X.modify, X.attempt, X.get, List.reverse_nil]
  generalize execStmts (f + 1) { kind := ScopeK.cls (boundStmts body) } body { s with clsStack := [] :: s.clsStack } = res
  obtain ⟨s2, r⟩ := res
  cases r with
  | error e => rfl
  | ok fl => rfl

theorem execClass_low (f : Nat) (hf : f < 2) (C : Str) (body : List Stmt) (s : XState) :
    execStmt f {} (.classDef C [] body []) s = (s, .error .fuel) := by
  match f with
  | 0 => rfl
  | 1 => rfl
/-! ### one class definition at module level, reference semantics and analysis in lock step -/

theorem dsw_false {n C : Str} (hn : dotFree n = true) (hC : simpleName C = true) (hne : n ≠ C) :
    dottedStartsWith n C = false := by
  unfold dottedStartsWith
  rw [simpleName_split hC, splitDots_simple (by simpa [dotFree] using hn)]
  simp [List.isPrefixOf, Ne.symm hne]

theorem simpleI_dotFree {n : Str} (h : simpleName n = true) : dotFree n = true := by
  simpa [dotFree] using simpleName_dotFree h

theorem clsBody_loads_simple : ∀ stmt : Stmt, clsBodyStmt stmt = true → ∀ d ∈ loadsI stmt, simpleName d = true
  | .expr e, h, d, hd => loadsB_simple (by simpa [clsBodyStmt] using h) d (by simpa [loadsI] using hd)
  | .assign ts e, h, d, hd => by
    simp only [clsBodyStmt, Bool.and_eq_true] at h
    exact loadsB_simple h.2 d (by simpa [loadsI] using hd)
  | .pass, _, d, hd => by simp [loadsI] at hd
  | .located _ s, h, d, hd => clsBody_loads_simple s (by simpa [clsBodyStmt] using h) d (by simpa [loadsI] using hd)
  | .augAssign _ _, h, _, _ => by simp [clsBodyStmt] at h
  | .annAssign _ _ _, h, _, _ => by simp [clsBodyStmt] at h
  | .import_ _, h, _, _ => by simp [clsBodyStmt] at h
  | .importFrom _ _, h, _, _ => by simp [clsBodyStmt] at h
  | .funcDef _ _ _ _ _, h, _, _ => by simp [clsBodyStmt] at h
  | .classDef _ _ _ _, h, _, _ => by simp [clsBodyStmt] at h
  | .for_ _ _ _ _, h, _, _ => by simp [clsBodyStmt] at h
  | .while_ _ _ _, h, _, _ => by simp [clsBodyStmt] at h
  | .if_ _ _ _, h, _, _ => by simp [clsBodyStmt] at h
  | .with_ _ _, h, _, _ => by simp [clsBodyStmt] at h
  | .try_ _ _ _ _, h, _, _ => by simp [clsBodyStmt] at h
  | .return_ _, h, _, _ => by simp [clsBodyStmt] at h
  | .raise_ _, h, _, _ => by simp [clsBodyStmt] at h
  | .delete _, h, _, _ => by simp [clsBodyStmt] at h
  | .global_ _, h, _, _ => by simp [clsBodyStmt] at h
  | .nonlocal_ _, h, _, _ => by simp [clsBodyStmt] at h

theorem clsBody_loads_simple_all : ∀ body : List Stmt, body.all clsBodyStmt = true → ∀ d ∈ loadsIs body, simpleName d = true
  | [], _, d, hd => by simp [loadsIs] at hd
  | s :: r, h, d, hd => by
    simp only [List.all_cons, Bool.and_eq_true] at h
    simp only [loadsIs, List.mem_append] at hd
    rcases hd with hd | hd
    · exact clsBody_loads_simple s h.1 d hd
    · exact clsBody_loads_simple_all r h.2 d hd

theorem classI (fx : Fixes) (reg : Registry) (C : Str) (body : List Stmt) (f : Nat) (s : XState) (st : AState) (ln : Nat)
    (hC : simpleName C = true) (hb : body.all clsBodyStmt = true) (hCb : C ∉ loadsIs body)
    (h : Corr false s st) (hM : ModI st) (hne : ∀ n ∈ s.ne, n ≠ C ∧ dotFree n = true) :
    (∀ n ∈ (execStmt f {} (.classDef C [] body []) s).1.ne, n ∈ s.ne ∨ n ∈ loadsIs body) ∧
    (∀ n ∈ (execStmt f {} (.classDef C [] body []) s).1.ne,
      ∃ m ∈ (runOps reg st (cStmt fx ln (.classDef C [] body []))).missing, m.name = n) ∧
    (∀ fl, (execStmt f {} (.classDef C [] body []) s).2 = .ok fl → fl = Flow.normal ∧
      Corr false (execStmt f {} (.classDef C [] body []) s).1 (runOps reg st (cStmt fx ln (.classDef C [] body []))) ∧
      ModI (runOps reg st (cStmt fx ln (.classDef C [] body []))) ∧
      (body.all plainStmtB = true → st.missing = [] →
        (runOps reg st (cStmt fx ln (.classDef C [] body []))).missing = [] ∧
        (runOps reg st (cStmt fx ln (.classDef C [] body []))).deferred = st.deferred)) := by
  rw [run_class fx reg hM C body ln]
  obtain ⟨d1, d2, d3, d4, d5, d6, d7⟩ := step_classDelayed_frame reg st C fx.classModuleOnly
  have hM1 := hM.classDelayed (reg := reg) C fx.classModuleOnly
  generalize step reg st (.classDelayed C fx.classModuleOnly) = st1 at *
  have hN : st1.heap.length ∉ st1.stack.ids := fun hm => Nat.lt_irrefl _ (hM1.idsLt _ hm)
  have h2 := hM1.len2
  have hids4 : normIds (clsEnter st1 C).stack.ids = st.stack.ids ++ [st1.heap.length] := by
    show normIds (st1.stack.ids ++ [st1.heap.length]) = _
    rw [normIds_snoc_fresh (by omega) (by omega) hN, hM1.wf, d1]
  have hold : ∀ i ∈ st.stack.ids, (clsEnter st1 C).heap.get i = st.heap.get i := by
    intro i hi
    have hi1 : i ∈ st1.stack.ids := by rw [d1]; exact hi
    rw [clsEnter_old st1 C (hM1.idsLt i hi1), d7 i (fun hc => hM.noDelayed (hc ▸ hi))]
  have hunb4 : ∀ n, unboundA (clsEnter st1 C) n ↔ (unboundA st n ∧ n ≠ C) := by
    intro n
    unfold unboundA
    rw [hids4, hM.wf]
    constructor
    · intro hu
      refine ⟨fun i hi => ?_, fun hc => ?_⟩
      · rw [← hold i hi]; exact hu i (List.mem_append_left _ hi)
      · have := hu st1.heap.length (List.mem_append_right _ (List.mem_singleton.mpr rfl))
        rw [clsEnter_new, if_pos hc] at this; cases this
    · rintro ⟨hu, hc⟩ i hi
      rcases List.mem_append.mp hi with hi | hi
      · rw [hold i hi]; exact hu i hi
      · simp only [List.mem_singleton] at hi; subst hi
        rw [clsEnter_new, if_neg hc]
  have hf4 : (clsEnter st1 C).inFunc = false := by show st1.inFunc = false; rw [d3]; exact h.inFunc
  have htl4 : (clsEnter st1 C).stack.top < (clsEnter st1 C).heap.length := by rw [clsEnter_top, clsEnter_len]; omega
  have hK : CorrK C (clsPush s) (clsEnter st1 C) := by
    refine ⟨fun n hn hc hk => ?_, fun n hn hun => ?_, ?_, fun n hn => ?_, hf4, ?_, htl4, by simp [clsPush]⟩
    · exact (hunb4 n).mpr ⟨(h.names n hn).mp hk.2, hc⟩
    · exact ⟨rfl, (h.names n hn).mpr ((hunb4 n).mp hun).1⟩
    · have hs0 := h.noStar
      unfold noStarA hasStar at hs0 ⊢
      rw [List.any_eq_false] at hs0 ⊢
      intro i hi
      have hi' : i ∈ st.stack.ids ++ [st1.heap.length] := by
        rw [← hids4]; exact mem_normIds_iff.mpr (.inr (.inr hi))
      rcases List.mem_append.mp hi' with hi' | hi'
      · rw [hold i hi']; exact hs0 i hi'
      · simp only [List.mem_singleton] at hi'; subst hi'
        rw [clsEnter_new, if_neg (fun hc => simpleName_ne_star hC hc.symm)]; simp
    · obtain ⟨m, hm, hmn⟩ := h.ne n hn
      exact ⟨m, by show m ∈ st1.missing; rw [d4]; exact hm, (hmn.2 rfl)⟩
    · rw [clsEnter_top, hids4]; exact List.mem_append_right _ (List.mem_singleton.mpr rfl)
  -- the analysis of the body and of what follows it
  have hfrB := clsBody_fragB_all hb
  have hms := modStep_stmtsB fx reg body ln (clsEnter st1 C) hfrB hf4 htl4
  have hsv : (runOps reg (clsEnter st1 C) (cStmts fx ln body)).saved = st1.stack :: st1.saved :=
    runOps_plain_saved reg _ _ (cStmts_plain fx body ln hfrB)
  have hK' := fun f' => stmtsK fx reg C (boundStmts body) body f' (clsPush s) (clsEnter st1 C) ln hb hCb hK
  generalize runOps reg (clsEnter st1 C) (cStmts fx ln body) = st5 at *
  obtain ⟨st8, e8, s8a, s8b, s8c, s8d, s8e, s8f⟩ := run_suffix reg st5 st1.stack st1.saved hsv C fx.classModuleOnly
  rw [e8]
  have hkeep0 : ∀ m ∈ st.missing, m ∈ st5.missing := fun m hm => hms.mono m (by show m ∈ st1.missing; rw [d4]; exact hm)
  have hlt1 : ∀ i ∈ st.stack.ids, i < st1.heap.length := fun i hi => hM1.idsLt i (by rw [d1]; exact hi)
  have hcell : ∀ i ∈ st.stack.ids, st8.heap.get i = st.heap.get i := by
    intro i hi
    have := hlt1 i hi
    rw [s8b, hms.old i (by rw [clsEnter_len]; omega) (by rw [clsEnter_top]; omega), hold i hi]
  have hlen8 : st.heap.length < st8.heap.length := by
    have := hms.len; rw [clsEnter_len] at this; rw [s8b]; omega
  have hfin : ∀ (s2 : XState), (∀ n ∈ s2.ne, n ∈ s.ne ∨ n ∈ loadsIs body) → (∀ n ∈ s2.ne, ∃ m ∈ st5.missing, m.name = n) →
      ∀ n ∈ s2.ne, ∃ m ∈ (storeTop st8 C).missing, m.name = n := by
    intro s2 hsub hmiss n hn
    obtain ⟨m, hm, hmn⟩ := hmiss n hn
    refine ⟨m, ?_, hmn⟩
    show m ∈ st8.missing
    apply s8e m hm
    rw [hmn]
    rcases hsub n hn with h1 | h1
    · exact dsw_false (hne n h1).2 hC (hne n h1).1
    · exact dsw_false (simpleI_dotFree (clsBody_loads_simple_all body hb n h1)) hC (fun hc => hCb (hc ▸ h1))
  have hlow : ∀ n ∈ s.ne, ∃ m ∈ st5.missing, m.name = n := by
    intro n hn
    obtain ⟨m, hm, hmn⟩ := h.ne n hn
    exact ⟨m, hkeep0 m hm, hmn.2 rfl⟩
  match f with
  | 0 =>
    rw [execClass_low 0 (by omega)]
    exact ⟨fun n hn => .inl hn, hfin s (fun n hn => .inl hn) hlow, fun fl hfl => by cases hfl⟩
  | 1 =>
    rw [execClass_low 1 (by omega)]
    exact ⟨fun n hn => .inl hn, hfin s (fun n hn => .inl hn) hlow, fun fl hfl => by cases hfl⟩
  | f + 2 =>
    rw [execClass]
    obtain ⟨k1, k2, k3, k4⟩ := hK' (f + 1)
    cases hr : execStmts (f + 1) (ctxK (boundStmts body)) body (clsPush s) with
    | mk s2 r2 =>
      rw [hr] at k1 k2 k3 k4
      cases r2 with
      | error e =>
        simp only
        exact ⟨k2, hfin s2 k2 k3, fun fl hfl => by cases hfl⟩
      | ok fl0 =>
        simp only
        refine ⟨k2, hfin s2 k2 k3, fun fl hfl => ?_⟩
        obtain ⟨hc5, hp5⟩ := k4 fl0 rfl
        have hfl : fl = Flow.normal := by cases hfl; rfl
        have hunb8 : ∀ n, unboundA st8 n ↔ unboundA st n := by
          intro n
          unfold unboundA
          rw [s8a, d1, hM.wf]
          constructor
          · intro hu i hi; rw [← hcell i hi]; exact hu i hi
          · intro hu i hi; rw [hcell i hi]; exact hu i hi
        have htm8 : st8.stack.top ∈ normIds st8.stack.ids := by rw [s8a, d1]; exact h.topMem
        have htl8 : st8.stack.top < st8.heap.length := by rw [s8a, d1]; exact Nat.lt_trans h.topLt hlen8
        have hf8 : st8.inFunc = false := by rw [s8c, hms.inFunc]; exact hf4
        have hst9 : (storeTop st8 C).stack = st.stack := by show st8.stack = _; rw [s8a, d1]
        refine ⟨hfl, ⟨fun n hn => ?_, ?_, fun n hn => ?_, hf8, ?_, ?_, fun hD => by cases hD⟩, ?_, fun hpl hm0 => ?_⟩
        · rw [unboundA_store (st1 := st8) (st2 := storeTop st8 C) rfl rfl htm8 htl8, hunb8, ← h.names n hn]
          show (assocGet n (assocSet C _ s2.globals) = none ∧ s2.builtins.contains n = false) ↔ _
          rw [k1.globals, k1.builtins]
          unfold unboundX
          show (assocGet n (assocSet C _ s.globals) = none ∧ s.builtins.contains n = false) ↔ _
          by_cases hnC : n = C
          · subst hnC; simp [assocGet_assocSet_eq]
          · rw [assocGet_assocSet_ne hnC]; simp [hnC]
        · apply noStarA_store (st1 := st8) rfl rfl htl8 (simpleName_ne_star hC)
          have hs0 := h.noStar
          unfold noStarA hasStar at hs0 ⊢
          rw [List.any_eq_false] at hs0 ⊢
          intro i hi
          rw [s8a, d1] at hi
          rw [hcell i hi]; exact hs0 i hi
        · obtain ⟨m, hm, hmn⟩ := hfin s2 k2 k3 n hn
          have hdf : dotFree n = true := by
            rcases k2 n hn with h1 | h1
            · exact (hne n h1).2
            · exact simpleI_dotFree (clsBody_loads_simple_all body hb n h1)
          exact ⟨m, hm, by rw [hmn]; exact headOf_dotFree hdf, fun _ => hmn⟩
        · rw [hst9]; exact h.topMem
        · rw [hst9]; show st.stack.top < (storeTop st8 C).heap.length
          simp only [storeTop, Heap.length_update]; exact Nat.lt_trans h.topLt hlen8
        · refine ⟨by rw [hst9]; exact hM.wf, fun i hi => ?_, fun i hi => ?_, by rw [hst9]; exact hM.noDelayed⟩
          · rw [hst9] at hi
            show i < (storeTop st8 C).heap.length
            simp only [storeTop, Heap.length_update]; exact Nat.lt_trans (hM.idsLt i hi) hlen8
          · rw [hst9] at hi
            simp only [storeTop, Heap.get_update]
            split
            · rename_i hc; rw [scope_set_isClass, ← hc.1, hcell i hi]; exact hM.noClass i hi
            · rw [hcell i hi]; exact hM.noClass i hi
        · obtain ⟨p1, p2⟩ := hp5 hpl
          have hm5 : st5.missing = [] := by rw [p1]; show st1.missing = []; rw [d4]; exact hm0
          exact ⟨s8f hm5, by show st8.deferred = _; rw [s8d, p2]; exact d5⟩

/-! ### module-level statements of fragment B: which names can be recorded as NameErrors -/

theorem exprNe (f : Nat) (e : Expr) (s : XState) (hfr : fragBExpr false e = true) :
    (∀ n ∈ (evalExpr f {} e s).1.ne, n ∈ s.ne ∨ n ∈ loadsOf e) ∧
    (∀ v, (evalExpr f {} e s).2 = .ok v → (evalExpr f {} e s).1.ne = s.ne) := by
  have hE := (evalB {} (by simp [CtxOK]) false f).1 e s hfr
  refine ⟨fun n hn => ?_, fun v hv => (hE.ok v hv).1⟩
  cases hr : (evalExpr f {} e s).2 with
  | ok v => rw [(hE.ok v hr).1] at hn; exact .inl hn
  | error x =>
    rcases hE.err x hr with ⟨n', _, hne, hmem, _⟩ | ⟨_, hne⟩
    · rw [hne] at hn
      rcases mem_addOnce hn with hn | rfl
      · exact .inl hn
      · simp only [headsOf, List.mem_map] at hmem
        obtain ⟨d, hd, rfl⟩ := hmem
        rw [headOf_dotFree ((loads_good false e hfr d hd).2 rfl)]
        exact .inr hd
    · rw [hne] at hn; exact .inl hn

theorem neStmtB : ∀ (stmt : Stmt) (f : Nat) (s : XState), fragBStmt false stmt = true →
    ∀ n ∈ (execStmt f {} stmt s).1.ne, n ∈ s.ne ∨ n ∈ loadsI stmt
  | stmt, 0, s, _, n, hn => by rw [execStmt] at hn; exact .inl hn
  | .expr e, f + 1, s, hfr, n, hn => by
    obtain ⟨h1, _⟩ := exprNe f e s (by simpa [fragBStmt] using hfr)
    simp only [execStmt, X.bind_def] at hn
    simp only [loadsI]
    cases hr : evalExpr f {} e s with
    | mk s' r =>
      rw [hr] at hn h1
      cases r with
      | error x => exact h1 n hn
      | ok v => exact h1 n hn
  | .assign ts e, f + 1, s, hfr, n, hn => by
    simp only [fragBStmt, Bool.and_eq_true] at hfr
    cases hsn : singleName ts with
    | none => rw [hsn] at hfr; simp at hfr
    | some x =>
      have hts := singleName_eq hsn
      subst hts
      obtain ⟨h1, _⟩ := exprNe f e s hfr.2
      simp only [execStmt, X.bind_def] at hn
      simp only [loadsI]
      cases hr : evalExpr f {} e s with
      | mk s' r =>
        rw [hr] at hn h1
        cases r with
        | error x => exact h1 n hn
        | ok v =>
          simp only at hn
          rcases assignAll_name f x v s' with ha | ha
          · rw [ha] at hn; exact h1 n hn
          · rw [ha] at hn; exact h1 n hn
  | .pass, f + 1, s, _, n, hn => by simp only [execStmt, X.pure_def] at hn; exact .inl hn
  | .import_ names, f + 1, s, _, n, hn => by
    have := (ImpOK.bind (ImpOK.importAliases f 0 names) (fun _ => ImpOK.pure Flow.normal) s).1
    simp only [execStmt] at hn
    rw [this] at hn; exact .inl hn
  | .importFrom m names, f + 1, s, _, n, hn => by
    have hm : ImpOK (do
        let tl ← importChain (prefixes (splitDots m)) none
        match tl with
          | (_, some leaf) => importFromAliases f {} m leaf 0 names
          | _ => (raiseOther : X Unit)) (names.map aliasBinds) := by
      have := ImpOK.bind (ImpOK.importChain (prefixes (splitDots m)) none) (B2 := names.map aliasBinds)
        (fun tl => (by
          split
          · exact ImpOK.importFromAliases m _ f 0 names
          · exact ImpOK.raiseOther :
          ImpOK (match tl with
            | (_, some leaf) => importFromAliases f {} m leaf 0 names
            | _ => (raiseOther : X Unit)) (names.map aliasBinds)))
      simpa using this
    have hex : execStmt (f + 1) {} (.importFrom m names) s =
        ((do
          let tl ← importChain (prefixes (splitDots m)) none
          match tl with
            | (_, some leaf) => importFromAliases f {} m leaf 0 names
            | _ => (raiseOther : X Unit)) >>= fun _ => (Pure.pure Flow.normal : X Flow)) s := by
      simp only [execStmt, X.bind_def]
      cases importChain (prefixes (splitDots m)) none s with
      | mk s1 r1 =>
        cases r1 with
        | error e => rfl
        | ok tl =>
          obtain ⟨t, l⟩ := tl
          cases l with
          | none => rfl
          | some leaf => rfl
    rw [hex, (ImpOK.bind hm (fun _ => ImpOK.pure Flow.normal) s).1] at hn
    exact .inl hn
  | .located l s', f + 1, s, hfr, n, hn => by
    simp only [execStmt, X.bind_def, X.modify] at hn
    simp only [loadsI]
    exact neStmtB s' f { s with line := l } (by simpa [fragBStmt] using hfr) n hn
  | .augAssign _ _, _ + 1, _, hfr, _, _ => by simp [fragBStmt] at hfr
  | .annAssign _ _ _, _ + 1, _, hfr, _, _ => by simp [fragBStmt] at hfr
  | .funcDef _ _ _ _ _, _ + 1, _, hfr, _, _ => by simp [fragBStmt] at hfr
  | .classDef _ _ _ _, _ + 1, _, hfr, _, _ => by simp [fragBStmt] at hfr
  | .for_ _ _ _ _, _ + 1, _, hfr, _, _ => by simp [fragBStmt] at hfr
  | .while_ _ _ _, _ + 1, _, hfr, _, _ => by simp [fragBStmt] at hfr
  | .if_ _ _ _, _ + 1, _, hfr, _, _ => by simp [fragBStmt] at hfr
  | .with_ _ _, _ + 1, _, hfr, _, _ => by simp [fragBStmt] at hfr
  | .try_ _ _ _ _, _ + 1, _, hfr, _, _ => by simp [fragBStmt] at hfr
  | .return_ _, _ + 1, _, hfr, _, _ => by simp [fragBStmt] at hfr
  | .raise_ _, _ + 1, _, hfr, _, _ => by simp [fragBStmt] at hfr
  | .delete _, _ + 1, _, hfr, _, _ => by simp [fragBStmt] at hfr
  | .global_ _, _ + 1, _, hfr, _, _ => by simp [fragBStmt] at hfr
  | .nonlocal_ _, _ + 1, _, hfr, _, _ => by simp [fragBStmt] at hfr

theorem fragB_loads_simple : ∀ stmt : Stmt, fragBStmt false stmt = true → ∀ d ∈ loadsI stmt, simpleName d = true
  | .expr e, h, d, hd => loadsB_simple (by simpa [fragBStmt] using h) d (by simpa [loadsI] using hd)
  | .assign ts e, h, d, hd => by
    simp only [fragBStmt, Bool.and_eq_true] at h
    exact loadsB_simple h.2 d (by simpa [loadsI] using hd)
  | .pass, _, d, hd => by simp [loadsI] at hd
  | .import_ _, _, d, hd => by simp [loadsI] at hd
  | .importFrom _ _, _, d, hd => by simp [loadsI] at hd
  | .located _ s, h, d, hd => fragB_loads_simple s (by simpa [fragBStmt] using h) d (by simpa [loadsI] using hd)
  | .augAssign _ _, h, _, _ => by simp [fragBStmt] at h
  | .annAssign _ _ _, h, _, _ => by simp [fragBStmt] at h
  | .funcDef _ _ _ _ _, h, _, _ => by simp [fragBStmt] at h
  | .classDef _ _ _ _, h, _, _ => by simp [fragBStmt] at h
  | .for_ _ _ _ _, h, _, _ => by simp [fragBStmt] at h
  | .while_ _ _ _, h, _, _ => by simp [fragBStmt] at h
  | .if_ _ _ _, h, _, _ => by simp [fragBStmt] at h
  | .with_ _ _, h, _, _ => by simp [fragBStmt] at h
  | .try_ _ _ _ _, h, _, _ => by simp [fragBStmt] at h
  | .return_ _, h, _, _ => by simp [fragBStmt] at h
  | .raise_ _, h, _, _ => by simp [fragBStmt] at h
  | .delete _, h, _, _ => by simp [fragBStmt] at h
  | .global_ _, h, _, _ => by simp [fragBStmt] at h
  | .nonlocal_ _, h, _, _ => by simp [fragBStmt] at h

/-! ### class statements: static facts -/

theorem fragClass_loads_simple : ∀ stmt : Stmt, fragClass stmt = true → ∀ d ∈ loadsI stmt, simpleName d = true
  | .located _ s, h, d, hd => fragClass_loads_simple s (by simpa [fragClass] using h) d (by simpa [loadsI] using hd)
  | .classDef C [] body [], h, d, hd => by
    simp only [fragClass, Bool.and_eq_true] at h
    exact clsBody_loads_simple_all body h.2 d (by simpa [loadsI] using hd)
  | .classDef _ (_ :: _) _ _, h, _, _ => by simp [fragClass] at h
  | .classDef _ [] _ (_ :: _), h, _, _ => by simp [fragClass] at h
  | .expr _, h, _, _ => by simp [fragClass] at h
  | .assign _ _, h, _, _ => by simp [fragClass] at h
  | .pass, h, _, _ => by simp [fragClass] at h
  | .augAssign _ _, h, _, _ => by simp [fragClass] at h
  | .annAssign _ _ _, h, _, _ => by simp [fragClass] at h
  | .import_ _, h, _, _ => by simp [fragClass] at h
  | .importFrom _ _, h, _, _ => by simp [fragClass] at h
  | .funcDef _ _ _ _ _, h, _, _ => by simp [fragClass] at h
  | .for_ _ _ _ _, h, _, _ => by simp [fragClass] at h
  | .while_ _ _ _, h, _, _ => by simp [fragClass] at h
  | .if_ _ _ _, h, _, _ => by simp [fragClass] at h
  | .with_ _ _, h, _, _ => by simp [fragClass] at h
  | .try_ _ _ _ _, h, _, _ => by simp [fragClass] at h
  | .return_ _, h, _, _ => by simp [fragClass] at h
  | .raise_ _, h, _, _ => by simp [fragClass] at h
  | .delete _, h, _, _ => by simp [fragClass] at h
  | .global_ _, h, _, _ => by simp [fragClass] at h
  | .nonlocal_ _, h, _, _ => by simp [fragClass] at h

theorem fragI_loads_simple {stmt : Stmt} (h : fragIStmt stmt = true) : ∀ d ∈ loadsI stmt, simpleName d = true := by
  simp only [fragIStmt, Bool.or_eq_true] at h
  rcases h with h | h
  · exact fragB_loads_simple stmt h
  · exact fragClass_loads_simple stmt h

/-- the visitor actions of a class statement keep every recorded missing name other than the name of the class -/
theorem cStmt_keepsC (fx : Fixes) (n : Str) (hn : dotFree n = true) : ∀ (stmt : Stmt) (ln : Nat), fragClass stmt = true →
    (∀ C, className stmt = some C → n ≠ C) → ∀ op ∈ cStmt fx ln stmt, opKeeps n op = true
  | .located l s, ln, h, hc, op, hop => by
    simp only [cStmt, List.mem_cons] at hop
    rcases hop with rfl | hop
    · rfl
    · exact cStmt_keepsC fx n hn s l (by simpa [fragClass] using h) (fun C hC => hc C (by simpa [className] using hC)) op hop
  | .classDef C [] body [], ln, h, hc, op, hop => by
    simp only [fragClass, Bool.and_eq_true] at h
    simp only [cStmt, cExprs, cDecos, List.nil_append, List.cons_append, List.mem_cons, List.mem_append,
      List.not_mem_nil, or_false] at hop
    rcases hop with rfl | rfl | rfl | rfl | hop | rfl | rfl | rfl | rfl
    · rfl
    · rfl
    · rfl
    · rfl
    · exact opPlain_keeps (cStmts_plain fx body ln (clsBody_fragB_all h.2) op hop)
    · rfl
    · rfl
    · simp only [opKeeps, Bool.not_eq_true']
      exact dsw_false hn h.1 (hc C rfl)
    · rfl
  | .classDef _ (_ :: _) _ _, _, h, _, _, _ => by simp [fragClass] at h
  | .classDef _ [] _ (_ :: _), _, h, _, _, _ => by simp [fragClass] at h
  | .expr _, _, h, _, _, _ => by simp [fragClass] at h
  | .assign _ _, _, h, _, _, _ => by simp [fragClass] at h
  | .pass, _, h, _, _, _ => by simp [fragClass] at h
  | .augAssign _ _, _, h, _, _, _ => by simp [fragClass] at h
  | .annAssign _ _ _, _, h, _, _, _ => by simp [fragClass] at h
  | .import_ _, _, h, _, _, _ => by simp [fragClass] at h
  | .importFrom _ _, _, h, _, _, _ => by simp [fragClass] at h
  | .funcDef _ _ _ _ _, _, h, _, _, _ => by simp [fragClass] at h
  | .for_ _ _ _ _, _, h, _, _, _ => by simp [fragClass] at h
  | .while_ _ _ _, _, h, _, _, _ => by simp [fragClass] at h
  | .if_ _ _ _, _, h, _, _, _ => by simp [fragClass] at h
  | .with_ _ _, _, h, _, _, _ => by simp [fragClass] at h
  | .try_ _ _ _ _, _, h, _, _, _ => by simp [fragClass] at h
  | .return_ _, _, h, _, _, _ => by simp [fragClass] at h
  | .raise_ _, _, h, _, _, _ => by simp [fragClass] at h
  | .delete _, _, h, _, _, _ => by simp [fragClass] at h
  | .global_ _, _, h, _, _, _ => by simp [fragClass] at h
  | .nonlocal_ _, _, h, _, _, _ => by simp [fragClass] at h

theorem cStmt_keepsI (fx : Fixes) (n : Str) (hn : dotFree n = true) (stmt : Stmt) (ln : Nat) (h : fragIStmt stmt = true)
    (hc : ∀ C, className stmt = some C → n ≠ C) : ∀ op ∈ cStmt fx ln stmt, opKeeps n op = true := by
  simp only [fragIStmt, Bool.or_eq_true] at h
  rcases h with h | h
  · exact fun op hop => opPlain_keeps (cStmt_plain fx stmt ln h op hop)
  · exact cStmt_keepsC fx n hn stmt ln h hc

/-- `selfFree`, unfolded for the first statement -/
theorem selfFree_cons {R : List Str} {s : Stmt} {r : List Stmt} (h : selfFree R (s :: r) = true) :
    (∀ C, className s = some C → C ∉ R ++ loadsI s) ∧ selfFree (R ++ loadsI s) r = true := by
  simp only [selfFree, Bool.and_eq_true] at h
  refine ⟨fun C hC => ?_, h.2⟩
  have := h.1
  rw [hC] at this
  simpa using this

/-- the analysis of the rest of a self-free program keeps the recorded missing names that have been read so far -/
theorem cStmts_keepsI (fx : Fixes) (n : Str) (hn : dotFree n = true) : ∀ (ss : List Stmt) (ln : Nat) (R : List Str),
    fragI ss = true → selfFree R ss = true → n ∈ R → ∀ op ∈ cStmts fx ln ss, opKeeps n op = true
  | [], _, _, _, _, _, op, hop => by simp [cStmts] at hop
  | s :: ss, ln, R, hfr, hsf, hnR, op, hop => by
    simp only [fragI, List.all_cons, Bool.and_eq_true] at hfr
    obtain ⟨hs1, hs2⟩ := selfFree_cons hsf
    simp only [cStmts, List.mem_append] at hop
    rcases hop with hop | hop
    · exact cStmt_keepsI fx n hn s ln hfr.1 (fun C hC hc => hs1 C hC (hc ▸ List.mem_append_left _ hnR)) op hop
    · exact cStmts_keepsI fx n hn ss ln (R ++ loadsI s) (by simpa [fragI] using hfr.2) hs2 (List.mem_append_left _ hnR) op hop

/-! ### the module-level invariant of fragment I -/

/-- `R` = the names read by the statements executed so far -/
structure CorrI (R : List Str) (s : XState) (st : AState) : Prop where
  corr : Corr false s st
  mod : ModI st
  ne : ∀ n ∈ s.ne, n ∈ R

theorem ModI.step {st st' : AState} (h : ModI st) (hs : ModStep st st') : ModI st' := by
  refine ⟨by rw [hs.stack]; exact h.wf, fun i hi => ?_, fun i hi => ?_, by rw [hs.stack]; exact h.noDelayed⟩
  · rw [hs.stack] at hi; exact Nat.lt_of_lt_of_le (h.idsLt i hi) hs.len
  · rw [hs.stack] at hi
    by_cases hit : i = st.stack.top
    · subst hit; rw [hs.cls]; exact h.noClass _ hi
    · rw [hs.old i (h.idsLt i hi) hit]; exact h.noClass i hi

theorem ModI.setLine {st : AState} (h : ModI st) (l : Nat) : ModI { st with line := l } :=
  ⟨h.wf, h.idsLt, h.noClass, h.noDelayed⟩

theorem plainI_B : ∀ stmt : Stmt, fragBStmt false stmt = true → plainStmtI stmt = plainStmtB stmt
  | .located _ s, h => by simp only [plainStmtI, plainStmtB]; exact plainI_B s (by simpa [fragBStmt] using h)
  | .classDef _ _ _ _, h => by simp [fragBStmt] at h
  | .expr _, _ => rfl
  | .assign _ _, _ => rfl
  | .pass, _ => rfl
  | .augAssign _ _, _ => rfl
  | .annAssign _ _ _, _ => rfl
  | .import_ _, _ => rfl
  | .importFrom _ _, _ => rfl
  | .funcDef _ _ _ _ _, _ => rfl
  | .for_ _ _ _ _, _ => rfl
  | .while_ _ _ _, _ => rfl
  | .if_ _ _ _, _ => rfl
  | .with_ _ _, _ => rfl
  | .try_ _ _ _ _, _ => rfl
  | .return_ _, _ => rfl
  | .raise_ _, _ => rfl
  | .delete _, _ => rfl
  | .global_ _, _ => rfl
  | .nonlocal_ _, _ => rfl

/-- one module-level statement of fragment I, reference semantics and analysis in lock step -/
def StepI (fx : Fixes) (reg : Registry) (ln f : Nat) (stmt : Stmt) (R : List Str) (s : XState) (st : AState) : Prop :=
  (∀ n ∈ (execStmt f {} stmt s).1.ne, n ∈ R ++ loadsI stmt) ∧
  (∀ n ∈ (execStmt f {} stmt s).1.ne, ∃ m ∈ (runOps reg st (cStmt fx ln stmt)).missing, m.name = n) ∧
  (∀ fl, (execStmt f {} stmt s).2 = .ok fl → fl = Flow.normal ∧
    CorrI (R ++ loadsI stmt) (execStmt f {} stmt s).1 (runOps reg st (cStmt fx ln stmt)) ∧
    (plainStmtI stmt = true → st.missing = [] →
      (runOps reg st (cStmt fx ln stmt)).missing = [] ∧ (runOps reg st (cStmt fx ln stmt)).deferred = st.deferred))

theorem stmtI_B (fx : Fixes) (reg : Registry) (stmt : Stmt) (f : Nat) (s : XState) (st : AState) (ln : Nat) (R : List Str)
    (hfr : fragBStmt false stmt = true) (h : CorrI R s st) : StepI fx reg ln f stmt R s st := by
  obtain ⟨h1, h2⟩ := stmtB fx reg false stmt f s st ln hfr h.corr
  have hsub : ∀ n ∈ (execStmt f {} stmt s).1.ne, n ∈ R ++ loadsI stmt := by
    intro n hn
    rcases neStmtB stmt f s hfr n hn with h0 | h0
    · exact List.mem_append_left _ (h.ne n h0)
    · exact List.mem_append_right _ h0
  refine ⟨hsub, fun n hn => ?_, fun fl hfl => ?_⟩
  · obtain ⟨m, hm, hmn⟩ := h1 n hn
    exact ⟨m, hm, hmn.2 rfl⟩
  · obtain ⟨a, b, _, d⟩ := h2 fl hfl
    refine ⟨a, ⟨b, h.mod.step (modStep_stmtB fx reg false stmt ln st hfr h.corr.inFunc h.corr.topLt), hsub⟩, fun hp hm0 => ?_⟩
    rw [plainI_B stmt hfr] at hp
    obtain ⟨d1, d2⟩ := d hp (fun hD => by cases hD)
    exact ⟨by rw [d1]; exact hm0, d2⟩

theorem stmtI_C (fx : Fixes) (reg : Registry) : ∀ (stmt : Stmt) (f : Nat) (s : XState) (st : AState) (ln : Nat) (R : List Str),
    fragClass stmt = true → (∀ n ∈ R, simpleName n = true) → (∀ C, className stmt = some C → C ∉ R ++ loadsI stmt) →
    CorrI R s st → StepI fx reg ln f stmt R s st
  | .located l s', 0, s, st, ln, R, hfr, hR, hC, h => by
    unfold StepI
    rw [execStmt]
    refine ⟨fun n hn => List.mem_append_left _ (h.ne n hn), fun n hn => ?_, fun fl hfl => by cases hfl⟩
    obtain ⟨m, hm, hmn⟩ := h.corr.ne n hn
    have hnR := h.ne n hn
    refine ⟨m, runOps_keeps reg n _ st (cStmt_keepsC fx n (simpleI_dotFree (hR n hnR)) _ ln hfr
      (fun C hc hnc => hC C hc (hnc ▸ List.mem_append_left _ hnR))) m hm (hmn.2 rfl), hmn.2 rfl⟩
  | .located l s', f + 1, s, st, ln, R, hfr, hR, hC, h => by
    have := stmtI_C fx reg s' f { s with line := l } { st with line := l } l R (by simpa [fragClass] using hfr) hR
      (fun C hc => by simpa [loadsI] using hC C (by simpa [className] using hc))
      ⟨(h.corr.line l).setLine l, h.mod.setLine l, h.ne⟩
    unfold StepI at this ⊢
    simp only [execStmt, cStmt, runOps_setLine, X.bind_def, X.modify, loadsI, plainStmtI]
    exact this
  | .classDef C [] body [], f, s, st, ln, R, hfr, hR, hC, h => by
    simp only [fragClass, Bool.and_eq_true] at hfr
    have hCR := hC C rfl
    simp only [loadsI, List.mem_append, not_or] at hCR
    obtain ⟨k1, k2, k3⟩ := classI fx reg C body f s st ln hfr.1 hfr.2 hCR.2 h.corr h.mod
      (fun n hn => ⟨fun hc => hCR.1 (hc ▸ h.ne n hn), simpleI_dotFree (hR n (h.ne n hn))⟩)
    have hsub : ∀ n ∈ (execStmt f {} (.classDef C [] body []) s).1.ne, n ∈ R ++ loadsIs body := by
      intro n hn
      rcases k1 n hn with h0 | h0
      · exact List.mem_append_left _ (h.ne n h0)
      · exact List.mem_append_right _ h0
    unfold StepI
    simp only [loadsI, plainStmtI]
    refine ⟨hsub, k2, fun fl hfl => ?_⟩
    obtain ⟨a, b, c, d⟩ := k3 fl hfl
    exact ⟨a, ⟨b, c, hsub⟩, fun hp hm0 => d hp hm0⟩
  | .classDef _ (_ :: _) _ _, _, _, _, _, _, h, _, _, _ => by simp [fragClass] at h
  | .classDef _ [] _ (_ :: _), _, _, _, _, _, h, _, _, _ => by simp [fragClass] at h
  | .expr _, _, _, _, _, _, h, _, _, _ => by simp [fragClass] at h
  | .assign _ _, _, _, _, _, _, h, _, _, _ => by simp [fragClass] at h
  | .pass, _, _, _, _, _, h, _, _, _ => by simp [fragClass] at h
  | .augAssign _ _, _, _, _, _, _, h, _, _, _ => by simp [fragClass] at h
  | .annAssign _ _ _, _, _, _, _, _, h, _, _, _ => by simp [fragClass] at h
  | .import_ _, _, _, _, _, _, h, _, _, _ => by simp [fragClass] at h
  | .importFrom _ _, _, _, _, _, _, h, _, _, _ => by simp [fragClass] at h
  | .funcDef _ _ _ _ _, _, _, _, _, _, h, _, _, _ => by simp [fragClass] at h
  | .for_ _ _ _ _, _, _, _, _, _, h, _, _, _ => by simp [fragClass] at h
  | .while_ _ _ _, _, _, _, _, _, h, _, _, _ => by simp [fragClass] at h
  | .if_ _ _ _, _, _, _, _, _, h, _, _, _ => by simp [fragClass] at h
  | .with_ _ _, _, _, _, _, _, h, _, _, _ => by simp [fragClass] at h
  | .try_ _ _ _ _, _, _, _, _, _, h, _, _, _ => by simp [fragClass] at h
  | .return_ _, _, _, _, _, _, h, _, _, _ => by simp [fragClass] at h
  | .raise_ _, _, _, _, _, _, h, _, _, _ => by simp [fragClass] at h
  | .delete _, _, _, _, _, _, h, _, _, _ => by simp [fragClass] at h
  | .global_ _, _, _, _, _, _, h, _, _, _ => by simp [fragClass] at h
  | .nonlocal_ _, _, _, _, _, _, h, _, _, _ => by simp [fragClass] at h

theorem stmtI (fx : Fixes) (reg : Registry) (stmt : Stmt) (f : Nat) (s : XState) (st : AState) (ln : Nat) (R : List Str)
    (hfr : fragIStmt stmt = true) (hR : ∀ n ∈ R, simpleName n = true)
    (hC : ∀ C, className stmt = some C → C ∉ R ++ loadsI stmt) (h : CorrI R s st) : StepI fx reg ln f stmt R s st := by
  simp only [fragIStmt, Bool.or_eq_true] at hfr
  rcases hfr with hfr | hfr
  · exact stmtI_B fx reg stmt f s st ln R hfr h
  · exact stmtI_C fx reg stmt f s st ln R hfr hR hC h

/-! ### the module-level statements of a program of fragment I -/

theorem stmtsI (fx : Fixes) (reg : Registry) : ∀ (ss : List Stmt) (f : Nat) (s : XState) (st : AState) (ln : Nat) (R : List Str),
    fragI ss = true → selfFree R ss = true → (∀ n ∈ R, simpleName n = true) → CorrI R s st →
    (∀ n ∈ (execStmts f {} ss s).1.ne, ∃ m ∈ (runOps reg st (cStmts fx ln ss)).missing, m.name = n) ∧
    (∀ fl, (execStmts f {} ss s).2 = .ok fl → ss.all plainStmtI = true → st.missing = [] → st.deferred = [] →
      (runOps reg st (cStmts fx ln ss)).missing = [] ∧ (runOps reg st (cStmts fx ln ss)).deferred = [])
  | ss, 0, s, st, ln, R, hfr, hsf, hR, h => by
    rw [execStmts]
    refine ⟨fun n hn => ?_, fun fl hfl => by cases hfl⟩
    obtain ⟨m, hm, hmn⟩ := h.corr.ne n hn
    have hnR := h.ne n hn
    exact ⟨m, runOps_keeps reg n _ st (cStmts_keepsI fx n (simpleI_dotFree (hR n hnR)) ss ln R hfr hsf hnR) m hm (hmn.2 rfl),
      hmn.2 rfl⟩
  | [], f + 1, s, st, ln, R, _, _, _, h => by
    simp only [execStmts, cStmts, X.pure_def]
    refine ⟨fun n hn => ?_, fun _ _ _ hm hd => ⟨hm, hd⟩⟩
    obtain ⟨m, hm, hmn⟩ := h.corr.ne n hn
    exact ⟨m, hm, hmn.2 rfl⟩
  | stmt :: ss, f + 1, s, st, ln, R, hfr, hsf, hR, h => by
    simp only [fragI, List.all_cons, Bool.and_eq_true] at hfr
    have hfr2 : fragI ss = true := by simpa [fragI] using hfr.2
    obtain ⟨hs1, hs2⟩ := selfFree_cons hsf
    have hR' : ∀ n ∈ R ++ loadsI stmt, simpleName n = true := by
      intro n hn
      rcases List.mem_append.mp hn with hn | hn
      · exact hR n hn
      · exact fragI_loads_simple hfr.1 n hn
    obtain ⟨k1, k2, k3⟩ := stmtI fx reg stmt f s st ln R hfr.1 hR hs1 h
    simp only [execStmts, cStmts, runOps_append, X.bind_def]
    cases hr : execStmt f {} stmt s with
    | mk s' r =>
      rw [hr] at k1 k2 k3
      cases r with
      | error x =>
        simp only
        refine ⟨fun n hn => ?_, fun fl hfl => by cases hfl⟩
        obtain ⟨m, hm, hmn⟩ := k2 n hn
        have hnR := k1 n hn
        exact ⟨m, runOps_keeps reg n _ _ (cStmts_keepsI fx n (simpleI_dotFree (hR' n hnR)) ss ln _ hfr2 hs2 hnR) m hm hmn, hmn⟩
      | ok fl0 =>
        obtain ⟨hfl0, hc, hp⟩ := k3 fl0 rfl
        subst hfl0
        simp only
        obtain ⟨r1, r2⟩ := stmtsI fx reg ss f s' _ ln _ hfr2 hs2 hR' hc
        refine ⟨r1, fun fl hfl hall hm0 hd0 => ?_⟩
        simp only [List.all_cons, Bool.and_eq_true] at hall
        obtain ⟨p1, p2⟩ := hp hall.1 hm0
        exact r2 fl hfl hall.2 p1 (by rw [p2]; exact hd0)

/-! ### initial state and the final answers -/

theorem corrI_init (builtins : Scope) (ns : List Scope) (s0 : XState) (h : Agree builtins ns s0)
    (hb : builtins.isClass = false) : CorrI [] s0 (initState builtins ns) := by
  have hok := (modOK_init builtins ns h.noClass hb).inv.ok
  refine ⟨corr_init false builtins ns s0 h (fun hD => by cases hD), ⟨hok.wf, hok.idsLt, hok.noClass, ?_⟩,
    fun n hn => by rw [h.ne0] at hn; cases hn⟩
  intro hm
  rw [← hok.wf] at hm
  rcases (init_ids_mem builtins ns h.noClass delayedId).mp hm with h0 | h0 | ⟨a, _, h0⟩ | h0 <;>
    (unfold delayedId at h0; omega)

/-- soundness on fragment I, in terms of the analysis state -/
theorem sound_fragI (fx : Fixes) (reg : Registry) (prog : List Stmt) (fuel : Nat) (s0 : XState) (st0 : AState)
    (hfr : fragI prog = true) (hsf : selfFree [] prog = true) (h : CorrI [] s0 st0) :
    ∀ n ∈ (runProgram fuel prog [] s0).1.ne,
      ∃ m ∈ (finishDeferred reg (runOps reg st0 (cStmts fx 0 prog))).missing, m.name = n := by
  intro n hn
  rw [runProgram_ne] at hn
  obtain ⟨m, hm, hmn⟩ := (stmtsI fx reg prog fuel s0 st0 0 [] hfr hsf (fun _ h0 => by cases h0) h).1 n hn
  exact ⟨m, finishDeferred_mono reg _ m hm, hmn⟩

/-- precision on fragment I, in terms of the analysis state -/
theorem precise_fragI (fx : Fixes) (reg : Registry) (prog : List Stmt) (fuel : Nat) (s0 : XState) (st0 : AState)
    (hfr : fragI prog = true) (hsf : selfFree [] prog = true) (hpl : prog.all plainStmtI = true) (h : CorrI [] s0 st0)
    (hm0 : st0.missing = []) (hd0 : st0.deferred = [])
    (hok : (runProgram fuel prog [] s0).2 = .ok ()) :
    (finishDeferred reg (runOps reg st0 (cStmts fx 0 prog))).missing = [] := by
  obtain ⟨fl, hfl⟩ := runProgram_ok fuel prog s0 hok
  obtain ⟨hm, hd⟩ := (stmtsI fx reg prog fuel s0 st0 0 [] hfr hsf (fun _ h0 => by cases h0) h).2 fl hfl hpl hm0 hd0
  rw [finishDeferred_nil reg _ hd, hm]

end Pfb.C05
