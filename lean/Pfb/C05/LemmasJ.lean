/-
  Pfb.C05.LemmasJ — fragment J (fragment I + methods): the analysis of a method definition inside a class body
  (`methA`: argument scope with `__class__`, body scope built with `include_class_scopes=False, unhide_classdef=True`,
  deferred loads with `clone_top`), the invariant `KInv` inside a class body (`CorrK` of fragment I + what is known about
  the closures created so far, `CovJ`), the lock step for class bodies with methods (`stmtsKJ`), for a whole class
  statement (`classJ`), for the module level (`stmtsJ`), the trailing method calls `C.m(…)` (`callsJ`) and the final
  statements about `finishDeferred`.  `_class_delayed` may be non-empty throughout (unlike fragments C and H).
-/
import Pfb.C05.FragJ
import Pfb.C05.LemmasI
import Pfb.C05.LemmasH
namespace Pfb.C05
open Pfb Pfb.PyCore

/-! ### the shape of a scope stack -/

structure StkOK (st : AState) : Prop where
  wf : normIds st.stack.ids = st.stack.ids
  idsLt : ∀ i ∈ st.stack.ids, i < st.heap.length
  len3 : 3 ≤ st.heap.length
  nc0 : (st.heap.get 0).isClass = false
  nc1 : (st.heap.get 1).isClass = false

theorem StkOK.mem0 {st : AState} (h : StkOK st) : 0 ∈ st.stack.ids := by
  rw [← h.wf]; exact mem_normIds_iff.mpr (.inl rfl)
theorem StkOK.mem1 {st : AState} (h : StkOK st) : 1 ∈ st.stack.ids := by
  rw [← h.wf]; exact mem_normIds_iff.mpr (.inr (.inl rfl))
theorem StkOK.len2 {st : AState} (h : StkOK st) : 2 ≤ st.heap.length := by
  have := h.idsLt 1 h.mem1; omega
theorem StkOK.topMem {st : AState} (h : StkOK st) : st.stack.top ∈ st.stack.ids :=
  StackRef.top_mem (by rw [← h.wf]; exact normIds_ne_nil _)
theorem StkOK.topLt {st : AState} (h : StkOK st) : st.stack.top < st.heap.length := h.idsLt _ h.topMem

theorem step_pushT (reg : Registry) {st : AState} (h : StkOK st) (nc : Bool) :
    step reg st (.pushScope true nc false) =
      { st with heap := st.heap ++ [{ isClass := nc }], saved := st.stack :: st.saved,
                stack := { ids := st.stack.ids ++ [st.heap.length], sharedDelayed := st.stack.sharedDelayed } } := by
  have hfresh : st.heap.length ∉ st.stack.ids := fun hm => Nat.lt_irrefl _ (h.idsLt _ hm)
  have h2 := h.len2
  simp only [step, StackRef.withNewScope, Bool.false_eq_true, false_and, ↓reduceIte]
  rw [normIds_snoc_fresh (by omega) (by omega) hfresh, h.wf]

theorem withNewScope_unhide (s : StackRef) (heap : Heap) (newId : Nat) :
    ∃ scopes, (s.withNewScope heap false true newId).ids = normIds (scopes ++ [newId]) ∧
      (s.withNewScope heap false true newId).sharedDelayed = s.sharedDelayed ∧
      (∀ i ∈ scopes, i = delayedId ∨ (i ∈ s.ids ∧ (heap.get i).isClass = false)) ∧
      (∀ i ∈ s.ids, (heap.get i).isClass = false → i ∈ scopes) := by
  unfold StackRef.withNewScope
  dsimp only
  by_cases hu : (s.sharedDelayed = true ∧ (heap.get delayedId).items ≠ [])
  · refine ⟨delayedId :: s.ids.filter (fun i => !(heap.get i).isClass), by simp [hu], rfl, ?_, ?_⟩
    · intro i hi
      rcases List.mem_cons.mp hi with h | h
      · exact .inl h
      · have := List.mem_filter.mp h
        exact .inr ⟨this.1, by simpa using this.2⟩
    · intro i hi hc
      exact List.mem_cons_of_mem _ (List.mem_filter.mpr ⟨hi, by simp [hc]⟩)
  · refine ⟨s.ids.filter (fun i => !(heap.get i).isClass), by simp [hu], rfl, ?_, ?_⟩
    · intro i hi
      have := List.mem_filter.mp hi
      exact .inr ⟨this.1, by simpa using this.2⟩
    · intro i hi hc
      exact List.mem_filter.mpr ⟨hi, by simp [hc]⟩

/-! ### the analysis of `def m(params): body` inside a class body -/

/-- the argument scope after `__class__` and the parameters have been stored -/
def argStateJ (st : AState) (ln : Nat) (pn : List Str) : AState :=
  (dunderCls :: pn).foldl storeTop { pushed st with line := ln }

/-- the state in which the analysis of the body of a method starts -/
def bodyStartJ (reg : Registry) (st : AState) (ln : Nat) (pn : List Str) : AState :=
  step reg { argStateJ st ln pn with savedFunc := (argStateJ st ln pn).inFunc :: (argStateJ st ln pn).savedFunc, inFunc := true }
    (.pushScope false false true)

theorem foldl_storeTop_inClass : ∀ (names : List Str) (s0 : AState), (names.foldl storeTop s0).inClass = s0.inClass
  | [], _ => rfl
  | n :: r, s0 => by simp only [List.foldl_cons]; rw [foldl_storeTop_inClass r]; rfl

theorem meth_prefix (fx : Fixes) (reg : Registry) {st : AState} (h : StkOK st) (hc : st.inClass ≠ 0) (ln : Nat) (name : Str)
    (ps : List Param) (hps : ps.all simpleParam = true) :
    runOps reg st ([.pushScope true false false, .dunderClass] ++ cDecos fx ln [] ++ [.setLine ln] ++
        cArgs fx (.mk ps [] none [] [] none) ++ cRet fx none ++
        [.enterFunc, .pushScope false false true, .storeIfNotInClass name]) = bodyStartJ reg st ln (paramNames ps) := by
  simp only [cDecos, cArgs, cRet, cOptExpr, cExprs, cOptExprs, cParamAnns, cParamAnns_simple fx ps hps, ite_self,
    List.append_nil, List.nil_append, List.cons_append, List.append_assoc, cParams_simple fx ps hps]
  rw [runOps_cons', step_pushT reg h false]
  have e2 : step reg (pushed st) .dunderClass = storeTop (pushed st) dunderCls := by
    have : (pushed st).inClass ≠ 0 := hc
    simp only [step]
    rw [if_pos this]
    rfl
  show runOps reg (pushed st) _ = _
  rw [runOps_cons', e2, runOps_cons']
  show runOps reg (storeTop { pushed st with line := ln } dunderCls) _ = _
  rw [runOps_cons', runOps_cons']
  have e3 : step reg (step reg (storeTop { pushed st with line := ln } dunderCls) .upScope) .downScope =
      storeTop { pushed st with line := ln } dunderCls := rfl
  rw [e3, runOps_append, runOps_stores]
  simp only [cParams, List.nil_append]
  rw [runOps_cons', runOps_cons', runOps_cons']
  have e7 : ∀ s2 : AState, s2.inClass ≠ 0 → step reg s2 (.storeIfNotInClass name) = s2 := by
    intro s2 h2; simp [step, h2]
  have hfold : (paramNames ps).foldl storeTop (storeTop { pushed st with line := ln } dunderCls) = argStateJ st ln (paramNames ps) := rfl
  rw [hfold]
  have hcls : ∀ s5 : AState, (step reg s5 (.pushScope false false true)).inClass = s5.inClass := fun _ => rfl
  rw [e7 _ (by
    rw [hcls]
    show (argStateJ st ln (paramNames ps)).inClass ≠ 0
    unfold argStateJ; rw [foldl_storeTop_inClass]; exact hc)]
  rfl

theorem argStateJ_facts (st : AState) (h : StkOK st) (ln : Nat) (pn : List Str) :
    (argStateJ st ln pn).stack = (pushed st).stack ∧ (argStateJ st ln pn).heap.length = st.heap.length + 1 ∧
    (argStateJ st ln pn).inFunc = st.inFunc ∧ (argStateJ st ln pn).missing = st.missing ∧
    (argStateJ st ln pn).deferred = st.deferred ∧ (argStateJ st ln pn).inClass = st.inClass ∧
    (argStateJ st ln pn).saved = st.stack :: st.saved ∧ (argStateJ st ln pn).savedFunc = st.savedFunc ∧
    (∀ i, i < st.heap.length → (argStateJ st ln pn).heap.get i = st.heap.get i) ∧
    (∀ k, ((argStateJ st ln pn).heap.get st.heap.length).get k = if k ∈ dunderCls :: pn then some Val.none else none) ∧
    ((argStateJ st ln pn).heap.get st.heap.length).isClass = false := by
  have htop : ({ pushed st with line := ln } : AState).stack.top = st.heap.length := pushed_top st
  have hlt : ({ pushed st with line := ln } : AState).stack.top < ({ pushed st with line := ln } : AState).heap.length := by
    rw [htop]; show st.heap.length < (st.heap ++ [_]).length; simp
  obtain ⟨k1, k2, k3, k4, k5, k6⟩ := storeKeys_get (dunderCls :: pn) { pushed st with line := ln } hlt
  obtain ⟨g1, g2, g3, _, g5, g6⟩ := foldl_storeTop_frame (dunderCls :: pn) { pushed st with line := ln }
  refine ⟨k1, ?_, k3, k4, k5, g1, g2, g3, ?_, ?_, ?_⟩
  · show ((dunderCls :: pn).foldl storeTop { pushed st with line := ln }).heap.length = _
    rw [k2]; show (st.heap ++ [_]).length = _; simp
  · intro i hi
    show ((dunderCls :: pn).foldl storeTop { pushed st with line := ln }).heap.get i = _
    rw [g5 i (by rw [htop]; omega)]
    exact pushed_get_old st hi
  · intro k
    show (((dunderCls :: pn).foldl storeTop { pushed st with line := ln }).heap.get st.heap.length).get k = _
    rw [k6, htop]
    by_cases hk : k ∈ dunderCls :: pn
    · simp [hk]
    · simp only [hk, and_false, ↓reduceIte]
      show ((pushed st).heap.get st.heap.length).get k = none
      rw [pushed_get_new]; rfl
  · show (((dunderCls :: pn).foldl storeTop { pushed st with line := ln }).heap.get st.heap.length).isClass = false
    rw [g6]
    show ((pushed st).heap.get st.heap.length).isClass = false
    rw [pushed_get_new]

/-- the state in which the body of a method is analysed -/
theorem bodyStartJ_facts (reg : Registry) (st : AState) (h : StkOK st) (hf : st.inFunc = false) (ln : Nat) (pn : List Str) :
    let sB := bodyStartJ reg st ln pn
    sB.inFunc = true ∧ sB.inClass = st.inClass ∧ sB.missing = st.missing ∧ sB.deferred = st.deferred ∧
    sB.heap.length = st.heap.length + 2 ∧ sB.stack.top = st.heap.length + 1 ∧
    sB.saved = { ids := st.stack.ids ++ [st.heap.length], sharedDelayed := st.stack.sharedDelayed } :: st.stack :: st.saved ∧
    sB.savedFunc = false :: st.savedFunc ∧
    (∀ i, i < st.heap.length → sB.heap.get i = st.heap.get i) ∧
    (∀ k, (sB.heap.get st.heap.length).get k = if k ∈ dunderCls :: pn then some Val.none else none) ∧
    sB.heap.get (st.heap.length + 1) = {} ∧
    (∃ scopes, sB.stack.ids = normIds scopes ++ [st.heap.length + 1] ∧
      (∀ i ∈ scopes, i = delayedId ∨ i = st.heap.length ∨ (i ∈ st.stack.ids ∧ (st.heap.get i).isClass = false)) ∧
      (∀ i ∈ st.stack.ids, (st.heap.get i).isClass = false → i ∈ scopes) ∧ st.heap.length ∈ scopes) := by
  intro sB
  obtain ⟨a1, a2, a3, a4, a5, a6, a7, a8, a9, a10, a11⟩ := argStateJ_facts st h ln pn
  have h2 := h.len2
  obtain ⟨scopes, w1, _, w3, w4⟩ := withNewScope_unhide (argStateJ st ln pn).stack (argStateJ st ln pn).heap (argStateJ st ln pn).heap.length
  have hsBstack : sB.stack = (argStateJ st ln pn).stack.withNewScope (argStateJ st ln pn).heap false true (argStateJ st ln pn).heap.length := rfl
  have hsBheap : sB.heap = (argStateJ st ln pn).heap ++ [({} : Scope)] := rfl
  have hids5 : (argStateJ st ln pn).stack.ids = st.stack.ids ++ [st.heap.length] := by rw [a1]; rfl
  have hsc : ∀ i ∈ scopes, i = delayedId ∨ i = st.heap.length ∨ (i ∈ st.stack.ids ∧ (st.heap.get i).isClass = false) := by
    intro i hi
    rcases w3 i hi with h0 | ⟨h0, h1⟩
    · exact .inl h0
    · rw [hids5] at h0
      rcases List.mem_append.mp h0 with h0 | h0
      · rw [a9 i (h.idsLt i h0)] at h1; exact .inr (.inr ⟨h0, h1⟩)
      · exact .inr (.inl (by simpa using h0))
  have hfresh : st.heap.length + 1 ∉ scopes := by
    intro hm
    rcases hsc _ hm with h0 | h0 | ⟨h0, _⟩
    · unfold delayedId at h0; omega
    · omega
    · have := h.idsLt _ h0; omega
  have hidsB : sB.stack.ids = normIds scopes ++ [st.heap.length + 1] := by
    rw [hsBstack, w1, a2]
    exact normIds_snoc_fresh (by omega) (by omega) hfresh
  refine ⟨rfl, a6, a4, a5, ?_, ?_, ?_, ?_, ?_, ?_, ?_, scopes, hidsB, hsc, ?_, ?_⟩
  · rw [hsBheap]; simp [a2]
  · unfold StackRef.top; rw [hidsB]; exact getLastD_snoc _ _ _
  · show (argStateJ st ln pn).stack :: (argStateJ st ln pn).saved = _
    rw [a1, a7]; rfl
  · show (argStateJ st ln pn).inFunc :: (argStateJ st ln pn).savedFunc = _
    rw [a3, a8, hf]
  · intro i hi
    rw [hsBheap, Heap.get_append_left _ _ (by omega)]; exact a9 i hi
  · intro k
    rw [hsBheap, Heap.get_append_left _ _ (by omega)]; exact a10 k
  · rw [hsBheap, ← a2, Heap.get_append_new]
  · intro i hi hc
    apply w4 i (by rw [hids5]; exact List.mem_append_left _ hi)
    rw [a9 i (h.idsLt i hi)]; exact hc
  · apply w4 _ (by rw [hids5]; exact List.mem_append_right _ (List.mem_singleton.mpr rfl))
    exact a11

/-- a deferred entry made by the body of a method whose definition was visited in state `st` (the state after it: `st'`):
    its scopes are the non-class scopes of the enclosing stack, possibly `_class_delayed`, and cells created by the
    visit of the method (the argument scope, a clone of the body scope) which hold only names of `A` -/
def EntJ (st st' : AState) (A : List Str) (e : Deferred) : Prop :=
  (∀ i ∈ st.stack.ids, (st.heap.get i).isClass = false → i ∈ normIds e.ids) ∧
  (∀ i ∈ normIds e.ids, i = delayedId ∨ (i ∈ st.stack.ids ∧ (st.heap.get i).isClass = false) ∨
    (st.heap.length ≤ i ∧ i < st'.heap.length ∧ ∀ k v, (st'.heap.get i).get k = some v → k ∈ A))

/-- the analysis of `def name(params): body` in a class body -/
theorem methA (fx : Fixes) (reg : Registry) {st : AState} (h : StkOK st) (hf : st.inFunc = false) (hc : st.inClass ≠ 0)
    (ln : Nat) (name : Str) (ps : List Param) (body : List Stmt)
    (hps : ps.all simpleParam = true) (hb : body.all (fbodyStmt false) = true) :
    let st' := runOps reg st (cStmt fx ln (.funcDef name (.mk ps [] none [] [] none) body [] none))
    let A := dunderCls :: paramNames ps ++ boundStmts body
    st'.stack = st.stack ∧ st'.saved = st.saved ∧ st'.inFunc = false ∧ st'.inClass = st.inClass ∧ st'.missing = st.missing ∧
    st.heap.length ≤ st'.heap.length ∧
    (∀ i, i < st.heap.length → i ≠ st.stack.top → st'.heap.get i = st.heap.get i) ∧
    (∀ n, (st'.heap.get st.stack.top).get n = if n = name then some Val.none else (st.heap.get st.stack.top).get n) ∧
    (st'.heap.get st.stack.top).isClass = (st.heap.get st.stack.top).isClass ∧
    (∃ E, st'.deferred = st.deferred ++ E ∧ ∀ e ∈ E, e.name ∈ bodyLoads body ∧ EntJ st st' A e) ∧
    (∀ d ∈ bodyLoads body, d ∉ A →
      (∃ i, (i = delayedId ∨ (i ∈ st.stack.ids ∧ (st.heap.get i).isClass = false)) ∧ ∃ w, (st.heap.get i).get d = some w) ∨
      ∃ e ∈ st'.deferred, e.name = d ∧ EntJ st st' A e) := by
  intro st' A
  have htl := h.topLt
  have h3 := h.len3
  obtain ⟨b1, b2, b3, b4, b5, b6, b7, b8, b9, b10, b11, scopes, b12, b13, b14, b15⟩ :=
    bodyStartJ_facts reg st h hf ln (paramNames ps)
  generalize hsB : bodyStartJ reg st ln (paramNames ps) = sB at *
  have htlB : sB.stack.top < sB.heap.length := by rw [b6, b5]; omega
  obtain ⟨d1, _, d3⟩ := bodyF (A := boundStmts body) fx reg false htlB body ln sB hb (fun x hx => hx) (During.refl _) b1
  obtain ⟨lg, hsuf⟩ := def_suffix reg (runOps reg sB (cStmts fx ln body)) _ _ _ _ _ name
    (d1.saved.trans b7) (d1.savedFunc.trans b8)
  have hst' : st' = storeTop { runOps reg sB (cStmts fx ln body) with
      stack := st.stack, saved := st.saved, inFunc := false, savedFunc := st.savedFunc, log := lg } name := by
    show runOps reg st (cStmt fx ln (.funcDef name (.mk ps [] none [] [] none) body [] none)) = _
    simp only [cStmt]
    rw [runOps_append, runOps_append, meth_prefix fx reg h hc ln name ps hps, hsB]
    exact hsuf
  obtain ⟨E2, hE2, hEn⟩ := (dn_body fx reg false body ln sB hb b1).1
  generalize hsE : runOps reg sB (cStmts fx ln body) = sE at *
  have hlenE : st.heap.length + 2 ≤ sE.heap.length := by rw [← b5]; exact d1.len
  have htl' : st.stack.top < sE.heap.length := by omega
  have hget : ∀ i n, (st'.heap.get i).get n = if i = st.stack.top ∧ n = name then some Val.none else (sE.heap.get i).get n := by
    intro i n; rw [hst']; exact storeTop_get _ htl' name i n
  have hcell : ∀ i, i ≠ st.stack.top → st'.heap.get i = sE.heap.get i := by
    intro i hi
    rw [hst']
    simp only [storeTop, Heap.get_update]
    rw [if_neg (fun hc => hi hc.1)]
  have holdE : ∀ i, i < st.heap.length → sE.heap.get i = st.heap.get i := by
    intro i hi
    rw [d1.old i (by rw [b5]; omega) (by rw [b6]; omega), b9 i hi]
  have hlen' : st'.heap.length = sE.heap.length := by rw [hst']; simp [storeTop, Heap.length_update]
  have hdef' : st'.deferred = sE.deferred := by rw [hst']; rfl
  have hargKeys : ∀ k v, (st'.heap.get st.heap.length).get k = some v → k ∈ A := by
    intro k v hv
    rw [hcell _ (by omega), d1.old _ (by rw [b5]; omega) (by rw [b6]; omega), b10] at hv
    by_cases hk : k ∈ dunderCls :: paramNames ps
    · show k ∈ dunderCls :: paramNames ps ++ boundStmts body
      exact List.mem_append_left _ hk
    · simp [hk] at hv
  have hbodyKeys : ∀ (stt : AState), During (boundStmts body) sB stt → ∀ c, (c = st.heap.length + 1 ∨ st.heap.length + 2 ≤ c) →
      ∀ k v, (stt.heap.get c).get k = some v → k ∈ A := by
    intro stt dd c hc k v hv
    have hc' : c = sB.stack.top ∨ sB.heap.length ≤ c := by rw [b6, b5]; exact hc
    rcases dd.vals c hc' k v hv with h1 | ⟨_, _, h3⟩
    · rw [b6, b11] at h1; simp [Scope.get, assocGet] at h1
    · show k ∈ dunderCls :: paramNames ps ++ boundStmts body
      exact List.mem_append_right _ h3
  have hmemB : ∀ i, i ∈ normIds sB.stack.ids → i = 0 ∨ i = 1 ∨ i ∈ scopes ∨ i = st.heap.length + 1 := by
    intro i hi
    rw [b12] at hi
    rcases mem_normIds_iff.mp hi with h0 | h0 | h0
    · exact .inl h0
    · exact .inr (.inl h0)
    · rcases List.mem_append.mp h0 with h0 | h0
      · rcases mem_normIds_iff.mp h0 with h0 | h0 | h0
        · exact .inl h0
        · exact .inr (.inl h0)
        · exact .inr (.inr (.inl h0))
      · exact .inr (.inr (.inr (by simpa using h0)))
  have hent : ∀ (e : Deferred) (c : Nat), sB.heap.length ≤ c → c < sE.heap.length →
      e.ids = normIds (sB.stack.ids.dropLast ++ [c]) → EntJ st st' A e := by
    intro e c hc1 hc2 hc3
    rw [b12, List.dropLast_concat] at hc3
    rw [b5] at hc1
    constructor
    · intro i hi hnc
      rw [hc3, normIds_idem]
      exact mem_normIds_iff.mpr (.inr (.inr (List.mem_append_left _ (mem_normIds_iff.mpr (.inr (.inr (b14 i hi hnc)))))))
    · intro i hi
      rw [hc3, normIds_idem] at hi
      have hi' : i = 0 ∨ i = 1 ∨ i ∈ scopes ∨ i = c := by
        rcases mem_normIds_iff.mp hi with h0 | h0 | h0
        · exact .inl h0
        · exact .inr (.inl h0)
        · rcases List.mem_append.mp h0 with h0 | h0
          · rcases mem_normIds_iff.mp h0 with h0 | h0 | h0
            · exact .inl h0
            · exact .inr (.inl h0)
            · exact .inr (.inr (.inl h0))
          · exact .inr (.inr (.inr (by simpa using h0)))
      rcases hi' with rfl | rfl | h0 | rfl
      · exact .inr (.inl ⟨h.mem0, h.nc0⟩)
      · exact .inr (.inl ⟨h.mem1, h.nc1⟩)
      · rcases b13 i h0 with h1 | rfl | h1
        · exact .inl h1
        · exact .inr (.inr ⟨Nat.le_refl _, by rw [hlen']; omega, hargKeys⟩)
        · exact .inr (.inl h1)
      · refine .inr (.inr ⟨by omega, by rw [hlen']; exact hc2, fun k v hv => ?_⟩)
        rw [hcell _ (by omega)] at hv
        exact hbodyKeys sE d1 _ (.inr hc1) k v hv
  refine ⟨by rw [hst']; rfl, by rw [hst']; rfl, by rw [hst']; rfl, ?_, ?_, ?_, ?_, ?_, ?_, ?_, ?_⟩
  · rw [hst']; show sE.inClass = _; rw [d1.inClass, b2]
  · rw [hst']; show sE.missing = _; rw [d1.missing, b3]
  · rw [hlen']; omega
  · intro i hi hne; rw [hcell i hne, holdE i hi]
  · intro n; rw [hget, holdE _ htl]; simp
  · rw [hst']
    simp only [storeTop, Heap.get_update]
    split
    · rw [scope_set_isClass]
      show (sE.heap.get st.stack.top).isClass = _
      rw [holdE _ htl]
    · show (sE.heap.get st.stack.top).isClass = _
      rw [holdE _ htl]
  · obtain ⟨E, hE, hEf⟩ := d1.deferred
    have hEE : E2 = E := List.append_cancel_left (hE2.symm.trans hE)
    subst hEE
    refine ⟨E2, by rw [hdef', hE, b4], fun e he => ⟨hEn e he, ?_⟩⟩
    obtain ⟨c, hc1, hc2, hc3⟩ := hEf e he
    exact hent e c hc1 hc2 hc3
  · intro d hd hnl
    obtain ⟨stt, c1, c2, c3⟩ := d3 d hd
    obtain ⟨g1, g2⟩ := bodyLoads_good false body hb d hd
    have hdf : dotFree d = true := g2 rfl
    by_cases hs : (symbolNeedsImport reg stt.heap stt.stack.ids d).1 = true
    · right
      obtain ⟨e, he, hen, c, hc1, hc2, hc3⟩ := c3 hs
      exact ⟨e, by rw [hdef']; exact he, hen, hent e c hc1 hc2 hc3⟩
    · left
      have hbnd : ¬ unboundA stt (headOf d) := fun hu => hs (sni_unbound reg stt g1 hu (fun hc => by rw [hdf] at hc; cases hc))
      rw [headOf_dotFree hdf] at hbnd
      obtain ⟨i, hi, w, hw⟩ := not_unboundA.mp hbnd
      rw [c1.stack] at hi
      have hsttOld : ∀ j, j < st.heap.length → stt.heap.get j = st.heap.get j := by
        intro j hj
        rw [c1.old j (by rw [b5]; omega) (by rw [b6]; omega), b9 j hj]
      rcases hmemB i hi with rfl | rfl | h0 | rfl
      · exact ⟨0, .inr ⟨h.mem0, h.nc0⟩, w, by rw [← hsttOld 0 (by omega)]; exact hw⟩
      · exact ⟨1, .inr ⟨h.mem1, h.nc1⟩, w, by rw [← hsttOld 1 (by omega)]; exact hw⟩
      · rcases b13 i h0 with h1 | rfl | h1
        · subst h1
          exact ⟨delayedId, .inl rfl, w, by rw [← hsttOld delayedId (by unfold delayedId; omega)]; exact hw⟩
        · exfalso
          rw [c1.old _ (by rw [b5]; omega) (by rw [b6]; omega), b10] at hw
          by_cases hk : d ∈ dunderCls :: paramNames ps
          · exact hnl (List.mem_append_left _ hk)
          · simp [hk] at hw
        · exact ⟨i, .inr h1, w, by rw [← hsttOld i (h.idsLt i h1.1)]; exact hw⟩
      · exact absurd (hbodyKeys stt c1 _ (.inl rfl) d w hw) hnl

/-! ### what is known about the closures created so far -/

/-- `d` is bound in one of the module-level scopes `M` -/
def BoundIn (st : AState) (M : List Nat) (d : Str) : Prop := ∃ i ∈ M, ∃ w, (st.heap.get i).get d = some w

/-- a cell that is on no stack any more (the argument scope of a finished method, a clone of its body scope): it holds
    only names of `A` -/
def Priv (st : AState) (A : List Str) (i : Nat) : Prop :=
  i < st.heap.length ∧ i ≠ delayedId ∧ i ∉ st.stack.ids ∧ ∀ k v, (st.heap.get i).get k = some v → k ∈ A

/-- a deferred entry of a finished method body: the module-level scopes, possibly `_class_delayed`, private cells -/
def MEnt (st : AState) (M : List Nat) (A : List Str) (e : Deferred) : Prop :=
  (∀ i ∈ M, i ∈ normIds e.ids) ∧ (∀ i ∈ normIds e.ids, i ∈ M ∨ i = delayedId ∨ Priv st A i) ∧ ['*'] ∉ A

/-- `M` = the module-level scopes, `P` = the names of the classes whose body is being visited -/
structure CovJ (M : List Nat) (P : List Str) (s : XState) (st : AState) : Prop where
  shape : FunsShape false s
  cov : ∀ ps body, defClosure ps body ∈ s.funcs → ∀ d ∈ bodyLoads body, d ∉ dunderCls :: paramNames ps ++ boundStmts body →
    BoundIn st M d ∨ d ∈ P ∨ ∃ e ∈ st.deferred, e.name = d ∧ MEnt st M (dunderCls :: paramNames ps ++ boundStmts body) e
  delB : ∀ k v, (st.heap.get delayedId).get k = some v → BoundIn st M k ∨ k ∈ P

/-- for precision: every deferred entry belongs to a closure and sees the module-level scopes -/
def EntsJ (M : List Nat) (s : XState) (st : AState) : Prop :=
  ∀ e ∈ st.deferred, (∀ i ∈ M, i ∈ normIds e.ids) ∧ ∃ ps body, defClosure ps body ∈ s.funcs ∧ e.name ∈ bodyLoads body

theorem BoundIn.step {st st' : AState} {M : List Nat} {d : Str} (h : BoundIn st M d) (hs : ModStep st st')
    (hM : ∀ i ∈ M, i < st.heap.length) : BoundIn st' M d := by
  obtain ⟨i, hi, w, hw⟩ := h
  by_cases hit : i = st.stack.top
  · subst hit
    obtain ⟨w', hw'⟩ := hs.grow d w hw
    exact ⟨_, hi, w', hw'⟩
  · exact ⟨i, hi, w, by rw [hs.old i (hM i hi) hit]; exact hw⟩

theorem Priv.step {st st' : AState} {A : List Str} {i : Nat} (h : Priv st A i) (hs : ModStep st st')
    (htop : st.stack.top ∈ st.stack.ids) : Priv st' A i := by
  obtain ⟨h1, h2, h3, h4⟩ := h
  have hit : i ≠ st.stack.top := fun hc => h3 (hc ▸ htop)
  exact ⟨Nat.lt_of_lt_of_le h1 hs.len, h2, by rw [hs.stack]; exact h3, by rw [hs.old i h1 hit]; exact h4⟩

theorem MEnt.step {st st' : AState} {M : List Nat} {A : List Str} {e : Deferred} (h : MEnt st M A e) (hs : ModStep st st')
    (htop : st.stack.top ∈ st.stack.ids) : MEnt st' M A e :=
  ⟨h.1, fun i hi => (h.2.1 i hi).imp id (fun h' => h'.imp id (fun hp => hp.step hs htop)), h.2.2⟩

theorem CovJ.step {M : List Nat} {P : List Str} {s s' : XState} {st st' : AState} (h : CovJ M P s st) (hs : ModStep st st')
    (hfun : s'.funcs = s.funcs) (hM : ∀ i ∈ M, i < st.heap.length) (htop : st.stack.top ∈ st.stack.ids)
    (hdt : delayedId ≠ st.stack.top) (h3 : 3 ≤ st.heap.length) : CovJ M P s' st' := by
  refine ⟨fun c hc => h.shape c (by rw [← hfun]; exact hc), fun ps body hc d hd hnl => ?_, fun k v hv => ?_⟩
  · rw [hfun] at hc
    rcases h.cov ps body hc d hd hnl with h1 | h1 | ⟨e, he, hen, hme⟩
    · exact .inl (h1.step hs hM)
    · exact .inr (.inl h1)
    · obtain ⟨E, hE⟩ := hs.deferred
      exact .inr (.inr ⟨e, by rw [hE]; exact List.mem_append_left _ he, hen, hme.step hs htop⟩)
  · rw [hs.old delayedId (by unfold delayedId; omega) hdt] at hv
    exact (h.delB k v hv).imp (fun h1 => h1.step hs hM) id

theorem StkOK.step {st st' : AState} (h : StkOK st) (hs : ModStep st st') : StkOK st' := by
  refine ⟨by rw [hs.stack]; exact h.wf, fun i hi => ?_, Nat.le_trans h.len3 hs.len, ?_, ?_⟩
  · rw [hs.stack] at hi; exact Nat.lt_of_lt_of_le (h.idsLt i hi) hs.len
  · by_cases hit : 0 = st.stack.top
    · rw [hit, hs.cls, ← hit]; exact h.nc0
    · rw [hs.old 0 (by have := h.len3; omega) hit]; exact h.nc0
  · by_cases hit : 1 = st.stack.top
    · rw [hit, hs.cls, ← hit]; exact h.nc1
    · rw [hs.old 1 (by have := h.len3; omega) hit]; exact h.nc1

/-! ### a store of `x` into the top scope, possibly with fresh cells appended -/

structure StoreLike (st st' : AState) (x : Str) : Prop where
  stack : st'.stack = st.stack
  old : ∀ i, i < st.heap.length → i ≠ st.stack.top → st'.heap.get i = st.heap.get i
  top : ∀ n, (st'.heap.get st.stack.top).get n = if n = x then some Val.none else (st.heap.get st.stack.top).get n

theorem StoreLike.get {st st' : AState} {x : Str} (h : StoreLike st st' x) (hok : StkOK st) {i : Nat}
    (hi : i ∈ normIds st.stack.ids) (n : Str) :
    (st'.heap.get i).get n = if i = st.stack.top ∧ n = x then some Val.none else (st.heap.get i).get n := by
  rw [hok.wf] at hi
  by_cases hit : i = st.stack.top
  · subst hit; rw [h.top]; simp
  · rw [h.old i (hok.idsLt i hi) hit]; simp [hit]

theorem unboundA_storeLike {st st' : AState} {x : Str} (h : StoreLike st st' x) (hok : StkOK st) (n : Str) :
    unboundA st' n ↔ (unboundA st n ∧ n ≠ x) := by
  unfold unboundA
  rw [h.stack]
  constructor
  · intro hu
    have hnx : n ≠ x := by
      intro hc
      have := hu _ (by rw [hok.wf]; exact hok.topMem)
      rw [h.get hok (by rw [hok.wf]; exact hok.topMem)] at this; simp [hc] at this
    refine ⟨fun i hi => ?_, hnx⟩
    have := hu i hi
    rw [h.get hok hi] at this; simpa [hnx] using this
  · rintro ⟨hu, hnx⟩ i hi
    rw [h.get hok hi]; simp [hnx, hu i hi]

theorem noStarA_storeLike {st st' : AState} {x : Str} (h : StoreLike st st' x) (hok : StkOK st) (hx : x ≠ ['*'])
    (hs : noStarA st) : noStarA st' := by
  unfold noStarA hasStar at hs ⊢
  rw [h.stack]
  rw [List.any_eq_false] at hs ⊢
  intro i hi
  have := hs i hi
  rw [h.get hok (mem_normIds_iff.mpr (.inr (.inr hi)))]
  have hne : ¬ (['*'] = x) := fun hc => hx hc.symm
  simpa [hne] using this

/-! ### executing a method definition in a class body -/

theorem execMeth (L : List Str) (f : Nat) (s : XState) (name : Str) (ps : List Param) (body : List Stmt)
    (hps : ps.all simpleParam = true) :
    execStmt f (ctxK L) (.funcDef name (.mk ps [] none [] [] none) body [] none) s = (s, .error .fuel) ∨
    execStmt f (ctxK L) (.funcDef name (.mk ps [] none [] [] none) body [] none) s =
      (bindK { s with funcs := s.funcs ++ [defClosure ps body] } name (.func s.funcs.length), .ok .normal) := by
  have hann := annotExprs_simple ps hps
  match f with
  | 0 => left; simp [execStmt, X.throw]
  | 1 => left; simp [execStmt, evalExprs, X.bind_def, X.throw]
  | 2 => left; simp [execStmt, evalExprs, mkClosure, X.bind_def, X.throw, X.pure_def]
  | f + 3 =>
    right
    simp only [execStmt, evalExprs, mkClosure, evalOptExprs, applyDecos, X.bind_def, X.pure_def, addFunc, bindName, X.modify,
      hann, annotExprs, zipOpt, defClosure, ctxK, List.append_nil, List.reverse_nil, List.length_nil, bindK]
    cases hcs : s.clsStack <;> simp [Args.names]

/-- the names bound by a straight-line function body are identifiers -/
theorem fbodyStmt_bound_simple : ∀ stmt : Stmt, fbodyStmt false stmt = true → ∀ x ∈ boundStmt stmt, simpleName x = true
  | .expr _, _, x, hx => by simp [boundStmt] at hx
  | .assign ts e, h, x, hx => by
    simp only [fbodyStmt, Bool.and_eq_true] at h
    cases hsn : singleName ts with
    | none => rw [hsn] at h; simp at h
    | some y =>
      have hts := singleName_eq hsn; subst hts
      rw [hsn] at h
      simp only [boundStmt, targetsNames, targetNames, List.append_nil, List.mem_singleton] at hx
      rw [hx]; exact h.1
  | .pass, _, x, hx => by simp [boundStmt] at hx
  | .return_ _, _, x, hx => by simp [boundStmt] at hx
  | .located _ s, h, x, hx => fbodyStmt_bound_simple s (by simpa [fbodyStmt] using h) x (by simpa [boundStmt] using hx)
  | .augAssign _ _, h, _, _ => by simp [fbodyStmt] at h
  | .annAssign _ _ _, h, _, _ => by simp [fbodyStmt] at h
  | .import_ _, h, _, _ => by simp [fbodyStmt] at h
  | .importFrom _ _, h, _, _ => by simp [fbodyStmt] at h
  | .funcDef _ _ _ _ _, h, _, _ => by simp [fbodyStmt] at h
  | .classDef _ _ _ _, h, _, _ => by simp [fbodyStmt] at h
  | .for_ _ _ _ _, h, _, _ => by simp [fbodyStmt] at h
  | .while_ _ _ _, h, _, _ => by simp [fbodyStmt] at h
  | .if_ _ _ _, h, _, _ => by simp [fbodyStmt] at h
  | .with_ _ _, h, _, _ => by simp [fbodyStmt] at h
  | .try_ _ _ _ _, h, _, _ => by simp [fbodyStmt] at h
  | .raise_ _, h, _, _ => by simp [fbodyStmt] at h
  | .delete _, h, _, _ => by simp [fbodyStmt] at h
  | .global_ _, h, _, _ => by simp [fbodyStmt] at h
  | .nonlocal_ _, h, _, _ => by simp [fbodyStmt] at h

theorem fbody_bound_simple : ∀ body : List Stmt, body.all (fbodyStmt false) = true → ∀ x ∈ boundStmts body, simpleName x = true
  | [], _, x, hx => by simp [boundStmts] at hx
  | s :: r, h, x, hx => by
    simp only [List.all_cons, Bool.and_eq_true] at h
    simp only [boundStmts, List.mem_append] at hx
    rcases hx with hx | hx
    · exact fbodyStmt_bound_simple s h.1 x hx
    · exact fbody_bound_simple r h.2 x hx

/-! ### the invariant inside the body of a module-level class -/

/-- `M` = the module-level scopes, `K` = the `_ClassScope` of the class `C` whose body is being visited -/
structure KInv (C : Str) (M : List Nat) (K : Nat) (s : XState) (st : AState) : Prop where
  corr : CorrK C s st
  ok : StkOK st
  inClass : st.inClass ≠ 0
  ids : st.stack.ids = M ++ [K]
  kCls : (st.heap.get K).isClass = true
  mNc : ∀ i ∈ M, (st.heap.get i).isClass = false
  noDel : delayedId ∉ M
  k3 : 3 ≤ K
  cov : CovJ M [C] s st

theorem KInv.top {C : Str} {M : List Nat} {K : Nat} {s : XState} {st : AState} (h : KInv C M K s st) : st.stack.top = K := by
  unfold StackRef.top; rw [h.ids]; exact getLastD_snoc _ _ _

theorem KInv.mLt {C : Str} {M : List Nat} {K : Nat} {s : XState} {st : AState} (h : KInv C M K s st) :
    ∀ i ∈ M, i < st.heap.length := fun i hi => h.ok.idsLt i (by rw [h.ids]; exact List.mem_append_left _ hi)

theorem KInv.mNe {C : Str} {M : List Nat} {K : Nat} {s : XState} {st : AState} (h : KInv C M K s st) :
    ∀ i ∈ M, i ≠ st.stack.top := by
  intro i hi hc
  have := h.mNc i hi
  rw [hc, h.top, h.kCls] at this; cases this

theorem KInv.nonclass {C : Str} {M : List Nat} {K : Nat} {s : XState} {st : AState} (h : KInv C M K s st) {i : Nat}
    (hi : i ∈ st.stack.ids) (hc : (st.heap.get i).isClass = false) : i ∈ M := by
  rw [h.ids] at hi
  rcases List.mem_append.mp hi with hi | hi
  · exact hi
  · simp only [List.mem_singleton] at hi; subst hi; rw [h.kCls] at hc; cases hc

theorem KInv.line {C : Str} {M : List Nat} {K : Nat} {s : XState} {st : AState} (h : KInv C M K s st) (l : Nat) :
    KInv C M K { s with line := l } { st with line := l } :=
  ⟨(h.corr.line l).setLine l, ⟨h.ok.wf, h.ok.idsLt, h.ok.len3, h.ok.nc0, h.ok.nc1⟩, h.inClass, h.ids, h.kCls, h.mNc, h.noDel, h.k3,
   ⟨h.cov.shape, h.cov.cov, h.cov.delB⟩⟩

/-- a step of the analysis inside the class body that leaves the closures alone -/
theorem KInv.step {C : Str} {M : List Nat} {K : Nat} {s s' : XState} {st st' : AState} (h : KInv C M K s st)
    (hc : CorrK C s' st') (hs : ModStep st st') (hfun : s'.funcs = s.funcs) : KInv C M K s' st' := by
  have htop := h.top
  refine ⟨hc, h.ok.step hs, by rw [hs.inClass]; exact h.inClass, by rw [hs.stack]; exact h.ids, ?_, fun i hi => ?_, h.noDel, h.k3, ?_⟩
  · rw [← htop, hs.cls, htop]; exact h.kCls
  · rw [hs.old i (h.mLt i hi) (h.mNe i hi)]; exact h.mNc i hi
  · exact h.cov.step hs hfun h.mLt h.ok.topMem (by rw [htop]; have := h.k3; unfold delayedId; omega) h.ok.len3

theorem bindK_funcs (s : XState) (x : Str) (v : RVal) : (bindK s x v).funcs = s.funcs := by
  unfold bindK; split <;> rfl

theorem bindK_ne (s : XState) (x : Str) (v : RVal) : (bindK s x v).ne = s.ne := by
  unfold bindK; split <;> rfl

/-- analysis only: a method definition in a class body is a store of its name into the class scope -/
theorem methAna (fx : Fixes) (reg : Registry) : ∀ (stmt : Stmt) (ln : Nat) (st : AState), fragDef false stmt = true →
    StkOK st → st.inFunc = false → st.inClass ≠ 0 →
    ModStep st (runOps reg st (cStmt fx ln stmt)) ∧ (runOps reg st (cStmt fx ln stmt)).saved = st.saved ∧
    (runOps reg st (cStmt fx ln stmt)).missing = st.missing
  | .located l s', ln, st, hfr, h, hf, hc => by
    simp only [cStmt, runOps_setLine]
    have h0 : ModStep st { st with line := l } := ModStep.of_heap rfl rfl rfl rfl ⟨[], by simp⟩ (fun _ h => h)
    obtain ⟨a, b, c⟩ := methAna fx reg s' l { st with line := l } (by simpa [fragDef] using hfr)
      ⟨h.wf, h.idsLt, h.len3, h.nc0, h.nc1⟩ hf hc
    exact ⟨h0.trans a, b, c⟩
  | .funcDef name a body decos ret, ln, st, hfr, h, hf, hc => by
    obtain ⟨ps, rfl, rfl, rfl, hn, hps, hb⟩ := fragDef_funcDef hfr
    obtain ⟨a1, a2, a3, a4, a5, a6, a7, a8, a9, a10, _⟩ := methA fx reg h hf hc ln name ps body hps hb
    refine ⟨⟨a1, a3.trans hf.symm, a4, a6, a7, ?_, a9, (by obtain ⟨E, hE, _⟩ := a10; exact ⟨E, hE⟩), fun m hm => by rw [a5]; exact hm⟩, a2, a5⟩
    intro k v hv
    rw [a8]
    by_cases hk : k = name
    · exact ⟨Val.none, by simp [hk]⟩
    · exact ⟨v, by simp [hk, hv]⟩
  | .expr _, _, _, h, _, _, _ => by simp [fragDef] at h
  | .assign _ _, _, _, h, _, _, _ => by simp [fragDef] at h
  | .augAssign _ _, _, _, h, _, _, _ => by simp [fragDef] at h
  | .annAssign _ _ _, _, _, h, _, _, _ => by simp [fragDef] at h
  | .import_ _, _, _, h, _, _, _ => by simp [fragDef] at h
  | .importFrom _ _, _, _, h, _, _, _ => by simp [fragDef] at h
  | .classDef _ _ _ _, _, _, h, _, _, _ => by simp [fragDef] at h
  | .for_ _ _ _ _, _, _, h, _, _, _ => by simp [fragDef] at h
  | .while_ _ _ _, _, _, h, _, _, _ => by simp [fragDef] at h
  | .if_ _ _ _, _, _, h, _, _, _ => by simp [fragDef] at h
  | .with_ _ _, _, _, h, _, _, _ => by simp [fragDef] at h
  | .try_ _ _ _ _, _, _, h, _, _, _ => by simp [fragDef] at h
  | .return_ _, _, _, h, _, _, _ => by simp [fragDef] at h
  | .pass, _, _, h, _, _, _ => by simp [fragDef] at h
  | .raise_ _, _, _, h, _, _, _ => by simp [fragDef] at h
  | .delete _, _, _, h, _, _, _ => by simp [fragDef] at h
  | .global_ _, _, _, h, _, _, _ => by simp [fragDef] at h
  | .nonlocal_ _, _, _, h, _, _, _ => by simp [fragDef] at h

/-- a method definition in a class body, reference semantics and analysis in lock step -/
theorem methK (fx : Fixes) (reg : Registry) (C : Str) (L : List Str) (M : List Nat) (K : Nat) :
    ∀ (stmt : Stmt) (f : Nat) (s : XState) (st : AState) (ln : Nat), fragDef false stmt = true → KInv C M K s st →
    FrameK s (execStmt f (ctxK L) stmt s).1 ∧ (execStmt f (ctxK L) stmt s).1.ne = s.ne ∧
    (∀ fl, (execStmt f (ctxK L) stmt s).2 = .ok fl → fl = Flow.normal ∧
      KInv C M K (execStmt f (ctxK L) stmt s).1 (runOps reg st (cStmt fx ln stmt)) ∧
      (EntsJ M s st → EntsJ M (execStmt f (ctxK L) stmt s).1 (runOps reg st (cStmt fx ln stmt))))
  | stmt, 0, s, st, ln, _, _ => by
    rw [execStmt]
    exact ⟨FrameK.refl s, rfl, fun fl hfl => by cases hfl⟩
  | .located l s', f + 1, s, st, ln, hfr, h => by
    simp only [execStmt, cStmt, runOps_setLine, X.bind_def, X.modify]
    obtain ⟨a, b, c⟩ := methK fx reg C L M K s' f { s with line := l } { st with line := l } l (by simpa [fragDef] using hfr) (h.line l)
    exact ⟨⟨a.globals, a.builtins, a.tail⟩, b, c⟩
  | .funcDef name a body decos ret, f + 1, s, st, ln, hfr, h => by
    obtain ⟨ps, rfl, rfl, rfl, hn, hps, hb⟩ := fragDef_funcDef hfr
    obtain ⟨a1, a2, a3, a4, a5, a6, a7, a8, a9, a10, a11⟩ := methA fx reg h.ok h.corr.inFunc h.inClass ln name ps body hps hb
    obtain ⟨hms, _, _⟩ := methAna fx reg (.funcDef name (.mk ps [] none [] [] none) body [] none) ln st hfr h.ok h.corr.inFunc h.inClass
    generalize runOps reg st (cStmt fx ln (.funcDef name (.mk ps [] none [] [] none) body [] none)) = st' at *
    rcases execMeth L (f + 1) s name ps body hps with he | he
    · rw [he]; exact ⟨FrameK.refl s, rfl, fun fl hfl => by cases hfl⟩
    · rw [he]
      have hsl : StoreLike st st' name := ⟨a1, a7, a8⟩
      have hu := unboundA_storeLike hsl h.ok
      have hk := unboundK_bindK { s with funcs := s.funcs ++ [defClosure ps body] } h.corr.cls name (.func s.funcs.length)
      have hcorr : CorrK C (bindK { s with funcs := s.funcs ++ [defClosure ps body] } name (.func s.funcs.length)) st' := by
        refine ⟨fun n hn' hc hkn => ?_, fun n hn' hun => ?_, noStarA_storeLike hsl h.ok (simpleName_ne_star hn) h.corr.noStar, ?_, a3,
          by rw [a1]; exact h.corr.topMem, by rw [a1]; exact Nat.lt_of_lt_of_le h.corr.topLt a6, ?_⟩
        · obtain ⟨x, y⟩ := (hk n).mp hkn
          exact (hu n).mpr ⟨h.corr.namesS n hn' hc x, y⟩
        · obtain ⟨x, y⟩ := (hu n).mp hun
          exact (hk n).mpr ⟨h.corr.namesP n hn' x, y⟩
        · intro n hn'
          rw [bindK_ne] at hn'
          rw [a5]; exact h.corr.ne n hn'
        · unfold bindK
          cases hcs : s.clsStack with
          | nil => exact absurd hcs h.corr.cls
          | cons ns r => simp
      have hfr : FrameK s (bindK { s with funcs := s.funcs ++ [defClosure ps body] } name (.func s.funcs.length)) := by
        have := frameK_bindK { s with funcs := s.funcs ++ [defClosure ps body] } name (.func s.funcs.length)
        exact ⟨this.globals, this.builtins, this.tail⟩
      refine ⟨hfr, bindK_ne _ _ _, fun fl hfl => ⟨by cases hfl; rfl, ?_, ?_⟩⟩
      · -- the invariant, with the new closure
        have hcov0 : CovJ M [C] s st' := h.cov.step hms rfl h.mLt h.ok.topMem
          (by rw [h.top]; have := h.k3; unfold delayedId; omega) h.ok.len3
        have hfun : (bindK { s with funcs := s.funcs ++ [defClosure ps body] } name (.func s.funcs.length)).funcs =
            s.funcs ++ [defClosure ps body] := bindK_funcs _ _ _
        have hment : ∀ e, EntJ st st' (dunderCls :: paramNames ps ++ boundStmts body) e →
            MEnt st' M (dunderCls :: paramNames ps ++ boundStmts body) e := by
          rintro e ⟨e1, e2⟩
          refine ⟨fun i hi => e1 i (by rw [h.ids]; exact List.mem_append_left _ hi) (h.mNc i hi), fun i hi => ?_, ?_⟩
          rotate_left
          · intro hc
            have hs : simpleName ['*'] = true := by
              rcases List.mem_cons.mp hc with hc | hc
              · rw [hc]; decide
              · rcases List.mem_append.mp hc with hc | hc
                · exact paramNames_simple ps hps _ hc
                · exact fbody_bound_simple body hb _ hc
            exact simpleName_ne_star hs rfl
          rcases e2 i hi with h0 | ⟨h0, h1⟩ | ⟨h0, h1, h2⟩
          · exact .inr (.inl h0)
          · exact .inl (h.nonclass h0 h1)
          · refine .inr (.inr ⟨h1, by have := h.ok.len3; unfold delayedId; omega, ?_, h2⟩)
            rw [a1]; intro hc; have := h.ok.idsLt i hc; omega
        refine ⟨hcorr, h.ok.step hms, by rw [a4]; exact h.inClass, by rw [a1]; exact h.ids, ?_, fun i hi => ?_, h.noDel, h.k3, ?_⟩
        · rw [← h.top, a9, h.top]; exact h.kCls
        · rw [a7 i (h.mLt i hi) (h.mNe i hi)]; exact h.mNc i hi
        · refine ⟨fun c hc => ?_, fun ps' body' hc d hd hnl => ?_, hcov0.delB⟩
          · rw [hfun] at hc
            rcases List.mem_append.mp hc with hc | hc
            · exact h.cov.shape c hc
            · exact ⟨ps, body, by simpa using hc, hb⟩
          · rw [hfun] at hc
            rcases List.mem_append.mp hc with hc | hc
            · exact hcov0.cov ps' body' hc d hd hnl
            · obtain ⟨hp, hbb⟩ := defClosure_inj (List.mem_singleton.mp hc)
              subst hbb
              rw [hp] at hnl ⊢
              rcases a11 d hd hnl with ⟨i, hi, w, hw⟩ | ⟨e, he, hen, hent⟩
              · rcases hi with rfl | ⟨hi, hnc⟩
                · exact (h.cov.delB d w hw).imp (fun h1 => h1.step hms h.mLt) Or.inl
                · exact .inl (BoundIn.step ⟨i, h.nonclass hi hnc, w, hw⟩ hms h.mLt)
              · exact .inr (.inr ⟨e, he, hen, hment e hent⟩)
      · intro hen e he
        obtain ⟨E, hE, hEf⟩ := a10
        rw [hE] at he
        have hfun : (bindK { s with funcs := s.funcs ++ [defClosure ps body] } name (.func s.funcs.length)).funcs =
            s.funcs ++ [defClosure ps body] := bindK_funcs _ _ _
        rcases List.mem_append.mp he with he | he
        · obtain ⟨e1, ps', body', e2, e3⟩ := hen e he
          exact ⟨e1, ps', body', by rw [hfun]; exact List.mem_append_left _ e2, e3⟩
        · obtain ⟨e1, e2, _⟩ := hEf e he
          exact ⟨fun i hi => e2 i (by rw [h.ids]; exact List.mem_append_left _ hi) (h.mNc i hi), ps, body,
            by rw [hfun]; exact List.mem_append_right _ (List.mem_singleton.mpr rfl), e1⟩
  | .expr _, _ + 1, _, _, _, h, _ => by simp [fragDef] at h
  | .assign _ _, _ + 1, _, _, _, h, _ => by simp [fragDef] at h
  | .augAssign _ _, _ + 1, _, _, _, h, _ => by simp [fragDef] at h
  | .annAssign _ _ _, _ + 1, _, _, _, h, _ => by simp [fragDef] at h
  | .import_ _, _ + 1, _, _, _, h, _ => by simp [fragDef] at h
  | .importFrom _ _, _ + 1, _, _, _, h, _ => by simp [fragDef] at h
  | .classDef _ _ _ _, _ + 1, _, _, _, h, _ => by simp [fragDef] at h
  | .for_ _ _ _ _, _ + 1, _, _, _, h, _ => by simp [fragDef] at h
  | .while_ _ _ _, _ + 1, _, _, _, h, _ => by simp [fragDef] at h
  | .if_ _ _ _, _ + 1, _, _, _, h, _ => by simp [fragDef] at h
  | .with_ _ _, _ + 1, _, _, _, h, _ => by simp [fragDef] at h
  | .try_ _ _ _ _, _ + 1, _, _, _, h, _ => by simp [fragDef] at h
  | .return_ _, _ + 1, _, _, _, h, _ => by simp [fragDef] at h
  | .pass, _ + 1, _, _, _, h, _ => by simp [fragDef] at h
  | .raise_ _, _ + 1, _, _, _, h, _ => by simp [fragDef] at h
  | .delete _, _ + 1, _, _, _, h, _ => by simp [fragDef] at h
  | .global_ _, _ + 1, _, _, _, h, _ => by simp [fragDef] at h
  | .nonlocal_ _, _ + 1, _, _, _, h, _ => by simp [fragDef] at h

/-! ### the other statements of a class body -/

theorem funcsK (L : List Str) : ∀ (stmt : Stmt) (f : Nat) (s : XState), clsBodyStmt stmt = true →
    (execStmt f (ctxK L) stmt s).1.funcs = s.funcs
  | stmt, 0, s, _ => by rw [execStmt]; rfl
  | .expr e, f + 1, s, hfr => by
    have hE := (evalK L f).1 e s (by simpa [clsBodyStmt] using hfr)
    simp only [execStmt, X.bind_def]
    cases hr : evalExpr f (ctxK L) e s with
    | mk s' r =>
      rw [hr] at hE
      cases r with
      | error x => exact hE.same.funcs
      | ok v => exact hE.same.funcs
  | .assign ts e, f + 1, s, hfr => by
    simp only [clsBodyStmt, Bool.and_eq_true] at hfr
    cases hsn : singleName ts with
    | none => rw [hsn] at hfr; simp at hfr
    | some x =>
      have hts := singleName_eq hsn
      subst hts
      have hE := (evalK L f).1 e s hfr.2
      simp only [execStmt, X.bind_def]
      cases hr : evalExpr f (ctxK L) e s with
      | mk s' r =>
        rw [hr] at hE
        cases r with
        | error x => exact hE.same.funcs
        | ok v =>
          simp only
          rcases assignAll_nameK L f x v s' with ha | ha
          · rw [ha]; simp only [X.pure_def]; rw [bindK_funcs]; exact hE.same.funcs
          · rw [ha]; exact hE.same.funcs
  | .pass, f + 1, s, _ => by simp only [execStmt, X.pure_def]
  | .located l s', f + 1, s, hfr => by
    simp only [execStmt, X.bind_def, X.modify]
    exact funcsK L s' f { s with line := l } (by simpa [clsBodyStmt] using hfr)
  | .augAssign _ _, _ + 1, _, h => by simp [clsBodyStmt] at h
  | .annAssign _ _ _, _ + 1, _, h => by simp [clsBodyStmt] at h
  | .import_ _, _ + 1, _, h => by simp [clsBodyStmt] at h
  | .importFrom _ _, _ + 1, _, h => by simp [clsBodyStmt] at h
  | .funcDef _ _ _ _ _, _ + 1, _, h => by simp [clsBodyStmt] at h
  | .classDef _ _ _ _, _ + 1, _, h => by simp [clsBodyStmt] at h
  | .for_ _ _ _ _, _ + 1, _, h => by simp [clsBodyStmt] at h
  | .while_ _ _ _, _ + 1, _, h => by simp [clsBodyStmt] at h
  | .if_ _ _ _, _ + 1, _, h => by simp [clsBodyStmt] at h
  | .with_ _ _, _ + 1, _, h => by simp [clsBodyStmt] at h
  | .try_ _ _ _ _, _ + 1, _, h => by simp [clsBodyStmt] at h
  | .return_ _, _ + 1, _, h => by simp [clsBodyStmt] at h
  | .raise_ _, _ + 1, _, h => by simp [clsBodyStmt] at h
  | .delete _, _ + 1, _, h => by simp [clsBodyStmt] at h
  | .global_ _, _ + 1, _, h => by simp [clsBodyStmt] at h
  | .nonlocal_ _, _ + 1, _, h => by simp [clsBodyStmt] at h

/-- analysis only: one statement of a class body of fragment J -/
theorem anaStmtJ (fx : Fixes) (reg : Registry) (stmt : Stmt) (ln : Nat) (st : AState) (hfr : clsBodyStmtJ stmt = true)
    (h : StkOK st) (hf : st.inFunc = false) (hc : st.inClass ≠ 0) :
    ModStep st (runOps reg st (cStmt fx ln stmt)) ∧ (runOps reg st (cStmt fx ln stmt)).saved = st.saved := by
  simp only [clsBodyStmtJ, Bool.or_eq_true] at hfr
  rcases hfr with hfr | hfr
  · exact ⟨modStep_stmtB fx reg false stmt ln st (clsBody_fragB stmt hfr) hf h.topLt,
      runOps_plain_saved reg _ _ (cStmt_plain fx stmt ln (clsBody_fragB stmt hfr))⟩
  · obtain ⟨a, b, _⟩ := methAna fx reg stmt ln st hfr h hf hc
    exact ⟨a, b⟩

theorem anaBodyJ (fx : Fixes) (reg : Registry) : ∀ (ss : List Stmt) (ln : Nat) (st : AState), ss.all clsBodyStmtJ = true →
    StkOK st → st.inFunc = false → st.inClass ≠ 0 →
    ModStep st (runOps reg st (cStmts fx ln ss)) ∧ (runOps reg st (cStmts fx ln ss)).saved = st.saved
  | [], _, st, _, _, _, _ => ⟨ModStep.refl st, rfl⟩
  | s :: ss, ln, st, hfr, h, hf, hc => by
    simp only [List.all_cons, Bool.and_eq_true] at hfr
    simp only [cStmts, runOps_append]
    obtain ⟨a1, a2⟩ := anaStmtJ fx reg s ln st hfr.1 h hf hc
    obtain ⟨b1, b2⟩ := anaBodyJ fx reg ss ln _ hfr.2 (h.step a1) (by rw [a1.inFunc]; exact hf) (by rw [a1.inClass]; exact hc)
    exact ⟨a1.trans b1, b2.trans a2⟩

/-- one statement of a class body of fragment J, reference semantics and analysis in lock step -/
theorem stmtKJ (fx : Fixes) (reg : Registry) (C : Str) (L : List Str) (M : List Nat) (K : Nat) (stmt : Stmt) (f : Nat)
    (s : XState) (st : AState) (ln : Nat) (hfr : clsBodyStmtJ stmt = true) (hC : C ∉ loadsI stmt) (h : KInv C M K s st) :
    FrameK s (execStmt f (ctxK L) stmt s).1 ∧
    (∀ n ∈ (execStmt f (ctxK L) stmt s).1.ne, n ∈ s.ne ∨ n ∈ loadsI stmt) ∧
    (∀ n ∈ (execStmt f (ctxK L) stmt s).1.ne, ∃ m ∈ (runOps reg st (cStmt fx ln stmt)).missing, m.name = n) ∧
    (∀ fl, (execStmt f (ctxK L) stmt s).2 = .ok fl → fl = Flow.normal ∧
      KInv C M K (execStmt f (ctxK L) stmt s).1 (runOps reg st (cStmt fx ln stmt)) ∧
      (plainStmtB stmt = true → (runOps reg st (cStmt fx ln stmt)).missing = st.missing ∧
        (EntsJ M s st → EntsJ M (execStmt f (ctxK L) stmt s).1 (runOps reg st (cStmt fx ln stmt))))) := by
  obtain ⟨hms, _⟩ := anaStmtJ fx reg stmt ln st hfr h.ok h.corr.inFunc h.inClass
  simp only [clsBodyStmtJ, Bool.or_eq_true] at hfr
  rcases hfr with hfr | hfr
  · obtain ⟨k1, k2, k3, k4⟩ := stmtK fx reg C L stmt f s st ln hfr hC h.corr
    have hfun := funcsK L stmt f s hfr
    refine ⟨k1, k2, k3, fun fl hfl => ?_⟩
    obtain ⟨q1, q2, q3⟩ := k4 fl hfl
    refine ⟨q1, h.step q2 hms hfun, fun hp => ?_⟩
    obtain ⟨p1, p2⟩ := q3 hp
    refine ⟨p1, fun hen e he => ?_⟩
    rw [p2] at he
    obtain ⟨e1, ps, body, e2, e3⟩ := hen e he
    exact ⟨e1, ps, body, by rw [hfun]; exact e2, e3⟩
  · obtain ⟨_, _, hmiss⟩ := methAna fx reg stmt ln st hfr h.ok h.corr.inFunc h.inClass
    obtain ⟨k1, k2, k3⟩ := methK fx reg C L M K stmt f s st ln hfr h
    refine ⟨k1, fun n hn => .inl (by rw [← k2]; exact hn), fun n hn => ?_, fun fl hfl => ?_⟩
    · rw [k2] at hn
      obtain ⟨m, hm, hmn⟩ := h.corr.ne n hn
      exact ⟨m, by rw [hmiss]; exact hm, hmn⟩
    · obtain ⟨q1, q2, q3⟩ := k3 fl hfl
      exact ⟨q1, q2, fun _ => ⟨hmiss, q3⟩⟩

/-- the body of a class of fragment J -/
theorem stmtsKJ (fx : Fixes) (reg : Registry) (C : Str) (L : List Str) (M : List Nat) (K : Nat) :
    ∀ (ss : List Stmt) (f : Nat) (s : XState) (st : AState) (ln : Nat),
    ss.all clsBodyStmtJ = true → C ∉ loadsIs ss → KInv C M K s st →
    FrameK s (execStmts f (ctxK L) ss s).1 ∧
    (∀ n ∈ (execStmts f (ctxK L) ss s).1.ne, n ∈ s.ne ∨ n ∈ loadsIs ss) ∧
    (∀ n ∈ (execStmts f (ctxK L) ss s).1.ne, ∃ m ∈ (runOps reg st (cStmts fx ln ss)).missing, m.name = n) ∧
    (∀ fl, (execStmts f (ctxK L) ss s).2 = .ok fl →
      KInv C M K (execStmts f (ctxK L) ss s).1 (runOps reg st (cStmts fx ln ss)) ∧
      (ss.all plainStmtB = true → (runOps reg st (cStmts fx ln ss)).missing = st.missing ∧
        (EntsJ M s st → EntsJ M (execStmts f (ctxK L) ss s).1 (runOps reg st (cStmts fx ln ss)))))
  | ss, 0, s, st, ln, hfr, _, h => by
    rw [execStmts]
    refine ⟨FrameK.refl s, fun n hn => .inl hn, fun n hn => ?_, fun fl hfl => by cases hfl⟩
    obtain ⟨m, hmm, hmn⟩ := h.corr.ne n hn
    exact ⟨m, (anaBodyJ fx reg ss ln st hfr h.ok h.corr.inFunc h.inClass).1.mono m hmm, hmn⟩
  | [], f + 1, s, st, ln, _, _, h => by
    simp only [execStmts, cStmts, X.pure_def]
    exact ⟨FrameK.refl s, fun n hn => .inl hn, h.corr.ne, fun fl _ => ⟨h, fun _ => ⟨rfl, fun he => he⟩⟩⟩
  | stmt :: ss, f + 1, s, st, ln, hfr, hC, h => by
    simp only [List.all_cons, Bool.and_eq_true] at hfr
    simp only [loadsIs, List.mem_append, not_or] at hC
    obtain ⟨k1, k2, k3, k4⟩ := stmtKJ fx reg C L M K stmt f s st ln hfr.1 hC.1 h
    obtain ⟨hms, _⟩ := anaStmtJ fx reg stmt ln st hfr.1 h.ok h.corr.inFunc h.inClass
    simp only [execStmts, cStmts, runOps_append, X.bind_def, loadsIs]
    cases hr : execStmt f (ctxK L) stmt s with
    | mk s' r =>
      rw [hr] at k1 k2 k3 k4
      cases r with
      | error x =>
        simp only
        refine ⟨k1, fun n hn => (k2 n hn).imp id (List.mem_append_left _), fun n hn => ?_, fun fl hfl => by cases hfl⟩
        obtain ⟨m, hm, hmn⟩ := k3 n hn
        exact ⟨m, (anaBodyJ fx reg ss ln _ hfr.2 (h.ok.step hms) (by rw [hms.inFunc]; exact h.corr.inFunc)
          (by rw [hms.inClass]; exact h.inClass)).1.mono m hm, hmn⟩
      | ok fl0 =>
        obtain ⟨hfl0, hc, hp⟩ := k4 fl0 rfl
        subst hfl0
        simp only
        obtain ⟨r1, r2, r3, r4⟩ := stmtsKJ fx reg C L M K ss f s' _ ln hfr.2 hC.2 hc
        refine ⟨k1.trans r1, fun n hn => ?_, r3, fun fl hfl => ?_⟩
        · rcases r2 n hn with h1 | h1
          · exact (k2 n h1).imp id (List.mem_append_left _)
          · exact .inr (List.mem_append_right _ h1)
        · obtain ⟨c2, p2⟩ := r4 fl hfl
          refine ⟨c2, fun hall => ?_⟩
          simp only [List.all_cons, Bool.and_eq_true] at hall
          obtain ⟨p1a, p1b⟩ := hp hall.1
          obtain ⟨p2a, p2b⟩ := p2 hall.2
          exact ⟨p2a.trans p1a, fun he => p2b (p1b he)⟩


/-! ### class statements of fragment J: static facts -/

theorem fragDef_loadsI : ∀ stmt : Stmt, fragDef false stmt = true → loadsI stmt = []
  | .located _ s, h => by simp only [loadsI]; exact fragDef_loadsI s (by simpa [fragDef] using h)
  | .funcDef _ _ _ _ _, _ => rfl
  | .expr _, h => by simp [fragDef] at h
  | .assign _ _, h => by simp [fragDef] at h
  | .augAssign _ _, h => by simp [fragDef] at h
  | .annAssign _ _ _, h => by simp [fragDef] at h
  | .import_ _, h => by simp [fragDef] at h
  | .importFrom _ _, h => by simp [fragDef] at h
  | .classDef _ _ _ _, h => by simp [fragDef] at h
  | .for_ _ _ _ _, h => by simp [fragDef] at h
  | .while_ _ _ _, h => by simp [fragDef] at h
  | .if_ _ _ _, h => by simp [fragDef] at h
  | .with_ _ _, h => by simp [fragDef] at h
  | .try_ _ _ _ _, h => by simp [fragDef] at h
  | .return_ _, h => by simp [fragDef] at h
  | .pass, h => by simp [fragDef] at h
  | .raise_ _, h => by simp [fragDef] at h
  | .delete _, h => by simp [fragDef] at h
  | .global_ _, h => by simp [fragDef] at h
  | .nonlocal_ _, h => by simp [fragDef] at h

theorem clsBodyJ_loads_simple_all : ∀ body : List Stmt, body.all clsBodyStmtJ = true → ∀ d ∈ loadsIs body, simpleName d = true
  | [], _, d, hd => by simp [loadsIs] at hd
  | s :: r, h, d, hd => by
    simp only [List.all_cons, Bool.and_eq_true] at h
    simp only [loadsIs, List.mem_append] at hd
    rcases hd with hd | hd
    · have h1 := h.1
      simp only [clsBodyStmtJ, Bool.or_eq_true] at h1
      rcases h1 with h1 | h1
      · exact clsBody_loads_simple s h1 d hd
      · rw [fragDef_loadsI s h1] at hd; cases hd
    · exact clsBodyJ_loads_simple_all r h.2 d hd

theorem step_classDelayed_keys (reg : Registry) (st : AState) (C : Str) (mo : Bool) (k : Str) (v : Val)
    (h : ((step reg st (.classDelayed C mo)).heap.get delayedId).get k = some v) :
    k = C ∨ (st.heap.get delayedId).get k = some v := by
  simp only [step] at h
  split at h
  · simp only [Heap.get_update] at h
    split at h
    · by_cases hk : k = C
      · exact .inl hk
      · rw [scope_get_set_ne _ hk] at h; exact .inr h
    · exact .inr h
  · exact .inr h

theorem clsEnter_isClass (st1 : AState) (C : Str) : ((clsEnter st1 C).heap.get st1.heap.length).isClass = true := by
  simp only [clsEnter, storeTop, StackRef.top, getLastD_snoc, Heap.get_update, List.length_append, List.length_singleton]
  rw [if_pos ⟨trivial, by omega⟩, Heap.get_append_new]
  rfl

/-! ### one class definition of fragment J at module level -/

theorem classJ (fx : Fixes) (reg : Registry) (C : Str) (body : List Stmt) (f : Nat) (s : XState) (st : AState) (ln : Nat)
    (M : List Nat) (hC : simpleName C = true) (hb : body.all clsBodyStmtJ = true) (hCb : C ∉ loadsIs body)
    (h : Corr false s st) (hM : ModI st) (hok : StkOK st) (hids : st.stack.ids = M)
    (hcov : CovJ M [] s st) (hne : ∀ n ∈ s.ne, n ≠ C ∧ dotFree n = true) :
    (∀ n ∈ (execStmt f {} (.classDef C [] body []) s).1.ne, n ∈ s.ne ∨ n ∈ loadsIs body) ∧
    (∀ n ∈ (execStmt f {} (.classDef C [] body []) s).1.ne,
      ∃ m ∈ (runOps reg st (cStmt fx ln (.classDef C [] body []))).missing, m.name = n) ∧
    (∀ fl, (execStmt f {} (.classDef C [] body []) s).2 = .ok fl → fl = Flow.normal ∧
      Corr false (execStmt f {} (.classDef C [] body []) s).1 (runOps reg st (cStmt fx ln (.classDef C [] body []))) ∧
      ModI (runOps reg st (cStmt fx ln (.classDef C [] body []))) ∧
      StkOK (runOps reg st (cStmt fx ln (.classDef C [] body []))) ∧
      (runOps reg st (cStmt fx ln (.classDef C [] body []))).stack.ids = M ∧
      CovJ M [] (execStmt f {} (.classDef C [] body []) s).1 (runOps reg st (cStmt fx ln (.classDef C [] body []))) ∧
      BoundIn (runOps reg st (cStmt fx ln (.classDef C [] body []))) M C ∧
      (∀ d, BoundIn st M d → BoundIn (runOps reg st (cStmt fx ln (.classDef C [] body []))) M d) ∧
      (body.all plainStmtB = true → st.missing = [] →
        (runOps reg st (cStmt fx ln (.classDef C [] body []))).missing = [] ∧
        (EntsJ M s st → EntsJ M (execStmt f {} (.classDef C [] body []) s).1 (runOps reg st (cStmt fx ln (.classDef C [] body [])))))) := by
  rw [run_class fx reg hM C body ln]
  obtain ⟨d1, d2, d3, d4, d5, d6, d7⟩ := step_classDelayed_frame reg st C fx.classModuleOnly
  have hM1 := hM.classDelayed (reg := reg) C fx.classModuleOnly
  have hdkeys := step_classDelayed_keys reg st C fx.classModuleOnly
  generalize step reg st (.classDelayed C fx.classModuleOnly) = st1 at *
  have hN : st1.heap.length ∉ st1.stack.ids := fun hm => Nat.lt_irrefl _ (hM1.idsLt _ hm)
  have h2 := hM1.len2
  have h3 := hok.len3
  have hids4 : normIds (clsEnter st1 C).stack.ids = st.stack.ids ++ [st1.heap.length] := by
    show normIds (st1.stack.ids ++ [st1.heap.length]) = _
    rw [normIds_snoc_fresh (by omega) (by omega) hN, hM1.wf, d1]
  have hidsE : (clsEnter st1 C).stack.ids = M ++ [st1.heap.length] := by
    show st1.stack.ids ++ [st1.heap.length] = _
    rw [d1, hids]
  have hold : ∀ i ∈ st.stack.ids, (clsEnter st1 C).heap.get i = st.heap.get i := by
    intro i hi
    have hi1 : i ∈ st1.stack.ids := by rw [d1]; exact hi
    rw [clsEnter_old st1 C (hM1.idsLt i hi1), d7 i (fun hc => hM.noDelayed (hc ▸ hi))]
  have hold' : ∀ i, i < st.heap.length → i ≠ delayedId → (clsEnter st1 C).heap.get i = st.heap.get i := by
    intro i hi hne'
    rw [clsEnter_old st1 C (by rw [d6]; exact hi), d7 i hne']
  have hunb4 : ∀ n, unboundA (clsEnter st1 C) n ↔ (unboundA st n ∧ n ≠ C) := by
    intro n
    unfold unboundA
    rw [hids4, hM.wf]
    constructor
    · intro hu
      refine ⟨fun i hi => ?_, fun hc => ?_⟩
      · rw [← hold i hi]; exact hu i (List.mem_append_left _ hi)
      · have := hu st1.heap.length (List.mem_append_right _ (List.mem_singleton.mpr rfl))
        rw [clsEnter_new, if_pos hc] at this; cases this
    · rintro ⟨hu, hc⟩ i hi
      rcases List.mem_append.mp hi with hi | hi
      · rw [hold i hi]; exact hu i hi
      · simp only [List.mem_singleton] at hi; subst hi
        rw [clsEnter_new, if_neg hc]
  have hf4 : (clsEnter st1 C).inFunc = false := by show st1.inFunc = false; rw [d3]; exact h.inFunc
  have htl4 : (clsEnter st1 C).stack.top < (clsEnter st1 C).heap.length := by rw [clsEnter_top, clsEnter_len]; omega
  have hK : CorrK C (clsPush s) (clsEnter st1 C) := by
    refine ⟨fun n hn hc hk => ?_, fun n hn hun => ?_, ?_, fun n hn => ?_, hf4, ?_, htl4, by simp [clsPush]⟩
    · exact (hunb4 n).mpr ⟨(h.names n hn).mp hk.2, hc⟩
    · exact ⟨rfl, (h.names n hn).mpr ((hunb4 n).mp hun).1⟩
    · have hs0 := h.noStar
      unfold noStarA hasStar at hs0 ⊢
      rw [List.any_eq_false] at hs0 ⊢
      intro i hi
      have hi' : i ∈ st.stack.ids ++ [st1.heap.length] := by
        rw [← hids4]; exact mem_normIds_iff.mpr (.inr (.inr hi))
      rcases List.mem_append.mp hi' with hi' | hi'
      · rw [hold i hi']; exact hs0 i hi'
      · simp only [List.mem_singleton] at hi'; subst hi'
        rw [clsEnter_new, if_neg (fun hc => simpleName_ne_star hC hc.symm)]; simp
    · obtain ⟨m, hm, hmn⟩ := h.ne n hn
      exact ⟨m, by show m ∈ st1.missing; rw [d4]; exact hm, (hmn.2 rfl)⟩
    · rw [clsEnter_top, hids4]; exact List.mem_append_right _ (List.mem_singleton.mpr rfl)
  have hMlt : ∀ i ∈ M, i < st.heap.length := fun i hi => hok.idsLt i (by rw [hids]; exact hi)
  have hMnd : ∀ i ∈ M, i ≠ delayedId := fun i hi hc => hM.noDelayed (by rw [hids]; exact hc ▸ hi)
  have hokE : StkOK (clsEnter st1 C) := by
    refine ⟨?_, fun i hi => ?_, by rw [clsEnter_len]; omega, ?_, ?_⟩
    · rw [hids4, hidsE, hids]
    · rw [hidsE] at hi
      rw [clsEnter_len]
      rcases List.mem_append.mp hi with hi | hi
      · have := hMlt i hi; omega
      · simp only [List.mem_singleton] at hi; omega
    · rw [hold' 0 (by omega) (by unfold delayedId; omega)]; exact hok.nc0
    · rw [hold' 1 (by omega) (by unfold delayedId; omega)]; exact hok.nc1
  have hKI : KInv C M st1.heap.length (clsPush s) (clsEnter st1 C) := by
    refine ⟨hK, hokE, by show st1.inClass + 1 ≠ 0; omega, hidsE, clsEnter_isClass st1 C, fun i hi => ?_,
      fun hc => hM.noDelayed (by rw [hids]; exact hc), by omega, ?_⟩
    · rw [hold' i (hMlt i hi) (hMnd i hi)]; exact hM.noClass i (by rw [hids]; exact hi)
    · refine ⟨hcov.shape, fun ps bd hc d hd hnl => ?_, fun k v hv => ?_⟩
      · rcases hcov.cov ps bd hc d hd hnl with ⟨i, hi, w, hw⟩ | h1 | ⟨e, he, hen, hme⟩
        · exact .inl ⟨i, hi, w, by rw [hold' i (hMlt i hi) (hMnd i hi)]; exact hw⟩
        · cases h1
        · refine .inr (.inr ⟨e, by show e ∈ st1.deferred; rw [d5]; exact he, hen, hme.1, fun i hi => ?_, hme.2.2⟩)
          refine (hme.2.1 i hi).imp id (fun h' => h'.imp id ?_)
          rintro ⟨p1, p2, p3, p4⟩
          refine ⟨by rw [clsEnter_len]; omega, p2, ?_, ?_⟩
          · rw [hidsE, ← hids]
            intro hc
            rcases List.mem_append.mp hc with hc | hc
            · exact p3 hc
            · simp only [List.mem_singleton] at hc; omega
          · rw [hold' i p1 p2]; exact p4
      · rw [clsEnter_old st1 C (by unfold delayedId; omega)] at hv
        rcases hdkeys k v hv with hk | hk
        · exact .inr (by simp [hk])
        · rcases hcov.delB k v hk with ⟨i, hi, w, hw⟩ | h1
          · exact .inl ⟨i, hi, w, by rw [hold' i (hMlt i hi) (hMnd i hi)]; exact hw⟩
          · cases h1
  -- the analysis of the body and of what follows it
  obtain ⟨hms, hsv0⟩ := anaBodyJ fx reg body ln (clsEnter st1 C) hb hokE hf4 (by show st1.inClass + 1 ≠ 0; omega)
  have hsv : (runOps reg (clsEnter st1 C) (cStmts fx ln body)).saved = st1.stack :: st1.saved := hsv0
  have hK' := fun f' => stmtsKJ fx reg C (boundStmts body) M st1.heap.length body f' (clsPush s) (clsEnter st1 C) ln hb hCb hKI
  generalize runOps reg (clsEnter st1 C) (cStmts fx ln body) = st5 at *
  obtain ⟨st8, e8, s8a, s8b, s8c, s8d, s8e, s8f⟩ := run_suffix reg st5 st1.stack st1.saved hsv C fx.classModuleOnly
  rw [e8]
  have hkeep0 : ∀ m ∈ st.missing, m ∈ st5.missing := fun m hm => hms.mono m (by show m ∈ st1.missing; rw [d4]; exact hm)
  have hlt1 : ∀ i ∈ st.stack.ids, i < st1.heap.length := fun i hi => hM1.idsLt i (by rw [d1]; exact hi)
  have hcell : ∀ i ∈ st.stack.ids, st8.heap.get i = st.heap.get i := by
    intro i hi
    have := hlt1 i hi
    rw [s8b, hms.old i (by rw [clsEnter_len]; omega) (by rw [clsEnter_top]; omega), hold i hi]
  have hlen8 : st.heap.length < st8.heap.length := by
    have := hms.len; rw [clsEnter_len] at this; rw [s8b]; omega
  have hfin : ∀ (s2 : XState), (∀ n ∈ s2.ne, n ∈ s.ne ∨ n ∈ loadsIs body) → (∀ n ∈ s2.ne, ∃ m ∈ st5.missing, m.name = n) →
      ∀ n ∈ s2.ne, ∃ m ∈ (storeTop st8 C).missing, m.name = n := by
    intro s2 hsub hmiss n hn
    obtain ⟨m, hm, hmn⟩ := hmiss n hn
    refine ⟨m, ?_, hmn⟩
    show m ∈ st8.missing
    apply s8e m hm
    rw [hmn]
    rcases hsub n hn with h1 | h1
    · exact dsw_false (hne n h1).2 hC (hne n h1).1
    · exact dsw_false (simpleI_dotFree (clsBodyJ_loads_simple_all body hb n h1)) hC (fun hc => hCb (hc ▸ h1))
  have hlow : ∀ n ∈ s.ne, ∃ m ∈ st5.missing, m.name = n := by
    intro n hn
    obtain ⟨m, hm, hmn⟩ := h.ne n hn
    exact ⟨m, hkeep0 m hm, hmn.2 rfl⟩
  match f with
  | 0 =>
    rw [execClass_low 0 (by omega)]
    exact ⟨fun n hn => .inl hn, hfin s (fun n hn => .inl hn) hlow, fun fl hfl => by cases hfl⟩
  | 1 =>
    rw [execClass_low 1 (by omega)]
    exact ⟨fun n hn => .inl hn, hfin s (fun n hn => .inl hn) hlow, fun fl hfl => by cases hfl⟩
  | f + 2 =>
    rw [execClass]
    obtain ⟨k1, k2, k3, k4⟩ := hK' (f + 1)
    cases hr : execStmts (f + 1) (ctxK (boundStmts body)) body (clsPush s) with
    | mk s2 r2 =>
      rw [hr] at k1 k2 k3 k4
      cases r2 with
      | error e =>
        simp only
        exact ⟨k2, hfin s2 k2 k3, fun fl hfl => by cases hfl⟩
      | ok fl0 =>
        simp only
        refine ⟨k2, hfin s2 k2 k3, fun fl hfl => ?_⟩
        obtain ⟨hc5, hp5⟩ := k4 fl0 rfl
        have hfl : fl = Flow.normal := by cases hfl; rfl
        have hunb8 : ∀ n, unboundA st8 n ↔ unboundA st n := by
          intro n
          unfold unboundA
          rw [s8a, d1, hM.wf]
          constructor
          · intro hu i hi; rw [← hcell i hi]; exact hu i hi
          · intro hu i hi; rw [hcell i hi]; exact hu i hi
        have htm8 : st8.stack.top ∈ normIds st8.stack.ids := by rw [s8a, d1]; exact h.topMem
        have htl8 : st8.stack.top < st8.heap.length := by rw [s8a, d1]; exact Nat.lt_trans h.topLt hlen8
        have hf8 : st8.inFunc = false := by rw [s8c, hms.inFunc]; exact hf4
        have hst9 : (storeTop st8 C).stack = st.stack := by show st8.stack = _; rw [s8a, d1]
        have htop8 : st8.stack.top = st.stack.top := by rw [s8a, d1]
        have hget9 : ∀ i ∈ M, ∀ n, ((storeTop st8 C).heap.get i).get n =
            if i = st.stack.top ∧ n = C then some Val.none else (st.heap.get i).get n := by
          intro i hi n
          rw [storeTop_get st8 htl8, htop8, hcell i (by rw [hids]; exact hi)]
        have hget95 : ∀ i, i ≠ st.stack.top → (storeTop st8 C).heap.get i = st5.heap.get i := by
          intro i hi
          simp only [storeTop, Heap.get_update, htop8]
          rw [if_neg (fun hc => hi hc.1), s8b]
        have htopM : st.stack.top ∈ M := by rw [← hids]; exact hok.topMem
        have hbmono : ∀ d, BoundIn st M d → BoundIn (storeTop st8 C) M d := by
          rintro d ⟨i, hi, w, hw⟩
          by_cases hc : i = st.stack.top ∧ d = C
          · exact ⟨i, hi, Val.none, by rw [hget9 i hi, if_pos hc]⟩
          · exact ⟨i, hi, w, by rw [hget9 i hi, if_neg hc]; exact hw⟩
        have hbC : BoundIn (storeTop st8 C) M C := ⟨st.stack.top, htopM, Val.none, by rw [hget9 _ htopM]; simp⟩
        have hb5 : ∀ d, BoundIn st5 M d → BoundIn (storeTop st8 C) M d := by
          rintro d ⟨i, hi, w, hw⟩
          by_cases hit : i = st.stack.top
          · by_cases hdC : d = C
            · rw [hdC]; exact hbC
            · refine ⟨i, hi, w, ?_⟩
              rw [storeTop_get st8 htl8, htop8, if_neg (fun hc => hdC hc.2), s8b]; exact hw
          · exact ⟨i, hi, w, by rw [hget95 i hit]; exact hw⟩
        have hlen9 : (storeTop st8 C).heap.length = st5.heap.length := by
          simp only [storeTop, Heap.length_update]; rw [s8b]
        refine ⟨hfl, ⟨fun n hn => ?_, ?_, fun n hn => ?_, hf8, ?_, ?_, fun hD => by cases hD⟩, ?_, ?_, ?_, ?_, hbC, hbmono, fun hpl hm0 => ?_⟩
        · rw [unboundA_store (st1 := st8) (st2 := storeTop st8 C) rfl rfl htm8 htl8, hunb8, ← h.names n hn]
          show (assocGet n (assocSet C _ s2.globals) = none ∧ s2.builtins.contains n = false) ↔ _
          rw [k1.globals, k1.builtins]
          unfold unboundX
          show (assocGet n (assocSet C _ s.globals) = none ∧ s.builtins.contains n = false) ↔ _
          by_cases hnC : n = C
          · subst hnC; simp [assocGet_assocSet_eq]
          · rw [assocGet_assocSet_ne hnC]; simp [hnC]
        · apply noStarA_store (st1 := st8) rfl rfl htl8 (simpleName_ne_star hC)
          have hs0 := h.noStar
          unfold noStarA hasStar at hs0 ⊢
          rw [List.any_eq_false] at hs0 ⊢
          intro i hi
          rw [s8a, d1] at hi
          rw [hcell i hi]; exact hs0 i hi
        · obtain ⟨m, hm, hmn⟩ := hfin s2 k2 k3 n hn
          have hdf : dotFree n = true := by
            rcases k2 n hn with h1 | h1
            · exact (hne n h1).2
            · exact simpleI_dotFree (clsBodyJ_loads_simple_all body hb n h1)
          exact ⟨m, hm, by rw [hmn]; exact headOf_dotFree hdf, fun _ => hmn⟩
        · rw [hst9]; exact h.topMem
        · rw [hst9]; show st.stack.top < (storeTop st8 C).heap.length
          simp only [storeTop, Heap.length_update]; exact Nat.lt_trans h.topLt hlen8
        · refine ⟨by rw [hst9]; exact hM.wf, fun i hi => ?_, fun i hi => ?_, by rw [hst9]; exact hM.noDelayed⟩
          · rw [hst9] at hi
            show i < (storeTop st8 C).heap.length
            simp only [storeTop, Heap.length_update]; exact Nat.lt_trans (hM.idsLt i hi) hlen8
          · rw [hst9] at hi
            simp only [storeTop, Heap.get_update]
            split
            · rename_i hc; rw [scope_set_isClass, ← hc.1, hcell i hi]; exact hM.noClass i hi
            · rw [hcell i hi]; exact hM.noClass i hi
        · refine ⟨by rw [hst9]; exact hok.wf, fun i hi => ?_, ?_, ?_, ?_⟩
          · rw [hst9] at hi
            show i < (storeTop st8 C).heap.length
            simp only [storeTop, Heap.length_update]; exact Nat.lt_trans (hok.idsLt i hi) hlen8
          · show 3 ≤ (storeTop st8 C).heap.length
            simp only [storeTop, Heap.length_update]; omega
          · simp only [storeTop, Heap.get_update]
            split
            · rename_i hc; rw [scope_set_isClass, ← hc.1, hcell 0 hok.mem0]; exact hok.nc0
            · rw [hcell 0 hok.mem0]; exact hok.nc0
          · simp only [storeTop, Heap.get_update]
            split
            · rename_i hc; rw [scope_set_isClass, ← hc.1, hcell 1 hok.mem1]; exact hok.nc1
            · rw [hcell 1 hok.mem1]; exact hok.nc1
        · rw [hst9]; exact hids
        · -- what is known about the closures, back at module level
          have hdel9 : (storeTop st8 C).heap.get delayedId = st5.heap.get delayedId :=
            hget95 _ (fun hc => hM.noDelayed (by rw [hc]; exact hok.topMem))
          refine ⟨hc5.cov.shape, fun ps bd hc d hd hnl => ?_, fun k v hv => ?_⟩
          · rcases hc5.cov.cov ps bd hc d hd hnl with h1 | h1 | ⟨e, he, hen, hme⟩
            · exact .inl (hb5 d h1)
            · simp only [List.mem_singleton] at h1; rw [h1]; exact .inl hbC
            · refine .inr (.inr ⟨e, by show e ∈ st8.deferred; rw [s8d]; exact he, hen, hme.1, fun i hi => ?_, hme.2.2⟩)
              refine (hme.2.1 i hi).imp id (fun h' => h'.imp id ?_)
              rintro ⟨p1, p2, p3, p4⟩
              have hiM : i ∉ M := fun hc' => p3 (by rw [hc5.ids]; exact List.mem_append_left _ hc')
              refine ⟨by rw [hlen9]; exact p1, p2, by rw [hst9, hids]; exact hiM, ?_⟩
              rw [hget95 i (fun hc' => hiM (hc' ▸ htopM))]; exact p4
          · rw [hdel9] at hv
            rcases hc5.cov.delB k v hv with h1 | h1
            · exact .inl (hb5 k h1)
            · simp only [List.mem_singleton] at h1; rw [h1]; exact .inl hbC
        · obtain ⟨p1, p2⟩ := hp5 hpl
          have hm5 : st5.missing = [] := by rw [p1]; show st1.missing = []; rw [d4]; exact hm0
          refine ⟨s8f hm5, fun hen => ?_⟩
          have := p2 (by
            intro e he
            have he' : e ∈ st.deferred := by rw [← d5]; exact he
            exact hen e he')
          intro e he
          have he' : e ∈ st5.deferred := by rw [← s8d]; exact he
          exact this e he'

/-! ### which recorded missing names survive the analysis of a class with methods -/

theorem all_loads_keeps (n : Str) : ∀ L : List Str, (L.map Op.load).all (opKeeps n) = true
  | [] => rfl
  | _ :: L => by simp only [List.map_cons, List.all_cons, opKeeps, Bool.true_and]; exact all_loads_keeps n L

theorem all_stores_keeps (n : Str) : ∀ L : List Str, (L.map Op.store).all (opKeeps n) = true
  | [] => rfl
  | _ :: L => by simp only [List.map_cons, List.all_cons, opKeeps, Bool.true_and]; exact all_stores_keeps n L

theorem cStmt_fbody_keeps (fx : Fixes) (n : Str) : ∀ (stmt : Stmt) (ln : Nat), fbodyStmt false stmt = true →
    (cStmt fx ln stmt).all (opKeeps n) = true
  | .expr e, ln, h => by
    simp only [cStmt, cExpr_loads fx false e (by simpa [fbodyStmt] using h)]; exact all_loads_keeps n _
  | .assign ts e, ln, h => by
    simp only [fbodyStmt, Bool.and_eq_true] at h
    cases hsn : singleName ts with
    | none => rw [hsn] at h; simp at h
    | some x =>
      have hts := singleName_eq hsn; subst hts
      simp only [cStmt, cExpr_loads fx false e h.2, List.all_append, all_loads_keeps, Bool.true_and, cTargets, cTarget,
        List.append_nil, List.all_cons, List.all_nil, opKeeps, Bool.and_true]
      rcases cAll_cases x e with h0 | ⟨_, ns, h1⟩
      · rw [h0]; rfl
      · rw [h1]; rfl
  | .pass, ln, _ => rfl
  | .return_ none, ln, _ => rfl
  | .return_ (some e), ln, h => by
    simp only [cStmt, cOptExpr, cExpr_loads fx false e (by simpa [fbodyStmt] using h)]; exact all_loads_keeps n _
  | .located l s, ln, h => by
    simp only [cStmt, List.all_cons, opKeeps, Bool.true_and]
    exact cStmt_fbody_keeps fx n s l (by simpa [fbodyStmt] using h)
  | .augAssign _ _, _, h => by simp [fbodyStmt] at h
  | .annAssign _ _ _, _, h => by simp [fbodyStmt] at h
  | .import_ _, _, h => by simp [fbodyStmt] at h
  | .importFrom _ _, _, h => by simp [fbodyStmt] at h
  | .funcDef _ _ _ _ _, _, h => by simp [fbodyStmt] at h
  | .classDef _ _ _ _, _, h => by simp [fbodyStmt] at h
  | .for_ _ _ _ _, _, h => by simp [fbodyStmt] at h
  | .while_ _ _ _, _, h => by simp [fbodyStmt] at h
  | .if_ _ _ _, _, h => by simp [fbodyStmt] at h
  | .with_ _ _, _, h => by simp [fbodyStmt] at h
  | .try_ _ _ _ _, _, h => by simp [fbodyStmt] at h
  | .raise_ _, _, h => by simp [fbodyStmt] at h
  | .delete _, _, h => by simp [fbodyStmt] at h
  | .global_ _, _, h => by simp [fbodyStmt] at h
  | .nonlocal_ _, _, h => by simp [fbodyStmt] at h

theorem cStmts_fbody_keeps (fx : Fixes) (n : Str) : ∀ (ss : List Stmt) (ln : Nat), ss.all (fbodyStmt false) = true →
    (cStmts fx ln ss).all (opKeeps n) = true
  | [], _, _ => rfl
  | s :: ss, ln, h => by
    simp only [List.all_cons, Bool.and_eq_true] at h
    simp only [cStmts, List.all_append, cStmt_fbody_keeps fx n s ln h.1, cStmts_fbody_keeps fx n ss ln h.2, Bool.and_self]

theorem cStmt_meth_keeps (fx : Fixes) (n : Str) : ∀ (stmt : Stmt) (ln : Nat), fragDef false stmt = true →
    (cStmt fx ln stmt).all (opKeeps n) = true
  | .located l s, ln, h => by
    simp only [cStmt, List.all_cons, opKeeps, Bool.true_and]
    exact cStmt_meth_keeps fx n s l (by simpa [fragDef] using h)
  | .funcDef name a body decos ret, ln, h => by
    obtain ⟨ps, rfl, rfl, rfl, _, hps, hb⟩ := fragDef_funcDef h
    simp only [cStmt, cDecos, cArgs, cRet, cExprs, cOptExprs, cParamAnns, cParamAnns_simple fx ps hps, ite_self,
      List.append_nil, List.nil_append, List.cons_append, List.append_assoc, cParams_simple fx ps hps, cParams,
      List.all_cons, List.all_append, List.all_nil, opKeeps, Bool.true_and, Bool.and_true, all_stores_keeps,
      cStmts_fbody_keeps fx n body ln hb]
  | .expr _, _, h => by simp [fragDef] at h
  | .assign _ _, _, h => by simp [fragDef] at h
  | .augAssign _ _, _, h => by simp [fragDef] at h
  | .annAssign _ _ _, _, h => by simp [fragDef] at h
  | .import_ _, _, h => by simp [fragDef] at h
  | .importFrom _ _, _, h => by simp [fragDef] at h
  | .classDef _ _ _ _, _, h => by simp [fragDef] at h
  | .for_ _ _ _ _, _, h => by simp [fragDef] at h
  | .while_ _ _ _, _, h => by simp [fragDef] at h
  | .if_ _ _ _, _, h => by simp [fragDef] at h
  | .with_ _ _, _, h => by simp [fragDef] at h
  | .try_ _ _ _ _, _, h => by simp [fragDef] at h
  | .return_ _, _, h => by simp [fragDef] at h
  | .pass, _, h => by simp [fragDef] at h
  | .raise_ _, _, h => by simp [fragDef] at h
  | .delete _, _, h => by simp [fragDef] at h
  | .global_ _, _, h => by simp [fragDef] at h
  | .nonlocal_ _, _, h => by simp [fragDef] at h

theorem cStmts_bodyJ_keeps (fx : Fixes) (n : Str) : ∀ (ss : List Stmt) (ln : Nat), ss.all clsBodyStmtJ = true →
    ∀ op ∈ cStmts fx ln ss, opKeeps n op = true
  | [], _, _, op, hop => by simp [cStmts] at hop
  | s :: ss, ln, h, op, hop => by
    simp only [List.all_cons, Bool.and_eq_true] at h
    simp only [cStmts, List.mem_append] at hop
    rcases hop with hop | hop
    · have h1 := h.1
      simp only [clsBodyStmtJ, Bool.or_eq_true] at h1
      rcases h1 with h1 | h1
      · exact opPlain_keeps (cStmt_plain fx s ln (clsBody_fragB s h1) op hop)
      · exact List.all_eq_true.mp (cStmt_meth_keeps fx n s ln h1) op hop
    · exact cStmts_bodyJ_keeps fx n ss ln h.2 op hop

/-- the visitor actions of a class statement keep every recorded missing name other than the name of the class -/
theorem cStmt_keepsCJ (fx : Fixes) (n : Str) (hn : dotFree n = true) : ∀ (stmt : Stmt) (ln : Nat), fragClassJ stmt = true →
    (∀ C, className stmt = some C → n ≠ C) → ∀ op ∈ cStmt fx ln stmt, opKeeps n op = true
  | .located l s, ln, h, hc, op, hop => by
    simp only [cStmt, List.mem_cons] at hop
    rcases hop with rfl | hop
    · rfl
    · exact cStmt_keepsCJ fx n hn s l (by simpa [fragClassJ] using h) (fun C hC => hc C (by simpa [className] using hC)) op hop
  | .classDef C [] body [], ln, h, hc, op, hop => by
    simp only [fragClassJ, Bool.and_eq_true] at h
    simp only [cStmt, cExprs, cDecos, List.nil_append, List.cons_append, List.mem_cons, List.mem_append,
      List.not_mem_nil, or_false] at hop
    rcases hop with rfl | rfl | rfl | rfl | hop | rfl | rfl | rfl | rfl
    · rfl
    · rfl
    · rfl
    · rfl
    · exact cStmts_bodyJ_keeps fx n body ln h.2 op hop
    · rfl
    · rfl
    · simp only [opKeeps, Bool.not_eq_true']
      exact dsw_false hn h.1 (hc C rfl)
    · rfl
  | .classDef _ (_ :: _) _ _, _, h, _, _, _ => by simp [fragClassJ] at h
  | .classDef _ [] _ (_ :: _), _, h, _, _, _ => by simp [fragClassJ] at h
  | .expr _, _, h, _, _, _ => by simp [fragClassJ] at h
  | .assign _ _, _, h, _, _, _ => by simp [fragClassJ] at h
  | .augAssign _ _, _, h, _, _, _ => by simp [fragClassJ] at h
  | .annAssign _ _ _, _, h, _, _, _ => by simp [fragClassJ] at h
  | .import_ _, _, h, _, _, _ => by simp [fragClassJ] at h
  | .importFrom _ _, _, h, _, _, _ => by simp [fragClassJ] at h
  | .funcDef _ _ _ _ _, _, h, _, _, _ => by simp [fragClassJ] at h
  | .for_ _ _ _ _, _, h, _, _, _ => by simp [fragClassJ] at h
  | .while_ _ _ _, _, h, _, _, _ => by simp [fragClassJ] at h
  | .if_ _ _ _, _, h, _, _, _ => by simp [fragClassJ] at h
  | .with_ _ _, _, h, _, _, _ => by simp [fragClassJ] at h
  | .try_ _ _ _ _, _, h, _, _, _ => by simp [fragClassJ] at h
  | .return_ _, _, h, _, _, _ => by simp [fragClassJ] at h
  | .pass, _, h, _, _, _ => by simp [fragClassJ] at h
  | .raise_ _, _, h, _, _, _ => by simp [fragClassJ] at h
  | .delete _, _, h, _, _, _ => by simp [fragClassJ] at h
  | .global_ _, _, h, _, _, _ => by simp [fragClassJ] at h
  | .nonlocal_ _, _, h, _, _, _ => by simp [fragClassJ] at h

theorem cStmt_keepsJ (fx : Fixes) (n : Str) (hn : dotFree n = true) (stmt : Stmt) (ln : Nat) (h : fragJStmt stmt = true)
    (hc : ∀ C, className stmt = some C → n ≠ C) : ∀ op ∈ cStmt fx ln stmt, opKeeps n op = true := by
  simp only [fragJStmt, Bool.or_eq_true] at h
  rcases h with h | h
  · exact fun op hop => opPlain_keeps (cStmt_plain fx stmt ln h op hop)
  · exact cStmt_keepsCJ fx n hn stmt ln h hc

theorem cStmts_keepsJ (fx : Fixes) (n : Str) (hn : dotFree n = true) : ∀ (ss : List Stmt) (ln : Nat) (R : List Str),
    fragJ ss = true → selfFree R ss = true → n ∈ R → ∀ op ∈ cStmts fx ln ss, opKeeps n op = true
  | [], _, _, _, _, _, op, hop => by simp [cStmts] at hop
  | s :: ss, ln, R, hfr, hsf, hnR, op, hop => by
    simp only [fragJ, List.all_cons, Bool.and_eq_true] at hfr
    obtain ⟨hs1, hs2⟩ := selfFree_cons hsf
    simp only [cStmts, List.mem_append] at hop
    rcases hop with hop | hop
    · exact cStmt_keepsJ fx n hn s ln hfr.1 (fun C hC hc => hs1 C hC (hc ▸ List.mem_append_left _ hnR)) op hop
    · exact cStmts_keepsJ fx n hn ss ln (R ++ loadsI s) (by simpa [fragJ] using hfr.2) hs2 (List.mem_append_left _ hnR) op hop

theorem className_fragB' : ∀ s : Stmt, fragBStmt false s = true → className s = none
  | .located _ s, h => by simp only [className]; exact className_fragB' s (by simpa [fragBStmt] using h)
  | .classDef _ _ _ _, h => by simp [fragBStmt] at h
  | .expr _, _ => rfl
  | .assign _ _, _ => rfl
  | .augAssign _ _, _ => rfl
  | .annAssign _ _ _, _ => rfl
  | .import_ _, _ => rfl
  | .importFrom _ _, _ => rfl
  | .funcDef _ _ _ _ _, _ => rfl
  | .for_ _ _ _ _, _ => rfl
  | .while_ _ _ _, _ => rfl
  | .if_ _ _ _, _ => rfl
  | .with_ _ _, _ => rfl
  | .try_ _ _ _ _, _ => rfl
  | .return_ _, _ => rfl
  | .pass, _ => rfl
  | .raise_ _, _ => rfl
  | .delete _, _ => rfl
  | .global_ _, _ => rfl
  | .nonlocal_ _, _ => rfl

theorem fragClassJ_loads_simple : ∀ stmt : Stmt, fragClassJ stmt = true → ∀ d ∈ loadsI stmt, simpleName d = true
  | .located _ s, h, d, hd => fragClassJ_loads_simple s (by simpa [fragClassJ] using h) d (by simpa [loadsI] using hd)
  | .classDef C [] body [], h, d, hd => by
    simp only [fragClassJ, Bool.and_eq_true] at h
    exact clsBodyJ_loads_simple_all body h.2 d (by simpa [loadsI] using hd)
  | .classDef _ (_ :: _) _ _, h, _, _ => by simp [fragClassJ] at h
  | .classDef _ [] _ (_ :: _), h, _, _ => by simp [fragClassJ] at h
  | .expr _, h, _, _ => by simp [fragClassJ] at h
  | .assign _ _, h, _, _ => by simp [fragClassJ] at h
  | .augAssign _ _, h, _, _ => by simp [fragClassJ] at h
  | .annAssign _ _ _, h, _, _ => by simp [fragClassJ] at h
  | .import_ _, h, _, _ => by simp [fragClassJ] at h
  | .importFrom _ _, h, _, _ => by simp [fragClassJ] at h
  | .funcDef _ _ _ _ _, h, _, _ => by simp [fragClassJ] at h
  | .for_ _ _ _ _, h, _, _ => by simp [fragClassJ] at h
  | .while_ _ _ _, h, _, _ => by simp [fragClassJ] at h
  | .if_ _ _ _, h, _, _ => by simp [fragClassJ] at h
  | .with_ _ _, h, _, _ => by simp [fragClassJ] at h
  | .try_ _ _ _ _, h, _, _ => by simp [fragClassJ] at h
  | .return_ _, h, _, _ => by simp [fragClassJ] at h
  | .pass, h, _, _ => by simp [fragClassJ] at h
  | .raise_ _, h, _, _ => by simp [fragClassJ] at h
  | .delete _, h, _, _ => by simp [fragClassJ] at h
  | .global_ _, h, _, _ => by simp [fragClassJ] at h
  | .nonlocal_ _, h, _, _ => by simp [fragClassJ] at h

theorem fragJ_loads_simple {stmt : Stmt} (h : fragJStmt stmt = true) : ∀ d ∈ loadsI stmt, simpleName d = true := by
  simp only [fragJStmt, Bool.or_eq_true] at h
  rcases h with h | h
  · exact fragB_loads_simple stmt h
  · exact fragClassJ_loads_simple stmt h


/-! ### the module-level invariant of fragment J -/

/-- `M` = the module-level scopes, `R` = the names read so far (outside method bodies), `B` = the classes defined so far -/
structure CorrJ (M : List Nat) (R B : List Str) (s : XState) (st : AState) : Prop where
  corr : Corr false s st
  mod : ModI st
  ok : StkOK st
  ids : st.stack.ids = M
  ne : ∀ n ∈ s.ne, n ∈ R
  cov : CovJ M [] s st
  cls : ∀ C ∈ B, BoundIn st M C

def clsNameL (stmt : Stmt) : List Str := match className stmt with | some C => [C] | none => []

/-- one module-level statement of fragment J, reference semantics and analysis in lock step -/
def StepJ (fx : Fixes) (reg : Registry) (M : List Nat) (ln f : Nat) (stmt : Stmt) (R B : List Str) (s : XState) (st : AState) : Prop :=
  (∀ n ∈ (execStmt f {} stmt s).1.ne, n ∈ R ++ loadsI stmt) ∧
  (∀ n ∈ (execStmt f {} stmt s).1.ne, ∃ m ∈ (runOps reg st (cStmt fx ln stmt)).missing, m.name = n) ∧
  (∀ fl, (execStmt f {} stmt s).2 = .ok fl → fl = Flow.normal ∧
    CorrJ M (R ++ loadsI stmt) (B ++ clsNameL stmt) (execStmt f {} stmt s).1 (runOps reg st (cStmt fx ln stmt)) ∧
    (plainStmtI stmt = true → st.missing = [] →
      (runOps reg st (cStmt fx ln stmt)).missing = [] ∧
      (EntsJ M s st → EntsJ M (execStmt f {} stmt s).1 (runOps reg st (cStmt fx ln stmt)))))

theorem CorrJ.toI {M : List Nat} {R B : List Str} {s : XState} {st : AState} (h : CorrJ M R B s st) : CorrI R s st :=
  ⟨h.corr, h.mod, h.ne⟩

theorem CorrJ.hdt {M : List Nat} {R B : List Str} {s : XState} {st : AState} (h : CorrJ M R B s st) :
    delayedId ≠ st.stack.top := fun hc => h.mod.noDelayed (by rw [hc]; exact h.ok.topMem)

theorem stmtJ_B (fx : Fixes) (reg : Registry) (M : List Nat) (stmt : Stmt) (f : Nat) (s : XState) (st : AState) (ln : Nat)
    (R B : List Str) (hfr : fragBStmt false stmt = true) (h : CorrJ M R B s st) : StepJ fx reg M ln f stmt R B s st := by
  obtain ⟨k1, k2, k3⟩ := stmtI_B fx reg stmt f s st ln R hfr h.toI
  have hms := modStep_stmtB fx reg false stmt ln st hfr h.corr.inFunc h.corr.topLt
  have hMlt : ∀ i ∈ M, i < st.heap.length := fun i hi => h.ok.idsLt i (by rw [h.ids]; exact hi)
  refine ⟨k1, k2, fun fl hfl => ?_⟩
  obtain ⟨q1, q2, q3⟩ := k3 fl hfl
  have hfun := funcs_stmtB false stmt f s hfr fl hfl
  have hcn : clsNameL stmt = [] := by unfold clsNameL; rw [className_fragB' stmt hfr]
  refine ⟨q1, ⟨q2.corr, q2.mod, h.ok.step hms, by rw [hms.stack]; exact h.ids, q2.ne,
    h.cov.step hms hfun hMlt h.ok.topMem h.hdt h.ok.len3, ?_⟩, fun hp hm0 => ?_⟩
  · rw [hcn, List.append_nil]
    exact fun C hC => (h.cls C hC).step hms hMlt
  · obtain ⟨p1, p2⟩ := q3 hp hm0
    refine ⟨p1, fun hen e he => ?_⟩
    rw [p2] at he
    obtain ⟨e1, ps, body, e2, e3⟩ := hen e he
    exact ⟨e1, ps, body, by rw [hfun]; exact e2, e3⟩

theorem CorrJ.line {M : List Nat} {R B : List Str} {s : XState} {st : AState} (h : CorrJ M R B s st) (l : Nat) :
    CorrJ M R B { s with line := l } { st with line := l } :=
  ⟨(h.corr.line l).setLine l, h.mod.setLine l, ⟨h.ok.wf, h.ok.idsLt, h.ok.len3, h.ok.nc0, h.ok.nc1⟩, h.ids, h.ne,
   ⟨h.cov.shape, h.cov.cov, h.cov.delB⟩, h.cls⟩

theorem stmtJ_C (fx : Fixes) (reg : Registry) (M : List Nat) : ∀ (stmt : Stmt) (f : Nat) (s : XState) (st : AState) (ln : Nat)
    (R B : List Str), fragClassJ stmt = true → (∀ n ∈ R, simpleName n = true) →
    (∀ C, className stmt = some C → C ∉ R ++ loadsI stmt) → CorrJ M R B s st → StepJ fx reg M ln f stmt R B s st
  | .located l s', 0, s, st, ln, R, B, hfr, hR, hC, h => by
    have := stmtJ_C fx reg M s' 0 { s with line := l } { st with line := l } l R B (by simpa [fragClassJ] using hfr) hR
      (fun C hc => by simpa [loadsI] using hC C (by simpa [className] using hc)) (h.line l)
    unfold StepJ at this ⊢
    obtain ⟨a, b, _⟩ := this
    rw [execStmt]
    simp only [cStmt, runOps_setLine, loadsI]
    refine ⟨fun n hn => List.mem_append_left _ (h.ne n hn), fun n hn => ?_, fun fl hfl => by cases hfl⟩
    apply b n
    cases s' <;> (rw [execStmt]; exact hn)
  | .located l s', f + 1, s, st, ln, R, B, hfr, hR, hC, h => by
    have := stmtJ_C fx reg M s' f { s with line := l } { st with line := l } l R B (by simpa [fragClassJ] using hfr) hR
      (fun C hc => by simpa [loadsI] using hC C (by simpa [className] using hc)) (h.line l)
    unfold StepJ at this ⊢
    simp only [execStmt, cStmt, runOps_setLine, X.bind_def, X.modify, loadsI, plainStmtI]
    have hcn : clsNameL (.located l s') = clsNameL s' := rfl
    rw [hcn]
    exact this
  | .classDef C [] body [], f, s, st, ln, R, B, hfr, hR, hC, h => by
    simp only [fragClassJ, Bool.and_eq_true] at hfr
    have hCR := hC C rfl
    simp only [loadsI, List.mem_append, not_or] at hCR
    obtain ⟨k1, k2, k3⟩ := classJ fx reg C body f s st ln M hfr.1 hfr.2 hCR.2 h.corr h.mod h.ok h.ids h.cov
      (fun n hn => ⟨fun hc => hCR.1 (hc ▸ h.ne n hn), simpleI_dotFree (hR n (h.ne n hn))⟩)
    have hsub : ∀ n ∈ (execStmt f {} (.classDef C [] body []) s).1.ne, n ∈ R ++ loadsIs body := by
      intro n hn
      rcases k1 n hn with h0 | h0
      · exact List.mem_append_left _ (h.ne n h0)
      · exact List.mem_append_right _ h0
    unfold StepJ
    simp only [loadsI, plainStmtI]
    refine ⟨hsub, k2, fun fl hfl => ?_⟩
    obtain ⟨a, b, c, d, e, g, hbC, hbm, hpl⟩ := k3 fl hfl
    refine ⟨a, ⟨b, c, d, e, hsub, g, fun C' hC' => ?_⟩, fun hp hm0 => hpl hp hm0⟩
    rcases List.mem_append.mp hC' with hC' | hC'
    · exact hbm C' (h.cls C' hC')
    · have : C' = C := by simpa [clsNameL, className] using hC'
      rw [this]; exact hbC
  | .classDef _ (_ :: _) _ _, _, _, _, _, _, _, h, _, _, _ => by simp [fragClassJ] at h
  | .classDef _ [] _ (_ :: _), _, _, _, _, _, _, h, _, _, _ => by simp [fragClassJ] at h
  | .expr _, _, _, _, _, _, _, h, _, _, _ => by simp [fragClassJ] at h
  | .assign _ _, _, _, _, _, _, _, h, _, _, _ => by simp [fragClassJ] at h
  | .augAssign _ _, _, _, _, _, _, _, h, _, _, _ => by simp [fragClassJ] at h
  | .annAssign _ _ _, _, _, _, _, _, _, h, _, _, _ => by simp [fragClassJ] at h
  | .import_ _, _, _, _, _, _, _, h, _, _, _ => by simp [fragClassJ] at h
  | .importFrom _ _, _, _, _, _, _, _, h, _, _, _ => by simp [fragClassJ] at h
  | .funcDef _ _ _ _ _, _, _, _, _, _, _, h, _, _, _ => by simp [fragClassJ] at h
  | .for_ _ _ _ _, _, _, _, _, _, _, h, _, _, _ => by simp [fragClassJ] at h
  | .while_ _ _ _, _, _, _, _, _, _, h, _, _, _ => by simp [fragClassJ] at h
  | .if_ _ _ _, _, _, _, _, _, _, h, _, _, _ => by simp [fragClassJ] at h
  | .with_ _ _, _, _, _, _, _, _, h, _, _, _ => by simp [fragClassJ] at h
  | .try_ _ _ _ _, _, _, _, _, _, _, h, _, _, _ => by simp [fragClassJ] at h
  | .return_ _, _, _, _, _, _, _, h, _, _, _ => by simp [fragClassJ] at h
  | .pass, _, _, _, _, _, _, h, _, _, _ => by simp [fragClassJ] at h
  | .raise_ _, _, _, _, _, _, _, h, _, _, _ => by simp [fragClassJ] at h
  | .delete _, _, _, _, _, _, _, h, _, _, _ => by simp [fragClassJ] at h
  | .global_ _, _, _, _, _, _, _, h, _, _, _ => by simp [fragClassJ] at h
  | .nonlocal_ _, _, _, _, _, _, _, h, _, _, _ => by simp [fragClassJ] at h

theorem stmtJ (fx : Fixes) (reg : Registry) (M : List Nat) (stmt : Stmt) (f : Nat) (s : XState) (st : AState) (ln : Nat)
    (R B : List Str) (hfr : fragJStmt stmt = true) (hR : ∀ n ∈ R, simpleName n = true)
    (hC : ∀ C, className stmt = some C → C ∉ R ++ loadsI stmt) (h : CorrJ M R B s st) : StepJ fx reg M ln f stmt R B s st := by
  simp only [fragJStmt, Bool.or_eq_true] at hfr
  rcases hfr with hfr | hfr
  · exact stmtJ_B fx reg M stmt f s st ln R B hfr h
  · exact stmtJ_C fx reg M stmt f s st ln R B hfr hR hC h

theorem classNames_cons (s : Stmt) (r : List Stmt) : classNames (s :: r) = clsNameL s ++ classNames r := rfl

/-- the module-level statements of a program of fragment J -/
theorem stmtsJ (fx : Fixes) (reg : Registry) (M : List Nat) : ∀ (ss : List Stmt) (f : Nat) (s : XState) (st : AState) (ln : Nat)
    (R B : List Str), fragJ ss = true → selfFree R ss = true → (∀ n ∈ R, simpleName n = true) → CorrJ M R B s st →
    (∀ n ∈ (execStmts f {} ss s).1.ne, ∃ m ∈ (runOps reg st (cStmts fx ln ss)).missing, m.name = n) ∧
    (∀ fl, (execStmts f {} ss s).2 = .ok fl →
      (∃ R', CorrJ M R' (B ++ classNames ss) (execStmts f {} ss s).1 (runOps reg st (cStmts fx ln ss))) ∧
      (ss.all plainStmtI = true → st.missing = [] →
        (runOps reg st (cStmts fx ln ss)).missing = [] ∧
        (EntsJ M s st → EntsJ M (execStmts f {} ss s).1 (runOps reg st (cStmts fx ln ss)))))
  | ss, 0, s, st, ln, R, B, hfr, hsf, hR, h => by
    rw [execStmts]
    refine ⟨fun n hn => ?_, fun fl hfl => by cases hfl⟩
    obtain ⟨m, hm, hmn⟩ := h.corr.ne n hn
    have hnR := h.ne n hn
    exact ⟨m, runOps_keeps reg n _ st (cStmts_keepsJ fx n (simpleI_dotFree (hR n hnR)) ss ln R hfr hsf hnR) m hm (hmn.2 rfl),
      hmn.2 rfl⟩
  | [], f + 1, s, st, ln, R, B, _, _, _, h => by
    simp only [execStmts, cStmts, X.pure_def, classNames, List.append_nil]
    refine ⟨fun n hn => ?_, fun _ _ => ⟨⟨R, h⟩, fun _ hm => ⟨hm, fun he => he⟩⟩⟩
    obtain ⟨m, hm, hmn⟩ := h.corr.ne n hn
    exact ⟨m, hm, hmn.2 rfl⟩
  | stmt :: ss, f + 1, s, st, ln, R, B, hfr, hsf, hR, h => by
    simp only [fragJ, List.all_cons, Bool.and_eq_true] at hfr
    have hfr2 : fragJ ss = true := by simpa [fragJ] using hfr.2
    obtain ⟨hs1, hs2⟩ := selfFree_cons hsf
    have hR' : ∀ n ∈ R ++ loadsI stmt, simpleName n = true := by
      intro n hn
      rcases List.mem_append.mp hn with hn | hn
      · exact hR n hn
      · exact fragJ_loads_simple hfr.1 n hn
    obtain ⟨k1, k2, k3⟩ := stmtJ fx reg M stmt f s st ln R B hfr.1 hR hs1 h
    simp only [execStmts, cStmts, runOps_append, X.bind_def]
    cases hr : execStmt f {} stmt s with
    | mk s' r =>
      rw [hr] at k1 k2 k3
      cases r with
      | error x =>
        simp only
        refine ⟨fun n hn => ?_, fun fl hfl => by cases hfl⟩
        obtain ⟨m, hm, hmn⟩ := k2 n hn
        have hnR := k1 n hn
        exact ⟨m, runOps_keeps reg n _ _ (cStmts_keepsJ fx n (simpleI_dotFree (hR' n hnR)) ss ln _ hfr2 hs2 hnR) m hm hmn, hmn⟩
      | ok fl0 =>
        obtain ⟨hfl0, hc, hp⟩ := k3 fl0 rfl
        subst hfl0
        simp only
        obtain ⟨r1, r2⟩ := stmtsJ fx reg M ss f s' _ ln _ _ hfr2 hs2 hR' hc
        refine ⟨r1, fun fl hfl => ?_⟩
        obtain ⟨⟨R', q1⟩, q2⟩ := r2 fl hfl
        refine ⟨⟨R', by rw [classNames_cons, ← List.append_assoc]; exact q1⟩, fun hall hm0 => ?_⟩
        simp only [List.all_cons, Bool.and_eq_true] at hall
        obtain ⟨p1, p2⟩ := hp hall.1 hm0
        obtain ⟨p3, p4⟩ := q2 hall.2 p1
        exact ⟨p3, fun he => p4 (p2 he)⟩


/-! ### the deferred entries of method bodies when the deferred checks run -/

theorem simple_good {d : Str} (h : simpleName d = true) : goodDotted d = true := by
  simp [goodDotted, simpleName_split h, h]

/-- an entry of a finished method body whose name is bound nowhere at module level, is no local of the method and not
    `__class__`, needs import on the current heap -/
theorem ment_pend (reg : Registry) {st : AState} {M : List Nat} {A : List Str} {e : Deferred} {d : Str}
    (hok : StkOK st) (hids : st.stack.ids = M) (hns : noStarA st) (hme : MEnt st M A e) (hen : e.name = d)
    (hd : simpleName d = true) (hnA : d ∉ A) (hu : unboundA st d)
    (hdel : ∀ k v, (st.heap.get delayedId).get k = some v → BoundIn st M k) :
    (symbolNeedsImport reg st.heap e.ids e.name).1 = true ∧ hasStar st.heap e.ids = false := by
  obtain ⟨_, h2, h3⟩ := hme
  have hM : ∀ i ∈ M, i ∈ normIds st.stack.ids := fun i hi => by rw [hok.wf, hids]; exact hi
  have hnb : ∀ k, BoundIn st M k → ¬ unboundA st k := by
    rintro k ⟨i, hi, w, hw⟩ hu'
    rw [hu' i (hM i hi)] at hw; cases hw
  let st2 : AState := { st with stack := { ids := e.ids } }
  have hu2 : unboundA st2 (headOf d) := by
    rw [headOf_simple hd]
    intro i hi
    rcases h2 i hi with h0 | h0 | h0
    · exact hu i (hM i h0)
    · cases hg : (st.heap.get i).get d with
      | none => rfl
      | some v => rw [h0] at hg; exact absurd hu (hnb d (hdel d v hg))
    · cases hg : (st.heap.get i).get d with
      | none => rfl
      | some v => exact absurd (h0.2.2.2 d v hg) hnA
  have hdf : dotFree d = true := simpleI_dotFree hd
  refine ⟨by rw [hen]; exact sni_unbound reg st2 (simple_good hd) hu2 (fun hc => by rw [hdf] at hc; cases hc), ?_⟩
  unfold noStarA hasStar at hns
  unfold hasStar
  rw [List.any_eq_false] at hns ⊢
  intro i hi
  have hi' : i ∈ normIds e.ids := mem_normIds_iff.mpr (.inr (.inr hi))
  have hstar : ¬ BoundIn st M ['*'] := by
    rintro ⟨j, hj, w, hw⟩
    have := hns j (by rw [hids]; exact hj)
    rw [hw] at this; simp at this
  rcases h2 i hi' with h0 | h0 | h0
  · exact hns i (by rw [hids]; exact h0)
  · cases hg : (st.heap.get i).get ['*'] with
    | none => simp
    | some v => rw [h0] at hg; exact absurd (hdel _ v hg) hstar
  · cases hg : (st.heap.get i).get ['*'] with
    | none => simp
    | some v => exact absurd (h0.2.2.2 _ v hg) h3

/-- an entry that sees the module-level scopes and needs import on the current heap has a name that is bound nowhere at
    module level -/
theorem ment_unbound (reg : Registry) {st : AState} {M : List Nat} {e : Deferred} (hok : StkOK st) (hids : st.stack.ids = M)
    (hsup : ∀ i ∈ M, i ∈ normIds e.ids) (hd : simpleName e.name = true)
    (hs : (symbolNeedsImport reg st.heap e.ids e.name).1 = true) : unboundA st e.name := by
  apply Classical.byContradiction
  intro hnu
  obtain ⟨i, hi, w, hw⟩ := not_unboundA.mp hnu
  rw [hok.wf, hids] at hi
  let st2 : AState := { st with stack := { ids := e.ids } }
  have hb2 : ¬ unboundA st2 (headOf e.name) := by
    rw [headOf_simple hd]
    intro hu
    have := hu i (hsup i hi)
    change (st.heap.get i).get e.name = none at this
    rw [hw] at this; cases this
  have hdf : dotFree e.name = true := simpleI_dotFree hd
  have := sni_bound reg st2 (simple_good hd) hb2 (fun hc => by rw [hdf] at hc; cases hc)
  change (symbolNeedsImport reg st.heap e.ids e.name).1 = false at this
  rw [this] at hs; cases hs

theorem bodyLoads_simple {body : List Stmt} (hb : body.all (fbodyStmt false) = true) : ∀ d ∈ bodyLoads body, simpleName d = true := by
  intro d hd
  obtain ⟨g1, g2⟩ := bodyLoads_good false body hb d hd
  have hs : splitDots d = [d] := splitDots_simple (by simpa [dotFree] using g2 rfl)
  simpa [goodDotted, hs] using g1

/-! ### initial state -/

theorem corrJ_init (builtins : Scope) (ns : List Scope) (s0 : XState) (h : Agree builtins ns s0)
    (hb : builtins.isClass = false) (hf : s0.funcs = []) :
    CorrJ (initState builtins ns).stack.ids [] [] s0 (initState builtins ns) := by
  have hI := corrI_init builtins ns s0 h hb
  have hok := (modOK_init builtins ns h.noClass hb).inv.ok
  refine ⟨hI.corr, hI.mod, ⟨hok.wf, hok.idsLt, hok.len3, hb, rfl⟩, rfl, hI.ne, ⟨?_, ?_, ?_⟩, fun C hC => by cases hC⟩
  · intro c hc; rw [hf] at hc; cases hc
  · intro ps body hc; rw [hf] at hc; cases hc
  · intro k v hv
    have : (initState builtins ns).heap.get delayedId = {} := rfl
    rw [this] at hv; simp [Scope.get, assocGet] at hv

theorem entsJ_init (M : List Nat) (builtins : Scope) (ns : List Scope) (s0 : XState) : EntsJ M s0 (initState builtins ns) := by
  intro e he; simp [initState] at he

/-! ### the trailing method calls -/

theorem CorrJ.callAna {M : List Nat} {R B : List Str} {s s' : XState} {st st' : AState} (h : CorrJ M R B s st)
    (ha : CallAna st st') (hs : SameGlob s s') (hne : s'.ne = s.ne) : CorrJ M R B s' st' := by
  have hst := ha.step
  have hMlt : ∀ i ∈ M, i < st.heap.length := fun i hi => h.ok.idsLt i (by rw [h.ids]; exact hi)
  refine ⟨?_, h.mod.step hst, h.ok.step hst, by rw [ha.stack]; exact h.ids, by rw [hne]; exact h.ne,
    h.cov.step hst hs.funcs hMlt h.ok.topMem h.hdt h.ok.len3, fun C hC => (h.cls C hC).step hst hMlt⟩
  have hc := h.corr.glob hs hne
  refine ⟨?_, ?_, ?_, by rw [ha.inFunc]; exact hc.inFunc, by rw [ha.stack]; exact hc.topMem,
    by rw [ha.stack, ha.heap]; exact hc.topLt, fun hD => by cases hD⟩
  · intro n hn; rw [hc.names n hn]; unfold unboundA; rw [ha.heap, ha.stack]
  · unfold noStarA; rw [ha.heap, ha.stack]; exact hc.noStar
  · intro n hn; obtain ⟨m, hm, hmn⟩ := hc.ne n hn; exact ⟨m, ha.mono m hm, hmn⟩

/-- a global read by a method body that is unbound when the calls run waits in the deferred list -/
theorem call_pendJ (reg : Registry) {M : List Nat} {R B : List Str} {s : XState} {st : AState} (h : CorrJ M R B s st) {n : Str}
    (hp : CallP s n) (hu : unboundX s n) (hnd : n ≠ dunderCls) : Pend false reg st n := by
  obtain ⟨ps, body, hmem, hhead, hnl⟩ := hp
  obtain ⟨ps0, body0, hceq, hb0⟩ := h.cov.shape _ hmem
  have hb : body.all (fbodyStmt false) = true := by rw [(defClosure_inj hceq).2]; exact hb0
  simp only [List.mem_map] at hhead
  obtain ⟨d, hd, rfl⟩ := hhead
  have hds := bodyLoads_simple hb d hd
  rw [headOf_simple hds] at hu hnl hnd ⊢
  have hua : unboundA st d := (h.corr.names d hds).mp hu
  have hnA : d ∉ dunderCls :: paramNames ps ++ boundStmts body := by
    intro hc
    rcases List.mem_cons.mp hc with hc | hc
    · exact hnd hc
    · exact hnl hc
  have hM : ∀ i ∈ M, i ∈ normIds st.stack.ids := fun i hi => by rw [h.ok.wf, h.ids]; exact hi
  have hnb : ∀ k, BoundIn st M k → ¬ unboundA st k := by
    rintro k ⟨i, hi, w, hw⟩ hu'
    rw [hu' i (hM i hi)] at hw; cases hw
  rcases h.cov.cov ps body hmem d hd hnA with h1 | h1 | ⟨e, he, hen, hme⟩
  · exact absurd hua (hnb d h1)
  · cases h1
  · obtain ⟨p1, p2⟩ := ment_pend reg h.ok h.ids h.corr.noStar hme hen hds hnA hua
      (fun k v hv => (h.cov.delB k v hv).resolve_right (fun hc => by cases hc))
    exact ⟨e, he, by rw [hen, headOf_simple hds], fun _ => hen, p1, p2⟩

theorem cStmt_callJ (fx : Fixes) (ln : Nat) (C m : Str) (args : List Expr) (hargs : fragBExprs false args = true) :
    cStmt fx ln (.expr (.call (.attr (.name C) m) args)) = (joinDots [C, m] :: loadsOfs args).map Op.load := by
  simp [cStmt, cExpr, Expr.dotted, cExprs_loads fx false args hargs]

theorem callJ_core (fx : Fixes) (reg : Registry) (M : List Nat) (C m : Str) (args : List Expr) (f : Nat) (s : XState)
    (st : AState) (ln : Nat) (R B : List Str) (hCB : C ∈ B) (hC : simpleName C = true)
    (hargs : fragBExprs false args = true) (h : CorrJ M R B s st) :
    CallAna st (runOps reg st (cStmt fx ln (.expr (.call (.attr (.name C) m) args)))) ∧
    (∀ n ∈ (execStmt f {} (.expr (.call (.attr (.name C) m) args)) s).1.ne, n ≠ dunderCls →
      Cover false reg (runOps reg st (cStmt fx ln (.expr (.call (.attr (.name C) m) args)))) n) ∧
    (∀ fl, (execStmt f {} (.expr (.call (.attr (.name C) m) args)) s).2 = .ok fl → fl = Flow.normal ∧
      CorrJ M R B (execStmt f {} (.expr (.call (.attr (.name C) m) args)) s).1
        (runOps reg st (cStmt fx ln (.expr (.call (.attr (.name C) m) args))))) := by
  rw [cStmt_callJ fx ln C m args hargs]
  have hA : AnaL reg st (runOps reg st ((joinDots [C, m] :: loadsOfs args).map Op.load)) (joinDots [C, m] :: loadsOfs args) :=
    anaL_loads reg _ st h.corr.inFunc
  have ha : CallAna st (runOps reg st ((joinDots [C, m] :: loadsOfs args).map Op.load)) :=
    hA.callAna (runOps_loads_inClass reg _ st h.corr.inFunc)
  have hold : ∀ (s' : XState), s'.ne = s.ne → ∀ n ∈ s'.ne, Cover false reg (runOps reg st ((joinDots [C, m] :: loadsOfs args).map Op.load)) n := by
    intro s' hne n hn
    rw [hne] at hn
    obtain ⟨m', hm, hmn⟩ := h.corr.ne n hn
    exact .inl ⟨m', ha.mono m' hm, hmn⟩
  have hCbound : ¬ unboundX s C := by
    intro hu
    obtain ⟨i, hi, w, hw⟩ := h.cls C hCB
    have := (h.corr.names C hC).mp hu i (by rw [h.ok.wf, h.ids]; exact hi)
    rw [this] at hw; cases hw
  refine ⟨ha, ?_⟩
  match f with
  | 0 =>
    rw [execStmt]
    exact ⟨fun n hn _ => hold s rfl n hn, fun fl hfl => by cases hfl⟩
  | 1 =>
    simp only [execStmt, evalExpr, X.bind_def, X.throw]
    exact ⟨fun n hn _ => hold s rfl n hn, fun fl hfl => by cases hfl⟩
  | f + 2 =>
    let pre : X (RVal × List RVal) :=
      evalExpr f {} (.attr (.name C) m) >>= fun fv => evalExprs f {} args >>= fun avs => (Pure.pure (fv, avs) : X (RVal × List RVal))
    have hpre : EvalB {} s (C :: (loadsOfs args).map headOf) (true && (noIfExprs args && true)) (pre s) := by
      have h1 := evalChain {} (by simp [CtxOK]) (.attr (.name C) m) C rfl f s
      have := EvalB.bind h1 (fun fv s1 _ => EvalB.bind ((evalB {} (by simp [CtxOK]) false f).2 args s1 hargs)
        (fun avs s2 _ => EvalB.pure {} s2 (fv, avs)))
      simpa [headsOfs] using this
    have hex : execStmt (f + 2) {} (.expr (.call (.attr (.name C) m) args)) s =
        (pre >>= fun p => callVal f p.1 p.2 >>= fun _ => (Pure.pure Flow.normal : X Flow)) s := by
      simp only [execStmt, evalExpr, X.bind_def, pre, X.pure_def]
      cases evalExpr f {} (.attr (.name C) m) s with
      | mk s1 r1 =>
        cases r1 with
        | error x => rfl
        | ok fv =>
          simp only
          cases evalExprs f {} args s1 with
          | mk s2 r2 =>
            cases r2 with
            | error x => rfl
            | ok avs => rfl
    rw [hex, X.bind_def]
    -- NameErrors of the callee expression and of the arguments
    have hcov : ∀ n ∈ (pre s).1.ne, ∃ m' ∈ (runOps reg st ((joinDots [C, m] :: loadsOfs args).map Op.load)).missing,
        headOf m'.name = n ∧ (false = false → m'.name = n) := by
      intro n hn
      cases hr : (pre s).2 with
      | ok v =>
        rw [(hpre.ok v hr).1] at hn
        obtain ⟨m', hm, hmn⟩ := h.corr.ne n hn
        exact ⟨m', hA.mono m' hm, hmn⟩
      | error x =>
        rcases hpre.err x hr with ⟨n', _, hne, hmem, hu⟩ | ⟨_, hne⟩
        · rw [hne] at hn
          rcases mem_addOnce hn with hn | rfl
          · obtain ⟨m', hm, hmn⟩ := h.corr.ne n hn
            exact ⟨m', hA.mono m' hm, hmn⟩
          · rcases List.mem_cons.mp hmem with rfl | hmem
            · exact absurd hu.2 hCbound
            · simp only [List.mem_map] at hmem
              obtain ⟨d, hd, rfl⟩ := hmem
              obtain ⟨g1, g2⟩ := loadss_good false args hargs d hd
              have hdf := g2 rfl
              obtain ⟨m', hm, hmn⟩ := hA.found d (List.mem_cons_of_mem _ hd) g1 ((h.corr.names _ (headOf_good g1)).mp hu.2)
                (fun hc => by rw [hdf] at hc; cases hc) h.corr.noStar
              exact ⟨m', hm, by rw [hmn], fun _ => by rw [hmn, headOf_dotFree hdf]⟩
        · rw [hne] at hn
          obtain ⟨m', hm, hmn⟩ := h.corr.ne n hn
          exact ⟨m', hA.mono m' hm, hmn⟩
    cases hp : pre s with
    | mk s1 r1 =>
      rw [hp] at hpre hcov
      cases r1 with
      | error x =>
        simp only
        exact ⟨fun n hn _ => .inl (hcov n hn), fun fl hfl => by cases hfl⟩
      | ok p =>
        simp only
        have hsame : SameUpToLog s s1 := hpre.same
        have hne1 : s1.ne = s.ne := (hpre.ok p rfl).1
        have hshape1 : FunsShape false s1 := by intro c hc; rw [hsame.funcs] at hc; exact h.cov.shape c hc
        have hrun := callVal_run false f p.1 p.2 s1 hshape1
        rw [X.bind_def]
        cases hc : callVal f p.1 p.2 s1 with
        | mk s2 r2 =>
          rw [hc] at hrun
          have hne2 : ∀ n ∈ s2.ne, n ≠ dunderCls → Cover false reg (runOps reg st ((joinDots [C, m] :: loadsOfs args).map Op.load)) n := by
            intro n hn hnd
            rcases hrun.ne n hn with h1 | ⟨hcp, hu⟩
            · exact hold s1 hne1 n h1
            · have hc1 : CorrJ M R B s1 st := h.callAna (CallAna.refl st) hsame.glob hne1
              exact Cover.mono (Or.inr (call_pendJ reg hc1 hcp hu hnd)) ha
          cases r2 with
          | error x =>
            simp only
            exact ⟨hne2, fun fl hfl => by cases hfl⟩
          | ok v =>
            simp only [X.pure_def]
            exact ⟨hne2, fun fl hfl => ⟨by cases hfl; rfl,
              h.callAna ha (hsame.glob.trans hrun.same) ((hrun.ok v rfl).trans hne1)⟩⟩

theorem fragCallJ_expr {Cs : List Str} {e : Expr} (h : fragCallJ Cs (.expr e) = true) :
    ∃ C m args, e = .call (.attr (.name C) m) args ∧ C ∈ Cs ∧ simpleName C = true ∧ fragBExprs false args = true := by
  unfold fragCallJ at h
  split at h
  · rename_i heq; cases heq
  · rename_i heq
    cases heq
    simp only [Bool.and_eq_true, List.contains_iff_mem] at h
    exact ⟨_, _, _, rfl, h.1.1.1, h.1.1.2, h.2⟩
  · cases h

theorem CorrJ.lineJ {M : List Nat} {R B : List Str} {s : XState} {st : AState} (h : CorrJ M R B s st) (l : Nat) :
    CorrJ M R B { s with line := l } { st with line := l } := h.line l

/-- analysis of one trailing method call -/
theorem anaCallJ (fx : Fixes) (reg : Registry) (Cs : List Str) : ∀ (stmt : Stmt) (ln : Nat) (st : AState),
    fragCallJ Cs stmt = true → st.inFunc = false → CallAna st (runOps reg st (cStmt fx ln stmt))
  | .located l s', ln, st, hfr, hf => by
    simp only [cStmt, runOps_setLine]
    exact (callAna_setLine st l).trans (anaCallJ fx reg Cs s' l { st with line := l } (by simpa [fragCallJ] using hfr) hf)
  | .expr e, ln, st, hfr, hf => by
    obtain ⟨C, m, args, rfl, _, _, hargs⟩ := fragCallJ_expr hfr
    rw [cStmt_callJ fx ln C m args hargs]
    exact (anaL_loads reg _ st hf).callAna (runOps_loads_inClass reg _ st hf)
  | .assign _ _, _, _, hfr, _ => by simp [fragCallJ] at hfr
  | .augAssign _ _, _, _, hfr, _ => by simp [fragCallJ] at hfr
  | .annAssign _ _ _, _, _, hfr, _ => by simp [fragCallJ] at hfr
  | .import_ _, _, _, hfr, _ => by simp [fragCallJ] at hfr
  | .importFrom _ _, _, _, hfr, _ => by simp [fragCallJ] at hfr
  | .funcDef _ _ _ _ _, _, _, hfr, _ => by simp [fragCallJ] at hfr
  | .classDef _ _ _ _, _, _, hfr, _ => by simp [fragCallJ] at hfr
  | .for_ _ _ _ _, _, _, hfr, _ => by simp [fragCallJ] at hfr
  | .while_ _ _ _, _, _, hfr, _ => by simp [fragCallJ] at hfr
  | .if_ _ _ _, _, _, hfr, _ => by simp [fragCallJ] at hfr
  | .with_ _ _, _, _, hfr, _ => by simp [fragCallJ] at hfr
  | .try_ _ _ _ _, _, _, hfr, _ => by simp [fragCallJ] at hfr
  | .return_ _, _, _, hfr, _ => by simp [fragCallJ] at hfr
  | .pass, _, _, hfr, _ => by simp [fragCallJ] at hfr
  | .raise_ _, _, _, hfr, _ => by simp [fragCallJ] at hfr
  | .delete _, _, _, hfr, _ => by simp [fragCallJ] at hfr
  | .global_ _, _, _, hfr, _ => by simp [fragCallJ] at hfr
  | .nonlocal_ _, _, _, hfr, _ => by simp [fragCallJ] at hfr

theorem anaCallsJ (fx : Fixes) (reg : Registry) (Cs : List Str) : ∀ (ss : List Stmt) (ln : Nat) (st : AState),
    ss.all (fragCallJ Cs) = true → st.inFunc = false → CallAna st (runOps reg st (cStmts fx ln ss))
  | [], _, st, _, _ => by simp only [cStmts]; exact CallAna.refl st
  | s :: ss, ln, st, hfr, hf => by
    simp only [List.all_cons, Bool.and_eq_true] at hfr
    simp only [cStmts, runOps_append]
    have h1 := anaCallJ fx reg Cs s ln st hfr.1 hf
    exact h1.trans (anaCallsJ fx reg Cs ss ln _ hfr.2 (by rw [h1.inFunc]; exact hf))

/-- one trailing method call, reference semantics and analysis in lock step -/
theorem callJ (fx : Fixes) (reg : Registry) (M : List Nat) (R B : List Str) : ∀ (stmt : Stmt) (f : Nat) (s : XState) (st : AState)
    (ln : Nat), fragCallJ B stmt = true → CorrJ M R B s st →
    (∀ n ∈ (execStmt f {} stmt s).1.ne, n ≠ dunderCls → Cover false reg (runOps reg st (cStmt fx ln stmt)) n) ∧
    (∀ fl, (execStmt f {} stmt s).2 = .ok fl → fl = Flow.normal ∧
      CorrJ M R B (execStmt f {} stmt s).1 (runOps reg st (cStmt fx ln stmt)))
  | stmt, 0, s, st, ln, hfr, h => by
    have ha := anaCallJ fx reg B stmt ln st hfr h.corr.inFunc
    rw [execStmt]
    refine ⟨fun n hn _ => ?_, fun fl hfl => by cases hfl⟩
    obtain ⟨m, hm, hmn⟩ := h.corr.ne n hn
    exact .inl ⟨m, ha.mono m hm, hmn⟩
  | .located l s', f + 1, s, st, ln, hfr, h => by
    simp only [execStmt, cStmt, runOps_setLine, X.bind_def, X.modify]
    exact callJ fx reg M R B s' f { s with line := l } { st with line := l } l (by simpa [fragCallJ] using hfr) (h.line l)
  | .expr e, f + 1, s, st, ln, hfr, h => by
    obtain ⟨C, m, args, rfl, hCB, hC, hargs⟩ := fragCallJ_expr hfr
    obtain ⟨_, r1, r2⟩ := callJ_core fx reg M C m args (f + 1) s st ln R B hCB hC hargs h
    exact ⟨r1, r2⟩
  | .assign _ _, _ + 1, _, _, _, hfr, _ => by simp [fragCallJ] at hfr
  | .augAssign _ _, _ + 1, _, _, _, hfr, _ => by simp [fragCallJ] at hfr
  | .annAssign _ _ _, _ + 1, _, _, _, hfr, _ => by simp [fragCallJ] at hfr
  | .import_ _, _ + 1, _, _, _, hfr, _ => by simp [fragCallJ] at hfr
  | .importFrom _ _, _ + 1, _, _, _, hfr, _ => by simp [fragCallJ] at hfr
  | .funcDef _ _ _ _ _, _ + 1, _, _, _, hfr, _ => by simp [fragCallJ] at hfr
  | .classDef _ _ _ _, _ + 1, _, _, _, hfr, _ => by simp [fragCallJ] at hfr
  | .for_ _ _ _ _, _ + 1, _, _, _, hfr, _ => by simp [fragCallJ] at hfr
  | .while_ _ _ _, _ + 1, _, _, _, hfr, _ => by simp [fragCallJ] at hfr
  | .if_ _ _ _, _ + 1, _, _, _, hfr, _ => by simp [fragCallJ] at hfr
  | .with_ _ _, _ + 1, _, _, _, hfr, _ => by simp [fragCallJ] at hfr
  | .try_ _ _ _ _, _ + 1, _, _, _, hfr, _ => by simp [fragCallJ] at hfr
  | .return_ _, _ + 1, _, _, _, hfr, _ => by simp [fragCallJ] at hfr
  | .pass, _ + 1, _, _, _, hfr, _ => by simp [fragCallJ] at hfr
  | .raise_ _, _ + 1, _, _, _, hfr, _ => by simp [fragCallJ] at hfr
  | .delete _, _ + 1, _, _, _, hfr, _ => by simp [fragCallJ] at hfr
  | .global_ _, _ + 1, _, _, _, hfr, _ => by simp [fragCallJ] at hfr
  | .nonlocal_ _, _ + 1, _, _, _, hfr, _ => by simp [fragCallJ] at hfr

theorem callsJ (fx : Fixes) (reg : Registry) (M : List Nat) (R B : List Str) : ∀ (ss : List Stmt) (f : Nat) (s : XState)
    (st : AState) (ln : Nat), ss.all (fragCallJ B) = true → CorrJ M R B s st →
    ∀ n ∈ (execStmts f {} ss s).1.ne, n ≠ dunderCls → Cover false reg (runOps reg st (cStmts fx ln ss)) n
  | ss, 0, s, st, ln, hfr, h => by
    have ha := anaCallsJ fx reg B ss ln st hfr h.corr.inFunc
    rw [execStmts]
    intro n hn _
    obtain ⟨m, hm, hmn⟩ := h.corr.ne n hn
    exact .inl ⟨m, ha.mono m hm, hmn⟩
  | [], f + 1, s, st, ln, _, h => by
    simp only [execStmts, cStmts, X.pure_def]
    intro n hn _
    exact .inl (h.corr.ne n hn)
  | stmt :: ss, f + 1, s, st, ln, hfr, h => by
    simp only [List.all_cons, Bool.and_eq_true] at hfr
    obtain ⟨h1, h2⟩ := callJ fx reg M R B stmt f s st ln hfr.1 h
    have ha1 := anaCallJ fx reg B stmt ln st hfr.1 h.corr.inFunc
    simp only [execStmts, cStmts, runOps_append, X.bind_def]
    cases hr : execStmt f {} stmt s with
    | mk s' r =>
      rw [hr] at h1 h2
      cases r with
      | error x =>
        simp only
        intro n hn hnd
        exact (h1 n hn hnd).mono (anaCallsJ fx reg B ss ln _ hfr.2 (by rw [ha1.inFunc]; exact h.corr.inFunc))
      | ok fl0 =>
        obtain ⟨hfl0, hc⟩ := h2 fl0 rfl
        subst hfl0
        simp only
        exact callsJ fx reg M R B ss f s' _ ln hfr.2 hc


/-! ### the final answers on fragment J -/

theorem cStmt_callJ_plain (fx : Fixes) (Cs : List Str) : ∀ (stmt : Stmt) (ln : Nat), fragCallJ Cs stmt = true →
    ∀ op ∈ cStmt fx ln stmt, opPlain op = true
  | .located l s, ln, h, op, hop => by
    simp only [cStmt, List.mem_cons] at hop
    rcases hop with rfl | hop
    · rfl
    · exact cStmt_callJ_plain fx Cs s l (by simpa [fragCallJ] using h) op hop
  | .expr e, ln, h, op, hop => by
    obtain ⟨C, m, args, rfl, _, _, hargs⟩ := fragCallJ_expr h
    rw [cStmt_callJ fx ln C m args hargs, List.mem_map] at hop
    obtain ⟨d, _, rfl⟩ := hop; rfl
  | .assign _ _, _, h, _, _ => by simp [fragCallJ] at h
  | .augAssign _ _, _, h, _, _ => by simp [fragCallJ] at h
  | .annAssign _ _ _, _, h, _, _ => by simp [fragCallJ] at h
  | .import_ _, _, h, _, _ => by simp [fragCallJ] at h
  | .importFrom _ _, _, h, _, _ => by simp [fragCallJ] at h
  | .funcDef _ _ _ _ _, _, h, _, _ => by simp [fragCallJ] at h
  | .classDef _ _ _ _, _, h, _, _ => by simp [fragCallJ] at h
  | .for_ _ _ _ _, _, h, _, _ => by simp [fragCallJ] at h
  | .while_ _ _ _, _, h, _, _ => by simp [fragCallJ] at h
  | .if_ _ _ _, _, h, _, _ => by simp [fragCallJ] at h
  | .with_ _ _, _, h, _, _ => by simp [fragCallJ] at h
  | .try_ _ _ _ _, _, h, _, _ => by simp [fragCallJ] at h
  | .return_ _, _, h, _, _ => by simp [fragCallJ] at h
  | .pass, _, h, _, _ => by simp [fragCallJ] at h
  | .raise_ _, _, h, _, _ => by simp [fragCallJ] at h
  | .delete _, _, h, _, _ => by simp [fragCallJ] at h
  | .global_ _, _, h, _, _ => by simp [fragCallJ] at h
  | .nonlocal_ _, _, h, _, _ => by simp [fragCallJ] at h

theorem cStmts_callJ_plain (fx : Fixes) (Cs : List Str) : ∀ (ss : List Stmt) (ln : Nat), ss.all (fragCallJ Cs) = true →
    ∀ op ∈ cStmts fx ln ss, opPlain op = true
  | [], _, _, op, hop => by simp [cStmts] at hop
  | s :: ss, ln, h, op, hop => by
    simp only [List.all_cons, Bool.and_eq_true] at h
    simp only [cStmts, List.mem_append] at hop
    rcases hop with hop | hop
    · exact cStmt_callJ_plain fx Cs s ln h.1 op hop
    · exact cStmts_callJ_plain fx Cs ss ln h.2 op hop

/-- soundness on fragment J, in terms of the analysis state -/
theorem sound_fragJ (fx : Fixes) (reg : Registry) (M : List Nat) (prog calls : List Stmt) (fuel : Nat) (s0 : XState) (st0 : AState)
    (hfr : fragJ prog = true) (hsf : selfFree [] prog = true) (hcalls : calls.all (fragCallJ (classNames prog)) = true)
    (h : CorrJ M [] [] s0 st0) :
    ∀ n ∈ (runProgram fuel prog calls s0).1.ne, n ≠ dunderCls →
      ∃ m ∈ (finishDeferred reg (runOps reg st0 (cStmts fx 0 (prog ++ calls)))).missing, m.name = n := by
  intro n hn hnd
  rw [cStmts_append, runOps_append]
  obtain ⟨h1, h2⟩ := stmtsJ fx reg M prog fuel s0 st0 0 [] [] hfr hsf (fun _ h0 => by cases h0) h
  unfold runProgram at hn
  rw [X.bind_def] at hn
  cases hr : execStmts fuel {} prog s0 with
  | mk s1 r1 =>
    rw [hr] at hn h1 h2
    cases r1 with
    | error x =>
      simp only at hn
      obtain ⟨m, hm, hmn⟩ := h1 n hn
      exact ⟨m, finishDeferred_mono reg _ m (runOps_keeps reg n _ _
        (fun op hop => opPlain_keeps (cStmts_callJ_plain fx _ calls 0 hcalls op hop)) m hm hmn), hmn⟩
    | ok fl =>
      obtain ⟨⟨R', hc⟩, _⟩ := h2 fl rfl
      simp only [List.nil_append] at hc
      simp only [X.bind_def, X.modify] at hn
      have hc' : CorrJ M R' (classNames prog) { s1 with atEnd := true } (runOps reg st0 (cStmts fx 0 prog)) :=
        hc.callAna (CallAna.refl _) ⟨rfl, rfl, rfl, rfl⟩ rfl
      have hcov := callsJ fx reg M R' (classNames prog) calls fuel { s1 with atEnd := true } _ 0 hcalls hc'
      have : ∀ n ∈ (execStmts fuel {} calls { s1 with atEnd := true }).1.ne, n ≠ dunderCls →
          ∃ m ∈ (finishDeferred reg (runOps reg (runOps reg st0 (cStmts fx 0 prog)) (cStmts fx 0 calls))).missing, m.name = n := by
        intro n hn hnd
        obtain ⟨m, hm, _, hmn⟩ := cover_finish (hcov n hn hnd)
        exact ⟨m, hm, hmn rfl⟩
      cases hr2 : execStmts fuel {} calls { s1 with atEnd := true } with
      | mk s2 r2 =>
        rw [hr2] at hn this
        cases r2 with
        | error x => exact this n hn hnd
        | ok fl2 => exact this n hn hnd

theorem runProgram_state (fuel : Nat) (prog : List Stmt) (s0 : XState) (h : (runProgram fuel prog [] s0).2 = .ok ()) :
    ∃ fl, (execStmts fuel {} prog s0).2 = .ok fl ∧
      (runProgram fuel prog [] s0).1 = { (execStmts fuel {} prog s0).1 with atEnd := true } := by
  simp only [runProgram, X.bind_def] at h ⊢
  cases hr : execStmts fuel {} prog s0 with
  | mk s1 r =>
    rw [hr] at h
    cases r with
    | error e => cases h
    | ok fl =>
      refine ⟨fl, rfl, ?_⟩
      simp only [X.modify] at h ⊢
      cases fuel with
      | zero => simp only [execStmts, X.throw] at h; cases h
      | succ f => simp only [execStmts, X.pure_def]

/-- what the analysis knows about the reads of method bodies when the module has been executed completely: a read that is
    neither a parameter, a local, nor `__class__`, and that the final globals / builtins do not resolve, is reported —
    whether or not the name is bound in the class body -/
theorem methods_fragJ (fx : Fixes) (reg : Registry) (M : List Nat) (prog : List Stmt) (fuel : Nat) (s0 : XState) (st0 : AState)
    (hfr : fragJ prog = true) (hsf : selfFree [] prog = true) (h : CorrJ M [] [] s0 st0)
    (hok : (runProgram fuel prog [] s0).2 = .ok ()) :
    ∀ ps body, defClosure ps body ∈ (runProgram fuel prog [] s0).1.funcs → ∀ d ∈ bodyLoads body,
      d ∉ dunderCls :: paramNames ps ++ boundStmts body → unboundX (runProgram fuel prog [] s0).1 d →
      ∃ m ∈ (finishDeferred reg (runOps reg st0 (cStmts fx 0 prog))).missing, m.name = d := by
  intro ps body hmem d hd hnl hu
  obtain ⟨fl, hfl, hst⟩ := runProgram_state fuel prog s0 hok
  rw [hst] at hmem hu
  obtain ⟨⟨R', hc⟩, _⟩ := (stmtsJ fx reg M prog fuel s0 st0 0 [] [] hfr hsf (fun _ h0 => by cases h0) h).2 fl hfl
  obtain ⟨ps0, body0, hceq, hb0⟩ := hc.cov.shape _ hmem
  have hb : body.all (fbodyStmt false) = true := by rw [(defClosure_inj hceq).2]; exact hb0
  have hds := bodyLoads_simple hb d hd
  have hp : CallP (execStmts fuel {} prog s0).1 d :=
    ⟨ps, body, hmem, List.mem_map.mpr ⟨d, hd, headOf_simple hds⟩, fun hc' => hnl (List.mem_cons_of_mem _ hc')⟩
  have hpend := call_pendJ reg hc hp hu (fun hc' => hnl (by rw [hc']; exact List.mem_cons_self ..))
  obtain ⟨m, hm, _, hmn⟩ := cover_finish (Or.inr hpend)
  exact ⟨m, hm, hmn rfl⟩

/-- precision on fragment J, in terms of the analysis state -/
theorem precise_fragJ (fx : Fixes) (reg : Registry) (M : List Nat) (prog : List Stmt) (fuel : Nat) (s0 : XState) (st0 : AState)
    (hfr : fragJ prog = true) (hsf : selfFree [] prog = true) (hpl : prog.all plainStmtI = true) (h : CorrJ M [] [] s0 st0)
    (hm0 : st0.missing = []) (hen0 : EntsJ M s0 st0)
    (hok : (runProgram fuel prog [] s0).2 = .ok ()) :
    ∀ m ∈ (finishDeferred reg (runOps reg st0 (cStmts fx 0 prog))).missing,
      ∃ ps body, defClosure ps body ∈ (runProgram fuel prog [] s0).1.funcs ∧ m.name ∈ bodyLoads body ∧
        unboundX (runProgram fuel prog [] s0).1 m.name := by
  intro m hm
  obtain ⟨fl, hfl, hst⟩ := runProgram_state fuel prog s0 hok
  rw [hst]
  obtain ⟨⟨R', hc⟩, hp⟩ := (stmtsJ fx reg M prog fuel s0 st0 0 [] [] hfr hsf (fun _ h0 => by cases h0) h).2 fl hfl
  obtain ⟨p1, p2⟩ := hp hpl hm0
  rcases finish_from reg _ m hm with hm' | ⟨e, he, hen, hsni⟩
  · rw [p1] at hm'; cases hm'
  · obtain ⟨e1, ps, body, e2, e3⟩ := p2 hen0 e he
    obtain ⟨ps0, body0, hceq, hb0⟩ := hc.cov.shape _ e2
    have hb : body.all (fbodyStmt false) = true := by rw [(defClosure_inj hceq).2]; exact hb0
    have hds := bodyLoads_simple hb e.name e3
    have hua := ment_unbound reg hc.ok hc.ids e1 hds hsni
    refine ⟨ps, body, e2, by rw [← hen]; exact e3, ?_⟩
    rw [← hen]
    exact (hc.corr.names _ hds).mpr hua

end Pfb.C05
