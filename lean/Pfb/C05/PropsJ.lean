/-
  C05, clause "class bodies whose names are invisible to their methods" — the METHOD half: fragment J.

  Fragment J (`Pfb.C05.FragJ`) = fragment I (fragment B without dotted names + module-level `class C: <assignments,
  expression statements, pass>`) extended by methods `def m(p1, …, pk): <straight-line body of fragment C>` in the class
  bodies, and by trailing calls `C.m(e1, …, ek)` of a method through a class the program defines (run after the last
  module-level statement, as in fragments C and H).

  Proved for ALL programs of the fragment, all namespaces, registries, fuel, and every combination of repairs `fx`:
    * `C05_sound_fragJ` — every global name other than `__class__` whose lookup raises NameError in the reference run — at
      module level, in a class body (where methods are only DEFINED), in an argument of a trailing call, or inside the body
      of a called method — is reported by `findMissingFx` for the whole source, provided `selfFree [] prog` (as for
      fragment I).  `witness_dunder_class`: the exclusion of `__class__` cannot be dropped ON THE MODELS (the reference
      semantics has no implicit `__class__` cell; CPython has one, so there the analysis is right).
    * `C05_method_reads_fragJ` — (b)/(c): when the module body has run completely, a read `d` in a method body that is
      neither a parameter, nor a name bound in that body, nor `__class__`, and that the final globals / builtins do not
      bind, is reported — in particular a class-level name that is not also a global (b); a module-level name bound
      AFTER the class statement is not reported (c: `C05_precise_fragJ`, the deferred load is checked at the end).
    * `C05_precise_fragJ` — without conditional expressions and `__all__`, if the run completes, every reported name is read
      by the body of a method (closure) the program created and is bound neither in the final globals nor in the builtins.
    * `fragI_sub_fragJ` — fragment I is the method-free part of fragment J.
-/
import Pfb.C05.LemmasJ
import Pfb.C05.PropsI
namespace Pfb.C05
open Pfb Pfb.PyCore

/-- **C05_sound_fragJ.**  For every program of fragment J in which no class name is read (outside method bodies) in its
    own class body or before its definition (`selfFree [] prog`), every list `calls` of trailing calls `C.m(e1, …, ek)` of
    methods through classes the program defines, every registry, builtins scope (not a class scope), caller namespaces
    and every initial run-time state that binds exactly the names bound in those namespaces and has no closures yet:
    every global name other than `__class__` whose lookup raises NameError in the reference run — at module level, inside
    a class body, in an argument of a call, or inside the body of a called method — is reported by `findMissingFx` for
    the whole source. -/
theorem C05_sound_fragJ (fx : Fixes) (reg : Registry) (builtins : Scope) (ns : List Scope) (prog calls : List Stmt)
    (s0 : XState) (fuel : Nat) (hfr : fragJ prog = true) (hsf : selfFree [] prog = true)
    (hcalls : calls.all (fragCallJ (classNames prog)) = true) (hag : Agree builtins ns s0)
    (hb : builtins.isClass = false) (hf : s0.funcs = []) :
    ∀ n ∈ (runProgram fuel prog calls s0).1.ne, n ≠ dunderCls → n ∈ findMissingFx fx reg builtins ns (prog ++ calls) := by
  intro n hn hnd
  obtain ⟨m, hm, hmn⟩ := sound_fragJ fx reg _ prog calls fuel s0 (initState builtins ns) hfr hsf hcalls
    (corrJ_init builtins ns s0 hag hb hf) n hn hnd
  unfold findMissingFx analyzeFx
  rw [mem_sortedSet, List.mem_map]
  exact ⟨m, hm, hmn⟩

/-- the names a closure reads that are neither parameters / locals of it nor `__class__` -/
def closGlobalReads (c : Closure) : List Str := (closLoads c).filter (fun d => !(dunderCls :: c.locals).contains d)

/-- **C05_method_reads_fragJ** ((b) and (c) of the clause).  When the module body of a program of fragment J has been
    executed completely, every name `d` that the body of a method (closure created by the program) reads and that is not
    a parameter, not bound in that body, not `__class__`, and bound neither in the final globals nor in the builtins, is
    reported — whether or not the class body binds `d`: the method does not see class-level names. -/
theorem C05_method_reads_fragJ (fx : Fixes) (reg : Registry) (builtins : Scope) (ns : List Scope) (prog : List Stmt)
    (s0 : XState) (fuel : Nat) (hfr : fragJ prog = true) (hsf : selfFree [] prog = true) (hag : Agree builtins ns s0)
    (hb : builtins.isClass = false) (hf : s0.funcs = []) (hok : (runProgram fuel prog [] s0).2 = .ok ()) :
    ∀ ps body, defClosure ps body ∈ (runProgram fuel prog [] s0).1.funcs →
      ∀ d ∈ closGlobalReads (defClosure ps body), unboundX (runProgram fuel prog [] s0).1 d →
        d ∈ findMissingFx fx reg builtins ns prog := by
  intro ps body hmem d hd hu
  simp only [closGlobalReads, List.mem_filter, Bool.not_eq_true', List.contains_eq_mem, decide_eq_false_iff_not] at hd
  obtain ⟨m, hm, hmn⟩ := methods_fragJ fx reg _ prog fuel s0 (initState builtins ns) hfr hsf
    (corrJ_init builtins ns s0 hag hb hf) hok ps body hmem d hd.1
    (fun hc => hd.2 (by
      rcases List.mem_cons.mp hc with hc | hc
      · exact hc ▸ List.mem_cons_self ..
      · exact List.mem_cons_of_mem _ ((mem_locals ps body d).mpr hc))) hu
  unfold findMissingFx analyzeFx
  rw [mem_sortedSet, List.mem_map]
  exact ⟨m, hm, hmn⟩

/-- **C05_precise_fragJ.**  On fragment J without conditional expressions and `__all__` (at module level and in class
    bodies): if the reference run of the module body completes, every reported name is read by the body of a method the
    program created and is bound neither in the final globals nor in the builtins.  In particular nothing is reported
    for reads at module level or in class bodies, for parameters and locals of methods, nor for method-body reads of
    module-level names — including those bound AFTER the class statement (deferred loads). -/
theorem C05_precise_fragJ (fx : Fixes) (reg : Registry) (builtins : Scope) (ns : List Scope) (prog : List Stmt)
    (s0 : XState) (fuel : Nat) (hfr : fragJ prog = true) (hsf : selfFree [] prog = true)
    (hpl : prog.all plainStmtI = true) (hag : Agree builtins ns s0) (hb : builtins.isClass = false) (hf : s0.funcs = [])
    (hok : (runProgram fuel prog [] s0).2 = .ok ()) :
    ∀ d ∈ findMissingFx fx reg builtins ns prog,
      ∃ c ∈ (runProgram fuel prog [] s0).1.funcs, d ∈ closLoads c ∧ unboundX (runProgram fuel prog [] s0).1 d := by
  intro d hd
  unfold findMissingFx analyzeFx at hd
  rw [mem_sortedSet, List.mem_map] at hd
  obtain ⟨m, hm, rfl⟩ := hd
  obtain ⟨ps, body, h1, h2, h3⟩ := precise_fragJ fx reg _ prog fuel s0 (initState builtins ns) hfr hsf hpl
    (corrJ_init builtins ns s0 hag hb hf) rfl (entsJ_init _ builtins ns s0) hok m hm
  exact ⟨_, h1, h2, h3⟩

/-! ### fragment I is the method-free part of fragment J -/

theorem fragClass_J : ∀ s : Stmt, fragClass s = true → fragClassJ s = true
  | .located _ s, h => by simp only [fragClassJ]; exact fragClass_J s (by simpa [fragClass] using h)
  | .classDef C [] body [], h => by
    simp only [fragClass, Bool.and_eq_true, List.all_eq_true] at h
    simp only [fragClassJ, Bool.and_eq_true, List.all_eq_true]
    exact ⟨h.1, fun x hx => by simp [clsBodyStmtJ, h.2 x hx]⟩
  | .classDef _ (_ :: _) _ _, h => by simp [fragClass] at h
  | .classDef _ [] _ (_ :: _), h => by simp [fragClass] at h
  | .expr _, h => by simp [fragClass] at h
  | .assign _ _, h => by simp [fragClass] at h
  | .augAssign _ _, h => by simp [fragClass] at h
  | .annAssign _ _ _, h => by simp [fragClass] at h
  | .import_ _, h => by simp [fragClass] at h
  | .importFrom _ _, h => by simp [fragClass] at h
  | .funcDef _ _ _ _ _, h => by simp [fragClass] at h
  | .for_ _ _ _ _, h => by simp [fragClass] at h
  | .while_ _ _ _, h => by simp [fragClass] at h
  | .if_ _ _ _, h => by simp [fragClass] at h
  | .with_ _ _, h => by simp [fragClass] at h
  | .try_ _ _ _ _, h => by simp [fragClass] at h
  | .return_ _, h => by simp [fragClass] at h
  | .pass, h => by simp [fragClass] at h
  | .raise_ _, h => by simp [fragClass] at h
  | .delete _, h => by simp [fragClass] at h
  | .global_ _, h => by simp [fragClass] at h
  | .nonlocal_ _, h => by simp [fragClass] at h

/-- **fragI_sub_fragJ.**  Every program of fragment I is a program of fragment J (with the same side conditions
    `selfFree`, `plainStmtI`): `C05_sound_fragJ` with `calls = []` extends `C05_sound_fragI`. -/
theorem fragI_sub_fragJ (prog : List Stmt) (h : fragI prog = true) : fragJ prog = true := by
  simp only [fragI, fragJ, List.all_eq_true] at h ⊢
  intro s hs
  have := h s hs
  simp only [fragIStmt, Bool.or_eq_true] at this
  rcases this with h1 | h1
  · simp [fragJStmt, h1]
  · simp [fragJStmt, fragClass_J s h1]

/-! ### the hypotheses are satisfiable by a non-trivial input, and the conclusions are not empty there -/
section ExampleJ

def argsJ (ps : List String) : Args := .mk (ps.map (fun p => Param.mk p.toList none)) [] none [] [] none

/-- `g = _K` ; `class C:` / ` a = _K` / ` def m(self, p):` / `  t = (p, g, late)` / `  return (t, a)` / ` b = a` /
    ` def k(self): return zz` ; `late = _K` — then the call `C.m(_K, g)`.
    `a` is a class-level name: the class body reads it (`b = a`), the method does not see it; `late` is bound after the
    class statement; `k` is never called. -/
def exProgJ : List Stmt :=
  [st 1 (.assign [nm "g"] .const),
   st 2 (.classDef "C".toList [] [
      st 3 (.assign [nm "a"] .const),
      st 4 (.funcDef "m".toList (argsJ ["self", "p"])
        [st 5 (.assign [nm "t"] (.tuple [nm "p", nm "g", nm "late"])), st 6 (.return_ (some (.tuple [nm "t", nm "a"])))] [] none),
      st 7 (.assign [nm "b"] (nm "a")),
      st 8 (.funcDef "k".toList (argsJ ["self"]) [st 9 (.return_ (some (nm "zz")))] [] none)] []),
   st 10 (.assign [nm "late"] .const)]
def exCallsJ : List Stmt := [st 11 (.expr (.call (.attr (nm "C") "m".toList) [.const, nm "g"]))]

example : fragJ exProgJ = true ∧ selfFree [] exProgJ = true ∧ exCallsJ.all (fragCallJ (classNames exProgJ)) = true ∧
    fragI exProgJ = false := by decide
example : Agree kB [{}] kS := agree_mk _ _ (by decide) (by decide)
example : kB.isClass = false ∧ kS.funcs = [] := ⟨rfl, rfl⟩
/-- the called method raises NameError on the class-level name `a`; `a` and `zz` are reported -/
example : (runProgram 100 exProgJ exCallsJ kS).1.ne = ["a".toList] := by decide +kernel
example : findMissing {} kB [{}] (exProgJ ++ exCallsJ) = ["a".toList, "zz".toList] := by decide +kernel
example : findMissingFx allFixes {} kB [{}] (exProgJ ++ exCallsJ) = ["a".toList, "zz".toList] := by decide +kernel
/-- without the call the module body completes; the reported names are exactly the method-body reads that the final
    globals do not resolve (`a`: class-level only; `zz`: bound nowhere) — not `g`, `late` (bound later), `p`, `t` -/
example : exProgJ.all plainStmtI = true := by decide
example : (runProgram 100 exProgJ [] kS).2 = .ok () := isOk_unit (by decide +kernel)
example : findMissing {} kB [{}] exProgJ = ["a".toList, "zz".toList] := by decide +kernel
example : ((runProgram 100 exProgJ [] kS).1.funcs.map closGlobalReads) =
    [["g".toList, "late".toList, "a".toList], ["zz".toList]] := by decide +kernel

end ExampleJ

/-! ### witnesses -/
section WitnessJ

/-- **witness_method_J.**  `class C: a = _K; def m(self): return a` then `C.m(_K)` (`PropsI.wMethod`) is a program of
    fragment J: NameError `a`, reported (an instance of `C05_sound_fragJ`). -/
theorem witness_method_J : fragJ wMethod = true ∧ selfFree [] wMethod = true ∧
    wMethodCalls.all (fragCallJ (classNames wMethod)) = true ∧
    (runProgram 100 wMethod wMethodCalls kS).1.ne = ["a".toList] ∧
    findMissing {} kB [{}] (wMethod ++ wMethodCalls) = ["a".toList] := by decide +kernel

/-- `class C:` / ` def m(self): return (late, C)` ; `late = _K` — then `C.m(_K)` -/
def wLate : List Stmt := [st 1 (.classDef "C".toList [] [
   st 2 (.funcDef "m".toList (argsJ ["self"]) [st 3 (.return_ (some (.tuple [nm "late", nm "C"])))] [] none)] []),
   st 4 (.assign [nm "late"] .const)]

/-- **witness_method_late_global.**  (c) A method body sees module-level names bound AFTER the class statement, and the
    name of its own class: the run completes and nothing is reported. -/
theorem witness_method_late_global : fragJ wLate = true ∧ selfFree [] wLate = true ∧
    wMethodCalls.all (fragCallJ (classNames wLate)) = true ∧
    isOk (runProgram 100 wLate wMethodCalls kS).2 = true ∧
    findMissing {} kB [{}] (wLate ++ wMethodCalls) = [] := by decide +kernel

/-- `class C:` / ` def m(self): return __class__` — then `C.m(_K)` -/
def wDunder : List Stmt := [st 1 (.classDef "C".toList [] [
   st 2 (.funcDef "m".toList (argsJ ["self"]) [st 3 (.return_ (some (nm "__class__")))] [] none)] [])]

/-- **witness_dunder_class.**  The exclusion of `__class__` in `C05_sound_fragJ` cannot be dropped on the models: the
    reference semantics (which has no implicit `__class__` cell) raises NameError `__class__` in the called method, the
    analysis (which stores `__class__` into the argument scope of every method) reports nothing.  CPython does create
    the cell, so on the real code nothing is wrong: this is a limit of `Pfb.PyCore.Exec`, outside the generator's domain. -/
theorem witness_dunder_class : fragJ wDunder = true ∧ selfFree [] wDunder = true ∧
    wMethodCalls.all (fragCallJ (classNames wDunder)) = true ∧
    (runProgram 100 wDunder wMethodCalls kS).1.ne = ["__class__".toList] ∧
    findMissing {} kB [{}] (wDunder ++ wMethodCalls) = [] := by decide +kernel

end WitnessJ

end Pfb.C05
