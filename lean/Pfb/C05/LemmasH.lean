/-
  Pfb.C05.LemmasH — fragment H: fragment C + default values of parameters + module-level lambdas.

  The closure machinery of fragment C (`Pfb.C05.LemmasC/D/E`) is stated for the closures `defClosure ps body` only; here
  the module-level invariant is re-stated for ANY closure that runs a straight-line body or a fragment-B expression in a
  frame of its own (`ClosOK`), the analysis of default values is reduced to module-level loads in the enclosing scope
  (`cArgs_defaults`), and the analysis of a lambda is done like that of a `def` (`lamA`).
-/
import Pfb.C05.LemmasE
import Pfb.C05.FragH
namespace Pfb.C05
open Pfb Pfb.PyCore

/-! ### closures of fragment H -/

/-- the closure created by `def f(p1, …, pk = defaults): body` once the defaults have the values `dvs` -/
def defClosureH (ps : List Param) (dvs : List RVal) (body : List Stmt) : Closure :=
  { params := paramNames ps, ndefaults := dvs.length, defaults := dvs, vararg := none, kwonly := [], kwarg := none,
    locals := paramNames ps ++ boundStmts body, body := .stmts body, env := [] }

/-- the closure created by `lambda p1, …, pk = defaults: e` once the defaults have the values `dvs` -/
def lamClosure (ps : List Param) (dvs : List RVal) (e : Expr) : Closure :=
  { params := paramNames ps, ndefaults := dvs.length, defaults := dvs, vararg := none, kwonly := [], kwarg := none,
    locals := paramNames ps, body := .expr e, env := [] }

/-- the dotted names the body of a closure loads -/
def closLoads (c : Closure) : List Str :=
  match c.body with
  | .stmts b => bodyLoads b
  | .expr e => loadsOf e

/-- a closure made at module level by a `def` or a lambda of fragment H -/
def ClosOK (D : Bool) (c : Closure) : Prop :=
  c.env = [] ∧ c.kwonly = [] ∧ c.vararg = none ∧ c.kwarg = none ∧
  match c.body with
  | .stmts b => b.all (fbodyStmt D) = true ∧ ∀ x ∈ boundStmts b, x ∈ c.locals
  | .expr e => fragBExpr D e = true

theorem closOK_def (D : Bool) (ps : List Param) (dvs : List RVal) (body : List Stmt) (hb : body.all (fbodyStmt D) = true) :
    ClosOK D (defClosureH ps dvs body) :=
  ⟨rfl, rfl, rfl, rfl, hb, fun _ hx => List.mem_append_right _ hx⟩

theorem closOK_lam (D : Bool) (ps : List Param) (dvs : List RVal) (e : Expr) (he : fragBExpr D e = true) :
    ClosOK D (lamClosure ps dvs e) := ⟨rfl, rfl, rfl, rfl, he⟩

theorem argsNames_simple (ps : List Param) (defaults : List Expr) :
    Args.names (.mk ps defaults none [] [] none) = paramNames ps := by simp [Args.names, paramNames]

theorem defClosure_eq (ps : List Param) (body : List Stmt) : defClosure ps body = defClosureH ps [] body := by
  simp [defClosure, defClosureH, argsNames_simple]

theorem closLoads_good {D : Bool} {c : Closure} (h : ClosOK D c) :
    ∀ d ∈ closLoads c, goodDotted d = true ∧ (D = false → dotFree d = true) := by
  obtain ⟨_, _, _, _, hb⟩ := h
  unfold closLoads
  cases hbody : c.body with
  | stmts b => rw [hbody] at hb; exact bodyLoads_good D b hb.1
  | expr e => rw [hbody] at hb; exact loads_good D e hb

/-- calling a closure of fragment H: a `NameError` can only come from a global read of its body -/
theorem callBody_runH (D : Bool) (f : Nat) (c : Closure) (avs : List RVal) (s : XState) (hc : ClosOK D c) :
    RunR s (fun n => n ∈ (closLoads c).map headOf ∧ n ∉ c.locals) (callBody f c avs s) := by
  obtain ⟨params, nd, defs, va, kwo, kwa, locals, body, env⟩ := c
  obtain ⟨h1, h2, h3, h4, hb⟩ := hc
  simp only at h1 h2 h3 h4 hb
  subst h1 h2 h3 h4
  unfold callBody
  refine RunR.bind (RunR.noteCall s _) (fun _ s1 _ _ _ => ?_)
  dsimp only
  split
  · exact RunR.raiseOther s1 _
  split
  · exact RunR.raiseOther s1 _
  refine RunR.bind (RunR.pure s1 _ ([] : List (Str × RVal))) (fun kws s2 _ _ _ => ?_)
  obtain ⟨fr0, cells, heq, hspec⟩ := allocCells_spec locals s2
  refine RunR.bind (by rw [heq]; exact RunR.silent s2 _ _ ⟨rfl, rfl, rfl, rfl⟩ rfl rfl) (fun fr s3 hfr _ _ => ?_)
  have hfr0 : fr = fr0 := by
    rw [heq] at hfr
    injection hfr with _ h2
    injection h2 with h3
    exact h3.symm
  subst hfr0
  refine RunR.bind (RunR.bindCells fr _ s3 _) (fun _ s4 _ _ _ => ?_)
  refine RunR.bind (RunR.bindCells fr _ s4 _) (fun _ s5 _ _ _ => ?_)
  refine RunR.bind (RunR.pure s5 _ ()) (fun _ s6 _ _ _ => ?_)
  refine RunR.bind (RunR.pure s6 _ ()) (fun _ s7 _ _ _ => ?_)
  cases body with
  | stmts b =>
    simp only at hb
    have hfrm : ∀ x ∈ boundStmts b, assocGet x fr ≠ none := by
      intro x hx hc
      exact (hspec x).mp hc (hb.2 x hx)
    refine RunR.bind ((stmtsX D fr b f s7 hb.1 hfrm).run.mono ?_) (fun fl s8 _ _ _ => ?_)
    · rintro n ⟨h1, h2⟩
      exact ⟨h1, fun hc => (hspec n).mp (isGlobalIn_fctx h2) hc⟩
    · cases fl with
      | ret v => exact RunR.pure s8 _ v
      | normal => exact RunR.pure s8 _ RVal.none
  | expr e =>
    simp only at hb
    have he := (evalB (fctx fr) (fctx_ok fr) D f).1 e s7 hb
    refine (BodyR.ofEvalB (L := loadsOf e) he).run.mono ?_
    rintro n ⟨h1, h2⟩
    exact ⟨h1, fun hc => (hspec n).mp (isGlobalIn_fctx h2) hc⟩

/-- `n` is read as a global by the body of some closure -/
def CallPH (s : XState) (n : Str) : Prop :=
  ∃ c ∈ s.funcs, n ∈ (closLoads c).map headOf ∧ n ∉ c.locals

theorem callFunc_runH (D : Bool) (f id : Nat) (avs : List RVal) (s : XState) (hfs : ∀ c ∈ s.funcs, ClosOK D c) :
    RunR s (CallPH s) (callFunc f id avs s) := by
  match f with
  | 0 => rw [callFunc]; exact RunR.fuel s _
  | f + 1 =>
    rw [callFunc_eq]
    cases hc : s.funcs[id]? with
    | none => exact RunR.raiseOther s _
    | some c =>
      have hmem := List.mem_of_getElem? hc
      exact (callBody_runH D f c avs s (hfs c hmem)).mono (fun n hn => ⟨c, hmem, hn⟩)

theorem callVal_runH (D : Bool) (f : Nat) (fv : RVal) (avs : List RVal) (s : XState) (hfs : ∀ c ∈ s.funcs, ClosOK D c) :
    RunR s (CallPH s) (callVal f fv avs s) := by
  match f with
  | 0 => rw [callVal]; exact RunR.fuel s _
  | f + 1 =>
    cases fv with
    | func id => rw [callVal]; exact callFunc_runH D f id avs s hfs
    | opq => rw [callVal]; exact RunR.pure s _ _
    | mod _ => rw [callVal]; exact RunR.pure s _ _
    | rigid => simp only [callVal]; exact RunR.raiseOther s _
    | none => simp only [callVal]; exact RunR.raiseOther s _
    | bool _ => simp only [callVal]; exact RunR.raiseOther s _
    | seq _ => simp only [callVal]; exact RunR.raiseOther s _
    | cls _ => simp only [callVal]; exact RunR.raiseOther s _


/-! ### executing the statements that create closures -/

/-- binding a freshly created function object to a global name -/
def bindFun (s : XState) (name : Str) (c : Closure) : XState :=
  { s with funcs := s.funcs ++ [c], globals := assocSet name (.func s.funcs.length) s.globals,
           origins := assocDel name s.origins }

/-- a statement that evaluates default values at module level and then binds a new closure to `name`
    (or runs out of fuel before doing anything) -/
def FunExec (f : Nat) (stmt : Stmt) (s : XState) (defaults : List Expr) (name : Str) (mkc : List RVal → Closure) : Prop :=
  execStmt f {} stmt s = (s, .error .fuel) ∨
  ∃ f', execStmt f {} stmt s =
    match evalExprs f' {} defaults s with
    | (s1, .ok dvs) => (bindFun s1 name (mkc dvs), .ok Flow.normal)
    | (s1, .error e) => (s1, .error e)

theorem execDefH (f : Nat) (s : XState) (name : Str) (ps : List Param) (defaults : List Expr) (body : List Stmt)
    (hps : ps.all simpleParam = true) :
    FunExec f (.funcDef name (.mk ps defaults none [] [] none) body [] none) s defaults name (fun dvs => defClosureH ps dvs body) := by
  have hann := annotExprs_simple ps hps
  match f with
  | 0 => left; simp [execStmt, X.throw]
  | 1 => left; simp [execStmt, evalExprs, X.bind_def, X.throw]
  | 2 => left; simp [execStmt, evalExprs, mkClosure, X.bind_def, X.throw, X.pure_def]
  | f + 3 =>
    right
    refine ⟨f + 1, ?_⟩
    simp only [execStmt, evalExprs, mkClosure, X.bind_def, X.pure_def]
    cases evalExprs (f + 1) {} defaults s with
    | mk s1 r =>
      cases r with
      | error e => rfl
      | ok dvs =>
        simp [evalOptExprs, applyDecos, X.pure_def, addFunc, bindName, X.modify,
          hann, annotExprs, zipOpt, defClosureH, bindFun, argsNames_simple, evalExprs]

theorem execLamH (f : Nat) (s : XState) (g : Str) (ps : List Param) (defaults : List Expr) (e : Expr) :
    FunExec f (.assign [.name g] (.lambda (.mk ps defaults none [] [] none) e)) s defaults g (fun dvs => lamClosure ps dvs e) := by
  match f with
  | 0 => left; simp [execStmt, X.throw]
  | 1 => left; simp [execStmt, evalExpr, X.bind_def, X.throw]
  | 2 => left; simp [execStmt, evalExpr, mkClosure, X.bind_def, X.throw]
  | 3 => left; simp [execStmt, evalExpr, mkClosure, evalExprs, X.bind_def, X.throw]
  | f + 4 =>
    right
    refine ⟨f + 1, ?_⟩
    simp only [execStmt, evalExpr, mkClosure, X.bind_def, X.pure_def]
    cases evalExprs (f + 1) {} defaults s with
    | mk s1 r =>
      cases r with
      | error e => rfl
      | ok dvs =>
        simp [evalOptExprs, X.bind_def, X.pure_def, addFunc, assignAll, bindTarget, bindName, X.modify,
          zipOpt, lamClosure, bindFun, argsNames_simple]

/-! ### default values: loads in the enclosing scope (`_UpScopeCtx`) -/

/-- `st` with the list of missing names (and the effect log) of `t` -/
def withMissing (st t : AState) : AState := { st with missing := t.missing, log := t.log }

theorem checkLoad_shape (reg : Registry) (st : AState) (n : Str) (ids : List Nat) (l : Nat) :
    checkLoad reg st n ids l = withMissing st (checkLoad reg st n ids l) := by
  unfold checkLoad withMissing
  dsimp only
  split
  · split <;> rfl
  · rfl

/-- module-level loads only touch the list of missing names and the log -/
theorem loads_shape (reg : Registry) : ∀ (L : List Str) (st : AState), st.inFunc = false →
    runOps reg st (L.map Op.load) = withMissing st (runOps reg st (L.map Op.load))
  | [], st, _ => rfl
  | d :: L, st, hf => by
    have hrun : runOps reg st ((d :: L).map Op.load) =
        runOps reg (checkLoad reg st d st.stack.ids st.line) (L.map Op.load) := by
      simp [runOps, step, hf]
    rw [hrun]
    have h1 := checkLoad_shape reg st d st.stack.ids st.line
    have hf1 : (checkLoad reg st d st.stack.ids st.line).inFunc = false := by rw [h1]; exact hf
    have h2 := loads_shape reg L _ hf1
    rw [h2]
    generalize runOps reg (checkLoad reg st d st.stack.ids st.line) (L.map Op.load) = t
    rw [h1]
    rfl

/-- the state in which the default values of a function whose argument scope has just been pushed are visited -/
def upOf (sP : AState) : AState := { sP with saved := sP.stack :: sP.saved, stack := sP.stack.up }

/-- `visit_arguments` with default values = the loads of the defaults in the enclosing scope, then `visit_arguments`
    without defaults -/
theorem cArgs_defaults (fx : Fixes) (reg : Registry) (D : Bool) (sP : AState) (hf : sP.inFunc = false) (ps : List Param)
    (defaults : List Expr) (hps : ps.all simpleParam = true) (hd : fragBExprs D defaults = true) (rest : List Op) :
    runOps reg sP (cArgs fx (.mk ps defaults none [] [] none) ++ rest) =
      runOps reg (withMissing sP (runOps reg (upOf sP) ((loadsOfs defaults).map Op.load)))
        (cArgs fx (.mk ps [] none [] [] none) ++ rest) := by
  simp only [cArgs, cExprs, cOptExprs, cParamAnns, cParamAnns_simple fx ps hps, ite_self, List.append_nil, List.nil_append,
    List.cons_append, List.append_assoc, cExprs_loads fx D defaults hd, cParams_simple fx ps hps, cParams]
  rw [runOps_cons', runOps_append]
  have hU : step reg sP .upScope = upOf sP := rfl
  rw [hU]
  have hfU : (upOf sP).inFunc = false := hf
  rw [loads_shape reg _ (upOf sP) hfU]
  generalize runOps reg (upOf sP) ((loadsOfs defaults).map Op.load) = t
  rfl


/-! ### the analysis of `lambda params: e` at module level -/

theorem foldl_storeTop_frame : ∀ (names : List Str) (s0 : AState),
    (names.foldl storeTop s0).inClass = s0.inClass ∧ (names.foldl storeTop s0).saved = s0.saved ∧
    (names.foldl storeTop s0).savedFunc = s0.savedFunc ∧ (names.foldl storeTop s0).line = s0.line ∧
    (∀ i, i ≠ s0.stack.top → (names.foldl storeTop s0).heap.get i = s0.heap.get i) ∧
    (∀ i, ((names.foldl storeTop s0).heap.get i).isClass = (s0.heap.get i).isClass)
  | [], s0 => ⟨rfl, rfl, rfl, rfl, fun _ _ => rfl, fun _ => rfl⟩
  | n :: r, s0 => by
    obtain ⟨h1, h2, h3, h4, h5, h6⟩ := foldl_storeTop_frame r (storeTop s0 n)
    simp only [List.foldl_cons]
    refine ⟨h1, h2, h3, h4, fun i hi => ?_, fun i => ?_⟩
    · rw [h5 i hi]
      simp only [storeTop, Heap.get_update]
      rw [if_neg (fun hc => hi hc.1)]
    · rw [h6 i]
      simp only [storeTop, Heap.get_update]
      split
      · rename_i hc; rw [hc.1]; rfl
      · rfl

/-- the state in which the body of `lambda params: e` is analysed -/
def lamStart (st : AState) (params : List Str) : AState :=
  let s1 := params.foldl storeTop (pushed st)
  let s2 : AState := { s1 with savedFunc := s1.inFunc :: s1.savedFunc, inFunc := true }
  pushed s2

theorem stackOK_args {st : AState} (h : ModInv st) (s1 : AState) (hs : s1.stack = (pushed st).stack)
    (hl : s1.heap.length = (pushed st).heap.length) (hold : ∀ i, i < st.heap.length → s1.heap.get i = st.heap.get i)
    (hc : (s1.heap.get st.heap.length).isClass = false) : StackOK s1 := by
  have hp := stackOK_push h.ok
  refine ⟨by rw [hs]; exact hp.wf, fun i hi => by rw [hs] at hi; rw [hl]; exact hp.idsLt i hi, ?_, ?_, by rw [hl]; exact hp.len3⟩
  · intro i hi
    rw [hs] at hi
    change i ∈ st.stack.ids ++ [st.heap.length] at hi
    simp only [List.mem_append, List.mem_singleton] at hi
    rcases hi with hi | rfl
    · rw [hold i (h.ok.idsLt i hi)]; exact h.ok.noClass i hi
    · exact hc
  · have : delayedId < st.heap.length := by unfold delayedId; have := h.ok.len3; omega
    rw [hold _ this]; exact h.ok.delayedEmpty

theorem pushed_eq_step (reg : Registry) {st : AState} (h : StackOK st) (ic uh : Bool) :
    step reg st (.pushScope ic false uh) = pushed st := by
  rw [step_push h]; rfl

theorem lam_prefix (fx : Fixes) (reg : Registry) {st : AState} (h : ModInv st) (ps : List Param) (hps : ps.all simpleParam = true)
    (rest : List Op) :
    runOps reg st ([.pushScope true false false] ++ cArgs fx (.mk ps [] none [] [] none) ++
        [.enterFunc, .pushScope false false false] ++ rest) = runOps reg (lamStart st (paramNames ps)) rest := by
  simp only [cArgs, cExprs, cOptExprs, cParamAnns, cParamAnns_simple fx ps hps, ite_self,
    List.append_nil, List.nil_append, List.cons_append, List.append_assoc, cParams_simple fx ps hps, cParams]
  rw [runOps_cons', pushed_eq_step reg h.ok, runOps_cons']
  let sU : AState := { pushed st with saved := (pushed st).stack :: (pushed st).saved, stack := (pushed st).stack.up }
  have e3 : step reg (pushed st) .upScope = sU := rfl
  have e4 : step reg sU .downScope = pushed st := rfl
  rw [e3, runOps_cons', e4, runOps_append, runOps_stores]
  have htop : (pushed st).stack.top = st.heap.length := pushed_top st
  have hlt : (pushed st).stack.top < (pushed st).heap.length := by
    rw [htop]; show st.heap.length < (st.heap ++ [_]).length; simp
  obtain ⟨k1, k2, _, _, _, _⟩ := storeKeys_get (paramNames ps) (pushed st) hlt
  obtain ⟨_, _, _, _, f5, f6⟩ := foldl_storeTop_frame (paramNames ps) (pushed st)
  have hok2 : StackOK { (paramNames ps).foldl storeTop (pushed st) with
      savedFunc := ((paramNames ps).foldl storeTop (pushed st)).inFunc :: ((paramNames ps).foldl storeTop (pushed st)).savedFunc,
      inFunc := true } := by
    apply stackOK_args h
    · exact k1
    · exact k2
    · intro i hi
      show ((paramNames ps).foldl storeTop (pushed st)).heap.get i = _
      rw [f5 i (by rw [htop]; omega)]
      exact pushed_get_old st hi
    · show (((paramNames ps).foldl storeTop (pushed st)).heap.get st.heap.length).isClass = false
      rw [f6, pushed_get_new]
  rw [runOps_cons']
  show runOps reg (step reg { (paramNames ps).foldl storeTop (pushed st) with
      savedFunc := ((paramNames ps).foldl storeTop (pushed st)).inFunc :: ((paramNames ps).foldl storeTop (pushed st)).savedFunc,
      inFunc := true } (.pushScope false false false)) rest = _
  rw [pushed_eq_step reg hok2]
  rfl

theorem lamStart_facts (st : AState) (hf : st.inFunc = false) (pn : List Str) :
    let sB := lamStart st pn
    sB.inFunc = true ∧ sB.inClass = st.inClass ∧ sB.missing = st.missing ∧ sB.deferred = st.deferred ∧
    sB.heap.length = st.heap.length + 2 ∧ sB.stack.ids = st.stack.ids ++ [st.heap.length] ++ [st.heap.length + 1] ∧
    sB.saved = { ids := st.stack.ids ++ [st.heap.length], sharedDelayed := st.stack.sharedDelayed } :: st.stack :: st.saved ∧
    sB.savedFunc = false :: st.savedFunc ∧
    (∀ i, i < st.heap.length → sB.heap.get i = st.heap.get i) ∧
    (∀ k, (sB.heap.get st.heap.length).get k = if k ∈ pn then some Val.none else none) ∧
    (∀ k, (sB.heap.get (st.heap.length + 1)).get k = none) := by
  intro sB
  have htop : (pushed st).stack.top = st.heap.length := pushed_top st
  have hlt : (pushed st).stack.top < (pushed st).heap.length := by
    rw [htop]; show st.heap.length < (st.heap ++ [_]).length; simp
  obtain ⟨k1, k2, k3, k4, k5, k6⟩ := storeKeys_get pn (pushed st) hlt
  obtain ⟨f1, f2, f3, _, f5, _⟩ := foldl_storeTop_frame pn (pushed st)
  let s1 := pn.foldl storeTop (pushed st)
  have hlen1 : s1.heap.length = st.heap.length + 1 := by
    show (pn.foldl storeTop (pushed st)).heap.length = _
    rw [k2]; show (st.heap ++ [_]).length = _; simp
  have hheap : sB.heap = s1.heap ++ [({} : Scope)] := rfl
  refine ⟨rfl, f1, k4, k5, ?_, ?_, ?_, ?_, ?_, ?_, ?_⟩
  · rw [hheap]; simp [hlen1]
  · show s1.stack.ids ++ [s1.heap.length] = _
    rw [hlen1]; show (pn.foldl storeTop (pushed st)).stack.ids ++ _ = _; rw [k1]; rfl
  · show ({ ids := s1.stack.ids, sharedDelayed := s1.stack.sharedDelayed } : StackRef) :: s1.saved = _
    show ({ ids := (pn.foldl storeTop (pushed st)).stack.ids, sharedDelayed := (pn.foldl storeTop (pushed st)).stack.sharedDelayed } : StackRef)
      :: (pn.foldl storeTop (pushed st)).saved = _
    rw [k1, f2]; rfl
  · show s1.inFunc :: s1.savedFunc = _
    show (pn.foldl storeTop (pushed st)).inFunc :: (pn.foldl storeTop (pushed st)).savedFunc = _
    rw [k3, f3]; show st.inFunc :: st.savedFunc = _; rw [hf]
  · intro i hi
    rw [hheap, Heap.get_append_left _ _ (by omega)]
    show (pn.foldl storeTop (pushed st)).heap.get i = _
    rw [f5 i (by rw [htop]; omega)]
    exact pushed_get_old st hi
  · intro k
    rw [hheap, Heap.get_append_left _ _ (by omega)]
    show ((pn.foldl storeTop (pushed st)).heap.get st.heap.length).get k = _
    rw [k6, htop]
    by_cases hk : k ∈ pn
    · simp [hk]
    · simp only [hk, and_false, ↓reduceIte]
      rw [pushed_get_new]; rfl
  · intro k
    rw [hheap, ← hlen1, Heap.get_append_new]; rfl

theorem lam_suffix (reg : Registry) (sE : AState) (S P : StackRef) (R : List StackRef) (b : Bool) (F : List Bool)
    (h1 : sE.saved = S :: P :: R) (h2 : sE.savedFunc = b :: F) :
    ∃ lg, runOps reg sE [.popScope, .exitFunc, .popScope] =
      { sE with stack := P, saved := R, inFunc := b, savedFunc := F, log := lg } := by
  simp only [runOps, List.foldl_cons, List.foldl_nil, step, AState.emit, h1, h2]
  exact ⟨_, rfl⟩

theorem Frozen.weaken {st : AState} {A A' : List Str} {e : Deferred} (h : Frozen st A e) (hs : ∀ k ∈ A, k ∈ A') : Frozen st A' e := by
  obtain ⟨a, c, h1, h2, h3, h4, h5, h6, h7⟩ := h
  exact ⟨a, c, h1, h2, h3, h4, h5, fun k v hv => ⟨hs k (h6 k v hv).1, (h6 k v hv).2⟩, fun k v hv => ⟨hs k (h7 k v hv).1, (h7 k v hv).2⟩⟩


/-! ### the scope in which default values are visited -/

/-- the analysis state while the default values of a function defined at module level in state `st` are visited:
    the argument scope has been pushed (and is not on the stack again: `_UpScopeCtx`), the line is `ln` -/
def upState (st : AState) (ln : Nat) : AState :=
  { pushed st with line := ln, saved := (pushed st).stack :: (pushed st).saved,
                   stack := { ids := st.stack.ids, sharedDelayed := false } }

theorem upOf_pushed (st : AState) (h : StackOK st) (ln : Nat) : upOf { pushed st with line := ln } = upState st ln := by
  unfold upOf upState
  have : ({ pushed st with line := ln } : AState).stack.up = { ids := st.stack.ids, sharedDelayed := false } := up_pushed st h
  rw [this]

theorem Corr.congrIds {D : Bool} {s : XState} {st st2 : AState} (h : Corr D s st) (hok : StackOK st)
    (hids : st2.stack.ids = st.stack.ids) (hcell : ∀ i, i < st.heap.length → st2.heap.get i = st.heap.get i)
    (hlen : st.heap.length ≤ st2.heap.length) (hf : st2.inFunc = false) (hm : ∀ m ∈ st.missing, m ∈ st2.missing) :
    Corr D s st2 := by
  have hc : ∀ i ∈ normIds st.stack.ids, st2.heap.get i = st.heap.get i :=
    fun i hi => hcell i (hok.idsLt i (by rw [← hok.wf]; exact hi))
  have htop : st2.stack.top = st.stack.top := by unfold StackRef.top; rw [hids]
  refine ⟨fun n hn => ?_, ?_, fun n hn => ?_, hf, by rw [htop, hids]; exact h.topMem,
    by rw [htop]; exact Nat.lt_of_lt_of_le h.topLt hlen, fun hD => ?_⟩
  · rw [h.names n hn]
    unfold unboundA
    rw [hids]
    constructor
    · intro hu i hi; rw [hc i hi]; exact hu i hi
    · intro hu i hi; rw [← hc i hi]; exact hu i hi
  · have h0 := h.noStar
    unfold noStarA hasStar at h0 ⊢
    rw [hids]
    rw [List.any_eq_false] at h0 ⊢
    intro i hi
    rw [hc i (mem_normIds_iff.mpr (.inr (.inr hi)))]; exact h0 i hi
  · obtain ⟨m, hm1, hm2⟩ := h.ne n hn
    exact ⟨m, hm m hm1, hm2⟩
  · intro i hi k v hv
    rw [hids] at hi
    rw [hc i hi] at hv
    obtain ⟨j, hj, w, hw⟩ := h.dk hD i hi k v hv
    exact ⟨j, by rw [hids]; exact hj, w, by rw [hc j hj]; exact hw⟩

theorem RD.congrIds {D : Bool} {reg : Registry} {st st2 : AState} (h : RD D reg st) (hok : StackOK st)
    (hids : st2.stack.ids = st.stack.ids) (hcell : ∀ i, i < st.heap.length → st2.heap.get i = st.heap.get i) :
    RD D reg st2 := by
  intro hD
  obtain ⟨h1, h2⟩ := h hD
  refine ⟨fun i hi k v hv p => ?_, h2⟩
  rw [hids] at hi
  rw [hcell i (hok.idsLt i (by rw [← hok.wf]; exact hi))] at hv
  exact h1 i hi k v hv p

theorem upState_cell (st : AState) (ln : Nat) (i : Nat) (hi : i < st.heap.length) : (upState st ln).heap.get i = st.heap.get i :=
  pushed_get_old st hi

theorem corr_up {D : Bool} {s : XState} {st : AState} (h : Corr D s st) (hok : StackOK st) (ln : Nat) :
    Corr D s (upState st ln) :=
  h.congrIds hok rfl (upState_cell st ln) (by show _ ≤ (st.heap ++ [_]).length; simp) h.inFunc (fun _ hm => hm)

theorem modInv_withMissing {st : AState} (h : ModInv st) (t : AState) : ModInv (withMissing st t) :=
  ⟨h.inFunc, h.inClass, ⟨h.ok.wf, h.ok.idsLt, h.ok.noClass, h.ok.delayedEmpty, h.ok.len3⟩⟩

theorem def_pre (reg : Registry) {st : AState} (h : ModInv st) (ln : Nat) (rest : List Op) :
    runOps reg st (.pushScope true false false :: .dunderClass :: .setLine ln :: rest) =
      runOps reg { pushed st with line := ln } rest := by
  rw [runOps_cons', pushed_eq_step reg h.ok, runOps_cons']
  have e2 : step reg (pushed st) .dunderClass = pushed st := by
    have : (pushed st).inClass = 0 := h.inClass
    simp [step, this]
  rw [e2, runOps_cons']
  rfl

/-- the analysis of a `def` with default values = the (module-level) loads of the defaults, then the `def` without -/
theorem def_defaults_eq (fx : Fixes) (reg : Registry) (D : Bool) {st : AState} (h : ModInv st) (ln : Nat) (name : Str)
    (ps : List Param) (defaults : List Expr) (body : List Stmt) (hps : ps.all simpleParam = true)
    (hd : fragBExprs D defaults = true) :
    runOps reg st (cStmt fx ln (.funcDef name (.mk ps defaults none [] [] none) body [] none)) =
      runOps reg (withMissing st (runOps reg (upState st ln) ((loadsOfs defaults).map Op.load)))
        (cStmt fx ln (.funcDef name (.mk ps [] none [] [] none) body [] none)) := by
  simp only [cStmt, cDecos, cRet, List.append_nil, List.nil_append, List.cons_append, List.append_assoc]
  rw [def_pre reg h, def_pre reg (modInv_withMissing h _)]
  rw [cArgs_defaults fx reg D _ (show ({ pushed st with line := ln } : AState).inFunc = false from h.inFunc) ps defaults hps hd,
    upOf_pushed st h.ok ln]
  rfl

theorem cAll_lambda (g : Str) (a : Args) (e : Expr) : cAll [Expr.name g] (.lambda a e) = [] := by
  simp [cAll, singleName, seqElts]

theorem lam_defaults_eq (fx : Fixes) (reg : Registry) (D : Bool) {st : AState} (h : ModInv st) (ln : Nat) (g : Str)
    (ps : List Param) (defaults : List Expr) (e : Expr) (hps : ps.all simpleParam = true)
    (hd : fragBExprs D defaults = true) :
    runOps reg st (cStmt fx ln (.assign [.name g] (.lambda (.mk ps defaults none [] [] none) e))) =
      runOps reg (withMissing st (runOps reg (upState st st.line) ((loadsOfs defaults).map Op.load)))
        (cStmt fx ln (.assign [.name g] (.lambda (.mk ps [] none [] [] none) e))) := by
  simp only [cStmt, cExpr, cAll_lambda, List.append_nil, List.nil_append, List.cons_append, List.append_assoc]
  rw [runOps_cons', pushed_eq_step reg h.ok, runOps_cons', pushed_eq_step reg (modInv_withMissing h _).ok]
  rw [cArgs_defaults fx reg D _ (show (pushed st).inFunc = false from h.inFunc) ps defaults hps hd]
  have : upOf (pushed st) = upState st st.line := upOf_pushed st h.ok st.line
  rw [this]
  rfl


theorem lamStart_top (st : AState) (hf : st.inFunc = false) (pn : List Str) :
    (lamStart st pn).stack.top = st.heap.length + 1 := by
  have := (lamStart_facts st hf pn).2.2.2.2.2.1
  unfold StackRef.top; rw [this]; simp [List.getLastD_eq_getLast?]

/-- the analysis of the expression `lambda params: e` at module level -/
theorem lamA (fx : Fixes) (reg : Registry) (D : Bool) {st : AState} (h : ModInv st) (htl : st.stack.top < st.heap.length)
    (ps : List Param) (e : Expr) (hps : ps.all simpleParam = true) (he : fragBExpr D e = true) :
    let st' := runOps reg st (cExpr fx (.lambda (.mk ps [] none [] [] none) e))
    st'.stack = st.stack ∧ st'.inFunc = false ∧ st'.inClass = st.inClass ∧ st'.missing = st.missing ∧
    st.heap.length ≤ st'.heap.length ∧
    (∀ i, i < st.heap.length → st'.heap.get i = st.heap.get i) ∧
    (∃ E, st'.deferred = st.deferred ++ E ∧ ∀ x ∈ E, x.name ∈ loadsOf e ∧ Frozen st' (paramNames ps) x) ∧
    ((D = true → DK st) → ∀ d ∈ loadsOf e, goodDotted d = true → (dotFree d = false → D = true) →
      headOf d ∉ paramNames ps →
      BoundA st' (headOf d) ∨ ∃ x ∈ st'.deferred, x.name = d ∧ Frozen st' (paramNames ps) x) := by
  intro st'
  have hf := h.inFunc
  obtain ⟨b1, b2, b3, b4, b5, b6, b7, b8, b9, b10, b11⟩ := lamStart_facts st hf (paramNames ps)
  have htopB := lamStart_top st hf (paramNames ps)
  have htlB : (lamStart st (paramNames ps)).stack.top < (lamStart st (paramNames ps)).heap.length := by
    rw [htopB, b5]; omega
  obtain ⟨d1, _, d3⟩ := loadsF (A := []) reg htlB (loadsOf e) _ (During.refl _) b1
  obtain ⟨lg, hsuf⟩ := lam_suffix reg (runOps reg (lamStart st (paramNames ps)) ((loadsOf e).map Op.load)) _ _ _ _ _
    (d1.saved.trans b7) (d1.savedFunc.trans b8)
  have hst' : st' = { runOps reg (lamStart st (paramNames ps)) ((loadsOf e).map Op.load) with
      stack := st.stack, saved := st.saved, inFunc := false, savedFunc := st.savedFunc, log := lg } := by
    show runOps reg st (cExpr fx (.lambda (.mk ps [] none [] [] none) e)) = _
    simp only [cExpr, cExpr_loads fx D e he]
    rw [List.append_assoc, lam_prefix fx reg h ps hps, runOps_append]
    exact hsuf
  have hlenE := d1.len
  have hheap' : st'.heap = (runOps reg (lamStart st (paramNames ps)) ((loadsOf e).map Op.load)).heap := by rw [hst']
  have hdef' : st'.deferred = (runOps reg (lamStart st (paramNames ps)) ((loadsOf e).map Op.load)).deferred := by rw [hst']
  have hstack' : st'.stack = st.stack := by rw [hst']
  have holdE : ∀ i, i < st.heap.length → st'.heap.get i = st.heap.get i := by
    intro i hi
    rw [hheap', d1.old i (by rw [b5]; omega) (by rw [htopB]; omega), b9 i hi]
  have hfroz : ∀ (x : Deferred) (c : Nat), (lamStart st (paramNames ps)).heap.length ≤ c →
      c < (runOps reg (lamStart st (paramNames ps)) ((loadsOf e).map Op.load)).heap.length →
      x.ids = normIds ((lamStart st (paramNames ps)).stack.ids.dropLast ++ [c]) →
      Frozen st' (paramNames ps) x := by
    intro x c hc1 hc2 hc3
    refine ⟨st.heap.length, c, ?_, ?_, ?_, ?_, ?_, ?_, ?_⟩
    · rw [hc3, b6, List.dropLast_concat, hstack']
    · rw [hheap']; rw [b5] at hlenE; omega
    · rw [hheap']; exact hc2
    · rw [hstack']; omega
    · rw [hstack']; rw [b5] at hc1; omega
    · intro k v hv
      rw [hheap', d1.old _ (by rw [b5]; omega) (by rw [htopB]; omega), b10] at hv
      by_cases hk : k ∈ paramNames ps
      · simp only [hk, ↓reduceIte, Option.some.injEq] at hv
        exact ⟨hk, paramNames_simple ps hps k hk, hv.symm⟩
      · simp [hk] at hv
    · intro k v hv
      rw [hheap'] at hv
      rcases d1.vals c (.inr hc1) k v hv with h1 | ⟨_, _, h3⟩
      · rw [htopB, b11] at h1; cases h1
      · cases h3
  refine ⟨hstack', by rw [hst'], ?_, ?_, ?_, holdE, ?_, ?_⟩
  · rw [hst']; show (runOps reg _ _).inClass = _; rw [d1.inClass, b2]
  · rw [hst']; show (runOps reg _ _).missing = _; rw [d1.missing, b3]
  · rw [hheap']; rw [b5] at hlenE; omega
  · obtain ⟨E, hE, hEf⟩ := d1.deferred
    obtain ⟨E2, hE2, hEn⟩ := (dn_loads reg (loadsOf e) _ b1).1
    have hEE : E2 = E := List.append_cancel_left (hE2.symm.trans hE)
    subst hEE
    refine ⟨E2, by rw [hdef', hE, b4], fun x hx => ⟨hEn x hx, ?_⟩⟩
    obtain ⟨c, hc1, hc2, hc3⟩ := hEf x hx
    exact hfroz x c hc1 hc2 hc3
  · intro hdk d hd hg hDd hnl
    obtain ⟨stt, c1, c2, c3⟩ := d3 d hd
    have hidsB : stt.stack.ids = st.stack.ids ++ [st.heap.length] ++ [st.heap.length + 1] := by rw [c1.stack, b6]
    have hids : ∀ i, i ∈ normIds stt.stack.ids ↔ (i ∈ normIds st.stack.ids ∨ i = st.heap.length ∨ i = st.heap.length + 1) := by
      intro i
      rw [hidsB]
      simp only [mem_normIds_iff, List.mem_append, List.mem_singleton]
      grind
    have hsttOld : ∀ i, i < st.heap.length → stt.heap.get i = st.heap.get i := by
      intro i hi
      rw [c1.old i (by rw [b5]; omega) (by rw [htopB]; omega), b9 i hi]
    have hsttA : ∀ k v, (stt.heap.get st.heap.length).get k = some v → k ∈ paramNames ps := by
      intro k v hv
      rw [c1.old _ (by rw [b5]; omega) (by rw [htopB]; omega), b10] at hv
      by_cases hk : k ∈ paramNames ps
      · exact hk
      · simp [hk] at hv
    have hsttB : ∀ k v, (stt.heap.get (st.heap.length + 1)).get k = some v → False := by
      intro k v hv
      rcases c1.vals (st.heap.length + 1) (.inl htopB.symm) k v hv with h1 | ⟨_, _, h3⟩
      · rw [htopB, b11] at h1; cases h1
      · cases h3
    by_cases hs : (symbolNeedsImport reg stt.heap stt.stack.ids d).1 = true
    · right
      obtain ⟨x, hx, hxn, c, hc1, hc2, hc3⟩ := c3 hs
      exact ⟨x, by rw [hdef']; exact hx, hxn, hfroz x c hc1 hc2 hc3⟩
    · left
      have hdkstt : dotFree d = false → DK stt := by
        intro hdf
        have hdk0 := hdk (hDd hdf)
        intro i hi k v hv
        rcases (hids i).mp hi with hi0 | rfl | rfl
        · have hilt : i < st.heap.length := h.ok.idsLt i (by rw [← h.ok.wf]; exact hi0)
          rw [hsttOld i hilt] at hv
          obtain ⟨j, hj, w, hw⟩ := hdk0 i hi0 k v hv
          have hjlt : j < st.heap.length := h.ok.idsLt j (by rw [← h.ok.wf]; exact hj)
          exact ⟨j, (hids j).mpr (.inl hj), w, by rw [hsttOld j hjlt]; exact hw⟩
        · have hk := paramNames_simple ps hps k (hsttA k v hv)
          exact ⟨_, hi, v, by rw [headOf_simple hk]; exact hv⟩
        · exact absurd hv (fun hv => hsttB k v hv)
      have hbnd : ¬ unboundA stt (headOf d) := fun hu => hs (sni_unbound reg stt hg hu hdkstt)
      obtain ⟨i, hi, w, hw⟩ := not_unboundA.mp hbnd
      rcases (hids i).mp hi with hi0 | rfl | rfl
      · have hilt : i < st.heap.length := h.ok.idsLt i (by rw [← h.ok.wf]; exact hi0)
        rw [hsttOld i hilt] at hw
        exact ⟨i, by rw [hstack']; exact hi0, w, by rw [holdE i hilt]; exact hw⟩
      · exact absurd (hsttA _ w hw) hnl
      · exact absurd hw (fun hw => hsttB _ w hw)


/-! ### what the analysis of a function-creating statement (without default values) does at module level -/

/-- `st'` = the analysis state after a statement that defines the function `name` whose body has the locals `locs` and
    loads `loads` (the conclusion of `defA`, as a structure) -/
structure FunAna (D : Bool) (st st' : AState) (name : Str) (locs loads : List Str) : Prop where
  stack : st'.stack = st.stack
  inFunc : st'.inFunc = false
  inClass : st'.inClass = st.inClass
  missing : st'.missing = st.missing
  len : st.heap.length ≤ st'.heap.length
  old : ∀ i, i < st.heap.length → i ≠ st.stack.top → st'.heap.get i = st.heap.get i
  top : ∀ n, (st'.heap.get st.stack.top).get n = if n = name then some Val.none else (st.heap.get st.stack.top).get n
  cls : (st'.heap.get st.stack.top).isClass = (st.heap.get st.stack.top).isClass
  entries : ∃ E, st'.deferred = st.deferred ++ E ∧ ∀ e ∈ E, e.name ∈ loads ∧ Frozen st' (locs ++ [name]) e
  cover : st.stack.top ∈ normIds st.stack.ids → (D = true → DK st) → ∀ d ∈ loads, goodDotted d = true →
    (dotFree d = false → D = true) → headOf d ∉ locs →
    BoundA st' (headOf d) ∨ ∃ e ∈ st'.deferred, e.name = d ∧ Frozen st' (locs ++ [name]) e

theorem funAna_def (fx : Fixes) (reg : Registry) (D : Bool) {st : AState} (h : ModOK st) (ln : Nat) (name : Str)
    (ps : List Param) (body : List Stmt) (hn : simpleName name = true) (hps : ps.all simpleParam = true)
    (hb : body.all (fbodyStmt D) = true) :
    FunAna D st (runOps reg st (cStmt fx ln (.funcDef name (.mk ps [] none [] [] none) body [] none))) name
      (paramNames ps ++ boundStmts body) (bodyLoads body) := by
  obtain ⟨a1, a2, a3, a4, a5, a6, a7, a8, a9, a10⟩ := defA fx reg D h.inv h.topLt ln name ps body hn hps hb
  exact ⟨a1, a2, a3, a4, a5, a6, a7, a8, a9, a10⟩

theorem funAna_lam (fx : Fixes) (reg : Registry) (D : Bool) {st : AState} (h : ModOK st) (ln : Nat) (g : Str)
    (ps : List Param) (e : Expr) (hps : ps.all simpleParam = true) (he : fragBExpr D e = true) :
    FunAna D st (runOps reg st (cStmt fx ln (.assign [.name g] (.lambda (.mk ps [] none [] [] none) e)))) g
      (paramNames ps) (loadsOf e) := by
  obtain ⟨l1, l2, l3, l4, l5, l6, l7, l8⟩ := lamA fx reg D h.inv h.topLt ps e hps he
  have hrun : runOps reg st (cStmt fx ln (.assign [.name g] (.lambda (.mk ps [] none [] [] none) e))) =
      storeTop (runOps reg st (cExpr fx (.lambda (.mk ps [] none [] [] none) e))) g := by
    simp only [cStmt, cAll_lambda, List.append_nil, runOps_append]
    simp [cTargets, cTarget, runOps, step]
  rw [hrun]
  generalize runOps reg st (cExpr fx (.lambda (.mk ps [] none [] [] none) e)) = st' at l1 l2 l3 l4 l5 l6 l7 l8
  have htop' : st'.stack.top = st.stack.top := by rw [l1]
  have htl' : st'.stack.top < st'.heap.length := by rw [htop']; exact Nat.lt_of_lt_of_le h.topLt l5
  have hget := storeTop_get st' htl' g
  have hms := modStep_storeTop st' g htl'
  refine ⟨l1, l2, l3, l4, by simp [storeTop, Heap.length_update]; exact l5, ?_, ?_, ?_, ?_, ?_⟩
  · intro i hi hne
    have : (storeTop st' g).heap.get i = st'.heap.get i := by
      simp only [storeTop, Heap.get_update]
      rw [if_neg (fun hc => hne (hc.1.trans htop'))]
    rw [this, l6 i hi]
  · intro n
    rw [hget, htop', l6 _ h.topLt]
    by_cases hn : n = g <;> simp [hn]
  · have := hms.cls
    rw [htop', l6 _ h.topLt] at this
    exact this
  · obtain ⟨E, hE, hEf⟩ := l7
    refine ⟨E, hE, fun x hx => ⟨(hEf x hx).1, ?_⟩⟩
    exact ((hEf x hx).2.mono hms).weaken (fun k hk => List.mem_append_left _ hk)
  · intro _ hdk d hd hg hDd hnl
    rcases l8 hdk d hd hg hDd hnl with ⟨i, hi, w, hw⟩ | ⟨x, hx, hxn, hfz⟩
    · left
      refine ⟨i, hi, ?_⟩
      rw [hget]
      by_cases hc : i = st'.stack.top ∧ headOf d = g
      · exact ⟨Val.none, by rw [if_pos hc]⟩
      · exact ⟨w, by rw [if_neg hc]; exact hw⟩
    · right
      exact ⟨x, hx, hxn, (hfz.mono hms).weaken (fun k hk => List.mem_append_left _ hk)⟩

theorem FunAna.modStep {D : Bool} {st st' : AState} {name : Str} {locs loads : List Str} (h : FunAna D st st' name locs loads)
    (hf : st.inFunc = false) : ModStep st st' := by
  refine ⟨h.stack, h.inFunc.trans hf.symm, h.inClass, h.len, h.old, ?_, h.cls,
    (by obtain ⟨E, hE, _⟩ := h.entries; exact ⟨E, hE⟩), fun m hm => by rw [h.missing]; exact hm⟩
  intro k v hv
  rw [h.top]
  by_cases hk : k = name
  · exact ⟨Val.none, by simp [hk]⟩
  · exact ⟨v, by simp [hk, hv]⟩

/-! ### the module-level invariant of fragment H -/

/-- every global read of a closure body (loads `loads`, locals `locs`) is bound at module level, or waits in the deferred
    list with frozen scopes -/
def FunCovH (st : AState) (locs loads : List Str) : Prop :=
  ∃ fname, BoundA st fname ∧ ∀ d ∈ loads, headOf d ∉ locs →
    BoundA st (headOf d) ∨ ∃ e ∈ st.deferred, e.name = d ∧ Frozen st (locs ++ [fname]) e

theorem FunCovH.mono {st st' : AState} {locs loads : List Str} (h : FunCovH st locs loads) (hok : StackOK st)
    (hs : ModStep st st') : FunCovH st' locs loads := by
  obtain ⟨fname, hb, hc⟩ := h
  refine ⟨fname, hb.mono hok hs, fun d hd hnl => ?_⟩
  rcases hc d hd hnl with h1 | ⟨e, he, hen, hfz⟩
  · exact .inl (h1.mono hok hs)
  · obtain ⟨E, hE⟩ := hs.deferred
    exact .inr ⟨e, by rw [hE]; exact List.mem_append_left _ he, hen, hfz.mono hs⟩

structure CorrH (D : Bool) (s : XState) (st : AState) : Prop where
  corr : Corr D s st
  ok : ModOK st
  shape : ∀ c ∈ s.funcs, ClosOK D c
  cov : ∀ c ∈ s.funcs, FunCovH st c.locals (closLoads c)

theorem CorrH.line {D : Bool} {s : XState} {st : AState} (h : CorrH D s st) (l : Nat) :
    CorrH D { s with line := l } { st with line := l } := by
  have h0 : ModStep st { st with line := l } := ModStep.of_heap rfl rfl rfl rfl ⟨[], by simp⟩ (fun _ h => h)
  exact ⟨(h.corr.line l).setLine l, h.ok.step h0, h.shape, fun c hm => (h.cov c hm).mono h.ok.inv.ok h0⟩

/-- nothing reported so far; every deferred entry belongs to the body of a closure and has frozen scopes -/
structure PlainInvH (D : Bool) (reg : Registry) (s : XState) (st : AState) : Prop where
  missing : st.missing = []
  entries : ∀ e ∈ st.deferred, ∃ c ∈ s.funcs, ∃ fname, e.name ∈ closLoads c ∧ Frozen st (c.locals ++ [fname]) e
  rd : RD D reg st

theorem PlainInvH.step {D : Bool} {reg : Registry} {s s' : XState} {st st' : AState} (h : PlainInvH D reg s st)
    (hm : st'.missing = st.missing) (hd : st'.deferred = st.deferred) (hs : ModStep st st') (hf : s'.funcs = s.funcs)
    (hrd : RD D reg st') : PlainInvH D reg s' st' := by
  refine ⟨hm.trans h.missing, fun e he => ?_, hrd⟩
  rw [hd] at he
  obtain ⟨c, hc, fname, h3, h4⟩ := h.entries e he
  exact ⟨c, by rw [hf]; exact hc, fname, h3, h4.mono hs⟩

theorem PlainInvH.line {D : Bool} {reg : Registry} {s : XState} {st : AState} (h : PlainInvH D reg s st) (l : Nat) :
    PlainInvH D reg { s with line := l } { st with line := l } :=
  h.step rfl rfl (ModStep.of_heap rfl rfl rfl rfl ⟨[], by simp⟩ (fun _ h => h)) rfl (h.rd.congr rfl rfl)

/-- one module-level statement of fragment H, reference semantics and analysis in lock step: soundness so far, the
    invariant when the statement succeeds, and the precision invariant when moreover every read is executed (`pl`) -/
def StepH (fx : Fixes) (reg : Registry) (D : Bool) (ln f : Nat) (stmt : Stmt) (s : XState) (st : AState) (pl : Prop) : Prop :=
  ModStep st (runOps reg st (cStmt fx ln stmt)) ∧
  (∀ n ∈ (execStmt f {} stmt s).1.ne, ∃ m ∈ (runOps reg st (cStmt fx ln stmt)).missing,
      headOf m.name = n ∧ (D = false → m.name = n)) ∧
  (∀ fl, (execStmt f {} stmt s).2 = .ok fl → fl = Flow.normal ∧
    CorrH D (execStmt f {} stmt s).1 (runOps reg st (cStmt fx ln stmt)) ∧
    (pl → PlainInvH D reg s st → PlainInvH D reg (execStmt f {} stmt s).1 (runOps reg st (cStmt fx ln stmt))))


theorem unboundX_bindFun (s : XState) (name : Str) (c : Closure) (n : Str) :
    unboundX (bindFun s name c) n ↔ (unboundX s n ∧ n ∉ [name]) := by
  unfold unboundX bindFun
  by_cases hnn : n = name
  · subst hnn; simp [assocGet_assocSet_eq]
  · simp [assocGet_assocSet_ne hnn, hnn]

/-- a statement that evaluates default values in the enclosing scope and binds a new closure (a `def` or an assigned
    lambda of fragment H) -/
theorem stepH_fun (fx : Fixes) (reg : Registry) (D : Bool) (stmt : Stmt) (f : Nat) (s : XState) (st : AState) (ln lnU : Nat)
    (name : Str) (defaults : List Expr) (mkc : List RVal → Closure) (locs loads : List Str) (ops0 : List Op)
    (hn : simpleName name = true) (hd : fragBExprs D defaults = true)
    (hex : FunExec f stmt s defaults name mkc)
    (hmk : ∀ dvs, ClosOK D (mkc dvs) ∧ (mkc dvs).locals = locs ∧ closLoads (mkc dvs) = loads)
    (heq : runOps reg st (cStmt fx ln stmt) =
      runOps reg (withMissing st (runOps reg (upState st lnU) ((loadsOfs defaults).map Op.load))) ops0)
    (hana : ∀ st1, ModOK st1 → FunAna D st1 (runOps reg st1 ops0) name locs loads)
    (h : CorrH D s st) : StepH fx reg D ln f stmt s st (noIfExprs defaults = true) := by
  unfold StepH
  rw [heq]
  have hok0 := h.ok.inv.ok
  have hcU : Corr D s (upState st lnU) := corr_up h.corr hok0 lnU
  have hA : AnaL reg (upState st lnU) (runOps reg (upState st lnU) ((loadsOfs defaults).map Op.load)) (loadsOfs defaults) :=
    anaL_loads reg _ _ hcU.inFunc
  generalize hsU' : runOps reg (upState st lnU) ((loadsOfs defaults).map Op.load) = sU' at hA
  have hm01 : ∀ m ∈ st.missing, m ∈ (withMissing st sU').missing := fun m hm => hA.mono m hm
  have hs01 : ModStep st (withMissing st sU') :=
    ModStep.of_heap rfl rfl rfl rfl ⟨[], by simp [withMissing]⟩ hm01
  have hok1 : ModOK (withMissing st sU') := h.ok.step hs01
  have hFA := hana _ hok1
  have hs1' := hFA.modStep hok1.inv.inFunc
  have hs : ModStep st (runOps reg (withMissing st sU') ops0) := hs01.trans hs1'
  have hgood := loadss_good D defaults hd
  have hold : ∀ n ∈ s.ne, ∃ m ∈ (runOps reg (withMissing st sU') ops0).missing, headOf m.name = n ∧ (D = false → m.name = n) := by
    intro n hn'
    obtain ⟨m, hm, hmn⟩ := h.corr.ne n hn'
    exact ⟨m, hs.mono m hm, hmn⟩
  refine ⟨hs, ?_⟩
  rcases hex with hex | ⟨f', hex⟩
  · rw [hex]
    exact ⟨hold, fun fl hfl => by cases hfl⟩
  · rw [hex]
    have hE := (evalB {} (by simp [CtxOK]) D f').2 defaults s hd
    have hcov := corr_evalB hcU hA hgood hE
    cases hr : evalExprs f' {} defaults s with
    | mk s1 r =>
      rw [hr] at hE hcov
      cases r with
      | error x =>
        simp only
        refine ⟨fun n hn' => ?_, fun fl hfl => by cases hfl⟩
        obtain ⟨m, hm, hmn⟩ := hcov n hn'
        exact ⟨m, by rw [hFA.missing]; exact hm, hmn⟩
      | ok dvs =>
        simp only
        have hsame : SameUpToLog s s1 := hE.same
        have hne1 : s1.ne = s.ne := (hE.ok dvs rfl).1
        obtain ⟨hcOK, hcl, hcloads⟩ := hmk dvs
        have hc1 : Corr D s1 (withMissing st sU') :=
          (h.corr.congrIds (st2 := withMissing st sU') hok0 rfl (fun _ _ => rfl) (Nat.le_refl _) h.corr.inFunc hm01).same hsame hne1
        have hget : ∀ i ∈ normIds (withMissing st sU').stack.ids, ∀ n,
            ((runOps reg (withMissing st sU') ops0).heap.get i).get n =
              if i = (withMissing st sU').stack.top ∧ n ∈ [name] then some Val.none else ((withMissing st sU').heap.get i).get n := by
          intro i hi n
          have hilt : i < (withMissing st sU').heap.length := hok1.inv.ok.idsLt i (by rw [← hok1.inv.ok.wf]; exact hi)
          by_cases hit : i = (withMissing st sU').stack.top
          · subst hit; rw [hFA.top]; simp
          · rw [hFA.old i hilt hit]; simp [hit]
        obtain ⟨hc2, hrd2⟩ := corr_storeKeys (reg := reg) (s2 := bindFun s1 name (mkc dvs)) hc1 [name] [name]
          (unboundX_bindFun s1 name (mkc dvs)) rfl (fun _ _ => Iff.rfl)
          (by simp only [List.mem_singleton]; exact fun hc => simpleName_ne_star hn hc.symm)
          (fun _ k hk => by simp only [List.mem_singleton] at hk ⊢; rw [hk, headOf_simple hn])
          hFA.stack hFA.len hFA.inFunc hFA.missing hget
        have hfuncs : (bindFun s1 name (mkc dvs)).funcs = s.funcs ++ [mkc dvs] := by
          show s1.funcs ++ _ = _; rw [hsame.funcs]
        have hbn : BoundA (runOps reg (withMissing st sU') ops0) name :=
          ⟨(withMissing st sU').stack.top, by rw [hFA.stack]; exact hc1.topMem, Val.none, by rw [hFA.top]; simp⟩
        refine ⟨fun n hn' => hold n (by rw [← hne1]; exact hn'), fun fl hfl => ⟨by cases hfl; rfl, ⟨hc2, hok1.step hs1', ?_, ?_⟩, ?_⟩⟩
        · intro c hcm
          rw [hfuncs] at hcm
          rcases List.mem_append.mp hcm with hcm | hcm
          · exact h.shape c hcm
          · rw [List.mem_singleton.mp hcm]; exact hcOK
        · intro c hcm
          rw [hfuncs] at hcm
          rcases List.mem_append.mp hcm with hcm | hcm
          · exact (h.cov c hcm).mono hok0 hs
          · rw [List.mem_singleton.mp hcm, hcl, hcloads]
            refine ⟨name, hbn, fun d hdl hnl => ?_⟩
            obtain ⟨g1, g2⟩ := closLoads_good hcOK d (by rw [hcloads]; exact hdl)
            refine hFA.cover hc1.topMem hc1.dk d hdl g1 (fun hdf => ?_) hnl
            cases D with
            | true => rfl
            | false => rw [g2 rfl] at hdf; cases hdf
        · intro hpl hp
          have hrdU : RD D reg (upState st lnU) := hp.rd.congrIds hok0 rfl (upState_cell st lnU)
          have hmU : sU'.missing = st.missing := by
            apply hA.same
            intro d hdl
            have hgd := (hgood d hdl).1
            refine ⟨hgd, fun hun => ?_, fun hdf => ?_⟩
            · refine (hE.ok dvs rfl).2 hpl (headOf d) (List.mem_map.mpr ⟨d, hdl, rfl⟩) ⟨by simp [isGlobalIn], ?_⟩
              exact (hcU.names _ (headOf_good hgd)).mpr hun
            · apply (hrdU _).1
              cases D with
              | true => rfl
              | false => have := (hgood d hdl).2 rfl; rw [this] at hdf; cases hdf
          obtain ⟨E, hE', hEf⟩ := hFA.entries
          refine ⟨by rw [hFA.missing]; exact hmU.trans hp.missing, fun e he => ?_, hrd2 (hp.rd.congr rfl rfl)⟩
          rw [hE'] at he
          rcases List.mem_append.mp he with he | he
          · obtain ⟨c, hc, fname, h3, h4⟩ := hp.entries e he
            exact ⟨c, by rw [hfuncs]; exact List.mem_append_left _ hc, fname, h3, h4.mono hs⟩
          · obtain ⟨q1, q2⟩ := hEf e he
            exact ⟨mkc dvs, by rw [hfuncs]; exact List.mem_append_right _ (List.mem_singleton.mpr rfl), name,
              by rw [hcloads]; exact q1, by rw [hcl]; exact q2⟩


theorem StepH.weaken {fx : Fixes} {reg : Registry} {D : Bool} {ln f : Nat} {stmt : Stmt} {s : XState} {st : AState} {pl pl' : Prop}
    (h : StepH fx reg D ln f stmt s st pl) (hp : pl' → pl) : StepH fx reg D ln f stmt s st pl' := by
  obtain ⟨h1, h2, h3⟩ := h
  refine ⟨h1, h2, fun fl hfl => ?_⟩
  obtain ⟨q1, q2, q3⟩ := h3 fl hfl
  exact ⟨q1, q2, fun hpl => q3 (hp hpl)⟩

theorem fragDefH_funcDef {D : Bool} {name : Str} {a : Args} {body : List Stmt} {decos : List Expr} {ret : Option Expr}
    (h : fragDefH D (.funcDef name a body decos ret) = true) :
    ∃ ps defaults, a = .mk ps defaults none [] [] none ∧ decos = [] ∧ ret = none ∧ simpleName name = true ∧
      ps.all simpleParam = true ∧ fragBExprs D defaults = true ∧ defaults.length ≤ ps.length ∧
      body.all (fbodyStmt D) = true := by
  unfold fragDefH at h
  split at h
  · rename_i heq; cases heq
  · rename_i heq
    cases heq
    simp only [Bool.and_eq_true, decide_eq_true_eq] at h
    exact ⟨_, _, rfl, rfl, rfl, h.1.1.1.1, h.1.1.1.2, h.1.1.2, h.1.2, h.2⟩
  · cases h

theorem fragLam_assign {D : Bool} {ts : List Expr} {v : Expr} (h : fragLam D (.assign ts v) = true) :
    ∃ g ps defaults e, ts = [.name g] ∧ v = .lambda (.mk ps defaults none [] [] none) e ∧ simpleName g = true ∧
      ps.all simpleParam = true ∧ fragBExprs D defaults = true ∧ defaults.length ≤ ps.length ∧ fragBExpr D e = true := by
  unfold fragLam at h
  split at h
  · rename_i heq; cases heq
  · rename_i heq
    cases heq
    simp only [Bool.and_eq_true, decide_eq_true_eq] at h
    exact ⟨_, _, _, _, rfl, rfl, h.1.1.1.1, h.1.1.1.2, h.1.1.2, h.1.2, h.2⟩
  · cases h

/-- analysis only: a function-creating statement is a module-level step -/
theorem modStep_fun (reg : Registry) (D : Bool) (st : AState) (lnU : Nat) (L : List Str) (ops0 : List Op) (name : Str)
    (locs loads : List Str) (h : ModOK st)
    (hana : ∀ st1, ModOK st1 → FunAna D st1 (runOps reg st1 ops0) name locs loads) :
    ModStep st (runOps reg (withMissing st (runOps reg (upState st lnU) (L.map Op.load))) ops0) := by
  have hfU : (upState st lnU).inFunc = false := h.inv.inFunc
  have hmono := (modStep_loads reg L (upState st lnU) hfU).mono
  have hs01 : ModStep st (withMissing st (runOps reg (upState st lnU) (L.map Op.load))) :=
    ModStep.of_heap rfl rfl rfl rfl ⟨[], by simp [withMissing]⟩ (fun m hm => hmono m hm)
  have hok1 := h.step hs01
  exact hs01.trans ((hana _ hok1).modStep hok1.inv.inFunc)

theorem stepH_def (fx : Fixes) (reg : Registry) (D : Bool) (f : Nat) (s : XState) (st : AState) (ln : Nat) (name : Str)
    (ps : List Param) (defaults : List Expr) (body : List Stmt) (hn : simpleName name = true)
    (hps : ps.all simpleParam = true) (hd : fragBExprs D defaults = true) (hb : body.all (fbodyStmt D) = true)
    (h : CorrH D s st) :
    StepH fx reg D ln f (.funcDef name (.mk ps defaults none [] [] none) body [] none) s st (noIfExprs defaults = true) :=
  stepH_fun fx reg D _ f s st ln ln name defaults (fun dvs => defClosureH ps dvs body) (paramNames ps ++ boundStmts body)
    (bodyLoads body) (cStmt fx ln (.funcDef name (.mk ps [] none [] [] none) body [] none)) hn hd
    (execDefH f s name ps defaults body hps) (fun dvs => ⟨closOK_def D ps dvs body hb, rfl, rfl⟩)
    (def_defaults_eq fx reg D h.ok.inv ln name ps defaults body hps hd)
    (fun _ hok => funAna_def fx reg D hok ln name ps body hn hps hb) h

theorem anaH_def (fx : Fixes) (reg : Registry) (D : Bool) (st : AState) (ln : Nat) (name : Str)
    (ps : List Param) (defaults : List Expr) (body : List Stmt) (hn : simpleName name = true)
    (hps : ps.all simpleParam = true) (hd : fragBExprs D defaults = true) (hb : body.all (fbodyStmt D) = true)
    (h : ModOK st) :
    ModStep st (runOps reg st (cStmt fx ln (.funcDef name (.mk ps defaults none [] [] none) body [] none))) := by
  rw [def_defaults_eq fx reg D h.inv ln name ps defaults body hps hd]
  exact modStep_fun reg D st ln _ _ name _ _ h (fun _ hok => funAna_def fx reg D hok ln name ps body hn hps hb)

theorem anaH_lam (fx : Fixes) (reg : Registry) (D : Bool) (st : AState) (ln : Nat) (g : Str)
    (ps : List Param) (defaults : List Expr) (e : Expr)
    (hps : ps.all simpleParam = true) (hd : fragBExprs D defaults = true) (he : fragBExpr D e = true)
    (h : ModOK st) :
    ModStep st (runOps reg st (cStmt fx ln (.assign [.name g] (.lambda (.mk ps defaults none [] [] none) e)))) := by
  rw [lam_defaults_eq fx reg D h.inv ln g ps defaults e hps hd]
  exact modStep_fun reg D st st.line _ _ g _ _ h (fun _ hok => funAna_lam fx reg D hok ln g ps e hps he)

theorem stepH_lam (fx : Fixes) (reg : Registry) (D : Bool) (f : Nat) (s : XState) (st : AState) (ln : Nat) (g : Str)
    (ps : List Param) (defaults : List Expr) (e : Expr) (hg : simpleName g = true)
    (hps : ps.all simpleParam = true) (hd : fragBExprs D defaults = true) (he : fragBExpr D e = true)
    (h : CorrH D s st) :
    StepH fx reg D ln f (.assign [.name g] (.lambda (.mk ps defaults none [] [] none) e)) s st (noIfExprs defaults = true) :=
  stepH_fun fx reg D _ f s st ln st.line g defaults (fun dvs => lamClosure ps dvs e) (paramNames ps)
    (loadsOf e) (cStmt fx ln (.assign [.name g] (.lambda (.mk ps [] none [] [] none) e))) hg hd
    (execLamH f s g ps defaults e) (fun dvs => ⟨closOK_lam D ps dvs e he, rfl, rfl⟩)
    (lam_defaults_eq fx reg D h.ok.inv ln g ps defaults e hps hd)
    (fun _ hok => funAna_lam fx reg D hok ln g ps e hps he) h

theorem plainStmtH_located (l : Nat) (s : Stmt) : plainStmtH (.located l s) = plainStmtH s := by
  simp [plainStmtH, plainStmtB, plainDefaults]

/-- a `located` wrapper around a statement for which the lock step holds -/
theorem stepH_located (fx : Fixes) (reg : Registry) (D : Bool) (l : Nat) (s' : Stmt) (f : Nat) (s : XState) (st : AState) (ln : Nat)
    (h : CorrH D s st)
    (ih : ∀ f', StepH fx reg D l f' s' { s with line := l } { st with line := l } (plainStmtH s' = true)) :
    StepH fx reg D ln f (.located l s') s st (plainStmtH (.located l s') = true) := by
  have h0 : ModStep st { st with line := l } := ModStep.of_heap rfl rfl rfl rfl ⟨[], by simp⟩ (fun _ h => h)
  unfold StepH
  simp only [cStmt, runOps_setLine, plainStmtH_located]
  cases f with
  | zero =>
    obtain ⟨i1, _, _⟩ := ih 0
    rw [execStmt]
    refine ⟨h0.trans i1, fun n hn => ?_, fun fl hfl => by cases hfl⟩
    obtain ⟨m, hm, hmn⟩ := h.corr.ne n hn
    exact ⟨m, (h0.trans i1).mono m hm, hmn⟩
  | succ f =>
    obtain ⟨i1, i2, i3⟩ := ih f
    simp only [execStmt, X.bind_def, X.modify]
    refine ⟨h0.trans i1, i2, fun fl hfl => ?_⟩
    obtain ⟨q1, q2, q3⟩ := i3 fl hfl
    exact ⟨q1, q2, fun hpl hp => q3 hpl (hp.line l)⟩

theorem modOK_line {st : AState} (h : ModOK st) (l : Nat) : ModOK { st with line := l } :=
  h.step (ModStep.of_heap rfl rfl rfl rfl ⟨[], by simp⟩ (fun _ h => h))

/-- `def` statements and assigned lambdas of fragment H: the analysis alone is a module-level step, and it is in lock
    step with the reference run -/
theorem stepH_funL (fx : Fixes) (reg : Registry) (D : Bool) : ∀ (stmt : Stmt) (f : Nat) (s : XState) (st : AState) (ln : Nat),
    (fragDefH D stmt || fragLam D stmt) = true →
    (ModOK st → ModStep st (runOps reg st (cStmt fx ln stmt))) ∧
    (CorrH D s st → StepH fx reg D ln f stmt s st (plainStmtH stmt = true))
  | .located l s', f, s, st, ln, hfr => by
    have hfr' : (fragDefH D s' || fragLam D s') = true := by simpa [fragDefH, fragLam] using hfr
    refine ⟨fun hok => ?_, fun h => ?_⟩
    · simp only [cStmt, runOps_setLine]
      have h0 : ModStep st { st with line := l } := ModStep.of_heap rfl rfl rfl rfl ⟨[], by simp⟩ (fun _ h => h)
      exact h0.trans ((stepH_funL fx reg D s' f s { st with line := l } l hfr').1 (modOK_line hok l))
    · refine stepH_located fx reg D l s' f s st ln h (fun f' => ?_)
      exact (stepH_funL fx reg D s' f' _ _ l hfr').2 (h.line l)
  | .funcDef name a body decos ret, f, s, st, ln, hfr => by
    have hfr' : fragDefH D (.funcDef name a body decos ret) = true := by simpa [fragLam] using hfr
    obtain ⟨ps, defaults, rfl, rfl, rfl, hn, hps, hd, _, hb⟩ := fragDefH_funcDef hfr'
    exact ⟨anaH_def fx reg D st ln name ps defaults body hn hps hd hb, fun h =>
      (stepH_def fx reg D f s st ln name ps defaults body hn hps hd hb h).weaken
        (fun hp => by simp only [plainStmtH, plainDefaults, Bool.and_eq_true] at hp; exact hp.2)⟩
  | .assign ts v, f, s, st, ln, hfr => by
    have hfr' : fragLam D (.assign ts v) = true := by simpa [fragDefH] using hfr
    obtain ⟨g, ps, defaults, e, rfl, rfl, hg, hps, hd, _, he⟩ := fragLam_assign hfr'
    exact ⟨anaH_lam fx reg D st ln g ps defaults e hps hd he, fun h =>
      (stepH_lam fx reg D f s st ln g ps defaults e hg hps hd he h).weaken
        (fun hp => by simp only [plainStmtH, plainDefaults, Bool.and_eq_true] at hp; exact hp.2)⟩
  | .expr _, _, _, _, _, hfr => by simp [fragDefH, fragLam] at hfr
  | .pass, _, _, _, _, hfr => by simp [fragDefH, fragLam] at hfr
  | .import_ _, _, _, _, _, hfr => by simp [fragDefH, fragLam] at hfr
  | .importFrom _ _, _, _, _, _, hfr => by simp [fragDefH, fragLam] at hfr
  | .augAssign _ _, _, _, _, _, hfr => by simp [fragDefH, fragLam] at hfr
  | .annAssign _ _ _, _, _, _, _, hfr => by simp [fragDefH, fragLam] at hfr
  | .classDef _ _ _ _, _, _, _, _, hfr => by simp [fragDefH, fragLam] at hfr
  | .for_ _ _ _ _, _, _, _, _, hfr => by simp [fragDefH, fragLam] at hfr
  | .while_ _ _ _, _, _, _, _, hfr => by simp [fragDefH, fragLam] at hfr
  | .if_ _ _ _, _, _, _, _, hfr => by simp [fragDefH, fragLam] at hfr
  | .with_ _ _, _, _, _, _, hfr => by simp [fragDefH, fragLam] at hfr
  | .try_ _ _ _ _, _, _, _, _, hfr => by simp [fragDefH, fragLam] at hfr
  | .return_ _, _, _, _, _, hfr => by simp [fragDefH, fragLam] at hfr
  | .raise_ _, _, _, _, _, hfr => by simp [fragDefH, fragLam] at hfr
  | .delete _, _, _, _, _, hfr => by simp [fragDefH, fragLam] at hfr
  | .global_ _, _, _, _, _, hfr => by simp [fragDefH, fragLam] at hfr
  | .nonlocal_ _, _, _, _, _, hfr => by simp [fragDefH, fragLam] at hfr

/-- statements of fragment B inside fragment H -/
theorem stepH_B (fx : Fixes) (reg : Registry) (D : Bool) (stmt : Stmt) (f : Nat) (s : XState) (st : AState) (ln : Nat)
    (hfr : fragBStmt D stmt = true) (h : CorrH D s st) : StepH fx reg D ln f stmt s st (plainStmtH stmt = true) := by
  have hs := modStep_stmtB fx reg D stmt ln st hfr h.ok.inv.inFunc h.ok.topLt
  obtain ⟨h1, h2⟩ := stmtB fx reg D stmt f s st ln hfr h.corr
  refine ⟨hs, h1, fun fl hfl => ?_⟩
  obtain ⟨b1, b2, b3, b4⟩ := h2 fl hfl
  have hfn := funcs_stmtB D stmt f s hfr fl hfl
  refine ⟨b1, ⟨b2, h.ok.step hs, ?_, ?_⟩, fun hpl hp => ?_⟩
  · intro c hc; rw [hfn] at hc; exact h.shape c hc
  · intro c hc; rw [hfn] at hc; exact (h.cov c hc).mono h.ok.inv.ok hs
  · simp only [plainStmtH, Bool.and_eq_true] at hpl
    obtain ⟨m1, m2⟩ := b4 hpl.1 hp.rd
    exact hp.step m1 m2 hs hfn (b3 hp.rd)

theorem stepH (fx : Fixes) (reg : Registry) (D : Bool) (stmt : Stmt) (f : Nat) (s : XState) (st : AState) (ln : Nat)
    (hfr : fragHStmt D stmt = true) (h : CorrH D s st) : StepH fx reg D ln f stmt s st (plainStmtH stmt = true) := by
  simp only [fragHStmt, Bool.or_eq_true] at hfr
  rcases hfr with (hfr | hfr) | hfr
  · exact stepH_B fx reg D stmt f s st ln hfr h
  · exact (stepH_funL fx reg D stmt f s st ln (by simp [hfr])).2 h
  · exact (stepH_funL fx reg D stmt f s st ln (by simp [hfr])).2 h

theorem modStep_stmtH (fx : Fixes) (reg : Registry) (D : Bool) (stmt : Stmt) (ln : Nat) (st : AState)
    (hfr : fragHStmt D stmt = true) (h : ModOK st) : ModStep st (runOps reg st (cStmt fx ln stmt)) := by
  simp only [fragHStmt, Bool.or_eq_true] at hfr
  rcases hfr with (hfr | hfr) | hfr
  · exact modStep_stmtB fx reg D stmt ln st hfr h.inv.inFunc h.topLt
  · exact (stepH_funL fx reg D stmt 0 {} st ln (by simp [hfr])).1 h
  · exact (stepH_funL fx reg D stmt 0 {} st ln (by simp [hfr])).1 h

theorem modStep_stmtsH (fx : Fixes) (reg : Registry) (D : Bool) : ∀ (ss : List Stmt) (ln : Nat) (st : AState),
    fragH D ss = true → ModOK st → ModStep st (runOps reg st (cStmts fx ln ss))
  | [], _, st, _, _ => by simp only [cStmts]; exact ModStep.refl st
  | s :: ss, ln, st, hfr, h => by
    simp only [fragH, List.all_cons, Bool.and_eq_true] at hfr
    simp only [cStmts, runOps_append]
    have h1 := modStep_stmtH fx reg D s ln st hfr.1 h
    exact h1.trans (modStep_stmtsH fx reg D ss ln _ (by simpa [fragH] using hfr.2) (h.step h1))


/-! ### the module-level statements of a program of fragment H -/

theorem stmtsH (fx : Fixes) (reg : Registry) (D : Bool) : ∀ (ss : List Stmt) (f : Nat) (s : XState) (st : AState) (ln : Nat),
    fragH D ss = true → CorrH D s st →
    (∀ n ∈ (execStmts f {} ss s).1.ne, ∃ m ∈ (runOps reg st (cStmts fx ln ss)).missing,
        headOf m.name = n ∧ (D = false → m.name = n)) ∧
    (∀ fl, (execStmts f {} ss s).2 = .ok fl → CorrH D (execStmts f {} ss s).1 (runOps reg st (cStmts fx ln ss)) ∧
      (ss.all plainStmtH = true → PlainInvH D reg s st →
        PlainInvH D reg (execStmts f {} ss s).1 (runOps reg st (cStmts fx ln ss))))
  | ss, 0, s, st, ln, hfr, h => by
    have hm := (modStep_stmtsH fx reg D ss ln st hfr h.ok).mono
    rw [execStmts]
    refine ⟨fun n hn => ?_, fun fl hfl => by cases hfl⟩
    obtain ⟨m, hmm, hmn⟩ := h.corr.ne n hn
    exact ⟨m, hm m hmm, hmn⟩
  | [], f + 1, s, st, ln, _, h => by
    simp only [execStmts, cStmts, X.pure_def]
    exact ⟨h.corr.ne, fun _ _ => ⟨h, fun _ hp => hp⟩⟩
  | stmt :: ss, f + 1, s, st, ln, hfr, h => by
    simp only [fragH, List.all_cons, Bool.and_eq_true] at hfr
    have hfr2 : fragH D ss = true := by simpa [fragH] using hfr.2
    obtain ⟨hs1, h1, h2⟩ := stepH fx reg D stmt f s st ln hfr.1 h
    simp only [execStmts, cStmts, runOps_append, X.bind_def]
    cases hr : execStmt f {} stmt s with
    | mk s' r =>
      rw [hr] at h1 h2
      cases r with
      | error x =>
        simp only
        refine ⟨fun n hn => ?_, fun fl hfl => by cases hfl⟩
        obtain ⟨m, hm, hmn⟩ := h1 n hn
        exact ⟨m, (modStep_stmtsH fx reg D ss ln _ hfr2 (h.ok.step hs1)).mono m hm, hmn⟩
      | ok fl0 =>
        obtain ⟨hfl0, hc, hpl⟩ := h2 fl0 rfl
        subst hfl0
        simp only
        obtain ⟨r1, r2⟩ := stmtsH fx reg D ss f s' _ ln hfr2 hc
        refine ⟨r1, fun fl hfl => ?_⟩
        obtain ⟨q1, q2⟩ := r2 fl hfl
        refine ⟨q1, fun hall hp => ?_⟩
        simp only [List.all_cons, Bool.and_eq_true] at hall
        exact q2 hall.2 (hpl hall.1 hp)

/-! ### the calls after the last module-level statement -/

theorem CorrH.callAna {D : Bool} {s s' : XState} {st st' : AState} (h : CorrH D s st) (ha : CallAna st st')
    (hs : SameGlob s s') (hne : s'.ne = s.ne) : CorrH D s' st' := by
  have hst := ha.step
  refine ⟨?_, h.ok.step hst, ?_, ?_⟩
  · have hc := h.corr.glob hs hne
    refine ⟨?_, ?_, ?_, by rw [ha.inFunc]; exact hc.inFunc, by rw [ha.stack]; exact hc.topMem,
      by rw [ha.stack, ha.heap]; exact hc.topLt, fun hD => ?_⟩
    · intro n hn; rw [hc.names n hn]; unfold unboundA; rw [ha.heap, ha.stack]
    · unfold noStarA; rw [ha.heap, ha.stack]; exact hc.noStar
    · intro n hn; obtain ⟨m, hm, hmn⟩ := hc.ne n hn; exact ⟨m, ha.mono m hm, hmn⟩
    · have := hc.dk hD; unfold DK at *; rw [ha.heap, ha.stack]; exact this
  · intro c hc; rw [hs.funcs] at hc; exact h.shape c hc
  · intro c hc; rw [hs.funcs] at hc; exact (h.cov c hc).mono h.ok.inv.ok hst

/-- a global read by a closure body that is unbound when the calls run waits in the deferred list -/
theorem call_pendH (reg : Registry) {D : Bool} {s : XState} {st : AState} (h : CorrH D s st) {n : Str}
    (hp : CallPH s n) (hu : unboundX s n) : Pend D reg st n := by
  obtain ⟨c, hmem, hhead, hnl⟩ := hp
  have hcok := h.shape c hmem
  simp only [List.mem_map] at hhead
  obtain ⟨d, hd, rfl⟩ := hhead
  obtain ⟨g1, g2⟩ := closLoads_good hcok d hd
  obtain ⟨fname, hbn, hcv⟩ := h.cov c hmem
  have hua : unboundA st (headOf d) := (h.corr.names _ (headOf_good g1)).mp hu
  have hdk : dotFree d = false → DK st := by
    intro hdf
    apply h.corr.dk
    cases D with
    | true => rfl
    | false => rw [g2 rfl] at hdf; cases hdf
  rcases hcv d hd hnl with hb' | ⟨e, he, hen, hfz⟩
  · exact absurd hua (not_unboundA.mpr hb')
  · obtain ⟨p1, p2⟩ := frozen_pend reg h.ok.inv.ok h.corr.noStar hdk g1 hfz hen hnl hbn hua
    exact ⟨e, he, by rw [hen], fun hD => by rw [hen, headOf_dotFree (g2 hD)], p1, p2⟩

theorem callH_core (fx : Fixes) (reg : Registry) (D : Bool) (g : Str) (args : List Expr) (f : Nat) (s : XState) (st : AState)
    (ln : Nat) (hg : simpleName g = true) (hargs : fragBExprs D args = true) (h : CorrH D s st) :
    CallAna st (runOps reg st (cStmt fx ln (.expr (.call (.name g) args)))) ∧
    (∀ n ∈ (execStmt f {} (.expr (.call (.name g) args)) s).1.ne,
      Cover D reg (runOps reg st (cStmt fx ln (.expr (.call (.name g) args)))) n) ∧
    (∀ fl, (execStmt f {} (.expr (.call (.name g) args)) s).2 = .ok fl → fl = Flow.normal ∧
      CorrH D (execStmt f {} (.expr (.call (.name g) args)) s).1 (runOps reg st (cStmt fx ln (.expr (.call (.name g) args)))) ∧
      (execStmt f {} (.expr (.call (.name g) args)) s).1.funcs = s.funcs ∧
      (noIfExprs args = true → RD D reg st →
        (runOps reg st (cStmt fx ln (.expr (.call (.name g) args)))).missing = st.missing)) := by
  have hops : cStmt fx ln (.expr (.call (.name g) args)) = (g :: loadsOfs args).map Op.load := by
    simp [cStmt, cExpr, cExprs_loads fx D args hargs]
  rw [hops]
  have hA : AnaL reg st (runOps reg st ((g :: loadsOfs args).map Op.load)) (g :: loadsOfs args) :=
    anaL_loads reg _ st h.corr.inFunc
  have ha : CallAna st (runOps reg st ((g :: loadsOfs args).map Op.load)) :=
    hA.callAna (runOps_loads_inClass reg _ st h.corr.inFunc)
  have hgood : ∀ d ∈ g :: loadsOfs args, goodDotted d = true ∧ (D = false → dotFree d = true) := by
    intro d hd
    rcases List.mem_cons.mp hd with rfl | hd
    · exact ⟨by simp [goodDotted, simpleName_split hg, hg], fun _ => by simpa [dotFree] using simpleName_dotFree hg⟩
    · exact loadss_good D args hargs d hd
  have hold : ∀ (s' : XState), s'.ne = s.ne → ∀ n ∈ s'.ne, Cover D reg (runOps reg st ((g :: loadsOfs args).map Op.load)) n := by
    intro s' hne n hn
    rw [hne] at hn
    obtain ⟨m, hm, hmn⟩ := h.corr.ne n hn
    exact .inl ⟨m, ha.mono m hm, hmn⟩
  refine ⟨ha, ?_⟩
  match f with
  | 0 =>
    rw [execStmt]
    exact ⟨hold s rfl, fun fl hfl => by cases hfl⟩
  | 1 =>
    simp only [execStmt, evalExpr, X.bind_def, X.throw]
    exact ⟨hold s rfl, fun fl hfl => by cases hfl⟩
  | f + 2 =>
    let pre : X (RVal × List RVal) :=
      evalExpr f {} (.name g) >>= fun fv => evalExprs f {} args >>= fun avs => (Pure.pure (fv, avs) : X (RVal × List RVal))
    have hpre : EvalB {} s ((g :: loadsOfs args).map headOf) (true && (noIfExprs args && true)) (pre s) := by
      have h1 := (evalB {} (by simp [CtxOK]) D f).1 (.name g) s (by simpa [fragBExpr] using hg)
      have := EvalB.bind h1 (fun fv s1 _ => EvalB.bind ((evalB {} (by simp [CtxOK]) D f).2 args s1 hargs)
        (fun avs s2 _ => EvalB.pure {} s2 (fv, avs)))
      simpa [headsOf, headsOfs, loadsOf, noIfExpr] using this
    have hex : execStmt (f + 2) {} (.expr (.call (.name g) args)) s =
        (pre >>= fun p => callVal f p.1 p.2 >>= fun _ => (Pure.pure Flow.normal : X Flow)) s := by
      simp only [execStmt, evalExpr, X.bind_def, pre, X.pure_def]
      cases evalExpr f {} (Expr.name g) s with
      | mk s1 r1 =>
        cases r1 with
        | error x => rfl
        | ok fv =>
          simp only
          cases evalExprs f {} args s1 with
          | mk s2 r2 =>
            cases r2 with
            | error x => rfl
            | ok avs => rfl
    rw [hex, X.bind_def]
    have hcov := corr_evalB h.corr hA hgood hpre
    cases hp : pre s with
    | mk s1 r1 =>
      rw [hp] at hpre hcov
      cases r1 with
      | error x =>
        simp only
        exact ⟨fun n hn => .inl (hcov n hn), fun fl hfl => by cases hfl⟩
      | ok p =>
        simp only
        have hsame : SameUpToLog s s1 := hpre.same
        have hne1 : s1.ne = s.ne := (hpre.ok p rfl).1
        have hshape1 : ∀ c ∈ s1.funcs, ClosOK D c := by intro c hc; rw [hsame.funcs] at hc; exact h.shape c hc
        have hrun := callVal_runH D f p.1 p.2 s1 hshape1
        rw [X.bind_def]
        cases hc : callVal f p.1 p.2 s1 with
        | mk s2 r2 =>
          rw [hc] at hrun
          have hne2 : ∀ n ∈ s2.ne, Cover D reg (runOps reg st ((g :: loadsOfs args).map Op.load)) n := by
            intro n hn
            rcases hrun.ne n hn with h1 | ⟨hcp, hu⟩
            · exact hold s1 hne1 n h1
            · have hc1 : CorrH D s1 st := h.callAna (CallAna.refl st) hsame.glob hne1
              exact Cover.mono (Or.inr (call_pendH reg hc1 hcp hu)) ha
          cases r2 with
          | error x =>
            simp only
            exact ⟨hne2, fun fl hfl => by cases hfl⟩
          | ok v =>
            simp only [X.pure_def]
            refine ⟨hne2, fun fl hfl => ⟨by cases hfl; rfl, ?_, (hsame.glob.trans hrun.same).funcs, fun hno hrd => ?_⟩⟩
            · exact h.callAna ha (hsame.glob.trans hrun.same) ((hrun.ok v rfl).trans hne1)
            · apply hA.same
              intro d hd
              have hgd := (hgood d hd).1
              refine ⟨hgd, fun hun => ?_, fun hdf => ?_⟩
              · refine (hpre.ok p rfl).2 (by simp [hno]) (headOf d) (List.mem_map.mpr ⟨d, hd, rfl⟩) ⟨by simp [isGlobalIn], ?_⟩
                exact (h.corr.names _ (headOf_good hgd)).mpr hun
              · apply (hrd _).1
                cases D with
                | true => rfl
                | false => have := (hgood d hd).2 rfl; rw [this] at hdf; cases hdf

/-- one trailing call, reference semantics and analysis in lock step -/
theorem callH (fx : Fixes) (reg : Registry) (D : Bool) : ∀ (stmt : Stmt) (f : Nat) (s : XState) (st : AState) (ln : Nat),
    fragCall D stmt = true → CorrH D s st →
    (∀ n ∈ (execStmt f {} stmt s).1.ne, Cover D reg (runOps reg st (cStmt fx ln stmt)) n) ∧
    (∀ fl, (execStmt f {} stmt s).2 = .ok fl → fl = Flow.normal ∧
      CorrH D (execStmt f {} stmt s).1 (runOps reg st (cStmt fx ln stmt)) ∧
      (execStmt f {} stmt s).1.funcs = s.funcs ∧
      (plainCall stmt = true → RD D reg st → (runOps reg st (cStmt fx ln stmt)).missing = st.missing))
  | stmt, 0, s, st, ln, hfr, h => by
    have ha := anaCall fx reg D stmt ln st hfr h.corr.inFunc
    rw [execStmt]
    refine ⟨fun n hn => ?_, fun fl hfl => by cases hfl⟩
    obtain ⟨m, hm, hmn⟩ := h.corr.ne n hn
    exact .inl ⟨m, ha.mono m hm, hmn⟩
  | .located l s', f + 1, s, st, ln, hfr, h => by
    simp only [execStmt, cStmt, runOps_setLine, X.bind_def, X.modify]
    obtain ⟨r1, r2⟩ := callH fx reg D s' f { s with line := l } { st with line := l } l (by simpa [fragCall] using hfr) (h.line l)
    refine ⟨r1, fun fl hfl => ?_⟩
    obtain ⟨q1, q2, q4, q3⟩ := r2 fl hfl
    exact ⟨q1, q2, q4, fun hp hrd => q3 (by simpa [plainCall] using hp) hrd⟩
  | .expr e, f + 1, s, st, ln, hfr, h => by
    obtain ⟨g, args, rfl, hg, hargs⟩ := fragCall_expr hfr
    obtain ⟨_, r1, r2⟩ := callH_core fx reg D g args (f + 1) s st ln hg hargs h
    refine ⟨r1, fun fl hfl => ?_⟩
    obtain ⟨q1, q2, q4, q3⟩ := r2 fl hfl
    exact ⟨q1, q2, q4, fun hp hrd => q3 (by simpa [plainCall] using hp) hrd⟩
  | .assign _ _, _ + 1, _, _, _, hfr, _ => by simp [fragCall] at hfr
  | .pass, _ + 1, _, _, _, hfr, _ => by simp [fragCall] at hfr
  | .import_ _, _ + 1, _, _, _, hfr, _ => by simp [fragCall] at hfr
  | .importFrom _ _, _ + 1, _, _, _, hfr, _ => by simp [fragCall] at hfr
  | .augAssign _ _, _ + 1, _, _, _, hfr, _ => by simp [fragCall] at hfr
  | .annAssign _ _ _, _ + 1, _, _, _, hfr, _ => by simp [fragCall] at hfr
  | .funcDef _ _ _ _ _, _ + 1, _, _, _, hfr, _ => by simp [fragCall] at hfr
  | .classDef _ _ _ _, _ + 1, _, _, _, hfr, _ => by simp [fragCall] at hfr
  | .for_ _ _ _ _, _ + 1, _, _, _, hfr, _ => by simp [fragCall] at hfr
  | .while_ _ _ _, _ + 1, _, _, _, hfr, _ => by simp [fragCall] at hfr
  | .if_ _ _ _, _ + 1, _, _, _, hfr, _ => by simp [fragCall] at hfr
  | .with_ _ _, _ + 1, _, _, _, hfr, _ => by simp [fragCall] at hfr
  | .try_ _ _ _ _, _ + 1, _, _, _, hfr, _ => by simp [fragCall] at hfr
  | .return_ _, _ + 1, _, _, _, hfr, _ => by simp [fragCall] at hfr
  | .raise_ _, _ + 1, _, _, _, hfr, _ => by simp [fragCall] at hfr
  | .delete _, _ + 1, _, _, _, hfr, _ => by simp [fragCall] at hfr
  | .global_ _, _ + 1, _, _, _, hfr, _ => by simp [fragCall] at hfr
  | .nonlocal_ _, _ + 1, _, _, _, hfr, _ => by simp [fragCall] at hfr

theorem callsH (fx : Fixes) (reg : Registry) (D : Bool) : ∀ (ss : List Stmt) (f : Nat) (s : XState) (st : AState) (ln : Nat),
    ss.all (fragCall D) = true → CorrH D s st →
    (∀ n ∈ (execStmts f {} ss s).1.ne, Cover D reg (runOps reg st (cStmts fx ln ss)) n) ∧
    (∀ fl, (execStmts f {} ss s).2 = .ok fl → ss.all plainCall = true → PlainInvH D reg s st →
      CorrH D (execStmts f {} ss s).1 (runOps reg st (cStmts fx ln ss)) ∧
      PlainInvH D reg (execStmts f {} ss s).1 (runOps reg st (cStmts fx ln ss)))
  | ss, 0, s, st, ln, hfr, h => by
    have ha := anaCalls fx reg D ss ln st hfr h.corr.inFunc
    rw [execStmts]
    refine ⟨fun n hn => ?_, fun fl hfl => by cases hfl⟩
    obtain ⟨m, hm, hmn⟩ := h.corr.ne n hn
    exact .inl ⟨m, ha.mono m hm, hmn⟩
  | [], f + 1, s, st, ln, _, h => by
    simp only [execStmts, cStmts, X.pure_def]
    exact ⟨fun n hn => .inl (h.corr.ne n hn), fun _ _ _ hp => ⟨h, hp⟩⟩
  | stmt :: ss, f + 1, s, st, ln, hfr, h => by
    simp only [List.all_cons, Bool.and_eq_true] at hfr
    obtain ⟨h1, h2⟩ := callH fx reg D stmt f s st ln hfr.1 h
    have ha1 := anaCall fx reg D stmt ln st hfr.1 h.corr.inFunc
    simp only [execStmts, cStmts, runOps_append, X.bind_def]
    cases hr : execStmt f {} stmt s with
    | mk s' r =>
      rw [hr] at h1 h2
      cases r with
      | error x =>
        simp only
        refine ⟨fun n hn => ?_, fun fl hfl => by cases hfl⟩
        exact (h1 n hn).mono (anaCalls fx reg D ss ln _ hfr.2 (by rw [ha1.inFunc]; exact h.corr.inFunc))
      | ok fl0 =>
        obtain ⟨hfl0, hc, hfn, hm⟩ := h2 fl0 rfl
        subst hfl0
        simp only
        obtain ⟨r1, r2⟩ := callsH fx reg D ss f s' _ ln hfr.2 hc
        refine ⟨r1, fun fl hfl hpl hp => ?_⟩
        simp only [List.all_cons, Bool.and_eq_true] at hpl
        have hp' : PlainInvH D reg s' (runOps reg st (cStmt fx ln stmt)) :=
          hp.step (hm hpl.1 hp.rd) ha1.deferred ha1.step hfn (hp.rd.congr ha1.heap ha1.stack)
        exact r2 fl hfl hpl.2 hp'

/-! ### initial state and the final answers -/

theorem corrH_init (D : Bool) (builtins : Scope) (ns : List Scope) (s0 : XState) (h : Agree builtins ns s0)
    (hdf : D = true → nsDotFree builtins ns = true) (hb : builtins.isClass = false) (hf : s0.funcs = []) :
    CorrH D s0 (initState builtins ns) :=
  ⟨corr_init D builtins ns s0 h hdf, modOK_init builtins ns h.noClass hb,
   (fun c hc => by rw [hf] at hc; cases hc), (fun c hc => by rw [hf] at hc; cases hc)⟩

theorem plainInvH_init (D : Bool) (reg : Registry) (builtins : Scope) (ns : List Scope) (s0 : XState)
    (hnc : ∀ sc ∈ ns, sc.isClass = false) (hrd : D = true → regDisjoint reg builtins ns = true) :
    PlainInvH D reg s0 (initState builtins ns) :=
  ⟨rfl, (fun e he => by simp [initState] at he), fun hD => RD_init reg builtins ns hnc (hrd hD)⟩

/-- soundness on fragment H, in terms of the analysis state -/
theorem sound_fragH (fx : Fixes) (reg : Registry) (D : Bool) (prog calls : List Stmt) (fuel : Nat) (s0 : XState) (st0 : AState)
    (hfr : fragH D prog = true) (hcalls : calls.all (fragCall D) = true) (h : CorrH D s0 st0) :
    ∀ n ∈ (runProgram fuel prog calls s0).1.ne,
      ∃ m ∈ (finishDeferred reg (runOps reg st0 (cStmts fx 0 (prog ++ calls)))).missing,
        headOf m.name = n ∧ (D = false → m.name = n) := by
  intro n hn
  apply cover_finish
  rw [cStmts_append, runOps_append]
  obtain ⟨h1, h2⟩ := stmtsH fx reg D prog fuel s0 st0 0 hfr h
  have hs1 := modStep_stmtsH fx reg D prog 0 st0 hfr h.ok
  have hinF : (runOps reg st0 (cStmts fx 0 prog)).inFunc = false := by rw [hs1.inFunc]; exact h.corr.inFunc
  have ha2 := anaCalls fx reg D calls 0 _ hcalls hinF
  unfold runProgram at hn
  rw [X.bind_def] at hn
  cases hr : execStmts fuel {} prog s0 with
  | mk s1 r1 =>
    rw [hr] at hn h1 h2
    cases r1 with
    | error x =>
      simp only at hn
      exact Cover.mono (.inl (h1 n hn)) ha2
    | ok fl =>
      have hc := (h2 fl rfl).1
      simp only [X.bind_def, X.modify] at hn
      have hc' : CorrH D { s1 with atEnd := true } (runOps reg st0 (cStmts fx 0 prog)) :=
        hc.callAna (CallAna.refl _) ⟨rfl, rfl, rfl, rfl⟩ rfl
      have hcov := (callsH fx reg D calls fuel { s1 with atEnd := true } _ 0 hcalls hc').1
      cases hr2 : execStmts fuel {} calls { s1 with atEnd := true } with
      | mk s2 r2 =>
        rw [hr2] at hn hcov
        cases r2 with
        | error x => exact hcov n hn
        | ok fl2 => exact hcov n hn

/-- precision on fragment H, in terms of the analysis state -/
theorem precise_fragH (fx : Fixes) (reg : Registry) (D : Bool) (prog calls : List Stmt) (fuel : Nat) (s0 : XState) (st0 : AState)
    (hfr : fragH D prog = true) (hpl : prog.all plainStmtH = true) (hcalls : calls.all (fragCall D) = true)
    (hplc : calls.all plainCall = true) (h : CorrH D s0 st0) (hp : PlainInvH D reg s0 st0)
    (hok : (runProgram fuel prog calls s0).2 = .ok ()) :
    ∀ m ∈ (finishDeferred reg (runOps reg st0 (cStmts fx 0 (prog ++ calls)))).missing,
      ∃ c ∈ (runProgram fuel prog calls s0).1.funcs, m.name ∈ closLoads c ∧
        unboundX (runProgram fuel prog calls s0).1 (headOf m.name) := by
  rw [cStmts_append, runOps_append]
  unfold runProgram at hok ⊢
  rw [X.bind_def] at hok ⊢
  cases hr : execStmts fuel {} prog s0 with
  | mk s1 r1 =>
    rw [hr] at hok
    cases r1 with
    | error x => cases hok
    | ok fl =>
      obtain ⟨hc1, hp1⟩ := (stmtsH fx reg D prog fuel s0 st0 0 hfr h).2 fl (by rw [hr])
      have hp1 := hp1 hpl hp
      rw [hr] at hc1 hp1
      simp only [X.bind_def, X.modify] at hok ⊢
      have hc1' : CorrH D { s1 with atEnd := true } (runOps reg st0 (cStmts fx 0 prog)) :=
        hc1.callAna (CallAna.refl _) ⟨rfl, rfl, rfl, rfl⟩ rfl
      have hp1' : PlainInvH D reg { s1 with atEnd := true } (runOps reg st0 (cStmts fx 0 prog)) :=
        hp1.step rfl rfl (ModStep.refl _) rfl hp1.rd
      cases hr2 : execStmts fuel {} calls { s1 with atEnd := true } with
      | mk s2 r2 =>
        rw [hr2] at hok
        cases r2 with
        | error x => cases hok
        | ok fl2 =>
          obtain ⟨hc2, hp2⟩ := (callsH fx reg D calls fuel _ _ 0 hcalls hc1').2 fl2 (by rw [hr2]) hplc hp1'
          rw [hr2] at hc2 hp2
          simp only [X.pure_def]
          intro m hm
          rcases finish_from reg _ m hm with hm0 | ⟨e, he, hen, hsni⟩
          · rw [hp2.missing] at hm0; cases hm0
          · obtain ⟨c, hcm, fname, g3, g4⟩ := hp2.entries e he
            obtain ⟨q1, q2⟩ := closLoads_good (hc2.shape c hcm) e.name g3
            have hua := frozen_unbound reg hc2.ok.inv.ok g4 q1 (fun hdf => by
              apply hp2.rd
              cases D with
              | true => rfl
              | false => rw [q2 rfl] at hdf; cases hdf) hsni
            refine ⟨c, hcm, by rw [← hen]; exact g3, ?_⟩
            rw [← hen]
            exact (hc2.corr.names _ (headOf_good q1)).mpr hua

end Pfb.C05
