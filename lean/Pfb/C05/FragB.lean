/-
  Pfb.C05.FragB — fragment B of the mini-Python: fragment A (straight-line module-level code) plus
  import statements, dotted reads through bound names, module-level function definitions with straight-line bodies
  that are called only after the last module-level statement, `del x` and augmented assignment.

  The flag `D` ("dots") says whether dotted names may occur (attribute-chain reads, `import a.b`): with `D = false`
  the fragment needs no hypothesis about dotted keys in the caller's namespaces.
-/
import Pfb.C05.Model
namespace Pfb.C05
open Pfb Pfb.PyCore

def dotFree (n : Str) : Bool := !n.contains '.'

mutual
  def fragBExpr (D : Bool) : Expr → Bool
    | .name n => simpleName n
    | .attr e a =>
      D && (match (Expr.attr e a).dotted with
            | some ps => ps.all simpleName
            | none => false)
    | .const => true
    | .bool _ => true
    | .str _ => true
    | .binop l r => fragBExpr D l && fragBExpr D r
    | .ifExp t a b => fragBExpr D t && fragBExpr D a && fragBExpr D b
    | .tuple es => fragBExprs D es
    | .list es => fragBExprs D es
    | .subscript v i => fragBExpr D v && fragBExpr D i
    | _ => false
  def fragBExprs (D : Bool) : List Expr → Bool
    | [] => true
    | e :: es => fragBExpr D e && fragBExprs D es
end

mutual
  /-- the dotted names the analysis loads for an expression of fragment B, in visit order -/
  def loadsOf : Expr → List Str
    | .name n => [n]
    | .attr e a =>
      match (Expr.attr e a).dotted with
      | some ps => [joinDots ps]
      | none => []
    | .binop l r => loadsOf l ++ loadsOf r
    | .ifExp t a b => loadsOf t ++ loadsOf a ++ loadsOf b
    | .tuple es => loadsOfs es
    | .list es => loadsOfs es
    | .subscript v i => loadsOf v ++ loadsOf i
    | _ => []
  def loadsOfs : List Expr → List Str
    | [] => []
    | e :: es => loadsOf e ++ loadsOfs es
end

/-- a loadable dotted name of the fragment: non-empty, every component an identifier -/
def goodDotted (d : Str) : Bool := (splitDots d).all simpleName

/-- an alias of `import …` -/
def importAliasOK (D : Bool) (a : Alias) : Bool :=
  (splitDots a.name).all simpleName && (D || dotFree a.name || a.asname.isSome) &&
    (match a.asname with | some n => simpleName n | none => true)

/-- an alias of `from m import …` -/
def fromAliasOK (a : Alias) : Bool :=
  simpleName a.name && (match a.asname with | some n => simpleName n | none => true)

/-- module-level statements of fragment B, step (i): fragment A + imports + dotted reads -/
def fragBStmt (D : Bool) : Stmt → Bool
  | .expr e => fragBExpr D e
  | .assign ts e => (match singleName ts with | some x => simpleName x | none => false) && fragBExpr D e
  | .pass => true
  | .import_ names => names.all (importAliasOK D)
  | .importFrom _ names => names.all fromAliasOK
  | .located _ s => fragBStmt D s
  | _ => false

def fragB (D : Bool) (prog : List Stmt) : Bool := prog.all (fragBStmt D)

/-- no conditional expression (every read is executed) and no `__all__ = [...]` -/
def plainStmtB : Stmt → Bool
  | .expr e => noIfExpr e
  | .assign ts e => noIfExpr e && (singleName ts != some "__all__".toList)
  | .located _ s => plainStmtB s
  | _ => true

/-! ### fragment C: fragment B + module-level function definitions called only after the last module-level statement -/

/-- statements of a function body of fragment C: straight-line, no nested definitions, no imports -/
def fbodyStmt (D : Bool) : Stmt → Bool
  | .expr e => fragBExpr D e
  | .assign ts e => (match singleName ts with | some x => simpleName x | none => false) && fragBExpr D e
  | .pass => true
  | .return_ none => true
  | .return_ (some e) => fragBExpr D e
  | .located _ s => fbodyStmt D s
  | _ => false

def simpleParam : Param → Bool
  | .mk n none => simpleName n
  | .mk _ (some _) => false

/-- `def name(p1, …, pk): body` without defaults, annotations, decorators, `*args`/`**kw` -/
def fragDef (D : Bool) : Stmt → Bool
  | .located _ s => fragDef D s
  | .funcDef name (.mk params [] none [] [] none) body [] none =>
    simpleName name && params.all simpleParam && body.all (fbodyStmt D)
  | _ => false

def fragCStmt (D : Bool) (s : Stmt) : Bool := fragBStmt D s || fragDef D s

def fragC (D : Bool) (prog : List Stmt) : Bool := prog.all (fragCStmt D)

/-- the statements after the last module-level statement: calls `f(e1, …, ek)` of a plain name -/
def fragCall (D : Bool) : Stmt → Bool
  | .located _ s => fragCall D s
  | .expr (.call (.name f) args) => simpleName f && fragBExprs D args
  | _ => false

/-- no conditional expression in the arguments of a trailing call (every read is executed) -/
def plainCall : Stmt → Bool
  | .located _ s => plainCall s
  | .expr (.call _ args) => noIfExprs args
  | _ => true

/-! ### fragment E (step (iii)): fragment B + `del x` + `x += e` at module level -/

/-- `del x` (one plain name), possibly under `located` -/
def isDel : Stmt → Option Str
  | .delete [.name x] => some x
  | .located _ s => isDel s
  | _ => none

/-- `x += e` with a plain name target, possibly under `located` -/
def isAug : Stmt → Option (Str × Expr)
  | .augAssign (.name x) e => some (x, e)
  | .located _ s => isAug s
  | _ => none

def fragEStmt (D : Bool) (s : Stmt) : Bool :=
  fragBStmt D s ||
  (match isDel s with | some x => simpleName x | none => false) ||
  (match isAug s with | some (x, e) => simpleName x && fragBExpr D e | none => false)

def fragE (D : Bool) (prog : List Stmt) : Bool := prog.all (fragEStmt D)

def hasDel (prog : List Stmt) : Bool := prog.any (fun s => (isDel s).isSome)
def hasAug (prog : List Stmt) : Bool := prog.any (fun s => (isAug s).isSome)

/-- the names deleted somewhere in the program -/
def delNames (prog : List Stmt) : List Str := prog.filterMap isDel

/-- the simple names a module-level statement of fragment E binds -/
def bindsE : Stmt → List Str
  | .assign [.name x] _ => [x]
  | .augAssign (.name x) _ => [x]
  | .import_ names => names.map aliasBinds
  | .importFrom _ names => names.map aliasBinds
  | .located _ s => bindsE s
  | _ => []

/-- every `del x` deletes a name that the program itself has bound before (and not deleted since):
    `B` = the names bound so far -/
def delBound : List Str → List Stmt → Bool
  | _, [] => true
  | B, s :: r =>
    match isDel s with
    | some x => B.contains x && delBound (B.filter (· ≠ x)) r
    | none => delBound (bindsE s ++ B) r

/-- precision: the value of an augmented assignment has no conditional expression -/
def plainStmtE (s : Stmt) : Bool :=
  plainStmtB s && (match isAug s with | some (_, e) => noIfExpr e | none => true)

/-! ### hypotheses about the caller's namespaces and the registry -/

/-- every key of the namespaces given to the analysis is dot-free (needed only when dotted names occur) -/
def nsDotFree (builtins : Scope) (ns : List Scope) : Bool :=
  builtins.items.all (fun kv => dotFree kv.1) && ns.all (fun sc => sc.items.all (fun kv => dotFree kv.1))

/-- no value found in the namespaces is a registry entry (`sys.modules` value), and `None` is not one either:
    then a bound head answers "no import needed" for every dotted name below it (needed for precision of dotted reads only) -/
def regDisjoint (reg : Registry) (builtins : Scope) (ns : List Scope) : Bool :=
  reg.mods.all (fun m => m.2 != Val.none) &&
  builtins.items.all (fun kv => reg.mods.all (fun m => m.2 != kv.2)) &&
  ns.all (fun sc => sc.items.all (fun kv => reg.mods.all (fun m => m.2 != kv.2)))

end Pfb.C05
